(* Proofs for C05, part 2: what a successful scan consumed; canonical output;
   rejection of the stated non-number grammar. *)
From verif Require Import lib.Base model.C05.
From Coq Require Import ZArith Znumtheory.
Open Scope N_scope.

Lemma digit_val_lt10' c : digit_val c < 10 -> is_dec c = true.
Proof.
  unfold digit_val, is_dec. destruct ((48 <=? c) && (c <=? 57)) eqn:E1; [reflexivity|].
  destruct ((97 <=? c) && (c <=? 122)) eqn:E2; [lia|].
  destruct ((65 <=? c) && (c <=? 90)) eqn:E3; lia.
Qed.

(* ---------- what the digit loop consumes ---------- *)
Lemma scan_loop_consumed b : b <= 63 -> forall s acc cnt p iv a c p' iv' rest,
  scan_loop b acc cnt p iv s = (a, c, p', iv', rest) ->
  exists pre, s = pre ++ rest /\ forallb alnum_us pre = true.
Proof.
  intros Hb. induction s as [|ch r IH]; intros acc cnt p iv a c p' iv' rest H.
  - cbn in H. inversion H; subst. exists []. split; reflexivity.
  - cbn [scan_loop] in H. destruct (ch =? cUnd) eqn:EU.
    + apply IH in H as (pre & E & F). exists (ch :: pre). split; [rewrite E; reflexivity|].
      cbn [forallb]. rewrite F. unfold alnum_us. rewrite EU. reflexivity.
    + cbv zeta in H. destruct (b <=? digit_val ch) eqn:EB.
      * inversion H; subst. exists []. split; reflexivity.
      * apply N.leb_gt in EB. apply IH in H as (pre & E & F). exists (ch :: pre).
        split; [rewrite E; reflexivity|]. cbn [forallb]. rewrite F. unfold alnum_us.
        replace (digit_val ch <? 63) with true by (symmetry; apply N.ltb_lt; lia).
        rewrite orb_true_r. reflexivity.
Qed.

(* in base 10 a raised count means a decimal digit was read *)
Lemma scan_loop_counted s : forall acc cnt p iv a c p' iv' rest,
  scan_loop 10 acc cnt p iv s = (a, c, p', iv', rest) ->
  c = cnt \/ existsb is_dec s = true.
Proof.
  induction s as [|ch r IH]; intros acc cnt p iv a c p' iv' rest H.
  - cbn in H. inversion H; subst. left; reflexivity.
  - cbn [scan_loop] in H. destruct (ch =? cUnd) eqn:EU.
    + apply IH in H as [H|H]; [left; exact H|right]. cbn [existsb]. rewrite H. apply orb_true_r.
    + cbv zeta in H. destruct (10 <=? digit_val ch) eqn:EB.
      * inversion H; subst. left; reflexivity.
      * apply N.leb_gt in EB. right. cbn [existsb]. rewrite (digit_val_lt10' ch EB). reflexivity.
Qed.

Lemma scan_prefix_spec s b lg p0 c0' body :
  scan_prefix s = (b, lg, p0, c0', body) ->
  b <= 16 /\ exists pre, s = pre ++ body /\ forallb alnum_us pre = true
  /\ ((exists t, pre = 48 :: t) \/ (pre = [] /\ b = 10 /\ c0' = 0 /\ lg = false)).
Proof.
  unfold scan_prefix. destruct s as [|ch0 r0].
  - intros H; inversion H; subst. split; [lia|]. exists []. repeat split. right. auto.
  - destruct (ch0 =? c0) eqn:E0.
    + apply N.eqb_eq in E0. unfold c0 in E0. subst ch0. destruct r0 as [|ch r].
      * intros H; inversion H; subst. split; [lia|]. exists [48]. repeat split. left. eexists; reflexivity.
      * destruct (is_bB ch) eqn:EB; [|destruct (is_oO ch) eqn:EO; [|destruct (is_xX ch) eqn:EX]];
        intros H; inversion H; subst; (split; [lia|]).
        -- exists [48; ch]. repeat split; [|left; eexists; reflexivity].
           unfold is_bB in EB. apply orb_true_iff in EB as [EB|EB]; apply N.eqb_eq in EB; subst; reflexivity.
        -- exists [48; ch]. repeat split; [|left; eexists; reflexivity].
           unfold is_oO in EO. apply orb_true_iff in EO as [EO|EO]; apply N.eqb_eq in EO; subst; reflexivity.
        -- exists [48; ch]. repeat split; [|left; eexists; reflexivity].
           unfold is_xX in EX. apply orb_true_iff in EX as [EX|EX]; apply N.eqb_eq in EX; subst; reflexivity.
        -- exists [48]. repeat split. left. eexists; reflexivity.
    + intros H; inversion H; subst. split; [lia|]. exists []. repeat split. right. auto.
Qed.

Lemma nat_scan_inv s v rest : nat_scan s = Some (v, rest) ->
  existsb is_dec s = true /\ exists pre, s = pre ++ rest /\ forallb alnum_us pre = true.
Proof.
  unfold nat_scan. destruct (scan_prefix s) as [[[[b lg] p0] c0'] body] eqn:SP.
  destruct (scan_loop b 0 c0' p0 false body) as [[[[acc count] prev] inval] rest0] eqn:SL.
  apply scan_prefix_spec in SP as (Hb & pre & Es & Fp & Hpre).
  pose proof (scan_loop_consumed b ltac:(lia) _ _ _ _ _ _ _ _ _ _ SL) as (pre2 & Eb & F2).
  intros H.
  assert (R : rest0 = rest /\ (count <> 0 \/ lg = true)).
  { destruct (inval || is_und prev); [discriminate|]. destruct (count =? 0) eqn:EC.
    - destruct lg; [|discriminate]. inversion H; subst. auto.
    - apply N.eqb_neq in EC. inversion H; subst. auto. }
  destruct R as [-> Hc]. split.
  - destruct Hpre as [(t & Ep)|(Ep & B10 & C0 & LG)].
    + subst pre s. reflexivity.
    + subst pre b c0' lg. cbn [app] in Es. subst s.
      destruct Hc as [Hc|Hc]; [|discriminate].
      destruct (scan_loop_counted _ _ _ _ _ _ _ _ _ _ SL) as [E|E]; [congruence|exact E].
  - exists (pre ++ pre2). split.
    + rewrite Es, Eb, app_assoc. reflexivity.
    + rewrite forallb_app, Fp, F2. reflexivity.
Qed.

Lemma alnum_us_alphabet c : alnum_us c = true -> in_alphabet c = true.
Proof.
  unfold alnum_us, in_alphabet, digit_val, is_dec. intros H.
  destruct (c =? cUnd); [rewrite !orb_true_r; reflexivity|]. cbn [orb] in H.
  destruct ((48 <=? c) && (c <=? 57)); [reflexivity|].
  destruct ((97 <=? c) && (c <=? 122)); [rewrite !orb_true_r; reflexivity|].
  destruct ((65 <=? c) && (c <=? 90)); [reflexivity|]. discriminate.
Qed.

Lemma forallb_impl {A} (f g : A -> bool) l :
  (forall x, f x = true -> g x = true) -> forallb f l = true -> forallb g l = true.
Proof. intros I. induction l as [|x r IH]; [reflexivity|]. cbn [forallb]. intros H.
  apply andb_true_iff in H as [H1 H2]. rewrite (I _ H1), IH by assumption. reflexivity. Qed.

(* a successful Int.SetString(s, 0): every byte after the first is a letter, digit
   or underscore; the whole text is in the alphabet and has a decimal digit *)
Lemma int_setstring0_inv s z : int_setstring0 s = Some z ->
  exists c r, s = c :: r /\ forallb alnum_us r = true
  /\ forallb in_alphabet s = true /\ existsb is_dec s = true.
Proof.
  unfold int_setstring0. destruct s as [|c r]; [discriminate|]. intros H. exists c, r.
  split; [reflexivity|].
  destruct ((c =? cMinus) || (c =? cPlus)) eqn:ES.
  - destruct (nat_scan r) as [[v [|x rest]]|] eqn:NS; try discriminate.
    apply nat_scan_inv in NS as (D & pre & E & F). rewrite app_nil_r in E. subst pre.
    repeat split; [exact F| |].
    + cbn [forallb]. rewrite (forallb_impl _ _ _ alnum_us_alphabet F), andb_true_r.
      unfold in_alphabet. apply orb_true_iff in ES as [ES|ES]; rewrite ES; rewrite ?orb_true_r; reflexivity.
    + cbn [existsb]. rewrite D. apply orb_true_r.
  - destruct (nat_scan (c :: r)) as [[v [|x rest]]|] eqn:NS; try discriminate.
    apply nat_scan_inv in NS as (D & pre & E & F). rewrite app_nil_r in E. subst pre.
    repeat split; [|exact (forallb_impl _ _ _ alnum_us_alphabet F)|exact D].
    cbn [forallb] in F. apply andb_true_iff in F as [_ F]. exact F.
Qed.

Lemma split_slash_spec s a b : split_slash s = Some (a, b) -> s = a ++ cSlash :: b.
Proof.
  revert a b. induction s as [|c r IH]; intros a b H; [discriminate|].
  cbn [split_slash] in H. destruct (c =? cSlash) eqn:E.
  - apply N.eqb_eq in E. inversion H; subst. reflexivity.
  - destruct (split_slash r) as [[a' b']|]; [|discriminate]. inversion H; subst.
    rewrite (IH a' b eq_refl). reflexivity.
Qed.

Lemma split_slash_none s : has_byte cSlash s = false -> split_slash s = None.
Proof.
  induction s as [|c r IH]; [reflexivity|]. cbn [has_byte existsb split_slash]. intros H.
  apply orb_false_iff in H as [H1 H2]. rewrite N.eqb_sym, H1. unfold has_byte in IH. rewrite IH by assumption.
  reflexivity.
Qed.

(* a successful Rat.SetString on a/b *)
Lemma rat_setstring_inv s q : rat_setstring s = Some q ->
  exists a b n d, split_slash s = Some (a, b) /\ int_setstring0 a = Some n
  /\ nat_scan b = Some (d, []) /\ d <> 0 /\ q = rat_norm n (Z.of_N d).
Proof.
  unfold rat_setstring. destruct (split_slash s) as [[a b]|]; [|discriminate].
  destruct (int_setstring0 a) as [n|] eqn:EI; [|discriminate].
  destruct (nat_scan b) as [[d [|x rest]]|] eqn:EN; try discriminate.
  destruct (d =? 0) eqn:ED; [discriminate|]. apply N.eqb_neq in ED.
  intros H; inversion H; subst. exists a, b, n, d. auto.
Qed.

(* ---------- canonical output ---------- *)
Lemma canonical_normalize_int z : canonical (normalize_int z) = true.
Proof. unfold normalize_int. destruct (C05.in_int z) eqn:E; cbn [canonical]; rewrite E; reflexivity. Qed.

Lemma canonical_normalize_rat n d : (0 < d)%Z -> canonical (normalize_rat (rat_norm n d)) = true.
Proof.
  intros Hd. unfold rat_norm, normalize_rat.
  pose proof (Z.gcd_nonneg n d) as G0.
  assert (G : (Z.gcd n d <> 0)%Z). { intros E. apply Z.gcd_eq_0_r in E. lia. }
  destruct (d / Z.gcd n d =? 1)%Z eqn:E1; [apply canonical_normalize_int|].
  apply Z.eqb_neq in E1. cbn [canonical]. apply andb_true_iff. split.
  - apply Z.ltb_lt.
    assert (1 <= d / Z.gcd n d)%Z; [|lia].
    apply Z.div_le_lower_bound; [lia|].
    rewrite Z.mul_1_r. apply Z.divide_pos_le; [exact Hd|apply Z.gcd_divide_r].
  - apply Z.eqb_eq. apply Z.gcd_div_gcd; [exact G|reflexivity].
Qed.

Section Reject.
  Variable pf : bytes -> option N.
  (* contract S4: ParseFloat only accepts text over the number alphabet without '/',
     with a decimal digit or one of the words inf / infinity / nan; and it returns
     a 64-bit pattern *)
  Hypothesis pf_domain : forall s b, pf s = Some b -> pf_domain_ok s = true /\ b < 2 ^ 64.

  Theorem canonical_output s v : parse_num pf s = PNum v -> canonical v = true.
  Proof.
    unfold parse_num. destruct (has_byte cSlash s).
    - destruct (rat_setstring s) as [q|] eqn:ER; [|discriminate].
      apply rat_setstring_inv in ER as (a & b & n & d & _ & _ & _ & D & ->).
      intros H; inversion H; subst. apply canonical_normalize_rat. lia.
    - destruct (int_setstring0 s) as [z|].
      + intros H; inversion H; subst. apply canonical_normalize_int.
      + destruct (pf s) as [b|] eqn:EP; [|discriminate]. intros H; inversion H; subst.
        cbn [canonical]. apply N.ltb_lt. apply (pf_domain _ _ EP).
  Qed.

  Lemma existsb_app_l {A} (f : A -> bool) a b : existsb f a = true -> existsb f (a ++ b) = true.
  Proof. intros H. rewrite existsb_app, H. reflexivity. Qed.

  Theorem non_number_rejected s : non_number s = true -> parse_num pf s = PNil.
  Proof.
    intros NN. unfold parse_num.
    destruct (has_byte cSlash s) eqn:HS.
    - destruct (rat_setstring s) as [q|] eqn:ER; [|reflexivity]. exfalso.
      apply rat_setstring_inv in ER as (a & b & n & d & SS & EI & EN & _ & _).
      pose proof (split_slash_spec _ _ _ SS) as Es.
      apply int_setstring0_inv in EI as (c & r & Ea & _ & Aa & Da).
      apply nat_scan_inv in EN as (Db & pre & Eb & Fb). rewrite app_nil_r in Eb. subst pre.
      unfold non_number in NN. repeat (apply orb_true_iff in NN as [NN|NN]).
      + subst s a. discriminate.
      + apply negb_true_iff in NN. rewrite Es, forallb_app in NN. cbn [forallb] in NN.
        rewrite Aa, (forallb_impl _ _ _ alnum_us_alphabet Fb) in NN. discriminate.
      + apply andb_true_iff in NN as [NN _]. apply negb_true_iff in NN.
        rewrite Es, (existsb_app_l _ _ _ Da) in NN. discriminate.
      + unfold bad_denominator in NN. rewrite SS, Fb in NN. cbn [negb] in NN. rewrite orb_false_r in NN.
        destruct b; [|discriminate]. cbn in Db. discriminate.
    - destruct (int_setstring0 s) as [z|] eqn:EI.
      + exfalso. apply int_setstring0_inv in EI as (c & r & Es & _ & A & D).
        unfold non_number in NN. repeat (apply orb_true_iff in NN as [NN|NN]).
        * subst s. discriminate.
        * rewrite A in NN. discriminate.
        * rewrite D in NN. discriminate.
        * unfold bad_denominator in NN. rewrite (split_slash_none _ HS) in NN. discriminate.
      + destruct (pf s) as [b|] eqn:EP; [|reflexivity]. exfalso.
        destruct (pf_domain _ _ EP) as [PD _]. unfold pf_domain_ok in PD.
        apply andb_true_iff in PD as [PD D]. apply andb_true_iff in PD as [A _].
        unfold non_number in NN. repeat (apply orb_true_iff in NN as [NN|NN]).
        * destruct s; [|discriminate]. cbn in D. discriminate.
        * rewrite A in NN. discriminate.
        * apply andb_true_iff in NN as [N1 N2]. apply negb_true_iff in N1, N2.
          rewrite N1, N2 in D. discriminate.
        * unfold bad_denominator in NN. rewrite (split_slash_none _ HS) in NN. discriminate.
  Qed.
End Reject.
