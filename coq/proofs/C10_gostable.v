(* C10, part 3: the transcription of Go's sort.Stable (gostableT: insertion-
   sorted blocks of 20, then symMerge passes) satisfies the stable-sort
   contract, for every length and every Less. *)
From Coq Require Import Permutation Sorted.
From verif Require Import lib.Base model.C10 proofs.C10_sort proofs.C10_proofs.
Open Scope nat_scope.

(* ---------- list surgery ---------- *)
Lemma firstn_len_app {A} (a b : list A) : firstn (length a) (a ++ b) = a.
Proof. rewrite firstn_app, Nat.sub_diag, firstn_all. simpl. apply app_nil_r. Qed.
Lemma skipn_len_app {A} (a b : list A) : skipn (length a) (a ++ b) = b.
Proof. rewrite skipn_app, Nat.sub_diag, skipn_all. reflexivity. Qed.
Lemma firstn_len_plus {A} (a b : list A) k : firstn (length a + k) (a ++ b) = a ++ firstn k b.
Proof. rewrite firstn_app. rewrite firstn_all2 by lia. f_equal. f_equal. lia. Qed.
Lemma skipn_len_plus {A} (a b : list A) k : skipn (length a + k) (a ++ b) = skipn k b.
Proof. rewrite skipn_app. rewrite skipn_all2 by lia. simpl. f_equal. lia. Qed.

Lemma nth_len_plus {A} (a b : list A) k d : nth (length a + k) (a ++ b) d = nth k b d.
Proof. rewrite app_nth2 by lia. f_equal. lia. Qed.

Lemma div2_bounds i j : i < j -> i <= Nat.div2 (i + j) < j.
Proof.
  intros H. pose proof (Nat.div2_odd (i + j)) as E.
  destruct (Nat.odd (i + j)); simpl in E; lia.
Qed.

Lemma div2_shift a k : Nat.div2 (a + (a + k)) = a + Nat.div2 k.
Proof.
  pose proof (Nat.div2_odd (a + (a + k))) as E1. pose proof (Nat.div2_odd k) as E2.
  assert (O : Nat.odd (a + (a + k)) = Nat.odd k).
  { replace (a + (a + k)) with (k + 2 * a) by lia. apply Nat.odd_add_mul_2. }
  rewrite O in E1. destruct (Nat.odd k); simpl in *; lia.
Qed.

Lemma SS_app_inv {A} (R : A -> A -> Prop) l1 l2 :
  StronglySorted R (l1 ++ l2) ->
  StronglySorted R l1 /\ StronglySorted R l2 /\ (forall x y, In x l1 -> In y l2 -> R x y).
Proof.
  induction l1 as [|a l1 IH]; simpl; intros H.
  - repeat split; [constructor|exact H|intros ? ? []].
  - inversion H as [|? ? S F]; subst. destruct (IH S) as (S1 & S2 & C).
    rewrite Forall_forall in F. repeat split.
    + constructor; [exact S1|]. apply Forall_forall. intros y Hy. apply F. apply in_or_app; auto.
    + exact S2.
    + intros x y [<-|Hx] Hy; [apply F; apply in_or_app; auto|apply C; auto].
Qed.

(* rotate exchanges two adjacent segments *)
Lemma rotate_frame {X} (A U V B : list X) (tr : list (X * X)) a m b :
  a = length A -> m = a + length U -> b = m + length V ->
  g_rotate (A ++ U ++ V ++ B, tr) a m b = (A ++ V ++ U ++ B, tr).
Proof.
  intros -> -> ->. unfold g_rotate. cbn [fst snd]. f_equal.
  assert (E1 : skipn (length A + length U) (A ++ U ++ V ++ B) = V ++ B)
    by (rewrite skipn_len_plus, skipn_len_app; reflexivity).
  assert (E2 : skipn (length A) (A ++ U ++ V ++ B) = U ++ V ++ B) by apply skipn_len_app.
  assert (E3 : skipn (length A + length U + length V) (A ++ U ++ V ++ B) = B).
  { rewrite <- Nat.add_assoc, skipn_len_plus, skipn_len_plus, skipn_len_app. reflexivity. }
  rewrite E1, E2, E3, firstn_len_app.
  replace (length A + length U + length V - (length A + length U)) with (length V) by lia.
  replace (length A + length U - length A) with (length U) by lia.
  rewrite !firstn_len_app. reflexivity.
Qed.

(* ---------- the binary searches ---------- *)
Section BSearch.
  Context {X : Type} (less : X -> X -> bool) (d : X).
  Variable l : list X.
  Variable probe : nat -> nat * nat.
  Variable neg : bool.
  Definition Pd (c : nat) : bool :=
    xorb (less (nth (fst (probe c)) l d) (nth (snd (probe c)) l d)) neg.

  (* no monotonicity needed: the result is a boundary between a "go right"
     answer and a "go left" answer (or an end of the range) *)
  Lemma bsearch_inv lo hi : forall fuel tr i j,
    lo <= i -> i <= j -> j <= hi -> j - i < fuel ->
    (lo < i -> Pd (i - 1) = true) -> (j < hi -> Pd j = false) ->
    exists k tr', g_bsearch less d fuel (l, tr) i j probe neg = (k, (l, tr')) /\
                  i <= k <= j /\ (lo < k -> Pd (k - 1) = true) /\ (k < hi -> Pd k = false).
  Proof.
    induction fuel as [|f IH]; intros tr i j H1 H2 H3 HF HL HR; [lia|].
    cbn [g_bsearch]. destruct (Nat.ltb i j) eqn:LT.
    - apply Nat.ltb_lt in LT. pose proof (div2_bounds i j LT) as B.
      set (h := Nat.div2 (i + j)) in *. unfold g_less. cbn [fst snd].
      fold (Pd h). destruct (Pd h) eqn:E.
      + destruct (IH ((nth (fst (probe h)) l d, nth (snd (probe h)) l d) :: tr) (S h) j)
          as (k & tr' & EQ & R1 & R2 & R3); try lia.
        * intros _. replace (S h - 1) with h by lia. exact E.
        * exact HR.
        * exists k, tr'. rewrite EQ. repeat split; auto; lia.
      + destruct (IH ((nth (fst (probe h)) l d, nth (snd (probe h)) l d) :: tr) i h)
          as (k & tr' & EQ & R1 & R2 & R3); try lia.
        * exact HL.
        * intros _. exact E.
        * exists k, tr'. rewrite EQ. repeat split; auto; lia.
    - apply Nat.ltb_ge in LT. exists i, tr. repeat split; auto; try lia.
      assert (i = j) by lia. subst j. exact HR.
  Qed.
End BSearch.

(* ---------- elements of prefixes and suffixes by index ---------- *)
Lemma In_firstn_nth {A} (d : A) v : forall l y, In y (firstn v l) ->
  exists i, i < v /\ i < length l /\ nth i l d = y.
Proof.
  induction v as [|v IH]; intros [|x l] y H; simpl in H; try tauto.
  destruct H as [<-|H]; [exists 0; simpl; repeat split; lia|].
  destruct (IH _ _ H) as (i & H1 & H2 & H3). exists (S i). simpl. repeat split; auto; lia.
Qed.

Lemma In_skipn_nth {A} (d : A) v : forall l y, In y (skipn v l) ->
  exists i, v <= i /\ i < length l /\ nth i l d = y.
Proof.
  induction v as [|v IH]; intros l y H.
  - simpl in H. destruct (In_nth _ _ d H) as (i & H1 & H2). exists i. split; [lia|]. split; [exact H1|exact H2].
  - destruct l as [|x l]; simpl in H; [tauto|].
    destruct (IH _ _ H) as (i & H1 & H2 & H3). exists (S i). simpl. repeat split; auto; lia.
Qed.

Lemma SS_nth {A} (R : A -> A -> Prop) (d : A) l : StronglySorted R l ->
  forall i j, i < j -> j < length l -> R (nth i l d) (nth j l d).
Proof.
  induction 1 as [|a l S IH F]; intros i j H1 H2; simpl in *; [lia|].
  destruct j as [|j]; [lia|]. destruct i as [|i].
  - rewrite Forall_forall in F. apply F. apply nth_In. lia.
  - apply IH; lia.
Qed.

Lemma nth_seg_L {A} (d : A) pre L rest u : u < length L ->
  nth (length pre + u) (pre ++ L ++ rest) d = nth u L d.
Proof. intros H. rewrite nth_len_plus. apply app_nth1. exact H. Qed.

Lemma nth_seg_R {A} (d : A) pre L R post v : v < length R ->
  nth (length pre + length L + v) (pre ++ L ++ R ++ post) d = nth v R d.
Proof.
  intros H. rewrite <- Nat.add_assoc, nth_len_plus, nth_len_plus. apply app_nth1. exact H.
Qed.

(* ---------- symMerge merges two adjacent sorted runs stably ---------- *)
Section Merge.
  Context {X : Type} (less : X -> X -> bool) (dd : nat * X) (P : X -> Prop).
  Hypothesis asym : forall a b, P a -> P b -> less a b = true -> less b a = false.
  Hypothesis negtrans : forall a b c, P a -> P b -> P c ->
    less a b = false -> less b c = false -> less a c = false.
  Local Notation Y := (nat * X)%type.
  Let tless (p q : Y) := less (snd p) (snd q).
  Let sorted := StronglySorted (ord_ok less).

  Lemma irrefl a : P a -> less a a = false.
  Proof. intros Pa. destruct (less a a) eqn:E; [|reflexivity]. rewrite (asym a a Pa Pa E) in E. discriminate. Qed.

  (* later elements of a sorted run are not smaller than earlier ones *)
  Lemma sorted_nth_le (L : list Y) i j :
    sorted L -> (forall x, In x L -> P (snd x)) -> i <= j -> j < length L ->
    less (snd (nth j L dd)) (snd (nth i L dd)) = false.
  Proof.
    intros HS PL H1 H2. destruct (Nat.eq_dec i j) as [->|NE].
    - apply irrefl. apply PL. apply nth_In. exact H2.
    - assert (LT : i < j) by lia.
      destruct (SS_nth (ord_ok less) dd L HS i j LT H2) as [H _]. exact H.
  Qed.

  Definition MergePre (L R : list Y) : Prop :=
    sorted L /\ sorted R /\ (forall x y, In x L -> In y R -> fst x < fst y) /\
    (forall x, In x (L ++ R) -> P (snd x)).

  (* strictly smaller, by contradiction through negative transitivity *)
  Lemma lt_chain a b c : P a -> P b -> P c ->
    less b a = false -> less b c = true -> less a c = true.
  Proof.
    intros Pa Pb Pc H1 H2. destruct (less a c) eqn:E; [reflexivity|].
    rewrite (negtrans b a c Pb Pa Pc H1 E) in H2. discriminate.
  Qed.
  Lemma lt_chain2 a b c : P a -> P b -> P c ->
    less a b = true -> less c b = false -> less a c = true.
  Proof.
    intros Pa Pb Pc H1 H2. destruct (less a c) eqn:E; [reflexivity|].
    rewrite (negtrans a c b Pa Pc Pb E H2) in H1. discriminate.
  Qed.

  (* the cut of symMerge: everything left of the cut may stand before
     everything right of it *)
  Lemma cut_cross (L R : list Y) s h :
    MergePre L R -> s <= length L -> h - s <= length R -> s <= h ->
    (0 < s -> h - s < length R ->
     less (snd (nth (h - s) R dd)) (snd (nth (s - 1) L dd)) = false) ->
    (s < length L -> s < h ->
     less (snd (nth (h - 1 - s) R dd)) (snd (nth s L dd)) = true) ->
    forall w z, In w (firstn s L ++ firstn (h - s) R) ->
                In z (skipn s L ++ skipn (h - s) R) -> ord_ok less w z.
  Proof.
    intros (SL & SR & TG & PP) B1 B2 B3 F1 F2 w z Hw Hz.
    assert (PL : forall x, In x L -> P (snd x)) by (intros; apply PP, in_or_app; auto).
    assert (PR : forall x, In x R -> P (snd x)) by (intros; apply PP, in_or_app; auto).
    pose proof SL as SL'. rewrite <- (firstn_skipn s L) in SL'. apply SS_app_inv in SL' as (_ & _ & CL).
    pose proof SR as SR'. rewrite <- (firstn_skipn (h - s) R) in SR'. apply SS_app_inv in SR' as (_ & _ & CR).
    apply in_app_or in Hw as [Hw|Hw]; apply in_app_or in Hz as [Hz|Hz].
    - apply CL; assumption.
    - (* w in L1, z in R2 *)
      destruct (In_firstn_nth dd _ _ _ Hw) as (u & U1 & U2 & <-).
      destruct (In_skipn_nth dd _ _ _ Hz) as (v & V1 & V2 & <-).
      assert (Iw : In (nth u L dd) L) by (apply nth_In; lia).
      assert (Iz : In (nth v R dd) R) by (apply nth_In; lia).
      split; [|intros _; apply TG; assumption].
      specialize (F1 ltac:(lia) ltac:(lia)).
      assert (I1 : In (nth (h - s) R dd) R) by (apply nth_In; lia).
      assert (I2 : In (nth (s - 1) L dd) L) by (apply nth_In; lia).
      apply (negtrans _ (snd (nth (h - s) R dd))); auto.
      + apply sorted_nth_le; auto.
      + apply (negtrans _ (snd (nth (s - 1) L dd))); auto.
        apply sorted_nth_le; auto; lia.
    - (* w in R1, z in L2 *)
      destruct (In_firstn_nth dd _ _ _ Hw) as (v & V1 & V2 & <-).
      destruct (In_skipn_nth dd _ _ _ Hz) as (u & U1 & U2 & <-).
      assert (Iw : In (nth v R dd) R) by (apply nth_In; lia).
      assert (Iz : In (nth u L dd) L) by (apply nth_In; lia).
      specialize (F2 ltac:(lia) ltac:(lia)).
      assert (I1 : In (nth (h - 1 - s) R dd) R) by (apply nth_In; lia).
      assert (I2 : In (nth s L dd) L) by (apply nth_In; lia).
      assert (LT : less (snd (nth v R dd)) (snd (nth u L dd)) = true).
      { apply (lt_chain2 _ (snd (nth s L dd))); auto.
        - apply (lt_chain _ (snd (nth (h - 1 - s) R dd))); auto.
          apply sorted_nth_le; auto; lia.
        - apply sorted_nth_le; auto. }
      split; [apply asym; auto|]. intros C. rewrite C in LT. discriminate.
    - apply CR; assumption.
  Qed.

  Lemma symmerge_sorted : forall fuel pre L R post tr a m b,
    a = length pre -> m = a + length L -> b = m + length R ->
    L <> [] -> R <> [] -> length L + length R <= fuel -> MergePre L R ->
    exists M tr',
      g_symmerge tless dd fuel (pre ++ L ++ R ++ post, tr) a m b = (pre ++ M ++ post, tr') /\
      Permutation (L ++ R) M /\ sorted M.
  Proof.
    induction fuel as [|f IH]; intros pre L R post tr a m b Ea Em Eb NL NR HF MP.
    { destruct L; [congruence|simpl in HF; lia]. }
    assert (LL : 0 < length L) by (destruct L; [congruence|simpl; lia]).
    assert (LR : 0 < length R) by (destruct R; [congruence|simpl; lia]).
    pose proof MP as (SL & SR & TG & PP).
    assert (PL : forall x, In x L -> P (snd x)) by (intros; apply PP, in_or_app; auto).
    assert (PR : forall x, In x R -> P (snd x)) by (intros; apply PP, in_or_app; auto).
    cbn [g_symmerge].
    replace (m - a) with (length L) by lia. replace (b - m) with (length R) by lia.
    set (data := pre ++ L ++ R ++ post).
    assert (NthL : forall u, u < length L -> nth (a + u) data dd = nth u L dd).
    { intros u Hu. subst a. apply nth_seg_L. exact Hu. }
    assert (NthR : forall v, v < length R -> nth (m + v) data dd = nth v R dd).
    { intros v Hv. subst m a. apply nth_seg_R. exact Hv. }
    destruct (Nat.eqb (length L) 1) eqn:E1; [|destruct (Nat.eqb (length R) 1) eqn:E2].
    - (* one element on the left: binary insertion into R *)
      apply Nat.eqb_eq in E1.
      destruct (bsearch_inv tless dd data (fun h => (h, a)) false m b (S b) tr m b)
        as (k & tr' & EQ & KB & K1 & K2); try lia.
      rewrite EQ. cbv beta iota. unfold g_move_right. replace (S (k - 1)) with k by lia.
      destruct L as [|x [|? ?]]; simpl in E1; try lia. clear E1. cbn [length] in *.
      set (v := k - m). assert (Hv : v <= length R) by (unfold v; lia).
      assert (Lf : length (firstn v R) = v) by (apply firstn_length_le; exact Hv).
      assert (ED : data = pre ++ [x] ++ firstn v R ++ (skipn v R ++ post)).
      { unfold data. rewrite <- (firstn_skipn v R) at 1. rewrite <- app_assoc. reflexivity. }
      rewrite ED.
      rewrite (rotate_frame pre [x] (firstn v R) (skipn v R ++ post) tr' a (S a) k)
        by (simpl; unfold v in *; lia).
      exists (firstn v R ++ x :: skipn v R), tr'. split; [|split].
      + f_equal. rewrite <- ?app_assoc. reflexivity.
      + rewrite <- (firstn_skipn v R) at 1. apply (Permutation_middle (firstn v R) (skipn v R) x).
      + pose proof SR as SR'. rewrite <- (firstn_skipn v R) in SR'.
        apply SS_app_inv in SR' as (S1 & S2 & CR).
        assert (Px : P (snd x)) by (apply PL; left; reflexivity).
        assert (Nx : nth a data dd = x).
        { replace a with (a + 0) by lia. rewrite NthL by (simpl; lia). reflexivity. }
        apply SS_app; [exact S1| |].
        * constructor; [exact S2|]. apply Forall_forall. intros y Hy.
          destruct (In_skipn_nth dd _ _ _ Hy) as (i & I1 & I2 & <-).
          assert (Iy : In (nth i R dd) R) by (apply nth_In; lia).
          split; [|intros _; apply TG; [left; reflexivity|exact Iy]].
          assert (K2' : less (snd (nth v R dd)) (snd x) = false).
          { specialize (K2 ltac:(unfold v in *; lia)). unfold Pd in K2. cbn [fst snd] in K2.
            rewrite xorb_false_r in K2. rewrite Nx in K2.
            replace k with (m + v) in K2 by (unfold v; lia). rewrite NthR in K2 by lia. exact K2. }
          apply (negtrans _ (snd (nth v R dd))); auto.
          -- apply PR, nth_In; lia.
          -- apply sorted_nth_le; auto.
        * intros y z Hy [<-|Hz]; [|apply CR; assumption].
          destruct (In_firstn_nth dd _ _ _ Hy) as (i & I1 & I2 & <-).
          assert (Iy : In (nth i R dd) R) by (apply nth_In; lia).
          assert (K1' : less (snd (nth (v - 1) R dd)) (snd x) = true).
          { specialize (K1 ltac:(unfold v in *; lia)). unfold Pd in K1. cbn [fst snd] in K1.
            rewrite xorb_false_r in K1. rewrite Nx in K1.
            replace (k - 1) with (m + (v - 1)) in K1 by (unfold v in *; lia).
            rewrite NthR in K1 by lia. exact K1. }
          assert (LT : less (snd (nth i R dd)) (snd x) = true).
          { apply (lt_chain _ (snd (nth (v - 1) R dd))); auto.
            - apply PR, nth_In; lia.
            - apply sorted_nth_le; auto; lia. }
          split; [apply asym; auto|]. intros C. rewrite C in LT. discriminate.
    - (* one element on the right: binary insertion into L *)
      apply Nat.eqb_eq in E2.
      destruct (bsearch_inv tless dd data (fun h => (m, h)) true a m (S b) tr a m)
        as (k & tr' & EQ & KB & K1 & K2); try lia.
      rewrite EQ. cbv beta iota. unfold g_move_left.
      destruct R as [|y [|? ?]]; simpl in E2; try lia. clear E2. cbn [length] in *.
      set (u := k - a). assert (Hu : u <= length L) by (unfold u; lia).
      assert (Lf : length (firstn u L) = u) by (apply firstn_length_le; exact Hu).
      assert (ED : data = (pre ++ firstn u L) ++ skipn u L ++ [y] ++ post).
      { unfold data. rewrite <- (firstn_skipn u L) at 1. rewrite <- ?app_assoc. reflexivity. }
      rewrite ED.
      rewrite (rotate_frame (pre ++ firstn u L) (skipn u L) [y] post tr' k m (S m)).
      2:{ rewrite app_length. unfold u in *. lia. }
      2:{ rewrite skipn_length. unfold u in *. lia. }
      2:{ simpl. lia. }
      exists (firstn u L ++ y :: skipn u L), tr'. split; [|split].
      + rewrite <- ?app_assoc. reflexivity.
      + rewrite <- (firstn_skipn u L) at 1. rewrite <- app_assoc.
        apply Permutation_app_head. apply Permutation_sym. apply (Permutation_cons_append (skipn u L) y).
      + pose proof SL as SL'. rewrite <- (firstn_skipn u L) in SL'.
        apply SS_app_inv in SL' as (S1 & S2 & CL).
        assert (Py : P (snd y)) by (apply PR; left; reflexivity).
        assert (Ny : nth m data dd = y).
        { replace m with (m + 0) by lia. rewrite NthR by (simpl; lia). reflexivity. }
        apply SS_app; [exact S1| |].
        * constructor; [exact S2|]. apply Forall_forall. intros z Hz.
          destruct (In_skipn_nth dd _ _ _ Hz) as (i & I1 & I2 & <-).
          assert (Iz : In (nth i L dd) L) by (apply nth_In; lia).
          assert (K2' : less (snd y) (snd (nth u L dd)) = true).
          { specialize (K2 ltac:(unfold u in *; lia)). unfold Pd in K2. cbn [fst snd] in K2.
            rewrite Ny in K2. replace k with (a + u) in K2 by (unfold u; lia).
            rewrite NthL in K2 by lia. destruct (tless y (nth u L dd)) eqn:T; [exact T|discriminate]. }
          assert (LT : less (snd y) (snd (nth i L dd)) = true).
          { apply (lt_chain2 _ (snd (nth u L dd))); auto.
            - apply PL, nth_In; lia.
            - apply sorted_nth_le; auto. }
          split; [apply asym; auto|]. intros C. rewrite C in LT. discriminate.
        * intros x z Hx [<-|Hz]; [|apply CL; assumption].
          destruct (In_firstn_nth dd _ _ _ Hx) as (i & I1 & I2 & <-).
          assert (Ix : In (nth i L dd) L) by (apply nth_In; lia).
          split; [|intros _; apply TG; [exact Ix|left; reflexivity]].
          assert (K1' : less (snd y) (snd (nth (u - 1) L dd)) = false).
          { specialize (K1 ltac:(unfold u in *; lia)). unfold Pd in K1. cbn [fst snd] in K1.
            rewrite Ny in K1. replace (k - 1) with (a + (u - 1)) in K1 by (unfold u in *; lia).
            rewrite NthL in K1 by lia.
            destruct (tless y (nth (u - 1) L dd)) eqn:T; [discriminate|exact T]. }
          apply (negtrans _ (snd (nth (u - 1) L dd))); auto.
          -- apply PL, nth_In; lia.
          -- apply sorted_nth_le; auto; lia.
    - (* the general case: cut both runs, rotate, recurse on both halves *)
      apply Nat.eqb_neq in E1. apply Nat.eqb_neq in E2.
      set (tot := length L + length R).
      set (h := Nat.div2 tot).
      assert (Hh : 2 * h <= tot <= 2 * h + 1).
      { pose proof (Nat.div2_odd tot) as E. fold h in E. destruct (Nat.odd tot); simpl in E; lia. }
      assert (Emid : Nat.div2 (a + b) = a + h).
      { replace b with (a + tot) by (unfold tot; lia). apply div2_shift. }
      rewrite Emid.
      set (u0 := if Nat.ltb h (length L) then h - length R else 0).
      set (r0 := if Nat.ltb h (length L) then h else length L).
      assert (ESR : (if Nat.ltb (a + h) m then (a + h + m - b, a + h) else (a, m)) = (a + u0, a + r0)).
      { unfold u0, r0. destruct (Nat.ltb_spec (a + h) m) as [C|C];
          destruct (Nat.ltb_spec h (length L)) as [C'|C']; try lia; f_equal; unfold tot in *; lia. }
      rewrite ESR.
      assert (BND : u0 <= r0 /\ r0 <= length L /\ r0 <= h /\ h - u0 <= length R).
      { unfold u0, r0. destruct (Nat.ltb_spec h (length L)); unfold tot in *; lia. }
      destruct BND as (B1 & B2 & B3 & B4).
      destruct (bsearch_inv tless dd data (fun c => (a + h + m - 1 - c, c)) true (a + u0) (a + r0) (S b) tr
                            (a + u0) (a + r0)) as (k & tr' & EQ & KB & K1 & K2); try lia.
      rewrite EQ. cbv beta iota zeta.
      set (s := k - a). assert (Es : k = a + s) by (unfold s; lia).
      assert (S1 : u0 <= s <= r0) by (unfold s; lia).
      set (L1 := firstn s L). set (L2 := skipn s L).
      set (R1 := firstn (h - s) R). set (R2 := skipn (h - s) R).
      assert (LL1 : length L1 = s) by (apply firstn_length_le; lia).
      assert (LL2 : length L2 = length L - s) by (apply skipn_length).
      assert (LR1 : length R1 = h - s) by (apply firstn_length_le; lia).
      assert (LR2 : length R2 = length R - (h - s)) by (apply skipn_length).
      assert (EL : L = L1 ++ L2) by (symmetry; apply firstn_skipn).
      assert (ER : R = R1 ++ R2) by (symmetry; apply firstn_skipn).
      (* after the rotation (if any) *)
      assert (ROT : (if Nat.ltb k m && Nat.ltb m (a + h + m - k)
                     then g_rotate (data, tr') k m (a + h + m - k) else (data, tr'))
                    = (pre ++ L1 ++ R1 ++ L2 ++ R2 ++ post, tr')).
      { destruct (Nat.ltb_spec k m) as [C1|C1]; destruct (Nat.ltb_spec m (a + h + m - k)) as [C2|C2];
          cbn [andb].
        - assert (ED : data = (pre ++ L1) ++ L2 ++ R1 ++ (R2 ++ post)).
          { unfold data. rewrite EL at 1. rewrite ER at 1. rewrite <- ?app_assoc. reflexivity. }
          rewrite ED. rewrite (rotate_frame (pre ++ L1) L2 R1 (R2 ++ post) tr' k m (a + h + m - k)).
          + rewrite <- ?app_assoc. reflexivity.
          + rewrite app_length. lia.
          + lia.
          + lia.
        - assert (R1 = []) by (destruct R1; [reflexivity|simpl in LR1; lia]).
          f_equal. unfold data. rewrite EL at 1. rewrite ER at 1. rewrite H. rewrite <- ?app_assoc. reflexivity.
        - assert (L2 = []) by (destruct L2; [reflexivity|simpl in LL2; lia]).
          f_equal. unfold data. rewrite EL at 1. rewrite ER at 1. rewrite H. rewrite <- ?app_assoc. reflexivity.
        - assert (L2 = []) by (destruct L2; [reflexivity|simpl in LL2; lia]).
          f_equal. unfold data. rewrite EL at 1. rewrite ER at 1. rewrite H. rewrite <- ?app_assoc. reflexivity. }
      rewrite ROT.
      (* sub-problems *)
      pose proof SL as SL'. rewrite EL in SL'. apply SS_app_inv in SL' as (SL1 & SL2 & CL).
      pose proof SR as SR'. rewrite ER in SR'. apply SS_app_inv in SR' as (SR1 & SR2 & CR).
      assert (IL1 : forall x, In x L1 -> In x L) by (intros; rewrite EL; apply in_or_app; auto).
      assert (IL2 : forall x, In x L2 -> In x L) by (intros; rewrite EL; apply in_or_app; auto).
      assert (IR1 : forall x, In x R1 -> In x R) by (intros; rewrite ER; apply in_or_app; auto).
      assert (IR2 : forall x, In x R2 -> In x R) by (intros; rewrite ER; apply in_or_app; auto).
      assert (MP1 : MergePre L1 R1).
      { repeat split; auto. intros x Hx. apply in_app_or in Hx as [Hx|Hx]; auto. }
      assert (MP2 : MergePre L2 R2).
      { repeat split; auto. intros x Hx. apply in_app_or in Hx as [Hx|Hx]; auto. }
      (* first half *)
      assert (H1 : exists M1 tr1,
        (if Nat.ltb a k && Nat.ltb k (a + h)
         then g_symmerge tless dd f (pre ++ L1 ++ R1 ++ L2 ++ R2 ++ post, tr') a k (a + h)
         else (pre ++ L1 ++ R1 ++ L2 ++ R2 ++ post, tr'))
        = (pre ++ M1 ++ L2 ++ R2 ++ post, tr1) /\ Permutation (L1 ++ R1) M1 /\ sorted M1).
      { destruct (Nat.ltb_spec a k) as [C1|C1]; destruct (Nat.ltb_spec k (a + h)) as [C2|C2]; cbn [andb].
        - destruct (IH pre L1 R1 (L2 ++ R2 ++ post) tr' a k (a + h)) as (M1 & tr1 & E & Pm & Sm);
            try lia; auto.
          + destruct L1; [simpl in LL1; lia|discriminate].
          + destruct R1; [simpl in LR1; lia|discriminate].
          + exists M1, tr1. rewrite E. split; [|auto]. rewrite <- ?app_assoc. reflexivity.
        - assert (R1 = []) by (destruct R1; [reflexivity|simpl in LR1; lia]).
          exists (L1 ++ R1), tr'. split; [rewrite <- ?app_assoc; reflexivity|]. split; [apply Permutation_refl|].
          rewrite H, app_nil_r. exact SL1.
        - assert (L1 = []) by (destruct L1; [reflexivity|simpl in LL1; lia]).
          exists (L1 ++ R1), tr'. split; [rewrite <- ?app_assoc; reflexivity|]. split; [apply Permutation_refl|].
          rewrite H. exact SR1.
        - assert (L1 = []) by (destruct L1; [reflexivity|simpl in LL1; lia]).
          exists (L1 ++ R1), tr'. split; [rewrite <- ?app_assoc; reflexivity|]. split; [apply Permutation_refl|].
          rewrite H. exact SR1. }
      destruct H1 as (M1 & tr1 & E1' & Pm1 & Sm1). rewrite E1'.
      assert (LM1 : length M1 = h).
      { rewrite <- (Permutation_length Pm1), app_length. lia. }
      (* second half *)
      assert (H2 : exists M2 tr2,
        (if Nat.ltb (a + h) (a + h + m - k) && Nat.ltb (a + h + m - k) b
         then g_symmerge tless dd f (pre ++ M1 ++ L2 ++ R2 ++ post, tr1) (a + h) (a + h + m - k) b
         else (pre ++ M1 ++ L2 ++ R2 ++ post, tr1))
        = (pre ++ M1 ++ M2 ++ post, tr2) /\ Permutation (L2 ++ R2) M2 /\ sorted M2).
      { destruct (Nat.ltb_spec (a + h) (a + h + m - k)) as [C1|C1];
          destruct (Nat.ltb_spec (a + h + m - k) b) as [C2|C2]; cbn [andb].
        - replace (pre ++ M1 ++ L2 ++ R2 ++ post) with ((pre ++ M1) ++ L2 ++ R2 ++ post)
            by (rewrite <- ?app_assoc; reflexivity).
          destruct (IH (pre ++ M1) L2 R2 post tr1 (a + h) (a + h + m - k) b) as (M2 & tr2 & E & Pm & Sm);
            try (rewrite ?app_length; unfold tot in *; lia); auto.
          + destruct L2; [simpl in LL2; lia|discriminate].
          + destruct R2; [simpl in LR2; unfold tot in *; lia|discriminate].
          + exists M2, tr2. rewrite E. split; [|auto]. rewrite <- ?app_assoc. reflexivity.
        - assert (R2 = []) by (destruct R2; [reflexivity|simpl in LR2; unfold tot in *; lia]).
          exists (L2 ++ R2), tr1. split; [rewrite <- ?app_assoc; reflexivity|]. split; [apply Permutation_refl|].
          rewrite H, app_nil_r. exact SL2.
        - assert (L2 = []) by (destruct L2; [reflexivity|simpl in LL2; lia]).
          exists (L2 ++ R2), tr1. split; [rewrite <- ?app_assoc; reflexivity|]. split; [apply Permutation_refl|].
          rewrite H. exact SR2.
        - assert (L2 = []) by (destruct L2; [reflexivity|simpl in LL2; lia]).
          exists (L2 ++ R2), tr1. split; [rewrite <- ?app_assoc; reflexivity|]. split; [apply Permutation_refl|].
          rewrite H. exact SR2. }
      destruct H2 as (M2 & tr2 & E2' & Pm2 & Sm2). rewrite E2'.
      exists (M1 ++ M2), tr2. split; [rewrite <- ?app_assoc; reflexivity|]. split.
      + rewrite EL at 1. rewrite ER at 1.
        apply Permutation_trans with ((L1 ++ R1) ++ (L2 ++ R2)).
        * rewrite <- ?app_assoc. apply Permutation_app_head.
          rewrite !app_assoc. apply Permutation_app_tail. apply Permutation_app_comm.
        * apply Permutation_app; assumption.
      + apply SS_app; [exact Sm1|exact Sm2|].
        intros w z Hw Hz.
        apply (Permutation_in _ (Permutation_sym Pm1)) in Hw.
        apply (Permutation_in _ (Permutation_sym Pm2)) in Hz.
        apply (cut_cross L R s h MP); try lia; auto.
        * intros Q1 Q2. specialize (K1 ltac:(unfold u0 in *; destruct (Nat.ltb_spec h (length L)); lia)).
          unfold Pd in K1. cbn [fst snd] in K1.
          replace (a + h + m - 1 - (k - 1)) with (m + (h - s)) in K1 by lia.
          replace (k - 1) with (a + (s - 1)) in K1 by lia.
          rewrite NthR, NthL in K1 by lia.
          destruct (tless (nth (h - s) R dd) (nth (s - 1) L dd)) eqn:T; [discriminate|exact T].
        * intros Q1 Q2. specialize (K2 ltac:(unfold r0 in *; destruct (Nat.ltb_spec h (length L)); lia)).
          unfold Pd in K2. cbn [fst snd] in K2.
          replace (a + h + m - 1 - k) with (m + (h - 1 - s)) in K2 by lia.
          rewrite Es in K2. rewrite NthR, NthL in K2 by lia.
          destruct (tless (nth (h - 1 - s) R dd) (nth s L dd)) eqn:T; [exact T|discriminate].
  Qed.
End Merge.

(* ---------- blocks, passes: the whole of stable, on position-tagged data ---------- *)
Definition TagSorted {X} (T : list (nat * X)) : Prop :=
  StronglySorted (fun a b => fst a < fst b) T.

Lemma insertion_sort_frame {X} (less : X -> X -> bool) pre B post (tr : list (X * X)) a b :
  a = length pre -> b = a + length B ->
  g_insertion_sort less (pre ++ B ++ post, tr) a b =
  (pre ++ isort_acc less [] B ++ post, rev_append (isort_trace_acc less [] B) tr).
Proof.
  intros -> ->. unfold g_insertion_sort. cbn [fst snd].
  replace (length pre + length B - length pre) with (length B) by lia.
  rewrite skipn_len_app, firstn_len_app, firstn_len_app.
  rewrite skipn_len_plus, skipn_len_app. reflexivity.
Qed.

Section Stable.
  Context {X : Type} (less : X -> X -> bool) (dd : nat * X) (P : X -> Prop).
  Hypothesis asym : forall a b, P a -> P b -> less a b = true -> less b a = false.
  Hypothesis negtrans : forall a b c, P a -> P b -> P c ->
    less a b = false -> less b c = false -> less a c = false.
  Local Notation Y := (nat * X)%type.
  Let tless (p q : Y) := less (snd p) (snd q).
  Let sorted := StronglySorted (ord_ok less).

  Lemma isort_acc_sorted_gen rest : forall acc,
    TagSorted rest -> (forall x y, In x acc -> In y rest -> fst x < fst y) ->
    (forall x, In x acc -> P (snd x)) -> (forall x, In x rest -> P (snd x)) ->
    StronglySorted (fun a b => ord_ok less b a) acc ->
    sorted (isort_acc tless acc rest).
  Proof.
    induction rest as [|x r IH]; intros acc TS TG PA PR SA; simpl.
    - apply SS_rev. exact SA.
    - inversion TS as [|? ? TS' F]; subst. rewrite Forall_forall in F. apply IH; auto.
      + intros z y Hz Hy. apply ins_in in Hz as [->|Hz]; [apply F; auto|apply TG; simpl; auto].
      + intros z Hz. apply ins_in in Hz as [->|Hz]; [apply PR; left; auto|apply PA; auto].
      + intros z Hz. apply PR. right. exact Hz.
      + apply (ins_sorted less P asym negtrans); auto.
        * apply PR. left. reflexivity.
        * apply Forall_forall. auto.
        * apply Forall_forall. intros z Hz. apply TG; simpl; auto.
  Qed.

  Lemma block_sorted B : TagSorted B -> (forall x, In x B -> P (snd x)) ->
    sorted (isort_acc tless [] B) /\ Permutation B (isort_acc tless [] B).
  Proof.
    intros TS PB. split.
    - apply isort_acc_sorted_gen; auto; try (intros ? ? []); try (intros ? []). constructor.
    - apply (isort_acc_perm tless B []).
  Qed.

  Inductive Runs (bs : nat) : list Y -> list Y -> Prop :=
  | RunsLast T D : length T <= bs -> Permutation T D -> sorted D -> Runs bs T D
  | RunsCons T1 T2 D1 D2 : length T1 = bs -> T2 <> [] -> Permutation T1 D1 -> sorted D1 ->
      Runs bs T2 D2 -> Runs bs (T1 ++ T2) (D1 ++ D2).

  Lemma Runs_perm bs T D : Runs bs T D -> Permutation T D.
  Proof. induction 1; [assumption|apply Permutation_app; assumption]. Qed.

  Lemma Runs_cons' bs T1 T2 D1 D2 : length T1 = bs -> Permutation T1 D1 -> sorted D1 ->
    Runs bs T2 D2 -> Runs bs (T1 ++ T2) (D1 ++ D2).
  Proof.
    intros L1 P1 S1 R2. destruct T2 as [|t T2].
    - pose proof (Runs_perm _ _ _ R2) as P2. apply Permutation_nil in P2. subst D2.
      rewrite !app_nil_r. apply RunsLast; auto. lia.
    - apply RunsCons; auto. discriminate.
  Qed.

  Lemma Runs_uncons bs T D : Runs bs T D -> bs <= length T ->
    exists T1 T2 D1 D2, T = T1 ++ T2 /\ D = D1 ++ D2 /\ length T1 = bs /\
      Permutation T1 D1 /\ sorted D1 /\ Runs bs T2 D2.
  Proof.
    intros R HL. destruct R as [T D L1 P1 S1|T1 T2 D1 D2 L1 N2 P1 S1 R2].
    - exists T, [], D, []. rewrite !app_nil_r. repeat split; auto; try lia.
      apply RunsLast; [simpl; lia|constructor|constructor].
    - exists T1, T2, D1, D2. repeat split; auto.
  Qed.

  Lemma Runs_last_inv bs T D : Runs bs T D -> length T <= bs -> Permutation T D /\ sorted D.
  Proof.
    intros R HL. destruct R as [T D L1 P1 S1|T1 T2 D1 D2 L1 N2 P1 S1 R2]; [auto|].
    rewrite app_length in HL. destruct T2; [congruence|simpl in HL; lia].
  Qed.

  Lemma TagSorted_app_inv (T1 T2 : list Y) : TagSorted (T1 ++ T2) ->
    TagSorted T1 /\ TagSorted T2 /\ (forall x y, In x T1 -> In y T2 -> fst x < fst y).
  Proof. apply SS_app_inv. Qed.

  Lemma blocks_ok bs : 0 < bs -> forall fuel pre T tr a n,
    a = length pre -> n = a + length T -> length T < fuel ->
    TagSorted T -> (forall x, In x T -> P (snd x)) ->
    exists D tr', g_blocks tless fuel (pre ++ T, tr) a bs n = (pre ++ D, tr') /\ Runs bs T D.
  Proof.
    intros Hbs. induction fuel as [|f IH]; intros pre T tr a n Ea En HF TS PT; [lia|].
    cbn [g_blocks]. destruct (Nat.leb_spec (a + bs) n) as [C|C].
    - assert (SP : exists T1 T2, T = T1 ++ T2 /\ length T1 = bs).
      { exists (firstn bs T), (skipn bs T). split; [symmetry; apply firstn_skipn|].
        apply firstn_length_le. lia. }
      destruct SP as (T1 & T2 & ET & L1). subst T. rewrite app_length in *.
      apply TagSorted_app_inv in TS as (TS1 & TS2 & _).
      assert (PT1 : forall x, In x T1 -> P (snd x)) by (intros; apply PT; apply in_or_app; auto).
      assert (PT2 : forall x, In x T2 -> P (snd x)) by (intros; apply PT; apply in_or_app; auto).
      destruct (block_sorted T1 TS1 PT1) as (SD & PD).
      rewrite (insertion_sort_frame tless pre T1 T2 tr a (a + bs)) by lia.
      replace (pre ++ isort_acc tless [] T1 ++ T2) with ((pre ++ isort_acc tless [] T1) ++ T2)
        by (rewrite <- app_assoc; reflexivity).
      destruct (IH (pre ++ isort_acc tless [] T1) T2
                   (rev_append (isort_trace_acc tless [] T1) tr) (a + bs) n)
        as (D2 & tr' & E & R2); auto.
      + rewrite app_length, <- (Permutation_length PD). lia.
      + lia.
      + lia.
      + exists (isort_acc tless [] T1 ++ D2), tr'. rewrite E. split; [rewrite <- app_assoc; reflexivity|].
        apply Runs_cons'; auto.
    - destruct (block_sorted T TS PT) as (SD & PD).
      replace (pre ++ T) with (pre ++ T ++ []) by (rewrite app_nil_r; reflexivity).
      rewrite (insertion_sort_frame tless pre T [] tr a n) by lia.
      exists (isort_acc tless [] T), (rev_append (isort_trace_acc tless [] T) tr).
      rewrite app_nil_r. split; [reflexivity|]. apply RunsLast; auto. lia.
  Qed.

  Lemma pass_ok bs : 0 < bs -> forall fuel pre T D tr a n,
    a = length pre -> n = a + length D -> length D < fuel -> Runs bs T D ->
    TagSorted T -> (forall x, In x T -> P (snd x)) ->
    exists D' tr', g_pass tless dd fuel (pre ++ D, tr) a bs n = (pre ++ D', tr') /\
                   Runs (2 * bs) T D'.
  Proof.
    intros Hbs. induction fuel as [|f IH]; intros pre T D tr a n Ea En HF R TS PT; [lia|].
    pose proof (Permutation_length (Runs_perm _ _ _ R)) as LTD.
    unfold tless in *. cbn [g_pass]. destruct (Nat.leb_spec (a + 2 * bs) n) as [C|C].
    - destruct (Runs_uncons _ _ _ R) as (T1 & T2' & D1 & D2' & ET & ED & L1 & P1 & S1 & R'); [lia|].
      pose proof (Permutation_length (Runs_perm _ _ _ R')) as LTD'.
      assert (LT2' : length T2' = length T - bs) by (rewrite ET, app_length; lia).
      destruct (Runs_uncons _ _ _ R') as (T2 & T3 & D2 & D3 & ET' & ED' & L2 & P2 & S2 & R''); [lia|].
      subst T2' D2' T D.
      pose proof (Permutation_length P1) as LD1. pose proof (Permutation_length P2) as LD2.
      pose proof TS as TS'. apply TagSorted_app_inv in TS' as (TS1 & TS23 & C1).
      pose proof TS23 as TS23'. apply TagSorted_app_inv in TS23' as (TS2 & TS3 & C2).
      assert (MP : MergePre less P D1 D2).
      { repeat split; auto.
        - intros x y Hx Hy. apply C1.
          + apply (Permutation_in _ (Permutation_sym P1)). exact Hx.
          + apply in_or_app. left. apply (Permutation_in _ (Permutation_sym P2)). exact Hy.
        - intros x Hx. apply PT. apply in_app_or in Hx as [Hx|Hx].
          + apply in_or_app. left. apply (Permutation_in _ (Permutation_sym P1)). exact Hx.
          + apply in_or_app. right. apply in_or_app. left.
            apply (Permutation_in _ (Permutation_sym P2)). exact Hx. }
      rewrite !app_length in *.
      destruct (symmerge_sorted less dd P asym negtrans (S n) pre D1 D2 D3 tr a (a + bs) (a + 2 * bs))
        as (M & tr1 & E & PM & SM); auto; try lia.
      + destruct D1; [simpl in LD1; lia|discriminate].
      + destruct D2; [simpl in LD2; lia|discriminate].
      + rewrite <- ?app_assoc. rewrite E.
        pose proof (Permutation_length PM) as LM. rewrite app_length in LM.
        replace (pre ++ M ++ D3) with ((pre ++ M) ++ D3) by (rewrite <- app_assoc; reflexivity).
        destruct (IH (pre ++ M) T3 D3 tr1 (a + 2 * bs) n) as (D3' & tr2 & E' & R3); auto.
        * rewrite app_length. lia.
        * lia.
        * lia.
        * intros x Hx. apply PT. apply in_or_app. right. apply in_or_app. right. exact Hx.
        * exists (M ++ D3'), tr2. rewrite E'. split; [rewrite <- app_assoc; reflexivity|].
          rewrite app_assoc. apply Runs_cons'; auto.
          -- rewrite app_length. lia.
          -- eapply Permutation_trans; [apply Permutation_app; eassumption|exact PM].
    - destruct (Nat.ltb_spec (a + bs) n) as [C'|C'].
      + destruct (Runs_uncons _ _ _ R) as (T1 & T2 & D1 & D2 & ET & ED & L1 & P1 & S1 & R'); [lia|].
        subst T D. rewrite !app_length in *.
        pose proof (Permutation_length P1) as LD1.
        pose proof (Permutation_length (Runs_perm _ _ _ R')) as LD2.
        destruct (Runs_last_inv _ _ _ R') as (P2 & S2); [lia|].
        pose proof TS as TS'. apply TagSorted_app_inv in TS' as (TS1 & TS2 & C1).
        assert (MP : MergePre less P D1 D2).
        { repeat split; auto.
          - intros x y Hx Hy. apply C1.
            + apply (Permutation_in _ (Permutation_sym P1)). exact Hx.
            + apply (Permutation_in _ (Permutation_sym P2)). exact Hy.
          - intros x Hx. apply PT. apply in_app_or in Hx as [Hx|Hx]; apply in_or_app.
            + left. apply (Permutation_in _ (Permutation_sym P1)). exact Hx.
            + right. apply (Permutation_in _ (Permutation_sym P2)). exact Hx. }
        destruct (symmerge_sorted less dd P asym negtrans (S n) pre D1 D2 [] tr a (a + bs) n)
          as (M & tr1 & E & PM & SM); auto; try lia.
        * destruct D1; [simpl in LD1; lia|discriminate].
        * destruct D2; [simpl in LD2; lia|discriminate].
        * rewrite app_nil_r in E. rewrite E. exists M, tr1. rewrite app_nil_r. split; [reflexivity|].
          apply RunsLast; auto; [rewrite app_length; lia|].
          eapply Permutation_trans; [apply Permutation_app; eassumption|exact PM].
      + destruct (Runs_last_inv _ _ _ R) as (P1 & S1); [lia|].
        exists D, tr. split; [reflexivity|]. apply RunsLast; auto. lia.
  Qed.

  Lemma passes_ok : forall fuel T D tr bs n,
    0 < bs -> n = length D -> n <= bs + fuel -> Runs bs T D ->
    TagSorted T -> (forall x, In x T -> P (snd x)) ->
    exists D' tr', g_passes tless dd fuel (D, tr) bs n = (D', tr') /\
                   Permutation T D' /\ sorted D'.
  Proof.
    induction fuel as [|f IH]; intros T D tr bs n Hbs En HF R TS PT;
      pose proof (Permutation_length (Runs_perm _ _ _ R)) as LTD.
    - destruct (Runs_last_inv _ _ _ R) as (P1 & S1); [lia|]. exists D, tr. auto.
    - cbn [g_passes]. destruct (Nat.ltb_spec bs n) as [C|C].
      + destruct (pass_ok bs Hbs (S n) [] T D tr 0 n) as (D' & tr' & E & R'); auto; try lia.
        cbn [app] in E. rewrite E.
        destruct (IH T D' tr' (2 * bs) n) as (D'' & tr'' & E' & P' & S'); auto; try lia.
        * rewrite <- (Permutation_length (Runs_perm _ _ _ R')). lia.
        * exists D'', tr''. auto.
      + destruct (Runs_last_inv _ _ _ R) as (P1 & S1); [lia|]. exists D, tr. auto.
  Qed.

  Theorem stable_tagged T : TagSorted T -> (forall x, In x T -> P (snd x)) ->
    Permutation T (fst (g_stable tless dd T)) /\ sorted (fst (g_stable tless dd T)).
  Proof.
    intros TS PT. unfold g_stable.
    destruct (blocks_ok 20 ltac:(lia) (S (length T)) [] T [] 0 (length T)) as (D & tr & E & R);
      auto; try lia.
    cbn [app] in E. rewrite E.
    destruct (passes_ok (S (length T)) T D tr 20 (length T)) as (D' & tr' & E' & P' & S'); auto; try lia.
    - apply (Permutation_length (Runs_perm _ _ _ R)).
    - rewrite E'. auto.
  Qed.
End Stable.

(* ---------- the run through a decoration f is the image of the run ---------- *)
Section Sim.
  Context {X Y : Type} (f : Y -> X) (less : X -> X -> bool) (lessY : Y -> Y -> bool).
  Hypothesis HE : forall p q, lessY p q = less (f p) (f q).
  Variable dY : Y.

  Definition gmap (s : @gst Y) : @gst X := (map f (fst s), map (pmap f) (snd s)).

  Lemma sim_less s i j :
    g_less less (f dY) (gmap s) i j =
    (fst (g_less lessY dY s i j), gmap (snd (g_less lessY dY s i j))).
  Proof. unfold g_less, gmap. cbn [fst snd map]. rewrite !map_nth, HE. reflexivity. Qed.

  Lemma sim_rotate s a m b : g_rotate (gmap s) a m b = gmap (g_rotate s a m b).
  Proof.
    unfold g_rotate, gmap. cbn [fst snd]. f_equal.
    rewrite !map_app, !firstn_map, !skipn_map, !firstn_map. reflexivity.
  Qed.

  Lemma sim_insertion_sort s a b :
    g_insertion_sort less (gmap s) a b = gmap (g_insertion_sort lessY s a b).
  Proof.
    unfold g_insertion_sort, gmap. cbn [fst snd].
    rewrite !skipn_map, !firstn_map.
    set (blk := firstn (b - a) (skipn a (fst s))).
    assert (E1 : isort_acc lessY [] blk = isort_acc (fun p q => less (f p) (f q)) [] blk)
      by (apply isort_acc_ext; exact HE).
    assert (E2 : isort_trace_acc lessY [] blk = isort_trace_acc (fun p q => less (f p) (f q)) [] blk)
      by (apply isort_trace_acc_ext; exact HE).
    rewrite E1, E2. f_equal.
    - rewrite !map_app. rewrite (isort_acc_map f less blk []). reflexivity.
    - rewrite !rev_append_rev, map_app, map_rev.
      rewrite (isort_trace_acc_map f less blk []). reflexivity.
  Qed.

  Lemma sim_bsearch probe neg : forall fuel s i j,
    g_bsearch less (f dY) fuel (gmap s) i j probe neg =
    (fst (g_bsearch lessY dY fuel s i j probe neg),
     gmap (snd (g_bsearch lessY dY fuel s i j probe neg))).
  Proof.
    induction fuel as [|k IH]; intros s i j; cbn [g_bsearch]; [reflexivity|].
    destruct (Nat.ltb i j); [|reflexivity].
    rewrite sim_less. destruct (g_less lessY dY s _ _) as [b s1]. cbn [fst snd].
    destruct (xorb b neg); apply IH.
  Qed.

  Lemma sim_symmerge : forall fuel s a m b,
    g_symmerge less (f dY) fuel (gmap s) a m b = gmap (g_symmerge lessY dY fuel s a m b).
  Proof.
    induction fuel as [|k IH]; intros s a m b; cbn [g_symmerge]; [reflexivity|].
    destruct (Nat.eqb (m - a) 1).
    { rewrite sim_bsearch. destruct (g_bsearch lessY dY _ s _ _ _ _) as [i s1]. cbn [fst snd].
      unfold g_move_right. apply sim_rotate. }
    destruct (Nat.eqb (b - m) 1).
    { rewrite sim_bsearch. destruct (g_bsearch lessY dY _ s _ _ _ _) as [i s1]. cbn [fst snd].
      unfold g_move_left. apply sim_rotate. }
    destruct (if Nat.ltb (Nat.div2 (a + b)) m
              then (Nat.div2 (a + b) + m - b, Nat.div2 (a + b)) else (a, m)) as [start0 r0].
    rewrite sim_bsearch. destruct (g_bsearch lessY dY _ s _ _ _ _) as [start s1]. cbn [fst snd].
    destruct (Nat.ltb start m && Nat.ltb m (Nat.div2 (a + b) + m - start));
      destruct (Nat.ltb a start && Nat.ltb start (Nat.div2 (a + b)));
      destruct (Nat.ltb (Nat.div2 (a + b)) (Nat.div2 (a + b) + m - start)
                && Nat.ltb (Nat.div2 (a + b) + m - start) b);
      repeat (rewrite sim_rotate || rewrite IH); reflexivity.
  Qed.

  Lemma sim_blocks bs n : forall fuel s a,
    g_blocks less fuel (gmap s) a bs n = gmap (g_blocks lessY fuel s a bs n).
  Proof.
    induction fuel as [|k IH]; intros s a; cbn [g_blocks]; [reflexivity|].
    destruct (Nat.leb (a + bs) n); rewrite sim_insertion_sort; [apply IH|reflexivity].
  Qed.

  Lemma sim_pass bs n : forall fuel s a,
    g_pass less (f dY) fuel (gmap s) a bs n = gmap (g_pass lessY dY fuel s a bs n).
  Proof.
    induction fuel as [|k IH]; intros s a; cbn [g_pass]; [reflexivity|].
    destruct (Nat.leb (a + 2 * bs) n); [rewrite sim_symmerge; apply IH|].
    destruct (Nat.ltb (a + bs) n); [apply sim_symmerge|reflexivity].
  Qed.

  Lemma sim_passes n : forall fuel s bs,
    g_passes less (f dY) fuel (gmap s) bs n = gmap (g_passes lessY dY fuel s bs n).
  Proof.
    induction fuel as [|k IH]; intros s bs; cbn [g_passes]; [reflexivity|].
    destruct (Nat.ltb bs n); [rewrite sim_pass; apply IH|reflexivity].
  Qed.

  Lemma sim_stable l : g_stable less (f dY) (map f l) = gmap (g_stable lessY dY l).
  Proof.
    unfold g_stable. rewrite map_length.
    change (map f l, @nil (X * X)) with (gmap (l, [])).
    rewrite sim_blocks, sim_passes. reflexivity.
  Qed.
End Sim.

(* ---------- any Less whatsoever: a permutation, and Less only sees input elements ---------- *)
Lemma split4 {A} (l : list A) a m b : a <= m -> m <= b -> b <= length l ->
  exists U0 U V W, l = U0 ++ U ++ V ++ W /\ length U0 = a /\ length U = m - a /\ length V = b - m.
Proof.
  intros H1 H2 H3.
  exists (firstn a l), (firstn (m - a) (skipn a l)),
         (firstn (b - m) (skipn (m - a) (skipn a l))), (skipn (b - m) (skipn (m - a) (skipn a l))).
  repeat split.
  - rewrite !firstn_skipn. reflexivity.
  - apply firstn_length_le. lia.
  - apply firstn_length_le. rewrite skipn_length. lia.
  - apply firstn_length_le. rewrite !skipn_length. lia.
Qed.

Section Inv.
  Context {X : Type} (less : X -> X -> bool) (d : X) (l0 : list X).
  Hypothesis Hd : In d l0.

  Definition Inv (s : @gst X) : Prop :=
    Permutation l0 (fst s) /\ (forall a b, In (a, b) (snd s) -> In a l0 /\ In b l0).

  Lemma Inv_length s : Inv s -> length (fst s) = length l0.
  Proof. intros [H _]. symmetry. apply Permutation_length. exact H. Qed.

  Lemma nth_in_l0 s i : Inv s -> In (nth i (fst s) d) l0.
  Proof.
    intros [H _]. destruct (nth_in_or_default i (fst s) d) as [I|E].
    - apply (Permutation_in _ (Permutation_sym H)). exact I.
    - rewrite E. exact Hd.
  Qed.

  Lemma Inv_less s i j : Inv s -> Inv (snd (g_less less d s i j)).
  Proof.
    intros I. pose proof I as [H1 H2]. unfold g_less. cbn [fst snd]. split; [exact H1|].
    intros a b [E|H]; [|apply H2; exact H]. inversion E; subst. split; apply nth_in_l0; exact I.
  Qed.

  Lemma Inv_rotate s a m b : Inv s -> a <= m -> m <= b -> b <= length (fst s) ->
    Inv (g_rotate s a m b).
  Proof.
    intros [H1 H2] B1 B2 B3. destruct s as [l tr]. cbn [fst snd] in *.
    destruct (split4 l a m b B1 B2 B3) as (U0 & U & V & W & -> & L0 & LU & LV).
    rewrite (rotate_frame U0 U V W tr a m b) by lia. split; [|exact H2]. cbn [fst].
    eapply Permutation_trans; [exact H1|]. apply Permutation_app_head.
    rewrite !app_assoc. apply Permutation_app_tail. apply Permutation_app_comm.
  Qed.

  Lemma Inv_insertion_sort s a b : Inv s -> a <= b -> b <= length (fst s) ->
    Inv (g_insertion_sort less s a b).
  Proof.
    intros [H1 H2] B1 B3. destruct s as [l tr]. cbn [fst snd] in *.
    destruct (split4 l a b b B1 (le_n b) B3) as (U0 & U & V & W & -> & L0 & LU & LV).
    rewrite (insertion_sort_frame less U0 U (V ++ W) tr a b) by lia. split; cbn [fst snd].
    - eapply Permutation_trans; [exact H1|]. apply Permutation_app_head.
      apply Permutation_app_tail. apply (isort_acc_perm less U []).
    - intros x y H. rewrite rev_append_rev in H. apply in_app_or in H as [H|H]; [|apply H2; exact H].
      apply in_rev in H. apply (isort_trace_acc_in less U [] x y) in H as [I1 I2]. simpl in I2.
      split; apply (Permutation_in _ (Permutation_sym H1)); apply in_or_app; right; apply in_or_app; left; assumption.
  Qed.

  Lemma Inv_bsearch probe neg : forall fuel s i j,
    Inv s -> Inv (snd (g_bsearch less d fuel s i j probe neg)).
  Proof.
    induction fuel as [|k IH]; intros s i j I; cbn [g_bsearch]; [exact I|].
    destruct (Nat.ltb i j); [|exact I].
    pose proof (Inv_less s (fst (probe (Nat.div2 (i + j)))) (snd (probe (Nat.div2 (i + j)))) I) as I'.
    destruct (g_less less d s _ _) as [b s1]. cbn [snd] in I'.
    destruct (xorb b neg); apply IH; exact I'.
  Qed.

  (* the binary search stays in its range and does not touch the data *)
  Lemma bsearch_range probe neg fuel l tr i j : i <= j -> j - i < fuel -> Inv (l, tr) ->
    exists k tr', g_bsearch less d fuel (l, tr) i j probe neg = (k, (l, tr')) /\
                  i <= k <= j /\ Inv (l, tr').
  Proof.
    intros H1 H2 I.
    destruct (bsearch_inv less d l probe neg i j fuel tr i j) as (k & tr' & E & R & _); try lia.
    exists k, tr'. split; [exact E|]. split; [exact R|].
    pose proof (Inv_bsearch probe neg fuel (l, tr) i j I) as I'. rewrite E in I'. exact I'.
  Qed.

  Lemma Inv_symmerge : forall fuel s a m b,
    Inv s -> a < m -> m < b -> b <= length l0 -> Inv (g_symmerge less d fuel s a m b).
  Proof.
    induction fuel as [|f IH]; intros s a m b I B1 B2 B3; [exact I|].
    destruct s as [l tr]. pose proof (Inv_length _ I) as LEN. cbn [fst] in LEN.
    cbn [g_symmerge]. destruct (Nat.eqb_spec (m - a) 1) as [E1|E1].
    { destruct (bsearch_range (fun h => (h, a)) false (S b) l tr m b) as (k & tr' & E & R & I'); try lia; auto.
      rewrite E. cbv beta iota. unfold g_move_right. apply Inv_rotate; cbn [fst]; auto; lia. }
    destruct (Nat.eqb_spec (b - m) 1) as [E2|E2].
    { destruct (bsearch_range (fun h => (m, h)) true (S b) l tr a m) as (k & tr' & E & R & I'); try lia; auto.
      rewrite E. cbv beta iota. unfold g_move_left. apply Inv_rotate; cbn [fst]; auto; lia. }
    set (mid := Nat.div2 (a + b)).
    assert (Hm : 2 * mid <= a + b <= 2 * mid + 1).
    { pose proof (Nat.div2_odd (a + b)) as E. fold mid in E. destruct (Nat.odd (a + b)); simpl in E; lia. }
    assert (STEP : forall start0 r0 tr0, start0 <= r0 -> r0 <= m -> a <= start0 -> r0 <= mid ->
                     mid + m - start0 <= b -> Inv (l, tr0) ->
      Inv (let '(start, s1) := g_bsearch less d (S b) (l, tr0) start0 r0
                                         (fun c => (mid + m - 1 - c, c)) true in
           let e := mid + m - start in
           let s2 := if Nat.ltb start m && Nat.ltb m e then g_rotate s1 start m e else s1 in
           let s3 := if Nat.ltb a start && Nat.ltb start mid then g_symmerge less d f s2 a start mid else s2 in
           if Nat.ltb mid e && Nat.ltb e b then g_symmerge less d f s3 mid e b else s3)).
    { intros start0 r0 tr0 Q1 Q2 Q3 Q4 Q5 I0.
      destruct (bsearch_range (fun c => (mid + m - 1 - c, c)) true (S b) l tr0 start0 r0)
        as (k & tr' & E & R & I'); try lia; auto.
      rewrite E. cbv beta iota zeta.
      assert (I2 : Inv (if Nat.ltb k m && Nat.ltb m (mid + m - k)
                        then g_rotate (l, tr') k m (mid + m - k) else (l, tr'))).
      { destruct (Nat.ltb_spec k m); destruct (Nat.ltb_spec m (mid + m - k)); cbn [andb]; auto.
        apply Inv_rotate; cbn [fst]; auto; lia. }
      set (s2 := if Nat.ltb k m && Nat.ltb m (mid + m - k)
                 then g_rotate (l, tr') k m (mid + m - k) else (l, tr')) in *.
      assert (I3 : Inv (if Nat.ltb a k && Nat.ltb k mid then g_symmerge less d f s2 a k mid else s2)).
      { destruct (Nat.ltb_spec a k); destruct (Nat.ltb_spec k mid); cbn [andb]; auto.
        apply IH; auto; lia. }
      set (s3 := if Nat.ltb a k && Nat.ltb k mid then g_symmerge less d f s2 a k mid else s2) in *.
      destruct (Nat.ltb_spec mid (mid + m - k)); destruct (Nat.ltb_spec (mid + m - k) b); cbn [andb]; auto.
      all: try (apply IH; auto; lia). }
    destruct (Nat.ltb_spec mid m) as [C|C]; apply STEP; auto; lia.
  Qed.

  Lemma Inv_blocks bs n : n = length l0 -> forall fuel s a,
    Inv s -> a <= n -> Inv (g_blocks less fuel s a bs n).
  Proof.
    intros En. induction fuel as [|f IH]; intros s a I B; cbn [g_blocks]; [exact I|].
    pose proof (Inv_length _ I) as LEN.
    destruct (Nat.leb_spec (a + bs) n).
    - apply IH; [|lia]. apply Inv_insertion_sort; auto; lia.
    - apply Inv_insertion_sort; auto; lia.
  Qed.

  Lemma Inv_pass bs n : 0 < bs -> n = length l0 -> forall fuel s a,
    Inv s -> Inv (g_pass less d fuel s a bs n).
  Proof.
    intros Hbs En. induction fuel as [|f IH]; intros s a I; cbn [g_pass]; [exact I|].
    destruct (Nat.leb_spec (a + 2 * bs) n).
    - apply IH. apply Inv_symmerge; auto; lia.
    - destruct (Nat.ltb_spec (a + bs) n); [|exact I]. apply Inv_symmerge; auto; lia.
  Qed.

  Lemma Inv_passes n : n = length l0 -> forall fuel s bs,
    0 < bs -> Inv s -> Inv (g_passes less d fuel s bs n).
  Proof.
    intros En. induction fuel as [|f IH]; intros s bs Hbs I; cbn [g_passes]; [exact I|].
    destruct (Nat.ltb bs n); [|exact I]. apply IH; [lia|]. apply Inv_pass; auto.
  Qed.

  Lemma Inv_stable : Inv (g_stable less d l0).
  Proof.
    unfold g_stable. apply Inv_passes; [reflexivity|lia|].
    apply Inv_blocks; [reflexivity| |lia]. split; [apply Permutation_refl|intros ? ? []].
  Qed.
End Inv.

(* ---------- the contract ---------- *)
Lemma TagSorted_tagged_from {X} (l : list X) : forall i,
  TagSorted (combine (seq i (length l)) l) /\
  (forall p, In p (combine (seq i (length l)) l) -> i <= fst p).
Proof.
  induction l as [|x r IH]; intros i; simpl.
  - split; [constructor|intros ? []].
  - destruct (IH (S i)) as [T B]. split.
    + constructor; [exact T|]. apply Forall_forall. intros p Hp. specialize (B p Hp). simpl. lia.
    + intros p [<-|Hp]; [simpl; lia|]. specialize (B p Hp). lia.
Qed.

Lemma gmap_id {X} (less : X -> X -> bool) (s : @gst X) : gmap (fun x => x) s = s.
Proof.
  destruct s as [l tr]. unfold gmap. cbn [fst snd]. rewrite map_id. f_equal.
  rewrite <- (map_id tr) at 2. apply map_ext. intros [a b]. reflexivity.
Qed.

Theorem gostableT_contract : StableSortContract gostableT.
Proof.
  split; [|split; [|split]].
  - intros X less [|d l]; [constructor|]. unfold gostableT. cbn [fst].
    apply (Inv_stable less d (d :: l)). left. reflexivity.
  - intros X less [|d l] W; [exists []; repeat split; constructor|].
    unfold gostableT. cbn [fst].
    set (l0 := d :: l). set (T := tagged l0).
    set (tl := fun p q : nat * X => less (snd p) (snd q)).
    assert (SIM : g_stable less d l0 = gmap snd (g_stable tl (0, d) T)).
    { rewrite <- (sim_stable snd less tl (fun p q => eq_refl) (0, d) T).
      unfold T. rewrite map_snd_tagged. reflexivity. }
    destruct W as [A N].
    destruct (stable_tagged less (0, d) (fun x => In x l0) A N T) as (PT & ST).
    + apply (TagSorted_tagged_from l0 0).
    + intros p Hp. unfold T, tagged in Hp. destruct p as [i x]. apply in_combine_r in Hp. exact Hp.
    + exists (fst (g_stable tl (0, d) T)). split; [exact PT|]. split; [|exact ST].
      rewrite SIM. reflexivity.
  - intros X less [|d l] a b H; [destruct H|].
    unfold gostableT in H. cbn [snd] in H. apply in_rev in H.
    destruct (Inv_stable less d (d :: l) (or_introl eq_refl)) as [_ I]. apply I. exact H.
  - intros X less less' [|d l] E; [reflexivity|]. unfold gostableT.
    assert (SIM : g_stable less' d (d :: l) = g_stable less d (d :: l)).
    { rewrite <- (gmap_id less (g_stable less d (d :: l))).
      rewrite <- (sim_stable (fun x => x) less' less E d (d :: l)). rewrite map_id. reflexivity. }
    rewrite SIM. reflexivity.
Qed.

(* the model with Go's own algorithm in the place of sort.Stable *)
Theorem order_go_meets_spec rk o vals :
  (forall ks, static_keys o vals = Some ks -> SWO_on (okless rk (comparator_of o)) ks) ->
  let m := order_go rk o vals in
  Spec_C10 rk o vals (r_out m) (r_err m) (model_cb_failed o m).
Proof. apply order_meets_spec. apply gostableT_contract. Qed.

(* hence the two sorts of the model arrange alike whenever Less is a strict weak order *)
Theorem gostable_eq_isort {X} (less : X -> X -> bool) l :
  SWO_on less l -> fst (gostableT X less l) = isort X less l.
Proof.
  intros W. eapply StableSorted_unique.
  - destruct gostableT_contract as (_ & H & _). apply H. exact W.
  - apply isort_stable. exact W.
Qed.
