(* C13 — proofs, part 1: ConvertListIndex (model of the Go code) computes the
   reference function ref_index for every index value and every length. *)
From verif Require Import lib.Base lib.Utf8 model.C13.
Open Scope Z_scope.

(* ---------- collapsing the model's result to the reference's vocabulary ---------- *)
Definition to_ref (r : res (bool * Z * Z)) : ref_result :=
  match r with
  | Ok (false, k, _) => RIndex k
  | Ok (true, lo, hi) => RSlice lo hi
  | Err _ => RError
  end.

Definition in_int_range (n : Z) : Prop := 0 <= n <= MaxInt.

(* ---------- digits ---------- *)
Lemma is_digit_val c : is_digit c = true -> 0 <= digit_val c <= 9.
Proof.
  unfold is_digit, digit_val. rewrite andb_true_iff, !N.leb_le. intros [H1 H2]. lia.
Qed.

Lemma digits_value_ge s : forall acc, 0 <= acc -> forallb is_digit s = true ->
  acc <= digits_value s acc.
Proof.
  induction s as [|c r IH]; intros acc Hacc Hd; simpl in *; [lia|].
  apply andb_true_iff in Hd as [Hc Hr]. pose proof (is_digit_val c Hc) as Hv.
  assert (0 <= acc * 10 + digit_val c) as H0 by lia.
  specialize (IH (acc * 10 + digit_val c) H0 Hr). lia.
Qed.

(* parse_uint_loop: the first event wins; on all-digit input it is the decimal
   value when that is below 2^64 and a range error otherwise *)
Lemma parse_uint_loop_spec s : forall acc, 0 <= acc < two64 ->
  match parse_uint_loop s acc with
  | UOk n => forallb is_digit s = true /\ n = digits_value s acc /\ 0 <= n < two64
  | URange => forallb is_digit s = true -> two64 <= digits_value s acc
  | USyntax => forallb is_digit s = false
  end.
Proof.
  induction s as [|c r IH]; intros acc Hacc; cbn [parse_uint_loop forallb digits_value].
  - auto.
  - destruct (is_digit c) eqn:Hc; cbn [negb andb]; [|reflexivity].
    pose proof (is_digit_val c Hc) as Hv.
    destruct (uint_cutoff <=? acc) eqn:Hcut.
    + intros Hr. apply Z.leb_le in Hcut. unfold uint_cutoff in Hcut.
      assert (0 <= acc * 10 + digit_val c) as H0 by lia.
      pose proof (digits_value_ge r (acc * 10 + digit_val c) H0 Hr) as G. unfold two64 in *. lia.
    + apply Z.leb_gt in Hcut.
      destruct (two64 <=? acc * 10 + digit_val c) eqn:Hov.
      * intros Hr. apply Z.leb_le in Hov.
        assert (0 <= acc * 10 + digit_val c) as H0 by lia.
        pose proof (digits_value_ge r (acc * 10 + digit_val c) H0 Hr) as G. lia.
      * apply Z.leb_gt in Hov. apply IH. lia.
Qed.

Lemma parse_uint_spec ds :
  match parse_uint ds with
  | UOk n => ds <> [] /\ forallb is_digit ds = true /\ n = digits_value ds 0 /\ 0 <= n < two64
  | URange => ds <> [] /\ (forallb is_digit ds = true -> two64 <= digits_value ds 0)
  | USyntax => ds = [] \/ forallb is_digit ds = false
  end.
Proof.
  destruct ds as [|c r]; [left; reflexivity|].
  unfold parse_uint. pose proof (parse_uint_loop_spec (c :: r) 0) as H.
  assert (0 <= 0 < two64) as H0 by (unfold two64; lia). specialize (H H0).
  destruct (parse_uint_loop (c :: r) 0).
  - destruct H as (A & B & C). split; [discriminate|]. split; [assumption|]. split; assumption.
  - split; [discriminate|assumption].
  - right; assumption.
Qed.

(* the sign/digits decomposition shared by the model and the reference *)
Definition sign_split (t : bytes) : bool * bytes :=
  match t with
  | c :: r => if (c =? ch_minus)%N then (true, r) else if (c =? ch_plus)%N then (false, r) else (false, t)
  | [] => (false, [])
  end.

Lemma ref_parse_int_unfold t :
  ref_parse_int t =
  let '(neg, ds) := sign_split t in
  if negb (is_nil ds) && forallb is_digit ds
  then Some (if neg then - digits_value ds 0 else digits_value ds 0) else None.
Proof. reflexivity. Qed.

Lemma strconv_atoi_unfold t :
  strconv_atoi t =
  match t with
  | [] => ASyntax
  | _ =>
    let '(neg, ds) := sign_split t in
    match parse_uint ds with
    | USyntax => ASyntax
    | URange => ARange
    | UOk un =>
      if negb neg && (9223372036854775808 <=? un) then ARange
      else if neg && (9223372036854775808 <? un) then ARange
      else AOk (if neg then - un else un)
    end
  end.
Proof.
  destruct t as [|c r]; [reflexivity|]. unfold strconv_atoi, sign_split.
  destruct (c =? ch_minus)%N eqn:Hm.
  - rewrite orb_true_r. reflexivity.
  - destruct (c =? ch_plus)%N; reflexivity.
Qed.

(* strconv.Atoi against the reference reading of an integer text *)
Lemma strconv_atoi_spec t :
  match strconv_atoi t with
  | AOk i => ref_parse_int t = Some i /\ MinInt <= i <= MaxInt
  | ARange => match ref_parse_int t with Some i => i < MinInt \/ MaxInt < i | None => True end
  | ASyntax => ref_parse_int t = None
  end.
Proof.
  rewrite strconv_atoi_unfold, ref_parse_int_unfold.
  destruct t as [|c r]; [reflexivity|].
  destruct (sign_split (c :: r)) as [neg ds].
  pose proof (parse_uint_spec ds) as H.
  destruct (parse_uint ds) as [un| |].
  - destruct H as (Hne & Hd & Hv & Hr). rewrite Hd.
    assert (negb (is_nil ds) = true) as Hn by (destruct ds; [congruence|reflexivity]).
    rewrite Hn. cbn [andb]. rewrite <- Hv. unfold MinInt, MaxInt.
    destruct neg; cbn [negb andb].
    + destruct (9223372036854775808 <? un) eqn:E.
      * apply Z.ltb_lt in E. lia.
      * apply Z.ltb_ge in E. split; [reflexivity|lia].
    + destruct (9223372036854775808 <=? un) eqn:E.
      * apply Z.leb_le in E. lia.
      * apply Z.leb_gt in E. split; [reflexivity|lia].
  - destruct H as (Hne & Hd).
    destruct (negb (is_nil ds) && forallb is_digit ds) eqn:E; [|exact I].
    apply andb_true_iff in E as [_ E]. specialize (Hd E). unfold two64, MinInt, MaxInt in *.
    destruct neg; lia.
  - destruct H as [H|H]; subst; [reflexivity|]. rewrite H, andb_false_r. reflexivity.
Qed.

(* an integer text contains no '.' *)
Lemma is_digit_not_dot c : is_digit c = true -> c <> ch_dot.
Proof. unfold is_digit, ch_dot. rewrite andb_true_iff, !N.leb_le. intros [H1 H2]. lia. Qed.

Lemma all_digits_no_dot ds : forallb is_digit ds = true -> ~ In ch_dot ds.
Proof.
  induction ds as [|c r IH]; simpl; [tauto|]. rewrite andb_true_iff. intros [Hc Hr] [E|E].
  - apply (is_digit_not_dot c Hc). assumption.
  - exact (IH Hr E).
Qed.

Lemma ref_parse_int_no_dot t i : ref_parse_int t = Some i -> ~ In ch_dot t.
Proof.
  rewrite ref_parse_int_unfold. destruct t as [|c r]; [simpl; tauto|].
  unfold sign_split.
  destruct (c =? ch_minus)%N eqn:Hm; [|destruct (c =? ch_plus)%N eqn:Hp].
  - destruct (negb (is_nil r) && forallb is_digit r) eqn:E; [|discriminate].
    apply andb_true_iff in E as [_ E]. intros _ [H|H].
    + apply N.eqb_eq in Hm. rewrite Hm in H. discriminate.
    + exact (all_digits_no_dot r E H).
  - destruct (negb (is_nil r) && forallb is_digit r) eqn:E; [|discriminate].
    apply andb_true_iff in E as [_ E]. intros _ [H|H].
    + apply N.eqb_eq in Hp. rewrite Hp in H. discriminate.
    + exact (all_digits_no_dot r E H).
  - destruct (negb (is_nil (c :: r)) && forallb is_digit (c :: r)) eqn:E; [|discriminate].
    apply andb_true_iff in E as [_ E]. intros _. exact (all_digits_no_dot _ E).
Qed.

Lemma atoi_dot t : In ch_dot t -> exists e, atoi t = Err e.
Proof.
  intros H. unfold atoi. pose proof (strconv_atoi_spec t) as S.
  destruct (strconv_atoi t); eauto.
  destruct S as [S _]. exfalso. exact (ref_parse_int_no_dot _ _ S H).
Qed.

Lemma ref_parse_int_dot t : In ch_dot t -> ref_parse_int t = None.
Proof.
  intros H. destruct (ref_parse_int t) eqn:E; [|reflexivity].
  exfalso. exact (ref_parse_int_no_dot _ _ E H).
Qed.

(* ---------- arithmetic of the bound checks ---------- *)
Definition opt_of_res (r : res Z) : option Z := match r with Ok k => Some k | Err _ => None end.

Ltac zb :=
  repeat match goal with
  | |- context [?a <? ?b] => destruct (Z.ltb_spec a b)
  | |- context [?a <=? ?b] => destruct (Z.leb_spec a b)
  | |- context [?a =? ?b] => destruct (Z.eqb_spec a b)
  end; cbn [andb orb negb opt_of_res]; try reflexivity; try lia; try (f_equal; lia).

Lemma adjust_index_ref n i : 0 <= n ->
  match adjustAndCheckIndex i n false with Ok k => RIndex k | Err _ => RError end = norm_index n i.
Proof. intros Hn. unfold adjustAndCheckIndex, norm_index. zb. Qed.

Lemma adjust_bound_ref n i : 0 <= n ->
  opt_of_res (adjustAndCheckIndex i n true) = norm_bound n i.
Proof. intros Hn. unfold adjustAndCheckIndex, norm_bound. zb. Qed.

Lemma wrap64_small z : MinInt <= z <= MaxInt -> wrap64 z = z.
Proof.
  unfold MinInt, MaxInt, wrap64, two64. intros H. rewrite Z.mod_small; lia.
Qed.

Lemma wrap64_max_plus_1 : wrap64 (MaxInt + 1) = MinInt.
Proof. reflexivity. Qed.

(* the inclusive upper bound: "j == -1 -> n, else j++" followed by the bound
   check is "one past the position that j names" *)
Lemma incl_step_ref n j : in_int_range n -> MinInt <= j <= MaxInt ->
  opt_of_res (adjustAndCheckIndex (if j =? -1 then n else wrap64 (j + 1)) n true) = incl_upper n j.
Proof.
  unfold in_int_range. intros Hn Hj.
  destruct (Z.eqb_spec j (-1)) as [->|E].
  - unfold adjustAndCheckIndex, incl_upper. zb.
  - destruct (Z.eq_dec j MaxInt) as [->|Hmax].
    + rewrite wrap64_max_plus_1. unfold adjustAndCheckIndex, incl_upper, MinInt, MaxInt in *. zb.
    + rewrite wrap64_small by (unfold MinInt, MaxInt in *; lia).
      unfold adjustAndCheckIndex, incl_upper, MinInt, MaxInt in *. zb.
Qed.

(* integers outside the machine range are out of range for every length *)
Lemma norm_index_out n y : in_int_range n -> y < MinInt \/ MaxInt < y -> norm_index n y = RError.
Proof. unfold in_int_range, MinInt, MaxInt, norm_index. intros Hn H. zb. Qed.

Lemma norm_bound_out n y : in_int_range n -> y < MinInt \/ MaxInt < y -> norm_bound n y = None.
Proof. unfold in_int_range, MinInt, MaxInt, norm_bound. intros Hn H. zb. Qed.

Lemma incl_upper_out n y : in_int_range n -> y < MinInt \/ MaxInt < y -> incl_upper n y = None.
Proof. unfold in_int_range, MinInt, MaxInt, incl_upper. intros Hn H. zb. Qed.

(* ---------- a single integer text ---------- *)
Lemma single_ref n t : in_int_range n ->
  match bind (atoi t) (fun i => adjustAndCheckIndex i n false) with Ok k => RIndex k | Err _ => RError end
  = match ref_parse_int t with Some i => norm_index n i | None => RError end.
Proof.
  intros Hn. unfold atoi. pose proof (strconv_atoi_spec t) as S.
  destruct (strconv_atoi t) as [i| |]; cbn [bind].
  - destruct S as [S _]. rewrite S. apply adjust_index_ref. apply Hn.
  - destruct (ref_parse_int t) as [y|]; [|reflexivity]. symmetry. apply norm_index_out; assumption.
  - rewrite S. reflexivity.
Qed.

(* ---------- the two bounds of a slice ---------- *)
Definition ref_lo (n : Z) (a : bytes) : option Z :=
  match ref_bound a with
  | Some None => Some 0
  | Some (Some x) => norm_bound n x
  | None => None
  end.

Definition ref_hi (n : Z) (incl : bool) (b : bytes) : option Z :=
  match ref_bound b with
  | Some None => Some n
  | Some (Some y) => if incl then incl_upper n y else norm_bound n y
  | None => None
  end.

Definition model_lo (n : Z) (a : bytes) : option Z :=
  match (if is_nil a then Ok 0 else atoi a) with
  | Ok i => opt_of_res (adjustAndCheckIndex i n true)
  | Err _ => None
  end.

Definition incl_step (n : Z) (incl : bool) (j : Z) : Z :=
  if incl then (if j =? -1 then n else wrap64 (j + 1)) else j.

Definition model_hi (n : Z) (incl : bool) (b : bytes) : option Z :=
  match (if is_nil b then Ok n else bind (atoi b) (fun j => Ok (incl_step n incl j))) with
  | Ok j => opt_of_res (adjustAndCheckIndex j n true)
  | Err _ => None
  end.

Lemma lo_agree n a : in_int_range n -> model_lo n a = ref_lo n a.
Proof.
  intros Hn. unfold model_lo, ref_lo, ref_bound.
  destruct (is_nil a).
  - rewrite adjust_bound_ref by apply Hn. unfold norm_bound, in_int_range in *.
    replace (0 <=? n) with true by (symmetry; apply Z.leb_le; lia). reflexivity.
  - unfold atoi. pose proof (strconv_atoi_spec a) as S.
    destruct (strconv_atoi a) as [i| |].
    + destruct S as [S _]. rewrite S. apply adjust_bound_ref, Hn.
    + destruct (ref_parse_int a) as [y|]; [|reflexivity]. symmetry. apply norm_bound_out; assumption.
    + rewrite S. reflexivity.
Qed.

Lemma hi_agree n incl b : in_int_range n -> model_hi n incl b = ref_hi n incl b.
Proof.
  intros Hn. unfold model_hi, ref_hi, ref_bound.
  destruct (is_nil b).
  - rewrite adjust_bound_ref by apply Hn. unfold norm_bound, in_int_range in *.
    replace (0 <=? n) with true by (symmetry; apply Z.leb_le; lia).
    rewrite Z.leb_refl. reflexivity.
  - unfold atoi. pose proof (strconv_atoi_spec b) as S.
    destruct (strconv_atoi b) as [j| |]; cbn [bind].
    + destruct S as [S R]. rewrite S. unfold incl_step. destruct incl.
      * apply incl_step_ref; assumption.
      * apply adjust_bound_ref, Hn.
    + destruct (ref_parse_int b) as [y|]; [|reflexivity]. symmetry.
      destruct incl; [apply incl_upper_out|apply norm_bound_out]; assumption.
    + rewrite S. reflexivity.
Qed.

Definition slice_result (lo hi : option Z) : ref_result :=
  match lo, hi with
  | Some l, Some h => if l <=? h then RSlice l h else RError
  | _, _ => RError
  end.

(* the model's slice branch, given the split *)
Lemma convert_slice_shape s n a sp b :
  splitIndexString s = (a, sp, b) -> sp <> SepNone ->
  to_ref (ConvertListIndex (IStr s) n) =
  slice_result (model_lo n a) (model_hi n (match sp with SepIncl => true | _ => false end) b).
Proof.
  intros Hs Hsp. unfold ConvertListIndex, parseIndexString. rewrite Hs.
  unfold model_lo, model_hi, incl_step, slice_result.
  destruct sp; [congruence| |].
  - destruct (if is_nil a then Ok 0 else atoi a) as [i|e]; cbn [bind]; [|reflexivity].
    destruct (is_nil b); cbn [bind].
    + cbn [negb]. destruct (adjustAndCheckIndex i n true) as [i'|]; cbn [bind opt_of_res]; [|reflexivity].
      destruct (adjustAndCheckIndex n n true) as [j'|]; cbn [bind opt_of_res]; [|reflexivity].
      rewrite (Z.leb_antisym j' i'). destruct (j' <? i'); reflexivity.
    + destruct (atoi b) as [j|]; cbn [bind negb]; [|destruct (adjustAndCheckIndex i n true); reflexivity].
      destruct (adjustAndCheckIndex i n true) as [i'|]; cbn [bind opt_of_res]; [|reflexivity].
      destruct (adjustAndCheckIndex j n true) as [j'|]; cbn [bind opt_of_res]; [|reflexivity].
      rewrite (Z.leb_antisym j' i'). destruct (j' <? i'); reflexivity.
  - destruct (if is_nil a then Ok 0 else atoi a) as [i|e]; cbn [bind]; [|reflexivity].
    destruct (is_nil b); cbn [bind].
    + cbn [negb]. destruct (adjustAndCheckIndex i n true) as [i'|]; cbn [bind opt_of_res]; [|reflexivity].
      destruct (adjustAndCheckIndex n n true) as [j'|]; cbn [bind opt_of_res]; [|reflexivity].
      rewrite (Z.leb_antisym j' i'). destruct (j' <? i'); reflexivity.
    + destruct (atoi b) as [j|]; cbn [bind negb]; [|destruct (adjustAndCheckIndex i n true); reflexivity].
      destruct (j =? -1); cbn [bind negb].
      * destruct (adjustAndCheckIndex i n true) as [i'|]; cbn [bind opt_of_res]; [|reflexivity].
        destruct (adjustAndCheckIndex n n true) as [j'|]; cbn [bind opt_of_res]; [|reflexivity].
        rewrite (Z.leb_antisym j' i'). destruct (j' <? i'); reflexivity.
      * destruct (adjustAndCheckIndex i n true) as [i'|]; cbn [bind opt_of_res]; [|reflexivity].
        destruct (adjustAndCheckIndex (wrap64 (j + 1)) n true) as [j'|]; cbn [bind opt_of_res]; [|reflexivity].
        rewrite (Z.leb_antisym j' i'). destruct (j' <? i'); reflexivity.
Qed.

Lemma ref_slice_shape n a (incl : bool) b :
  match ref_bound a, ref_bound b with
  | Some oa, Some ob =>
    let lo := match oa with None => Some 0 | Some x => norm_bound n x end in
    let hi := match ob with
              | None => Some n
              | Some y => if incl then incl_upper n y else norm_bound n y
              end in
    match lo, hi with
    | Some lo', Some hi' => if lo' <=? hi' then RSlice lo' hi' else RError
    | _, _ => RError
    end
  | _, _ => RError
  end = slice_result (ref_lo n a) (ref_hi n incl b).
Proof.
  unfold slice_result, ref_lo, ref_hi.
  destruct (ref_bound a) as [[x|]|]; destruct (ref_bound b) as [[y|]|]; try reflexivity;
    cbn zeta; try (destruct (norm_bound n x); reflexivity).
Qed.

Lemma ref_index_str_unfold n s :
  ref_index n (IStr s) =
  match ref_split s with
  | ShMalformed => RError
  | ShSingle a => match ref_parse_int a with Some i => norm_index n i | None => RError end
  | ShSlice a inc b => slice_result (ref_lo n a) (ref_hi n inc b)
  end.
Proof.
  cbn [ref_index]. destruct (ref_split s) as [a|a inc b|]; try reflexivity. apply ref_slice_shape.
Qed.

(* a failing lower part makes the whole conversion fail *)
Lemma convert_low_fails s n a sp b :
  splitIndexString s = (a, sp, b) -> sp <> SepNone -> In ch_dot a ->
  to_ref (ConvertListIndex (IStr s) n) = RError.
Proof.
  intros Hs Hsp Hin. rewrite (convert_slice_shape s n a sp b Hs Hsp).
  unfold model_lo. destruct a as [|c r]; [destruct Hin|]. cbn [is_nil].
  destruct (atoi_dot (c :: r) Hin) as [e E]. rewrite E. reflexivity.
Qed.

(* ---------- strings.Index on  a ++ rest  where a has no '.' ---------- *)
Lemma index_of_skip p a rest : ~ In ch_dot a ->
  index_of (ch_dot :: p) (a ++ rest) = option_map (Nat.add (length a)) (index_of (ch_dot :: p) rest).
Proof.
  induction a as [|c a IH]; intros Hn.
  - cbn [app length]. destruct (index_of (ch_dot :: p) rest); reflexivity.
  - cbn [app length index_of]. cbn [is_prefix].
    assert ((ch_dot =? c)%N = false) as E.
    { apply N.eqb_neq. intros E. apply Hn. left. symmetry. exact E. }
    rewrite E. cbn [andb]. rewrite IH by (intros H; apply Hn; right; exact H).
    destruct (index_of (ch_dot :: p) rest); reflexivity.
Qed.

Lemma index_of_some_in p t i : index_of (ch_dot :: p) t = Some i -> In ch_dot t.
Proof.
  revert i. induction t as [|c r IH]; intros i; cbn [index_of is_prefix]; [discriminate|].
  destruct (ch_dot =? c)%N eqn:E.
  - intros _. left. apply N.eqb_eq in E. symmetry. exact E.
  - cbn [andb]. destruct (index_of (ch_dot :: p) r) as [k|] eqn:K; [|discriminate].
    intros _. right. exact (IH k eq_refl).
Qed.

Lemma span_nodot_spec s : forall a rest, span_nodot s = (a, rest) ->
  s = a ++ rest /\ ~ In ch_dot a /\ (rest = [] \/ exists r, rest = ch_dot :: r).
Proof.
  induction s as [|c r IH]; intros a rest; cbn [span_nodot].
  - intros E; inversion E; subst. repeat split; [simpl; tauto|left; reflexivity].
  - destruct (c =? ch_dot)%N eqn:Hc.
    + intros E; inversion E; subst. apply N.eqb_eq in Hc. subst c.
      repeat split; [simpl; tauto|right; eexists; reflexivity].
    + destruct (span_nodot r) as [a' rest'] eqn:Sp. intros E; inversion E; subst.
      destruct (IH a' rest eq_refl) as (E1 & E2 & E3). subst r.
      repeat split; [|assumption].
      intros [H|H]; [apply N.eqb_neq in Hc; congruence|exact (E2 H)].
Qed.

Lemma firstn_len_app {A} (a rest : list A) i : firstn (length a + i) (a ++ rest) = a ++ firstn i rest.
Proof. induction a; simpl; [reflexivity|]. f_equal. assumption. Qed.

Lemma skipn_len_app {A} (a rest : list A) i : skipn (length a + i) (a ++ rest) = skipn i rest.
Proof. induction a; simpl; [reflexivity|]. assumption. Qed.

(* splitIndexString of  a ++ rest  in terms of where the separators are in rest *)
Lemma split_app a rest : ~ In ch_dot a ->
  splitIndexString (a ++ rest) =
  match index_of dotdoteq rest with
  | Some i => (a ++ firstn i rest, SepIncl, skipn (i + 3) rest)
  | None =>
    match index_of dotdot rest with
    | Some i => (a ++ firstn i rest, SepExcl, skipn (i + 2) rest)
    | None => (a ++ rest, SepNone, [])
    end
  end.
Proof.
  intros Hn. unfold splitIndexString, dotdoteq, dotdot.
  rewrite !index_of_skip by assumption.
  destruct (index_of (ch_dot :: [ch_dot; ch_eq]) rest) as [i|]; cbn [option_map].
  - rewrite firstn_len_app. rewrite <- Nat.add_assoc, skipn_len_app. reflexivity.
  - destruct (index_of (ch_dot :: [ch_dot]) rest) as [i|]; cbn [option_map]; [|reflexivity].
    rewrite firstn_len_app. rewrite <- Nat.add_assoc, skipn_len_app. reflexivity.
Qed.

(* whenever the lower part returned by the split reaches into rest (rest begins
   with '.'), it contains a '.' *)
Lemma low_has_dot a r i : In ch_dot (a ++ firstn (S i) (ch_dot :: r)).
Proof. apply in_or_app. right. left. reflexivity. Qed.

(* the main case analysis: the model and the reference read every text alike *)
Lemma convert_str_ref s n : in_int_range n ->
  to_ref (ConvertListIndex (IStr s) n) = ref_index n (IStr s).
Proof.
  intros Hn. rewrite ref_index_str_unfold. unfold ref_split.
  destruct (span_nodot s) as [a rest] eqn:Sp.
  destruct (span_nodot_spec s a rest Sp) as (Es & Ha & Hrest). subst s.
  pose proof (split_app a rest Ha) as Hsplit.
  destruct Hrest as [->|[r ->]].
  - (* no '.' at all: a single integer *)
    cbn [index_of is_prefix dotdoteq dotdot] in Hsplit.
    unfold ConvertListIndex, parseIndexString. rewrite Hsplit. rewrite app_nil_r.
    pose proof (single_ref n a Hn) as S.
    destruct (atoi a) as [i|e]; cbn [bind] in *.
    + destruct (adjustAndCheckIndex i n false) as [k|]; cbn [bind negb to_ref] in *; exact S.
    + exact S.
  - destruct r as [|d2 r'].
    + (* a single trailing '.' *)
      cbn [index_of is_prefix dotdoteq dotdot andb] in Hsplit.
      rewrite N.eqb_refl in Hsplit. cbn [andb option_map] in Hsplit.
      unfold ConvertListIndex, parseIndexString. rewrite Hsplit.
      destruct (atoi_dot (a ++ [ch_dot])) as [e E]; [apply in_or_app; right; left; reflexivity|].
      rewrite E. reflexivity.
    + rewrite N.eqb_refl. cbn [andb].
      destruct (d2 =? ch_dot)%N eqn:Hd2.
      * apply N.eqb_eq in Hd2. subst d2.
        destruct r' as [|e b].
        -- (* "a.." *)
           cbn [index_of is_prefix dotdoteq dotdot andb] in Hsplit.
           rewrite !N.eqb_refl in Hsplit. cbn [andb option_map firstn skipn Nat.add] in Hsplit.
           rewrite app_nil_r in Hsplit.
           rewrite (convert_slice_shape _ n _ _ _ Hsplit) by discriminate.
           rewrite lo_agree, hi_agree by assumption. reflexivity.
        -- destruct (e =? ch_eq)%N eqn:He.
           ++ (* "a..=b" *)
              apply N.eqb_eq in He. subst e.
              cbn [index_of is_prefix dotdoteq andb] in Hsplit.
              rewrite !N.eqb_refl in Hsplit. cbn [andb firstn skipn Nat.add] in Hsplit.
              rewrite app_nil_r in Hsplit.
              rewrite (convert_slice_shape _ n _ _ _ Hsplit) by discriminate.
              rewrite lo_agree, hi_agree by assumption. reflexivity.
           ++ (* "a..b" with b not starting with '=' *)
              change (index_of dotdoteq (ch_dot :: ch_dot :: e :: b)) with
                (if is_prefix dotdoteq (ch_dot :: ch_dot :: e :: b) then Some O
                 else option_map S (index_of dotdoteq (ch_dot :: e :: b))) in Hsplit.
              assert (is_prefix dotdoteq (ch_dot :: ch_dot :: e :: b) = false) as P0.
              { unfold dotdoteq. cbn [is_prefix]. rewrite !N.eqb_refl. cbn [andb].
                rewrite N.eqb_sym, He. reflexivity. }
              rewrite P0 in Hsplit.
              destruct (index_of dotdoteq (ch_dot :: e :: b)) as [i|] eqn:K; cbn [option_map] in Hsplit.
              ** (* a later "..=": the lower part contains dots; the reference's b contains a dot *)
                 rewrite (convert_low_fails _ n _ _ _ Hsplit); [|discriminate|apply low_has_dot].
                 assert (In ch_dot (e :: b)) as Hb.
                 { change (index_of dotdoteq (ch_dot :: e :: b)) with
                     (if is_prefix dotdoteq (ch_dot :: e :: b) then Some O
                      else option_map S (index_of dotdoteq (e :: b))) in K.
                   destruct (is_prefix dotdoteq (ch_dot :: e :: b)) eqn:P1.
                   - unfold dotdoteq in P1. cbn [is_prefix] in P1.
                     rewrite N.eqb_refl in P1. cbn [andb] in P1.
                     apply andb_true_iff in P1 as [P1 _]. apply N.eqb_eq in P1. left. symmetry. exact P1.
                   - destruct (index_of dotdoteq (e :: b)) as [k|] eqn:K2; [|discriminate].
                     exact (index_of_some_in _ _ _ K2). }
                 unfold slice_result, ref_hi, ref_bound.
                 cbn [is_nil]. rewrite (ref_parse_int_dot _ Hb).
                 destruct (ref_lo n a); reflexivity.
              ** change (index_of dotdot (ch_dot :: ch_dot :: e :: b)) with
                   (if is_prefix dotdot (ch_dot :: ch_dot :: e :: b) then Some O
                    else option_map S (index_of dotdot (ch_dot :: e :: b))) in Hsplit.
                 assert (is_prefix dotdot (ch_dot :: ch_dot :: e :: b) = true) as P2.
                 { unfold dotdot. cbn [is_prefix]. rewrite !N.eqb_refl. reflexivity. }
                 rewrite P2 in Hsplit. cbn [firstn skipn Nat.add] in Hsplit. rewrite app_nil_r in Hsplit.
                 rewrite (convert_slice_shape _ n _ _ _ Hsplit) by discriminate.
                 rewrite lo_agree, hi_agree by assumption. reflexivity.
      * (* ".x": malformed for the reference; the model's lower part (or the whole text) has a '.' *)
        assert (is_prefix dotdoteq (ch_dot :: d2 :: r') = false) as P0.
        { unfold dotdoteq. cbn [is_prefix]. rewrite N.eqb_refl. cbn [andb].
          rewrite N.eqb_sym, Hd2. reflexivity. }
        assert (is_prefix dotdot (ch_dot :: d2 :: r') = false) as P1.
        { unfold dotdot. cbn [is_prefix]. rewrite N.eqb_refl. cbn [andb].
          rewrite N.eqb_sym, Hd2. reflexivity. }
        change (index_of dotdoteq (ch_dot :: d2 :: r')) with
          (if is_prefix dotdoteq (ch_dot :: d2 :: r') then Some O
           else option_map S (index_of dotdoteq (d2 :: r'))) in Hsplit.
        change (index_of dotdot (ch_dot :: d2 :: r')) with
          (if is_prefix dotdot (ch_dot :: d2 :: r') then Some O
           else option_map S (index_of dotdot (d2 :: r'))) in Hsplit.
        rewrite P0, P1 in Hsplit.
        destruct (index_of dotdoteq (d2 :: r')) as [i|]; cbn [option_map] in Hsplit.
        -- apply (convert_low_fails _ n _ _ _ Hsplit); [discriminate|apply low_has_dot].
        -- destruct (index_of dotdot (d2 :: r')) as [i|]; cbn [option_map] in Hsplit.
           ++ apply (convert_low_fails _ n _ _ _ Hsplit); [discriminate|apply low_has_dot].
           ++ unfold ConvertListIndex, parseIndexString. rewrite Hsplit.
              destruct (atoi_dot (a ++ ch_dot :: d2 :: r')) as [e E];
                [apply in_or_app; right; left; reflexivity|].
              rewrite E. reflexivity.
Qed.

(* ConvertListIndex computes the reference function, for every index value and
   every length a Go slice or string can have *)
Theorem convert_matches_ref : forall n raw, in_int_range n ->
  to_ref (ConvertListIndex raw n) = ref_index n raw.
Proof.
  intros n raw Hn. destruct raw as [i|s|].
  - cbn [ConvertListIndex ref_index]. rewrite <- adjust_index_ref by apply Hn.
    destruct (adjustAndCheckIndex i n false); reflexivity.
  - apply convert_str_ref; assumption.
  - reflexivity.
Qed.

(* ---------- range facts about the reference ---------- *)
Lemma norm_index_range n i k : norm_index n i = RIndex k -> 0 <= k < n.
Proof.
  unfold norm_index.
  destruct ((0 <=? i) && (i <? n)) eqn:A.
  - intros E; inversion E; subst. apply andb_true_iff in A as [A B].
    apply Z.leb_le in A. apply Z.ltb_lt in B. lia.
  - destruct ((- n <=? i) && (i <? 0)) eqn:B; [|discriminate].
    intros E; inversion E; subst. apply andb_true_iff in B as [B C].
    apply Z.leb_le in B. apply Z.ltb_lt in C. lia.
Qed.

Lemma norm_index_not_slice n i lo hi : norm_index n i <> RSlice lo hi.
Proof. unfold norm_index. destruct ((0 <=? i) && (i <? n)); [discriminate|].
  destruct ((- n <=? i) && (i <? 0)); discriminate. Qed.

Lemma norm_bound_range n a k : norm_bound n a = Some k -> 0 <= k <= n.
Proof.
  unfold norm_bound.
  destruct ((0 <=? a) && (a <=? n)) eqn:A.
  - intros E; inversion E; subst. apply andb_true_iff in A as [A B].
    apply Z.leb_le in A. apply Z.leb_le in B. lia.
  - destruct ((- n <=? a) && (a <? 0)) eqn:B; [|discriminate].
    intros E; inversion E; subst. apply andb_true_iff in B as [B C].
    apply Z.leb_le in B. apply Z.ltb_lt in C. lia.
Qed.

Lemma incl_upper_range n b k : incl_upper n b = Some k -> 0 <= k <= n.
Proof.
  unfold incl_upper.
  destruct ((-1 <=? (if b <? 0 then n + b else b)) && ((if b <? 0 then n + b else b) <? n)) eqn:A; [|discriminate].
  intros E; inversion E; subst. apply andb_true_iff in A as [A B].
  apply Z.leb_le in A. apply Z.ltb_lt in B. lia.
Qed.

Lemma ref_index_index_range n raw k : ref_index n raw = RIndex k -> 0 <= k < n.
Proof.
  destruct raw as [i|s|]; cbn [ref_index]; [apply norm_index_range| |discriminate].
  destruct (ref_split s) as [a|a incl b|]; [| |discriminate].
  - destruct (ref_parse_int a); [apply norm_index_range|discriminate].
  - rewrite ref_slice_shape. unfold slice_result.
    destruct (ref_lo n a); [|discriminate]. destruct (ref_hi n incl b); [|discriminate].
    destruct (_ <=? _); discriminate.
Qed.

Lemma ref_index_slice_range n raw lo hi : 0 <= n -> ref_index n raw = RSlice lo hi -> 0 <= lo <= hi /\ hi <= n.
Proof.
  intros Hn. destruct raw as [i|s|]; cbn [ref_index];
    [intros H; exfalso; exact (norm_index_not_slice _ _ _ _ H)| |discriminate].
  destruct (ref_split s) as [a|a incl b|]; [| |discriminate].
  - destruct (ref_parse_int a); [intros H; exfalso; exact (norm_index_not_slice _ _ _ _ H)|discriminate].
  - rewrite ref_slice_shape. unfold slice_result.
    destruct (ref_lo n a) as [l|] eqn:L; [|discriminate].
    destruct (ref_hi n incl b) as [h|] eqn:H; [|discriminate].
    destruct (l <=? h) eqn:E; [|discriminate]. intros X; inversion X; subst.
    apply Z.leb_le in E.
    assert (0 <= lo <= n) as Rl.
    { unfold ref_lo in L. destruct (ref_bound a) as [[x|]|]; [apply (norm_bound_range _ _ _ L)| |discriminate].
      inversion L; lia. }
    assert (0 <= hi <= n) as Rh.
    { unfold ref_hi in H. destruct (ref_bound b) as [[y|]|]; [| |discriminate].
      - destruct incl; [apply (incl_upper_range _ _ _ H)|apply (norm_bound_range _ _ _ H)].
      - inversion H; lia. }
    lia.
Qed.

(* inversion of to_ref *)
Lemma to_ref_index r k : to_ref r = RIndex k -> exists u, r = Ok (false, k, u).
Proof. destruct r as [[[[] lo] hi]|]; simpl; intros E; inversion E; subst; eauto. Qed.
Lemma to_ref_slice r lo hi : to_ref r = RSlice lo hi -> r = Ok (true, lo, hi).
Proof. destruct r as [[[[] l] h]|]; simpl; intros E; inversion E; subst; eauto. Qed.
Lemma to_ref_error r : to_ref r = RError -> exists e, r = Err e.
Proof. destruct r as [[[[] l] h]|]; simpl; intros E; inversion E; subst; eauto. Qed.
