(* C28 — proofs, part 2: word motions land on word starts; transpose-word. *)
From Coq Require Import Permutation.
From verif Require Import lib.Base lib.ListX lib.Utf8 model.C28 proofs.C28_proofs.
Open Scope nat_scope.

Lemma nth_skipn' {A} (l : list A) m n d : nth n (skipn m l) d = nth (m + n) l d.
Proof.
  revert l; induction m as [|m IH]; intros l; [reflexivity|].
  destruct l as [|x l]; [destruct n; reflexivity|]. simpl. apply IH.
Qed.

Lemma nth_firstn' {A} (l : list A) m n d : n < m -> nth n (firstn m l) d = nth n l d.
Proof.
  revert l n; induction m as [|m IH]; intros l n H; [lia|].
  destruct l as [|x l]; [reflexivity|]. destruct n as [|n]; [reflexivity|]. simpl. apply IH. lia.
Qed.

(* ------------------------------------------------------------------ *)
(* The specification of word motions (Prop level).                     *)

(* p is a word start: a non-whitespace rune whose predecessor is absent or of
   a different category *)
Definition word_start (cat : N -> Z) (rs : list N) (p : nat) : Prop :=
  p < length rs /\ cat (nth p rs 0%N) <> 0%Z /\
  (p = 0 \/ cat (nth (p - 1) rs 0%N) <> cat (nth p rs 0%N)).

(* p is where a leftward word motion from d must land: the greatest word start
   below d, or 0 when there is none *)
Definition lands_left (cat : N -> Z) (rs : list N) (d p : nat) : Prop :=
  (p = 0 \/ (word_start cat rs p /\ p < d)) /\ p <= d /\
  forall q, p < q < d -> ~ word_start cat rs q.

(* rightward: the least word start above d, or the end of the buffer *)
Definition lands_right (cat : N -> Z) (rs : list N) (d p : nat) : Prop :=
  (p = length rs \/ (word_start cat rs p /\ d < p)) /\ d <= p <= length rs /\
  forall q, d < q < p -> ~ word_start cat rs q.

Lemma word_startb_spec cat rs p : word_startb cat rs p = true <-> word_start cat rs p.
Proof.
  unfold word_startb, word_start. rewrite !andb_true_iff, orb_true_iff, !negb_true_iff.
  rewrite Nat.ltb_lt, Nat.eqb_eq, !Z.eqb_neq. tauto.
Qed.

Section Words.
  Variable cat : N -> Z.

  Lemma in_cat_true c r : in_cat cat c r = true <-> cat r = c.
  Proof. unfold in_cat. apply Z.eqb_eq. Qed.
  Lemma in_cat_false c r : in_cat cat c r = false <-> cat r <> c.
  Proof. unfold in_cat. apply Z.eqb_neq. Qed.

  Lemma skip_cat_right_spec c rs pos : pos <= length rs ->
    let p := skip_cat_right cat c rs pos in
    (forall i, pos <= i < p -> cat (nth i rs 0%N) = c) /\
    (p = length rs \/ cat (nth p rs 0%N) <> c).
  Proof.
    intros H p. unfold p, skip_cat_right. split.
    - intros i Hi.
      pose proof (count_while_true (in_cat cat c) 0%N (skipn pos rs) (i - pos)) as H1.
      rewrite nth_skipn' in H1. replace (pos + (i - pos)) with i in H1 by lia.
      apply in_cat_true. apply H1. lia.
    - destruct (count_while_stop (in_cat cat c) 0%N (skipn pos rs)) as [H1|H1].
      + left. rewrite H1, skipn_length. lia.
      + right. rewrite nth_skipn' in H1. apply in_cat_false. exact H1.
  Qed.

  Lemma skip_cat_left_spec c rs pos : pos <= length rs ->
    let p := skip_cat_left cat c rs pos in
    (forall i, p <= i < pos -> cat (nth i rs 0%N) = c) /\
    (p = 0 \/ cat (nth (p - 1) rs 0%N) <> c).
  Proof.
    intros H p. unfold p, skip_cat_left.
    assert (Hl : length (firstn pos rs) = pos) by (rewrite firstn_length; lia).
    pose proof (count_while_le (in_cat cat c) (rev (firstn pos rs))) as Hk.
    rewrite rev_length, Hl in Hk.
    set (k := count_while (in_cat cat c) (rev (firstn pos rs))) in *.
    split.
    - intros i Hi.
      pose proof (count_while_true (in_cat cat c) 0%N (rev (firstn pos rs)) (pos - 1 - i)) as H1.
      fold k in H1. rewrite rev_nth in H1 by (rewrite Hl; lia). rewrite Hl in H1.
      replace (pos - S (pos - 1 - i)) with i in H1 by lia.
      rewrite nth_firstn' in H1 by lia. apply in_cat_true. apply H1. lia.
    - destruct (count_while_stop (in_cat cat c) 0%N (rev (firstn pos rs))) as [H1|H1]; fold k in H1.
      + left. rewrite rev_length, Hl in H1. lia.
      + destruct (Nat.eq_dec k pos) as [E|E]; [left; lia|]. right.
        rewrite rev_nth in H1 by (rewrite Hl; lia). rewrite Hl in H1.
        rewrite nth_firstn' in H1 by lia.
        replace (pos - k - 1) with (pos - S k) by lia. apply in_cat_false. exact H1.
  Qed.

  (* ---- leftward motion ---- *)
  Lemma move_left_gw_lands rs d : d <= length rs -> lands_left cat rs d (move_left_gw cat rs d).
  Proof.
    intros H. unfold move_left_gw, skip_ws_left.
    pose proof (skip_cat_left_spec 0%Z rs d H) as [Hws Hstop]. cbv zeta in Hws, Hstop.
    pose proof (skip_cat_left_le cat 0%Z rs d) as Hle.
    set (p1 := skip_cat_left cat 0%Z rs d) in *.
    unfold skip_same_cat_left.
    destruct (p1 =? 0) eqn:E.
    - apply Nat.eqb_eq in E. rewrite E in *. split; [left; reflexivity|]. split; [lia|].
      intros q Hq [_ [Hc _]]. apply Hc. apply Hws. lia.
    - apply Nat.eqb_neq in E. destruct Hstop as [Hstop|Hstop]; [lia|].
      set (c := cat (nth (p1 - 1) rs 0%N)) in *.
      assert (Hp1 : p1 <= length rs) by lia.
      pose proof (skip_cat_left_spec c rs p1 Hp1) as [Hsame Hstop2]. cbv zeta in Hsame, Hstop2.
      pose proof (skip_cat_left_le cat c rs p1) as Hle2.
      set (p2 := skip_cat_left cat c rs p1) in *.
      assert (Hlt : p2 < p1).
      { destruct (Nat.eq_dec p2 p1) as [E2|E2]; [|lia].
        destruct Hstop2 as [Hs|Hs]; [lia|]. rewrite E2 in Hs. exfalso. apply Hs. reflexivity. }
      assert (Hc2 : cat (nth p2 rs 0%N) = c) by (apply Hsame; lia).
      split; [right; split; [|lia]|split; [lia|]].
      + split; [lia|]. split; [rewrite Hc2; exact Hstop|].
        destruct Hstop2 as [Hs|Hs]; [left; exact Hs|right]. rewrite Hc2. exact Hs.
      + intros q Hq [_ [Hnz Hprev]].
        destruct (Nat.lt_ge_cases q p1) as [Hq1|Hq1].
        * destruct Hprev as [Hprev|Hprev]; [lia|]. apply Hprev.
          rewrite (Hsame q), (Hsame (q - 1)) by lia. reflexivity.
        * apply Hnz. apply Hws. lia.
  Qed.

  (* ---- rightward motion ---- *)
  Lemma move_right_gw_lands rs d : d <= length rs -> lands_right cat rs d (move_right_gw cat rs d).
  Proof.
    intros H. unfold move_right_gw, skip_ws_right.
    pose proof (skip_cat_right_spec 0%Z rs d H) as [Hws Hstop]. cbv zeta in Hws, Hstop.
    pose proof (skip_cat_right_ge cat 0%Z rs d) as Hge.
    pose proof (skip_cat_right_range cat 0%Z rs d H) as Hr.
    set (pos := skip_cat_right cat 0%Z rs d) in *.
    destruct (d <? pos) eqn:E.
    - apply Nat.ltb_lt in E. split; [|split; [lia|]].
      + destruct Hstop as [Hs|Hs]; [left; exact Hs|].
        destruct (Nat.eq_dec pos (length rs)) as [E2|E2]; [left; exact E2|right].
        split; [|exact E]. split; [lia|]. split; [exact Hs|]. right.
        rewrite (Hws (pos - 1)) by lia. intros Heq. apply Hs. symmetry. exact Heq.
      + intros q Hq [_ [Hnz _]]. apply Hnz. apply Hws. lia.
    - apply Nat.ltb_ge in E. assert (Epos : pos = d) by lia.
      rewrite Epos in *. clear E Hge.
      unfold skip_same_cat_right.
      destruct (d =? length rs) eqn:E2.
      + apply Nat.eqb_eq in E2.
        assert (Hend : skip_cat_right cat 0%Z rs d = d) by (fold pos; exact Epos).
        rewrite Hend. split; [left; exact E2|]. split; [lia|]. intros q Hq; lia.
      + apply Nat.eqb_neq in E2. assert (Hd : d < length rs) by lia.
        destruct Hstop as [Hs|Hs]; [lia|].
        set (c := cat (nth d rs 0%N)) in *.
        pose proof (skip_cat_right_spec c rs d H) as [Hsame Hstop1]. cbv zeta in Hsame, Hstop1.
        pose proof (skip_cat_right_ge cat c rs d) as Hge1.
        pose proof (skip_cat_right_range cat c rs d H) as Hr1.
        set (p1 := skip_cat_right cat c rs d) in *.
        assert (Hp1 : d < p1).
        { destruct (Nat.eq_dec p1 d) as [E3|E3]; [|lia].
          destruct Hstop1 as [Hs1|Hs1]; [lia|]. exfalso. apply Hs1. rewrite E3. reflexivity. }
        pose proof (skip_cat_right_spec 0%Z rs p1 Hr1) as [Hws2 Hstop2]. cbv zeta in Hws2, Hstop2.
        pose proof (skip_cat_right_ge cat 0%Z rs p1) as Hge2.
        pose proof (skip_cat_right_range cat 0%Z rs p1 Hr1) as Hr2.
        set (p2 := skip_cat_right cat 0%Z rs p1) in *.
        split; [|split; [lia|]].
        * destruct Hstop2 as [Hs2|Hs2]; [left; exact Hs2|].
          destruct (Nat.eq_dec p2 (length rs)) as [E4|E4]; [left; exact E4|right].
          split; [|lia]. split; [lia|]. split; [exact Hs2|]. right.
          destruct (Nat.eq_dec p2 p1) as [E5|E5].
          -- rewrite E5 in *. destruct Hstop1 as [Hs1|Hs1]; [lia|].
             rewrite (Hsame (p1 - 1)) by lia. intros Heq. apply Hs1. symmetry. exact Heq.
          -- rewrite (Hws2 (p2 - 1)) by lia. intros Heq. apply Hs2. symmetry. exact Heq.
        * intros q Hq [_ [Hnz Hprev]].
          destruct (Nat.lt_ge_cases q p1) as [Hq1|Hq1].
          -- destruct Hprev as [Hprev|Hprev]; [lia|]. apply Hprev.
             rewrite (Hsame q), (Hsame (q - 1)) by lia. reflexivity.
          -- apply Hnz. apply Hws2. lia.
  Qed.
End Words.

(* ------------------------------------------------------------------ *)
(* transpose-word, for every categoriser *)
Section Transpose.
  Variable cat : N -> Z.

  Lemma skip_same_left_spec rs pos : 0 < pos -> pos <= length rs ->
    let p := skip_same_cat_left cat rs pos in
    p < pos /\ (forall i, p <= i < pos -> cat (nth i rs 0%N) = cat (nth (pos - 1) rs 0%N)) /\
    (p = 0 \/ cat (nth (p - 1) rs 0%N) <> cat (nth (pos - 1) rs 0%N)).
  Proof.
    intros H0 H p. unfold p, skip_same_cat_left.
    destruct (pos =? 0) eqn:E; [apply Nat.eqb_eq in E; lia|].
    pose proof (skip_cat_left_spec cat (cat (nth (pos - 1) rs 0%N)) rs pos H) as [Hs Hstop].
    cbv zeta in Hs, Hstop.
    pose proof (skip_cat_left_le cat (cat (nth (pos - 1) rs 0%N)) rs pos) as Hle.
    split; [|split; assumption].
    destruct (Nat.eq_dec (skip_cat_left cat (cat (nth (pos - 1) rs 0%N)) rs pos) pos) as [E2|E2]; [|lia].
    destruct Hstop as [Hz|Hn]; [lia|]. rewrite E2 in Hn. exfalso. apply Hn. reflexivity.
  Qed.

  Lemma skip_same_right_spec rs pos : pos < length rs ->
    let p := skip_same_cat_right cat rs pos in
    pos < p <= length rs /\ (forall i, pos <= i < p -> cat (nth i rs 0%N) = cat (nth pos rs 0%N)) /\
    (p = length rs \/ cat (nth p rs 0%N) <> cat (nth pos rs 0%N)).
  Proof.
    intros H p. unfold p, skip_same_cat_right.
    destruct (pos =? length rs) eqn:E; [apply Nat.eqb_eq in E; lia|].
    assert (H' : pos <= length rs) by lia.
    pose proof (skip_cat_right_spec cat (cat (nth pos rs 0%N)) rs pos H') as [Hs Hstop].
    cbv zeta in Hs, Hstop.
    pose proof (skip_cat_right_ge cat (cat (nth pos rs 0%N)) rs pos) as Hge.
    pose proof (skip_cat_right_range cat (cat (nth pos rs 0%N)) rs pos H') as Hr.
    split; [|split; assumption]. split; [|exact Hr].
    destruct (Nat.eq_dec (skip_cat_right cat (cat (nth pos rs 0%N)) rs pos) pos) as [E2|E2]; [|lia].
    destruct Hstop as [Hz|Hn]; [lia|]. rewrite E2 in Hn. exfalso. apply Hn. reflexivity.
  Qed.

  Lemma all_ws_forallb rs :
    (forall i, i < length rs -> cat (nth i rs 0%N) = 0%Z) -> forallb (in_cat cat 0%Z) rs = true.
  Proof.
    intros H. apply forallb_forall. intros x Hx.
    destruct (In_nth rs x 0%N Hx) as [i [Hi Hn]]. apply in_cat_true. rewrite <- Hn. apply H. exact Hi.
  Qed.

  (* The four cut points: left word [a,b), gap [b,c), right word [c,e). *)
  Lemma transpose_gw_cuts rs d : d <= length rs ->
    transpose_gw cat rs d = (rs, d) \/
    exists a b c e c1 c2,
      a < b /\ b <= c /\ c < e /\ e <= length rs /\
      transpose_gw cat rs d = (swap_words rs a b c e, e) /\
      c1 <> 0%Z /\ c2 <> 0%Z /\
      (forall i, a <= i < b -> cat (nth i rs 0%N) = c1) /\
      (forall i, b <= i < c -> cat (nth i rs 0%N) = 0%Z) /\
      (forall i, c <= i < e -> cat (nth i rs 0%N) = c2).
  Proof.
    intros H. unfold transpose_gw.
    destruct (forallb (in_cat cat 0%Z) rs) eqn:Eall; [left; reflexivity|].
    unfold skip_ws_right, skip_ws_left.
    pose proof (skip_cat_right_spec cat 0%Z rs d H) as [Hws0 Hstop0]. cbv zeta in Hws0, Hstop0.
    pose proof (skip_cat_right_ge cat 0%Z rs d) as Hge0.
    pose proof (skip_cat_right_range cat 0%Z rs d H) as Hr0.
    set (pos := skip_cat_right cat 0%Z rs d) in *.
    (* rightEnd: positive, inside, and the rune before it is not whitespace *)
    set (rE := if pos =? length rs then skip_cat_left cat 0%Z rs pos else skip_same_cat_right cat rs pos).
    assert (HrE : 0 < rE /\ rE <= length rs /\ cat (nth (rE - 1) rs 0%N) <> 0%Z).
    { unfold rE. destruct (pos =? length rs) eqn:Ep.
      - apply Nat.eqb_eq in Ep.
        pose proof (skip_cat_left_spec cat 0%Z rs pos Hr0) as [Hws Hstop]. cbv zeta in Hws, Hstop.
        pose proof (skip_cat_left_le cat 0%Z rs pos) as Hle.
        destruct Hstop as [Hz|Hn].
        + exfalso. rewrite all_ws_forallb in Eall; [discriminate|].
          intros i Hi. apply Hws. lia.
        + destruct (Nat.eq_dec (skip_cat_left cat 0%Z rs pos) 0) as [Ez|Ez].
          * exfalso. rewrite all_ws_forallb in Eall; [discriminate|].
            intros i Hi. apply Hws. lia.
          * split; [lia|]. split; [lia|exact Hn].
      - apply Nat.eqb_neq in Ep. assert (Hp : pos < length rs) by lia.
        destruct Hstop0 as [Hz|Hn]; [lia|].
        pose proof (skip_same_right_spec rs pos Hp) as [Hlt [Hs _]]. cbv zeta in Hlt, Hs.
        split; [lia|]. split; [lia|]. rewrite Hs by lia. exact Hn. }
    destruct HrE as [HrE0 [HrEl HrEc]].
    pose proof (skip_same_left_spec rs rE HrE0 HrEl) as [HrSlt [HrSs HrSstop]].
    cbv zeta in HrSlt, HrSs, HrSstop.
    set (rS := skip_same_cat_left cat rs rE) in *.
    assert (HrSl : rS <= length rs) by lia.
    pose proof (skip_cat_left_spec cat 0%Z rs rS HrSl) as [HlEws HlEstop]. cbv zeta in HlEws, HlEstop.
    pose proof (skip_cat_left_le cat 0%Z rs rS) as HlEle.
    set (lE := skip_cat_left cat 0%Z rs rS) in *.
    destruct (lE =? 0) eqn:ElE.
    - (* the word found is the first word: it becomes the left word *)
      pose proof (skip_cat_right_spec cat 0%Z rs rE HrEl) as [Hws1 Hstop1]. cbv zeta in Hws1, Hstop1.
      pose proof (skip_cat_right_ge cat 0%Z rs rE) as Hge1.
      pose proof (skip_cat_right_range cat 0%Z rs rE HrEl) as Hr1.
      set (rS' := skip_cat_right cat 0%Z rs rE) in *.
      destruct (rS' =? length rs) eqn:Er; [left; reflexivity|]. apply Nat.eqb_neq in Er.
      assert (HrS' : rS' < length rs) by lia.
      destruct Hstop1 as [Hz|Hn]; [lia|].
      pose proof (skip_same_right_spec rs rS' HrS') as [Hlt2 [Hs2 _]]. cbv zeta in Hlt2, Hs2.
      right. exists rS, rE, rS', (skip_same_cat_right cat rs rS'),
               (cat (nth (rE - 1) rs 0%N)), (cat (nth rS' rs 0%N)).
      repeat split; try lia; try assumption.
    - apply Nat.eqb_neq in ElE. destruct HlEstop as [Hz|Hn]; [lia|].
      assert (HlE0 : 0 < lE) by lia. assert (HlEl : lE <= length rs) by lia.
      pose proof (skip_same_left_spec rs lE HlE0 HlEl) as [HlSlt [HlSs _]]. cbv zeta in HlSlt, HlSs.
      right. exists (skip_same_cat_left cat rs lE), lE, rS, rE,
               (cat (nth (lE - 1) rs 0%N)), (cat (nth (rE - 1) rs 0%N)).
      repeat split; try lia; try assumption.
  Qed.

  Lemma slice_Forall (P : N -> Prop) rs a b : b <= length rs ->
    (forall i, a <= i < b -> P (nth i rs 0%N)) -> Forall P (slice rs a b).
  Proof.
    intros Hb H. apply Forall_forall. intros x Hx.
    destruct (In_nth _ x 0%N Hx) as [j [Hj Hn]].
    pose proof (length_slice_le rs a b) as Hl.
    unfold slice in Hn. rewrite nth_firstn', nth_skipn' in Hn by lia.
    rewrite <- Hn. apply H. lia.
  Qed.

  (* exact shape: two words are exchanged around the gap between them and
     the dot goes behind what was the left word *)
  Definition words_swapped (rs rs' : list N) (d' : nat) : Prop :=
    exists p w1 s w2 q c1 c2,
      rs = p ++ w1 ++ s ++ w2 ++ q /\ rs' = p ++ w2 ++ s ++ w1 ++ q /\
      d' = length (p ++ w2 ++ s ++ w1) /\
      w1 <> [] /\ w2 <> [] /\ c1 <> 0%Z /\ c2 <> 0%Z /\
      Forall (fun r => cat r = c1) w1 /\ Forall (fun r => cat r = 0%Z) s /\ Forall (fun r => cat r = c2) w2.

  Lemma transpose_gw_swaps rs d : d <= length rs ->
    transpose_gw cat rs d = (rs, d) \/
    words_swapped rs (fst (transpose_gw cat rs d)) (snd (transpose_gw cat rs d)).
  Proof.
    intros H. destruct (transpose_gw_cuts rs d H) as [Hu|[a [b [c [e [c1 [c2 Hc]]]]]]]; [left; exact Hu|right].
    destruct Hc as [Hab [Hbc [Hce [Hel [Heq [Hc1 [Hc2 [Hw1 [Hs Hw2]]]]]]]]].
    rewrite Heq. simpl fst; simpl snd.
    exists (firstn a rs), (slice rs a b), (slice rs b c), (slice rs c e), (skipn e rs), c1, c2.
    split; [apply split4; lia|]. split; [reflexivity|].
    split.
    { rewrite !app_length, firstn_length, !length_slice by lia. lia. }
    split.
    { intros E. apply (f_equal (@length N)) in E. rewrite length_slice in E by lia. simpl in E. lia. }
    split.
    { intros E. apply (f_equal (@length N)) in E. rewrite length_slice in E by lia. simpl in E. lia. }
    split; [exact Hc1|]. split; [exact Hc2|].
    split; [apply slice_Forall; [lia|exact Hw1]|].
    split; [apply slice_Forall; [lia|exact Hs]|apply slice_Forall; [lia|exact Hw2]].
  Qed.

  Lemma words_swapped_perm rs rs' d' : words_swapped rs rs' d' ->
    Permutation rs rs' /\ length rs' = length rs /\ d' <= length rs'.
  Proof.
    intros [p [w1 [s [w2 [q [c1 [c2 [E1 [E2 [E3 _]]]]]]]]]]. subst. split; [|split].
    - apply Permutation_app_head.
      rewrite !app_assoc. apply Permutation_app_tail.
      rewrite <- !app_assoc.
      transitivity ((s ++ w2) ++ w1); [apply Permutation_app_comm|].
      rewrite <- app_assoc.
      transitivity ((w2 ++ s) ++ w1); [rewrite app_assoc; apply Permutation_app_tail, Permutation_app_comm|].
      rewrite <- app_assoc. apply Permutation_refl.
    - rewrite !app_length. lia.
    - rewrite !app_length. lia.
  Qed.

  Lemma transpose_gw_perm rs d : d <= length rs ->
    Permutation rs (fst (transpose_gw cat rs d)) /\
    snd (transpose_gw cat rs d) <= length (fst (transpose_gw cat rs d)).
  Proof.
    intros H. destruct (transpose_gw_swaps rs d H) as [Hu|Hs].
    - rewrite Hu. simpl. split; [apply Permutation_refl|exact H].
    - apply words_swapped_perm in Hs as [Hp [_ Hd]]. split; assumption.
  Qed.
End Transpose.
