(* C22 -- the cache key is canonical: spellings of a path that differ by "."
   elements, doubled slashes or "name/.." detours are cleaned to the same key. *)
From verif Require Import lib.Base model.C22 proofs.C22_proofs.
Open Scope N_scope.

Lemma split_nonempty s : split_slash s <> [].
Proof.
  destruct s as [|c r]; simpl; [discriminate|].
  destruct (is_sl c); [discriminate|]. destruct (split_slash r); discriminate.
Qed.

Lemma split_app a : forall b, split_slash (a ++ SL :: b) = split_slash a ++ split_slash b.
Proof.
  induction a as [|c a IH]; intros b; simpl.
  - reflexivity.
  - destruct (is_sl c); [rewrite IH; reflexivity|].
    rewrite IH. pose proof (split_nonempty a) as Hne.
    destruct (split_slash a) as [|seg segs]; [contradiction|reflexivity].
Qed.

Lemma split_noslash s : ~ In SL s -> split_slash s = [s].
Proof.
  induction s as [|c r IH]; intros H; simpl; [reflexivity|].
  assert (Hc : is_sl c = false).
  { unfold is_sl. apply N.eqb_neq. intros ->. apply H. left. reflexivity. }
  rewrite Hc, IH; [reflexivity|]. intros Hin. apply H. right. exact Hin.
Qed.

Lemma clean_segs_app a b :
  clean_segs (a ++ b) = rev (fold_left clean_step b (fold_left clean_step a [])).
Proof. unfold clean_segs. rewrite fold_left_app. reflexivity. Qed.

Lemma clean_skip a x b :
  (forall stk, clean_step stk x = stk) -> clean_segs (a ++ x :: b) = clean_segs (a ++ b).
Proof. intros H. rewrite !clean_segs_app. simpl. rewrite H. reflexivity. Qed.

(* a proper path element: a name *)
Definition proper (seg : bytes) : Prop :=
  seg <> [] /\ seg <> [DOT] /\ seg <> [DOT; DOT] /\ ~ In SL seg.

Lemma step_proper stk seg : proper seg -> clean_step stk seg = seg :: stk.
Proof.
  intros [H1 [H2 [H3 _]]]. unfold clean_step.
  apply bytes_eqb_false in H1, H2, H3. rewrite H1, H2, H3. reflexivity.
Qed.

Theorem dot_element_ignored d x :
  clean_abs (d ++ SL :: DOT :: SL :: x) = clean_abs (d ++ SL :: x).
Proof.
  unfold clean_abs. f_equal.
  change (DOT :: SL :: x) with ([DOT] ++ SL :: x).
  rewrite !split_app. simpl (split_slash [DOT]).
  change ([[DOT]] ++ split_slash x) with ([DOT] :: split_slash x).
  apply clean_skip. intros stk. reflexivity.
Qed.

Theorem double_slash_ignored d x :
  clean_abs (d ++ SL :: SL :: x) = clean_abs (d ++ SL :: x).
Proof.
  unfold clean_abs. f_equal.
  change (SL :: x) with ([] ++ SL :: x) at 1.
  rewrite !split_app. simpl (split_slash []).
  change ([[]] ++ split_slash x) with ([] :: split_slash x).
  apply clean_skip. intros stk. reflexivity.
Qed.

Theorem dotdot_cancels d name x : proper name ->
  clean_abs (d ++ SL :: name ++ SL :: DOT :: DOT :: SL :: x) = clean_abs (d ++ SL :: x).
Proof.
  intros Hp. unfold clean_abs. f_equal.
  change (DOT :: DOT :: SL :: x) with ([DOT; DOT] ++ SL :: x).
  rewrite !split_app. rewrite (split_noslash name) by (apply Hp).
  simpl (split_slash [DOT; DOT]).
  rewrite !clean_segs_app. f_equal. simpl. rewrite (step_proper _ _ Hp). reflexivity.
Qed.

(* hence a lib-dir import [name] and a relative import [./name] from code in
   that directory are looked up under the same key *)
Theorem lib_and_relative_same_key (cx : ctx) d name :
  name <> [] ->
  join_path d name = rel_path cx (Some d) (DOT :: SL :: name).
Proof.
  intros Hne. unfold join_path, rel_path, rel_dir.
  destruct name as [|c r]; [contradiction|]. symmetry. apply dot_element_ignored.
Qed.
