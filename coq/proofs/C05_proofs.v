(* Proofs for C05: number <-> string.  Part A: scanning digits. *)
From verif Require Import lib.Base model.C05.
From Coq Require Import ZArith Znumtheory.
Open Scope N_scope.

(* ---------- characters ---------- *)
Lemma digit_val_dec c : is_dec c = true -> digit_val c = c - 48.
Proof. unfold is_dec, digit_val. intros H. rewrite H. reflexivity. Qed.

Lemma digit_val_lt10 c : digit_val c < 10 -> is_dec c = true.
Proof.
  unfold digit_val, is_dec. destruct ((48 <=? c) && (c <=? 57)) eqn:E1; [reflexivity|].
  destruct ((97 <=? c) && (c <=? 122)) eqn:E2; [lia|].
  destruct ((65 <=? c) && (c <=? 90)) eqn:E3; lia.
Qed.

Lemma dig_char_val d : d_val d < 16 -> digit_val (dig_char d) = d_val d.
Proof.
  intros H. unfold dig_char, digit_val.
  destruct (d_val d <? 10) eqn:E.
  - apply N.ltb_lt in E.
    replace ((48 <=? 48 + d_val d) && (48 + d_val d <=? 57)) with true. lia.
    symmetry. apply andb_true_iff. split; apply N.leb_le; lia.
  - apply N.ltb_ge in E. destruct (d_up d).
    + replace ((48 <=? 65 + (d_val d - 10)) && (65 + (d_val d - 10) <=? 57)) with false.
      2:{ symmetry. apply andb_false_iff. right. apply N.leb_gt. lia. }
      replace ((97 <=? 65 + (d_val d - 10)) && (65 + (d_val d - 10) <=? 122)) with false.
      2:{ symmetry. apply andb_false_iff. left. apply N.leb_gt. lia. }
      replace ((65 <=? 65 + (d_val d - 10)) && (65 + (d_val d - 10) <=? 90)) with true. lia.
      symmetry. apply andb_true_iff. split; apply N.leb_le; lia.
    + replace ((48 <=? 97 + (d_val d - 10)) && (97 + (d_val d - 10) <=? 57)) with false.
      2:{ symmetry. apply andb_false_iff. right. apply N.leb_gt. lia. }
      replace ((97 <=? 97 + (d_val d - 10)) && (97 + (d_val d - 10) <=? 122)) with true. lia.
      symmetry. apply andb_true_iff. split; apply N.leb_le; lia.
Qed.

(* a digit character is a digit or a letter, for every d *)
Lemma dig_char_range d :
  (48 <= dig_char d /\ dig_char d <= 57 /\ d_val d < 10) \/ 65 <= dig_char d.
Proof.
  unfold dig_char. destruct (d_val d <? 10) eqn:E.
  - apply N.ltb_lt in E. left. lia.
  - right. destruct (d_up d); lia.
Qed.

Lemma dig_char_not c d : c < 48 \/ c = 95 -> d_val d < 16 -> (dig_char d =? c) = false.
Proof.
  intros Hc Hd. apply N.eqb_neq. intros E.
  unfold dig_char in E. destruct (d_val d <? 10) eqn:E1.
  - apply N.ltb_lt in E1. lia.
  - apply N.ltb_ge in E1. destruct (d_up d); lia.
Qed.

(* ---------- the digit loop over rendered digits ---------- *)
Definition dfold (b : N) (ds : list dig) (acc : N) : N :=
  fold_left (fun a d => a * b + d_val d) ds acc.

Lemma scan_loop_render_tail b ds : b <= 16 ->
  forallb (fun d => d_val d <? b) ds = true ->
  forall acc cnt inval rest,
  scan_loop b acc cnt PDig inval (render_tail ds ++ rest) =
  scan_loop b (dfold b ds acc) (cnt + N.of_nat (length ds)) PDig inval rest.
Proof.
  intros Hb. induction ds as [|d r IH]; intros Hall acc cnt inval rest.
  - cbn [render_tail app dfold fold_left length]. rewrite N.add_0_r. reflexivity.
  - cbn [forallb] in Hall. apply andb_true_iff in Hall as [Hd Hr]. apply N.ltb_lt in Hd.
    assert (Hd16 : d_val d < 16) by lia.
    assert (One : forall p iv tl0,
      scan_loop b acc cnt p iv (dig_char d :: tl0) =
      scan_loop b (acc * b + d_val d) (cnt + 1) PDig iv tl0).
    { intros p iv tl0. cbn [scan_loop]. unfold cUnd.
      rewrite (dig_char_not 95 d) by (auto; lia).
      rewrite dig_char_val by assumption.
      replace (b <=? d_val d) with false by (symmetry; apply N.leb_gt; lia). reflexivity. }
    cbn [render_tail]. destruct (d_sep d).
    + cbn [app]. change (scan_loop b acc cnt PDig inval (cUnd :: dig_char d :: render_tail r ++ rest))
        with (if cUnd =? cUnd then scan_loop b acc cnt PUnd (inval || negb (is_dig PDig)) (dig_char d :: render_tail r ++ rest)
              else (let dd := digit_val cUnd in if b <=? dd then (acc, cnt, PDig, inval, cUnd :: dig_char d :: render_tail r ++ rest)
                    else scan_loop b (acc * b + dd) (cnt + 1) PDig inval (dig_char d :: render_tail r ++ rest))).
      rewrite N.eqb_refl. cbn [is_dig negb]. rewrite orb_false_r.
      rewrite One, IH by assumption. cbn [dfold fold_left length].
      f_equal. lia.
    + cbn [app]. rewrite One, IH by assumption. cbn [dfold fold_left length]. f_equal. lia.
Qed.

Lemma scan_loop_first b d tl0 acc cnt p iv : b <= 16 -> d_val d < b ->
  scan_loop b acc cnt p iv (dig_char d :: tl0) = scan_loop b (acc * b + d_val d) (cnt + 1) PDig iv tl0.
Proof.
  intros Hb Hd. cbn [scan_loop]. unfold cUnd.
  rewrite (dig_char_not 95 d) by (auto; lia).
  rewrite dig_char_val by lia.
  replace (b <=? d_val d) with false by (symmetry; apply N.leb_gt; lia). reflexivity.
Qed.

(* all digits of a group, then [rest] *)
Lemma scan_loop_render_digits b d r acc cnt p iv rest : b <= 16 ->
  forallb (fun x => d_val x <? b) (d :: r) = true ->
  scan_loop b acc cnt p iv (render_digits (d :: r) ++ rest) =
  scan_loop b (dfold b (d :: r) acc) (cnt + N.of_nat (length (d :: r))) PDig iv rest.
Proof.
  intros Hb Hall. cbn [forallb] in Hall. apply andb_true_iff in Hall as [Hd Hr]. apply N.ltb_lt in Hd.
  cbn [render_digits app]. rewrite scan_loop_first by assumption.
  rewrite scan_loop_render_tail by assumption. cbn [dfold fold_left length]. f_equal. lia.
Qed.

(* ---------- nat.scan on a documented integer literal ---------- *)
Lemma wf_nat_inv l : wf_nat l = true ->
  (nl_base l = 10 \/ nl_base l = 16 \/ nl_base l = 8 \/ nl_base l = 2)
  /\ forallb (fun d => d_val d <? nl_base l) (nl_ds l) = true
  /\ exists d r, nl_ds l = d :: r /\ (nl_base l = 10 -> d_val d = 0 -> r = []).
Proof.
  unfold wf_nat. intros H. apply andb_true_iff in H as [H H3]. apply andb_true_iff in H as [H1 H2].
  split; [|split; [exact H2|]].
  - repeat (apply orb_true_iff in H1 as [H1|H1]); apply N.eqb_eq in H1; auto.
  - destruct (nl_ds l) as [|d r]; [discriminate|]. exists d, r. split; [reflexivity|].
    intros Hb Hd. rewrite Hb, Hd in H3. cbn in H3. destruct r; [reflexivity|discriminate].
Qed.

Lemma scan_loop_nil b acc cnt p iv : scan_loop b acc cnt p iv [] = (acc, cnt, p, iv, []).
Proof. reflexivity. Qed.

Lemma nat_scan_render l : wf_nat l = true -> nat_scan (render_nat l) = Some (nat_value l, []).
Proof.
  intros W. destruct (wf_nat_inv l W) as (Hb & Hall & d & r & Hds & Hz).
  destruct l as [b up ds]. cbn [nl_base nl_ds nl_up] in *. subst ds.
  unfold render_nat, nat_value, digits_value. cbn [nl_base nl_ds nl_up].
  assert (Hd : d_val d < b).
  { cbn [forallb] in Hall. apply andb_true_iff in Hall as [Hd _]. apply N.ltb_lt in Hd. exact Hd. }
  assert (Loop : forall p c0',
     scan_loop b 0 c0' p false (render_digits (d :: r)) =
     (dfold b (d :: r) 0, c0' + N.of_nat (length (d :: r)), PDig, false, [])).
  { intros p c0'. rewrite <- (app_nil_r (render_digits (d :: r))).
    rewrite scan_loop_render_digits by (assumption || lia). apply scan_loop_nil. }
  assert (Fin : forall c0', (c0' + N.of_nat (length (d :: r)) =? 0) = false).
  { intros. apply N.eqb_neq. cbn [length]. lia. }
  destruct Hb as [Hb|[Hb|[Hb|Hb]]]; subst b.
  - (* decimal *)
    cbn [prefix_of N.eqb Pos.eqb app].
    destruct (N.eq_dec (d_val d) 0) as [Z0|NZ].
    + rewrite (Hz eq_refl Z0). unfold render_digits, render_tail, dig_char. cbn [fold_left]. rewrite Z0. reflexivity.
    + unfold nat_scan.
      assert (SP : scan_prefix (render_digits (d :: r)) = (10, false, PDot, 0, render_digits (d :: r))).
      { cbn [render_digits scan_prefix]. unfold c0.
        replace (dig_char d =? 48) with false; [reflexivity|].
        symmetry. apply N.eqb_neq. unfold dig_char.
        replace (d_val d <? 10) with true by (symmetry; apply N.ltb_lt; lia). lia. }
      rewrite SP, Loop. cbn [orb is_und]. rewrite Fin. reflexivity.
  - (* hex *)
    unfold nat_scan. destruct up; cbn [prefix_of N.eqb Pos.eqb app scan_prefix c0 is_bB is_oO is_xX orb];
      rewrite Loop; cbn [orb is_und]; rewrite Fin; reflexivity.
  - unfold nat_scan. destruct up; cbn [prefix_of N.eqb Pos.eqb app scan_prefix c0 is_bB is_oO is_xX orb];
      rewrite Loop; cbn [orb is_und]; rewrite Fin; reflexivity.
  - unfold nat_scan. destruct up; cbn [prefix_of N.eqb Pos.eqb app scan_prefix c0 is_bB is_oO is_xX orb];
      rewrite Loop; cbn [orb is_und]; rewrite Fin; reflexivity.
Qed.

(* ---------- no '/' and no sign inside rendered integers ---------- *)
Definition plainc (c : N) : bool := negb (c =? cSlash) && negb (c =? cMinus) && negb (c =? cPlus).

Lemma plainc_dig_char d : plainc (dig_char d) = true.
Proof.
  unfold plainc, cSlash, cMinus, cPlus.
  destruct (dig_char_range d) as [(H1 & H2 & _)|H];
  repeat (apply andb_true_iff; split); apply negb_true_iff, N.eqb_neq; lia.
Qed.

Lemma plainc_render_tail ds : forallb plainc (render_tail ds) = true.
Proof.
  induction ds as [|d r IH]; [reflexivity|]. cbn [render_tail].
  rewrite forallb_app. cbn [forallb]. rewrite plainc_dig_char, IH.
  destruct (d_sep d); reflexivity.
Qed.

Lemma plainc_render_digits ds : forallb plainc (render_digits ds) = true.
Proof. destruct ds as [|d r]; [reflexivity|]. cbn [render_digits forallb].
  rewrite plainc_dig_char, plainc_render_tail. reflexivity. Qed.

Lemma plainc_render_nat l : forallb plainc (render_nat l) = true.
Proof.
  unfold render_nat. rewrite forallb_app, plainc_render_digits, andb_true_r.
  unfold prefix_of. destruct (nl_base l =? 16); [destruct (nl_up l); reflexivity|].
  destruct (nl_base l =? 8); [destruct (nl_up l); reflexivity|].
  destruct (nl_base l =? 2); [destruct (nl_up l); reflexivity|reflexivity].
Qed.

Lemma plainc_no_slash s : forallb plainc s = true -> has_byte cSlash s = false.
Proof.
  induction s as [|c r IH]; [reflexivity|]. cbn [forallb has_byte existsb]. intros H.
  apply andb_true_iff in H as [H1 H2]. unfold has_byte in IH. rewrite IH by assumption.
  unfold plainc in H1. apply andb_true_iff in H1 as [H1 _]. apply andb_true_iff in H1 as [H1 _].
  apply negb_true_iff in H1. rewrite N.eqb_sym, H1. reflexivity.
Qed.

Lemma render_nat_head l : wf_nat l = true ->
  exists c r, render_nat l = c :: r /\ plainc c = true.
Proof.
  intros W. pose proof (plainc_render_nat l) as P.
  destruct (wf_nat_inv l W) as (_ & _ & d & r & Hds & _).
  destruct (render_nat l) as [|c t] eqn:E.
  - exfalso. unfold render_nat in E. rewrite Hds in E. apply app_eq_nil in E as [_ E]. discriminate.
  - exists c, t. split; [reflexivity|]. cbn [forallb] in P. apply andb_true_iff in P as [P _]. exact P.
Qed.

Lemma int_setstring0_render neg l : wf_nat l = true ->
  int_setstring0 (sign_bytes neg ++ render_nat l) = Some (signed neg (nat_value l)).
Proof.
  intros W. destruct neg; cbn [sign_bytes app].
  - unfold int_setstring0. cbn [N.eqb Pos.eqb cMinus orb]. rewrite nat_scan_render by assumption. reflexivity.
  - destruct (render_nat_head l W) as (c & r & E & P). pose proof (nat_scan_render l W) as NS.
    rewrite E in *. unfold int_setstring0.
    unfold plainc in P. apply andb_true_iff in P as [P P3]. apply andb_true_iff in P as [_ P2].
    apply negb_true_iff in P2, P3. rewrite P2, P3. cbn [orb]. rewrite NS. reflexivity.
Qed.

Lemma has_byte_app c a b : has_byte c (a ++ b) = has_byte c a || has_byte c b.
Proof. unfold has_byte. apply existsb_app. Qed.

Lemma split_slash_app a b : has_byte cSlash a = false ->
  split_slash (a ++ cSlash :: b) = Some (a, b).
Proof.
  induction a as [|c r IH]; intros H.
  - cbn [app split_slash]. rewrite N.eqb_refl. reflexivity.
  - cbn [has_byte existsb] in H. apply orb_false_iff in H as [H1 H2].
    cbn [app split_slash]. rewrite N.eqb_sym, H1. unfold has_byte in IH. rewrite IH by assumption. reflexivity.
Qed.

Section Parse.
  Variable pf : bytes -> option N.

  Theorem literal_value_int neg l : wf_nat l = true ->
    parse_num pf (render (LInt neg l)) = PNum (canon_int (signed neg (nat_value l))).
  Proof.
    intros W. unfold parse_num. cbn [render].
    assert (NS : has_byte cSlash (sign_bytes neg ++ render_nat l) = false).
    { rewrite has_byte_app, (plainc_no_slash (render_nat l)) by apply plainc_render_nat.
      destruct neg; reflexivity. }
    rewrite NS, int_setstring0_render by assumption. reflexivity.
  Qed.

  Theorem literal_value_rat neg n d : wf_nat n = true -> wf_nat d = true -> nat_value d <> 0 ->
    parse_num pf (render (LRat neg n d)) =
    PNum (canon_rat (signed neg (nat_value n)) (Z.of_N (nat_value d))).
  Proof.
    intros Wn Wd Nz. unfold parse_num. cbn [render].
    assert (NS : has_byte cSlash (sign_bytes neg ++ render_nat n) = false).
    { rewrite has_byte_app, (plainc_no_slash (render_nat n)) by apply plainc_render_nat.
      destruct neg; reflexivity. }
    rewrite app_assoc.
    assert (HS : has_byte cSlash ((sign_bytes neg ++ render_nat n) ++ cSlash :: render_nat d) = true).
    { rewrite has_byte_app. cbn [has_byte existsb]. rewrite N.eqb_refl. apply orb_true_r. }
    rewrite HS. unfold rat_setstring. rewrite split_slash_app by assumption.
    rewrite int_setstring0_render, nat_scan_render by assumption.
    replace (nat_value d =? 0) with false by (symmetry; apply N.eqb_neq; assumption).
    reflexivity.
  Qed.
End Parse.

(* ---------- decimal output ---------- *)
Definition dvalue (ds : list N) : N := fold_left (fun a d => a * 10 + d) ds 0.

Lemma to_digits_spec f : forall n, n < 2 ^ N.of_nat f ->
  let ds := to_digits f n in
  forallb (fun d => d <? 10) ds = true /\ dvalue ds = n
  /\ (exists d r, ds = d :: r /\ (d = 0 -> r = [] /\ n = 0)).
Proof.
  induction f as [|f IH]; intros n Hn.
  - cbn in Hn. assert (n = 0) by lia. subst n. cbn. repeat split. exists 0, []. auto.
  - cbn [to_digits]. destruct (n <? 10) eqn:E.
    + apply N.ltb_lt in E. cbn [forallb]. rewrite andb_true_r. repeat split.
      * apply N.ltb_lt; exact E.
      * exists n, []. split; [reflexivity|]. intros; auto.
    + apply N.ltb_ge in E.
      assert (Hq : n / 10 < 2 ^ N.of_nat f).
      { rewrite Nat2N.inj_succ, N.pow_succ_r' in Hn.
        apply N.div_lt_upper_bound; lia. }
      destruct (IH (n / 10) Hq) as (A & V & d & r & Hds & Hz).
      assert (Q1 : 1 <= n / 10) by (apply N.div_le_lower_bound; lia).
      repeat split.
      * rewrite forallb_app, A. cbn [forallb]. rewrite andb_true_r. apply N.ltb_lt.
        apply N.mod_lt; lia.
      * unfold dvalue in *. rewrite fold_left_app, V. cbn [fold_left].
        pose proof (N.div_mod n 10). lia.
      * rewrite Hds. exists d, (r ++ [n mod 10]). split; [reflexivity|].
        intros D0. destruct (Hz D0) as [_ Z0]. lia.
Qed.

Lemma digits_of_spec n :
  let ds := digits_of n in
  forallb (fun d => d <? 10) ds = true /\ dvalue ds = n
  /\ (exists d r, ds = d :: r /\ (d = 0 -> r = [] /\ n = 0)).
Proof.
  apply to_digits_spec. rewrite N2Nat.id. apply N.size_gt.
Qed.

Definition plain (d : N) : dig := mkDig d false false.

Lemma render_tail_plain ds : forallb (fun d => d <? 10) ds = true ->
  render_tail (map plain ds) = map dchar ds.
Proof.
  induction ds as [|d r IH]; [reflexivity|]. cbn [forallb]. intros H.
  apply andb_true_iff in H as [H1 H2].
  change (render_tail (map plain (d :: r))) with (dig_char (plain d) :: render_tail (map plain r)).
  rewrite IH by assumption. unfold dig_char, dchar, plain. cbn [d_val map]. rewrite H1. reflexivity.
Qed.

Lemma render_digits_plain ds : forallb (fun d => d <? 10) ds = true ->
  render_digits (map plain ds) = map dchar ds.
Proof.
  destruct ds as [|d r]; [reflexivity|]. cbn [forallb]. intros H.
  apply andb_true_iff in H as [H1 H2].
  change (render_digits (map plain (d :: r))) with (dig_char (plain d) :: render_tail (map plain r)).
  rewrite render_tail_plain by assumption. unfold dig_char, dchar, plain. cbn [d_val map]. rewrite H1. reflexivity.
Qed.

Lemma forallb_map_plain (b : N) ds :
  forallb (fun d => d_val d <? b) (map plain ds) = forallb (fun d => d <? b) ds.
Proof. induction ds as [|d r IH]; [reflexivity|]. cbn [map forallb plain d_val]. rewrite IH. reflexivity. Qed.

Lemma fold_map_plain ds : forall a,
  fold_left (fun a d => a * 10 + d_val d) (map plain ds) a = fold_left (fun a d => a * 10 + d) ds a.
Proof. induction ds as [|x l IH]; intros a; [reflexivity|]. cbn [map fold_left plain d_val]. apply IH. Qed.

Definition natlit_of (n : N) : natlit := mkNat 10 false (map plain (digits_of n)).

Lemma natlit_of_spec n :
  wf_nat (natlit_of n) = true /\ nat_value (natlit_of n) = n /\ render_nat (natlit_of n) = dec_N n.
Proof.
  destruct (digits_of_spec n) as (A & V & d & r & Hds & Hz).
  unfold natlit_of, wf_nat, nat_value, render_nat, dec_N. cbn [nl_base nl_ds nl_up prefix_of N.eqb Pos.eqb app orb].
  repeat split.
  - rewrite forallb_map_plain, A. rewrite Hds. cbn [map plain d_val].
    destruct (N.eq_dec d 0) as [D0|D1].
    + destruct (Hz D0) as [R0 _]. subst r d. reflexivity.
    + replace (d =? 0) with false by (symmetry; apply N.eqb_neq; assumption). reflexivity.
  - unfold digits_value. rewrite fold_map_plain. exact V.
  - apply render_digits_plain. exact A.
Qed.

Lemma dec_Z_is_literal z :
  dec_Z z = render (LInt (z <? 0)%Z (natlit_of (Z.abs_N z)))
  /\ signed (z <? 0)%Z (nat_value (natlit_of (Z.abs_N z))) = z.
Proof.
  destruct (natlit_of_spec (Z.abs_N z)) as (_ & V & R).
  unfold dec_Z. cbn [render]. rewrite R, V. destruct (z <? 0)%Z eqn:E.
  - apply Z.ltb_lt in E. cbn [sign_bytes app signed]. split.
    + f_equal. f_equal. lia.
    + lia.
  - apply Z.ltb_ge in E. cbn [sign_bytes app signed]. split.
    + f_equal. lia.
    + lia.
Qed.

Section Roundtrip.
  Variable pf : bytes -> option N.
  Variable fmtF fmtE : N -> bytes.

  (* every integer: the decimal text never takes the octal / prefix paths *)
  Theorem int_roundtrip z :
    parse_num pf (to_string fmtF fmtE (canon_int z)) = PNum (canon_int z).
  Proof.
    assert (T : to_string fmtF fmtE (canon_int z) = dec_Z z).
    { unfold canon_int. destruct (C05.in_int z); reflexivity. }
    rewrite T. destruct (dec_Z_is_literal z) as [E V]. rewrite E.
    rewrite literal_value_int by apply natlit_of_spec. rewrite V. reflexivity.
  Qed.

  Theorem rat_roundtrip n d : canonical (NRat n d) = true ->
    parse_num pf (to_string fmtF fmtE (NRat n d)) = PNum (NRat n d).
  Proof.
    cbn [canonical]. intros C. apply andb_true_iff in C as [D G].
    apply Z.ltb_lt in D. apply Z.eqb_eq in G.
    cbn [to_string]. destruct (dec_Z_is_literal n) as [En Vn].
    destruct (natlit_of_spec (Z.abs_N d)) as (Wd & Vd & Rd).
    assert (Ed : dec_Z d = render_nat (natlit_of (Z.abs_N d))).
    { unfold dec_Z. replace (d <? 0)%Z with false by (symmetry; apply Z.ltb_ge; lia).
      rewrite Rd. f_equal. lia. }
    rewrite En, Ed. cbn [render]. rewrite <- app_assoc.
    change (sign_bytes (n <? 0)%Z ++ render_nat (natlit_of (Z.abs_N n)) ++ cSlash :: render_nat (natlit_of (Z.abs_N d)))
      with (render (LRat (n <? 0)%Z (natlit_of (Z.abs_N n)) (natlit_of (Z.abs_N d)))).
    rewrite literal_value_rat; try apply natlit_of_spec.
    2:{ rewrite Vd. lia. }
    rewrite Vn, Vd. replace (Z.of_N (Z.abs_N d)) with d by lia.
    unfold canon_rat. rewrite G, !Z.div_1_r.
    replace (d =? 1)%Z with false by (symmetry; apply Z.eqb_neq; lia). reflexivity.
  Qed.
End Roundtrip.
