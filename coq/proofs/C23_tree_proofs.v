(* C23 — the executed instance: the file system computed from a well-formed
   tree satisfies the ReadDir contract (distinct slash-free names), descending
   into a directory entry strictly decreases the height of the resolved node,
   and therefore the fuel the judge gives to glob is always sufficient. *)
From verif Require Import lib.Base lib.Utf8 model.C23
  proofs.C23_proofs proofs.C23_glob_proofs proofs.C23_nodup_proofs.
Open Scope nat_scope.

(* ------------------------------------------------------------------ *)
(* fuel sufficiency for any file system with a bounded rank that decreases
   along directory entries *)

Definition dir_ok (dir : bytes) : Prop := dir = [] \/ exists a, dir = a ++ [SL].

Definition ranked (fs : fsys) (rk : bytes -> nat) (H : nat) : Prop :=
  (forall d, rk d <= H) /\
  forall dir infos n, dir_ok dir -> readDir fs dir = Some infos -> In (n, true) infos ->
    rk (dir ++ n ++ [SL]) < rk dir.

Lemma fmo_total {A B} (f : A -> option (list B)) l :
  (forall x, In x l -> exists r, f x = Some r) -> exists r, flat_map_opt f l = Some r.
Proof.
  induction l as [|x l IH]; intros H; simpl; [eauto|].
  destruct (H x (or_introl eq_refl)) as [a ->].
  destruct IH as [b ->]; [intros y Hy; apply H; right; exact Hy|]. eauto.
Qed.

Lemma follow_measure fs : forall n segs dir segs' dir', length segs <= n -> dir_ok dir ->
  follow_prefix fs segs dir = Some (segs', dir') ->
  dir_ok dir' /\ ((segs' = segs /\ dir' = dir) \/ length segs' + 2 <= length segs).
Proof.
  induction n as [|n IH]; intros segs dir segs' dir' Hl Hd H.
  - destruct segs; [|simpl in Hl; lia]. simpl in H. inversion H; subst. auto.
  - destruct segs as [|[d| |w] [|[d2| |w2] tl]]; simpl in H;
      try (inversion H; subst; split; [exact Hd|left; auto]; fail).
    destruct (lstat fs (dir ++ d ++ [SL])) as [[| | |]|]; try discriminate.
    simpl in Hl.
    assert (Hd' : dir_ok (dir ++ d ++ [SL])) by (right; exists (dir ++ d); rewrite app_assoc; reflexivity).
    destruct (IH tl _ _ _ ltac:(lia) Hd' H) as [H1 [[-> ->]|H2]]; (split; [exact H1|]); right; simpl; lia.
Qed.

Theorem glob_fuel_ranked fs m rk H : ranked fs rk H ->
  forall fuel segs dir, dir_ok dir -> length segs * S H + rk dir < fuel ->
  exists l, glob_gen m fuel fs segs dir = Some l.
Proof.
  intros [Hb Hr]. induction fuel as [|f IH]; intros segs dir Hd Hf; [lia|].
  rewrite glob_gen_S. unfold glob_body.
  destruct (follow_prefix fs segs dir) as [[segs' dir']|] eqn:Ef; [|eauto].
  destruct (follow_measure fs _ _ _ _ _ (le_n _) Hd Ef) as [Hd' Hm].
  assert (Hmu : length segs' * S H + rk dir' <= f).
  { destruct Hm as [[-> ->]|Hm]; [lia|]. pose proof (Hb dir'). nia. }
  clear Ef Hm Hf.
  destruct (simple_target segs' dir'); [eauto|].
  destruct (readDir fs dir') as [infos|] eqn:Er; [|eauto].
  match goal with |- context [flat_map_opt ?F (fst (cuts [] segs'))] =>
    destruct (fmo_total F (fst (cuts [] segs'))) as [r1 E1] end.
  - intros [first rest] Hc. simpl. apply fmo_total. intros [n b] Hi. simpl.
    destruct (m first n && b) eqn:Emb; [|eauto]. apply andb_true_iff in Emb as [_ ->].
    apply IH; [right; exists (dir' ++ n); rewrite app_assoc; reflexivity|].
    pose proof (Hr _ _ _ Hd' Er Hi) as Hlt. pose proof (Hb (dir' ++ n ++ [SL])) as Hbn.
    apply cuts_sound in Hc as [(p1 & post' & E & _ & _ & ->)|(p1 & w & post' & E & _ & _ & _ & ->)];
      rewrite E in Hmu; rewrite app_length in Hmu; simpl in Hmu |- *; nia.
  - rewrite E1. eauto.
Qed.

(* ------------------------------------------------------------------ *)
(* trees *)

Lemma wf_dir es : wf_tree (Dir es) = true ->
  nodup_names (map fst es) = true /\ (forall n t, In (n, t) es -> name_ok n = true /\ wf_tree t = true).
Proof.
  simpl. intros H. apply andb_true_iff in H as [H H3]. apply andb_true_iff in H as [H1 H2].
  split; [exact H1|]. intros n t Hin. rewrite forallb_forall in H2. split; [apply (H2 _ Hin)|].
  clear H1 H2. induction es as [|e es IH]; [destruct Hin|].
  apply andb_true_iff in H3 as [Ha Hb]. destruct Hin as [->|Hin]; [exact Ha|apply IH; assumption].
Qed.

Lemma height_child es n t : In (n, t) es -> height t < height (Dir es).
Proof.
  simpl. induction es as [|e es IH]; intros Hin; [destruct Hin|].
  destruct Hin as [->|Hin]; simpl; [lia|]. specialize (IH Hin). lia.
Qed.

Lemma lookup_in n es t : lookup n es = Some t -> In (n, t) es.
Proof.
  induction es as [|[n' t'] es IH]; simpl; [discriminate|].
  destruct (bytes_eqb n' n) eqn:E.
  - apply bytes_eqb_spec in E; subst. intros H; inversion H; subst. left; reflexivity.
  - intros H; right; apply IH, H.
Qed.

Lemma mem_in p l : mem p l = true <-> In p l.
Proof.
  unfold mem. rewrite existsb_exists. split.
  - intros (x & Hx & E). apply bytes_eqb_spec in E; subst; exact Hx.
  - intros H. exists p. split; [exact H|apply bytes_eqb_refl].
Qed.

Lemma nodup_names_spec l : nodup_names l = true -> NoDup l.
Proof.
  induction l as [|x l IH]; simpl; intros H; [constructor|].
  apply andb_true_iff in H as [H1 H2]. constructor; [|apply IH, H2].
  intros Hin. apply mem_in in Hin. rewrite Hin in H1. discriminate.
Qed.

Lemma lookup_nodup es : nodup_names (map fst es) = true -> forall n t, In (n, t) es -> lookup n es = Some t.
Proof.
  induction es as [|[n' t'] es IH]; simpl; intros Hn n t Hin; [destruct Hin|].
  apply andb_true_iff in Hn as [H1 H2]. destruct Hin as [E|Hin].
  - inversion E; subst. rewrite bytes_eqb_refl. reflexivity.
  - destruct (bytes_eqb n' n) eqn:E; [|apply IH; assumption].
    apply bytes_eqb_spec in E; subst n'. exfalso.
    assert (Hm : mem n (map fst es) = true) by (apply mem_in, in_map_iff; exists (n, t); auto).
    rewrite Hm in H1. discriminate.
Qed.

Lemma name_ok_spec n : name_ok n = true ->
  n <> [] /\ ~ In SL n /\ bytes_eqb n [DOT] = false /\ bytes_eqb n [DOT; DOT] = false.
Proof.
  unfold name_ok. rewrite !andb_true_iff, !negb_true_iff. intros [[[H1 H2] H3] H4].
  repeat split; try assumption.
  - intros ->. discriminate.
  - intros Hin. assert (existsb (N.eqb SL) n = true); [|congruence].
    apply existsb_exists. exists SL. split; [exact Hin|apply N.eqb_refl].
Qed.

(* the invariant of resolution stacks *)
Definition Inv (H : nat) (st : list tree) : Prop :=
  Forall (fun t => wf_tree t = true /\ height t <= H) st.

Lemma fold_none {A} (f : option A -> bytes -> option A) cs :
  (forall c, f None c = None) -> fold_left f cs None = None.
Proof. intros Hf. induction cs as [|c cs IH]; simpl; [reflexivity|]. rewrite Hf. exact IH. Qed.

Lemma stepf_none fuel follow bottom c : stepf fuel follow bottom None c = None.
Proof. destruct fuel; reflexivity. Qed.

Lemma fold_inv H (f : option (list tree) -> bytes -> option (list tree)) :
  (forall c, f None c = None) ->
  (forall st c st', Inv H st -> f (Some st) c = Some st' -> Inv H st') ->
  forall cs st st', Inv H st -> fold_left f cs (Some st) = Some st' -> Inv H st'.
Proof.
  intros Hn Hs. induction cs as [|c cs IH]; intros st st' Hi Hf; simpl in Hf.
  - inversion Hf; subst; exact Hi.
  - destruct (f (Some st) c) as [st1|] eqn:E.
    + eapply IH; [eapply Hs; eauto|exact Hf].
    + rewrite fold_none in Hf by exact Hn. discriminate.
Qed.

Lemma stepf_inv H bottom : Inv H bottom -> forall fuel follow st c st',
  Inv H st -> stepf fuel follow bottom (Some st) c = Some st' -> Inv H st'.
Proof.
  intros Hb. induction fuel as [|f IH]; intros follow st c st' Hi Hs.
  - simpl in Hs. destruct st as [|[|es|tg] up]; try discriminate.
    destruct (bytes_eqb c [DOT]); [inversion Hs; subst; exact Hi|].
    destruct (bytes_eqb c [DOT; DOT]).
    { inversion Hs; subst. destruct up; [exact Hi|inversion Hi; assumption]. }
    destruct (lookup c es) as [t|] eqn:El; [|discriminate].
    inversion Hi as [|? ? [Hw Hh] _]; subst.
    apply lookup_in in El. destruct (wf_dir _ Hw) as [_ Hc]. destruct (Hc _ _ El) as [_ Hwt].
    pose proof (height_child _ _ _ El) as Hlt.
    destruct t as [|es'|tg]; simpl in Hs.
    + inversion Hs; subst. constructor; [split; [reflexivity|simpl; lia]|exact Hi].
    + inversion Hs; subst. constructor; [split; [exact Hwt|lia]|exact Hi].
    + destruct (negb follow); [|discriminate]. inversion Hs; subst.
      constructor; [split; [reflexivity|simpl; lia]|exact Hi].
  - simpl in Hs. destruct st as [|[|es|tg] up]; try discriminate.
    destruct (bytes_eqb c [DOT]); [inversion Hs; subst; exact Hi|].
    destruct (bytes_eqb c [DOT; DOT]).
    { inversion Hs; subst. destruct up; [exact Hi|inversion Hi; assumption]. }
    destruct (lookup c es) as [t|] eqn:El; [|discriminate].
    inversion Hi as [|? ? [Hw Hh] _]; subst.
    apply lookup_in in El. destruct (wf_dir _ Hw) as [_ Hc]. destruct (Hc _ _ El) as [_ Hwt].
    pose proof (height_child _ _ _ El) as Hlt.
    destruct t as [|es'|tg]; simpl in Hs.
    + inversion Hs; subst. constructor; [split; [reflexivity|simpl; lia]|exact Hi].
    + inversion Hs; subst. constructor; [split; [exact Hwt|lia]|exact Hi].
    + destruct (negb follow).
      * inversion Hs; subst. constructor; [split; [reflexivity|simpl; lia]|exact Hi].
      * destruct (is_nil tg); [discriminate|].
        eapply (fold_inv H (stepf f true bottom)); [apply stepf_none| |
          |exact Hs].
        -- intros st0 c0 st0' Hi0 Hs0. eapply IH; eauto.
        -- destruct (is_abs tg); [exact Hb|exact Hi].
Qed.

Section Tree.
Variable wd : world.
Hypothesis Hwf : wf_tree (w_root wd) = true.
Let H := height (w_root wd).

Lemma inv_root : Inv H [w_root wd].
Proof. constructor; [split; [exact Hwf|apply le_n]|constructor]. Qed.

Lemma follow_all_inv st cs st' : Inv H st -> follow_all wd (Some st) cs = Some st' -> Inv H st'.
Proof.
  unfold follow_all. apply fold_inv; [apply stepf_none|].
  intros st0 c st0' Hi Hs. eapply stepf_inv; [apply inv_root|exact Hi|exact Hs].
Qed.

Lemma dir_stack_inv p st : dir_stack wd p = Some st -> Inv H st.
Proof.
  unfold dir_stack, base. destruct (is_abs p).
  - destruct (strip_comps _ _); [|destruct (is_dir_prefix _ _); discriminate].
    apply follow_all_inv, inv_root.
  - unfold start_stack. destruct (follow_all wd (Some [w_root wd]) (w_cwd wd)) as [s0|] eqn:E.
    + apply follow_all_inv. eapply follow_all_inv; [apply inv_root|exact E].
    + unfold follow_all. rewrite fold_none by apply stepf_none. discriminate.
Qed.

(* (2) the ReadDir contract holds for the executed instance *)
Theorem tree_fs_ok : fs_ok (tree_fs wd).
Proof.
  intros dir infos Hr. unfold readDir in Hr. simpl in Hr. unfold tree_readdir in Hr.
  match type of Hr with (match ?X with _ => _ end) = _ => remember X as p eqn:Ep in * end.
  destruct p as [|c0 p0]; [cbv iota in Hr; discriminate Hr|]. cbv iota in Hr.
  destruct (dir_stack wd ((c0 :: p0) ++ [SL])) as [[|[|es|tg] up]|] eqn:Ed; try discriminate.
  inversion Hr; subst infos; clear Hr.
  apply dir_stack_inv in Ed. inversion Ed as [|? ? [Hw _] _]; subst.
  destruct (wf_dir _ Hw) as [Hn Hc]. split.
  - rewrite map_map. simpl. apply nodup_names_spec, Hn.
  - intros n b Hin. apply in_map_iff in Hin as ([n' t] & E & Hin). inversion E; subst.
    destruct (Hc _ _ Hin) as [Hok _]. apply name_ok_spec in Hok. tauto.
Qed.

(* ---- path strings and components ---- *)
Lemma split_path_sl x : forall cur, split_path (x ++ [SL]) cur = split_path x cur.
Proof.
  induction x as [|c x IH]; intros cur; simpl.
  - destruct cur; reflexivity.
  - destruct (N.eqb c SL); [rewrite IH; reflexivity|apply IH].
Qed.

Lemma split_path_mid x y : forall cur,
  split_path (x ++ SL :: y) cur = split_path x cur ++ split_path y [].
Proof.
  induction x as [|c x IH]; intros cur; simpl.
  - destruct cur; reflexivity.
  - destruct (N.eqb c SL); [rewrite IH, app_assoc; reflexivity|apply IH].
Qed.

Lemma split_path_name n : ~ In SL n -> forall cur, cur ++ n <> [] -> split_path n cur = [cur ++ n].
Proof.
  induction n as [|c n IH]; intros Hn cur Hne; simpl.
  - rewrite app_nil_r in *. destruct cur; [congruence|reflexivity].
  - destruct (N.eqb c SL) eqn:E; [apply N.eqb_eq in E; subst; exfalso; apply Hn; left; reflexivity|].
    rewrite IH; [rewrite <- app_assoc; reflexivity|intros Hi; apply Hn; right; exact Hi|].
    rewrite <- app_assoc. simpl. destruct cur; discriminate.
Qed.

Lemma strip_comps_app pre cs rel n : strip_comps pre cs = Some rel ->
  strip_comps pre (cs ++ [n]) = Some (rel ++ [n]).
Proof.
  revert cs; induction pre as [|x pre IH]; intros cs Hs; simpl in *.
  - inversion Hs; reflexivity.
  - destruct cs as [|y cs]; [discriminate|]. simpl. destruct (bytes_eqb x y); [apply IH, Hs|discriminate].
Qed.

Definition top_height (o : option (list tree)) : nat :=
  match o with Some (t :: _) => height t | _ => 0 end.

Definition rk (dir : bytes) : nat :=
  top_height (dir_stack wd ((if is_nil dir then [DOT] else dir) ++ [SL])).

Lemma rk_bound d : rk d <= H.
Proof.
  unfold rk. destruct (dir_stack wd _) as [[|t st]|] eqn:E; simpl; try lia.
  apply dir_stack_inv in E. inversion E as [|? ? [_ Hh] _]; exact Hh.
Qed.

Lemma step_child es up n es' : wf_tree (Dir es) = true -> In (n, Dir es') es ->
  stepf LINK_FUEL true [w_root wd] (Some (Dir es :: up)) n = Some (Dir es' :: Dir es :: up).
Proof.
  intros Hw Hin. destruct (wf_dir _ Hw) as [Hn Hc]. destruct (Hc _ _ Hin) as [Hok _].
  apply name_ok_spec in Hok as (_ & _ & H1 & H2).
  unfold LINK_FUEL. simpl. rewrite H1, H2, (lookup_nodup _ Hn _ _ Hin). reflexivity.
Qed.

Lemma rk_decreases dir infos n : dir_ok dir -> readDir (tree_fs wd) dir = Some infos ->
  In (n, true) infos -> rk (dir ++ n ++ [SL]) < rk dir.
Proof.
  intros Hd Hr Hin. unfold readDir in Hr. simpl in Hr. unfold tree_readdir in Hr. unfold rk.
  assert (Hne : is_nil (dir ++ n ++ [SL]) = false) by (destruct dir; [destruct n|]; reflexivity).
  rewrite Hne.
  match type of Hr with (match ?X with _ => _ end) = _ => remember X as p eqn:Ep in * end.
  destruct p as [|c0 p0]; [cbv iota in Hr; discriminate Hr|]. cbv iota in Hr.
  destruct (dir_stack wd ((c0 :: p0) ++ [SL])) as [[|[|es|tg] up]|] eqn:Ed; try discriminate.
  inversion Hr; subst infos; clear Hr.
  rewrite Ep in Ed. clear c0 p0 Ep.
  apply in_map_iff in Hin as ([n' t] & E & Hin). inversion E; subst n'. clear E.
  destruct t as [|es'|tg]; try discriminate.
  pose proof (dir_stack_inv _ _ Ed) as Hi. inversion Hi as [|? ? [Hw _] _]; subst.
  destruct (wf_dir _ Hw) as [_ Hc]. destruct (Hc _ _ Hin) as [Hok _].
  apply name_ok_spec in Hok as (Hn0 & Hnsl & _ & _).
  (* the child's stack is one step from the directory's stack *)
  match type of Ed with dir_stack wd ?P = _ =>
    assert (Hchild : dir_stack wd ((dir ++ n ++ [SL]) ++ [SL]) =
                     stepf LINK_FUEL true [w_root wd] (dir_stack wd P) n) end.
  { unfold dir_stack, base in *. destruct Hd as [->|[a ->]].
    - (* dir = "" : "./" against "n//" *)
      simpl is_nil in *. cbv iota in *. change ([] ++ n ++ [SL]) with (n ++ [SL]).
      assert (Ha : is_abs ((n ++ [SL]) ++ [SL]) = false).
      { destruct n as [|c n']; [congruence|]. simpl. destruct (N.eqb c SL) eqn:E; [|reflexivity].
        apply N.eqb_eq in E; subst. exfalso; apply Hnsl; left; reflexivity. }
      rewrite Ha. rewrite !split_path_sl, (split_path_name n Hnsl []) by (simpl; exact Hn0).
      change (is_abs ([DOT] ++ [SL])) with false. cbv iota.
      change (split_path [DOT] []) with [[DOT]].
      unfold follow_all. simpl fold_left.
      destruct (start_stack wd) as [[|[|e0|t0] u0]|]; reflexivity.
    - (* dir = a ++ "/" *)
      assert (Hnil : is_nil (a ++ [SL]) = false) by (destruct a; reflexivity).
      rewrite Hnil in *.
      assert (Habs : is_abs (((a ++ [SL]) ++ n ++ [SL]) ++ [SL]) = is_abs ((a ++ [SL]) ++ [SL])).
      { destruct a; reflexivity. }
      rewrite Habs.
      assert (Hc1 : split_path ((a ++ [SL]) ++ [SL]) [] = split_path a []).
      { rewrite !split_path_sl. reflexivity. }
      assert (Hc2 : split_path (((a ++ [SL]) ++ n ++ [SL]) ++ [SL]) [] = split_path a [] ++ [n]).
      { rewrite split_path_sl. rewrite <- app_assoc. simpl app. rewrite split_path_mid.
        rewrite split_path_sl, (split_path_name n Hnsl []) by (simpl; exact Hn0). reflexivity. }
      rewrite Hc1 in *. rewrite Hc2.
      destruct (is_abs ((a ++ [SL]) ++ [SL])).
      + destruct (strip_comps (split_path (w_abs wd) []) (split_path a [])) as [rel|] eqn:Es.
        * rewrite (strip_comps_app _ _ _ n Es). unfold follow_all. rewrite fold_left_app. reflexivity.
        * destruct (is_dir_prefix _ _); discriminate.
      + unfold follow_all. rewrite fold_left_app. reflexivity. }
  rewrite Hchild, Ed. rewrite (step_child _ _ _ _ Hw Hin).
  match goal with |- _ < top_height ?T =>
    replace T with (Some (Dir es :: up)) by (symmetry; exact Ed) end.
  change (height (Dir es') < height (Dir es)).
  apply (height_child _ _ _ Hin).
Qed.

Lemma tree_ranked : ranked (tree_fs wd) rk H.
Proof. split; [apply rk_bound|]. intros dir infos n Hd Hr Hin. eapply rk_decreases; eauto. Qed.

(* (1) the judge's fuel is sufficient: the model never runs out of fuel *)
Theorem glob_fuel_sufficient m segs :
  exists l, pattern_glob_gen m (fuel_of wd segs) (tree_fs wd) segs = Some l.
Proof.
  unfold pattern_glob_gen, fuel_of. fold H.
  assert (Hgen : forall s d, dir_ok d -> length s <= length segs ->
            exists l, glob_gen m (S (length segs * S H + H)) (tree_fs wd) s d = Some l).
  { intros s d Hd Hl. apply (glob_fuel_ranked _ m rk H tree_ranked); [exact Hd|].
    pose proof (rk_bound d). nia. }
  destruct segs as [|[d| |w] tl]; try (apply Hgen; [left; reflexivity|apply le_n]).
  apply Hgen; [right; exists []; reflexivity|simpl; lia].
Qed.

End Tree.

(* the executed instance: for a well-formed tree the model returns a result with
   the judge's fuel, and that result has no duplicates when the pattern has at
   most one ** *)
Lemma executed_instance_nodup wd segs : wf_tree (w_root wd) = true ->
  exists l, pattern_glob (fuel_of wd segs) (tree_fs wd) segs = Some l /\
            (Forall lit_ok segs -> count_ss segs <= 1 -> NoDup (map fst l)).
Proof.
  intros Hwf. destruct (glob_fuel_sufficient wd Hwf (matchElement dec) segs) as [l Hl].
  exists l. split; [exact Hl|]. intros H1 H2.
  eapply glob_nodup_single_starstar; eauto. apply tree_fs_ok, Hwf.
Qed.
