(* C41 -- proofs, part 2: find / split / replace over a match list satisfying
   the FindAllIndex contract; trimming as an operation on code points; the
   oracle. *)
From verif Require Import lib.Base lib.ListX lib.Utf8 lib.Utf8_proofs model.C41 proofs.C41_proofs.
From Coq Require Import ZifyBool ZifyNat ZifyN.
Open Scope nat_scope.

#[local] Ltac Zify.zify_post_hook ::= Z.to_euclidean_division_equations.

(* ------------------------------------------------------------------ *)
(* replace *)

Lemma gaps_ne s ms from : gaps s ms from <> [].
Proof. destruct ms as [|[a b] r]; discriminate. Qed.

Lemma replace_loop_weave s : forall l last,
  re_replace_loop s l last = weave (gaps s (map fst l) last) (map snd l).
Proof.
  induction l as [|[[a b] rp] l IH]; intros last; cbn [re_replace_loop map gaps weave fst snd].
  - cbn. rewrite app_nil_r. reflexivity.
  - rewrite IH. reflexivity.
Qed.

Lemma re_replace_lit_spec repl s ms :
  re_replace_lit repl s ms = re_replace_spec s (map pos_of ms) (map (fun _ => repl) ms).
Proof. unfold re_replace_lit, re_replace_spec. rewrite replace_loop_weave, !map_map. reflexivity. Qed.

Lemma re_replace_tpl_spec tpl s ms :
  re_replace_tpl tpl s ms
  = re_replace_spec s (map pos_of ms) (map (fun m => expand tpl s (m_groups m)) ms).
Proof. unfold re_replace_tpl, re_replace_spec. rewrite replace_loop_weave, !map_map. reflexivity. Qed.

(* a constant replacement: the gaps joined by it *)
Lemma weave_const_join {A} repl s : forall (ms : list (nat * nat)) (xs : list A) from,
  length xs = length ms ->
  weave (gaps s ms from) (map (fun _ => repl) xs) = join repl (gaps s ms from).
Proof.
  induction ms as [|[a b] r IH]; intros xs from L; destruct xs as [|x xs]; try discriminate L;
    cbn [gaps map weave].
  - cbn. apply app_nil_r.
  - rewrite join_cons_ne by apply gaps_ne. rewrite IH by (cbn in L; lia). reflexivity.
Qed.

(* the gaps and the matched stretches together are the text *)
Lemma weave_texts s n : forall ms from prev, length s = n ->
  wf_from n prev ms = true -> (match prev with Some e => e = from | None => from = 0 end) ->
  weave (gaps s ms from) (map (fun m => slice s (fst m) (snd m)) ms) = skipn from s.
Proof.
  induction ms as [|[a b] r IH]; intros from prev Ls W P; cbn [gaps map weave fst snd].
  - cbn. apply app_nil_r.
  - cbn [wf_from] in W. apply andb_true_iff in W as [W W3]. apply andb_true_iff in W as [W W2].
    apply andb_true_iff in W as [W0 W1]. apply Nat.leb_le in W0, W1.
    assert (Hfa : from <= a).
    { destruct prev as [e|]; [|lia]. subst e. apply andb_true_iff in W2 as [W2 _].
      apply Nat.leb_le in W2. exact W2. }
    rewrite (IH b (Some b) Ls W3 eq_refl). unfold slice.
    pose proof (firstn_skipn_split3 (skipn from s) (a - from) (b - from) ltac:(lia)) as E.
    rewrite !skipn_skipn in E. replace (from + (a - from)) with a in E by lia.
    replace (from + (b - from)) with b in E by lia. replace (b - from - (a - from)) with (b - a) in E by lia.
    symmetry. exact E.
Qed.

(* ------------------------------------------------------------------ *)
(* split *)

Definition last_start (l : list (nat * nat)) (d : nat) : nat :=
  match rev l with [] => d | m :: _ => fst m end.

Lemma last_start_cons x l d : last_start (x :: l) d = last_start l (fst x).
Proof. unfold last_start. cbn [rev]. destruct (rev l) as [|m t]; reflexivity. Qed.

Definition used_of (lim : option nat) (cnt : nat) (ms : list (nat * nat)) : list (nat * nat) :=
  match lim with None => ms | Some n => firstn (n - 1 - cnt) ms end.

Definition finish_pieces (s : bytes) (used : list (nat * nat)) (beg en : nat) : list bytes :=
  if Nat.eqb (last_start used en) (length s) then removelast (gaps s used beg) else gaps s used beg.

Lemma removelast_cons_ne {A} (x : A) l : l <> [] -> removelast (x :: l) = x :: removelast l.
Proof. destruct l; [congruence | reflexivity]. Qed.

Lemma finish_pieces_cons s a b used beg en :
  finish_pieces s ((a, b) :: used) beg en = slice s beg a :: finish_pieces s used b a.
Proof.
  unfold finish_pieces. rewrite last_start_cons. cbn [fst gaps].
  destruct (Nat.eqb _ _); [|reflexivity]. apply removelast_cons_ne, gaps_ne.
Qed.

Lemma finish_pieces_nil s beg en :
  finish_pieces s [] beg en = if Nat.eqb en (length s) then [] else [skipn beg s].
Proof. unfold finish_pieces, last_start. cbn. reflexivity. Qed.

Lemma split_loop_nonzero lim s : forall ms beg en cnt,
  Forall (fun m => snd m <> 0) ms ->
  (match lim with Some n => cnt <= n - 1 | None => True end) ->
  re_split_loop lim s ms beg en cnt = finish_pieces s (used_of lim cnt ms) beg en.
Proof.
  induction ms as [|[a b] r IH]; intros beg en cnt NZ Hc.
  - cbn [re_split_loop]. unfold used_of. destruct lim; [rewrite firstn_nil|];
      rewrite finish_pieces_nil; reflexivity.
  - cbn [re_split_loop]. inversion NZ as [|x y Hb NZ']; subst. cbn [snd] in Hb.
    destruct lim as [n|].
    + destruct (Nat.eqb_spec cnt (n - 1)) as [E|E].
      * unfold used_of. replace (n - 1 - cnt) with 0 by lia. cbn [firstn].
        rewrite finish_pieces_nil. reflexivity.
      * destruct (Nat.eqb_spec b 0); [contradiction|].
        rewrite IH by (try assumption; lia). unfold used_of.
        replace (n - 1 - cnt) with (S (n - 1 - S cnt)) by lia. cbn [firstn].
        rewrite finish_pieces_cons. reflexivity.
    + destruct (Nat.eqb_spec b 0); [contradiction|].
      rewrite IH by (try assumption; exact I). unfold used_of. rewrite finish_pieces_cons. reflexivity.
Qed.

Lemma wf_tail_nonzero n : forall r e, wf_from n (Some e) r = true -> Forall (fun m => snd m <> 0) r.
Proof.
  induction r as [|[a b] r IH]; intros e W; [constructor|].
  cbn [wf_from] in W. apply andb_true_iff in W as [W W3]. apply andb_true_iff in W as [W W2].
  apply andb_true_iff in W as [W0 W1]. apply andb_true_iff in W2 as [W2 W4].
  apply Nat.leb_le in W0, W1, W2. apply negb_true_iff in W4.
  constructor; [|apply (IH b); exact W3]. cbn [snd]. intros ->.
  assert (a = 0) by lia. assert (e = 0) by lia. subst. discriminate W4.
Qed.

Lemma Forall_firstn {A} (P : A -> Prop) k : forall l, Forall P l -> Forall P (firstn k l).
Proof.
  induction k as [|k IH]; intros l F; [constructor|]. destruct F; [constructor|].
  cbn [firstn]. constructor; [assumption | apply IH; assumption].
Qed.

Definition head_shape (l : list (nat * nat)) : Prop :=
  match l with [] => True | (a, b) :: r => a <= b /\ Forall (fun m => snd m <> 0) r end.

Lemma wf_head_shape n ms : wf_from n None ms = true -> head_shape ms.
Proof.
  destruct ms as [|[a b] r]; [exact (fun _ => I)|]. cbn [wf_from head_shape]. intros W.
  apply andb_true_iff in W as [W W3]. apply andb_true_iff in W as [W _].
  apply andb_true_iff in W as [W0 _]. apply Nat.leb_le in W0.
  split; [exact W0 | apply (wf_tail_nonzero n r b W3)].
Qed.

Lemma head_shape_firstn k l : head_shape l -> head_shape (firstn k l).
Proof.
  destruct l as [|[a b] r]; [rewrite firstn_nil; exact (fun H => H)|].
  destruct k; [exact (fun _ => I)|]. cbn [firstn head_shape]. intros [H F].
  split; [exact H | apply Forall_firstn; exact F].
Qed.

Lemma filter_nonzero_id l : Forall (fun m : nat * nat => snd m <> 0) l ->
  filter (fun m => negb (ends_at_zero m)) l = l.
Proof.
  induction 1 as [|m l H _ IH]; [reflexivity|]. cbn [filter]. unfold ends_at_zero at 1.
  destruct (Nat.eqb_spec (snd m) 0); [contradiction|]. cbn [negb]. rewrite IH. reflexivity.
Qed.

(* the loop from its initial state, on a list of the shape the contract gives *)
Lemma split_loop_initial lim s found : head_shape found ->
  (match lim with Some n => 1 <= n | None => True end) ->
  re_split_loop lim s found 0 0 0
  = finish_pieces s (used_of lim 0 (filter (fun m => negb (ends_at_zero m)) found)) 0 0.
Proof.
  intros HS Hl. destruct found as [|[a b] r].
  - cbn [filter re_split_loop]. unfold used_of. destruct lim; [rewrite firstn_nil|];
      rewrite finish_pieces_nil; reflexivity.
  - destruct HS as [Hab F]. destruct (Nat.eq_dec b 0) as [->|Hb].
    + assert (a = 0) by lia. subst a. cbn [filter]. unfold ends_at_zero at 1. cbn [snd Nat.eqb negb].
      rewrite (filter_nonzero_id r F). cbn [re_split_loop].
      destruct lim as [n|].
      * destruct (Nat.eqb_spec 0 (n - 1)) as [E|E].
        -- unfold used_of. replace (n - 1 - 0) with 0 by lia. cbn [firstn].
           rewrite finish_pieces_nil. reflexivity.
        -- rewrite Nat.eqb_refl. apply split_loop_nonzero; [exact F | lia].
      * rewrite Nat.eqb_refl. apply split_loop_nonzero; [exact F | exact I].
    + assert (F' : Forall (fun m : nat * nat => snd m <> 0) ((a, b) :: r)) by (constructor; assumption).
      rewrite (filter_nonzero_id _ F'). apply split_loop_nonzero; [exact F'|].
      destruct lim; [lia | exact I].
Qed.

Lemma firstn_max_shape max ms : head_shape ms -> head_shape (firstn_max max ms).
Proof. unfold firstn_max. destruct (max <? 0)%Z; [exact (fun H => H) | apply head_shape_firstn]. Qed.

(* re:split as the Go loop computes it = the declarative description *)
Lemma re_split_is_spec max p s ms : wf_matches s ms = true ->
  re_split max p s ms = re_split_spec max p s ms.
Proof.
  intros W. unfold re_split, re_split_spec.
  destruct (Z.eqb_spec max 0); [reflexivity|].
  destruct (negb (is_nil p) && is_nil s); [reflexivity|].
  pose proof (firstn_max_shape max ms (wf_head_shape _ _ W)) as HS.
  rewrite split_loop_initial; [|exact HS|destruct (Z.ltb_spec max 0); [exact I | lia]].
  unfold finish_pieces, used_of, last_start.
  destruct (Z.ltb_spec max 0); [reflexivity|]. rewrite Nat.sub_0_r. reflexivity.
Qed.

(* replace with a constant is split joined by the constant, when no match ends
   at offset 0 or starts at the end of the text (where split deliberately
   differs) *)
Lemma replace_is_join_of_split repl p s (ms : list rmatch) :
  wf_matches s (map pos_of ms) = true ->
  Forall (fun m => m_e m <> 0 /\ m_s m <> length s) ms ->
  re_replace_lit repl s ms = join repl (re_split (-1) p s (map pos_of ms)).
Proof.
  intros W F. rewrite re_split_is_spec by exact W. rewrite re_replace_lit_spec.
  unfold re_replace_spec, re_split_spec. cbn [Z.eqb Z.ltb Z.compare firstn_max].
  assert (NZ : Forall (fun m : nat * nat => snd m <> 0) (map pos_of ms)).
  { apply Forall_forall. intros m Hm. apply in_map_iff in Hm as (x & <- & Hx).
    rewrite Forall_forall in F. apply (F x Hx). }
  destruct (negb (is_nil p) && is_nil s) eqn:G.
  - apply andb_true_iff in G as [_ G]. destruct s; [|discriminate G].
    destruct ms as [|m ms]; [reflexivity|]. exfalso.
    unfold wf_matches in W. cbn [map wf_from pos_of length] in W.
    inversion F as [|x y [H1 H2] _]; subst.
    apply andb_true_iff in W as [W _]. apply andb_true_iff in W as [W _].
    apply andb_true_iff in W as [W0 W1]. apply Nat.leb_le in W0, W1. lia.
  - unfold firstn_max. cbn [Z.ltb Z.compare]. rewrite (filter_nonzero_id _ NZ).
    destruct ms as [|m0 ms'].
    { destruct s; cbn; rewrite ?app_nil_r; reflexivity. }
    replace (Nat.eqb _ (length s)) with false.
    + apply weave_const_join. rewrite map_length. reflexivity.
    + symmetry. apply Nat.eqb_neq. destruct (rev (map pos_of (m0 :: ms'))) as [|m t] eqn:R.
      * apply (f_equal (@length _)) in R. rewrite rev_length in R. cbn in R. discriminate R.
      * assert (Hin : In m (map pos_of (m0 :: ms'))) by (apply in_rev; rewrite R; left; reflexivity).
        apply in_map_iff in Hin as (x & <- & Hx). rewrite Forall_forall in F. apply (F x Hx).
Qed.

(* ------------------------------------------------------------------ *)
(* trimming on valid UTF-8 = dropping code points *)

Lemma skipn_app_exact {A} (a b : list A) : skipn (length a) (a ++ b) = b.
Proof. rewrite skipn_app, Nat.sub_diag, skipn_all. reflexivity. Qed.

Lemma firstn_app_exact {A} (a b : list A) : firstn (length a) (a ++ b) = a.
Proof. rewrite firstn_app, Nat.sub_diag, firstn_all. cbn. apply app_nil_r. Qed.

Lemma trim_left_fuel_S k f s : s <> [] ->
  trim_left_fuel (S k) f s
  = let '(r, w) := decode_rune s in if f r then trim_left_fuel k f (skipn w s) else s.
Proof. destruct s; [congruence | reflexivity]. Qed.

Lemma trim_left_fuel_nil k f : trim_left_fuel k f [] = [].
Proof. destruct k; reflexivity. Qed.

Lemma trim_left_runes g : forall rs fuel, Forall (fun r => valid_rune r = true) rs ->
  length rs <= fuel -> trim_left_fuel fuel g (encode_all rs) = encode_all (drop_while g rs).
Proof.
  induction rs as [|r rs IH]; intros fuel V L; [apply trim_left_fuel_nil|].
  inversion V as [|x y Vr Vrs]; subst. destruct fuel as [|k]; [cbn in L; lia|].
  change (encode_all (r :: rs)) with (encode_rune r ++ encode_all rs).
  rewrite trim_left_fuel_S.
  - rewrite decode_encode by exact Vr. cbn [drop_while]. destruct (g r); [|reflexivity].
    unfold rune_len. rewrite skipn_app_exact. apply IH; [exact Vrs | cbn in L; lia].
  - pose proof (encode_rune_nonempty r). destruct (encode_rune r); [congruence | discriminate].
Qed.

Lemma decode_all_fuel_length f : forall s, length (decode_all_fuel f s) <= f.
Proof.
  induction f as [|f IH]; intros s; cbn [decode_all_fuel]; [cbn; lia|].
  destruct s as [|c s]; [cbn; lia|]. destruct (decode_rune _) as [rn w]. cbn [length]. specialize (IH (skipn w (c :: s))). lia.
Qed.

Lemma decode_all_length s : length (decode_all s) <= length s.
Proof. apply decode_all_fuel_length. Qed.

Lemma trim_left_valid f s : valid s = true -> trim_left_by f s = trim_left_spec f s.
Proof.
  intros V. unfold trim_left_by, trim_left_spec.
  rewrite <- (encode_all_decode_all s V) at 2.
  apply trim_left_runes; [apply decode_all_valid_runes | apply decode_all_length].
Qed.

(* shape of an encoded rune: the first byte starts a rune, the others continue *)
Lemma encode_rune_shape r : valid_rune r = true ->
  ((r < 128)%N /\ encode_rune r = [r])
  \/ (exists b0 b1, encode_rune r = [b0; b1] /\ rune_start b0 = true /\ is_cont b1 = true)
  \/ (exists b0 b1 b2, encode_rune r = [b0; b1; b2] /\ rune_start b0 = true
        /\ is_cont b1 = true /\ is_cont b2 = true)
  \/ (exists b0 b1 b2 b3, encode_rune r = [b0; b1; b2; b3] /\ rune_start b0 = true
        /\ is_cont b1 = true /\ is_cont b2 = true /\ is_cont b3 = true).
Proof.
  intros V. pose proof (valid_rune_le r V) as LE. unfold MaxRune in LE.
  unfold encode_rune. rewrite V. cbn [negb].
  assert (C : forall x, (x < 64)%N -> is_cont (128 + x) = true).
  { intros x Hx. unfold is_cont. apply andb_true_iff. split; apply N.leb_le; lia. }
  assert (S : forall x, (192 <= x)%N -> rune_start x = true).
  { intros x Hx. unfold rune_start, is_cont. apply negb_true_iff, andb_false_iff. right.
    apply N.leb_gt. lia. }
  destruct (N.ltb_spec r 128); [left; split; [assumption | reflexivity]|].
  destruct (N.ltb_spec r 2048).
  { right; left. eexists _, _. split; [reflexivity|]. split; [apply S; lia | apply C; lia]. }
  destruct (N.ltb_spec r 65536).
  { right; right; left. eexists _, _, _. split; [reflexivity|].
    split; [apply S; lia|]. split; apply C; lia. }
  right; right; right. eexists _, _, _, _. split; [reflexivity|].
  split; [apply S; lia|]. split; [apply C; lia|]. split; apply C; lia.
Qed.

Lemma is_cont_not_ascii b : is_cont b = true -> (b <? 128)%N = false.
Proof.
  unfold is_cont. intros H. apply andb_true_iff in H as [H _]. apply N.leb_le in H.
  apply N.ltb_ge. exact H.
Qed.

Lemma is_cont_not_start b : is_cont b = true -> rune_start b = false.
Proof. unfold rune_start. intros ->. reflexivity. Qed.

(* DecodeLastRune finds the rune a string ends with, whatever comes before *)
Lemma decode_last_encode t r : valid_rune r = true ->
  decode_last (t ++ encode_rune r) = (r, rune_len r).
Proof.
  intros V. pose proof (decode_encode_nil r V) as D. unfold rune_len in *.
  destruct (encode_rune_shape r V) as [(Hr & E)|[(b0 & b1 & E & S0 & C1)
    |[(b0 & b1 & b2 & E & S0 & C1 & C2)|(b0 & b1 & b2 & b3 & E & S0 & C1 & C2 & C3)]]];
    rewrite E in *; unfold decode_last; rewrite rev_app_distr; cbn [rev app length] in *.
  - apply N.ltb_lt in Hr. rewrite Hr. reflexivity.
  - rewrite (is_cont_not_ascii _ C1). cbn [firstn find_start]. rewrite S0.
    rewrite app_length. cbn [length]. replace (length t + 2 - (0 + 2)) with (length t) by lia.
    rewrite skipn_app_exact, D. reflexivity.
  - rewrite (is_cont_not_ascii _ C2). cbn [firstn find_start].
    rewrite (is_cont_not_start _ C1), S0.
    rewrite app_length. cbn [length]. replace (length t + 3 - (1 + 2)) with (length t) by lia.
    rewrite skipn_app_exact, D. reflexivity.
  - rewrite (is_cont_not_ascii _ C3). cbn [firstn find_start].
    rewrite (is_cont_not_start _ C2), (is_cont_not_start _ C1), S0.
    rewrite app_length. cbn [length]. replace (length t + 4 - (2 + 2)) with (length t) by lia.
    rewrite skipn_app_exact, D. reflexivity.
Qed.

Lemma trim_right_fuel_S k f s : s <> [] ->
  trim_right_fuel (S k) f s
  = let '(r, w) := decode_last s in if f r then trim_right_fuel k f (firstn (length s - w) s) else s.
Proof. destruct s; [congruence | reflexivity]. Qed.

Lemma trim_right_fuel_nil k f : trim_right_fuel k f [] = [].
Proof. destruct k; reflexivity. Qed.

Lemma encode_all_app a b : encode_all (a ++ b) = encode_all a ++ encode_all b.
Proof. unfold encode_all. apply flat_map_app. Qed.

Lemma trim_right_runes g : forall rs fuel, Forall (fun r => valid_rune r = true) rs ->
  length rs <= fuel ->
  trim_right_fuel fuel g (encode_all rs) = encode_all (rev (drop_while g (rev rs))).
Proof.
  induction rs as [|r rs IH] using rev_ind; intros fuel V L; [apply trim_right_fuel_nil|].
  apply Forall_app in V as [Vrs Vr]. inversion Vr as [|x y Vr' _]; subst.
  rewrite app_length in L. cbn [length] in L. destruct fuel as [|k]; [lia|].
  rewrite encode_all_app. change (encode_all [r]) with (encode_rune r ++ []). rewrite app_nil_r.
  rewrite trim_right_fuel_S.
  - rewrite decode_last_encode by exact Vr'. rewrite rev_app_distr. cbn [rev app drop_while].
    destruct (g r).
    + unfold rune_len. rewrite app_length.
      replace (length (encode_all rs) + length (encode_rune r) - length (encode_rune r))
        with (length (encode_all rs)) by lia.
      rewrite firstn_app_exact. apply IH; [exact Vrs | lia].
    + cbn [rev]. rewrite rev_involutive, encode_all_app.
      change (encode_all [r]) with (encode_rune r ++ []). rewrite app_nil_r. reflexivity.
  - pose proof (encode_rune_nonempty r). destruct (encode_all rs); destruct (encode_rune r);
      try congruence; discriminate.
Qed.

Lemma trim_right_valid f s : valid s = true -> trim_right_by f s = trim_right_spec f s.
Proof.
  intros V. unfold trim_right_by, trim_right_spec.
  rewrite <- (encode_all_decode_all s V) at 2.
  apply trim_right_runes; [apply decode_all_valid_runes | apply decode_all_length].
Qed.

Lemma drop_while_valid {A} (P : A -> Prop) f : forall l, Forall P l -> Forall P (drop_while f l).
Proof.
  induction l as [|x l IH]; intros F; [constructor|]. cbn [drop_while].
  destruct (f x); [apply IH; inversion F; assumption | exact F].
Qed.

Lemma valid_encode_all rs : Forall (fun r => valid_rune r = true) rs -> valid (encode_all rs) = true.
Proof.
  induction 1 as [|r rs V _ IH]; [reflexivity|].
  change (encode_all (r :: rs)) with (encode_rune r ++ encode_all rs).
  rewrite valid_encode_app by exact V. exact IH.
Qed.

Lemma trim_both_valid f s : valid s = true ->
  trim_right_by f (trim_left_by f s) = trim_both_spec f s.
Proof.
  intros V. rewrite (trim_left_valid f s V). unfold trim_left_spec, trim_both_spec.
  pose proof (drop_while_valid _ f _ (decode_all_valid_runes s)) as F.
  rewrite trim_right_valid by (apply valid_encode_all; exact F).
  unfold trim_right_spec. rewrite decode_all_encode_all by exact F. reflexivity.
Qed.

Lemma trim_valid s cut : valid s = true ->
  trim_left s cut = trim_left_spec (in_cutset cut) s
  /\ trim_right s cut = trim_right_spec (in_cutset cut) s
  /\ trim s cut = trim_both_spec (in_cutset cut) s
  /\ trim_space s = trim_both_spec is_space s.
Proof.
  intros V. split; [apply trim_left_valid; exact V|]. split; [apply trim_right_valid; exact V|].
  split; apply trim_both_valid; exact V.
Qed.

(* ------------------------------------------------------------------ *)
(* the oracle *)

(* what the oracle demands, as propositions *)
Definition Spec_C41 (c : case) : Prop :=
  match c with
  | CSplit max sep s out joined =>
    max <> 0%Z -> (sep <> [] \/ valid s = true) -> joined = ROk s
  | CRepeat s n out =>
    (exists b, out = ROk b /\ (0 <= n)%Z /\ b = repeat_n (Z.to_nat n) s /\ length b = Z.to_nat n * length s)
    \/ out = RBadValue
  | CAffix s p hasp hass trimp trims idx =>
    (hasp = true <-> exists t, s = p ++ t) /\ (hass = true <-> exists t, s = t ++ p)
    /\ ((exists t, s = p ++ t) -> p ++ trimp = s) /\ (~ (exists t, s = p ++ t) -> trimp = s)
    /\ ((exists t, s = t ++ p) -> trims ++ p = s) /\ (~ (exists t, s = t ++ p) -> trims = s)
  | CTrim s cut l r b sp =>
    valid s = true ->
    l = trim_left_spec (in_cutset cut) s /\ r = trim_right_spec (in_cutset cut) s
    /\ b = trim_both_spec (in_cutset cut) s /\ sp = trim_both_spec is_space s
  | CCodepoints s cps back => valid s = true -> back = ROk s
  | CFromCp nums out fwd => forall b, out = ROk b -> fwd = nums
  | CBytes s bs back => valid s = true -> back = ROk s
  | CQuote s q t fnd => valid s = true -> fnd = Some (lit_matches s t)
  | CRegex p t max repl tpl full fmax split_all split_max rep_lit rep_tpl =>
    let ms := map pos_of full in
    wf_matches t ms = true
    /\ Forall (fun m => m_text m = slice t (m_s m) (m_e m)) full
    /\ fmax = firstn_max max ms
    /\ split_all = re_split_spec (-1) p t ms /\ split_max = re_split_spec max p t ms
    /\ rep_lit = weave (gaps t ms 0) (map (fun _ => repl) full)
    /\ rep_tpl = weave (gaps t ms 0) (map (fun m => expand tpl t (m_groups m)) full)
    /\ (forall r, parse_lit p = Some r -> ms = lit_matches (denote r) t)
  | CSeq steps =>
    Forall (fun st => fresh_ok (st_call st) (st_fresh st) = true
                      /\ st_obs st = spec_call (st_call st) (st_fresh st)) steps
  | _ => True
  end.

Lemma res_eqb_spec a b : res_eqb a b = true <-> a = b.
Proof.
  destruct a, b; cbn; try (split; [discriminate | discriminate]); try (split; reflexivity).
  rewrite bytes_eqb_spec. split; [intros ->; reflexivity | intros [= ->]; reflexivity].
Qed.

Lemma list_bytes_eqb_spec a b : list_bytes_eqb a b = true <-> a = b.
Proof. apply list_eqb_spec. apply bytes_eqb_spec. Qed.

Lemma pos_eqb_spec a b : pos_eqb a b = true <-> a = b.
Proof.
  destruct a, b. unfold pos_eqb. cbn [fst snd]. rewrite andb_true_iff, !Nat.eqb_eq.
  split; [intros [-> ->]; reflexivity | intros [= -> ->]; split; reflexivity].
Qed.

Lemma poss_eqb_spec a b : poss_eqb a b = true <-> a = b.
Proof. apply list_eqb_spec. apply pos_eqb_spec. Qed.

Lemma listZ_eqb_spec a b : listZ_eqb a b = true <-> a = b.
Proof. apply list_eqb_spec. apply Z.eqb_eq. Qed.

Lemma groups_eqb_spec a b : groups_eqb a b = true <-> a = b.
Proof.
  apply list_eqb_spec. intros [x1 x2] [y1 y2]. cbn [fst snd].
  rewrite andb_true_iff, !Z.eqb_eq. split; [intros [-> ->]; reflexivity | intros [= -> ->]; split; reflexivity].
Qed.

Lemma rmatch_eqb_spec a b : rmatch_eqb a b = true <-> a = b.
Proof.
  destruct a as [s1 e1 t1 g1], b as [s2 e2 t2 g2]. unfold rmatch_eqb. cbn [m_s m_e m_text m_groups].
  rewrite !andb_true_iff, !Nat.eqb_eq, bytes_eqb_spec, groups_eqb_spec. split.
  - intros [[[-> ->] ->] ->]. reflexivity.
  - intros [= -> -> -> ->]. repeat split.
Qed.

Lemma rresult_eqb_spec a b : rresult_eqb a b = true <-> a = b.
Proof.
  destruct a, b; cbn [rresult_eqb]; try (split; [discriminate | discriminate]); try (split; reflexivity).
  - rewrite (list_eqb_spec rmatch_eqb rmatch_eqb_spec). split; [intros ->; reflexivity | intros [= ->]; reflexivity].
  - rewrite list_bytes_eqb_spec. split; [intros ->; reflexivity | intros [= ->]; reflexivity].
  - rewrite bytes_eqb_spec. split; [intros ->; reflexivity | intros [= ->]; reflexivity].
  - split; [intros H; apply eqb_prop in H; subst; reflexivity | intros [= ->]; apply eqb_reflx].
Qed.

Lemma oracle_sound c : oracle c = true -> Spec_C41 c.
Proof.
  destruct c; cbn [oracle Spec_C41]; try exact (fun _ => I).
  - (* split *)
    intros O Hm Hs. destruct (Z.eqb_spec max 0); [contradiction|].
    destruct (is_nil sep && negb (valid s)) eqn:G.
    + apply andb_true_iff in G as [G1 G2]. destruct sep; [|discriminate G1].
      destruct Hs as [Hs|Hs]; [congruence | rewrite Hs in G2; discriminate G2].
    + apply res_eqb_spec. exact O.
  - (* repeat *)
    destruct out as [b| | | |]; try discriminate; [|right; reflexivity].
    intros O. apply andb_true_iff in O as [O1 O2]. apply Z.leb_le in O1. apply bytes_eqb_spec in O2.
    left. exists b. split; [reflexivity|]. split; [exact O1|].
    assert (E : b = repeat_n (Z.to_nat n) s).
    { rewrite repeat_n_concat. destruct s; [|exact O2]. cbn [is_nil] in O2. subst b.
      rewrite <- repeat_n_concat, repeat_n_nil. reflexivity. }
    split; [exact E | rewrite E; apply repeat_n_length].
  - (* affix *)
    intros O. apply andb_true_iff in O as [O O4]. apply andb_true_iff in O as [O O3].
    apply andb_true_iff in O as [O1 O2]. apply eqb_prop in O1, O2.
    apply bytes_eqb_spec in O3, O4. subst.
    rewrite <- has_prefix_spec, <- has_suffix_spec, <- trim_prefix_is_spec, <- trim_suffix_is_spec.
    rewrite has_prefix_iff, has_suffix_iff.
    destruct (trim_prefix_def s p) as [P1 P2]. destruct (trim_suffix_def s p) as [S1 S2].
    split; [reflexivity|]. split; [reflexivity|].
    split; [intros H; apply P1, has_prefix_iff; exact H|].
    split; [intros H; apply P2; destruct (has_prefix s p) eqn:E; [|reflexivity];
            exfalso; apply H, has_prefix_iff; exact E|].
    split; [intros H; apply S1, has_suffix_iff; exact H|].
    intros H; apply S2; destruct (has_suffix s p) eqn:E; [|reflexivity].
    exfalso; apply H, has_suffix_iff; exact E.
  - (* trim *)
    intros O V. rewrite V in O. apply andb_true_iff in O as [O O4]. apply andb_true_iff in O as [O O3].
    apply andb_true_iff in O as [O1 O2]. apply bytes_eqb_spec in O1, O2, O3, O4. auto.
  - (* codepoints *)
    intros O V. rewrite V in O. apply res_eqb_spec. exact O.
  - (* from-codepoints *)
    intros O b ->. apply listZ_eqb_spec. exact O.
  - (* bytes *)
    intros O V. rewrite V in O. apply res_eqb_spec. exact O.
  - (* quote *)
    intros O V. rewrite V in O. destruct fnd as [ms|]; [|discriminate].
    apply poss_eqb_spec in O. subst. reflexivity.
  - (* regex *)
    intros O. repeat (apply andb_true_iff in O as [O ?]).
    repeat match goal with H : _ = true |- _ =>
      first [apply poss_eqb_spec in H | apply list_bytes_eqb_spec in H | apply bytes_eqb_spec in H] end.
    split; [exact O|]. split.
    { unfold texts_ok in *. apply Forall_forall. intros m Hm.
      match goal with H : forallb _ full = true |- _ => rewrite forallb_forall in H; specialize (H m Hm);
        apply bytes_eqb_spec in H; exact H end. }
    repeat (split; [assumption|]).
    intros r Hr. match goal with H : match parse_lit p with _ => _ end = true |- _ =>
      rewrite Hr in H; apply poss_eqb_spec in H; exact H end.
  - (* sequence *)
    intros O. apply Forall_forall. intros st Hst. rewrite forallb_forall in O.
    specialize (O st Hst). unfold step_oracle in O. apply andb_true_iff in O as [O1 O2].
    split; [exact O1 | apply rresult_eqb_spec; exact O2].
Qed.

(* ------------------------------------------------------------------ *)
(* the model satisfies what the oracle demands, for all inputs *)

Lemma model_split_ok max sep s :
  oracle (CSplit max sep s (str_split max sep s) (ROk (join sep (str_split max sep s)))) = true.
Proof.
  cbn [oracle]. destruct (Z.eqb_spec max 0); [reflexivity|].
  destruct (is_nil sep && negb (valid s)); [reflexivity|].
  unfold is_ok. apply res_eqb_spec. rewrite join_split by assumption. reflexivity.
Qed.

Lemma model_affix_ok s p :
  oracle (CAffix s p (has_prefix s p) (has_suffix s p) (trim_prefix s p) (trim_suffix s p) (index_z s p)) = true.
Proof.
  cbn [oracle]. rewrite has_prefix_spec, has_suffix_spec, trim_prefix_is_spec, trim_suffix_is_spec.
  rewrite !eqb_reflx, !bytes_eqb_refl. reflexivity.
Qed.

Lemma model_trim_ok s cut :
  oracle (CTrim s cut (trim_left s cut) (trim_right s cut) (trim s cut) (trim_space s)) = true.
Proof.
  cbn [oracle]. destruct (valid s) eqn:V; [|reflexivity].
  destruct (trim_valid s cut V) as (-> & -> & -> & ->). rewrite !bytes_eqb_refl. reflexivity.
Qed.

Lemma model_codepoints_ok s :
  oracle (CCodepoints s (to_codepoints s) (from_codepoints (to_codepoints s))) = true.
Proof.
  cbn [oracle]. destruct (valid s) eqn:V; [|reflexivity].
  unfold is_ok. apply res_eqb_spec. apply codepoints_roundtrip. exact V.
Qed.

Lemma model_from_cp_ok nums :
  oracle (CFromCp nums (from_codepoints nums)
            (match from_codepoints nums with ROk b => to_codepoints b | _ => [] end)) = true.
Proof.
  cbn [oracle]. destruct (from_codepoints nums) as [b| | | |] eqn:F; try reflexivity.
  apply listZ_eqb_spec. apply (from_codepoints_ok nums b F).
Qed.

Lemma model_bytes_ok s : Forall (fun b => (b < 256)%N) s ->
  oracle (CBytes s (to_utf8_bytes s) (from_utf8_bytes (to_utf8_bytes s))) = true.
Proof.
  intros B. cbn [oracle]. destruct (valid s) eqn:V; [|reflexivity].
  unfold is_ok. apply res_eqb_spec. apply utf8_bytes_roundtrip; assumption.
Qed.

(* for every match list that satisfies the contract, whatever the engine: the
   model's split and replace are the ones the oracle accepts *)
Lemma model_regex_ok p t max repl tpl full :
  wf_matches t (map pos_of full) = true -> texts_ok t full = true ->
  (forall r, parse_lit p = Some r -> map pos_of full = lit_matches (denote r) t) ->
  oracle (CRegex p t max repl tpl full (firstn_max max (map pos_of full))
            (re_split (-1) p t (map pos_of full)) (re_split max p t (map pos_of full))
            (re_replace_lit repl t full) (re_replace_tpl tpl t full)) = true.
Proof.
  intros W T L. cbn [oracle]. rewrite W, T. cbn [andb].
  rewrite !re_split_is_spec by exact W. rewrite re_replace_lit_spec, re_replace_tpl_spec.
  replace (poss_eqb _ _) with true by (symmetry; apply poss_eqb_spec; reflexivity).
  replace (list_bytes_eqb _ _) with true by (symmetry; apply list_bytes_eqb_spec; reflexivity).
  replace (list_bytes_eqb _ _) with true by (symmetry; apply list_bytes_eqb_spec; reflexivity).
  rewrite !bytes_eqb_refl. cbn [andb].
  destruct (parse_lit p) as [r|]; [|reflexivity]. apply poss_eqb_spec. apply L. reflexivity.
Qed.

(* ------------------------------------------------------------------ *)
(* sequences of re: calls: a call's answer depends on its own arguments only *)

Lemma run_seq_app engine a b : run_seq engine (a ++ b) = run_seq engine a ++ run_seq engine b.
Proof. apply map_app. Qed.

Lemma run_seq_nth engine pre c post :
  nth_error (run_seq engine (pre ++ c :: post)) (length pre)
  = Some (run_call c (fresh_of engine c)).
Proof.
  unfold run_seq. rewrite map_app, nth_error_app2 by (rewrite map_length; lia).
  rewrite map_length, Nat.sub_diag. reflexivity.
Qed.

(* whatever was called before and whatever is called after *)
Lemma call_independent_of_history engine pre1 post1 pre2 post2 c :
  nth_error (run_seq engine (pre1 ++ c :: post1)) (length pre1)
  = nth_error (run_seq engine (pre2 ++ c :: post2)) (length pre2).
Proof. rewrite !run_seq_nth. reflexivity. Qed.

Lemma spec_call_is_run c fresh : fresh_ok c fresh = true -> spec_call c fresh = run_call c fresh.
Proof.
  destruct fresh as [ms|]; [|reflexivity]. cbn [fresh_ok]. intros H.
  apply andb_true_iff in H as [W _]. unfold spec_call, run_call.
  destruct (rc_op c); rewrite ?re_split_is_spec by exact W;
    rewrite ?re_replace_lit_spec, ?re_replace_tpl_spec; reflexivity.
Qed.

Lemma rresult_eqb_refl r : rresult_eqb r r = true.
Proof. apply rresult_eqb_spec. reflexivity. Qed.

(* for every engine whose match lists satisfy the contract, the model's answers
   to any sequence of calls pass the oracle *)
Lemma model_seq_ok engine cs :
  (forall c, In c cs -> fresh_ok c (fresh_of engine c) = true) ->
  oracle (CSeq (map (fun c => mkStep c (fresh_of engine c) (run_call c (fresh_of engine c))) cs)) = true.
Proof.
  intros H. cbn [oracle]. apply forallb_forall. intros st Hin.
  apply in_map_iff in Hin as (c & <- & Hc). unfold step_oracle. cbn [st_call st_fresh st_obs].
  rewrite (H c Hc). rewrite spec_call_is_run by (apply H; exact Hc). apply rresult_eqb_refl.
Qed.
