(* C33 / styledown — Render always returns a normal Text; the round trip for the
   executed instance (table-driven wcwidth.OfRune, observed parse table). *)
From verif Require Import lib.Base lib.Utf8 model.C34_width model.C33 model.C33_styledown
  proofs.C33_proofs proofs.C33_proofs2 proofs.C33_proofs3 proofs.C33_sd_flat proofs.C33_sd_table proofs.C33_sd_round
  proofs.C33_sd_main proofs.C34_inst.
Open Scope Z_scope.

(* ---- whatever the markup, a successful Render returns a Text in normal form ---- *)
Section RenderNormal.
  Variable w : N -> Z.
  Variable parse_def : list N -> option (N * list styling).

  Lemma T_normal' s ats : Normal (T s ats).
  Proof. unfold T. destruct s as [|c s']; cbn [is_nil]; [exact I|]. cbn. repeat split; congruence. Qed.

  Lemma render_line_inv defs txt : forall tb sty tb',
    BInv tb -> render_line w defs tb txt sty = Ok tb' -> BInv tb'.
  Proof.
    induction txt as [|r txt IH]; intros tb sty tb' Hb E; cbn [render_line] in E.
    - inversion E; subst. exact Hb.
    - destruct (w r =? 0); [discriminate|].
      destruct (Nat.ltb (length sty) (Z.to_nat (w r))); [discriminate|].
      destruct (negb (all_same (firstn (Z.to_nat (w r)) sty))); [discriminate|].
      destruct sty as [|c sty']; [discriminate|].
      destruct (sheet_lookup defs c) as [ats|]; [|discriminate].
      eapply IH; [|exact E]. apply write_text_inv; [exact Hb | apply T_normal'].
  Qed.

  Lemma render_pairs_inv defs ps : forall first tb tb',
    BInv tb -> render_pairs w defs first tb ps = Ok tb' -> BInv tb'.
  Proof.
    induction ps as [|[a b] ps IH]; intros first tb tb' Hb E; cbn [render_pairs] in E.
    - inversion E; subst. exact Hb.
    - destruct (render_line w defs (if first then tb else write_text tb (T [NL] [])) a b) as [tb2|] eqn:E2;
        [|discriminate].
      eapply IH; [|exact E]. eapply render_line_inv; [|exact E2].
      destruct first; [exact Hb | apply write_text_inv; [exact Hb | apply T_normal']].
  Qed.

  Lemma render_normal s t : render w parse_def s = Ok t -> Normal t.
  Proof.
    unfold render. destruct (pair_lines w (split_lines s)) as [ps rest].
    destruct (match rest with [] => Ok [] | x :: r => if is_nil x then Ok r else Err end) as [cfg|]; [|discriminate].
    destruct (parse_config parse_def cfg false []) as [[noeol defs]|]; [|discriminate].
    destruct (render_pairs w defs true b_empty ps) as [tb|] eqn:E; [|discriminate].
    intros H. inversion H; subst.
    pose proof (render_pairs_inv defs ps true b_empty tb BInv_empty E) as Hb.
    destruct noeol; [apply Hb|]. apply (write_text_inv tb (T [NL] []) Hb (T_normal' _ _)).
  Qed.
End RenderNormal.

(* ---- the contract of parseStyleCharDef, checked on the observed table ---- *)
Lemma table_parse_in tbl l v : table_parse tbl l = Some v ->
  exists k, In (k, Some v) tbl /\ runes_of k = l.
Proof.
  induction tbl as [|[k x] tbl IH]; cbn [table_parse]; [discriminate|].
  destruct (runes_eqb (runes_of k) l) eqn:E.
  - intros ->. apply runes_eqb_eq in E. exists k. split; [left; reflexivity | exact E].
  - intros H. destruct (IH H) as (k' & Hin & Hk). exists k'. split; [right; exact Hin | exact Hk].
Qed.

Lemma table_wf_width tbl : table_wf tbl = true ->
  forall l c ats, table_parse tbl l = Some (c, ats) -> of_rune c = 1 /\ In c l.
Proof.
  intros Hwf l c ats H. destruct (table_parse_in tbl l _ H) as (k & Hin & Hk).
  unfold table_wf in Hwf. rewrite forallb_forall in Hwf. specialize (Hwf _ Hin).
  unfold entry_ok in Hwf. cbn [fst snd] in Hwf.
  apply andb_true_iff in Hwf. destruct Hwf as (H1 & _). apply andb_true_iff in H1. destruct H1 as (H1 & H2).
  apply Z.eqb_eq in H1. apply existsb_eqb_in in H2. rewrite Hk in H2. auto.
Qed.

Lemma table_wf_no_eol tbl : table_wf tbl = true -> table_parse tbl no_eol = None.
Proof.
  intros Hwf. destruct (table_parse tbl no_eol) as [[c ats]|] eqn:E; [|reflexivity]. exfalso.
  destruct (table_parse_in tbl no_eol _ E) as (k & Hin & Hk).
  unfold table_wf in Hwf. rewrite forallb_forall in Hwf. specialize (Hwf _ Hin).
  unfold entry_ok in Hwf. cbn [fst snd] in Hwf.
  apply andb_true_iff in Hwf. destruct Hwf as (_ & H3). rewrite Hk in H3.
  assert (Hr : runes_eqb no_eol no_eol = true) by (apply runes_eqb_eq; reflexivity).
  rewrite Hr in H3. discriminate.
Qed.

Lemma of_rune_nl : of_rune NL <> 1.
Proof. vm_compute. discriminate. Qed.

Lemma of_rune_builtin c ats : lookup c builtin_chars = Some ats -> of_rune c = 1.
Proof.
  unfold builtin_chars. cbn [lookup].
  destruct (N.eqb 32 c) eqn:E1; [apply N.eqb_eq in E1; subst c; intros _; vm_compute; reflexivity|].
  destruct (N.eqb 42 c) eqn:E2; [apply N.eqb_eq in E2; subst c; intros _; vm_compute; reflexivity|].
  destruct (N.eqb 95 c) eqn:E3; [apply N.eqb_eq in E3; subst c; intros _; vm_compute; reflexivity|].
  destruct (N.eqb 35 c) eqn:E4; [apply N.eqb_eq in E4; subst c; intros _; vm_compute; reflexivity|].
  discriminate.
Qed.

Lemma of_rune_no_eol : W of_rune no_eol <> 0.
Proof. vm_compute. discriminate. Qed.

Theorem styledown_roundtrip_wcwidth tbl t defs m :
  table_wf tbl = true ->
  Representable of_rune t ->
  derender of_rune (table_parse tbl) t defs = Ok m ->
  render of_rune (table_parse tbl) m = Ok t.
Proof.
  intros Hwf. apply styledown_roundtrip.
  - exact of_rune_nonneg.
  - exact of_rune_nl.
  - exact of_rune_builtin.
  - exact of_rune_no_eol.
  - apply table_wf_width. exact Hwf.
  - apply table_wf_no_eol. exact Hwf.
Qed.

(* oracle soundness: an accepted observation is a faithful, normal round trip *)
Lemma text_eqb_eq a b : text_eqb a b = true <-> a = b.
Proof.
  apply list_eqb_spec. intros [s x] [s' y]. unfold seg_eqb. cbn [fst snd].
  rewrite andb_true_iff, style_eqb_spec, bytes_eqb_spec.
  split; [intros [-> ->]; reflexivity | intros E; inversion E; auto].
Qed.

Lemma check_round_sound t markup back :
  check_round t markup back = true ->
  markup = None \/ exists flag, back = BackOk (flag, t) /\ Normal t /\ (t = [] -> flag = true).
Proof.
  unfold check_round. destruct markup; [|auto]. destruct back as [[flag t']| |]; try discriminate.
  intros H. apply andb_true_iff in H. destruct H as (H1 & H2). apply text_eqb_eq in H1. subst t'.
  right. exists flag. split; [reflexivity|]. apply res_normal_sound in H2. exact H2.
Qed.

(* non-vacuity *)
From Coq Require Import Strings.String.
Example sd_example :
  let t := [(sBold, [97; 22909]%N); (style0, [10; 98]%N)] in
  derender of_rune (table_parse []) t [] = Ok [97; 22909; 10; 42; 42; 42; 10; 98; 10; 32; 10; 10; 110; 111; 45; 101; 111; 108; 10]%N
  /\ render of_rune (table_parse []) [97; 22909; 10; 42; 42; 42; 10; 98; 10; 32; 10; 10; 110; 111; 45; 101; 111; 108; 10]%N = Ok t.
Proof. split; vm_compute; reflexivity. Qed.
