(* C07 — the bitmap layer: a bitmap node (bitmap, compressed entry list) seen
   as 32 optional slots; rank (= specification popcount) arithmetic; the
   connection to N.land / N.lor / N.lxor / N.shiftl as used by the Go code. *)
From Coq Require Import ZifyBool ZifyNat ZifyN.
From verif Require Import lib.Base lib.ListX model.C07 proofs.C07_swar.
Open Scope nat_scope.

(* ------------------------------------------------------------------ *)
(* generic: bit predicate f : N -> bool *)
Fixpoint rankf (f : N -> bool) (cnt : nat) (i : N) : nat :=
  match cnt with
  | O => O
  | S c => (if f i then 1 else 0) + rankf f c (i + 1)
  end.

Fixpoint expandf {A} (f : N -> bool) (cnt : nat) (i : N) (es : list A) : list (option A) :=
  match cnt with
  | O => []
  | S c =>
    if f i then
      match es with
      | e :: r => Some e :: expandf f c (i + 1) r
      | [] => None :: expandf f c (i + 1) []
      end
    else None :: expandf f c (i + 1) es
  end.

Definition somes {A} (l : list (option A)) : list A :=
  flat_map (fun o => match o with Some e => [e] | None => [] end) l.

Lemma rank_rankf bm cnt i : rank bm cnt i = rankf (N.testbit bm) cnt i.
Proof. revert i; induction cnt as [|c IH]; intros i; simpl; [reflexivity|]. rewrite IH. reflexivity. Qed.

Lemma rankf_ext f g cnt i :
  (forall x, (i <= x)%N -> (x < i + N.of_nat cnt)%N -> f x = g x) ->
  rankf f cnt i = rankf g cnt i.
Proof.
  revert i; induction cnt as [|c IH]; intros i H; simpl; [reflexivity|].
  rewrite (H i) by lia. rewrite IH; [reflexivity|]. intros x H1 H2. apply H; lia.
Qed.

Lemma expandf_ext {A} f g cnt i (es : list A) :
  (forall x, (i <= x)%N -> (x < i + N.of_nat cnt)%N -> f x = g x) ->
  expandf f cnt i es = expandf g cnt i es.
Proof.
  revert i es; induction cnt as [|c IH]; intros i es H; simpl; [reflexivity|].
  rewrite (H i) by lia.
  assert (H' : forall x, (i + 1 <= x)%N -> (x < i + 1 + N.of_nat c)%N -> f x = g x)
    by (intros x H1 H2; apply H; lia).
  destruct (g i); [destruct es|]; rewrite IH by exact H'; reflexivity.
Qed.

Lemma rankf_add f a b i : rankf f (a + b) i = rankf f a i + rankf f b (i + N.of_nat a).
Proof.
  revert i; induction a as [|a IH]; intros i.
  - simpl. replace (i + 0)%N with i by lia. reflexivity.
  - cbn [rankf Nat.add]. rewrite IH. replace (i + 1 + N.of_nat a)%N with (i + N.of_nat (S a))%N by lia. lia.
Qed.

Lemma rankf_le f cnt i : rankf f cnt i <= cnt.
Proof. revert i; induction cnt as [|c IH]; intros i; simpl; [lia|]. specialize (IH (i + 1)%N). destruct (f i); lia. Qed.

Lemma rankf_false f cnt i :
  (forall x, (i <= x)%N -> (x < i + N.of_nat cnt)%N -> f x = false) -> rankf f cnt i = 0.
Proof.
  revert i; induction cnt as [|c IH]; intros i H; simpl; [reflexivity|].
  rewrite (H i) by lia. rewrite IH; [reflexivity|]. intros x H1 H2; apply H; lia.
Qed.

Lemma rankf_shift f cnt i k :
  rankf (fun x => f (x + k)%N) cnt i = rankf f cnt (i + k)%N.
Proof.
  revert i; induction cnt as [|c IH]; intros i; simpl; [reflexivity|].
  rewrite IH. replace (i + 1 + k)%N with (i + k + 1)%N by lia. reflexivity.
Qed.

Lemma expandf_length {A} f cnt i (es : list A) : length (expandf f cnt i es) = cnt.
Proof.
  revert i es; induction cnt as [|c IH]; intros i es; simpl; [reflexivity|].
  destruct (f i); [destruct es|]; simpl; rewrite IH; reflexivity.
Qed.

Lemma somes_expandf {A} f cnt i (es : list A) :
  length es = rankf f cnt i -> somes (expandf f cnt i es) = es.
Proof.
  revert i es; induction cnt as [|c IH]; intros i es H; simpl in *.
  - destruct es; [reflexivity|discriminate].
  - destruct (f i).
    + destruct es as [|e r]; [discriminate|]. unfold somes in *. simpl. f_equal. apply IH. simpl in H. lia.
    + unfold somes in *. simpl. apply IH. exact H.
Qed.

Lemma flat_map_somes {A B} (g : A -> list B) (l : list (option A)) :
  flat_map g (somes l) = flat_map (fun o => match o with Some e => g e | None => [] end) l.
Proof.
  induction l as [|[e|] l IH]; simpl; [reflexivity| |exact IH].
  unfold somes in *. simpl. rewrite IH. reflexivity.
Qed.

(* slot lookup *)
Lemma expandf_nth {A} f cnt i (es : list A) j :
  j < cnt -> length es = rankf f cnt i ->
  nth_error (expandf f cnt i es) j =
  Some (if f (i + N.of_nat j)%N then nth_error es (rankf f j i) else None).
Proof.
  revert i es j; induction cnt as [|c IH]; intros i es j Hj Hl; [lia|].
  destruct j as [|j].
  - replace (i + N.of_nat 0)%N with i by lia. simpl in *.
    destruct (f i); [|reflexivity]. destruct es; [discriminate|reflexivity].
  - replace (i + N.of_nat (S j))%N with (i + 1 + N.of_nat j)%N by lia.
    cbn [expandf rankf] in *. destruct (f i) eqn:Hf.
    + destruct es as [|e r]; [discriminate|]. cbn [nth_error]. rewrite IH by (simpl in Hl; lia).
      reflexivity.
    + cbn [nth_error]. rewrite IH by (simpl in Hl; lia). reflexivity.
Qed.

Lemma rankf_lt f cnt i j :
  j < cnt -> f (i + N.of_nat j)%N = true -> rankf f j i < rankf f cnt i.
Proof.
  intros Hj Hf. replace cnt with (j + (1 + (cnt - j - 1))) by lia.
  rewrite rankf_add. rewrite (rankf_add f 1). simpl. rewrite Hf. lia.
Qed.

Lemma insertAt_0 {A} (x : A) l : insertAt 0 x l = x :: l.
Proof. reflexivity. Qed.
Lemma insertAt_S {A} j (x a : A) l : insertAt (S j) x (a :: l) = a :: insertAt j x l.
Proof. reflexivity. Qed.
Lemma replaceAt_0 {A} (x a : A) l : replaceAt 0 x (a :: l) = x :: l.
Proof. reflexivity. Qed.
Lemma replaceAt_S {A} j (x a : A) l : replaceAt (S j) x (a :: l) = a :: replaceAt j x l.
Proof. reflexivity. Qed.
Lemma removeAt_0 {A} (a : A) l : removeAt 0 (a :: l) = l.
Proof. reflexivity. Qed.
Lemma removeAt_S {A} j (a : A) l : removeAt (S j) (a :: l) = a :: removeAt j l.
Proof. reflexivity. Qed.

(* insertion of a new entry at a clear bit *)
Lemma expandf_insert {A} f f' cnt i (es : list A) j e :
  j < cnt -> f (i + N.of_nat j)%N = false -> length es = rankf f cnt i ->
  (forall x, f' x = f x || (x =? i + N.of_nat j)%N) ->
  expandf f' cnt i (insertAt (rankf f j i) e es) = replaceAt j (Some e) (expandf f cnt i es)
  /\ rankf f' cnt i = S (rankf f cnt i).
Proof.
  revert i es j; induction cnt as [|c IH]; intros i es j Hj Hf Hl Hf'; [lia|].
  destruct j as [|j].
  - replace (i + N.of_nat 0)%N with i in * by lia. cbn [expandf rankf] in *.
    rewrite Hf' , Hf, N.eqb_refl. cbn [orb]. rewrite insertAt_0, replaceAt_0.
    assert (E : forall x, (i + 1 <= x)%N -> (x < i + 1 + N.of_nat c)%N -> f' x = f x).
    { intros x H1 H2. rewrite Hf'. destruct (N.eqb_spec x i); [lia|]. apply orb_false_r. }
    rewrite (expandf_ext f' f) by exact E. rewrite (rankf_ext f' f) by exact E. split; [reflexivity|lia].
  - assert (Hi : (i + N.of_nat (S j) = i + 1 + N.of_nat j)%N) by lia.
    rewrite Hi in Hf. cbn [expandf rankf] in *.
    assert (Hfi : f' i = f i).
    { rewrite Hf'. destruct (N.eqb_spec i (i + N.of_nat (S j))%N); [lia|]. apply orb_false_r. }
    rewrite Hfi.
    assert (Hf'' : forall x, f' x = f x || (x =? i + 1 + N.of_nat j)%N) by (intros x; rewrite Hf', Hi; reflexivity).
    destruct (f i) eqn:Hfi'.
    + destruct es as [|e0 r]; [discriminate|]. cbn [length] in Hl.
      destruct (IH (i + 1)%N r j ltac:(lia) Hf ltac:(lia) Hf'') as [IH1 IH2].
      cbn [Nat.add]. rewrite insertAt_S, IH1, IH2, replaceAt_S. split; [reflexivity|lia].
    + destruct (IH (i + 1)%N es j ltac:(lia) Hf ltac:(lia) Hf'') as [IH1 IH2].
      cbn [Nat.add]. rewrite IH1, IH2, replaceAt_S. split; [reflexivity|lia].
Qed.

(* replacement of the entry at a set bit *)
Lemma expandf_replace {A} f cnt i (es : list A) j e :
  j < cnt -> f (i + N.of_nat j)%N = true -> length es = rankf f cnt i ->
  expandf f cnt i (replaceAt (rankf f j i) e es) = replaceAt j (Some e) (expandf f cnt i es)
  /\ length (replaceAt (rankf f j i) e es) = length es.
Proof.
  revert i es j; induction cnt as [|c IH]; intros i es j Hj Hf Hl; [lia|].
  destruct j as [|j].
  - replace (i + N.of_nat 0)%N with i in * by lia. cbn [expandf rankf] in *. rewrite Hf in *.
    destruct es as [|e0 r]; [discriminate|]. rewrite !replaceAt_0. split; reflexivity.
  - assert (Hi : (i + N.of_nat (S j) = i + 1 + N.of_nat j)%N) by lia.
    rewrite Hi in Hf. cbn [expandf rankf] in *. destruct (f i) eqn:Hfi.
    + destruct es as [|e0 r]; [discriminate|]. cbn [length] in Hl.
      destruct (IH (i + 1)%N r j ltac:(lia) Hf ltac:(lia)) as [IH1 IH2].
      cbn [Nat.add]. rewrite !replaceAt_S. cbn [expandf length]. rewrite IH1, IH2. split; reflexivity.
    + destruct (IH (i + 1)%N es j ltac:(lia) Hf ltac:(lia)) as [IH1 IH2].
      cbn [Nat.add]. rewrite !replaceAt_S. cbn [expandf]. rewrite IH1. split; [reflexivity|exact IH2].
Qed.

(* removal of the entry at a set bit *)
Lemma expandf_remove {A} f f' cnt i (es : list A) j :
  j < cnt -> f (i + N.of_nat j)%N = true -> length es = rankf f cnt i ->
  (forall x, f' x = f x && negb (x =? i + N.of_nat j)%N) ->
  expandf f' cnt i (removeAt (rankf f j i) es) = replaceAt j None (expandf f cnt i es)
  /\ S (rankf f' cnt i) = rankf f cnt i
  /\ length (removeAt (rankf f j i) es) = rankf f' cnt i.
Proof.
  revert i es j; induction cnt as [|c IH]; intros i es j Hj Hf Hl Hf'; [lia|].
  destruct j as [|j].
  - replace (i + N.of_nat 0)%N with i in * by lia. cbn [expandf rankf] in *.
    rewrite Hf', Hf, N.eqb_refl in *. cbn [andb negb].
    destruct es as [|e0 r]; [discriminate|]. rewrite removeAt_0, replaceAt_0.
    assert (E : forall x, (i + 1 <= x)%N -> (x < i + 1 + N.of_nat c)%N -> f' x = f x).
    { intros x H1 H2. rewrite Hf'. destruct (N.eqb_spec x i); [lia|]. apply andb_true_r. }
    rewrite (expandf_ext f' f) by exact E. rewrite (rankf_ext f' f) by exact E.
    cbn [length] in Hl. repeat split; lia.
  - assert (Hi : (i + N.of_nat (S j) = i + 1 + N.of_nat j)%N) by lia.
    rewrite Hi in Hf. cbn [expandf rankf] in *.
    assert (Hfi : f' i = f i).
    { rewrite Hf'. destruct (N.eqb_spec i (i + N.of_nat (S j))%N); [lia|]. apply andb_true_r. }
    rewrite Hfi.
    assert (Hf'' : forall x, f' x = f x && negb (x =? i + 1 + N.of_nat j)%N) by (intros x; rewrite Hf', Hi; reflexivity).
    destruct (f i) eqn:Hfi'.
    + destruct es as [|e0 r]; [discriminate|]. cbn [length] in Hl.
      destruct (IH (i + 1)%N r j ltac:(lia) Hf ltac:(lia) Hf'') as (IH1 & IH2 & IH3).
      cbn [Nat.add]. rewrite removeAt_S, IH1, replaceAt_S. cbn [length]. repeat split; lia.
    + destruct (IH (i + 1)%N es j ltac:(lia) Hf ltac:(lia) Hf'') as (IH1 & IH2 & IH3).
      cbn [Nat.add]. rewrite IH1, replaceAt_S. repeat split; lia.
Qed.

(* ------------------------------------------------------------------ *)
(* list helpers for replaceAt *)
Lemma replaceAt_length {A} j (x : A) l : j < length l -> length (replaceAt j x l) = length l.
Proof.
  intros H. unfold replaceAt. rewrite app_length. cbn [length]. rewrite firstn_length, skipn_length. lia.
Qed.

Lemma replaceAt_nth_same {A} j (x : A) l : j < length l -> nth_error (replaceAt j x l) j = Some x.
Proof.
  revert l; induction j as [|j IH]; intros [|a l] H; simpl in H; try lia.
  - reflexivity.
  - rewrite replaceAt_S. simpl. apply IH. lia.
Qed.

Lemma replaceAt_nth_other {A} j (x : A) l i : i <> j -> j < length l ->
  nth_error (replaceAt j x l) i = nth_error l i.
Proof.
  revert l i; induction j as [|j IH]; intros [|a l] i Hne Hl; simpl in Hl; try lia.
  - destruct i as [|i]; [lia|reflexivity].
  - rewrite replaceAt_S. destruct i as [|i]; [reflexivity|]. simpl. apply IH; lia.
Qed.

Lemma split_at {A} j (l : list A) x : nth_error l j = Some x ->
  l = firstn j l ++ x :: skipn (S j) l.
Proof.
  revert l; induction j as [|j IH]; intros [|y l] H; try discriminate; simpl in *.
  - congruence.
  - f_equal. apply IH. exact H.
Qed.

(* ------------------------------------------------------------------ *)
(* connection to the N operations of the Go code *)
Open Scope N_scope.

Lemma chunk_lt s h : chunk s h < 32.
Proof.
  unfold chunk. change chunkMask with (N.ones 5). rewrite N.land_ones.
  apply N.mod_lt. discriminate.
Qed.

Lemma bitpos_pow2 s h : bitpos s h = 2 ^ chunk s h.
Proof. unfold bitpos. apply N.shiftl_1_l. Qed.

Lemma land_pow2_zero bm c : (N.land bm (2 ^ c) =? 0) = negb (N.testbit bm c).
Proof.
  destruct (N.testbit bm c) eqn:E; simpl.
  - apply N.eqb_neq. intros H. apply (f_equal (fun x => N.testbit x c)) in H.
    rewrite N.land_spec, E, N.pow2_bits_true, N.bits_0 in H. discriminate.
  - apply N.eqb_eq. apply N.bits_inj. intros i. rewrite N.land_spec, N.bits_0, N.pow2_bits_eqb.
    destruct (N.eqb_spec c i); [subst; rewrite E|]; simpl; [reflexivity|apply andb_false_r].
Qed.

Lemma lor_pow2_spec bm c x : N.testbit (N.lor bm (2 ^ c)) x = N.testbit bm x || (x =? c).
Proof. rewrite N.lor_spec, N.pow2_bits_eqb, (N.eqb_sym c x). reflexivity. Qed.

Lemma lxor_pow2_spec bm c x : N.testbit bm c = true ->
  N.testbit (N.lxor bm (2 ^ c)) x = N.testbit bm x && negb (x =? c).
Proof.
  intros H. rewrite N.lxor_spec, N.pow2_bits_eqb, (N.eqb_sym c x).
  destruct (N.eqb_spec x c); [subst; rewrite H; reflexivity|].
  rewrite xorb_false_r, andb_true_r. reflexivity.
Qed.

Lemma lt_pow2_bits u n : u < 2 ^ n <-> (forall i, n <= i -> N.testbit u i = false).
Proof.
  split.
  - intros H i Hi. destruct (N.eq_dec u 0) as [->|Hu]; [apply N.bits_0|].
    apply N.bits_above_log2. apply N.log2_lt_pow2 in H; lia.
  - intros H. destruct (N.eq_dec u 0) as [->|Hu]; [apply N.neq_0_lt_0, N.pow_nonzero; discriminate|].
    apply N.log2_lt_pow2; [lia|]. destruct (N.lt_ge_cases (N.log2 u) n) as [L|L]; [exact L|].
    specialize (H _ L). rewrite N.bit_log2 in H by exact Hu. discriminate.
Qed.

Lemma lor_pow2_lt bm c n : bm < 2 ^ n -> c < n -> N.lor bm (2 ^ c) < 2 ^ n.
Proof.
  intros H Hc. apply lt_pow2_bits. intros i Hi. rewrite lor_pow2_spec.
  rewrite (proj1 (lt_pow2_bits bm n) H i Hi). destruct (N.eqb_spec i c); [lia|reflexivity].
Qed.

Lemma lxor_pow2_lt bm c n : bm < 2 ^ n -> N.testbit bm c = true -> N.lxor bm (2 ^ c) < 2 ^ n.
Proof.
  intros H Hc. apply lt_pow2_bits. intros i Hi. rewrite lxor_pow2_spec by exact Hc.
  rewrite (proj1 (lt_pow2_bits bm n) H i Hi). reflexivity.
Qed.

(* index(bitmap, bit) is the rank of the bit's position *)
Lemma index_rank bm c : bm < 2 ^ 32 -> c < 32 ->
  N.to_nat (index bm (2 ^ c)) = rankf (N.testbit bm) (N.to_nat c) 0.
Proof.
  intros Hbm Hc. unfold index.
  assert (Hlt : N.land bm (2 ^ c - 1) < 2 ^ 32).
  { apply lt_pow2_bits. intros i Hi. rewrite N.land_spec.
    rewrite (proj1 (lt_pow2_bits bm 32) Hbm i Hi). reflexivity. }
  rewrite (popCount_correct _ Hlt), Nat2N.id, rank_rankf.
  replace 32%nat with (N.to_nat c + (32 - N.to_nat c))%nat by lia.
  rewrite rankf_add. rewrite (rankf_false _ (32 - N.to_nat c)).
  - rewrite Nat.add_0_r. apply rankf_ext. intros x _ Hx.
    rewrite N.land_spec. replace (2 ^ c - 1) with (N.ones c) by (rewrite N.ones_equiv; lia).
    rewrite N.ones_spec_low by lia. apply andb_true_r.
  - intros x Hx _. rewrite N.land_spec. replace (2 ^ c - 1) with (N.ones c) by (rewrite N.ones_equiv; lia).
    rewrite N.ones_spec_high by lia. apply andb_false_r.
Qed.

(* a bitmap whose only set bit is c, with one entry *)
Lemma eqb_pow2_rank bm c : bm < 2 ^ 32 -> c < 32 -> N.testbit bm c = true ->
  (bm =? 2 ^ c) = (rankf (N.testbit bm) 32 0 =? 1)%nat.
Proof.
  intros Hbm Hc Ht.
  assert (R : rankf (N.testbit bm) 32 0 =
              (rankf (N.testbit bm) (N.to_nat c) 0 + 1 + rankf (N.testbit bm) (31 - N.to_nat c) (c + 1))%nat).
  { replace 32%nat with (N.to_nat c + (1 + (31 - N.to_nat c)))%nat by lia.
    rewrite rankf_add, (rankf_add _ 1). cbn [rankf]. replace (0 + N.of_nat (N.to_nat c)) with c by lia.
    rewrite Ht. replace (c + N.of_nat 1) with (c + 1) by lia. lia. }
  destruct (N.eqb_spec bm (2 ^ c)) as [E|E].
  - symmetry. apply Nat.eqb_eq. rewrite R. rewrite !rankf_false; [reflexivity| |].
    + intros x H1 H2. rewrite E, N.pow2_bits_false by lia. reflexivity.
    + intros x H1 H2. rewrite E, N.pow2_bits_false by lia. reflexivity.
  - symmetry. apply Nat.eqb_neq. intros H1. apply E. apply N.bits_inj. intros i.
    rewrite N.pow2_bits_eqb. destruct (N.eqb_spec c i) as [<-|Hne]; [exact Ht|].
    destruct (N.testbit bm i) eqn:Hi; [exfalso|reflexivity].
    assert (Hi32 : i < 32).
    { destruct (N.lt_ge_cases i 32) as [L|L]; [exact L|].
      rewrite (proj1 (lt_pow2_bits bm 32) Hbm i L) in Hi. discriminate. }
    destruct (N.lt_ge_cases i c) as [L|L].
    + assert (0 < rankf (N.testbit bm) (N.to_nat c) 0)%nat; [|lia].
      pose proof (rankf_lt (N.testbit bm) (N.to_nat c) 0 (N.to_nat i) ltac:(lia)) as Q.
      replace (0 + N.of_nat (N.to_nat i)) with i in Q by lia. specialize (Q Hi). lia.
    + assert (0 < rankf (N.testbit bm) (31 - N.to_nat c) (c + 1))%nat; [|lia].
      pose proof (rankf_lt (N.testbit bm) (31 - N.to_nat c) (c + 1) (N.to_nat (i - c - 1)) ltac:(lia)) as Q.
      replace (c + 1 + N.of_nat (N.to_nat (i - c - 1))) with i in Q by lia. specialize (Q Hi). lia.
Qed.
