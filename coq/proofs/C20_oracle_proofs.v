(* C20 -- the oracle evaluated on the implementation's observations is sound for
   the property stated as a proposition. *)
From verif Require Import lib.Base model.C20_Peach model.C20.
From Coq Require Import Permutation Arith.
Open Scope nat_scope.

Lemma ms_eqb_sound a b : ms_eqb a b = true -> Permutation a b.
Proof.
  intros H. apply (Permutation_count_occ N.eq_dec). intros x.
  unfold ms_eqb in H. rewrite forallb_forall in H.
  destruct (in_dec N.eq_dec x (a ++ b)) as [Hin|Hn].
  - specialize (H x Hin). apply Nat.eqb_eq in H. exact H.
  - rewrite in_app_iff in Hn.
    assert (Ha : ~ In x a) by tauto. assert (Hb : ~ In x b) by tauto.
    apply (count_occ_not_In N.eq_dec) in Ha. apply (count_occ_not_In N.eq_dec) in Hb.
    congruence.
Qed.

Lemma nat_list_eqb_eq a b : nat_list_eqb a b = true -> a = b.
Proof. apply list_eqb_spec. intros; apply Nat.eqb_eq. Qed.

Lemma N_list_eqb_eq a b : list_eqb N.eqb a b = true -> a = b.
Proof. apply list_eqb_spec. intros; apply N.eqb_eq. Qed.

Lemma forallb_seq (p : nat -> bool) n :
  forallb p (seq 0 n) = true -> forall i, i < n -> p i = true.
Proof. intros H i Hi. rewrite forallb_forall in H. apply H. apply in_seq. lia. Qed.

Lemma no_breaker_complete cbs :
  (forall i, i < length cbs -> is_breaker (cb_kind (cb_of cbs i)) = false) -> no_breaker cbs = true.
Proof.
  intros H. unfold no_breaker. apply forallb_forall. intros r Hin.
  destruct (In_nth cbs r (mkCb [] KNormal) Hin) as (i & Hi & Hn).
  specialize (H i Hi). unfold cb_of in H. rewrite Hn in H. now rewrite H.
Qed.

(* the property of peach, on one observation *)
Definition Spec_peach (b : option nat) (cbs : list cbres) (o : pobs) (eo : option pobs) : Prop :=
  let n := length cbs in
  length (o_calls o) = n
  (* at most once per input *)
  /\ (forall i, i < n -> nth i (o_calls o) 0 <= 1)
  (* exactly once when no callback breaks or fails *)
  /\ ((forall i, i < n -> is_breaker (cb_kind (cb_of cbs i)) = false) ->
      forall i, i < n -> nth i (o_calls o) 0 = 1)
  (* never more at once than the bound *)
  /\ (forall k, b = Some k -> o_maxrun o <= k)
  (* outputs = union of the outputs of the callbacks that ran *)
  /\ Permutation (o_out o) (outs_of_called cbs (o_calls o))
  (* returned only after every started callback finished *)
  /\ o_late o = false
  (* every callback exception reported *)
  /\ Permutation (o_errs o) (fails_of_called cbs (o_calls o))
  (* bound 1: exactly like each on the same callbacks *)
  /\ (b = Some 1 -> forall e, eo = Some e ->
      o_calls o = o_calls e /\ o_out o = o_out e /\ Permutation (o_errs o) (o_errs e)).

Lemma check_peach_sound b cbs o eo : check_peach b cbs o eo = true -> Spec_peach b cbs o eo.
Proof.
  unfold check_peach, Spec_peach. intros H.
  repeat (apply andb_true_iff in H as (H & ?)).
  repeat apply conj.
  - now apply Nat.eqb_eq.
  - intros i Hi. apply Nat.leb_le. now apply (forallb_seq _ _ H6).
  - intros Hnb i Hi. rewrite (no_breaker_complete cbs Hnb) in H5.
    apply Nat.eqb_eq. now apply (forallb_seq _ _ H5).
  - intros k ->. now apply Nat.leb_le.
  - now apply ms_eqb_sound.
  - now apply negb_true_iff.
  - now apply ms_eqb_sound.
  - intros -> e ->. cbn in H0.
    repeat (apply andb_true_iff in H0 as (H0 & ?)).
    repeat split; [now apply nat_list_eqb_eq|now apply N_list_eqb_eq|now apply ms_eqb_sound].
Qed.

(* run-parallel: every function exactly once, all their exceptions reported,
   returned after all finished *)
Definition Spec_runpar (fs : list cbres) (o : pobs) : Prop :=
  length (o_calls o) = length fs
  /\ (forall i, i < length fs -> nth i (o_calls o) 0 = 1)
  /\ Permutation (o_errs o) (flat_map (fun r => fail_of (cb_kind r)) fs)
  /\ o_late o = false.

Lemma check_runpar_sound fs o : check_runpar fs o = true -> Spec_runpar fs o.
Proof.
  unfold check_runpar, Spec_runpar. intros H.
  repeat (apply andb_true_iff in H as (H & ?)).
  repeat apply conj.
  - now apply Nat.eqb_eq.
  - intros i Hi. apply Nat.eqb_eq. now apply (forallb_seq _ _ H2).
  - now apply ms_eqb_sound.
  - now apply negb_true_iff.
Qed.
