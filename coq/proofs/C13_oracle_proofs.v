(* C13 — proofs, part 4: the model's own result passes the oracle on every
   operation (the model satisfies the specification for all inputs). *)
From verif Require Import lib.Base lib.Utf8 model.C13
  proofs.C13_convert_proofs proofs.C13_proofs proofs.C13_runes_proofs proofs.C13_string_proofs.
Open Scope Z_scope.

Lemma list_set_replaced_at l k v : 0 <= k < zlen l ->
  list_set l (Z.to_nat k) v = replaced_at l k v.
Proof.
  intros Hk. destruct (replaced_at_spec l k v Hk) as (L & S & O).
  apply nth_error_ext_eq. intros j.
  destruct (Nat.eq_dec j (Z.to_nat k)) as [->|Ne].
  - rewrite S. apply list_set_same. unfold zlen in Hk. lia.
  - rewrite O by assumption. apply list_set_other. assumption.
Qed.

Theorem model_meets_oracle_convert : forall n raw, in_int_range n ->
  check_C13 (OpConvert n raw) (run_op (OpConvert n raw)) = true.
Proof.
  intros n raw Hn. cbn [check_C13 run_op].
  pose proof (convert_matches_ref n raw Hn) as C.
  destruct (ConvertListIndex raw n) as [[[[] lo] hi]|e]; cbn [to_ref] in C; rewrite <- C.
  - rewrite !Z.eqb_refl. apply orb_true_r.
  - rewrite Z.eqb_refl. apply orb_true_r.
  - apply orb_true_r.
Qed.

Theorem model_meets_oracle_index_list : forall l raw, zlen l <= MaxInt ->
  check_C13 (OpIndexList l raw) (run_op (OpIndexList l raw)) = true.
Proof.
  intros l raw Hlen. cbn [check_C13 run_op].
  pose proof (index_list_ref l raw Hlen) as H.
  destruct (ref_index (zlen l) raw) as [k|lo hi|].
  - destruct H as (x & E & Nx). rewrite E.
    rewrite (nth_error_nth_default _ _ _ Nx). rewrite N.eqb_refl. apply orb_true_r.
  - destruct H as (E & H1 & H2). rewrite E.
    change (firstn (Z.to_nat (hi - lo)) (skipn (Z.to_nat lo) l)) with (sub_list l lo hi).
    rewrite (elems_between_sub_list l lo hi H1 H2), listN_eqb_refl. apply orb_true_r.
  - destruct H as [e E]. rewrite E. apply orb_true_r.
Qed.

Theorem model_meets_oracle_assoc_list : forall l raw v, zlen l <= MaxInt ->
  check_C13 (OpAssocList l raw v) (run_op (OpAssocList l raw v)) = true.
Proof.
  intros l raw v Hlen. cbn [check_C13 run_op].
  assert (in_int_range (zlen l)) as Hn by (unfold in_int_range, zlen in *; lia).
  pose proof (convert_matches_ref (zlen l) raw Hn) as C.
  destruct (ref_index (zlen l) raw) as [k|lo hi|] eqn:R.
  - destruct (to_ref_index _ _ C) as [u E]. unfold assocList. rewrite E. cbn [bind].
    rewrite (list_set_replaced_at l k v (ref_index_index_range _ _ _ R)), listN_eqb_refl.
    apply orb_true_r.
  - apply orb_true_r.
  - destruct (to_ref_error _ C) as [e E]. unfold assocList. rewrite E. apply orb_true_r.
Qed.

Theorem model_meets_oracle_index_str : forall rs s raw, zlen s <= MaxInt ->
  check_C13 (OpIndexStr (Some rs) s raw) (run_op (OpIndexStr (Some rs) s raw)) = true.
Proof.
  intros rs s raw Hlen. cbn [check_C13 run_op].
  destruct (valid_text rs s) eqn:VT; [|reflexivity]. cbn [negb orb].
  unfold valid_text in VT. apply andb_true_iff in VT as [G VT]. apply bytes_eqb_spec in VT. subst s.
  pose proof (index_string_ref rs raw G Hlen) as H. cbv zeta in H.
  destruct (ref_string_range rs (encode_all rs) raw) as [[lo hi]|].
  - rewrite H. change (firstn (Z.to_nat (hi - lo)) (skipn (Z.to_nat lo) (encode_all rs)))
      with (sub_list (encode_all rs) lo hi). rewrite bytes_eqb_refl. apply orb_true_r.
  - destruct H as [e E]. rewrite E. apply orb_true_r.
Qed.

Theorem model_meets_oracle_assoc_str : forall rs s raw rp, zlen s <= MaxInt ->
  check_C13 (OpAssocStr (Some rs) s raw (Some rp)) (run_op (OpAssocStr (Some rs) s raw (Some rp))) = true.
Proof.
  intros rs s raw rp Hlen. cbn [check_C13 run_op].
  destruct (valid_text rs s) eqn:VT; [|reflexivity]. cbn [negb orb].
  unfold valid_text in VT. apply andb_true_iff in VT as [G VT]. apply bytes_eqb_spec in VT. subst s.
  pose proof (assoc_string_frame rs raw rp G Hlen) as H. cbv zeta in H.
  destruct (ref_string_range rs (encode_all rs) raw) as [[lo hi]|].
  - rewrite H. rewrite bytes_eqb_refl. apply orb_true_r.
  - destruct H as [e E]. rewrite E. apply orb_true_r.
Qed.
