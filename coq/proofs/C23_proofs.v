(* C23 — proofs about matching one path element: the declarative specification
   [Matches]/[ElemMatches], the reference matcher [rmatch] is equivalent to it,
   the greedy matcher [matchElement] is sound for it (weakly without conditions,
   strictly when the hidden flags are uniform) and complete when every star is
   unrestricted. *)
From verif Require Import lib.Base lib.Utf8 model.C23.
Open Scope nat_scope.

(* ------------------------------------------------------------------ *)
(* small facts *)

Lemma is_nil_true {A} (l : list A) : is_nil l = true <-> l = [].
Proof. destruct l; simpl; split; intros H; try reflexivity; discriminate. Qed.

Lemma strip_prefix_spec d name r : strip_prefix d name = Some r <-> name = d ++ r.
Proof.
  revert name; induction d as [|x d IH]; intros name; simpl.
  - split; intros H; [inversion H|subst]; reflexivity.
  - destruct name as [|y n']; [split; intros H; discriminate|].
    destruct (N.eqb x y) eqn:E.
    + apply N.eqb_eq in E; subst y. rewrite IH. split; intros H; [subst|inversion H]; reflexivity.
    + apply N.eqb_neq in E. split; intros H; [discriminate|inversion H; congruence].
Qed.

Lemma strip_prefix_app d r : strip_prefix d (d ++ r) = Some r.
Proof. apply strip_prefix_spec; reflexivity. Qed.

Lemma star_ty (w : wild) : is_star (Wild w) = true <-> w_ty w <> Question.
Proof. simpl; destruct (w_ty w); split; intros H; try reflexivity; try discriminate; congruence. Qed.

Lemma nonstar_ty (w : wild) : is_star (Wild w) = false <-> w_ty w = Question.
Proof. simpl; destruct (w_ty w); split; intros H; try reflexivity; discriminate. Qed.

(* ------------------------------------------------------------------ *)
Section Elem.
Variable decode : bytes -> N * nat.

(* the specification of matching one path element *)
Definition WildOk (st : bool) (w : wild) (name : bytes) (r : N) : Prop :=
  wmatch w r = true /\ (st = true -> first_byte_dot name = true -> w_hidden w = true).

(* [st]: nothing of the name has been consumed yet *)
Inductive Matches : bool -> list seg -> bytes -> Prop :=
| M_nil st : Matches st [] []
| M_lit st d tl rest : d <> [] -> Matches false tl rest -> Matches st (Lit d :: tl) (d ++ rest)
| M_q st w tl name r n :
    w_ty w = Question -> name <> [] -> decode name = (r, n) -> WildOk st w name r ->
    Matches false tl (skipn n name) -> Matches st (Wild w :: tl) name
| M_star0 st w tl name :
    w_ty w <> Question -> Matches st tl name -> Matches st (Wild w :: tl) name
| M_starS st w tl name r n :
    w_ty w <> Question -> name <> [] -> decode name = (r, n) -> WildOk st w name r ->
    Matches false (Wild w :: tl) (skipn n name) -> Matches st (Wild w :: tl) name.

Definition HiddenBlocked (segs : list seg) (name : bytes) : Prop :=
  first_byte_dot name = true /\ exists w tl, segs = Wild w :: tl /\ w_hidden w = false.

(* strict: no wildcard without match-hidden consumes the leading dot, and a
   name with a leading dot is not matched by an element that starts with a
   wildcard without match-hidden *)
Definition ElemMatches (segs : list seg) (name : bytes) : Prop :=
  ~ HiddenBlocked segs name /\ Matches true segs name.

(* weak: only the first-segment rule *)
Definition ElemMatches0 (segs : list seg) (name : bytes) : Prop :=
  ~ HiddenBlocked segs name /\ Matches false segs name.

Lemma hidden_block_spec segs name : hidden_block segs name = true <-> HiddenBlocked segs name.
Proof.
  unfold hidden_block, HiddenBlocked. split.
  - intros H. apply andb_true_iff in H as [H1 H2]. split; [exact H1|].
    destruct segs as [|[d| |w] tl]; try discriminate. exists w, tl. split; [reflexivity|].
    destruct (w_hidden w); [discriminate|reflexivity].
  - intros [H1 (w & tl & -> & Hh)]. rewrite H1, Hh. reflexivity.
Qed.

Lemma hidden_block_false segs name : hidden_block segs name = false <-> ~ HiddenBlocked segs name.
Proof.
  rewrite <- hidden_block_spec. destruct (hidden_block segs name); split; intros H;
    try reflexivity; try discriminate; try congruence; try (exfalso; apply H; reflexivity).
Qed.

Lemma wild_ok_spec st w name r : wild_ok st w name r = true <-> WildOk st w name r.
Proof.
  unfold wild_ok, WildOk. rewrite andb_true_iff, orb_true_iff, negb_true_iff, andb_false_iff.
  split; intros [H1 H2]; (split; [exact H1|]).
  - intros -> Hd. destruct H2 as [[H2|H2]|H2]; [discriminate|congruence|exact H2].
  - destruct st; [|left; left; reflexivity].
    destruct (first_byte_dot name); [|left; right; reflexivity]. right; apply H2; reflexivity.
Qed.

Lemma WildOk_false w name r : wmatch w r = true -> WildOk false w name r.
Proof. intros H; split; [exact H|discriminate]. Qed.

Lemma Matches_weaken st segs name : Matches st segs name -> Matches false segs name.
Proof.
  intros H; induction H.
  - constructor.
  - constructor; assumption.
  - eapply M_q; eauto. apply WildOk_false, H2.
  - apply M_star0; assumption.
  - eapply M_starS; eauto. apply WildOk_false, H2.
Qed.

Lemma ElemMatches_weaken segs name : ElemMatches segs name -> ElemMatches0 segs name.
Proof. intros [H1 H2]; split; [exact H1|eapply Matches_weaken; exact H2]. Qed.

(* if the name has no leading dot the flag is irrelevant *)
Lemma Matches_nodot st st' segs name :
  Matches st segs name -> first_byte_dot name = false -> Matches st' segs name.
Proof.
  intros H; revert st'; induction H; intros st' Hd.
  - constructor.
  - constructor; assumption.
  - eapply M_q; eauto. split; [apply H2|]. intros _ Hx; congruence.
  - apply M_star0; [assumption|]. apply IHMatches, Hd.
  - eapply M_starS; eauto. split; [apply H2|]. intros _ Hx; congruence.
Qed.

Definition wild_hidden (s : seg) : Prop := match s with Wild w => w_hidden w = true | _ => True end.

(* if every wildcard carries match-hidden the flag is irrelevant *)
Lemma Matches_allhidden st st' segs name :
  Forall wild_hidden segs -> Matches st segs name -> Matches st' segs name.
Proof.
  intros Ha H; revert st'; induction H; intros st'.
  - constructor.
  - constructor; assumption.
  - eapply M_q; eauto. split; [apply H2|]. intros _ _. inversion Ha; assumption.
  - apply M_star0; [assumption|]. apply IHMatches. inversion Ha; assumption.
  - eapply M_starS; eauto. split; [apply H2|]. intros _ _. inversion Ha; assumption.
Qed.

(* no wildcard is a Star/StarStar carrying match-hidden *)
Definition no_hidden_star (s : seg) : Prop :=
  match s with Wild w => w_ty w = Question \/ w_hidden w = false | _ => True end.

Lemma ElemMatches0_strict segs name :
  Forall wild_hidden segs \/ Forall no_hidden_star segs ->
  ElemMatches0 segs name -> ElemMatches segs name.
Proof.
  intros Hc [Hb Hm]. split; [exact Hb|].
  destruct Hc as [Hc|Hc]; [eapply Matches_allhidden; eassumption|].
  destruct (first_byte_dot name) eqn:Hd; [|eapply Matches_nodot; eassumption].
  inversion Hm; subst.
  - discriminate.
  - constructor; assumption.
  - eapply M_q; eauto. split; [apply H2|]. intros _ _.
    destruct (w_hidden w) eqn:Hh; [reflexivity|]. exfalso; apply Hb. split; [exact Hd|]. eauto.
  - exfalso. inversion Hc as [|? ? Hw _]; subst. simpl in Hw. destruct Hw as [Hw|Hw]; [congruence|].
    apply Hb. split; [exact Hd|]. eauto.
  - exfalso. inversion Hc as [|? ? Hw _]; subst. simpl in Hw. destruct Hw as [Hw|Hw]; [congruence|].
    apply Hb. split; [exact Hd|]. eauto.
Qed.

(* ------------------------------------------------------------------ *)
(* the reference matcher decides [Matches] *)

Hypothesis decode_progress : forall s, s <> [] -> 1 <= snd (decode s) <= length s.

Lemma skipn_decode_shorter name r n :
  name <> [] -> decode name = (r, n) -> length (skipn n name) < length name.
Proof.
  intros Hne Hd. pose proof (decode_progress name Hne) as Hp. rewrite Hd in Hp. simpl in Hp.
  rewrite skipn_length. assert (length name > 0) by (destruct name; [congruence|simpl; lia]). lia.
Qed.

Definition star_loop_ref (w : wild) (tl : list seg) :=
  fix loop (fuel : nat) (st : bool) (name : bytes) {struct fuel} : bool :=
    rmatch decode tl st name ||
    match fuel with
    | O => false
    | S f =>
      match name with
      | [] => false
      | _ => let '(r, n) := decode name in
             wild_ok st w name r && loop f false (skipn n name)
      end
    end.

Lemma rmatch_star w tl st name : w_ty w <> Question ->
  rmatch decode (Wild w :: tl) st name = star_loop_ref w tl (length name) st name.
Proof. intros H. simpl. destruct (w_ty w); [congruence|reflexivity|reflexivity]. Qed.

Lemma rmatch_sound segs : forall st name, rmatch decode segs st name = true -> Matches st segs name.
Proof.
  induction segs as [|s tl IH]; intros st name H.
  - simpl in H. apply is_nil_true in H; subst. constructor.
  - destruct s as [d| |w].
    + simpl in H. apply andb_true_iff in H as [Hd H].
      destruct (strip_prefix d name) as [r|] eqn:E; [|discriminate].
      apply strip_prefix_spec in E; subst. constructor; [|apply IH, H].
      intros ->; discriminate.
    + discriminate.
    + destruct (w_ty w) eqn:Ety.
      * simpl in H. rewrite Ety in H. destruct name as [|c nm]; [discriminate|].
        destruct (decode (c :: nm)) as [r n] eqn:Ed.
        apply andb_true_iff in H as [H1 H2]. eapply M_q; eauto; [discriminate|apply wild_ok_spec, H1].
      * rewrite rmatch_star in H by congruence.
        assert (Hs : w_ty w <> Question) by congruence. clear Ety.
        remember (length name) as fuel eqn:Ef. clear Ef.
        revert st name H; induction fuel as [|f IHf]; intros st name H; simpl in H.
        -- rewrite orb_false_r in H. apply M_star0; [exact Hs|apply IH, H].
        -- apply orb_true_iff in H as [H|H]; [apply M_star0; [exact Hs|apply IH, H]|].
           destruct name as [|c nm]; [discriminate|].
           destruct (decode (c :: nm)) as [r n] eqn:Ed.
           apply andb_true_iff in H as [H1 H2].
           eapply M_starS; eauto; [discriminate|apply wild_ok_spec, H1].
      * rewrite rmatch_star in H by congruence.
        assert (Hs : w_ty w <> Question) by congruence. clear Ety.
        remember (length name) as fuel eqn:Ef. clear Ef.
        revert st name H; induction fuel as [|f IHf]; intros st name H; simpl in H.
        -- rewrite orb_false_r in H. apply M_star0; [exact Hs|apply IH, H].
        -- apply orb_true_iff in H as [H|H]; [apply M_star0; [exact Hs|apply IH, H]|].
           destruct name as [|c nm]; [discriminate|].
           destruct (decode (c :: nm)) as [r n] eqn:Ed.
           apply andb_true_iff in H as [H1 H2].
           eapply M_starS; eauto; [discriminate|apply wild_ok_spec, H1].
Qed.

Lemma rmatch_complete st segs name : Matches st segs name -> rmatch decode segs st name = true.
Proof.
  intros H; induction H.
  - reflexivity.
  - simpl. rewrite strip_prefix_app, IHMatches. destruct d; [congruence|reflexivity].
  - simpl. rewrite H. destruct name as [|c nm]; [congruence|]. rewrite H1.
    apply wild_ok_spec in H2. rewrite H2, IHMatches. reflexivity.
  - rewrite rmatch_star by assumption. destruct (length name); simpl; rewrite IHMatches; reflexivity.
  - rewrite rmatch_star by assumption. rewrite rmatch_star in IHMatches by assumption.
    pose proof (skipn_decode_shorter _ _ _ H0 H1) as Hlen.
    (* more fuel is harmless *)
    assert (Hmono : forall f1 f2 st' nm, f1 <= f2 -> star_loop_ref w tl f1 st' nm = true ->
                                         star_loop_ref w tl f2 st' nm = true).
    { induction f1 as [|f1 IHf]; intros f2 st' nm Hle Ht.
      - simpl in Ht. rewrite orb_false_r in Ht. destruct f2; simpl; rewrite Ht; reflexivity.
      - destruct f2 as [|f2]; [lia|]. simpl in Ht |- *.
        apply orb_true_iff in Ht as [Ht|Ht]; [rewrite Ht; reflexivity|].
        apply orb_true_iff; right. destruct nm as [|c nm]; [discriminate|].
        destruct (decode (c :: nm)) as [r' n'].
        apply andb_true_iff in Ht as [Ht1 Ht2]. rewrite Ht1. simpl.
        apply IHf; [lia|exact Ht2]. }
    destruct (length name) as [|f] eqn:El; [lia|]. simpl.
    apply orb_true_iff; right. destruct name as [|c nm]; [congruence|]. rewrite H1.
    apply wild_ok_spec in H2. rewrite H2. simpl.
    eapply Hmono; [|exact IHMatches]. lia.
Qed.

Lemma ref_elem_spec segs name : ref_elem decode segs name = true <-> ElemMatches segs name.
Proof.
  unfold ref_elem, ElemMatches. destruct segs as [|s tl].
  - split.
    + intros H. apply is_nil_true in H; subst. split; [|constructor].
      intros [_ (w & tl & E & _)]; discriminate.
    + intros [_ H]. inversion H. reflexivity.
  - rewrite andb_true_iff, negb_true_iff, hidden_block_false. split; intros [H1 H2]; (split; [exact H1|]).
    + apply rmatch_sound, H2.
    + apply rmatch_complete, H2.
Qed.

(* ------------------------------------------------------------------ *)
(* the greedy matcher: chunks *)

Definition unchunk (cs : list (option wild * list seg)) : list seg :=
  flat_map (fun c : option wild * list seg =>
              (match fst c with Some w => [Wild w] | None => @nil seg end) ++ snd c) cs.

Definition fixed_ok (fx : list seg) : Prop := Forall (fun s => is_star s = false) fx.

Definition chunk_ok (c : option wild * list seg) : Prop :=
  fixed_ok (snd c) /\ match fst c with Some w => w_ty w <> Question | None => True end.

Lemma split_chunks_spec segs :
  let '(fx, cs) := split_chunks segs in
  segs = fx ++ unchunk (map (fun c => (Some (fst c), snd c)) cs)
  /\ fixed_ok fx /\ Forall chunk_ok (map (fun c => (Some (fst c), snd c)) cs).
Proof.
  induction segs as [|s tl IH]; simpl.
  - repeat split; constructor.
  - destruct (split_chunks tl) as [fx cs]. destruct IH as (E & Hf & Hc).
    assert (Hns : is_star s = false ->
      s :: tl = (s :: fx) ++ unchunk (map (fun c => (Some (fst c), snd c)) cs) /\
      fixed_ok (s :: fx) /\ Forall chunk_ok (map (fun c => (Some (fst c), snd c)) cs)).
    { intros Hs. repeat split; [simpl; congruence|constructor; assumption|exact Hc]. }
    destruct s as [d| |w]; try (apply Hns; reflexivity).
    destruct (is_star (Wild w)) eqn:Hs; [|apply Hns; reflexivity].
    repeat split.
    + simpl. unfold unchunk in E. rewrite E at 1. reflexivity.
    + constructor.
    + constructor; [|exact Hc]. split; [exact Hf|]. simpl. apply star_ty, Hs.
Qed.

Lemma chunks_spec segs :
  unchunk (chunks segs) = segs /\ Forall chunk_ok (chunks segs)
  /\ (forall st fx tl, chunks segs = (st, fx) :: tl ->
        Forall (fun c => exists w, fst c = Some w) tl).
Proof.
  unfold chunks. pose proof (split_chunks_spec segs) as H.
  destruct (split_chunks segs) as [fx cs]. destruct H as (E & Hf & Hc).
  assert (Hall : Forall (fun c : option wild * list seg => exists w, fst c = Some w)
                        (map (fun c : wild * list seg => (Some (fst c), snd c)) cs)).
  { apply Forall_forall. intros c Hin. apply in_map_iff in Hin as (x & <- & _). simpl; eauto. }
  destruct fx as [|s fx'].
  - simpl in E. repeat split; [congruence|exact Hc|].
    intros st fx tl Heq. rewrite Heq in Hall. inversion Hall; assumption.
  - repeat split.
    + unfold unchunk in *. simpl. simpl in E. rewrite E. reflexivity.
    + constructor; [|exact Hc]. split; [exact Hf|exact I].
    + intros st fx tl Heq. inversion Heq; subst. exact Hall.
Qed.

Definition no_empty_lit (segs : list seg) : Prop := Forall (fun s => s <> Lit []) segs.

Lemma matchFixed_sound fx : fixed_ok fx -> no_empty_lit fx ->
  forall name rest tl, matchFixed decode fx name = Some rest ->
  Matches false tl rest -> Matches false (fx ++ tl) name.
Proof.
  induction fx as [|s fx IH]; intros Hf Hn name rest tl H Hm.
  - simpl in H. inversion H; subst. exact Hm.
  - inversion Hf as [|? ? Hs Hf']; subst. inversion Hn as [|? ? Hs2 Hn']; subst.
    simpl in H. destruct name as [|c nm]; [discriminate|].
    destruct s as [d| |w].
    + destruct (strip_prefix d (c :: nm)) as [r|] eqn:E; [|discriminate].
      apply strip_prefix_spec in E. rewrite E. simpl. constructor; [congruence|].
      eapply IH; eauto.
    + discriminate.
    + destruct (decode (c :: nm)) as [r n] eqn:Ed.
      destruct (wmatch w r) eqn:Ew; [|discriminate].
      simpl. eapply M_q; eauto; [apply nonstar_ty, Hs|discriminate|apply WildOk_false, Ew].
Qed.

Lemma accept_some last r rest : accept last r = Some rest ->
  r = Some rest /\ (last = true -> rest = []).
Proof.
  unfold accept. destruct r as [x|]; [|discriminate].
  destruct (is_nil x || negb last) eqn:E; [|discriminate]. intros H; inversion H; subst.
  split; [reflexivity|]. intros ->. simpl in E. rewrite orb_false_r in E. apply is_nil_true, E.
Qed.

Lemma star_loop_sound w fx last : w_ty w <> Question -> fixed_ok fx -> no_empty_lit fx ->
  forall fuel name rest tl, star_loop decode fuel w fx last name = Some rest ->
  Matches false tl rest ->
  Matches false (Wild w :: fx ++ tl) name /\ (last = true -> rest = []).
Proof.
  intros Hw Hf Hn. induction fuel as [|f IH]; intros name rest tl H Hm; [discriminate|].
  simpl in H. destruct name as [|c nm]; [discriminate|].
  destruct (decode (c :: nm)) as [r n] eqn:Ed.
  destruct (wmatch w r) eqn:Ew; [|discriminate].
  destruct (accept last (matchFixed decode fx (skipn n (c :: nm)))) as [rest'|] eqn:Ea.
  - inversion H; subst rest'. apply accept_some in Ea as [Ea Hl]. split; [|exact Hl].
    eapply M_starS; eauto; [discriminate|apply WildOk_false, Ew|].
    apply M_star0; [exact Hw|]. eapply matchFixed_sound; eauto.
  - destruct (IH _ _ _ H Hm) as [IH1 IH2]. split; [|exact IH2].
    eapply M_starS; eauto; [discriminate|apply WildOk_false, Ew].
Qed.

Lemma match_chunks_sound cs : Forall chunk_ok cs -> no_empty_lit (unchunk cs) ->
  forall name, match_chunks decode cs name = true -> Matches false (unchunk cs) name.
Proof.
  induction cs as [|[st fx] tl IH]; intros Hc Hn name H.
  - simpl in H. apply is_nil_true in H; subst. constructor.
  - inversion Hc as [|? ? [Hf Hst] Hc']; subst. simpl in Hf, Hst.
    unfold unchunk in Hn. simpl in Hn. fold (unchunk tl) in Hn.
    unfold no_empty_lit in Hn. rewrite !Forall_app in Hn. destruct Hn as [[_ Hn1] Hn2].
    simpl in H.
    destruct (accept (is_nil tl) (matchFixed decode fx name)) as [rest|] eqn:Ea.
    + apply accept_some in Ea as [Ea _].
      assert (Hm : Matches false (fx ++ unchunk tl) name).
      { eapply matchFixed_sound; eauto. }
      unfold unchunk; simpl; fold (unchunk tl). destruct st as [w|]; simpl; [|exact Hm].
      apply M_star0; assumption.
    + destruct st as [w|]; [|discriminate].
      destruct (star_loop decode (length name) w fx (is_nil tl) name) as [rest|] eqn:El; [|discriminate].
      unfold unchunk; simpl; fold (unchunk tl).
      eapply star_loop_sound; eauto.
Qed.

(* soundness of the greedy matcher for the weak specification *)
Lemma match_element_sound_weak segs name : no_empty_lit segs ->
  matchElement decode segs name = true -> ElemMatches0 segs name.
Proof.
  intros Hn H. unfold matchElement in H. destruct segs as [|s tl].
  - apply is_nil_true in H; subst. split; [|constructor].
    intros [_ (w & tl & E & _)]; discriminate.
  - destruct (hidden_block (s :: tl) name) eqn:Hb; [discriminate|].
    split; [apply hidden_block_false, Hb|].
    destruct (chunks_spec (s :: tl)) as (E & Hc & _).
    rewrite <- E. apply match_chunks_sound; [exact Hc|rewrite E; exact Hn|exact H].
Qed.

(* strict soundness when the hidden flags cannot be mixed the bad way *)
Lemma match_element_sound_partial segs name : no_empty_lit segs ->
  Forall wild_hidden segs \/ Forall no_hidden_star segs ->
  matchElement decode segs name = true -> ElemMatches segs name.
Proof.
  intros Hn Hc H. apply ElemMatches0_strict; [exact Hc|]. apply match_element_sound_weak; assumption.
Qed.

End Elem.
