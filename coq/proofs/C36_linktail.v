(* C36: parseLinkTail (formatLinkTail dest title) = (everything, dest, title),
   for all destinations and titles. *)
From Coq Require Import Arith.
From verif Require Import lib.Base lib.ListX model.C35_Bal model.C35_Inline model.C36
  proofs.C36_proofs proofs.C36_inert.
Open Scope N_scope.

(* ---------- leadingCharRef depends only on the reference bytes ---------- *)
Lemma crl_body_single h : crl_body [h] = 0%nat.
Proof.
  unfold crl_body. cbv zeta. simpl span. destruct (is_alnum h); simpl; unfold nth_is; simpl.
  - reflexivity.
  - reflexivity.
Qed.

Lemma crl_tail p u : forallb refchar p = true -> stops u -> crl_body (p ++ u) = crl_body p.
Proof.
  intros Hp Hu. destruct p as [|h [|c p']].
  - simpl. destruct u as [|x u]; [reflexivity|]. rewrite crl_body_stop; [reflexivity|exact Hu|discriminate].
  - destruct u as [|x u]; [reflexivity|]. rewrite crl_body_single.
    pose proof (crl_prefix [h] (x :: u) (x :: u) Hp Hu Hu (conj (fun e => e) (fun e => e))) as _.
    simpl app. simpl in Hu. unfold crl_body.
    assert (NX : (x =? 120) || (x =? 88) = false /\ is_digit x = false /\ is_alnum x = false /\ (x =? 59) = false).
    { unfold refchar in Hu. apply orb_false_iff in Hu as [Hy H59]. apply orb_false_iff in Hy as [Hal _].
      repeat split; auto.
      - destruct (x =? 120) eqn:E; [apply N.eqb_eq in E; subst; discriminate|].
        destruct (x =? 88) eqn:E2; [apply N.eqb_eq in E2; subst; discriminate|reflexivity].
      - unfold is_alnum in Hal. apply orb_false_iff in Hal. tauto. }
    destruct NX as (X1 & X2 & X3 & X4).
    destruct (h =? 35).
    + rewrite X1. cbv zeta. simpl span. rewrite X2. reflexivity.
    + cbv zeta. simpl span. destruct (is_alnum h); simpl; rewrite ?X3; simpl; unfold nth_is; simpl; rewrite ?X4; reflexivity.
  - rewrite <- (app_nil_r (h :: c :: p')) at 2.
    change ((h :: c :: p') ++ u) with (h :: c :: p' ++ u). change ((h :: c :: p') ++ []) with (h :: c :: p' ++ []).
    unfold crl_body. destruct (h =? 35).
    + destruct ((c =? 120) || (c =? 88)).
      * apply (branch_eq is_hex 1 6 4 p' u []); auto using hex_ref. exact I.
      * apply (branch_eq is_digit 1 7 3 (c :: p') u []); auto using digit_ref. exact I.
    + apply (branch_eq2 is_alnum 1 2 (h :: c :: p') u []); auto using alnum_ref. exact I.
Qed.

(* ---------- the escaper of fmt.go in one pass ---------- *)
Fixpoint E (set : bytes) (nl : bool) (s : bytes) : bytes :=
  match s with
  | [] => []
  | c :: r =>
    if (c =? 92) || in_set set c || negb (Nat.eqb (char_ref_len s) 0) then 92 :: c :: E set nl r
    else if nl && (c =? 10) then NEWLINE_ENT ++ E set nl r
    else c :: E set nl r
  end.

Lemma E_false set s : E set false s = esc_amp_bs set s.
Proof. induction s as [|c r IH]; [reflexivity|]. cbn [E esc_amp_bs]. rewrite IH.
  destruct (_ || _ || _); reflexivity. Qed.

Lemma crl_needs_amp c r : (c =? 38) = false -> char_ref_len (c :: r) = 0%nat.
Proof. intros H. unfold char_ref_len. rewrite H. reflexivity. Qed.

Lemma E_true set s : in_set set 10 = false ->
  escape_newlines (esc_amp_bs set s) = E set true s.
Proof.
  intros H10. induction s as [|c r IH]; [reflexivity|]. cbn [E esc_amp_bs].
  destruct ((c =? 92) || in_set set c || negb (Nat.eqb (char_ref_len (c :: r)) 0)) eqn:T.
  - unfold escape_newlines in *. cbn [flat_map]. rewrite IH.
    assert (C10 : (c =? 10) = false).
    { destruct (c =? 10) eqn:E10; [|reflexivity]. apply N.eqb_eq in E10. subst c.
      rewrite H10 in T. rewrite crl_needs_amp in T by reflexivity. discriminate. }
    change (92 =? 10) with false. rewrite C10. reflexivity.
  - unfold escape_newlines in *. cbn [flat_map]. rewrite IH. cbn [andb].
    destruct (c =? 10); reflexivity.
Qed.

Definition set_ok (set : bytes) : Prop :=
  (forall c, in_set set c = true -> is_ascii_punct c = true /\ refchar c = false /\ c <> 10).

Lemma in_set_cases set c : in_set set c = true -> In c set.
Proof.
  unfold in_set. intros H. apply existsb_exists in H as (x & Hx & E). apply N.eqb_eq in E. subst. exact Hx.
Qed.

Lemma set_ok_of (set : bytes) :
  forallb (fun c => is_ascii_punct c && negb (refchar c) && negb (c =? 10)) set = true -> set_ok set.
Proof.
  intros H c Hc. apply in_set_cases in Hc. rewrite forallb_forall in H. specialize (H c Hc).
  apply andb_true_iff in H as [H H3]. apply andb_true_iff in H as [H1 H2].
  apply negb_true_iff in H2. apply negb_true_iff in H3. apply N.eqb_neq in H3. auto.
Qed.

(* the first byte the parser sees for one input byte *)
Lemma unit_head set nl c r tail : set_ok set ->
  exists h t, E set nl (c :: r) ++ tail = h :: t /\
    (h = 92 \/ h = 38 \/
     (h = c /\ t = E set nl r ++ tail /\ (c =? 92) = false /\ in_set set c = false /\ (nl = true -> (c =? 10) = false))).
Proof.
  intros Hs. cbn [E].
  destruct ((c =? 92) || in_set set c || negb (Nat.eqb (char_ref_len (c :: r)) 0)) eqn:T.
  - eexists _, _. split; [reflexivity|]. left. reflexivity.
  - apply orb_false_iff in T as [T _]. apply orb_false_iff in T as [T1 T2].
    destruct (nl && (c =? 10)) eqn:NL.
    + eexists _, _. split; [reflexivity|]. right. left. reflexivity.
    + eexists _, _. split; [reflexivity|]. right. right. repeat split; auto.
      intros ->. exact NL.
Qed.

(* the bytes after an unescaped ampersand form no reference *)
Lemma E_decomp set nl : set_ok set -> forall r tail, stops tail ->
  exists p u u', r = p ++ u /\ E set nl r ++ tail = p ++ u' /\ forallb refchar p = true /\ stops u /\ stops u'.
Proof.
  intros Hs. induction r as [|c r IH]; intros tail Ht.
  - exists [], [], tail. repeat split; auto.
  - destruct (refchar c) eqn:R.
    + destruct (IH tail Ht) as (p & u & u' & E1 & E2 & Hp & Hu & Hu').
      exists (c :: p), u, u'. cbn [E].
      assert (N1 : (c =? 92) = false) by (destruct (c =? 92) eqn:X; [apply N.eqb_eq in X; subst; discriminate|reflexivity]).
      assert (N2 : in_set set c = false).
      { destruct (in_set set c) eqn:X; [|reflexivity]. destruct (Hs c X) as (_ & Q & _). congruence. }
      assert (N3 : (c =? 38) = false) by (destruct (c =? 38) eqn:X; [apply N.eqb_eq in X; subst; discriminate|reflexivity]).
      assert (N4 : (c =? 10) = false) by (destruct (c =? 10) eqn:X; [apply N.eqb_eq in X; subst; discriminate|reflexivity]).
      rewrite N1, N2, (crl_needs_amp c r N3), N4. cbn [orb negb Nat.eqb andb]. rewrite andb_false_r.
      simpl. rewrite E2, R, Hp, E1. repeat split; auto.
    + destruct (unit_head set nl c r tail Hs) as (h & t & Eh & Hh).
      exists [], (c :: r), (h :: t). rewrite Eh. repeat split; auto.
      simpl. destruct Hh as [->|[->|(-> & _)]]; auto.
Qed.

Lemma amp_bare set nl r tail : set_ok set -> stops tail ->
  char_ref_len (38 :: r) = 0%nat -> char_ref_len (38 :: E set nl r ++ tail) = 0%nat.
Proof.
  intros Hs Ht H. destruct (E_decomp set nl Hs r tail Ht) as (p & u & u' & E1 & E2 & Hp & Hu & Hu').
  rewrite E2, crl_is_body, crl_tail by assumption.
  rewrite E1, crl_is_body, crl_tail in H by assumption. exact H.
Qed.

(* ---------- one parser step per input byte ---------- *)
Definition common_step (s : bytes) : bytes * bytes :=
  match s with
  | [] => ([], [])
  | c :: r =>
    if c =? 92 then let '(b, r') := parse_backslash r in ([b], r')
    else if c =? 38 then parse_charref s
    else ([c], r)
  end.

Lemma newline_ent_ref rest : parse_charref (NEWLINE_ENT ++ rest) = ([10], rest).
Proof.
  unfold parse_charref.
  assert (L : char_ref_len (NEWLINE_ENT ++ rest) = 9%nat) by reflexivity.
  rewrite L. reflexivity.
Qed.

Lemma unit_step set nl c r tail : set_ok set -> stops tail ->
  common_step (E set nl (c :: r) ++ tail) = ([c], E set nl r ++ tail).
Proof.
  intros Hs Ht. cbn [E].
  destruct ((c =? 92) || in_set set c || negb (Nat.eqb (char_ref_len (c :: r)) 0)) eqn:T.
  - assert (P : is_ascii_punct c = true).
    { apply orb_true_iff in T as [T|T]; [apply orb_true_iff in T as [T|T]|].
      - apply N.eqb_eq in T. subst. reflexivity.
      - apply Hs. exact T.
      - destruct (c =? 38) eqn:X; [apply N.eqb_eq in X; subst; reflexivity|].
        rewrite crl_needs_amp in T by exact X. discriminate. }
    simpl app. unfold common_step. change (92 =? 92) with true. cbv iota.
    unfold parse_backslash. rewrite P. reflexivity.
  - apply orb_false_iff in T as [T T3]. apply orb_false_iff in T as [T1 T2].
    apply negb_false_iff in T3. apply Nat.eqb_eq in T3.
    destruct (nl && (c =? 10)) eqn:NL.
    + apply andb_true_iff in NL as [_ NL]. apply N.eqb_eq in NL. subst c.
      rewrite <- app_assoc. unfold common_step. change (NEWLINE_ENT ++ E set nl r ++ tail) with (38 :: (tl NEWLINE_ENT) ++ E set nl r ++ tail).
      change (38 =? 92) with false. change (38 =? 38) with true. cbv iota.
      change (38 :: tl NEWLINE_ENT ++ E set nl r ++ tail) with (NEWLINE_ENT ++ E set nl r ++ tail).
      apply newline_ent_ref.
    + simpl app. unfold common_step. rewrite T1.
      destruct (c =? 38) eqn:X; [|reflexivity].
      apply N.eqb_eq in X. subst c. unfold parse_charref.
      rewrite (amp_bare set nl r tail Hs Ht T3). reflexivity.
Qed.

(* ---------- the three scanning loops take one common step per byte ---------- *)
Lemma angle_step f h t acc : (h =? 62) = false -> (h =? 10) = false -> (h =? 60) = false ->
  angle_dest (S f) (h :: t) acc =
  let '(bs, r') := common_step (h :: t) in angle_dest f r' (rev bs ++ acc).
Proof.
  intros A B C. cbn [angle_dest]. rewrite A, B, C. cbn [orb]. unfold common_step.
  destruct (h =? 92); [destruct (parse_backslash t); reflexivity|].
  destruct (h =? 38); [destruct (parse_charref (h :: t)); reflexivity|reflexivity].
Qed.

Lemma title_step f op cl h t acc : (h =? cl) = false -> (h =? op) = false ->
  title_body (S f) op cl (h :: t) acc =
  let '(bs, r') := common_step (h :: t) in title_body f op cl r' (rev bs ++ acc).
Proof.
  intros A B. cbn [title_body]. rewrite A, B. unfold common_step.
  destruct (h =? 92); [destruct (parse_backslash t); reflexivity|].
  destruct (h =? 38); [destruct (parse_charref (h :: t)); reflexivity|reflexivity].
Qed.

Lemma bare_step f h t acc bal : (32 <? h) = true -> (h =? 40) = false -> (h =? 41) = false ->
  bare_dest (S f) (h :: t) acc bal =
  let '(bs, r') := common_step (h :: t) in bare_dest f r' (rev bs ++ acc) bal.
Proof.
  intros A B C. cbn [bare_dest].
  assert (X : is_ascii_control h || (h =? 32) = false).
  { apply N.ltb_lt in A. unfold is_ascii_control.
    rewrite (proj2 (N.ltb_ge h 32)) by lia. rewrite (proj2 (N.eqb_neq h 32)) by lia. reflexivity. }
  rewrite X, B, C. unfold common_step.
  destruct (h =? 92); [destruct (parse_backslash t); reflexivity|].
  destruct (h =? 38); [destruct (parse_charref (h :: t)); reflexivity|reflexivity].
Qed.

Lemma not_in_set2 a b c : in_set [a; b] c = false -> (c =? a) = false /\ (c =? b) = false.
Proof.
  unfold in_set. simpl. intros H. apply orb_false_iff in H as [H1 H]. apply orb_false_iff in H as [H2 _].
  rewrite N.eqb_sym in H1. rewrite N.eqb_sym in H2. auto.
Qed.

Lemma set_ok_angle : set_ok [60; 62]. Proof. apply set_ok_of. reflexivity. Qed.
Lemma set_ok_nil : set_ok []. Proof. apply set_ok_of. reflexivity. Qed.

Lemma angle_roundtrip : forall d fuel acc rest, (length d < fuel)%nat ->
  angle_dest fuel (E [60; 62] true d ++ 62 :: rest) acc = Some (rev acc ++ d, rest).
Proof.
  induction d as [|c r IH]; intros fuel acc rest Hf; (destruct fuel as [|f]; [simpl in Hf; lia|]).
  - simpl. rewrite app_nil_r. reflexivity.
  - assert (St : stops (62 :: rest)) by reflexivity.
    destruct (unit_head [60; 62] true c r (62 :: rest) set_ok_angle) as (h & t & Eh & Hh).
    pose proof (unit_step [60; 62] true c r (62 :: rest) set_ok_angle St) as U.
    rewrite Eh in *.
    rewrite angle_step.
    + rewrite U. rewrite IH by (simpl in Hf; lia). simpl. rewrite <- app_assoc. reflexivity.
    + destruct Hh as [->|[->|(-> & _ & _ & S2 & _)]]; try reflexivity. apply not_in_set2 in S2. tauto.
    + destruct Hh as [->|[->|(-> & _ & _ & _ & S3)]]; try reflexivity. apply S3. reflexivity.
    + destruct Hh as [->|[->|(-> & _ & _ & S2 & _)]]; try reflexivity. apply not_in_set2 in S2. tauto.
Qed.

Lemma title_roundtrip set op cl : set_ok set -> refchar cl = false ->
  (cl =? 92) = false -> (cl =? 38) = false -> (op =? 92) = false -> (op =? 38) = false ->
  forall t fuel acc rest,
  (forall c, In c t -> (c =? cl) = true \/ (c =? op) = true -> in_set set c = true) ->
  (length t < fuel)%nat ->
  title_body fuel op cl (E set true t ++ cl :: rest) acc = Some (rev acc ++ t, rest).
Proof.
  intros Hs Rc C1 C2 O1 O2.
  induction t as [|c r IH]; intros fuel acc rest Hin Hf; (destruct fuel as [|f]; [simpl in Hf; lia|]).
  - simpl. rewrite N.eqb_refl. rewrite app_nil_r. reflexivity.
  - assert (St : stops (cl :: rest)) by exact Rc.
    destruct (unit_head set true c r (cl :: rest) Hs) as (h & t & Eh & Hh).
    pose proof (unit_step set true c r (cl :: rest) Hs St) as U.
    rewrite Eh in *.
    rewrite title_step.
    + rewrite U. rewrite IH; [simpl; rewrite <- app_assoc; reflexivity| |simpl in Hf; lia].
      intros x Hx. apply Hin. right. exact Hx.
    + destruct Hh as [->|[->|(-> & _ & _ & S2 & _)]].
      * rewrite N.eqb_sym. exact C1.
      * rewrite N.eqb_sym. exact C2.
      * destruct (c =? cl) eqn:X; [|reflexivity]. rewrite (Hin c (or_introl eq_refl) (or_introl X)) in S2. discriminate.
    + destruct Hh as [->|[->|(-> & _ & _ & S2 & _)]].
      * rewrite N.eqb_sym. exact O1.
      * rewrite N.eqb_sym. exact O2.
      * destruct (c =? op) eqn:X; [|reflexivity]. rewrite (Hin c (or_introl eq_refl) (or_intror X)) in S2. discriminate.
Qed.

Lemma E_plain_byte nl c r : (c =? 92) = false -> (c =? 38) = false -> (c =? 10) = false ->
  E [] nl (c :: r) = c :: E [] nl r.
Proof.
  intros A B C. cbn [E]. rewrite A, (crl_needs_amp c r B), C. cbn. rewrite andb_false_r. reflexivity.
Qed.

Lemma bare_roundtrip : forall d fuel acc bal t0 tl0,
  (t0 = 41 \/ t0 = 32) ->
  forallb (fun c => 32 <? c) d = true -> balanced_parens bal d = true ->
  (length d < fuel)%nat ->
  bare_dest fuel (E [] false d ++ t0 :: tl0) acc bal = Some (rev acc ++ d, t0 :: tl0, 0%nat).
Proof.
  induction d as [|c r IH]; intros fuel acc bal t0 tl0 Ht Hd Hb Hf; (destruct fuel as [|f]; [simpl in Hf; lia|]).
  - simpl in Hb. apply Nat.eqb_eq in Hb. subst bal. rewrite app_nil_r.
    destruct Ht as [->| ->]; reflexivity.
  - cbn [forallb] in Hd. apply andb_true_iff in Hd as [Hc Hd].
    assert (St : stops (t0 :: tl0)) by (destruct Ht as [->| ->]; reflexivity).
    assert (C10 : (c =? 10) = false) by (apply N.ltb_lt in Hc; apply N.eqb_neq; lia).
    destruct (c =? 40) eqn:P40.
    { apply N.eqb_eq in P40. subst c. rewrite E_plain_byte by reflexivity.
      simpl app. cbn [bare_dest]. change (is_ascii_control 40 || (40 =? 32)) with false. change (40 =? 40) with true. cbv iota.
      rewrite IH; [simpl; rewrite <- app_assoc; reflexivity|exact Ht|exact Hd|exact Hb|simpl in Hf; lia]. }
    destruct (c =? 41) eqn:P41.
    { apply N.eqb_eq in P41. subst c. rewrite E_plain_byte by reflexivity.
      simpl in Hb. destruct bal as [|b]; [discriminate|].
      simpl app. cbn [bare_dest]. change (is_ascii_control 41 || (41 =? 32)) with false. change (41 =? 40) with false. change (41 =? 41) with true. cbv iota.
      rewrite IH; [simpl; rewrite <- app_assoc; reflexivity|exact Ht|exact Hd|exact Hb|simpl in Hf; lia]. }
    assert (Hb' : balanced_parens bal r = true) by (simpl in Hb; rewrite P40, P41 in Hb; exact Hb).
    destruct (unit_head [] false c r (t0 :: tl0) set_ok_nil) as (h & t & Eh & Hh).
    pose proof (unit_step [] false c r (t0 :: tl0) set_ok_nil St) as U.
    rewrite Eh in *.
    rewrite bare_step.
    + rewrite U. rewrite IH; [simpl; rewrite <- app_assoc; reflexivity|exact Ht|exact Hd|exact Hb'|simpl in Hf; lia].
    + destruct Hh as [->|[->|(-> & _)]]; try reflexivity. exact Hc.
    + destruct Hh as [->|[->|(-> & _)]]; try reflexivity. exact P40.
    + destruct Hh as [->|[->|(-> & _)]]; try reflexivity. exact P41.
Qed.

(* ---------- assembling formatLinkTail ---------- *)
Lemma E_length set nl s : (length s <= length (E set nl s))%nat.
Proof.
  induction s as [|c r IH]; [simpl; lia|]. cbn [E].
  destruct (_ || _ || _); [simpl; lia|]. destruct (nl && _); [rewrite app_length; simpl; lia|simpl; lia].
Qed.

Lemma esc_nl_app a b : escape_newlines (a ++ b) = escape_newlines a ++ escape_newlines b.
Proof. unfold escape_newlines. apply flat_map_app. Qed.

Lemma esc_nl_wrap q cl set t : (q =? 10) = false -> (cl =? 10) = false -> in_set set 10 = false ->
  escape_newlines (q :: esc_amp_bs set t ++ [cl]) = q :: E set true t ++ [cl].
Proof.
  intros A B C. change (q :: esc_amp_bs set t ++ [cl]) with ([q] ++ esc_amp_bs set t ++ [cl]).
  rewrite !esc_nl_app, E_true by exact C. unfold escape_newlines. simpl. rewrite A, B. reflexivity.
Qed.

Lemma count_zero b t : count_byte b t = 0%nat -> forall c, In c t -> (c =? b) = false.
Proof.
  unfold count_byte. induction t as [|x t IH]; intros H c Hc; [destruct Hc|].
  simpl in H. destruct (x =? b) eqn:E; [discriminate|].
  destruct Hc as [->|Hc]; [exact E|apply IH; assumption].
Qed.

Lemma title_generic fuel total dest set q cl t :
  set_ok set -> (q =? 39) || (q =? 34) || (q =? 40) = true -> cl = (if q =? 40 then 41 else q) ->
  (forall c, In c t -> (c =? cl) = true \/ (c =? q) = true -> in_set set c = true) ->
  (length t < fuel)%nat ->
  tail_after_dest fuel total dest (32 :: q :: E set true t ++ [cl; 41]) = TailOk total dest t.
Proof.
  intros Hs Hq Hcl Hin Hf.
  assert (Q : (q = 39 \/ q = 34 \/ q = 40)).
  { apply orb_true_iff in Hq as [Hq|Hq]; [apply orb_true_iff in Hq as [Hq|Hq]|]; apply N.eqb_eq in Hq; auto. }
  unfold tail_after_dest. cbv zeta.
  assert (W : skip_ws (32 :: q :: E set true t ++ [cl; 41]) = q :: E set true t ++ [cl; 41]).
  { destruct Q as [->|[->| ->]]; reflexivity. }
  rewrite W, Hq. rewrite <- Hcl.
  change (E set true t ++ [cl; 41]) with (E set true t ++ cl :: [41]).
  rewrite (title_roundtrip set q cl Hs); auto.
  - simpl. rewrite Nat.sub_0_r. reflexivity.
  - destruct Q as [->|[->| ->]]; subst cl; reflexivity.
  - destruct Q as [->|[->| ->]]; subst cl; reflexivity.
  - destruct Q as [->|[->| ->]]; subst cl; reflexivity.
  - destruct Q as [->|[->| ->]]; reflexivity.
  - destruct Q as [->|[->| ->]]; reflexivity.
Qed.

Lemma set_ok_1 a : is_ascii_punct a && negb (refchar a) && negb (a =? 10) = true -> set_ok [a].
Proof. intros H. apply set_ok_of. simpl. rewrite H. reflexivity. Qed.

Lemma title_part fuel total dest title : (length title < fuel)%nat ->
  tail_after_dest fuel total dest
    (match title with [] => [] | _ => 32 :: escape_newlines (wrap_title title) end ++ [41])
  = TailOk total dest title.
Proof.
  intros Hf. destruct title as [|t0 title'] eqn:ET.
  - simpl. unfold tail_after_dest. simpl. rewrite Nat.sub_0_r. reflexivity.
  - rewrite <- ET in *. clear ET t0 title'.
    assert (G : forall set q cl, set_ok set -> in_set set 10 = false ->
              (q =? 39) || (q =? 34) || (q =? 40) = true -> cl = (if q =? 40 then 41 else q) ->
              (forall c, In c title -> (c =? cl) = true \/ (c =? q) = true -> in_set set c = true) ->
              tail_after_dest fuel total dest ((32 :: escape_newlines (q :: esc_amp_bs set title ++ [cl])) ++ [41])
              = TailOk total dest title).
    { intros set q cl Hs H10 Hq Hcl Hin.
      assert (Q10 : (q =? 10) = false /\ (cl =? 10) = false).
      { apply orb_true_iff in Hq as [Hq|Hq]; [apply orb_true_iff in Hq as [Hq|Hq]|];
          apply N.eqb_eq in Hq; subst q; subst cl; split; reflexivity. }
      destruct Q10 as [A B]. rewrite esc_nl_wrap by assumption.
      simpl app. rewrite <- app_assoc. simpl app.
      apply title_generic; auto. }
    unfold wrap_title.
    destruct (Nat.eqb (count_byte 34 title) 0) eqn:D.
    { apply Nat.eqb_eq in D. apply (G [] 34 34 set_ok_nil); auto.
      intros c Hc [X|X]; rewrite (count_zero 34 title D c Hc) in X; discriminate. }
    destruct (Nat.eqb (count_byte 39 title) 0) eqn:S.
    { apply Nat.eqb_eq in S. apply (G [] 39 39 set_ok_nil); auto.
      intros c Hc [X|X]; rewrite (count_zero 39 title S c Hc) in X; discriminate. }
    destruct (Nat.eqb (count_byte 40 title + count_byte 41 title) 0) eqn:P.
    { apply Nat.eqb_eq in P. apply (G [] 40 41 set_ok_nil); auto.
      intros c Hc [X|X].
      - rewrite (count_zero 41 title ltac:(lia) c Hc) in X. discriminate.
      - rewrite (count_zero 40 title ltac:(lia) c Hc) in X. discriminate. }
    destruct (Nat.leb (count_byte 34 title) (count_byte 39 title) && Nat.leb (count_byte 34 title) (count_byte 40 title + count_byte 41 title)).
    { apply (G [34] 34 34 (set_ok_1 34 eq_refl)); auto.
      intros c Hc [X|X]; apply N.eqb_eq in X; subst; reflexivity. }
    destruct (Nat.leb (count_byte 39 title) (count_byte 40 title + count_byte 41 title)).
    { apply (G [39] 39 39 (set_ok_1 39 eq_refl)); auto.
      intros c Hc [X|X]; apply N.eqb_eq in X; subst; reflexivity. }
    apply (G [40; 41] 40 41 (set_ok_of [40; 41] eq_refl)); auto.
    intros c Hc [X|X]; apply N.eqb_eq in X; subst; reflexivity.
Qed.

Lemma lead_angle (e : bytes) :
  match e with 60 :: _ => 92 :: e | _ => e end =
  if match e with h :: _ => h =? 60 | [] => false end then 92 :: e else e.
Proof.
  destruct e as [|h e]; [reflexivity|].
  destruct (h =? 60) eqn:X; [apply N.eqb_eq in X; subst; reflexivity|].
  destruct h as [|p]; [reflexivity|].
  repeat (first [reflexivity | (simpl in X; discriminate X) | match goal with q : positive |- _ => destruct q end]).
Qed.

Lemma forbidden_none dest : existsb forbidden_raw dest = false -> forallb (fun c => 32 <? c) dest = true.
Proof.
  induction dest as [|c d IH]; [reflexivity|]. simpl. intros H. apply orb_false_iff in H as [H1 H2].
  rewrite IH by exact H2. unfold forbidden_raw in H1. apply N.leb_gt in H1.
  rewrite (proj2 (N.ltb_lt 32 c)) by lia. reflexivity.
Qed.

Lemma esc_len set tt : (length tt <= length (escape_newlines (esc_amp_bs set tt)))%nat.
Proof.
  induction tt as [|c r IH]; [simpl; lia|]. cbn [esc_amp_bs].
  unfold escape_newlines in *. destruct (_ || _ || _); cbn [flat_map];
    repeat match goal with |- context [if ?b then _ else _] => destruct b end;
    repeat rewrite app_length; change (length NEWLINE_ENT) with 9%nat; cbn [length];
    unfold bytes in *; lia.
Qed.

Lemma wrap_len tt : (length tt <= length (escape_newlines (wrap_title tt)))%nat.
Proof.
  assert (Z : forall q cl set, (length tt <= length (escape_newlines (q :: esc_amp_bs set tt ++ [cl])))%nat).
  { intros q cl set. change (q :: esc_amp_bs set tt ++ [cl]) with ([q] ++ esc_amp_bs set tt ++ [cl]).
    rewrite !esc_nl_app, !app_length. pose proof (esc_len set tt). unfold bytes in *. lia. }
  unfold wrap_title.
  repeat match goal with |- context [if ?b then _ else _] => destruct b end; apply Z.
Qed.

Lemma angle_case dest title T : 
  T = match title with [] => [] | _ => 32 :: escape_newlines (wrap_title title) end ->
  let text := 40 :: (60 :: E [60; 62] true dest ++ [62]) ++ T ++ [41] in
  parse_link_tail text = TailOk (length text) dest title.
Proof.
  intros ET text. unfold parse_link_tail. fold text.
  assert (L1 : (length dest < S (length text))%nat).
  { pose proof (E_length [60; 62] true dest). unfold text. cbn [length app]. rewrite !app_length. cbn [length]. generalize dependent (length (E [60; 62] true dest)). generalize (length dest). generalize (length T). clear. intros; lia. }
  assert (L2 : (length title < S (length text))%nat).
  { unfold text. cbn [length app]. rewrite !app_length. cbn [length]. subst T.
    destruct title as [|t0 t']; [cbn [length]; lia|].
    pose proof (wrap_len (t0 :: t')) as W. cbn [length] in *.
    generalize dependent (length (escape_newlines (wrap_title (t0 :: t')))).
    generalize (length (E [60; 62] true dest)). generalize (length t'). clear. intros; lia. }
  unfold text at 1. cbn [negb N.eqb]. change (40 =? 40) with true. cbn [negb].
  simpl app. cbn [skip_ws]. change (is_ws 60) with false. cbv iota. change (60 =? 60) with true. cbv iota.
  rewrite <- app_assoc. simpl app.
  rewrite angle_roundtrip by exact L1. simpl app.
  subst T. apply title_part. exact L2.
Qed.

Lemma parse_bare_shape h t :
  is_ws h = false -> (h =? 60) = false ->
  parse_link_tail (40 :: h :: t) =
  match bare_dest (S (length (40 :: h :: t))) (h :: t) [] 0 with
  | Some (d, rest, O) => tail_after_dest (S (length (40 :: h :: t))) (length (40 :: h :: t)) d rest
  | Some (_, _, S _) => TailNone
  | None => TailFuel
  end.
Proof.
  intros W A. unfold parse_link_tail. change (40 =? 40) with true. cbn [negb].
  cbn [skip_ws]. rewrite W. cbv zeta. rewrite A. reflexivity.
Qed.

Lemma bare_case dest title T :
  T = match title with [] => [] | _ => 32 :: escape_newlines (wrap_title title) end ->
  existsb forbidden_raw dest = false -> balanced_parens 0 dest = true ->
  (dest = [] -> title = []) ->
  let e := esc_amp_bs [] dest in
  let text := 40 :: (match e with 60 :: _ => 92 :: e | _ => e end) ++ T ++ [41] in
  parse_link_tail text = TailOk (length text) dest title.
Proof.
  intros ET NF BP DT e text. unfold text, e. rewrite lead_angle, <- E_false.
  pose proof (forbidden_none dest NF) as GT.
  assert (TL : exists t0 tl0, T ++ [41] = t0 :: tl0 /\ (t0 = 41 \/ t0 = 32)).
  { subst T. destruct title; [exists 41, []; auto|]. eexists 32, _. split; [reflexivity|auto]. }
  destruct TL as (t0 & tl0 & ETL & Ht0).
  assert (St : stops (t0 :: tl0)) by (destruct Ht0 as [->| ->]; reflexivity).
  destruct dest as [|c1 r1].
  - rewrite (DT eq_refl) in *. subst T. reflexivity.
  - cbn [forallb] in GT. apply andb_true_iff in GT as [G1 GR].
    assert (C10 : (c1 =? 10) = false) by (apply N.ltb_lt in G1; apply N.eqb_neq; lia).
    assert (LTT : (length title <= length T)%nat).
    { subst T. destruct title as [|t0' t']; [cbn [length]; lia|].
      pose proof (wrap_len (t0' :: t')) as W. cbn [length] in *. unfold bytes in *. lia. }
    assert (LEN : length (t0 :: tl0) = (length T + 1)%nat).
    { rewrite <- ETL, app_length. reflexivity. }
    destruct (c1 =? 60) eqn:X60.
    + apply N.eqb_eq in X60. subst c1.
      rewrite (E_plain_byte false 60 r1) in * by reflexivity. change (60 =? 60) with true. cbv iota.
      simpl app. rewrite parse_bare_shape by (auto; reflexivity).
      remember (S (length (40 :: 92 :: 60 :: E [] false r1 ++ T ++ [41]))) as fuel eqn:EF.
      destruct fuel as [|f]; [discriminate|].
      cbn [bare_dest]. change (is_ascii_control 92 || (92 =? 32)) with false.
      change (92 =? 40) with false. change (92 =? 41) with false. change (92 =? 92) with true. cbv iota.
      unfold parse_backslash. change (is_ascii_punct 60) with true. cbv iota.
      rewrite ETL. rewrite bare_roundtrip; auto.
      * rewrite <- ETL. simpl rev. simpl app. subst T. apply title_part.
        rewrite EF. cbn [length]. rewrite !app_length. cbn [length]. unfold bytes in *. lia.
      * inversion EF. cbn [length]. rewrite !app_length. pose proof (E_length [] false r1). unfold bytes in *. lia.
    + destruct (unit_head [] false c1 r1 (t0 :: tl0) set_ok_nil) as (h & t & Eh & Hh).
      assert (H60 : (h =? 60) = false).
      { destruct Hh as [->|[->|(-> & _)]]; auto. }
      assert (HW : is_ws h = false).
      { destruct Hh as [->|[->|(-> & _)]]; try reflexivity.
        apply N.ltb_lt in G1. unfold is_ws.
        rewrite (proj2 (N.eqb_neq c1 32)), (proj2 (N.eqb_neq c1 9)), (proj2 (N.eqb_neq c1 10)) by lia. reflexivity. }
      assert (HE : match E [] false (c1 :: r1) with h0 :: _ => h0 =? 60 | [] => false end = false).
      { destruct (E [] false (c1 :: r1)) as [|h0 t0'] eqn:EE; [reflexivity|].
        try rewrite EE in Eh. simpl in Eh. inversion Eh; subst. exact H60. }
      rewrite HE in *.
      assert (SH : 40 :: E [] false (c1 :: r1) ++ T ++ [41] = 40 :: h :: t) by (rewrite ETL, Eh; reflexivity).
      rewrite SH. rewrite parse_bare_shape by (auto; reflexivity).
      rewrite <- Eh. rewrite bare_roundtrip; auto.
      * change (rev [] ++ c1 :: r1) with (c1 :: r1). rewrite <- ETL.
        pose proof (E_length [] false (c1 :: r1)) as L.
        assert (FL : Nat.lt (length title) (S (length (40 :: E [] false (c1 :: r1) ++ T ++ [41])))).
        { cbn [length] in *. rewrite !app_length. cbn [length] in *. unfold bytes in *. lia. }
        revert FL. generalize (S (length (40 :: E [] false (c1 :: r1) ++ T ++ [41]))).
        generalize (length (40 :: E [] false (c1 :: r1) ++ T ++ [41])). intros total fuel FL.
        rewrite ET. apply title_part. exact FL.
      * cbn [forallb]. rewrite G1, GR. reflexivity.
      * pose proof (E_length [] false (c1 :: r1)) as L.
        cbn [length] in *. rewrite !app_length. cbn [length] in *. unfold bytes in *. lia.
Qed.

Theorem link_tail_roundtrip dest title :
  parse_link_tail (format_link_tail dest title) =
  TailOk (length (format_link_tail dest title)) dest title.
Proof.
  unfold format_link_tail. cbv zeta.
  set (T := match title with [] => [] | _ => 32 :: escape_newlines (wrap_title title) end).
  destruct (existsb forbidden_raw dest || negb (balanced_parens 0 dest)) eqn:A.
  - rewrite E_true by reflexivity. apply (angle_case dest title T). reflexivity.
  - apply orb_false_iff in A as [NF BP]. apply negb_false_iff in BP.
    destruct dest as [|c1 r1].
    + destruct title as [|t0 t'].
      * reflexivity.
      * change [60; 62] with (60 :: E [60; 62] true [] ++ [62]).
        apply (angle_case [] (t0 :: t') T). reflexivity.
    + apply (bare_case (c1 :: r1) title T); auto. discriminate.
Qed.
