(* C08/C09 — lemmas about the value model shared by both properties:
   named forms of the nested recursions, size induction, Equal is a partial
   equivalence on well-formed values (symmetric, transitive; reflexive without
   NaN), the permutation lemma behind map equality and the map hash. *)
From verif Require Import lib.Base model.C08_Value.
From Coq Require Import QArith Permutation Arith.
Close Scope Q_scope.
Open Scope N_scope.

Notation "a ~= b" := (equal a b = true) (at level 70).

(* ---- named forms of the nested fixpoints ---- *)
Fixpoint eql (x y : list value) : bool :=
  match x, y with
  | [], [] => true
  | p :: x', q :: y' => equal p q && eql x' y'
  | _, _ => false
  end.

Fixpoint mlook (k vx : value) (y : list (value * value)) : bool :=
  match y with
  | [] => false
  | (k', vy) :: y' => if equal k k' then equal vx vy else mlook k vx y'
  end.

Fixpoint msub (x y : list (value * value)) : bool :=
  match x with
  | [] => true
  | (k, vx) :: x' => mlook k vx y && msub x' y
  end.

Fixpoint nodupk (m : list (value * value)) : bool :=
  match m with
  | [] => true
  | e :: m' => negb (existsb (fun e' => equal (fst e) (fst e')) m') && nodupk m'
  end.

Lemma equal_list s x s' y : equal (VList s x) (VList s' y) = eql x y.
Proof.
  reflexivity.
Qed.

Lemma mlook_fix k vx y :
  (fix look (y : list (value * value)) : bool :=
     match y with
     | [] => false
     | (k', vy) :: y' => if equal k k' then equal vx vy else look y'
     end) y = mlook k vx y.
Proof. induction y as [|[k' vy] y IH]; cbn; [reflexivity|now rewrite IH]. Qed.

Lemma equal_map x y :
  equal (VMap x) (VMap y) = Nat.eqb (length x) (length y) && msub x y.
Proof.
  cbn [equal]. f_equal.
  induction x as [|[k vx] x IH]; cbn; [reflexivity|].
  rewrite IH. f_equal. apply mlook_fix.
Qed.

Lemma wfb_list s l : wfb (VList s l) = forallb wfb l.
Proof. reflexivity. Qed.

Lemma wfb_map m :
  wfb (VMap m) = forallb (fun e => wfb (fst e) && wfb (snd e)) m && nodupk m.
Proof.
  reflexivity.
Qed.

(* ---- size ---- *)
Fixpoint vsize (v : value) : nat :=
  match v with
  | VList _ l => S (list_sum (map vsize l))
  | VMap m => S (list_sum (map (fun e => vsize (fst e) + vsize (snd e))%nat m))
  | _ => 1%nat
  end.

Lemma list_sum_in (f : value -> nat) l x : In x l -> (f x <= list_sum (map f l))%nat.
Proof.
  induction l as [|y l IH]; simpl; [tauto|]. intros [->|H]; [lia|]. apply IH in H. lia.
Qed.

Lemma vsize_list_in s l x : In x l -> (vsize x < vsize (VList s l))%nat.
Proof. intros H. simpl. apply (list_sum_in vsize) in H. lia. Qed.

Lemma vsize_map_in m e :
  In e m -> (vsize (fst e) < vsize (VMap m))%nat /\ (vsize (snd e) < vsize (VMap m))%nat.
Proof.
  intros H. simpl.
  assert (vsize (fst e) + vsize (snd e) <=
          list_sum (map (fun e => vsize (fst e) + vsize (snd e)) m))%nat.
  { clear -H. revert H. induction m as [|y l IH]; simpl; [tauto|]. intros [->|H]; [lia|].
    apply IH in H. lia. }
  lia.
Qed.

(* ---- scalars ---- *)
Lemma f_eq_sym a b : f_eq a b = f_eq b a.
Proof. unfold f_eq. rewrite Z.eqb_sym. destruct (f_is_nan a), (f_is_nan b); reflexivity. Qed.

Lemma f_eq_trans a b c : f_eq a b = true -> f_eq b c = true -> f_eq a c = true.
Proof.
  unfold f_eq. intros H1 H2.
  apply andb_true_iff in H1 as [H1 K1]. apply andb_true_iff in H1 as [Na Nb].
  apply andb_true_iff in H2 as [H2 K2]. apply andb_true_iff in H2 as [_ Nc].
  rewrite Na, Nc. apply Z.eqb_eq in K1, K2. cbn. apply Z.eqb_eq. congruence.
Qed.

Lemma Qeq_bool_sym p q : Qeq_bool p q = Qeq_bool q p.
Proof.
  destruct (Qeq_bool p q) eqn:E; symmetry.
  - apply Qeq_bool_iff. apply Qeq_bool_iff in E. now symmetry.
  - destruct (Qeq_bool q p) eqn:E'; [|reflexivity].
    apply Qeq_bool_iff in E'. symmetry in E'. apply Qeq_bool_iff in E'. congruence.
Qed.

Lemma Qeq_bool_trans' p q r : Qeq_bool p q = true -> Qeq_bool q r = true -> Qeq_bool p r = true.
Proof.
  intros H1 H2. apply Qeq_bool_iff in H1, H2. apply Qeq_bool_iff. now rewrite H1.
Qed.

Lemma bytes_eqb_sym a b : bytes_eqb a b = bytes_eqb b a.
Proof.
  destruct (bytes_eqb a b) eqn:E; symmetry.
  - apply bytes_eqb_spec in E. subst. apply bytes_eqb_refl.
  - destruct (bytes_eqb b a) eqn:E'; [|reflexivity].
    apply bytes_eqb_spec in E'. subst. now rewrite bytes_eqb_refl in E.
Qed.

(* ------------------------------------------------------------------ *)
(* association lists under a partial equivalence *)
Section PER.
  Variable D : value -> Prop.
  Hypothesis Dsym : forall x y, D x -> D y -> x ~= y -> y ~= x.
  Hypothesis Dtrans : forall x y z, D x -> D y -> D z -> x ~= y -> y ~= z -> x ~= z.

  Definition DL (l : list value) := forall x, In x l -> D x.
  Definition DM (m : list (value * value)) := forall e, In e m -> D (fst e) /\ D (snd e).

  Lemma DM_cons e m : DM (e :: m) -> D (fst e) /\ D (snd e) /\ DM m.
  Proof.
    intros H. destruct (H e (or_introl eq_refl)) as [H1 H2].
    split; [assumption|]. split; [assumption|]. intros e' He'; apply H; now right.
  Qed.

  Lemma DM_app m1 e m2 : DM (m1 ++ e :: m2) -> DM (m1 ++ m2).
  Proof.
    intros H e' He'. apply H. apply in_app_iff in He'. apply in_app_iff.
    destruct He'; [now left|right; now right].
  Qed.

  (* lists *)
  Lemma eql_sym x y : DL x -> DL y -> eql x y = true -> eql y x = true.
  Proof.
    revert y. induction x as [|p x IH]; intros [|q y] Hx Hy H; cbn in *; try discriminate; auto.
    apply andb_true_iff in H as [H1 H2]. apply andb_true_iff. split.
    - apply Dsym; auto; [apply Hx|apply Hy]; now left.
    - apply IH; auto; intros z Hz; [apply Hx|apply Hy]; now right.
  Qed.

  Lemma eql_trans x y z :
    DL x -> DL y -> DL z -> eql x y = true -> eql y z = true -> eql x z = true.
  Proof.
    revert y z. induction x as [|p x IH]; intros [|q y] [|r z] Hx Hy Hz H1 H2;
      cbn in *; try discriminate; auto.
    apply andb_true_iff in H1 as [A1 A2]. apply andb_true_iff in H2 as [B1 B2].
    apply andb_true_iff. split.
    - apply (Dtrans p q r); auto; [apply Hx|apply Hy|apply Hz]; now left.
    - apply (IH y z); auto; intros w Hw; [apply Hx|apply Hy|apply Hz]; now right.
  Qed.

  (* mlook finds an entry *)
  Lemma mlook_found k vx y :
    mlook k vx y = true ->
    exists y1 k' vy y2, y = y1 ++ (k', vy) :: y2 /\ k ~= k' /\ vx ~= vy.
  Proof.
    induction y as [|[k' vy] y IH]; cbn; [discriminate|].
    destruct (equal k k') eqn:E.
    - intros H. exists [], k', vy, y. auto.
    - intros H. destruct (IH H) as (y1 & k2 & v2 & y2 & -> & A & B).
      exists ((k', vy) :: y1), k2, v2, y2. auto.
  Qed.

  Lemma mlook_in_found k vx y :
    mlook k vx y = true -> exists e, In e y /\ k ~= fst e /\ vx ~= snd e.
  Proof.
    intros H. destruct (mlook_found _ _ _ H) as (y1 & k' & vy & y2 & -> & A & B).
    exists (k', vy). split; [apply in_app_iff; right; now left|auto].
  Qed.

  Lemma mlook_skip k vx y1 e y2 :
    mlook k vx (y1 ++ e :: y2) = true -> equal k (fst e) = false ->
    mlook k vx (y1 ++ y2) = true.
  Proof.
    induction y1 as [|[k' vy] y1 IH]; cbn.
    - destruct e as [k' vy]. cbn. intros H E. now rewrite E in H.
    - destruct (equal k k'); auto.
  Qed.

  Lemma nodupk_app m1 e m2 : nodupk (m1 ++ e :: m2) = true -> nodupk (m1 ++ m2) = true.
  Proof.
    induction m1 as [|e1 m1 IH]; cbn.
    - intros H. now apply andb_true_iff in H as [_ H].
    - intros H. apply andb_true_iff in H as [H1 H2]. apply andb_true_iff. split; auto.
      apply negb_true_iff in H1. apply negb_true_iff.
      rewrite existsb_app in *. cbn in H1.
      apply orb_false_iff in H1 as [A B]. apply orb_false_iff in B as [_ B].
      now rewrite A, B.
  Qed.

  Lemma msub_forall x y :
    msub x y = true <-> (forall e, In e x -> mlook (fst e) (snd e) y = true).
  Proof.
    induction x as [|[k vx] x IH]; cbn.
    - split; [intros _ e []|auto].
    - rewrite andb_true_iff, IH. split.
      + intros [A B] e [<-|He]; auto.
      + intros H. split; [apply (H (k, vx)); now left|intros e He; apply H; now right].
  Qed.

  Lemma nodupk_not_in e m e' :
    nodupk (e :: m) = true -> In e' m -> equal (fst e) (fst e') = false.
  Proof.
    cbn. intros H He'. apply andb_true_iff in H as [H _]. apply negb_true_iff in H.
    destruct (equal (fst e) (fst e')) eqn:E; [|reflexivity].
    assert (existsb (fun e'0 => equal (fst e) (fst e'0)) m = true)
      by (apply existsb_exists; eauto). congruence.
  Qed.

  (* the bijection behind equalMap: same length + every entry of x found in y,
     keys of x pairwise not Equal ==> y is a permutation of entries matching x *)
  Definition ematch (e e' : value * value) : Prop := fst e ~= fst e' /\ snd e ~= snd e'.

  Lemma msub_perm x : forall y,
    DM x -> DM y -> nodupk x = true -> length x = length y -> msub x y = true ->
    exists y', Permutation y y' /\ Forall2 ematch x y'.
  Proof.
    induction x as [|[k vx] x IH]; intros y Hx Hy Nx L S.
    - destruct y; [|discriminate]. exists []. split; constructor.
    - cbn in S. apply andb_true_iff in S as [S1 S2].
      destruct (mlook_found _ _ _ S1) as (y1 & k' & vy & y2 & -> & A & B).
      destruct (DM_cons _ _ Hx) as (Dk & Dv & Hx').
      assert (Dk' : D k') by (apply (Hy (k', vy)); apply in_app_iff; right; now left).
      destruct (IH (y1 ++ y2)) as (y' & P & F).
      + exact Hx'.
      + eapply DM_app; eauto.
      + cbn in Nx. now apply andb_true_iff in Nx as [_ Nx].
      + rewrite app_length in *. cbn in L. lia.
      + apply msub_forall. intros e He.
        apply mlook_skip with (e := (k', vy)).
        * apply (proj1 (msub_forall x _) S2); auto.
        * cbn. destruct (equal (fst e) k') eqn:E; [|reflexivity]. exfalso.
          assert (K : k ~= fst e).
          { apply (Dtrans k k' (fst e)); auto; [apply Hx'; auto|].
            apply Dsym; auto. apply Hx'; auto. }
          pose proof (nodupk_not_in (k, vx) x e Nx He) as K2. cbn in K2. congruence.
      + exists ((k', vy) :: y'). split.
        * eapply Permutation_trans; [apply Permutation_sym, Permutation_middle|].
          now constructor.
        * constructor; [split; auto|exact F].
  Qed.

  (* an Equal key is found, and it is the only candidate *)
  Lemma mlook_in k v x e :
    DM x -> D k -> nodupk x = true -> In e x -> k ~= fst e -> v ~= snd e ->
    mlook k v x = true.
  Proof.
    induction x as [|[k0 v0] x IH]; intros Hx Dk N He K V; [destruct He|].
    destruct (DM_cons _ _ Hx) as (Dk0 & _ & Hx'). cbn in Dk0.
    cbn. destruct He as [<-|He].
    - cbn in K, V. now rewrite K.
    - destruct (equal k k0) eqn:E.
      + exfalso.
        assert (K' : k0 ~= fst e).
        { assert (De : D (fst e)) by (apply Hx'; auto).
          apply (Dtrans k0 k (fst e)); auto. }
        pose proof (nodupk_not_in (k0, v0) x e N He) as K2. cbn in K2. congruence.
      + apply IH; auto. cbn in N. now apply andb_true_iff in N as [_ N].
  Qed.

  Lemma Forall2_in_r {A B} (R : A -> B -> Prop) l l' y :
    Forall2 R l l' -> In y l' -> exists x, In x l /\ R x y.
  Proof.
    induction 1 as [|a b l l' H F IH]; [intros []|].
    intros [<-|Hy]; [exists a; split; [now left|auto]|].
    destruct (IH Hy) as (x & Hx & Rx). exists x. split; [now right|auto].
  Qed.

  Lemma map_eq_sym x y :
    DM x -> DM y -> nodupk x = true -> nodupk y = true ->
    VMap x ~= VMap y -> VMap y ~= VMap x.
  Proof.
    intros Hx Hy Nx Ny. rewrite !equal_map. intros H.
    apply andb_true_iff in H as [L S]. apply Nat.eqb_eq in L.
    apply andb_true_iff. split; [apply Nat.eqb_eq; lia|].
    destruct (msub_perm x y Hx Hy Nx L S) as (y' & P & F).
    apply msub_forall. intros e' He'.
    assert (He'2 : In e' y') by (eapply Permutation_in; eauto).
    destruct (Forall2_in_r _ _ _ _ F He'2) as (e & He & [A B]).
    destruct (Hx e He) as [D1 D2]. destruct (Hy e' He') as [D3 D4].
    apply mlook_in with (e := e); auto.
  Qed.

  Lemma map_eq_trans x y z :
    DM x -> DM y -> DM z -> nodupk z = true ->
    VMap x ~= VMap y -> VMap y ~= VMap z -> VMap x ~= VMap z.
  Proof.
    intros Hx Hy Hz Nz. rewrite !equal_map. intros H1 H2.
    apply andb_true_iff in H1 as [L1 S1]. apply andb_true_iff in H2 as [L2 S2].
    apply Nat.eqb_eq in L1, L2.
    apply andb_true_iff. split; [apply Nat.eqb_eq; lia|].
    apply msub_forall. intros e He.
    destruct (mlook_in_found _ _ _ (proj1 (msub_forall x y) S1 e He)) as (e' & He' & A1 & B1).
    destruct (mlook_in_found _ _ _ (proj1 (msub_forall y z) S2 e' He')) as (e'' & He'' & A2 & B2).
    destruct (Hx e He) as [D1 D2]. destruct (Hy e' He') as [D3 D4]. destruct (Hz e'' He'') as [D5 D6].
    apply mlook_in with (e := e''); auto.
    - apply (Dtrans _ (fst e')); auto.
    - apply (Dtrans _ (snd e')); auto.
  Qed.
End PER.

(* ------------------------------------------------------------------ *)
(* Equal is symmetric and transitive on well-formed values *)
Definition wf (v : value) : Prop := wfb v = true.
Definition Dn (n : nat) (v : value) : Prop := wf v /\ (vsize v < n)%nat.

Lemma wf_list_in s l x : wf (VList s l) -> In x l -> wf x.
Proof. unfold wf. rewrite wfb_list, forallb_forall. auto. Qed.

Lemma wf_map_in m e : wf (VMap m) -> In e m -> wf (fst e) /\ wf (snd e).
Proof.
  unfold wf. rewrite wfb_map. intros H He. apply andb_true_iff in H as [H _].
  rewrite forallb_forall in H. apply H in He. now apply andb_true_iff in He.
Qed.

Lemma wf_map_nodup m : wf (VMap m) -> nodupk m = true.
Proof. unfold wf. rewrite wfb_map. intros H. now apply andb_true_iff in H as [_ H]. Qed.

Lemma DL_of n s l : Dn (S n) (VList s l) -> DL (Dn n) l.
Proof.
  intros [W Sz] x Hx. split; [eapply wf_list_in; eauto|].
  pose proof (vsize_list_in s l x Hx). lia.
Qed.

Lemma DM_of n m : Dn (S n) (VMap m) -> DM (Dn n) m.
Proof.
  intros [W Sz] e He. destruct (wf_map_in m e W He) as [W1 W2].
  destruct (vsize_map_in m e He). split; split; auto; lia.
Qed.

Lemma equal_per n :
  (forall x y, Dn n x -> Dn n y -> x ~= y -> y ~= x) /\
  (forall x y z, Dn n x -> Dn n y -> Dn n z -> x ~= y -> y ~= z -> x ~= z).
Proof.
  induction n as [|n [IHs IHt]].
  - split; intros; match goal with H : Dn 0 _ |- _ => destruct H; lia end.
  - split.
    + intros a b Da Db H.
      destruct a, b; try (cbn in H; discriminate H).
      * reflexivity.
      * cbn [equal] in *. now destruct b, b0.
      * cbn [equal] in *. now rewrite Z.eqb_sym.
      * cbn [equal] in *. now rewrite Z.eqb_sym.
      * cbn [equal] in *. now rewrite Qeq_bool_sym.
      * cbn [equal] in *. now rewrite f_eq_sym.
      * cbn [equal] in *. now rewrite bytes_eqb_sym.
      * rewrite equal_list in *. apply (eql_sym (Dn n)); auto; eapply DL_of; eauto.
      * apply (map_eq_sym (Dn n)); auto; try (eapply DM_of; eauto);
          apply wf_map_nodup; [apply Da|apply Db].
      * cbn [equal] in *. now rewrite (N.eqb_sym ty0), (N.eqb_sym id0).
    + intros a b c Da Db Dc H1 H2.
      destruct a, b; try (cbn in H1; discriminate H1);
        destruct c; try (cbn in H2; discriminate H2).
      * reflexivity.
      * cbn [equal] in *. apply Bool.eqb_prop in H1. now subst.
      * cbn [equal] in *. apply Z.eqb_eq in H1. now subst.
      * cbn [equal] in *. apply Z.eqb_eq in H1. now subst.
      * cbn [equal] in *. eapply Qeq_bool_trans'; eauto.
      * cbn [equal] in *. eapply f_eq_trans; eauto.
      * cbn [equal] in *. apply bytes_eqb_spec in H1. now subst.
      * rewrite equal_list in *.
        apply (eql_trans (Dn n) IHt l l0 l1); auto; eapply DL_of; eauto.
      * apply (map_eq_trans (Dn n) IHs IHt m m0 m1); auto; try (eapply DM_of; eauto).
        apply wf_map_nodup, Dc.
      * cbn [equal] in *. apply andb_true_iff in H1 as [A1 B1]. apply andb_true_iff in H2 as [A2 B2].
        apply N.eqb_eq in A1, B1. subst. now rewrite A2, B2.
Qed.

Theorem equal_sym a b : wf a -> wf b -> a ~= b -> b ~= a.
Proof.
  intros Wa Wb. apply (proj1 (equal_per (S (vsize a + vsize b)))); split; auto; lia.
Qed.

Theorem equal_trans a b c : wf a -> wf b -> wf c -> a ~= b -> b ~= c -> a ~= c.
Proof.
  intros Wa Wb Wc.
  apply (proj2 (equal_per (S (vsize a + vsize b + vsize c)))); split; auto; lia.
Qed.

Lemma equal_sym_bool a b : wf a -> wf b -> equal a b = equal b a.
Proof.
  intros Wa Wb. destruct (equal a b) eqn:E.
  - symmetry. now apply equal_sym.
  - destruct (equal b a) eqn:E'; [|reflexivity]. apply equal_sym in E'; auto. congruence.
Qed.

(* the facts of section PER for all well-formed values *)
Definition wfM (m : list (value * value)) := DM wf m.
Lemma wfM_of m : wf (VMap m) -> wfM m.
Proof. intros W e He. eapply wf_map_in; eauto. Qed.

(* ---- NaN: a value holding a NaN is Equal to nothing ---- *)
Lemma has_nan_list s l : has_nan (VList s l) = existsb has_nan l.
Proof. reflexivity. Qed.
Lemma has_nan_map m :
  has_nan (VMap m) = existsb (fun e => has_nan (fst e) || has_nan (snd e)) m.
Proof. reflexivity. Qed.
Lemma f_eq_nan a b : f_is_nan a = true -> f_eq a b = false.
Proof. unfold f_eq. now intros ->. Qed.

Lemma mlook_never k vx y :
  (forall k', equal k k' = false) \/ (forall v', equal vx v' = false) -> mlook k vx y = false.
Proof.
  intros H. induction y as [|[k' vy] y IH]; cbn; [reflexivity|].
  destruct H as [H|H]; [now rewrite H|]. rewrite H. now destruct (equal k k').
Qed.

Lemma equal_nan_never_n n : forall a b, (vsize a < n)%nat -> has_nan a = true -> equal a b = false.
Proof.
  induction n as [|n IH]; intros a b Sz Hn; [lia|].
  destruct a; try discriminate Hn; destruct b; try reflexivity.
  - cbn in *. now apply f_eq_nan.
  - rewrite equal_list. rewrite has_nan_list in Hn.
    assert (Hsz : forall x, In x l -> (vsize x < n)%nat).
    { intros x Hx. pose proof (vsize_list_in sub l x Hx). lia. }
    clear Sz. revert l0.
    induction l as [|p l IHl]; intros [|q l0]; try reflexivity; try discriminate.
    cbn [existsb] in Hn. cbn [eql].
    apply orb_true_iff in Hn as [Hn|Hn].
    + rewrite (IH p q); auto. apply Hsz. now left.
    + rewrite IHl; auto; [apply andb_false_r|]. intros x Hx. apply Hsz. now right.
  - rewrite equal_map. rewrite has_nan_map in Hn.
    apply andb_false_iff. right.
    assert (Hsz : forall e, In e m -> (vsize (fst e) < n)%nat /\ (vsize (snd e) < n)%nat).
    { intros e He. pose proof (vsize_map_in m e He). lia. }
    clear Sz.
    induction m as [|[k vx] m IHm]; [discriminate|].
    cbn [existsb fst snd] in Hn. cbn [msub].
    destruct (Hsz (k, vx) (or_introl eq_refl)) as [S1 S2]. cbn [fst snd] in S1, S2.
    apply orb_true_iff in Hn as [Hn|Hn].
    + rewrite mlook_never; [reflexivity|].
      apply orb_true_iff in Hn as [Hn|Hn]; [left|right]; intros; apply IH; auto.
    + rewrite IHm; auto; [apply andb_false_r|]. intros e He. apply Hsz. now right.
Qed.

Theorem equal_nan_never a b : has_nan a = true -> equal a b = false.
Proof. apply (equal_nan_never_n (S (vsize a))). lia. Qed.

(* ---- reflexivity without NaN ---- *)
Lemma Qeq_bool_refl' q : Qeq_bool q q = true.
Proof. apply Qeq_bool_iff. reflexivity. Qed.

Lemma f_eq_refl b : f_is_nan b = false -> f_eq b b = true.
Proof. unfold f_eq. intros ->. cbn. apply Z.eqb_refl. Qed.

Lemma equal_refl_n n : forall a, (vsize a < n)%nat -> wf a -> has_nan a = false -> a ~= a.
Proof.
  induction n as [|n IH]; intros a Sz W Hn; [lia|].
  destruct a.
  - reflexivity.
  - cbn. now destruct b.
  - cbn. apply Z.eqb_refl.
  - cbn. apply Z.eqb_refl.
  - cbn [equal]. apply Qeq_bool_refl'.
  - cbn [equal]. now apply f_eq_refl.
  - cbn [equal]. apply bytes_eqb_refl.
  - rewrite equal_list. rewrite has_nan_list in Hn.
    assert (A : forall x, In x l -> x ~= x).
    { intros x Hx. apply IH.
      - pose proof (vsize_list_in sub l x Hx). lia.
      - eapply wf_list_in; eauto.
      - destruct (has_nan x) eqn:E; [|reflexivity].
        assert (existsb has_nan l = true) by (apply existsb_exists; eauto). congruence. }
    clear -A. induction l as [|p l IHl]; cbn; [reflexivity|].
    rewrite A by (now left). apply IHl. intros x Hx. apply A. now right.
  - rewrite equal_map, Nat.eqb_refl. cbn [andb]. rewrite has_nan_map in Hn.
    apply msub_forall. intros e He.
    assert (Hne : has_nan (fst e) = false /\ has_nan (snd e) = false).
    { destruct (has_nan (fst e) || has_nan (snd e)) eqn:E.
      - assert (existsb (fun e => has_nan (fst e) || has_nan (snd e)) m = true)
          by (apply existsb_exists; eauto). congruence.
      - now apply orb_false_iff in E. }
    destruct (wf_map_in m e W He) as [W1 W2]. destruct (vsize_map_in m e He).
    apply (mlook_in wf) with (e := e); auto.
    + intros; now apply equal_sym.
    + intros x y z; apply equal_trans.
    + now apply wfM_of.
    + now apply wf_map_nodup.
    + apply IH; try tauto; lia.
    + apply IH; try tauto; lia.
  - cbn [equal]. now rewrite !N.eqb_refl.
Qed.

Theorem equal_refl a : wf a -> has_nan a = false -> a ~= a.
Proof. apply (equal_refl_n (S (vsize a))). lia. Qed.
