(* C40 -- ledger lemmas: which handles are open after each operation. *)
From verif Require Import lib.Base model.C42_Ports model.C40 proofs.C42_proofs.
From Coq Require Import ZifyBool ZifyNat.
Open Scope nat_scope.

(* ---------------------------------------------------------------- status of handles *)
Definition stat_o (l : list ofd) (i : nat) : bool :=
  match nth_error l i with Some o => o_open o | None => false end.
Definition stat_r (l : list pipe) (j : nat) : bool :=
  match nth_error l j with Some p => pi_r p | None => false end.
Definition stat_w (l : list pipe) (j : nat) : bool :=
  match nth_error l j with Some p => pi_w p | None => false end.

Lemma handle_open_stat s h :
  handle_open s h = match h with
                    | HOfd i => stat_o (s_ofds s) i
                    | HPipeR j => stat_r (s_pipes s) j
                    | HPipeW j => stat_w (s_pipes s) j
                    | HSink _ | HNull => true
                    end.
Proof. destruct h; reflexivity. Qed.

Definition closable (h : handle) : bool :=
  match h with HOfd _ | HPipeR _ | HPipeW _ => true | _ => false end.

Lemma handle_eqb_eq a b : handle_eqb a b = true <-> a = b.
Proof.
  destruct a, b; simpl; split; intros H; try discriminate; try reflexivity;
    try (apply Nat.eqb_eq in H; congruence); try (inversion H; apply Nat.eqb_refl).
Qed.

Lemma handle_eqb_refl a : handle_eqb a a = true.
Proof. apply handle_eqb_eq; reflexivity. Qed.

(* the state after s, as far as the ledger is concerned: the same handles are
   open and as many goroutines are alive *)
Definition ext (s s' : st) : Prop :=
  (forall h, handle_open s' h = handle_open s h) /\ live_gor s' = live_gor s.

(* ... except that the handles for which [c] holds have been closed *)
Definition closes (c : handle -> bool) (s s' : st) : Prop :=
  (forall h, handle_open s' h = if c h then false else handle_open s h) /\ live_gor s' = live_gor s.

Lemma ext_refl s : ext s s.
Proof. split; auto. Qed.

Lemma ext_trans a b c : ext a b -> ext b c -> ext a c.
Proof. intros [H1 G1] [H2 G2]. split; [intros h; rewrite H2; apply H1|congruence]. Qed.

Lemma ext_sym a b : ext a b -> ext b a.
Proof. intros [H1 G1]. split; [intros h; symmetry; apply H1|congruence]. Qed.

Lemma closes_none s s' : closes (fun _ => false) s s' <-> ext s s'.
Proof. unfold closes, ext; split; intros [H G]; split; auto. Qed.

Lemma closes_same c s : (forall h, c h = false) -> closes c s s.
Proof. intros H. split; [intros h; rewrite H; reflexivity|reflexivity]. Qed.

(* states that agree on descriptors, pipes and goroutine counters *)
Lemma ext_by_fields s s' :
  s_ofds s' = s_ofds s -> s_pipes s' = s_pipes s ->
  l_spawn (s_led s') = l_spawn (s_led s) -> l_join (s_led s') = l_join (s_led s) -> ext s s'.
Proof.
  intros H1 H2 H3 H4. split.
  - intros h. rewrite !handle_open_stat, H1, H2. reflexivity.
  - unfold live_gor. rewrite H3, H4. reflexivity.
Qed.

Lemma stat_o_upd l i o o' k :
  nth_error l i = Some o -> o_open o' = o_open o -> stat_o (list_upd l i o') k = stat_o l k.
Proof.
  intros H E. unfold stat_o. destruct (Nat.eq_dec i k) as [->|N].
  - rewrite nth_error_upd_same, H; auto. apply nth_error_Some. congruence.
  - rewrite nth_error_upd_other; auto.
Qed.

Lemma stat_r_upd l j p p' k :
  nth_error l j = Some p -> pi_r p' = pi_r p -> stat_r (list_upd l j p') k = stat_r l k.
Proof.
  intros H E. unfold stat_r. destruct (Nat.eq_dec j k) as [->|N].
  - rewrite nth_error_upd_same, H; auto. apply nth_error_Some. congruence.
  - rewrite nth_error_upd_other; auto.
Qed.

Lemma stat_w_upd l j p p' k :
  nth_error l j = Some p -> pi_w p' = pi_w p -> stat_w (list_upd l j p') k = stat_w l k.
Proof.
  intros H E. unfold stat_w. destruct (Nat.eq_dec j k) as [->|N].
  - rewrite nth_error_upd_same, H; auto. apply nth_error_Some. congruence.
  - rewrite nth_error_upd_other; auto.
Qed.

(* result shape used everywhere: on both normal and exceptional exit *)
Definition okx (R : st -> Prop) (r : res st) : Prop :=
  match r with Ok s' | Exc _ s' => R s' | Crash | Unmod => True end.

Lemma okx_bind (s : st) (r : res st) (k : st -> res st) :
  okx (ext s) r -> (forall s1, r = Ok s1 -> okx (ext s1) (k s1)) -> okx (ext s) (bind r k).
Proof.
  intros H1 H2. destruct r as [a|e a| |]; simpl in *; auto.
  specialize (H2 a eq_refl). destruct (k a); simpl in *; eauto using ext_trans.
Qed.

(* ---------------------------------------------------------------- os.File operations *)
Lemma write_bytes_ext s f b : okx (ext s) (write_bytes s f b).
Proof.
  unfold write_bytes. destruct f as [[i|k| |j|j]|]; simpl; try apply ext_refl.
  - destruct (nth_error (s_ofds s) i) as [o|] eqn:E; simpl; auto.
    destruct (o_open o) eqn:Eo; simpl; [|apply ext_refl].
    destruct (o_wr o); simpl; [|apply ext_refl].
    split; [|reflexivity]. intros h. rewrite !handle_open_stat. simpl.
    destruct h; auto. apply stat_o_upd with (o := o); auto.
  - destruct (nth_error (s_bs s) k); simpl; auto. apply ext_by_fields; reflexivity.
  - destruct (nth_error (s_pipes s) j) as [p|] eqn:E; simpl; auto.
    destruct (pi_w p) eqn:Ew; simpl; [|apply ext_refl].
    destruct (pi_r p) eqn:Er; simpl; [|apply ext_refl].
    split; [|reflexivity]. intros h. rewrite !handle_open_stat. simpl.
    destruct h; auto.
    + apply stat_r_upd with (p := p); auto.
    + apply stat_w_upd with (p := p); auto.
Qed.

Lemma read_all_ext s f :
  match read_all s f with Ok (_, s') | Exc _ s' => ext s s' | _ => True end.
Proof.
  unfold read_all. destruct f as [[i|k| |j|j]|]; simpl; try apply ext_refl.
  - destruct (nth_error (s_ofds s) i) as [o|] eqn:E; simpl; auto.
    destruct (o_open o) eqn:Eo; simpl; [|apply ext_refl].
    destruct (o_rd o); simpl; [|apply ext_refl].
    split; [|reflexivity]. intros h. rewrite !handle_open_stat. simpl.
    destruct h; auto. apply stat_o_upd with (o := o); auto.
  - destruct (nth_error (s_pipes s) j) as [p|] eqn:E; simpl; auto.
    destruct (pi_r p) eqn:Er; simpl; [|apply ext_refl].
    destruct (pi_w p) eqn:Ew; simpl; auto.
    split; [|reflexivity]. intros h. rewrite !handle_open_stat. simpl.
    destruct h; auto.
    + apply stat_r_upd with (p := p); auto.
    + apply stat_w_upd with (p := p); auto.
Qed.

Lemma put_value_ext s c : okx (ext s) (put_value s c).
Proof.
  unfold put_value. destruct c as [k| | |j]; simpl; try apply ext_refl; auto.
  destruct (nth_error (s_pipes s) j) as [p|] eqn:E; simpl; auto.
  split; [|reflexivity]. intros h. rewrite !handle_open_stat. simpl.
  destruct h; auto.
  - apply stat_r_upd with (p := p); auto.
  - apply stat_w_upd with (p := p); auto.
Qed.

Lemma put_values_ext n : forall s c, okx (ext s) (put_values n s c).
Proof.
  induction n as [|n IH]; intros s c; simpl; [apply ext_refl|].
  pose proof (put_value_ext s c) as H. destruct (put_value s c) as [s1|e s1| |]; simpl in *; auto.
  specialize (IH s1 c). destruct (put_values n s1 c); simpl in *; eauto using ext_trans.
Qed.

(* closing one handle *)
Lemma close_handle_closes s h0 :
  closable h0 = true -> closes (handle_eqb h0) s (close_handle s h0).
Proof.
  intros Hc. destruct h0 as [i|k| |j|j]; try discriminate; unfold close_handle.
  - destruct (nth_error (s_ofds s) i) as [o|] eqn:E.
    + destruct (o_open o) eqn:Eo.
      * split; [|reflexivity]. intros h. rewrite !handle_open_stat. simpl.
        destruct h as [i'| | | |]; simpl; auto.
        unfold stat_o. destruct (Nat.eqb_spec i i') as [->|N].
        -- rewrite nth_error_upd_same; auto. apply nth_error_Some; congruence.
        -- rewrite nth_error_upd_other; auto.
      * split; [|reflexivity]. intros h. destruct (handle_eqb (HOfd i) h) eqn:Eh; auto.
        apply handle_eqb_eq in Eh; subst h. simpl. rewrite E. auto.
    + split; [|reflexivity]. intros h. destruct (handle_eqb (HOfd i) h) eqn:Eh; auto.
      apply handle_eqb_eq in Eh; subst h. simpl. rewrite E. auto.
  - destruct (nth_error (s_pipes s) j) as [p|] eqn:E.
    + destruct (pi_r p) eqn:Eo.
      * split; [|reflexivity]. intros h. rewrite !handle_open_stat. simpl.
        destruct h as [ | | |j'|j']; simpl; auto.
        -- unfold stat_r. destruct (Nat.eqb_spec j j') as [->|N].
           ++ rewrite nth_error_upd_same; auto. apply nth_error_Some; congruence.
           ++ rewrite nth_error_upd_other; auto.
        -- apply stat_w_upd with (p := p); auto.
      * split; [|reflexivity]. intros h. destruct (handle_eqb (HPipeR j) h) eqn:Eh; auto.
        apply handle_eqb_eq in Eh; subst h. simpl. rewrite E. auto.
    + split; [|reflexivity]. intros h. destruct (handle_eqb (HPipeR j) h) eqn:Eh; auto.
      apply handle_eqb_eq in Eh; subst h. simpl. rewrite E. auto.
  - destruct (nth_error (s_pipes s) j) as [p|] eqn:E.
    + destruct (pi_w p) eqn:Eo.
      * split; [|reflexivity]. intros h. rewrite !handle_open_stat. simpl.
        destruct h as [ | | |j'|j']; simpl; auto.
        -- apply stat_r_upd with (p := p); auto.
        -- unfold stat_w. destruct (Nat.eqb_spec j j') as [->|N].
           ++ rewrite nth_error_upd_same; auto. apply nth_error_Some; congruence.
           ++ rewrite nth_error_upd_other; auto.
      * split; [|reflexivity]. intros h. destruct (handle_eqb (HPipeW j) h) eqn:Eh; auto.
        apply handle_eqb_eq in Eh; subst h. simpl. rewrite E. auto.
    + split; [|reflexivity]. intros h. destruct (handle_eqb (HPipeW j) h) eqn:Eh; auto.
      apply handle_eqb_eq in Eh; subst h. simpl. rewrite E. auto.
Qed.

(* the handles a form owns: position by position, as close_fops walks them *)
Fixpoint heldb (T : table) (F : list fop) (h : handle) : bool :=
  match F, T with
  | f :: F', p :: T' =>
    (fo_file f && match p with
                  | Some p => match p_file p with Some h' => handle_eqb h' h | None => false end
                  | None => false
                  end) || heldb T' F' h
  | _, _ => false
  end.

Lemma close_fop_closes s f p :
  (fo_file f = true -> forall h', p_file p = Some h' -> closable h' = true) ->
  closes (fun h => fo_file f && match p_file p with Some h' => handle_eqb h' h | None => false end)
         s (close_fop s f p).
Proof.
  intros Hc. unfold close_fop. destruct (fo_file f) eqn:Ef; simpl.
  - destruct (p_file p) as [h'|] eqn:Ep.
    + apply close_handle_closes. auto.
    + apply closes_same; auto.
  - apply closes_same; auto.
Qed.

Lemma close_fops_closes : forall F T s,
  (forall h, heldb T F h = true -> closable h = true) ->
  closes (heldb T F) s (close_fops s T F).
Proof.
  induction F as [|f F IH]; intros T s Hc.
  - destruct T; simpl; apply closes_same; auto.
  - destruct T as [|p T]; [simpl; apply closes_same; auto|].
    simpl close_fops.
    assert (Hc' : forall h, heldb T F h = true -> closable h = true).
    { intros h Hh. apply Hc. simpl. rewrite Hh. apply orb_true_r. }
    destruct p as [p|].
    + assert (Hp : fo_file f = true -> forall h', p_file p = Some h' -> closable h' = true).
      { intros Ef h' Ep. apply Hc. simpl. rewrite Ef, Ep, handle_eqb_refl. reflexivity. }
      destruct (close_fop_closes s f p Hp) as [H1 G1].
      destruct (IH T (close_fop s f p) Hc') as [H2 G2].
      split; [|congruence]. intros h. rewrite H2, H1. simpl.
      destruct (fo_file f && match p_file p with Some h' => handle_eqb h' h | None => false end);
        destruct (heldb T F h); reflexivity.
    + destruct (IH T s Hc') as [H2 G2]. split; [|assumption].
      intros h. rewrite H2. simpl. rewrite andb_false_r. reflexivity.
Qed.

(* ---------------------------------------------------------------- counting *)
Lemma count_open_stat : forall l l',
  (forall i, stat_o l' i = stat_o l i) -> count_open_ofds l' = count_open_ofds l.
Proof.
  assert (Z0 : forall l, (forall i, stat_o l i = false) -> count_open_ofds l = 0).
  { induction l as [|o l IH]; intros H; auto. unfold count_open_ofds in *. simpl.
    pose proof (H 0) as H0. unfold stat_o in H0. simpl in H0. rewrite H0.
    apply IH. intros i. apply (H (S i)). }
  induction l as [|o l IH]; intros l' H.
  - rewrite Z0; [reflexivity|]. intros i. rewrite H. destruct i; reflexivity.
  - destruct l' as [|o' l'].
    + symmetry. apply Z0. intros i. rewrite <- H. unfold stat_o. destruct i; reflexivity.
    + unfold count_open_ofds in *. simpl.
      pose proof (H 0) as H0. unfold stat_o in H0. simpl in H0. rewrite H0.
      specialize (IH l' (fun i => H (S i))).
      destruct (o_open o); simpl; congruence.
Qed.

Lemma count_pipe_stat : forall l l',
  (forall j, stat_r l' j = stat_r l j) -> (forall j, stat_w l' j = stat_w l j) ->
  count_pipe_ends l' = count_pipe_ends l.
Proof.
  assert (Z0 : forall l, (forall j, stat_r l j = false) -> (forall j, stat_w l j = false) ->
                         count_pipe_ends l = 0).
  { induction l as [|p l IH]; intros Hr Hw; auto. simpl.
    pose proof (Hr 0) as R0. pose proof (Hw 0) as W0. unfold stat_r, stat_w in R0, W0. simpl in *.
    unfold pipe_ends. rewrite R0, W0. simpl.
    apply IH; intros j; [apply (Hr (S j))|apply (Hw (S j))]. }
  induction l as [|p l IH]; intros l' Hr Hw.
  - rewrite Z0; [reflexivity| |]; intros j; [rewrite Hr|rewrite Hw]; destruct j; reflexivity.
  - destruct l' as [|p' l'].
    + symmetry. apply Z0; intros j; [rewrite <- Hr|rewrite <- Hw]; destruct j; reflexivity.
    + simpl.
      pose proof (Hr 0) as R0. pose proof (Hw 0) as W0. unfold stat_r, stat_w in R0, W0. simpl in *.
      unfold pipe_ends. rewrite R0, W0.
      rewrite (IH l' (fun j => Hr (S j)) (fun j => Hw (S j))). reflexivity.
Qed.

(* what the census sees *)
Lemma ext_live s s' : ext s s' -> live_fds s' = live_fds s /\ live_gor s' = live_gor s.
Proof.
  intros [H G]. split; auto. unfold live_fds. f_equal.
  - apply count_open_stat. intros i. specialize (H (HOfd i)). rewrite !handle_open_stat in H. exact H.
  - apply count_pipe_stat; intros j.
    + specialize (H (HPipeR j)). rewrite !handle_open_stat in H. exact H.
    + specialize (H (HPipeW j)). rewrite !handle_open_stat in H. exact H.
Qed.
