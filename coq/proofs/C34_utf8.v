(* C34 — locality of utf8.DecodeRune: decoding a string that was cut at or after
   the end of its first character, possibly followed by ASCII, gives the same
   first character.  Consequence: re-decoding a character-boundary prefix of a
   string (plus padding spaces) yields the same characters. *)
From verif Require Import lib.Base lib.Utf8 model.C34_width proofs.C34_proofs.
Open Scope N_scope.

Definition ascii_or_nil (t : bytes) : Prop := match t with [] => True | c :: _ => c < 128 end.

Lemma first_info_lo p sz lo hi : first_info p = Some (sz, lo, hi) -> 128 <= lo.
Proof.
  unfold first_info.
  repeat match goal with |- context [if ?c then _ else _] => destruct c end;
    intros H; inversion H; subst; lia.
Qed.

Lemma ascii_not_cont c : c < 128 -> is_cont c = false.
Proof. intros H. unfold is_cont. destruct (128 <=? c) eqn:E; [apply N.leb_le in E; lia | reflexivity]. Qed.

Lemma ascii_below c lo hi : c < 128 -> 128 <= lo -> (c <? lo) || (hi <? c) = true.
Proof. intros H1 H2. apply orb_true_iff. left. apply N.ltb_lt. lia. Qed.

Ltac break_ifs :=
  repeat match goal with
         | |- context [if ?c then _ else _] => destruct c eqn:?
         end.

Ltac finish :=
  let H := fresh "H" in
  intros H; first [exact H | inversion H; subst; first [reflexivity | lia]].

Lemma decode_stable s r k m t :
  decode_rune s = (r, k) -> (1 <= k)%nat -> (k <= m)%nat -> ascii_or_nil t ->
  decode_rune (firstn m s ++ t) = (r, k).
Proof.
  intros H Hk Hm Ht. revert H.
  destruct s as [|p0 [|b1 [|b2 [|b3 s']]]];
    destruct m as [|[|[|[|m]]]]; try lia;
    destruct t as [|c t']; cbn [firstn app ascii_or_nil] in *; rewrite ?firstn_nil; cbn [app];
    unfold decode_rune;
    try (intros H; inversion H; subst; lia);
    (destruct (p0 <? 128); [finish|]);
    (destruct (first_info p0) as [[[sz lo] hi]|] eqn:Efi; [|finish]);
    pose proof (first_info_lo _ _ _ _ Efi) as Hlo;
    try (rewrite (ascii_below c lo hi Ht Hlo));
    try (rewrite (ascii_not_cont c Ht)); cbn [negb];
    destruct sz as [|[|[|[|sz]]]];
    break_ifs; finish.
Qed.
