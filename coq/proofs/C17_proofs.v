(* C17 — proofs about the models in model/C17.v *)
From verif Require Import lib.Base model.C17.
From Coq Require Import ZifyBool ZifyNat.
Open Scope Z_scope.

(* ------------------------------------------------------------------ *)
(* checked indexing *)

Lemma set_nth_length {A} (l : list A) n x : length (set_nth l n x) = length l.
Proof.
  revert n; induction l as [|y l IH]; intros [|n]; simpl; auto.
Qed.

Lemma nth_error_set_nth_other {A} (l : list A) n m x :
  n <> m -> nth_error (set_nth l n x) m = nth_error l m.
Proof.
  revert n m; induction l as [|y l IH]; intros [|n] [|m] Hne; simpl; auto; try congruence.
Qed.

Lemma idx_ok {A} (l : list A) i :
  0 <= i < zlen l -> exists x, idx l i = Ok x.
Proof.
  intros Hi. unfold idx, go_index.
  destruct ((0 <=? i) && (i <? zlen l)) eqn:E; [|lia].
  destruct (nth_error l (Z.to_nat i)) eqn:En; [eauto|].
  apply nth_error_None in En. unfold zlen in Hi. lia.
Qed.

Lemma idx_inv {A} (l : list A) i x :
  idx l i = Ok x -> 0 <= i < zlen l /\ nth_error l (Z.to_nat i) = Some x.
Proof.
  unfold idx, go_index. destruct ((0 <=? i) && (i <? zlen l)) eqn:E; [|discriminate].
  destruct (nth_error l (Z.to_nat i)) eqn:En; [|discriminate].
  intros H; inversion H; subst. split; [lia|reflexivity].
Qed.

Lemma idx_not_err {A} (l : list A) i e : idx l i <> Err e.
Proof. unfold idx. destruct (go_index l i); discriminate. Qed.

Lemma sto_ok {A} (l : list A) i x :
  0 <= i < zlen l -> sto l i x = Ok (set_nth l (Z.to_nat i) x).
Proof.
  intros Hi. unfold sto, go_store.
  destruct ((0 <=? i) && (i <? zlen l)) eqn:E; [reflexivity|lia].
Qed.

Lemma sto_inv {A} (l : list A) i x l' :
  sto l i x = Ok l' -> 0 <= i < zlen l /\ l' = set_nth l (Z.to_nat i) x.
Proof.
  unfold sto, go_store. destruct ((0 <=? i) && (i <? zlen l)) eqn:E; [|discriminate].
  intros H; inversion H; subst. split; [lia|reflexivity].
Qed.

Lemma slc_ok {A} (l : list A) a b :
  0 <= a -> a <= b -> b <= zlen l ->
  slc l a b = Ok (firstn (Z.to_nat (b - a)) (skipn (Z.to_nat a) l)).
Proof.
  intros. unfold slc, go_slice.
  destruct ((0 <=? a) && (a <=? b) && (b <=? zlen l)) eqn:E; [reflexivity|lia].
Qed.

Lemma zlen_set_nth {A} (l : list A) n x : zlen (set_nth l n x) = zlen l.
Proof. unfold zlen. now rewrite set_nth_length. Qed.

Lemma zlen_app {A} (a b : list A) : zlen (a ++ b) = zlen a + zlen b.
Proof. unfold zlen. rewrite app_length. lia. Qed.

Lemma zlen_repeat {A} (x : A) n : zlen (repeat x n) = Z.of_nat n.
Proof. unfold zlen. now rewrite repeat_length. Qed.

Lemma zlen_nonneg {A} (l : list A) : 0 <= zlen l.
Proof. unfold zlen. lia. Qed.

(* ================================================================== *)
(* D. math:pow *)

Lemma rat_inv_ok n d : n <> 0 -> exists a b, rat_inv n d = Ok (a, b) /\ b <> 0.
Proof.
  intros Hn. unfold rat_inv.
  destruct (n =? 0) eqn:E0; [lia|].
  destruct (n <? 0) eqn:E1; eexists; eexists; (split; [reflexivity|lia]).
Qed.

Lemma set_frac_no_panic a b : b <> 0 -> is_panic (set_frac a b) = false.
Proof.
  intros Hb. unfold set_frac. destruct (b =? 0) eqn:E; [lia|reflexivity].
Qed.

Lemma pow_no_panic bn bd e : 0 < bd -> is_panic (pow_exact bn bd e) = false.
Proof.
  intros Hbd. unfold pow_exact.
  destruct ((bn =? 0) && (e <? 0)) eqn:Ez; [reflexivity|].
  assert (Hdom : bn <> 0 \/ 0 <= e) by lia.
  destruct (e =? 0) eqn:E0; [reflexivity|].
  destruct (e =? 1) eqn:E1; [reflexivity|].
  destruct (e =? -1) eqn:Em1.
  { destruct Hdom as [Hb|He]; [|lia].
    destruct (rat_inv_ok bn bd Hb) as (a & b & -> & _). reflexivity. }
  destruct ((bd =? 1) && (e >? 0)) eqn:Ei; [reflexivity|].
  destruct (e <? 0) eqn:Eneg.
  - destruct Hdom as [Hb|He]; [|lia].
    destruct (rat_inv_ok bn bd Hb) as (a & b & -> & Hb0). cbn [bind fst snd].
    apply set_frac_no_panic. apply Z.pow_nonzero; lia.
  - cbn [bind fst snd]. apply set_frac_no_panic. apply Z.pow_nonzero; lia.
Qed.

(* zero to a negative integer power is the divide-by-zero (bad value) exception *)
Lemma pow_zero_neg_is_exception bd e : e < 0 -> pow_exact 0 bd e = Err EBadValue.
Proof.
  intros He. unfold pow_exact. destruct ((0 =? 0) && (e <? 0)) eqn:E; [reflexivity|lia].
Qed.

(* ================================================================== *)
(* C. port table *)

Lemma grow_access_ok {T} (zero : T) limit s i :
  0 <= i -> i + 1 <= limit ->
  exists s', grow_access zero limit s i = Ok s' /\ i < zlen s' /\ zlen s <= zlen s'
             /\ (forall k, (k < length s)%nat -> nth_error s' k = nth_error s k).
Proof.
  intros Hi Hl. unfold grow_access.
  destruct (i >=? zlen s) eqn:E.
  - destruct (i + 1 >? limit) eqn:El; [lia|].
    eexists; split; [reflexivity|]. rewrite zlen_app, zlen_repeat.
    pose proof (zlen_nonneg s). repeat split; try lia.
    intros k Hk. now rewrite nth_error_app1.
  - destruct (i <? 0) eqn:En; [lia|]. exists s. repeat split; auto; lia.
Qed.

Lemma grow_access_negative {T} (zero : T) limit s i :
  i < 0 -> grow_access zero limit s i = Panic PIndex.
Proof.
  intros Hi. unfold grow_access. pose proof (zlen_nonneg s).
  destruct (i >=? zlen s) eqn:E; [lia|]. destruct (i <? 0) eqn:En; [reflexivity|lia].
Qed.

Lemma grow_access_huge {T} (zero : T) limit s i :
  zlen s <= i -> limit < i + 1 -> grow_access zero limit s i = Panic PMakeSlice.
Proof.
  intros Hi Hl. unfold grow_access.
  destruct (i >=? zlen s) eqn:E; [|lia]. destruct (i + 1 >? limit) eqn:El; [reflexivity|lia].
Qed.

(* operands the partial theorem admits: any fd, negative ones included, whose
   table would still be allocated *)
Definition dst_ok (limit : Z) (v : fdval) : Prop :=
  match v with
  | FdNum z => z + 1 <= limit
  | FdName k => k + 1 <= limit
  | _ => True
  end.

Definition redir_ok (limit : Z) (r : redir) : Prop :=
  match r_dst r with Some v => dst_ok limit v | None => True end.

Lemma dst_eval_cases limit r :
  2 <= limit -> redir_ok limit r ->
  (exists e, dst_eval r = Err e) \/ exists d, dst_eval r = Ok d /\ 0 <= d /\ d + 1 <= limit.
Proof.
  intros Hlim Hd. unfold dst_eval, redir_ok in *. destruct (r_dst r) as [v|].
  - destruct v as [z|k| |]; cbn in *; eauto.
    + destruct (z <? 0) eqn:E; [eauto|]. right; eexists; (split; [reflexivity|lia]).
    + destruct (k <? 0) eqn:E; [eauto|]. right; eexists; (split; [reflexivity|lia]).
  - right. destruct (r_mode r); eexists; (split; [reflexivity|lia]).
Qed.

Lemma redir_exec_no_panic limit st r :
  2 <= limit -> redir_ok limit r -> is_panic (redir_exec limit st r) = false.
Proof.
  intros Hlim Hd. destruct st as [ports fops]. unfold redir_exec.
  destruct (dst_eval_cases limit r Hlim Hd) as [[e ->]|(d & -> & Hd0 & Hd1)]; [reflexivity|]. cbn [bind].
  destruct (grow_access_ok (@None port) limit ports d Hd0 Hd1) as (p1 & -> & Hp1 & _ & _). cbn [bind].
  destruct (grow_access_ok (mkFop false false) limit fops d Hd0 Hd1) as (f1 & -> & Hf1 & _ & _). cbn [bind].
  destruct (idx_ok p1 d) as [cur ->]; [lia|]. cbn [bind].
  assert (Hf2 : exists f2, match cur with
                           | Some _ => sto f1 d (mkFop false false)
                           | None => Ok f1 end = Ok f2 /\ zlen f2 = zlen f1).
  { destruct cur; [|eauto]. rewrite sto_ok by lia. eexists; split; [reflexivity|apply zlen_set_nth]. }
  destruct Hf2 as (f2 & -> & Hf2). cbn [bind].
  destruct (r_src r) as [v| name | | | |]; try reflexivity.
  - (* fd source: any integer *)
    destruct (eval_for_fd v true) as [s| |] eqn:Es;
      [|reflexivity|destruct v; cbn in Es; discriminate].
    cbn [bind].
    destruct (s =? -1) eqn:Em1.
    { rewrite sto_ok by lia. reflexivity. }
    destruct ((s <? 0) || (s >=? zlen p1)) eqn:Ege; [reflexivity|].
    destruct (idx_ok p1 s) as [sp ->]; [lia|]. cbn [bind].
    destruct sp; [|reflexivity]. rewrite sto_ok by lia. reflexivity.
  - (* file *)
    rewrite sto_ok by lia. cbn [bind].
    destruct (idx_ok f2 d) as [f ->]; [lia|]. cbn [bind].
    rewrite sto_ok by lia. reflexivity.
  - destruct (r_mode r); rewrite sto_ok by lia; reflexivity.
Qed.

Lemma redirs_exec_no_panic limit rs : forall st,
  2 <= limit -> Forall (redir_ok limit) rs -> is_panic (redirs_exec limit st rs) = false.
Proof.
  induction rs as [|r rs IH]; intros st Hlim Hall; [reflexivity|].
  inversion Hall as [|? ? Hr Hrs]; subst. cbn [redirs_exec].
  pose proof (redir_exec_no_panic limit st r Hlim Hr) as Hnp.
  destruct (redir_exec limit st r) as [st'| |]; cbn [bind]; [apply IH; auto|reflexivity|discriminate].
Qed.

(* a negative destination or source fd is the invalid-fd exception *)
Lemma port_negative_dst_is_exception limit st z m s :
  z < 0 -> redir_exec limit st (mkRedir (Some (FdNum z)) m s) = Err EInvalidFD.
Proof.
  intros Hz. destruct st as [ports fops]. unfold redir_exec, dst_eval. cbn [r_dst eval_for_fd bind].
  destruct (z <? 0) eqn:E; [reflexivity|lia].
Qed.

Lemma port_negative_src_is_exception :
  redir_exec 1000 (form_start false false) (mkRedir None MWrite (SrcFd (FdNum (-2)))) = Err EInvalidFD.
Proof. reflexivity. Qed.

Lemma port_huge_fd_refuted :
  exists limit st r, 2 <= limit /\ redir_exec limit st r = Panic PMakeSlice.
Proof.
  exists 1000, (form_start false false), (mkRedir (Some (FdNum 1000000000000)) MWrite (SrcFileOk 1%N)).
  split; [lia|reflexivity].
Qed.

(* Frame.Port *)
Lemma frame_port_no_panic ports i : is_panic (frame_port ports i) = false.
Proof.
  unfold frame_port. destruct ((i <? 0) || (i >=? zlen ports)) eqn:E; [reflexivity|].
  destruct (idx_ok ports i) as [x ->]; [lia|reflexivity].
Qed.

(* --- the end-of-form bookkeeping: port 0 must still be the pipe's port --- *)

Definition dst_of (r : redir) : option Z :=
  match r_dst r with
  | None => Some (match r_mode r with MRead => 0 | _ => 1 end)
  | Some (FdNum z) => Some z
  | Some (FdName k) => Some k
  | Some _ => None
  end.

Definition leaves_stdin (r : redir) : Prop :=
  match dst_of r with Some d => d <> 0 | None => True end.

Definition port0 (st : pstate) : option (option port) := nth_error (fst st) 0%nat.

Lemma redir_exec_keeps_port0 limit st r st' :
  leaves_stdin r -> redir_exec limit st r = Ok st' ->
  (0 < length (fst st))%nat -> port0 st' = port0 st /\ (0 < length (fst st'))%nat.
Proof.
  intros Hls Hex Hlen. destruct st as [ports fops]. cbn [fst] in Hlen. unfold redir_exec in Hex.
  unfold leaves_stdin, dst_of in Hls.
  destruct (dst_eval r) as [d| |] eqn:Ed; try discriminate.
  assert (Hd : d <> 0).
  { unfold dst_eval in Ed. destruct (r_dst r) as [v|].
    - destruct v as [z|k| |]; cbn in Ed; try discriminate.
      + destruct (z <? 0); [discriminate|]. inversion Ed; subst. auto.
      + destruct (k <? 0); [discriminate|]. inversion Ed; subst. auto.
    - inversion Ed; subst. auto. }
  cbn [bind] in Hex.
  destruct (grow_access (@None port) limit ports d) as [p1| |] eqn:Eg; try discriminate. cbn [bind] in Hex.
  assert (Hp1 : nth_error p1 0%nat = nth_error ports 0%nat /\ (0 < length p1)%nat).
  { unfold grow_access in Eg. destruct (d >=? zlen ports).
    - destruct (d + 1 >? limit); [discriminate|]. inversion Eg; subst.
      rewrite nth_error_app1 by exact Hlen. rewrite app_length. split; [reflexivity|lia].
    - destruct (d <? 0); [discriminate|]. inversion Eg; subst. auto. }
  destruct Hp1 as [Hp1 Hl1].
  destruct (grow_access (mkFop false false) limit fops d) as [f1| |]; try discriminate. cbn [bind] in Hex.
  destruct (idx p1 d) as [cur| |]; try discriminate. cbn [bind] in Hex.
  destruct (match cur with Some _ => sto f1 d (mkFop false false) | None => Ok f1 end) as [f2| |];
    try discriminate. cbn [bind] in Hex.
  assert (Hsto : forall x p', sto p1 d x = Ok p' ->
                 nth_error p' 0%nat = nth_error ports 0%nat /\ (0 < length p')%nat).
  { intros x p' Hs. apply sto_inv in Hs as [Hr ->].
    rewrite nth_error_set_nth_other by lia. rewrite set_nth_length. auto. }
  unfold port0. cbn [fst].
  destruct (r_src r) as [v| name | | | |]; try discriminate.
  - destruct (eval_for_fd v true) as [s| |]; try discriminate. cbn [bind] in Hex.
    destruct (s =? -1).
    { destruct (sto p1 d (Some PClosed)) as [p'| |] eqn:Es; try discriminate.
      inversion Hex; subst. cbn [fst]. eapply Hsto; eauto. }
    destruct ((s <? 0) || (s >=? zlen p1)); [discriminate|].
    destruct (idx p1 s) as [sp| |]; try discriminate. cbn [bind] in Hex.
    destruct sp as [p|]; [|discriminate].
    destruct (sto p1 d (Some p)) as [p'| |] eqn:Es; try discriminate.
    inversion Hex; subst. cbn [fst]. eapply Hsto; eauto.
  - destruct (sto p1 d (Some (PFile name))) as [p'| |] eqn:Es; try discriminate. cbn [bind] in Hex.
    destruct (idx f2 d) as [f| |]; try discriminate. cbn [bind] in Hex.
    destruct (sto f2 d (mkFop true (f_chan f))) as [f'| |]; try discriminate.
    inversion Hex; subst. cbn [fst]. eapply Hsto; eauto.
  - destruct (r_mode r); destruct (sto p1 d (Some PValue)) as [p'| |] eqn:Es; try discriminate;
      inversion Hex; subst; cbn [fst]; eapply Hsto; eauto.
Qed.

Lemma redirs_exec_partial_spec limit rs : forall st,
  2 <= limit -> Forall (redir_ok limit) rs -> Forall leaves_stdin rs ->
  (0 < length (fst st))%nat ->
  let '(st', r) := redirs_exec_partial limit st rs in
  port0 st' = port0 st /\ is_panic r = false.
Proof.
  induction rs as [|r rs IH]; intros st Hlim Hok Hls Hlen; cbn [redirs_exec_partial].
  - split; reflexivity.
  - inversion Hok as [|? ? Hr Hrs]; subst. inversion Hls as [|? ? Hl Hlr]; subst.
    pose proof (redir_exec_no_panic limit st r Hlim Hr) as Hnp.
    destruct (redir_exec limit st r) as [st1| |] eqn:Ex; [|split; reflexivity|discriminate].
    destruct (redir_exec_keeps_port0 limit st r st1 Hl Ex Hlen) as [Hp0 Hlen1].
    specialize (IH st1 Hlim Hrs Hlr Hlen1).
    destruct (redirs_exec_partial limit st1 rs) as [st' r']. rewrite <- Hp0. exact IH.
Qed.

Lemma form_exec_no_panic_partial limit ip op rs :
  2 <= limit -> Forall (redir_ok limit) rs ->
  (ip = true -> Forall leaves_stdin rs) ->
  is_panic (form_exec limit ip op rs) = false.
Proof.
  intros Hlim Hok Hls. unfold form_exec.
  destruct ip.
  - pose proof (redirs_exec_partial_spec limit rs (form_start true op) Hlim Hok (Hls eq_refl)) as H.
    assert (Hlen : (0 < length (fst (form_start true op)))%nat) by (cbn; lia).
    specialize (H Hlen).
    destruct (redirs_exec_partial limit (form_start true op) rs) as [st' r]. destruct H as [Hp0 Hr].
    assert (Hfin : form_finish true st' = Ok tt).
    { unfold form_finish. unfold port0 in Hp0. cbn [form_start fst nth_error] in Hp0.
      unfold idx, go_index. destruct (fst st') as [|p0 rest]; [discriminate|].
      cbn in Hp0. inversion Hp0; subst.
      replace ((0 <=? 0) && (0 <? zlen (Some PPipeIn :: rest))) with true
        by (unfold zlen; cbn [length]; lia).
      reflexivity. }
    destruct r; [rewrite Hfin; reflexivity|rewrite Hfin; reflexivity|discriminate].
  - assert (H : let '(st', r) := redirs_exec_partial limit (form_start false op) rs in is_panic r = false).
    { clear Hls. generalize (form_start false op) as st.
      induction rs as [|r rs IH]; intros st; cbn [redirs_exec_partial]; [reflexivity|].
      inversion Hok as [|? ? Hr Hrs]; subst.
      pose proof (redir_exec_no_panic limit st r Hlim Hr) as Hnp.
      destruct (redir_exec limit st r); [apply IH; auto|reflexivity|discriminate]. }
    destruct (redirs_exec_partial limit (form_start false op) rs) as [st' r].
    destruct r; [reflexivity|reflexivity|discriminate].
Qed.

Lemma pipeline_stdin_redirect_refuted :
  exists limit rs, 2 <= limit /\ Forall (redir_ok limit) rs
                   /\ form_exec limit true false rs = Panic PNilDeref.
Proof.
  exists 1000, [mkRedir None MRead (SrcFileOk 1%N)]. split; [lia|]. split; [|reflexivity].
  constructor; [|constructor]. exact I.
Qed.

Lemma pipeline_stdin_close_refuted :
  exists limit rs, 2 <= limit /\ Forall (redir_ok limit) rs
                   /\ form_exec limit true false rs = Panic PCloseClosed.
Proof.
  exists 1000, [mkRedir None MRead (SrcFd FdDash)]. split; [lia|]. split; [|reflexivity].
  constructor; [|constructor]. exact I.
Qed.

(* ================================================================== *)
(* E. HasSubseq: the former crash witnesses *)

Lemma has_subseq_former_witnesses :
  go_has_subseq [255%N] [255%N] = Ok true
  /\ go_has_subseq [97%N; 195%N] [239%N; 191%N; 189%N] = Ok true.
Proof. split; vm_compute; reflexivity. Qed.

(* ================================================================== *)
(* F. randint *)

Definition int64 (z : Z) : Prop := - 2 ^ 63 <= z < 2 ^ 63.

Lemma randint_small_no_panic low high :
  int64 low -> int64 high -> is_panic (randint_small low high) = false.
Proof.
  unfold int64. intros Hl Hh. unfold randint_small, rand_intn, big_rand.
  destruct (high <=? low) eqn:E; [reflexivity|].
  destruct (wrap64 (high - low) <=? 0) eqn:Ew.
  - destruct (high - low <=? 0) eqn:Ed; [lia|reflexivity].
  - reflexivity.
Qed.

(* the overflowing range takes the exact path *)
Lemma randint_small_overflow_example :
  randint_small (-5000000000000000000) 5000000000000000000 = Ok tt
  /\ wrap64 (5000000000000000000 - -5000000000000000000) < 0.
Proof. split; vm_compute; reflexivity. Qed.

(* ================================================================== *)
(* the oracle *)

Lemma check_C17_sound {A} (o : obs A) : check_C17 o = true -> o <> OCrash.
Proof. destruct o; cbn; congruence. Qed.

(* an observation that agrees with a non-panicking model outcome satisfies the property *)
Lemma agree_no_panic {A B} (eqv : A -> B -> bool) (m : res A) (o : obs B) :
  agree eqv m o = true -> is_panic m = false -> check_C17 o = true.
Proof. destruct m, o; cbn; congruence. Qed.
