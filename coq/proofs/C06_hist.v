(* C06 — from the vector level to views (sub-vectors), to single operations
   (m_apply vs s_apply) and to arbitrary operation histories over the version
   store.  The vector-level facts are Section hypotheses here; they are
   discharged in C06_final.v. *)
From Coq Require Import Lia ZArith List Bool Arith.
From verif Require Import lib.Base lib.ListX model.C06.
Open Scope nat_scope.

(* ---- list facts ---- *)
Lemma nth_error_firstn_lt {T} (l : list T) m n : n < m -> nth_error (firstn m l) n = nth_error l n.
Proof. revert m n; induction l as [|x l IH]; intros [|m] [|n] H; simpl; try lia; auto. apply IH; lia. Qed.

Lemma nth_error_skipn_add {T} (l : list T) a n : nth_error (skipn a l) n = nth_error l (a + n).
Proof. revert l; induction a as [|a IH]; intros [|x l]; simpl; auto. destruct n; reflexivity. Qed.

Lemma upd_split {T} e (a : T) l : e < length l -> upd e a l = firstn e l ++ a :: skipn (S e) l.
Proof. revert e; induction l as [|x l IH]; intros [|e] H; simpl in *; try lia; auto. f_equal. apply IH; lia. Qed.

Lemma skipn_firstn_sub {T} (l : list T) a e : skipn a (firstn e l) = firstn (e - a) (skipn a l).
Proof. apply skipn_firstn_comm. Qed.

Lemma firstn_S_mid {T} (l' l rest : list T) (x : T) e a0 :
  l' = firstn e l ++ x :: rest -> e <= length l -> a0 <= e ->
  firstn (S (e - a0)) (skipn a0 l') = firstn (e - a0) (skipn a0 l) ++ [x].
Proof.
  intros -> He Ha. rewrite skipn_app, firstn_length_le by lia.
  replace (a0 - e) with 0 by lia. cbn [skipn]. rewrite skipn_firstn_sub.
  set (P := firstn (e - a0) (skipn a0 l)).
  assert (HP : length P = e - a0) by (unfold P; rewrite firstn_length, skipn_length; lia).
  rewrite firstn_app, HP. replace (S (e - a0) - (e - a0)) with 1 by lia. change (firstn 1 (x :: rest)) with [x].
  rewrite firstn_all2 by lia. reflexivity.
Qed.

Lemma skipn_upd {T} a0 i (x : T) l : skipn a0 (upd (a0 + i) x l) = upd i x (skipn a0 l).
Proof. revert l; induction a0 as [|a0 IH]; intros [|y l]; simpl; auto. destruct i; reflexivity. Qed.

Lemma firstn_upd {T} m i (x : T) l : i < m -> firstn m (upd i x l) = upd i x (firstn m l).
Proof. revert m i; induction l as [|y l IH]; intros [|m] [|i] H; simpl; try lia; auto. f_equal. apply IH; lia. Qed.

Lemma removelast_firstn_all {T} (l : list T) : removelast l = firstn (length l - 1) l.
Proof.
  destruct l as [|x l]; [reflexivity|]. replace (length (x :: l) - 1) with (length l) by (simpl; lia).
  revert x; induction l as [|y l IH]; intros x; [reflexivity|].
  change (removelast (x :: y :: l)) with (x :: removelast (y :: l)). rewrite IH. reflexivity.
Qed.

Lemma upd_length_h {T} k (x : T) l : length (upd k x l) = length l.
Proof. revert k; induction l as [|y l IH]; intros [|k]; simpl; auto. Qed.

Section Hist.
Variable b : Z.
Variable Inv : vec -> Prop.
Variable abs : vec -> list any.
Hypothesis inv_empty : Inv empty /\ abs empty = [].
Hypothesis len_abs : forall v, Inv v -> Z.of_nat (length (abs v)) = count v.
Hypothesis index_ref : forall v i, Inv v -> index b v i = Ok (l_index (abs v) i).
Hypothesis conj_ref : forall v x, Inv v -> exists w, conj b v x = Ok w /\ Inv w /\ abs w = abs v ++ [x].
Hypothesis assoc_ref : forall v i x, Inv v ->
  match l_assoc (abs v) i x with
  | Some l' => exists w, assoc b v i x = Ok (Some w) /\ Inv w /\ abs w = l'
  | None => assoc b v i x = Ok None end.
Hypothesis pop_ref : forall v, Inv v ->
  match l_pop (abs v) with
  | Some l' => exists w, pop b v = Ok (Some w) /\ Inv w /\ abs w = l'
  | None => pop b v = Ok None end.
Hypothesis iter_ref : forall v bgn en, Inv v -> (0 <= bgn <= en)%Z -> (en <= count v)%Z ->
  iterate_range b v bgn en = Ok (firstn (Z.to_nat (en - bgn)) (skipn (Z.to_nat bgn) (abs v))).

Definition Inv_vv (x : vv) : Prop :=
  match x with
  | Vec v => Inv v
  | Sub v bgn en => Inv v /\ (0 <= bgn <= en)%Z /\ (en <= count v)%Z
  end.

Definition abs_vv (x : vv) : list any :=
  match x with
  | Vec v => abs v
  | Sub v bgn en => firstn (Z.to_nat (en - bgn)) (skipn (Z.to_nat bgn) (abs v))
  end.

(* result of an operation producing a list value, against the list result *)
Definition R (r : res (option vv)) (s : option (list any)) : Prop :=
  match s with
  | Some l => exists y, r = Ok (Some y) /\ Inv_vv y /\ abs_vv y = l
  | None => r = Ok None
  end.

Lemma len_nat v : Inv v -> length (abs v) = Z.to_nat (count v).
Proof. intros H. pose proof (len_abs v H). lia. Qed.

Lemma sub_length v bgn en : Inv v -> (0 <= bgn <= en)%Z -> (en <= count v)%Z ->
  length (firstn (Z.to_nat (en - bgn)) (skipn (Z.to_nat bgn) (abs v))) = Z.to_nat (en - bgn).
Proof. intros H H1 H2. rewrite firstn_length, skipn_length, (len_nat v H). lia. Qed.

Lemma v_len_ref x : Inv_vv x -> v_len x = zlen (abs_vv x).
Proof.
  destruct x as [v|v bgn en]; simpl.
  - intros H. unfold zlen. rewrite len_abs by exact H. reflexivity.
  - intros [H [H1 H2]]. unfold zlen. rewrite sub_length by assumption. lia.
Qed.

(* ---- SubVector on a whole vector ---- *)
Lemma vec_sub_ref v i j : Inv v ->
  R (Ok (vec_sub v i j)) (l_sub (abs v) i j).
Proof.
  intros H. unfold vec_sub, l_sub, zlen. rewrite (len_abs v H).
  destruct (Z.ltb_spec i 0); destruct (Z.leb_spec 0 i); try lia; cbn [orb andb]; [reflexivity|].
  destruct (Z.gtb_spec i j); destruct (Z.leb_spec i j); try lia; cbn [orb andb]; [reflexivity|].
  destruct (Z.gtb_spec j (count v)); destruct (Z.leb_spec j (count v)); try lia; cbn [orb andb]; [reflexivity|].
  exists (Sub v i j). split; [reflexivity|]. split; [simpl; repeat split; auto; lia|reflexivity].
Qed.

(* ---- Index ---- *)
Lemma v_index_ref x i : Inv_vv x -> v_index b x i = Ok (l_index (abs_vv x) i).
Proof.
  destruct x as [v|v bgn en]; simpl.
  - intros H. apply index_ref; exact H.
  - intros [H [H1 H2]]. unfold l_index, zlen. rewrite sub_length by assumption.
    destruct (Z.ltb_spec i 0); destruct (Z.leb_spec 0 i); try lia; cbn [orb andb]; [reflexivity|].
    destruct (Z.geb_spec (bgn + i) en); destruct (Z.ltb_spec i (Z.of_nat (Z.to_nat (en - bgn)))); try lia; [reflexivity|].
    rewrite index_ref by exact H. unfold l_index, zlen. rewrite (len_abs v H).
    destruct (Z.leb_spec 0 (bgn + i)); destruct (Z.ltb_spec (bgn + i) (count v)); try lia. cbn [andb].
    rewrite nth_error_firstn_lt by lia. rewrite nth_error_skipn_add. do 2 f_equal. lia.
Qed.

(* ---- Conj ---- *)
Lemma assoc_then_sub_conj v bgn en a : Inv v -> (0 <= bgn <= en)%Z -> (en <= count v)%Z ->
  R (assoc_then_sub b v en a bgn (en + 1))
    (Some (firstn (Z.to_nat (en - bgn)) (skipn (Z.to_nat bgn) (abs v)) ++ [a])).
Proof.
  intros H H1 H2. unfold assoc_then_sub. pose proof (assoc_ref v en a H) as HA.
  pose proof (len_nat v H) as Hl.
  assert (exists l' rest, l_assoc (abs v) en a = Some l' /\
            l' = firstn (Z.to_nat en) (abs v) ++ a :: rest) as [l' [rest [E El]]].
  { unfold l_assoc, zlen. rewrite (len_abs v H).
    destruct (Z.leb_spec 0 en); [|lia]. destruct (Z.ltb_spec en (count v)); cbn [andb].
    - eexists; eexists; split; [reflexivity|]. apply upd_split. lia.
    - destruct (Z.eqb_spec en (count v)); [|lia]. eexists; exists []; split; [reflexivity|].
      rewrite firstn_all2 by lia. reflexivity. }
  rewrite E in HA. destruct HA as [w [Ew [Iw Aw]]]. rewrite Ew.
  assert (Hcw : (en + 1 <= count w)%Z).
  { rewrite <- (len_abs w Iw), Aw, El, app_length, firstn_length. simpl. lia. }
  unfold vec_sub. destruct (Z.ltb_spec bgn 0); [lia|]. destruct (Z.gtb_spec bgn (en + 1)); [lia|].
  destruct (Z.gtb_spec (en + 1) (count w)); [lia|]. cbn [orb].
  exists (Sub w bgn (en + 1)). split; [reflexivity|]. split; [simpl; repeat split; auto; lia|].
  simpl. rewrite Aw. replace (Z.to_nat (en + 1 - bgn)) with (S (Z.to_nat en - Z.to_nat bgn)) by lia.
  replace (Z.to_nat (en - bgn)) with (Z.to_nat en - Z.to_nat bgn) by lia.
  eapply firstn_S_mid; [exact El|lia|lia].
Qed.

Lemma v_conj_ref x a : Inv_vv x -> R (v_conj b x a) (Some (abs_vv x ++ [a])).
Proof.
  destruct x as [v|v bgn en]; simpl.
  - intros H. destruct (conj_ref v a H) as [w [Ew [Iw Aw]]]. rewrite Ew. exists (Vec w). auto.
  - intros [H [H1 H2]]. apply assoc_then_sub_conj; assumption.
Qed.

(* ---- Assoc ---- *)
Lemma v_assoc_ref x i a : Inv_vv x -> R (v_assoc b x i a) (l_assoc (abs_vv x) i a).
Proof.
  destruct x as [v|v bgn en].
  - simpl. intros H. pose proof (assoc_ref v i a H) as HA. destruct (l_assoc (abs v) i a).
    + destruct HA as [w [Ew [Iw Aw]]]. rewrite Ew. exists (Vec w). auto.
    + rewrite HA. reflexivity.
  - intros HI. pose proof HI as [H [H1 H2]]. unfold l_assoc, zlen. cbn [abs_vv]. rewrite sub_length by assumption.
    cbn [v_assoc].
    destruct (Z.ltb_spec i 0); destruct (Z.leb_spec 0 i); try lia; cbn [orb andb].
    { destruct (Z.eqb_spec i (Z.of_nat (Z.to_nat (en - bgn)))); [lia|reflexivity]. }
    destruct (Z.gtb_spec (bgn + i) en) as [G|G].
    { destruct (Z.ltb_spec i (Z.of_nat (Z.to_nat (en - bgn)))); [lia|].
      destruct (Z.eqb_spec i (Z.of_nat (Z.to_nat (en - bgn)))); [lia|reflexivity]. }
    destruct (Z.eqb_spec (bgn + i) en) as [E|E].
    { destruct (Z.ltb_spec i (Z.of_nat (Z.to_nat (en - bgn)))); [lia|].
      destruct (Z.eqb_spec i (Z.of_nat (Z.to_nat (en - bgn)))); [|lia].
      apply (v_conj_ref (Sub v bgn en) a HI). }
    destruct (Z.ltb_spec i (Z.of_nat (Z.to_nat (en - bgn)))); [|lia].
    unfold assoc_then_sub. pose proof (assoc_ref v (bgn + i) a H) as HA.
    unfold l_assoc, zlen in HA. rewrite (len_abs v H) in HA.
    destruct (Z.leb_spec 0 (bgn + i)); [|lia]. destruct (Z.ltb_spec (bgn + i) (count v)); [|lia].
    cbn [andb] in HA. destruct HA as [w [Ew [Iw Aw]]]. rewrite Ew.
    assert (Hcw : count w = count v).
    { rewrite <- (len_abs w Iw), Aw, upd_length_h. apply len_abs; exact H. }
    unfold vec_sub. destruct (Z.ltb_spec bgn 0); [lia|]. destruct (Z.gtb_spec bgn en); [lia|].
    destruct (Z.gtb_spec en (count w)); [lia|]. cbn [orb].
    exists (Sub w bgn en). split; [reflexivity|]. split; [simpl; repeat split; auto; lia|].
    simpl. rewrite Aw. replace (Z.to_nat (bgn + i)) with (Z.to_nat bgn + Z.to_nat i) by lia.
    rewrite skipn_upd, firstn_upd by lia. reflexivity.
Qed.

(* ---- Pop ---- *)
Lemma v_pop_ref x : Inv_vv x -> R (v_pop b x) (l_pop (abs_vv x)).
Proof.
  destruct x as [v|v bgn en].
  - simpl. intros H. pose proof (pop_ref v H) as HA. destruct (l_pop (abs v)).
    + destruct HA as [w [Ew [Iw Aw]]]. rewrite Ew. exists (Vec w). auto.
    + rewrite HA. reflexivity.
  - intros [H [H1 H2]]. pose proof (sub_length v bgn en H H1 H2) as Hl. cbn [abs_vv v_pop].
    set (S0 := firstn (Z.to_nat (en - bgn)) (skipn (Z.to_nat bgn) (abs v))) in *.
    destruct (Z.eqb_spec (en - bgn) 0) as [E0|E0].
    { destruct S0; [reflexivity|simpl in Hl; lia]. }
    assert (Hne : l_pop S0 = Some (removelast S0)) by (destruct S0; [simpl in Hl; lia|reflexivity]).
    rewrite Hne. destruct (Z.eqb_spec (en - bgn) 1) as [E1|E1].
    { exists (Vec empty). split; [reflexivity|]. destruct inv_empty as [Ie Ae]. split; [exact Ie|].
      simpl. rewrite Ae. destruct S0 as [|s0 [|s1 S1]]; simpl in Hl; try lia. reflexivity. }
    pose proof (vec_sub_ref v bgn (en - 1) H) as HS. unfold l_sub, zlen in HS. rewrite (len_abs v H) in HS.
    destruct (Z.leb_spec 0 bgn); [|lia]. destruct (Z.leb_spec bgn (en - 1)); [|lia].
    destruct (Z.leb_spec (en - 1) (count v)); [|lia]. cbn [andb] in HS.
    destruct HS as [y [Ey [Iy Ay]]]. exists y. split; [exact Ey|]. split; [exact Iy|]. rewrite Ay.
    rewrite removelast_firstn_all, Hl. unfold S0. rewrite firstn_firstn. f_equal. lia.
Qed.

(* ---- SubVector ---- *)
Lemma v_sub_ref x i j : Inv_vv x -> R (Ok (v_sub x i j)) (l_sub (abs_vv x) i j).
Proof.
  destruct x as [v|v bgn en].
  - simpl. intros H. apply vec_sub_ref; exact H.
  - intros [H [H1 H2]]. pose proof (sub_length v bgn en H H1 H2) as Hl.
    cbn [abs_vv v_sub]. unfold l_sub, zlen. rewrite Hl.
    destruct (Z.leb_spec 0 i) as [A|A]; destruct (Z.leb_spec i j) as [A'|A'];
      destruct (Z.leb_spec j (Z.of_nat (Z.to_nat (en - bgn)))) as [A''|A'']; cbn [andb].
    1:{ (* inside the slice *)
      destruct (Z.ltb_spec i 0); [lia|]. destruct (Z.gtb_spec i j); [lia|].
      destruct (Z.gtb_spec j (en - bgn)); [lia|]. cbn [orb].
      pose proof (vec_sub_ref v (bgn + i) (bgn + j) H) as HS. unfold l_sub, zlen in HS. rewrite (len_abs v H) in HS.
      destruct (Z.leb_spec 0 (bgn + i)); [|lia]. destruct (Z.leb_spec (bgn + i) (bgn + j)); [|lia].
      destruct (Z.leb_spec (bgn + j) (count v)); [|lia]. cbn [andb] in HS.
      destruct HS as [y [Ey [Iy Ay]]]. exists y. split; [exact Ey|]. split; [exact Iy|]. rewrite Ay.
      rewrite skipn_firstn_sub, firstn_firstn, skipn_skipn.
      replace (Z.to_nat (bgn + i)) with (Z.to_nat bgn + Z.to_nat i) by lia.
      replace (Z.to_nat (bgn + j - (bgn + i))) with (Z.to_nat (j - i)) by lia.
      f_equal. lia. }
    all: destruct (Z.ltb_spec i 0); destruct (Z.gtb_spec i j); destruct (Z.gtb_spec j (en - bgn));
         try lia; reflexivity.
Qed.

(* ---- iteration ---- *)
Lemma v_iter_ref x : Inv_vv x -> v_iter b x = Ok (abs_vv x).
Proof.
  destruct x as [v|v bgn en]; simpl.
  - intros H. pose proof (len_abs v H) as Hl. rewrite iter_ref by (try assumption; lia).
    rewrite Z.sub_0_r. simpl. rewrite firstn_all2 by lia. reflexivity.
  - intros [H [H1 H2]]. apply iter_ref; assumption.
Qed.

(* ---- repeated Conj / Pop ---- *)
Lemma conj_range_ref k : forall x x0, Inv_vv x ->
  R (conj_range b k x x0) (Some (abs_vv x ++ zrange k x0)).
Proof.
  induction k as [|k IH]; intros x x0 H.
  - simpl. rewrite app_nil_r. exists x. auto.
  - cbn [conj_range zrange]. destruct (v_conj_ref x (AVal x0) H) as [y [Ey [Iy Ay]]]. rewrite Ey.
    destruct (IH y (x0 + 1)%Z Iy) as [z [Ez [Iz Az]]]. exists z. split; [exact Ez|]. split; [exact Iz|].
    rewrite Az, Ay, <- app_assoc. reflexivity.
Qed.

Lemma l_pop_n_S k l : l <> [] -> l_pop_n (S k) l = l_pop_n k (removelast l).
Proof.
  intros Hne. unfold l_pop_n. rewrite removelast_firstn_all, firstn_length.
  assert (0 < length l) by (destruct l; [congruence|simpl; lia]).
  replace (Nat.min (length l - 1) (length l)) with (length l - 1) by lia.
  destruct (Nat.leb_spec (S k) (length l)); destruct (Nat.leb_spec k (length l - 1)); try lia; [|reflexivity].
  rewrite firstn_firstn. do 2 f_equal. lia.
Qed.

Lemma pop_n_ref k : forall x, Inv_vv x -> R (pop_n b k x) (l_pop_n k (abs_vv x)).
Proof.
  induction k as [|k IH]; intros x H.
  - unfold l_pop_n. simpl. rewrite Nat.sub_0_r, firstn_all. exists x. auto.
  - cbn [pop_n]. pose proof (v_pop_ref x H) as HP. unfold l_pop in HP.
    destruct (abs_vv x) as [|a l] eqn:E.
    + rewrite HP. reflexivity.
    + destruct HP as [y [Ey [Iy Ay]]]. rewrite Ey. rewrite l_pop_n_S by discriminate.
      rewrite <- Ay. apply IH; exact Iy.
Qed.

(* ---- pkg/eval/vals entry points ---- *)
Lemma adjust_spec i n incl : (0 <= n)%Z ->
  adjustAndCheckIndex i n incl =
  let k := norm_index i n in
  if (0 <=? k)%Z && (if incl then k <=? n else k <? n)%Z then Some k else None.
Proof.
  intros Hn. unfold adjustAndCheckIndex, norm_index.
  destruct (Z.ltb_spec i 0).
  - destruct (Z.ltb_spec i (- n)); destruct (Z.leb_spec 0 (i + n)); try lia; cbn [andb]; [reflexivity|].
    destruct incl; [destruct (Z.leb_spec (i + n) n)|destruct (Z.ltb_spec (i + n) n)]; try lia; reflexivity.
  - destruct (Z.leb_spec 0 i); [|lia]. cbn [andb]. destruct incl.
    + destruct (Z.gtb_spec i n); destruct (Z.leb_spec i n); try lia; reflexivity.
    + destruct (Z.geb_spec i n); destruct (Z.ltb_spec i n); try lia; reflexivity.
Qed.

Lemma zlen_nonneg l : (0 <= zlen l)%Z.
Proof. unfold zlen. lia. Qed.

Lemma vals_index_ref x i : Inv_vv x ->
  vals_index b x i = Ok (l_index (abs_vv x) (norm_index i (zlen (abs_vv x)))).
Proof.
  intros H. unfold vals_index. rewrite (v_len_ref x H), adjust_spec by apply zlen_nonneg. cbv zeta.
  set (k := norm_index i (zlen (abs_vv x))).
  destruct (Z.leb_spec 0 k); destruct (Z.ltb_spec k (zlen (abs_vv x))); cbn [andb];
    try (apply v_index_ref; exact H); unfold l_index;
    destruct (Z.leb_spec 0 k); destruct (Z.ltb_spec k (zlen (abs_vv x))); try lia; reflexivity.
Qed.

Lemma vals_slice_ref x i j : Inv_vv x ->
  R (Ok (vals_slice x i j))
    (l_sub (abs_vv x) (norm_index i (zlen (abs_vv x))) (norm_index j (zlen (abs_vv x)))).
Proof.
  intros H. unfold vals_slice. rewrite (v_len_ref x H), !adjust_spec by apply zlen_nonneg. cbv zeta.
  set (n := zlen (abs_vv x)). set (i' := norm_index i n). set (j' := norm_index j n).
  assert (Hrej : ~ ((0 <= i')%Z /\ (i' <= j')%Z /\ (j' <= n)%Z) -> l_sub (abs_vv x) i' j' = None).
  { intros Hn. unfold l_sub. fold n.
    destruct (Z.leb_spec 0 i'); destruct (Z.leb_spec i' j'); destruct (Z.leb_spec j' n); cbn [andb]; try reflexivity. lia. }
  destruct (Z.leb_spec 0 i'); destruct (Z.leb_spec i' n); cbn [andb]; try (rewrite Hrej by lia; reflexivity).
  destruct (Z.leb_spec 0 j'); destruct (Z.leb_spec j' n); cbn [andb]; try (rewrite Hrej by lia; reflexivity).
  destruct (Z.ltb_spec j' i'); [rewrite Hrej by lia; reflexivity|].
  apply v_sub_ref; exact H.
Qed.

Lemma vals_assoc_ref x i a : Inv_vv x ->
  let k := norm_index i (zlen (abs_vv x)) in
  R (vals_assoc b x i a)
    (if (0 <=? k)%Z && (k <? zlen (abs_vv x))%Z then Some (upd (Z.to_nat k) a (abs_vv x)) else None).
Proof.
  intros H k. unfold vals_assoc. rewrite (v_len_ref x H), adjust_spec by apply zlen_nonneg. cbv zeta. fold k.
  destruct ((0 <=? k)%Z && (k <? zlen (abs_vv x))%Z) eqn:E; [|reflexivity].
  pose proof (v_assoc_ref x k a H) as HA. unfold l_assoc in HA. rewrite E in HA. exact HA.
Qed.

(* ---- one operation ---- *)
Definition abs_out (o : outcome vv) : outcome (list any) :=
  match o with
  | XVec y => XVec (abs_vv y) | XRejected => XRejected | XElem e => XElem e | XRead l => XRead l
  | XMissing => XMissing | XPanic => XPanic | XFuel => XFuel
  end.

Definition out_inv (o : outcome vv) : Prop := match o with XVec y => Inv_vv y | _ => True end.

Lemma R_out r s : R r s -> abs_out (of_vres r) = of_opt s /\ out_inv (of_vres r).
Proof.
  destruct s as [l|]; simpl.
  - intros [y [-> [Iy Ay]]]. simpl. rewrite Ay. auto.
  - intros ->. simpl. auto.
Qed.

Lemma R_out_opt r s : R (Ok r) s -> abs_out (of_opt r) = of_opt s /\ out_inv (of_opt r).
Proof.
  destruct s as [l|]; simpl.
  - intros [y [E [Iy Ay]]]. injection E as ->. simpl. rewrite Ay. auto.
  - intros E. injection E as ->. simpl. auto.
Qed.

Theorem apply_refines x o : Inv_vv x ->
  abs_out (m_apply b x o) = s_apply (abs_vv x) o /\ out_inv (m_apply b x o).
Proof.
  intros H. destruct o; cbn [m_apply s_apply].
  - apply (R_out _ (Some _)). apply v_conj_ref; exact H.
  - apply (R_out _ (Some _)). apply conj_range_ref; exact H.
  - apply R_out. apply v_pop_ref; exact H.
  - apply R_out. apply pop_n_ref; exact H.
  - apply R_out. apply v_assoc_ref; exact H.
  - apply R_out_opt. apply v_sub_ref; exact H.
  - rewrite v_index_ref by exact H. simpl. auto.
  - rewrite v_iter_ref by exact H. simpl. auto.
  - rewrite vals_index_ref by exact H. simpl. auto.
  - apply R_out_opt. apply vals_slice_ref; exact H.
  - pose proof (vals_assoc_ref x i x0 H) as HA. cbv zeta in HA.
    destruct ((0 <=? norm_index i (zlen (abs_vv x)))%Z && (norm_index i (zlen (abs_vv x)) <? zlen (abs_vv x))%Z).
    + apply (R_out _ (Some _)). exact HA.
    + apply (R_out _ None). exact HA.
Qed.

(* ---- histories over the version store ---- *)
Definition slot_rel (m : option vv) (s : option (list any)) : Prop :=
  match m, s with
  | Some x, Some l => Inv_vv x /\ abs_vv x = l
  | None, None => True
  | _, _ => False
  end.
Definition st_rel := Forall2 slot_rel.

Lemma st_rel_nth ms ss k : st_rel ms ss ->
  match nth_error ms k, nth_error ss k with
  | Some m, Some s => slot_rel m s
  | None, None => True
  | _, _ => False
  end.
Proof.
  intros H. revert k. induction H as [|m s ms ss Hms H IH]; intros [|k]; simpl; auto. apply IH.
Qed.

Lemma step_refines ms ss o : st_rel ms ss ->
  st_rel (fst (step (m_apply b) ms o)) (fst (step s_apply ss o)) /\
  abs_out (snd (step (m_apply b) ms o)) = snd (step s_apply ss o).
Proof.
  intros Hst. unfold step. pose proof (st_rel_nth ms ss (op_target o) Hst) as Hn.
  destruct (nth_error ms (op_target o)) as [[x|]|]; destruct (nth_error ss (op_target o)) as [[l|]|];
    simpl in Hn; try contradiction.
  - destruct Hn as [Ix Ax]. subst l.
    destruct (apply_refines x o Ix) as [E Io]. cbn [fst snd]. split; [|exact E].
    destruct (creates o); [|exact Hst]. apply Forall2_app; [exact Hst|]. constructor; [|constructor].
    rewrite <- E. destruct (m_apply b x o); simpl in *; auto.
  - cbn [fst snd]. split; [|reflexivity]. destruct (creates o); [|exact Hst].
    apply Forall2_app; [exact Hst|]. constructor; [exact I|constructor].
  - cbn [fst snd]. split; [|reflexivity]. destruct (creates o); [|exact Hst].
    apply Forall2_app; [exact Hst|]. constructor; [exact I|constructor].
Qed.

Lemma run_cons {V} (ap : V -> op -> outcome V) st o r :
  run ap st (o :: r) = snd (step ap st o) :: run ap (fst (step ap st o)) r.
Proof. cbn [run]. destruct (step ap st o). reflexivity. Qed.

Theorem history_refines_list ops : forall ms ss, st_rel ms ss ->
  map abs_out (run (m_apply b) ms ops) = run s_apply ss ops.
Proof.
  induction ops as [|o r IH]; intros ms ss Hst; [reflexivity|].
  rewrite !run_cons. cbn [map].
  destruct (step_refines ms ss o Hst) as [Hst' E]. rewrite E. f_equal.
  apply IH; exact Hst'.
Qed.

Lemma st_rel_init : st_rel [Some (Vec empty)] [Some []].
Proof. constructor; [|constructor]. destruct inv_empty as [Ie Ae]. simpl. auto. Qed.

End Hist.

(* ---- persistence: purely structural, for any representation of values ---- *)
Section Persist.
Context {V : Type}.
Variable ap : V -> op -> outcome V.

Fixpoint store_after (st : list (option V)) (ops : list op) : list (option V) :=
  match ops with [] => st | o :: r => store_after (fst (step ap st o)) r end.

Lemma step_prefix st o : exists ext, fst (step ap st o) = st ++ ext.
Proof. unfold step. cbn [fst]. destruct (creates o); [eexists; reflexivity|exists []; symmetry; apply app_nil_r]. Qed.

Lemma store_after_prefix ops : forall st, exists ext, store_after st ops = st ++ ext.
Proof.
  induction ops as [|o r IH]; intros st; [exists []; symmetry; apply app_nil_r|].
  cbn [store_after]. destruct (step_prefix st o) as [e1 E1]. destruct (IH (fst (step ap st o))) as [e2 E2].
  rewrite E2, E1, <- app_assoc. eexists; reflexivity.
Qed.

Lemma store_after_app ops1 ops2 st : store_after st (ops1 ++ ops2) = store_after (store_after st ops1) ops2.
Proof. revert st; induction ops1 as [|o r IH]; intros st; [reflexivity|]. cbn [app store_after]. apply IH. Qed.

Lemma run_app_last ops : forall st o,
  last (run ap st (ops ++ [o])) XMissing = snd (step ap (store_after st ops) o).
Proof.
  induction ops as [|p r IH]; intros st o.
  - cbn [app run store_after]. destruct (step ap st o). reflexivity.
  - cbn [app store_after]. rewrite run_cons. rewrite <- IH.
    destruct (run ap (fst (step ap st p)) (r ++ [o])) eqn:E; [|reflexivity].
    destruct r; cbn [app run] in E; destruct (step ap _ _); discriminate.
Qed.

(* reading a version that exists gives the same result however many operations
   (on whatever versions) are performed in between *)
Theorem old_versions_unchanged st ops1 ops2 o :
  op_target o < length (store_after st ops1) ->
  last (run ap st (ops1 ++ [o])) XMissing = last (run ap st (ops1 ++ ops2 ++ [o])) XMissing.
Proof.
  intros Ht. rewrite app_assoc, !run_app_last, store_after_app.
  destruct (store_after_prefix ops2 (store_after st ops1)) as [ext E]. rewrite E.
  unfold step. cbn [snd]. rewrite nth_error_app1 by exact Ht. reflexivity.
Qed.
End Persist.
