(* C12 — the conversion of an exactly representable dyadic number is exact:
   f_of_dyadic s mx ex = S754_finite s m e whenever mx*2^ex = m*2^e and (m, e) is a
   canonical binary64 mantissa/exponent pair.  Pure integer reasoning on SpecFloat. *)
From Coq Require Import ZArith Lia Zpower Floats.SpecFloat.
From verif Require Import lib.Base model.C11_Num.
Open Scope Z_scope.

(* ---- binary digits ---- *)
Lemma digits2_bounds p :
  2 ^ (Z.pos (digits2_pos p) - 1) <= Z.pos p < 2 ^ Z.pos (digits2_pos p).
Proof. induction p as [p IH|p IH|]; cbn [digits2_pos].
  - rewrite Pos2Z.inj_succ. replace (Z.succ (Z.pos (digits2_pos p)) - 1) with (Z.succ (Z.pos (digits2_pos p) - 1)) by lia.
    rewrite !Z.pow_succ_r by lia. lia.
  - rewrite Pos2Z.inj_succ. replace (Z.succ (Z.pos (digits2_pos p)) - 1) with (Z.succ (Z.pos (digits2_pos p) - 1)) by lia.
    rewrite !Z.pow_succ_r by lia. lia.
  - cbn. lia. Qed.

Lemma digits2_unique p d : 0 < d -> 2 ^ (d - 1) <= Z.pos p < 2 ^ d -> Z.pos (digits2_pos p) = d.
Proof. intros Hd B. pose proof (digits2_bounds p) as B'. set (g := Z.pos (digits2_pos p)) in *.
  destruct (Z.lt_trichotomy g d) as [L|[E|L]]; [|exact E|]; exfalso.
  - assert (2 ^ g <= 2 ^ (d - 1)) by (apply Z.pow_le_mono_r; lia). lia.
  - assert (2 ^ d <= 2 ^ (g - 1)) by (apply Z.pow_le_mono_r; lia). lia. Qed.

Lemma digits2_mul_pow2 p q t : 0 <= t -> Z.pos q = Z.pos p * 2 ^ t ->
  Z.pos (digits2_pos q) = Z.pos (digits2_pos p) + t.
Proof. intros Ht E. apply digits2_unique; [lia|]. pose proof (digits2_bounds p) as B.
  rewrite E. replace (Z.pos (digits2_pos p) + t - 1) with (Z.pos (digits2_pos p) - 1 + t) by lia.
  rewrite !Z.pow_add_r by lia. assert (0 < 2 ^ t) by (apply Z.pow_pos_nonneg; lia). nia. Qed.

(* ---- strip ---- *)
Lemma strip_spec m : forall e mo eo, strip m e = (mo, eo) ->
  Z.odd (Z.pos mo) = true /\ e <= eo /\ Z.pos m = Z.pos mo * 2 ^ (eo - e).
Proof. induction m as [p IH|p IH|]; intros e mo eo H; cbn [strip] in H.
  - inversion H; subst. rewrite Z.sub_diag. repeat split; try reflexivity; lia.
  - destruct (IH _ _ _ H) as (O & L & E). repeat split; [exact O|lia|].
    rewrite Pos2Z.inj_xO, E. replace (eo - e) with (Z.succ (eo - (e + 1))) by lia.
    rewrite Z.pow_succ_r by lia. ring.
  - inversion H; subst. rewrite Z.sub_diag. repeat split; try reflexivity; lia. Qed.

(* ---- rounding a canonical pair is the identity ---- *)
Lemma binary_round_aux_canonical s m e : bounded prec emax m e = true ->
  binary_round_aux prec emax s (Z.pos m) e loc_Exact = S754_finite s m e.
Proof. intros B. unfold bounded in B. apply andb_true_iff in B as [C Le].
  unfold canonical_mantissa in C. apply Zeq_bool_eq in C.
  unfold binary_round_aux, shr_fexp. cbn [Zdigits2 shr_record_of_loc].
  rewrite C, Z.sub_diag. cbn [shr shr_m loc_of_shr_record round_nearest_even Zdigits2 shr_record_of_loc].
  rewrite C, Z.sub_diag. cbn [shr shr_m]. rewrite Le. reflexivity. Qed.

(* ---- dyadic equality: mx*2^ex = m*2^e ---- *)
Definition dy_eq (mx : positive) (ex : Z) (m : positive) (e : Z) : Prop :=
  exists lo, lo <= ex /\ lo <= e /\ Z.pos mx * 2 ^ (ex - lo) = Z.pos m * 2 ^ (e - lo).

Lemma odd_not_even_mul a b t : Z.odd a = true -> 0 < t -> a <> b * 2 ^ t.
Proof. intros O Ht E. rewrite E in O. replace t with (Z.succ (t - 1)) in O by lia.
  rewrite Z.pow_succ_r in O by lia. rewrite Z.mul_assoc, (Z.mul_comm b 2), <- Z.mul_assoc in O.
  rewrite Z.odd_mul in O. discriminate. Qed.

Theorem f_of_dyadic_exact s mx ex m e :
  bounded prec emax m e = true -> dy_eq mx ex m e ->
  f_of_dyadic s mx ex = S754_finite s m e.
Proof. intros B (lo & L1 & L2 & E). unfold f_of_dyadic.
  destruct (strip mx ex) as [mo eo] eqn:S. destruct (strip_spec _ _ _ _ S) as (O & Le & Em).
  (* mo * 2^(eo-lo) = m * 2^(e-lo) *)
  rewrite Em in E. replace (Z.pos mo * 2 ^ (eo - ex) * 2 ^ (ex - lo)) with (Z.pos mo * 2 ^ (eo - lo)) in E
    by (rewrite <- Z.mul_assoc, <- Z.pow_add_r by lia; f_equal; f_equal; lia).
  assert (Ge : e <= eo).
  { destruct (Z_le_gt_dec e eo) as [G|G]; [exact G|exfalso].
    replace (e - lo) with ((e - eo) + (eo - lo)) in E by lia. rewrite Z.pow_add_r, Z.mul_assoc in E by lia.
    apply Z.mul_cancel_r in E; [|apply Z.pow_nonzero; lia].
    apply (odd_not_even_mul _ _ _ O) in E; [exact E|lia]. }
  assert (M : Z.pos m = Z.pos mo * 2 ^ (eo - e)).
  { replace (eo - lo) with ((eo - e) + (e - lo)) in E by lia. rewrite Z.pow_add_r, Z.mul_assoc in E by lia.
    apply Z.mul_cancel_r in E; [|apply Z.pow_nonzero; lia]. symmetry. exact E. }
  pose proof (digits2_mul_pow2 mo m (eo - e) ltac:(lia) M) as D.
  pose proof B as B'. unfold bounded in B'. apply andb_true_iff in B' as [C _].
  unfold canonical_mantissa in C. apply Zeq_bool_eq in C.
  unfold binary_round.
  replace (Z.pos (digits2_pos mo) + eo) with (Z.pos (digits2_pos m) + e) by lia. rewrite C.
  unfold shl_align. destruct (e - eo) as [|d|d] eqn:Dd; try lia.
  - assert (eo = e) by lia. subst eo. rewrite Z.sub_diag, Z.mul_1_r in M. inversion M; subst.
    apply binary_round_aux_canonical, B.
  - assert (Sh : shift_pos d mo = m).
    { apply Pos2Z.inj. rewrite shift_pos_correct. change (Z.pow_pos 2 d) with (2 ^ Z.pos d). rewrite M.
      replace (eo - e) with (Z.pos d) by lia. ring. }
    rewrite Sh. apply binary_round_aux_canonical, B.
Qed.
