(* C09 — proofs (under construction) *)
From verif Require Import lib.Base model.C08_Value model.C09.
Open Scope N_scope.

Lemma equal_hash_refuted_w :
  exists a b, equal a b = true /\ hash a <> hash b.
Proof. exists (VFloat 0), (VFloat (2 ^ 63)). split; vm_compute; congruence. Qed.
