(* C09 — proofs about Cmp / CmpTotal of the value model: 0 for Equal values,
   antisymmetry, totality of CmpTotal, agreement of CmpTotal with Cmp,
   transitivity within exact numbers / within floats / non-numeric values,
   agreement with the documented orders for exact numbers, refutation
   witnesses for the mixed exact/inexact cases. *)
From verif Require Import lib.Base model.C08_Value model.C09 proofs.C08_Value_proofs.
From verif Require Import proofs.C09_float_proofs.
From Coq Require Import QArith Arith.
Close Scope Q_scope.
Open Scope N_scope.

(* ---- named forms ---- *)
Section Lex.
  Variable f : value -> value -> ordering.
  Fixpoint lexc (x y : list value) {struct x} : ordering :=
    match x, y with
    | p :: x', q :: y' => match f p q with OEq => lexc x' y' | o => o end
    | [], [] => OEq
    | [], _ :: _ => OLt
    | _ :: _, [] => OGt
    end.
End Lex.

Definition inner (rk : N -> Z) (tot : bool) (a b : value) : ordering :=
  match a, b with
  | VNil, VNil => OEq
  | VBool x, VBool y => if Bool.eqb x y then OEq else if x then OGt else OLt
  | VInt _, _ | VBig _, _ | VRat _, _ | VFloat _, _ => cmp_num a b
  | VStr x, VStr y => bytes_cmp x y
  | VList _ x, VList _ y => lexc (cmpg rk tot) x y
  | VMap _, _ | VOpaque _ _, _ => if equal a b then OEq else OUn
  | _, _ => OUn
  end.

Definition rkcmp (rk : N -> Z) (a b : value) : comparison := Z.compare (rk (tag a)) (rk (tag b)).

Lemma cmpg_unfold rk tot a b :
  cmpg rk tot a b =
  if tot then match rkcmp rk a b with
              | Lt => OLt | Gt => OGt | Eq => lift_total (inner rk tot a b) end
  else inner rk tot a b.
Proof. destruct a; destruct b; reflexivity. Qed.

Lemma cmp_is_inner rk a b : cmpg rk false a b = inner rk false a b.
Proof. now rewrite cmpg_unfold. Qed.

(* cmp ignores the rank function *)
Lemma cmpg_false_rk_n n : forall rk rk' a b, (vsize a < n)%nat -> cmpg rk false a b = cmpg rk' false a b.
Proof.
  induction n as [|n IH]; intros rk rk' a b Sz; [lia|].
  rewrite !cmp_is_inner. destruct a; try reflexivity. destruct b; try reflexivity.
  cbn [inner].
  assert (H : forall p, In p l -> (vsize p < n)%nat).
  { intros p Hp. pose proof (vsize_list_in sub l p Hp). lia. }
  clear Sz. revert l0. induction l as [|p l IHl]; intros [|q l0]; cbn; try reflexivity.
  rewrite (IH rk rk' p q) by (apply H; now left).
  destruct (cmpg rk' false p q); try reflexivity. apply IHl. intros x Hx. apply H. now right.
Qed.

Lemma cmpg_false_rk rk a b : cmpg rk false a b = cmp a b.
Proof. unfold cmp. apply (cmpg_false_rk_n (S (vsize a))). lia. Qed.

(* ---- orderings ---- *)
Definition comp (o1 o2 : ordering) : option ordering :=
  match o1, o2 with
  | OEq, OEq => Some OEq
  | OLt, OEq | OEq, OLt | OLt, OLt => Some OLt
  | OGt, OEq | OEq, OGt | OGt, OGt => Some OGt
  | _, _ => None
  end.

Lemma comp_unc_r x : comp x OUn = None.
Proof. now destruct x. Qed.

Definition TransAt (f : value -> value -> ordering) (a b c : value) : Prop :=
  forall o, comp (f a b) (f b c) = Some o -> f a c = o.

Lemma ofc_flip c : of_comparison (CompOpp c) = flip (of_comparison c).
Proof. now destruct c. Qed.
Ltac opp_done := match goal with |- context [CompOpp ?c] => destruct c end; reflexivity.

Lemma Zcmp_trans x y z o :
  comp (of_comparison (x ?= y)%Z) (of_comparison (y ?= z)%Z) = Some o ->
  of_comparison (x ?= z)%Z = o.
Proof.
  destruct (Z.compare_spec x y), (Z.compare_spec y z); cbn; intros K; try discriminate K;
    injection K as <-; destruct (Z.compare_spec x z); try reflexivity; lia.
Qed.

Lemma Ncmp_trans x y z o :
  comp (of_comparison (x ?= y)) (of_comparison (y ?= z)) = Some o ->
  of_comparison (x ?= z) = o.
Proof.
  destruct (N.compare_spec x y), (N.compare_spec y z); cbn; intros K; try discriminate K;
    injection K as <-; destruct (N.compare_spec x z); try reflexivity; lia.
Qed.

Lemma Qcmp_trans x y z o :
  comp (of_comparison (Qcompare x y)) (of_comparison (Qcompare y z)) = Some o ->
  of_comparison (Qcompare x z) = o.
Proof.
  unfold Qcompare.
  (* cross-multiply everything with the three positive denominators *)
  set (a := (Qnum x * QDen y * QDen z)%Z).
  set (b := (Qnum y * QDen x * QDen z)%Z).
  set (c := (Qnum z * QDen x * QDen y)%Z).
  assert (P1 : (0 < QDen x)%Z) by reflexivity.
  assert (P2 : (0 < QDen y)%Z) by reflexivity.
  assert (P3 : (0 < QDen z)%Z) by reflexivity.
  assert (E1 : (Qnum x * QDen y ?= Qnum y * QDen x)%Z = (a ?= b)%Z).
  { unfold a, b. apply Zmult_compare_compat_r. lia. }
  assert (E2 : (Qnum y * QDen z ?= Qnum z * QDen y)%Z = (b ?= c)%Z).
  { unfold b, c. rewrite (Zmult_compare_compat_r (Qnum y * QDen z) _ (QDen x)) by lia.
    f_equal; ring. }
  assert (E3 : (Qnum x * QDen z ?= Qnum z * QDen x)%Z = (a ?= c)%Z).
  { unfold a, c. rewrite (Zmult_compare_compat_r (Qnum x * QDen z) _ (QDen y)) by lia.
    f_equal; ring. }
  rewrite E1, E2, E3. apply Zcmp_trans.
Qed.

(* ---- floats ---- *)
Lemma cmp_float_trans x y z o :
  comp (cmp_float x y) (cmp_float y z) = Some o -> cmp_float x z = o.
Proof.
  unfold cmp_float.
  destruct (f_is_nan x), (f_is_nan y), (f_is_nan z); cbn; intros H;
    try (inversion H; subst; reflexivity); try discriminate.
  - destruct (f_key y ?= f_key z)%Z; cbn in H; inversion H; reflexivity.
  - destruct (f_key x ?= f_key y)%Z; cbn in H; inversion H; reflexivity.
  - now apply (Zcmp_trans (f_key x) (f_key y) (f_key z)).
Qed.

Lemma cmp_float_antisym x y : cmp_float x y = flip (cmp_float y x).
Proof.
  unfold cmp_float. destruct (f_is_nan x), (f_is_nan y); try reflexivity.
  rewrite (Z.compare_antisym (f_key x) (f_key y)). opp_done.
Qed.

(* ---- numbers ---- *)
Definition is_num (v : value) : bool := match num_type v with Some _ => true | None => false end.
Definition is_exact (v : value) : bool :=
  match v with VInt _ | VBig _ | VRat _ => true | _ => false end.
Definition is_float (v : value) : bool := match v with VFloat _ => true | _ => false end.

Lemma cmp_num_nonnum_r a b : is_num b = false -> cmp_num a b = OUn.
Proof. unfold cmp_num. destruct b; try discriminate; intros _; now destruct (num_type a). Qed.

Lemma cmp_num_nonnum_l a b : is_num a = false -> cmp_num a b = OUn.
Proof. unfold cmp_num. destruct a; try discriminate; reflexivity. Qed.

Lemma Qcompare_int x y : Qcompare (Qmake x 1) (Qmake y 1) = (x ?= y)%Z.
Proof. unfold Qcompare. cbn. now rewrite !Z.mul_1_r. Qed.

Lemma cmp_num_exact a b :
  is_exact a = true -> is_exact b = true ->
  cmp_num a b = of_comparison (Qcompare (to_Q a) (to_Q b)).
Proof.
  destruct a; try discriminate; destruct b; try discriminate; intros _ _;
    cbn; try reflexivity; now rewrite Qcompare_int.
Qed.

Lemma cmp_num_float x y : cmp_num (VFloat x) (VFloat y) = cmp_float x y.
Proof. reflexivity. Qed.

Lemma cmp_num_antisym a b : cmp_num a b = flip (cmp_num b a).
Proof.
  unfold cmp_num. destruct (num_type a) as [ta|] eqn:Ea, (num_type b) as [tb|] eqn:Eb; try reflexivity.
  rewrite (N.max_comm tb ta).
  destruct (N.max ta tb <=? 1).
  - rewrite (Z.compare_antisym (to_Z a) (to_Z b)). opp_done.
  - destruct (N.max ta tb =? 2).
    + rewrite <- (Qcompare_antisym (to_Q a) (to_Q b)). opp_done.
    + apply cmp_float_antisym.
Qed.

Lemma cmp_num_trans_exact a b c o :
  is_exact a = true -> is_exact b = true -> is_exact c = true ->
  comp (cmp_num a b) (cmp_num b c) = Some o -> cmp_num a c = o.
Proof.
  intros A B C. rewrite !cmp_num_exact by assumption. apply Qcmp_trans.
Qed.

Lemma cmp_num_trans_float a b c o :
  is_float a = true -> is_float b = true -> is_float c = true ->
  comp (cmp_num a b) (cmp_num b c) = Some o -> cmp_num a c = o.
Proof.
  destruct a; try discriminate; destruct b; try discriminate; destruct c; try discriminate.
  intros _ _ _. rewrite !cmp_num_float. apply cmp_float_trans.
Qed.

Lemma cmp_num_never_unc a b : is_num a = true -> is_num b = true -> cmp_num a b <> OUn.
Proof.
  unfold cmp_num, is_num. destruct (num_type a), (num_type b); try discriminate. intros _ _.
  destruct (N.max n n0 <=? 1); [now destruct (Z.compare _ _)|].
  destruct (N.max n n0 =? 2); [now destruct (Qcompare _ _)|].
  unfold cmp_float. destruct (f_is_nan _), (f_is_nan _); try discriminate.
  now destruct (Z.compare _ _).
Qed.

(* ---- strings ---- *)
Ltac fin H := cbn in H; try discriminate H; try (injection H as <-); try reflexivity.

Lemma bytes_cmp_trans x : forall y z o,
  comp (bytes_cmp x y) (bytes_cmp y z) = Some o -> bytes_cmp x z = o.
Proof.
  induction x as [|a x IH]; intros [|b y] [|c z] o; cbn; intros H; try (cbn in H; first [discriminate H|injection H as <-; reflexivity]).
  - destruct (b ?= c); [destruct (bytes_cmp y z)| |]; fin H.
  - destruct (a ?= b); [destruct (bytes_cmp x y)| |]; fin H.
  - destruct (N.compare_spec a b) as [E1|L1|L1], (N.compare_spec b c) as [E2|L2|L2].
    + subst. rewrite N.compare_refl. now apply (IH y z).
    + subst. destruct (bytes_cmp x y); fin H;
        destruct (N.compare_spec b c); try lia; reflexivity.
    + subst. destruct (bytes_cmp x y); fin H;
        destruct (N.compare_spec b c); try lia; reflexivity.
    + subst. destruct (bytes_cmp y z); fin H;
        destruct (N.compare_spec a c); try lia; reflexivity.
    + fin H. destruct (N.compare_spec a c); try lia; reflexivity.
    + fin H.
    + subst. destruct (bytes_cmp y z); fin H;
        destruct (N.compare_spec a c); try lia; reflexivity.
    + fin H.
    + fin H. destruct (N.compare_spec a c); try lia; reflexivity.
Qed.

Lemma bytes_cmp_antisym x : forall y, bytes_cmp x y = flip (bytes_cmp y x).
Proof.
  induction x as [|a x IH]; intros [|b y]; cbn; try reflexivity.
  rewrite (N.compare_antisym a b). destruct (a ?= b); cbn; auto.
Qed.

Lemma bytes_cmp_refl x : bytes_cmp x x = OEq.
Proof. induction x as [|a x IH]; cbn; [reflexivity|]. now rewrite N.compare_refl. Qed.

(* ------------------------------------------------------------------ *)
(* compare outputs 0 for Equal values *)
Lemma cmp_float_of_eq x y : f_eq x y = true -> cmp_float x y = OEq.
Proof.
  unfold f_eq, cmp_float. intros H.
  apply andb_true_iff in H as [H K]. apply andb_true_iff in H as [Nx Ny].
  apply negb_true_iff in Nx, Ny. rewrite Nx, Ny. apply Z.eqb_eq in K. rewrite K.
  now rewrite Z.compare_refl.
Qed.

Lemma cmp_eq_of_equal_n n : forall a b, (vsize a < n)%nat -> a ~= b -> cmp a b = OEq.
Proof.
  induction n as [|n IH]; intros a b Sz E; [lia|].
  unfold cmp. rewrite cmp_is_inner.
  destruct a, b; try (cbn in E; discriminate E).
  - reflexivity.
  - cbn in *. now rewrite E.
  - cbn in E. apply Z.eqb_eq in E. subst. cbn. now rewrite Z.compare_refl.
  - cbn in E. apply Z.eqb_eq in E. subst. cbn. now rewrite Z.compare_refl.
  - cbn [equal] in E. apply Qeq_bool_iff in E. cbn. apply Qeq_alt in E. now rewrite E.
  - cbn [equal] in E. change (cmp_float bits bits0 = OEq). now apply cmp_float_of_eq.
  - cbn in E. apply bytes_eqb_spec in E. subst. cbn. apply bytes_cmp_refl.
  - rewrite equal_list in E. cbn [inner].
    assert (H : forall p, In p l -> (vsize p < n)%nat).
    { intros p Hp. pose proof (vsize_list_in sub l p Hp). lia. }
    clear Sz. revert l0 E. induction l as [|p l IHl]; intros [|q l0] E; cbn in *; try discriminate; auto.
    apply andb_true_iff in E as [E1 E2].
    rewrite cmpg_false_rk, (IH p q); auto.
  - cbn [inner]. now rewrite E.
  - cbn [inner]. now rewrite E.
Qed.

Theorem cmp_eq_of_equal a b : a ~= b -> cmp a b = OEq.
Proof. apply (cmp_eq_of_equal_n (S (vsize a))). lia. Qed.

(* ------------------------------------------------------------------ *)
(* antisymmetry of Cmp and CmpTotal *)
Lemma flip_lift o : lift_total (flip o) = flip (lift_total o).
Proof. now destruct o. Qed.

Lemma cmpg_antisym_n n : forall rk tot a b,
  (vsize a < n)%nat -> wf a -> wf b -> cmpg rk tot a b = flip (cmpg rk tot b a).
Proof.
  induction n as [|n IH]; intros rk tot a b Sz Wa Wb; [lia|].
  assert (I : inner rk tot a b = flip (inner rk tot b a)).
  { destruct a.
    - now destruct b.
    - destruct b; try reflexivity. cbn. now destruct b0, b.
    - destruct b; try reflexivity; cbn [inner]; apply cmp_num_antisym.
    - destruct b; try reflexivity; cbn [inner]; apply cmp_num_antisym.
    - destruct b; try reflexivity; cbn [inner]; apply cmp_num_antisym.
    - destruct b; try reflexivity; cbn [inner]; apply cmp_num_antisym.
    - destruct b; try reflexivity. cbn. apply bytes_cmp_antisym.
    - destruct b; try reflexivity. cbn [inner].
      assert (H : forall p, In p l -> (vsize p < n)%nat /\ wf p).
      { intros p Hp. pose proof (vsize_list_in sub l p Hp). split; [lia|]. apply (wf_list_in sub l); auto. }
      assert (H0 : forall q, In q l0 -> wf q) by (intros q Hq; apply (wf_list_in sub0 l0); auto).
      clear Sz Wa Wb. revert l0 H0.
      induction l as [|p l IHl]; intros [|q l0] H0; cbn; try reflexivity.
      destruct (H p (or_introl eq_refl)) as [S1 W1].
      rewrite (IH rk tot p q S1 W1) by (apply H0; now left).
      destruct (cmpg rk tot q p); cbn; try reflexivity.
      apply IHl; [intros x Hx; apply H; now right|intros x Hx; apply H0; now right].
    - destruct b; try reflexivity. cbn [inner].
      rewrite (equal_sym_bool (VMap m) (VMap m0)) by assumption. now destruct (equal _ _).
    - destruct b; try reflexivity. cbn [inner].
      rewrite (equal_sym_bool (VOpaque ty id) (VOpaque ty0 id0)) by assumption.
      now destruct (equal _ _). }
  rewrite (cmpg_unfold rk tot a b), (cmpg_unfold rk tot b a). destruct tot; [|exact I].
  unfold rkcmp. rewrite (Z.compare_antisym (rk (tag a))).
  destruct (rk (tag a) ?= rk (tag b))%Z; cbn; try reflexivity.
  rewrite I. apply flip_lift.
Qed.

Theorem cmpg_antisym rk tot a b : wf a -> wf b -> cmpg rk tot a b = flip (cmpg rk tot b a).
Proof. apply (cmpg_antisym_n (S (vsize a))). lia. Qed.

(* ------------------------------------------------------------------ *)
(* CmpTotal never answers "uncomparable" *)
Theorem cmp_total_never_unc rk a b : cmp_total rk a b <> OUn.
Proof.
  unfold cmp_total. rewrite cmpg_unfold.
  destruct (rkcmp rk a b); try discriminate. now destruct (inner rk true a b).
Qed.

(* ------------------------------------------------------------------ *)
(* CmpTotal agrees with Cmp wherever Cmp is defined *)
Definition same_kind (a b : value) : bool :=
  match a, b with
  | VNil, VNil | VBool _, VBool _ | VStr _, VStr _ | VMap _, VMap _ | VList _ _, VList _ _ => true
  | VOpaque t _, VOpaque t' _ => N.eqb t t'
  | _, _ => is_num a && is_num b
  end.

Lemma same_kind_tag a b : same_kind a b = true -> tag a = tag b.
Proof.
  destruct a, b; try discriminate; try reflexivity; cbn.
  intros H. apply N.eqb_eq in H. now subst.
Qed.

Lemma cmp_total_agrees_n n : forall rk a b,
  (vsize a < n)%nat -> cmp a b <> OUn -> cmp_total rk a b = cmp a b.
Proof.
  induction n as [|n IH]; intros rk a b Sz H; [lia|].
  unfold cmp, cmp_total in *. rewrite cmpg_unfold. rewrite cmp_is_inner in *.
  assert (K : same_kind a b = true).
  { destruct a, b; try reflexivity; try (exfalso; apply H; reflexivity);
      try (cbn in H; cbn; destruct (N.eqb ty ty0) eqn:E; [reflexivity|]; cbn in H; now rewrite ?andb_false_l in H). }
  unfold rkcmp. rewrite (same_kind_tag a b K), Z.compare_refl.
  assert (G : inner rk true a b = inner (fun _ => 0%Z) false a b).
  { destruct a, b; try reflexivity. cbn [inner].
    cbn [inner] in H.
    assert (Hs : forall p, In p l -> (vsize p < n)%nat).
    { intros p Hp. pose proof (vsize_list_in sub l p Hp). lia. }
    clear Sz K. revert l0 H. induction l as [|p l IHl]; intros [|q l0] H; cbn in *; try reflexivity.
    assert (Hpq : cmpg (fun _ => 0%Z) false p q <> OUn).
    { intros C. rewrite C in H. now apply H. }
    pose proof (IH rk p q (Hs p (or_introl eq_refl)) Hpq) as E.
    unfold cmp_total, cmp in E. rewrite E.
    destruct (cmpg (fun _ => 0%Z) false p q); try reflexivity.
    apply IHl; auto. }
  rewrite G. destruct (inner (fun _ => 0%Z) false a b); try reflexivity. now exfalso.
Qed.

Theorem cmp_total_agrees rk a b : cmp a b <> OUn -> cmp_total rk a b = cmp a b.
Proof. apply (cmp_total_agrees_n (S (vsize a))). lia. Qed.

(* ------------------------------------------------------------------ *)
(* transitivity of Cmp within exact numbers / within floats / other values *)
Fixpoint nums_all (p : value -> bool) (v : value) : bool :=
  match v with
  | VInt _ | VBig _ | VRat _ | VFloat _ => p v
  | VList _ l => forallb (nums_all p) l
  | _ => true
  end.

Lemma nums_all_list p s l : nums_all p (VList s l) = forallb (nums_all p) l.
Proof. reflexivity. Qed.

Section Trans.
  Variable p : value -> bool.
  Hypothesis p_num : forall a b c o, is_num a = true -> is_num b = true -> is_num c = true ->
    p a = true -> p b = true -> p c = true ->
    comp (cmp_num a b) (cmp_num b c) = Some o -> cmp_num a c = o.

  Definition okv (v : value) : Prop := wf v /\ nums_all p v = true.

  Lemma okv_list_in s l x : okv (VList s l) -> In x l -> okv x.
  Proof.
    intros [W A] Hx. split; [eapply wf_list_in; eauto|].
    rewrite nums_all_list, forallb_forall in A. auto.
  Qed.

  Lemma okv_num a : okv a -> is_num a = true -> p a = true.
  Proof. intros [_ A]. destruct a; try discriminate; auto. Qed.

  Lemma lexc_trans f x : forall y z,
    (forall a b c, In a x -> In b y -> In c z -> TransAt f a b c) ->
    forall o, comp (lexc f x y) (lexc f y z) = Some o -> lexc f x z = o.
  Proof.
    induction x as [|a x IH]; intros [|b y] [|c z] T o; cbn; intros H;
      try (cbn in H; first [discriminate H|injection H as <-; reflexivity]).
    - destruct (f b c); try (destruct (lexc f y z)); fin H.
    - destruct (f a b); try (destruct (lexc f x y)); fin H.
    - assert (Tabc : TransAt f a b c) by (apply T; now left).
      unfold TransAt in Tabc.
      destruct (f a b) eqn:Eab, (f b c) eqn:Ebc;
        try (rewrite (Tabc _ eq_refl));
        try (apply (IH y z); [intros a' b' c' Ha Hb Hc; apply T; now right|exact H]);
        try (destruct (lexc f x y); fin H; fail);
        try (destruct (lexc f y z); fin H; fail);
        fin H.
  Qed.

  Lemma inner_num_l rk tot a b : is_num a = true -> inner rk tot a b = cmp_num a b.
  Proof. destruct a; try discriminate; reflexivity. Qed.

  Lemma inner_unc_kind rk tot a b : inner rk tot a b <> OUn -> same_kind a b = true \/
    (exists s l s' l', a = VList s l /\ b = VList s' l').
  Proof.
    destruct a, b; cbn; intros H; try (now left); try (exfalso; now apply H);
      try (right; eauto 6; fail).
    - left. destruct (N.eqb ty ty0); [reflexivity|]. exfalso. now apply H.
  Qed.

  Lemma cmp_trans_n n : forall a b c,
    (vsize a < n)%nat -> okv a -> okv b -> okv c -> TransAt cmp a b c.
  Proof.
    induction n as [|n IH]; intros a b c Sz Oa Ob Oc o; [lia|].
    unfold cmp. rewrite !cmp_is_inner. set (rk := fun _ : N => 0%Z).
    destruct (is_num a) eqn:Na.
    { (* numbers *)
      rewrite !(inner_num_l rk false a) by assumption.
      destruct (is_num b) eqn:Nb; [|rewrite (cmp_num_nonnum_r a b Nb); discriminate].
      rewrite (inner_num_l rk false b) by assumption.
      destruct (is_num c) eqn:Nc; [|rewrite (cmp_num_nonnum_r b c Nc); destruct (cmp_num a b); discriminate].
      apply p_num; auto using okv_num. }
    destruct a; try discriminate Na.
    - (* nil *) destruct b; try (cbn; discriminate).
      destruct c; try (cbn [inner]; rewrite comp_unc_r; discriminate).
      cbn. intros H. fin H.
    - (* bool *) destruct b; try (cbn; discriminate).
      destruct c; try (cbn [inner]; rewrite comp_unc_r; discriminate).
      repeat match goal with x : bool |- _ => destruct x end; cbn; intros H; fin H.
    - (* string *) destruct b; try (cbn; discriminate).
      destruct c; try (cbn [inner]; rewrite comp_unc_r; discriminate).
      cbn [inner]. apply bytes_cmp_trans.
    - (* list *) destruct b; try (cbn; discriminate).
      destruct c; try (cbn [inner]; rewrite comp_unc_r; discriminate).
      cbn [inner]. apply lexc_trans.
      intros x y z Hx Hy Hz o'. rewrite !cmpg_false_rk. apply IH.
      + pose proof (vsize_list_in sub l x Hx). lia.
      + apply (okv_list_in sub l); auto.
      + apply (okv_list_in sub0 l0); auto.
      + apply (okv_list_in sub1 l1); auto.
    - (* map *) cbn [inner].
      destruct (equal (VMap m) b) eqn:E1; [|cbn; discriminate].
      destruct b; try (cbn in E1; discriminate E1). cbn [inner].
      destruct (equal (VMap m0) c) eqn:E2; [|cbn; discriminate].
      intros H. fin H.
      rewrite (equal_trans (VMap m) (VMap m0) c); auto; [apply Oa|apply Ob|apply Oc].
    - (* opaque *) cbn [inner].
      destruct (equal (VOpaque ty id) b) eqn:E1; [|cbn; discriminate].
      destruct b; try (cbn in E1; discriminate E1). cbn [inner].
      destruct (equal (VOpaque ty0 id0) c) eqn:E2; [|cbn; discriminate].
      intros H. fin H.
      rewrite (equal_trans (VOpaque ty id) (VOpaque ty0 id0) c); auto; [apply Oa|apply Ob|apply Oc].
  Qed.
End Trans.

(* ---- transitivity of CmpTotal, for every injective order of the types ---- *)
Lemma lift_id o : o <> OUn -> lift_total o = o.
Proof. destruct o; auto. intros H. now exfalso. Qed.

Lemma bytes_cmp_never_unc x : forall y, bytes_cmp x y <> OUn.
Proof.
  induction x as [|a x IH]; intros [|b y]; cbn; try discriminate.
  destruct (a ?= b); try discriminate. apply IH.
Qed.

Lemma lexc_never_unc f x : (forall p q, f p q <> OUn) -> forall y, lexc f x y <> OUn.
Proof.
  intros Hf. induction x as [|a x IH]; intros [|b y]; cbn; try discriminate.
  specialize (Hf a b). destruct (f a b); auto; try discriminate.
Qed.

Lemma tag_num v : tag v = 2 -> is_num v = true.
Proof.
  destruct v; intros H; try reflexivity; try discriminate H.
  exfalso. unfold tag in H. lia.
Qed.

Ltac tagkill H :=
  first [ discriminate H | (exfalso; unfold tag in H; lia) ].

Section TransTotal.
  Variable p : value -> bool.
  Hypothesis p_num : forall a b c o, is_num a = true -> is_num b = true -> is_num c = true ->
    p a = true -> p b = true -> p c = true ->
    comp (cmp_num a b) (cmp_num b c) = Some o -> cmp_num a c = o.
  Variable rk : N -> Z.
  Hypothesis rk_inj : forall t t', rk t = rk t' -> t = t'.

  Let T := cmpg rk true.
  Let L (a b : value) := lift_total (inner rk true a b).

  Lemma total_same_tag n a b c :
    (forall x y z, (vsize x < n)%nat -> okv p x -> okv p y -> okv p z -> TransAt T x y z) ->
    (vsize a < S n)%nat -> okv p a -> okv p b -> okv p c ->
    tag a = tag b -> tag b = tag c -> TransAt L a b c.
  Proof.
    intros IH Sz Oa Ob Oc Tab Tbc o. unfold L.
    destruct (is_num a) eqn:Na.
    { assert (Ta : tag a = 2) by (destruct a; try discriminate Na; reflexivity).
      assert (Nb : is_num b = true) by (apply tag_num; congruence).
      assert (Nc : is_num c = true) by (apply tag_num; congruence).
      rewrite !(inner_num_l rk true a), (inner_num_l rk true b) by assumption.
      rewrite !lift_id by (now apply cmp_num_never_unc).
      apply p_num; auto using okv_num. }
    destruct a; try discriminate Na.
    - destruct b; try (tagkill Tab). destruct c; try (tagkill Tbc).
      cbn. intros H. fin H.
    - destruct b; try (tagkill Tab). destruct c; try (tagkill Tbc).
      repeat match goal with x : bool |- _ => destruct x end; cbn; intros H; fin H.
    - destruct b; try (tagkill Tab). destruct c; try (tagkill Tbc).
      cbn [inner]. rewrite !lift_id by apply bytes_cmp_never_unc. apply bytes_cmp_trans.
    - destruct b; try (tagkill Tab). destruct c; try (tagkill Tbc).
      cbn [inner].
      rewrite !lift_id by (apply lexc_never_unc; intros x y; apply (cmp_total_never_unc rk x y)).
      apply lexc_trans. intros x y z Hx Hy Hz. apply IH.
      + pose proof (vsize_list_in sub l x Hx). lia.
      + apply (okv_list_in p sub l); auto.
      + apply (okv_list_in p sub0 l0); auto.
      + apply (okv_list_in p sub1 l1); auto.
    - destruct b; try (tagkill Tab). destruct c; try (tagkill Tbc).
      cbn [inner]. destruct (equal (VMap m) (VMap m0)), (equal (VMap m0) (VMap m1)),
        (equal (VMap m) (VMap m1)); cbn; intros H; fin H.
    - destruct b; try (tagkill Tab). destruct c; try (tagkill Tbc).
      cbn [inner]. destruct (equal (VOpaque ty id) (VOpaque ty0 id0)),
        (equal (VOpaque ty0 id0) (VOpaque ty1 id1)), (equal (VOpaque ty id) (VOpaque ty1 id1));
        cbn; intros H; fin H.
  Qed.

  Lemma total_trans_n n : forall a b c,
    (vsize a < n)%nat -> okv p a -> okv p b -> okv p c -> TransAt T a b c.
  Proof.
    induction n as [|n IH]; intros a b c Sz Oa Ob Oc o; [lia|].
    unfold T. rewrite !cmpg_unfold. unfold rkcmp.
    destruct (Z.compare_spec (rk (tag a)) (rk (tag b))) as [E1|L1|L1],
             (Z.compare_spec (rk (tag b)) (rk (tag c))) as [E2|L2|L2],
             (Z.compare_spec (rk (tag a)) (rk (tag c))) as [E3|L3|L3]; try lia.
    - apply (total_same_tag n a b c IH Sz Oa Ob Oc (rk_inj _ _ E1) (rk_inj _ _ E2)).
    - destruct (inner rk true a b); cbn; intros H; fin H.
    - destruct (inner rk true a b); cbn; intros H; fin H.
    - destruct (inner rk true b c); cbn; intros H; fin H.
    - cbn; intros H; fin H.
    - cbn; intros H; fin H.
    - cbn; intros H; fin H.
    - cbn; intros H; fin H.
    - destruct (inner rk true b c); cbn; intros H; fin H.
    - cbn; intros H; fin H.
    - cbn; intros H; fin H.
    - cbn; intros H; fin H.
    - cbn; intros H; fin H.
  Qed.
End TransTotal.

Lemma exact_of_num a : nums_all is_exact a = true -> is_num a = true -> is_exact a = true.
Proof. destruct a; try discriminate; auto. Qed.

Theorem cmp_trans_exact a b c :
  wf a -> wf b -> wf c ->
  nums_all is_exact a = true -> nums_all is_exact b = true -> nums_all is_exact c = true ->
  TransAt cmp a b c.
Proof.
  intros Wa Wb Wc A B C. apply (cmp_trans_n is_exact) with (n := S (vsize a)); try lia; try (split; assumption).
  intros x y z o _ _ _. apply cmp_num_trans_exact.
Qed.

Theorem cmp_trans_inexact a b c :
  wf a -> wf b -> wf c ->
  nums_all is_float a = true -> nums_all is_float b = true -> nums_all is_float c = true ->
  TransAt cmp a b c.
Proof.
  intros Wa Wb Wc A B C. apply (cmp_trans_n is_float) with (n := S (vsize a)); try lia; try (split; assumption).
  intros x y z o _ _ _. apply cmp_num_trans_float.
Qed.

Definition injective (rk : N -> Z) : Prop := forall t t', rk t = rk t' -> t = t'.

Theorem cmp_total_trans_exact rk a b c :
  injective rk -> wf a -> wf b -> wf c ->
  nums_all is_exact a = true -> nums_all is_exact b = true -> nums_all is_exact c = true ->
  TransAt (cmp_total rk) a b c.
Proof.
  intros I Wa Wb Wc A B C. unfold cmp_total.
  apply (total_trans_n is_exact) with (n := S (vsize a)); try lia; try (split; assumption); auto.
  intros x y z o _ _ _. apply cmp_num_trans_exact.
Qed.

Theorem cmp_total_trans_inexact rk a b c :
  injective rk -> wf a -> wf b -> wf c ->
  nums_all is_float a = true -> nums_all is_float b = true -> nums_all is_float c = true ->
  TransAt (cmp_total rk) a b c.
Proof.
  intros I Wa Wb Wc A B C. unfold cmp_total.
  apply (total_trans_n is_float) with (n := S (vsize a)); try lia; try (split; assumption); auto.
  intros x y z o _ _ _. apply cmp_num_trans_float.
Qed.

(* ------------------------------------------------------------------ *)
(* the documented orders: Cmp answers what the specification says, for values
   whose numbers are all exact or all floats *)
Section SpecAgree.
  Variable p : value -> bool.
  (* agreement on the numbers themselves *)
  Hypothesis p_spec : forall a b o, is_num a = true -> p a = true -> nums_all p b = true ->
    spec_cmp a b = Some o -> cmp_num a b = o.

  Lemma spec_cmp_agree_n n : forall a b o,
    (vsize a < n)%nat -> nums_all p a = true -> nums_all p b = true ->
    spec_cmp a b = Some o -> cmp a b = o.
  Proof.
    induction n as [|n IH]; intros a b o Sz A B H; [lia|].
    unfold cmp. rewrite cmp_is_inner.
    destruct (is_num a) eqn:Na.
    { rewrite inner_num_l by assumption. apply p_spec; auto.
      destruct a; try discriminate Na; exact A. }
    destruct a; try discriminate H; try discriminate Na.
    - destruct b; try discriminate H. cbn in *. now inversion H.
    - destruct b; try discriminate H. cbn in *. now inversion H.
    - destruct b; try discriminate H. cbn [inner]. cbn [spec_cmp] in H.
      rewrite nums_all_list in A, B.
      assert (Hs : forall x, In x l -> (vsize x < n)%nat).
      { intros x Hx. pose proof (vsize_list_in sub l x Hx). lia. }
      clear Sz Na. revert l0 B H. induction l as [|x l IHl]; intros [|q l0] B H; cbn in *;
        try (now inversion H).
      apply andb_true_iff in A as [Ap A]. apply andb_true_iff in B as [Bq B].
      destruct (spec_cmp x q) as [r|] eqn:E; [|discriminate].
      rewrite cmpg_false_rk, (IH x q r); auto.
      destruct r; try (now inversion H). apply IHl; auto.
  Qed.
End SpecAgree.

Lemma exact_spec a b o :
  is_num a = true -> is_exact a = true -> nums_all is_exact b = true ->
  spec_cmp a b = Some o -> cmp_num a b = o.
Proof.
  intros Na Ea B H.
  destruct a; try discriminate Ea;
    (destruct b; try discriminate H; try (cbn in B; discriminate B);
     cbn in H; injection H as <-; rewrite cmp_num_exact by auto; reflexivity).
Qed.

Lemma float_spec a b o :
  is_num a = true -> is_float a = true -> nums_all is_float b = true ->
  spec_cmp a b = Some o -> cmp_num a b = o.
Proof.
  intros Na Fa B H. destruct a; try discriminate Fa.
  destruct b; try discriminate H; try (cbn in B; discriminate B).
  rewrite cmp_float_is_spec in H. injection H as <-. reflexivity.
Qed.

Theorem cmp_is_spec_exact a b o :
  nums_all is_exact a = true -> nums_all is_exact b = true ->
  spec_cmp a b = Some o -> cmp a b = o.
Proof. apply (spec_cmp_agree_n is_exact exact_spec (S (vsize a))). lia. Qed.

Theorem cmp_is_spec_inexact a b o :
  nums_all is_float a = true -> nums_all is_float b = true ->
  spec_cmp a b = Some o -> cmp a b = o.
Proof. apply (spec_cmp_agree_n is_float float_spec (S (vsize a))). lia. Qed.

(* all values whose numbers are all exact or all inexact *)
Definition same_exactness (a b : value) : Prop :=
  (nums_all is_exact a = true /\ nums_all is_exact b = true) \/
  (nums_all is_float a = true /\ nums_all is_float b = true).

Theorem cmp_is_spec a b o : same_exactness a b -> spec_cmp a b = Some o -> cmp a b = o.
Proof. intros [[A B]|[A B]]; [now apply cmp_is_spec_exact|now apply cmp_is_spec_inexact]. Qed.

(* every pair of floats: compare = the documented order *)
Theorem cmp_float_pair_is_spec x y : spec_cmp (VFloat x) (VFloat y) = Some (cmp (VFloat x) (VFloat y)).
Proof. rewrite cmp_float_is_spec. reflexivity. Qed.

(* the documented order itself is transitive on floats (and lists of floats,
   strings, ...): stated on spec_cmp *)
Theorem spec_trans_inexact a b c o1 o2 o3 o :
  wf a -> wf b -> wf c ->
  nums_all is_float a = true -> nums_all is_float b = true -> nums_all is_float c = true ->
  spec_cmp a b = Some o1 -> spec_cmp b c = Some o2 -> spec_cmp a c = Some o3 ->
  comp o1 o2 = Some o -> o3 = o.
Proof.
  intros Wa Wb Wc A B C H1 H2 H3 K.
  apply cmp_is_spec_inexact in H1, H2, H3; auto. subst.
  now apply (cmp_trans_inexact a b c Wa Wb Wc A B C).
Qed.

Theorem spec_trans_exact a b c o1 o2 o3 o :
  wf a -> wf b -> wf c ->
  nums_all is_exact a = true -> nums_all is_exact b = true -> nums_all is_exact c = true ->
  spec_cmp a b = Some o1 -> spec_cmp b c = Some o2 -> spec_cmp a c = Some o3 ->
  comp o1 o2 = Some o -> o3 = o.
Proof.
  intros Wa Wb Wc A B C H1 H2 H3 K.
  apply cmp_is_spec_exact in H1, H2, H3; auto. subst.
  now apply (cmp_trans_exact a b c Wa Wb Wc A B C).
Qed.

(* the three mixed-compare finding classes, exactly: an exact number meeting a
   float is first rounded by ConvertToFloat64 (to_f64), then compared as a float *)
Theorem mixed_compare_is_float_rounding a y :
  is_exact a = true ->
  cmp a (VFloat y) = cmp (VFloat (to_f64 a)) (VFloat y) /\
  cmp (VFloat y) a = cmp (VFloat y) (VFloat (to_f64 a)).
Proof. destruct a; try discriminate; intros _; split; reflexivity. Qed.

(* hence the mixed answer differs from the documented one exactly when rounding
   moves a across y: it is the documented order of (to_f64 a) and y *)
Theorem mixed_compare_spec_of_rounded a y :
  is_exact a = true ->
  spec_cmp (VFloat (to_f64 a)) (VFloat y) = Some (cmp a (VFloat y)).
Proof.
  intros E. rewrite (proj1 (mixed_compare_is_float_rounding a y E)).
  apply cmp_float_pair_is_spec.
Qed.

(* ------------------------------------------------------------------ *)
(* refutation witnesses *)
Definition rk0 (t : N) : Z := Z.of_N t.

Lemma cmp_trans_refuted_w :
  exists a b c, wf a /\ wf b /\ wf c /\ cmp a b = OEq /\ cmp b c = OEq /\ cmp a c = OGt.
Proof.
  exists (VInt (2 ^ 53 + 1)), (VFloat 4845873199050653696), (VInt (2 ^ 53)).
  vm_compute. auto 10.
Qed.

(* 2^64 compared with 1e30 and with +Inf *)
Lemma cmp_bigint_inf_refuted_w :
  exists a b, spec_cmp a b = Some OLt /\ cmp a b = OGt /\
              spec_cmp a (VFloat f_pos_inf) = Some OLt /\ cmp a (VFloat f_pos_inf) = OEq.
Proof.
  exists (VBig (2 ^ 64)), (VFloat 5057542381537067242). vm_compute. auto.
Qed.

Lemma cmp_rat_rounded_refuted_w :
  exists a b, spec_cmp a b = Some OGt /\ cmp a b = OEq.
Proof. exists (VRat (mkrat 1 3)), (VFloat 4599676419421066581). vm_compute. auto. Qed.

(* ------------------------------------------------------------------ *)
(* the oracle, restated as propositions *)
Lemma all3_spec f : all3 f = true <-> (forall i, (i < 3)%nat -> f i = true).
Proof.
  unfold all3, idx3. cbn. split.
  - intros H i Hi. repeat (apply andb_true_iff in H as [? H]).
    destruct i as [|[|[|i]]]; try assumption; lia.
  - intros H. rewrite !H by lia. reflexivity.
Qed.

Definition Spec_proj (rk : N -> Z) (v : nat -> value)
           (E : nat -> nat -> bool) (C T : nat -> nat -> ordering) : Prop :=
  (forall i, (i < 3)%nat -> E i i = negb (has_nan (v i))) /\
  (forall i j, (i < 3)%nat -> (j < 3)%nat -> E i j = E j i) /\
  (forall i j k, (i < 3)%nat -> (j < 3)%nat -> (k < 3)%nat ->
     E i j = true -> E j k = true -> E i k = true) /\
  (forall i j, (i < 3)%nat -> (j < 3)%nat -> E i j = true -> C i j = OEq) /\
  (forall i j, (i < 3)%nat -> (j < 3)%nat -> C i j = flip (C j i)) /\
  (forall i j k, (i < 3)%nat -> (j < 3)%nat -> (k < 3)%nat -> trans_at C i j k = true) /\
  (forall i j o, (i < 3)%nat -> (j < 3)%nat -> spec_cmp (v i) (v j) = Some o -> C i j = o) /\
  (forall i j, (i < 3)%nat -> (j < 3)%nat -> T i j <> OUn) /\
  (forall i j, (i < 3)%nat -> (j < 3)%nat -> T i j = flip (T j i)) /\
  (forall i j k, (i < 3)%nat -> (j < 3)%nat -> (k < 3)%nat -> trans_at T i j k = true) /\
  (forall i j, (i < 3)%nat -> (j < 3)%nat -> tag (v i) <> tag (v j) ->
     T i j = of_comparison (Z.compare (rk (tag (v i))) (rk (tag (v j))))) /\
  (forall i j, (i < 3)%nat -> (j < 3)%nat -> C i j <> OUn -> T i j = C i j).

Lemma ordering_eqb_eq a b : ordering_eqb a b = true <-> a = b.
Proof. destruct a, b; cbn; split; intros H; try discriminate; auto. Qed.

Lemma check_proj_sound rk vs E C T :
  check_proj rk vs E C T = true -> Spec_proj rk (fun i => nth i vs VNil) E C T.
Proof.
  unfold check_proj, Spec_proj. intros H.
  apply andb_true_iff in H as [H H10]. apply andb_true_iff in H as [H H9].
  apply andb_true_iff in H as [H H8]. apply andb_true_iff in H as [H H7].
  apply andb_true_iff in H as [H H6]. apply andb_true_iff in H as [H H5].
  apply andb_true_iff in H as [H H4]. apply andb_true_iff in H as [H H3].
  apply andb_true_iff in H as [H H2]. apply andb_true_iff in H as [H H1].
  apply andb_true_iff in H as [H H0].
  rewrite all3_spec in H, H0, H1, H2, H3, H4, H5, H6, H7, H8, H9, H10.
  repeat split.
  - intros i Hi. now apply Bool.eqb_prop, H.
  - intros i j Hi Hj. specialize (H0 i Hi). rewrite all3_spec in H0. now apply Bool.eqb_prop, H0.
  - intros i j k Hi Hj Hk A B. specialize (H1 i Hi). rewrite all3_spec in H1.
    specialize (H1 j Hj). rewrite all3_spec in H1. specialize (H1 k Hk). now rewrite A, B in H1.
  - intros i j Hi Hj A. specialize (H2 i Hi). rewrite all3_spec in H2. specialize (H2 j Hj).
    rewrite A in H2. now apply ordering_eqb_eq.
  - intros i j Hi Hj. specialize (H3 i Hi). rewrite all3_spec in H3. now apply ordering_eqb_eq, H3.
  - intros i j k Hi Hj Hk. specialize (H4 i Hi). rewrite all3_spec in H4.
    specialize (H4 j Hj). rewrite all3_spec in H4. now apply H4.
  - intros i j o Hi Hj A. specialize (H5 i Hi). rewrite all3_spec in H5. specialize (H5 j Hj).
    rewrite A in H5. now apply ordering_eqb_eq.
  - intros i j Hi Hj A. specialize (H6 i Hi). rewrite all3_spec in H6. specialize (H6 j Hj).
    rewrite A in H6. discriminate.
  - intros i j Hi Hj. specialize (H7 i Hi). rewrite all3_spec in H7. now apply ordering_eqb_eq, H7.
  - intros i j k Hi Hj Hk. specialize (H8 i Hi). rewrite all3_spec in H8.
    specialize (H8 j Hj). rewrite all3_spec in H8. now apply H8.
  - intros i j Hi Hj A. specialize (H9 i Hi). rewrite all3_spec in H9. specialize (H9 j Hj).
    apply N.eqb_neq in A. rewrite A in H9. now apply ordering_eqb_eq.
  - intros i j Hi Hj A. specialize (H10 i Hi). rewrite all3_spec in H10. specialize (H10 j Hj).
    destruct (ordering_eqb (C i j) OUn) eqn:B; [apply ordering_eqb_eq in B; contradiction|].
    now apply ordering_eqb_eq.
Qed.
