(* C17 — strutil.HasSubseq (repaired: it skips the width decoded in the
   candidate) does not slice out of range, for all byte strings.  Includes the
   width lemma of lib/Utf8.v's decoder that the argument needs. *)
From verif Require Import lib.Base lib.ListX lib.Utf8 model.C17 proofs.C17_proofs.
From Coq Require Import ZifyBool ZifyNat ZifyN.
Open Scope N_scope.
Ltac Zify.zify_post_hook ::= Z.div_mod_to_equations.

(* a decoded rune that is not the width-1 error has the width of its encoding *)
Lemma decode_width s r w :
  decode_rune s = (r, w) -> s <> [] -> ~ (r = RuneError /\ w = 1%nat) ->
  w = rune_len r /\ (1 <= w <= length s)%nat.
Proof.
  intros H Hs Hne. destruct s as [|p0 r1]; [congruence|clear Hs].
  unfold decode_rune in H.
  destruct (p0 <? 128) eqn:E0.
  { inversion H; subst. unfold rune_len, encode_rune. rewrite E0. cbn. lia. }
  unfold first_info in H.
  repeat match type of H with
  | context [if ?c then _ else _] => let E := fresh "E" in destruct c eqn:E
  | context [match ?l with [] => _ | _ :: _ => _ end] => destruct l
  end; try (inversion H; subst; exfalso; apply Hne; split; reflexivity);
  inversion H; subst; clear H; unfold rune_len, encode_rune, valid_rune, is_surrogate, MaxRune, is_cont in *;
  cbn [length];
  repeat match goal with
  | |- context [if ?c then _ else _] => let E := fresh "E" in destruct c eqn:E
  end; cbn [length]; try lia.
Qed.

(* any decoded rune of a non-empty string is between 1 byte and the whole string wide *)
Lemma decode_width_any s r w :
  decode_rune s = (r, w) -> s <> [] -> (1 <= w <= length s)%nat.
Proof.
  intros H Hs.
  destruct (N.eq_dec r RuneError) as [Hr|Hr]; [destruct (Nat.eq_dec w 1) as [Hw|Hw]|].
  - subst w. destruct s; [congruence|cbn [length]; lia].
  - apply (decode_width s r w H Hs). tauto.
  - apply (decode_width s r w H Hs). tauto.
Qed.

(* strings.IndexRune returns an offset inside the string *)
Lemma index_rune_spec p : forall fuel s off i,
  index_rune decode_rune fuel s p off = Some i ->
  exists k, i = (off + k)%nat /\ (k < length s)%nat.
Proof.
  induction fuel as [|f IH]; intros s off i H; cbn [index_rune] in H; [discriminate|].
  destruct s as [|p0 rest] eqn:Es; [discriminate|]. rewrite <- Es in *.
  assert (Hlen : (0 < length s)%nat) by (rewrite Es; cbn [length]; lia).
  destruct (decode_rune s) as [r w] eqn:Ed.
  destruct (N.eqb r p) eqn:Ep.
  - inversion H; subst i. exists 0%nat. split; lia.
  - destruct (IH _ _ _ H) as (k & Hi & Hk). rewrite skipn_length in Hk.
    exists (Nat.max w 1 + k)%nat. split; lia.
Qed.

(* the repaired HasSubseq never slices out of range, for all byte strings *)
Lemma has_subseq_no_panic : forall fuel s t,
  is_panic (has_subseq decode_rune fuel s t) = false.
Proof.
  induction fuel as [|f IH]; intros s t; cbn [has_subseq]; [reflexivity|].
  destruct t as [|t0 trest] eqn:Et; [reflexivity|]. rewrite <- Et.
  destruct (decode_rune t) as [p w].
  destruct (index_rune decode_rune (S (length s)) s p 0) as [i|] eqn:Ei; [|reflexivity].
  destruct (index_rune_spec p _ _ _ _ Ei) as (k & Hi & Hk). cbn [Nat.add] in Hi. subst i.
  rewrite slc_ok by (unfold zlen; lia). cbn [bind].
  rewrite firstn_all2 by (rewrite skipn_length; unfold zlen; lia).
  rewrite Nat2Z.id.
  destruct (decode_rune (skipn k s)) as [r size] eqn:Ed.
  assert (Hne : skipn k s <> []).
  { intros E. apply (f_equal (@length N)) in E. rewrite skipn_length in E. cbn [length] in E. lia. }
  pose proof (decode_width_any _ _ _ Ed Hne) as Hw. rewrite skipn_length in Hw.
  rewrite slc_ok by (unfold zlen; lia). cbn [bind]. apply IH.
Qed.

Lemma go_has_subseq_no_panic s t : is_panic (go_has_subseq s t) = false.
Proof. unfold go_has_subseq. apply has_subseq_no_panic. Qed.
