(* C17 — strutil.HasSubseq does not slice out of range when the candidate
   string is valid UTF-8 (whatever the seed).  Includes the width lemma of
   lib/Utf8.v's decoder that the argument needs. *)
From verif Require Import lib.Base lib.ListX lib.Utf8 model.C17 proofs.C17_proofs.
From Coq Require Import ZifyBool ZifyNat ZifyN.
Open Scope N_scope.
Ltac Zify.zify_post_hook ::= Z.div_mod_to_equations.

(* a decoded rune that is not the width-1 error has the width of its encoding *)
Lemma decode_width s r w :
  decode_rune s = (r, w) -> s <> [] -> ~ (r = RuneError /\ w = 1%nat) ->
  w = rune_len r /\ (1 <= w <= length s)%nat.
Proof.
  intros H Hs Hne. destruct s as [|p0 r1]; [congruence|clear Hs].
  unfold decode_rune in H.
  destruct (p0 <? 128) eqn:E0.
  { inversion H; subst. unfold rune_len, encode_rune. rewrite E0. cbn. lia. }
  unfold first_info in H.
  repeat match type of H with
  | context [if ?c then _ else _] => let E := fresh "E" in destruct c eqn:E
  | context [match ?l with [] => _ | _ :: _ => _ end] => destruct l
  end; try (inversion H; subst; exfalso; apply Hne; split; reflexivity);
  inversion H; subst; clear H; unfold rune_len, encode_rune, valid_rune, is_surrogate, MaxRune, is_cont in *;
  cbn [length];
  repeat match goal with
  | |- context [if ?c then _ else _] => let E := fresh "E" in destruct c eqn:E
  end; cbn [length]; try lia.
Qed.

Definition err1 (r : N) (w : nat) : bool := (r =? RuneError) && Nat.eqb w 1.

Lemma err1_false r w : err1 r w = false -> ~ (r = RuneError /\ w = 1%nat).
Proof. unfold err1. intros H [-> ->]. rewrite N.eqb_refl in H. discriminate. Qed.

(* one step of utf8.Valid *)
Lemma valid_fuel_step f p0 rest :
  valid_fuel (S f) (p0 :: rest) =
  (let '(r, w) := decode_rune (p0 :: rest) in
   if err1 r w then false else valid_fuel f (skipn w (p0 :: rest))).
Proof. reflexivity. Qed.

Lemma valid_fuel_enough : forall f1 f2 s,
  (length s <= f1)%nat -> (length s <= f2)%nat -> valid_fuel f1 s = valid_fuel f2 s.
Proof.
  induction f1 as [|f1 IH]; intros f2 s H1 H2.
  - destruct s; [|cbn in H1; lia]. destruct f2; reflexivity.
  - destruct s as [|p0 rest]; [destruct f2; reflexivity|].
    destruct f2 as [|f2]; [cbn in H2; lia|].
    rewrite !valid_fuel_step.
    destruct (decode_rune (p0 :: rest)) as [r w] eqn:Ed.
    destruct (err1 r w) eqn:Ee; [reflexivity|].
    destruct (decode_width _ _ _ Ed ltac:(discriminate) (err1_false _ _ Ee)) as [_ Hw].
    apply IH; rewrite skipn_length; cbn [length] in *; lia.
Qed.

Lemma valid_step s r w :
  valid s = true -> s <> [] -> decode_rune s = (r, w) ->
  w = rune_len r /\ (1 <= w <= length s)%nat /\ valid (skipn w s) = true.
Proof.
  intros Hv Hs Hd. destruct s as [|p0 rest]; [congruence|].
  unfold valid in Hv. cbn [length] in Hv. rewrite valid_fuel_step, Hd in Hv.
  destruct (err1 r w) eqn:Ee; [discriminate|].
  destruct (decode_width _ _ _ Hd Hs (err1_false _ _ Ee)) as [Hw Hl].
  repeat split; try lia; try exact Hw.
  unfold valid. rewrite <- Hv. apply valid_fuel_enough; rewrite ?skipn_length; cbn [length] in *; lia.
Qed.

Lemma index_rune_spec p : forall fuel s off i,
  valid s = true ->
  index_rune decode_rune fuel s p off = Some i ->
  exists k, i = (off + k)%nat /\ (k + rune_len p <= length s)%nat
            /\ valid (skipn (k + rune_len p) s) = true.
Proof.
  induction fuel as [|f IH]; intros s off i Hv H; cbn [index_rune] in H; [discriminate|].
  destruct s as [|p0 rest] eqn:Es; [discriminate|]. rewrite <- Es in *.
  assert (Hne : s <> []) by (rewrite Es; discriminate).
  destruct (decode_rune s) as [r w] eqn:Ed.
  destruct (valid_step s r w Hv Hne Ed) as (Hw & Hl & Hv').
  destruct (N.eqb r p) eqn:Ep.
  - apply N.eqb_eq in Ep. subst r. inversion H; subst i. exists 0%nat.
    rewrite <- Hw. cbn [Nat.add]. repeat split; try lia. exact Hv'.
  - replace (Nat.max w 1) with w in H by lia.
    destruct (IH _ _ _ Hv' H) as (k & Hi & Hk & Hvk).
    rewrite skipn_length in Hk. rewrite skipn_skipn in Hvk.
    exists (w + k)%nat. repeat split; try lia.
    replace (w + k + rune_len p)%nat with (w + (k + rune_len p))%nat by lia. exact Hvk.
Qed.

Lemma has_subseq_no_panic_partial : forall fuel s t,
  valid s = true -> is_panic (has_subseq decode_rune rune_len fuel s t) = false.
Proof.
  induction fuel as [|f IH]; intros s t Hv; cbn [has_subseq]; [reflexivity|].
  destruct t as [|t0 trest] eqn:Et; [reflexivity|]. rewrite <- Et.
  destruct (decode_rune t) as [p w].
  destruct (index_rune decode_rune (S (length s)) s p 0) as [i|] eqn:Ei; [|reflexivity].
  destruct (index_rune_spec p _ _ _ _ Hv Ei) as (k & Hi & Hk & Hvk). cbn [Nat.add] in Hi. subst i.
  rewrite slc_ok by (unfold zlen; lia). cbn [bind].
  rewrite firstn_all2 by (rewrite skipn_length; unfold zlen; lia).
  rewrite Nat2Z.id. apply IH. exact Hvk.
Qed.

Lemma go_has_subseq_no_panic_partial s t :
  valid s = true -> is_panic (go_has_subseq s t) = false.
Proof. intros Hv. unfold go_has_subseq. now apply has_subseq_no_panic_partial. Qed.
