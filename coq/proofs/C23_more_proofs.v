(* C23 — completeness of the greedy element matcher when every star is
   unrestricted (the classical exchange argument: the greedy choice leaves a
   longer rest, which the next unrestricted star absorbs), and its lifting to
   glob. *)
From verif Require Import lib.Base lib.Utf8 model.C23
  proofs.C23_proofs proofs.C23_glob_proofs proofs.C23_top_proofs.
Open Scope nat_scope.

Section Complete.
Variable decode : bytes -> N * nat.
Hypothesis decode_progress : forall s, s <> [] -> 1 <= snd (decode s) <= length s.

(* s' is reached from s by decoding whole runes *)
Inductive RS : bytes -> bytes -> Prop :=
| RS_refl s : RS s s
| RS_step s r n s' : s <> [] -> decode s = (r, n) -> RS (skipn n s) s' -> RS s s'.

(* the same, every rune accepted by the wildcard *)
Inductive SR (w : wild) : bytes -> bytes -> Prop :=
| SR_refl s : SR w s s
| SR_step s r n s' : s <> [] -> decode s = (r, n) -> wmatch w r = true ->
    SR w (skipn n s) s' -> SR w s s'.

Lemma SR_RS w a b : SR w a b -> RS a b.
Proof. intros H; induction H; [constructor|eapply RS_step; eauto]. Qed.

Lemma RS_trans a b c : RS a b -> RS b c -> RS a c.
Proof. intros H; induction H; intros Hc; [exact Hc|eapply RS_step; eauto]. Qed.

Lemma step_shorter s r n : s <> [] -> decode s = (r, n) -> length (skipn n s) < length s.
Proof.
  intros Hne Hd. pose proof (decode_progress s Hne) as Hp. rewrite Hd in Hp. simpl in Hp.
  rewrite skipn_length. assert (length s > 0) by (destruct s; [congruence|simpl; lia]). lia.
Qed.

Lemma RS_len a b : RS a b -> length b <= length a.
Proof.
  intros H; induction H; [lia|]. pose proof (step_shorter _ _ _ H H0). lia.
Qed.

Lemma RS_same_len a b : RS a b -> length b = length a -> b = a.
Proof.
  intros H; destruct H; intros Hl; [reflexivity|].
  pose proof (step_shorter _ _ _ H H0). pose proof (RS_len _ _ H1). lia.
Qed.

Lemma RS_linear a b c : RS a b -> RS a c -> RS b c \/ RS c b.
Proof.
  intros H; revert c; induction H; intros c Hc; [left; exact Hc|].
  inversion Hc; subst.
  - right. eapply RS_step; eauto.
  - rewrite H0 in H3. inversion H3; subst. apply IHRS; assumption.
Qed.

Definition complete_seg (s : seg) : Prop :=
  match s with
  | Lit d => forall x, RS (d ++ x) x
  | Wild w => w_ty w <> Question -> w_ms w = []
  | Slash => True
  end.

Lemma unrestricted_match w r : w_ms w = [] -> wmatch w r = true.
Proof. unfold wmatch. intros ->. reflexivity. Qed.

(* an unrestricted star in front absorbs any run of runes *)
Lemma absorb w tl a b : w_ty w <> Question -> w_ms w = [] ->
  RS a b -> Matches decode false (Wild w :: tl) b -> Matches decode false (Wild w :: tl) a.
Proof.
  intros Hw Hu H; induction H; intros Hm; [exact Hm|].
  eapply M_starS; eauto. apply WildOk_false, unrestricted_match, Hu.
Qed.

Lemma fixed_split fx : fixed_ok fx -> forall tl name,
  Matches decode false (fx ++ tl) name ->
  exists rest, matchFixed decode fx name = Some rest /\ Matches decode false tl rest.
Proof.
  induction fx as [|s fx IH]; intros Hf tl name Hm.
  - exists name. split; [reflexivity|exact Hm].
  - inversion Hf as [|? ? Hs Hf']; subst. simpl in Hm. inversion Hm; subst.
    + match goal with Hx : Matches decode false (fx ++ tl) _ |- _ =>
        destruct (IH Hf' _ _ Hx) as (rest0 & E & Hr) end.
      exists rest0. split; [|exact Hr].
      simpl. destruct d as [|c d']; [congruence|]. simpl app.
      change (c :: d' ++ rest) with ((c :: d') ++ rest). rewrite strip_prefix_app. exact E.
    + match goal with Hx : Matches decode false (fx ++ tl) _ |- _ =>
        destruct (IH Hf' _ _ Hx) as (rest0 & E & Hr) end.
      exists rest0. split; [|exact Hr].
      simpl. destruct name as [|c nm]; [congruence|].
      match goal with Hd : decode (c :: nm) = _, Hw : WildOk _ _ _ _ |- _ =>
        rewrite Hd; destruct Hw as [Hw _]; rewrite Hw end. exact E.
    + apply nonstar_ty in Hs. congruence.
    + apply nonstar_ty in Hs. congruence.
Qed.

Lemma star_split w tl name : w_ty w <> Question ->
  Matches decode false (Wild w :: tl) name ->
  exists s1, SR w name s1 /\ Matches decode false tl s1.
Proof.
  intros Hw Hm. remember (Wild w :: tl) as segs eqn:Es. remember false as st eqn:Est.
  induction Hm; try discriminate.
  - inversion Es; subst. congruence.
  - inversion Es; subst. exists name. split; [constructor|exact Hm].
  - inversion Es; subst. destruct (IHHm eq_refl eq_refl) as (s1 & Hs & Ht).
    exists s1. split; [|exact Ht].
    match goal with Hw : WildOk _ _ _ _ |- _ => destruct Hw as [Hw _] end.
    eapply SR_step; eauto.
Qed.

(* alignment: matching the same fixed part at two positions of one decoding
   chain leaves rests on one decoding chain *)
Lemma fixed_aligned fx : Forall complete_seg fx -> forall a b ra rb,
  RS a b -> matchFixed decode fx a = Some ra -> matchFixed decode fx b = Some rb -> RS ra rb.
Proof.
  induction fx as [|s fx IH]; intros Hc a b ra rb Hab Ha Hb.
  - simpl in *. inversion Ha; inversion Hb; subst. exact Hab.
  - inversion Hc as [|? ? Hs Hc']; subst. simpl in Ha, Hb.
    destruct a as [|ca a0]; [discriminate|]. destruct b as [|cb b0]; [discriminate|].
    destruct s as [d| |w]; [| discriminate |].
    + destruct (strip_prefix d (ca :: a0)) as [a'|] eqn:Ea; [|discriminate].
      destruct (strip_prefix d (cb :: b0)) as [b'|] eqn:Eb; [|discriminate].
      apply strip_prefix_spec in Ea, Eb. simpl in Hs.
      assert (Haa : RS (ca :: a0) a') by (rewrite Ea; apply Hs).
      assert (Hbb : RS (cb :: b0) b') by (rewrite Eb; apply Hs).
      assert (Hr : RS a' b').
      { destruct (RS_linear _ _ _ Hab Haa) as [H1|H1].
        - destruct (RS_linear _ _ _ H1 Hbb) as [H2|H2]; [exact H2|].
          assert (El : length b' = length a').
          { pose proof (RS_len _ _ H2). pose proof (RS_len _ _ Hab).
            rewrite Ea, Eb in H0. rewrite !app_length in H0. lia. }
          apply RS_same_len in H2; [|lia]. subst. constructor.
        - eapply RS_trans; eauto. }
      eapply IH; eauto.
    + destruct (decode (ca :: a0)) as [r1 n1] eqn:Eda. destruct (wmatch w r1); [|discriminate].
      destruct (decode (cb :: b0)) as [r2 n2] eqn:Edb. destruct (wmatch w r2); [|discriminate].
      assert (Hr : RS (skipn n1 (ca :: a0)) (skipn n2 (cb :: b0))).
      { inversion Hab; subst.
        - rewrite Eda in Edb. inversion Edb; subst. constructor.
        - rewrite Eda in H0. inversion H0; subst.
          eapply RS_trans; [exact H1|]. eapply RS_step; [discriminate|exact Edb|constructor]. }
      eapply IH; eauto.
Qed.

(* the greedy choice of one chunk: direct match, else the star loop *)
Definition greedy (fuel : nat) (w : wild) (fx : list seg) (last : bool) (name : bytes) :=
  match accept last (matchFixed decode fx name) with
  | Some r => Some r
  | None => star_loop decode fuel w fx last name
  end.

Lemma greedy_complete w fx last s1 rest1 :
  accept last (matchFixed decode fx s1) = Some rest1 ->
  forall name, SR w name s1 -> forall fuel, length name <= fuel ->
  exists s0 rest0, greedy fuel w fx last name = Some rest0 /\
                   accept last (matchFixed decode fx s0) = Some rest0 /\ RS s0 s1.
Proof.
  intros Hacc name Hs. induction Hs; intros fuel Hl.
  - exists s, rest1. unfold greedy. rewrite Hacc. split; [reflexivity|split; [first [reflexivity|assumption]|constructor]].
  - unfold greedy. destruct (accept last (matchFixed decode fx s)) as [r0|] eqn:Ea.
    + exists s, r0. split; [reflexivity|split; [first [reflexivity|assumption]|]]. eapply RS_step; eauto. eapply SR_RS; eauto.
    + pose proof (step_shorter _ _ _ H H0) as Hsh.
      destruct fuel as [|f]; [destruct s; [congruence|simpl in Hl; lia]|].
      destruct (IHHs Hacc f ltac:(lia)) as (s0 & rest0 & Hg & Ha0 & Hr).
      exists s0, rest0. split; [|split; assumption].
      simpl. destruct s as [|c nm]; [congruence|]. rewrite H0, H1. exact Hg.
Qed.

Definition has_star (c : option wild * list seg) : Prop := exists w, fst c = Some w.

Lemma accept_intro last rest : (last = true -> rest = []) -> accept last (Some rest) = Some rest.
Proof.
  intros H. unfold accept. destruct last; simpl.
  - rewrite (H eq_refl). reflexivity.
  - rewrite orb_true_r. reflexivity.
Qed.

Lemma match_chunks_complete cs : Forall chunk_ok cs -> Forall complete_seg (unchunk cs) ->
  match cs with [] => True | _ :: tl => Forall has_star tl end ->
  forall name, Matches decode false (unchunk cs) name -> match_chunks decode cs name = true.
Proof.
  induction cs as [|[st fx] tl IH]; intros Hc Hq Ht name Hm.
  - simpl in Hm. inversion Hm. reflexivity.
  - inversion Hc as [|? ? [Hf Hst] Hc']; subst. simpl in Hf, Hst.
    unfold unchunk in Hq, Hm. simpl in Hq, Hm. fold (unchunk tl) in Hq, Hm.
    rewrite <- app_assoc in Hq, Hm.
    apply Forall_app in Hq as [Hq1 Hq23]. apply Forall_app in Hq23 as [Hq2 Hq3].
    assert (Httl : match tl with [] => True | _ :: tl' => Forall has_star tl' end).
    { destruct tl; [exact I|]. inversion Ht; assumption. }
    specialize (IH Hc' Hq3 Httl).
    (* what is needed to continue after this chunk *)
    assert (Hlast : forall rest, Matches decode false (unchunk tl) rest -> is_nil tl = true -> rest = []).
    { intros rest Hr Hn. apply is_nil_true in Hn; subst tl. simpl in Hr. inversion Hr; reflexivity. }
    simpl match_chunks.
    destruct st as [w|]; simpl in Hm.
    + destruct (star_split _ _ _ Hst Hm) as (s1 & Hsr & Hm1).
      destruct (fixed_split _ Hf _ _ Hm1) as (rest1 & E1 & Hr1).
      assert (Hacc : accept (is_nil tl) (matchFixed decode fx s1) = Some rest1).
      { rewrite E1. apply accept_intro. intros Hn. eapply Hlast; eauto. }
      destruct (greedy_complete w fx _ _ _ Hacc _ Hsr (length name) (le_n _))
        as (s0 & rest0 & Hg & Ha0 & Hr0).
      assert (Hcont : match_chunks decode tl rest0 = true).
      { apply accept_some in Ha0 as [E0 Hl0].
        destruct tl as [|[st' fx'] tl'].
        - rewrite (Hl0 eq_refl). reflexivity.
        - apply IH. inversion Ht as [|? ? [w' Hw'] _]; subst. simpl in Hw'. subst st'.
          unfold unchunk in Hr1 |- *. simpl in Hr1 |- *.
          inversion Hc' as [|? ? [_ Hst'] _]; subst. simpl in Hst'.
          unfold unchunk in Hq3. simpl in Hq3. inversion Hq3 as [|? ? Hw3 _]; subst. simpl in Hw3.
          eapply absorb; [exact Hst'|exact (Hw3 Hst')| |exact Hr1].
          exact (fixed_aligned fx Hq2 _ _ _ _ Hr0 E0 E1). }
      unfold greedy in Hg.
      destruct (accept (is_nil tl) (matchFixed decode fx name)) as [r|] eqn:Ea.
      * inversion Hg; subst. exact Hcont.
      * rewrite Hg. exact Hcont.
    + destruct (fixed_split _ Hf _ _ Hm) as (rest & E & Hr).
      rewrite E. rewrite accept_intro by (intros Hn; eapply Hlast; eauto).
      apply IH, Hr.
Qed.

Lemma match_element_complete_gen segs name : Forall complete_seg segs ->
  ElemMatches decode segs name -> matchElement decode segs name = true.
Proof.
  intros Hq [Hb Hm]. unfold matchElement. destruct segs as [|s tl].
  - inversion Hm. reflexivity.
  - apply hidden_block_false in Hb. rewrite Hb.
    destruct (chunks_spec (s :: tl)) as (E & Hc & Ht).
    apply match_chunks_complete; [exact Hc|rewrite E; exact Hq| |rewrite E; eapply Matches_weaken; exact Hm].
    destruct (chunks (s :: tl)) as [|[st fx] tl'] eqn:Ec; [exact I|]. eapply Ht; reflexivity.
Qed.

End Complete.

(* ---- with the concrete decoder ---- *)

Lemma match_element_complete_partial segs name : Forall (complete_seg dec) segs ->
  ElemSpec segs name -> matchElement dec segs name = true.
Proof. apply match_element_complete_gen. exact decode_rune_progress. Qed.

Lemma glob_complete_partial fs fuel segs dir l : Forall (complete_seg dec) segs ->
  glob fuel fs segs dir = Some l -> forall e, PathSpec fs segs dir e -> In e l.
Proof.
  intros HQ. apply glob_complete_rel with (Q := complete_seg dec); [|exact HQ].
  intros s n Hs Hm. apply match_element_complete_partial; assumption.
Qed.

(* ASCII literals are aligned (so are all valid UTF-8 literals; glob.Parse and
   stringToSegments build literals from whole runes) *)
Lemma ascii_lit_aligned d : Forall (fun c => (c < 128)%N) d -> forall x, RS dec (d ++ x) x.
Proof.
  induction d as [|c d IH]; intros Hd x; [constructor|].
  inversion Hd as [|? ? Hc Hd']; subst. simpl app.
  eapply RS_step with (r := c) (n := 1); [discriminate| |apply IH, Hd'].
  unfold dec, decode_rune. apply N.ltb_lt in Hc. rewrite Hc. reflexivity.
Qed.
