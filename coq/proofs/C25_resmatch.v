(* C25 / C26 — completeness of C24's result comparison [res_match] with respect
   to [res_ok] (C24 proves the soundness direction): the run-time oracles built
   on it demand exactly the property, not more. *)
From verif Require Import lib.Base model.C24_F64 model.C24_StoreSpec model.C24
  proofs.C24_proofs proofs.C24_more.
From Coq Require Import Floats.SpecFloat Sorting.Sorted Sorting.Permutation Lia.
Open Scope N_scope.

Lemma f64_eqb_refl a : f64_eqb a a = true.
Proof.
  destruct a; cbn; try reflexivity; try apply Bool.eqb_reflx.
  rewrite Bool.eqb_reflx, Pos.eqb_refl, Z.eqb_refl. reflexivity.
Qed.

Lemma dir_eqb_refl d : dir_eqb d d = true.
Proof. unfold dir_eqb. rewrite bytes_eqb_refl, f64_eqb_refl. reflexivity. Qed.

Lemma cmds_eqb_refl (l : list (bytes * Z)) : list_eqb cmdout_eqb l l = true.
Proof. apply list_eqb_spec; [apply cmdout_eqb_spec|reflexivity]. Qed.

Lemma remove1_in x l : In x l -> exists l', remove1 x l = Some l' /\ Permutation l (x :: l').
Proof.
  induction l as [|y l IH]; intros Hin; [contradiction|]. cbn [remove1].
  destruct (dir_eqb x y) eqn:E.
  - apply dir_eqb_eq in E. subst y. exists l. split; reflexivity.
  - destruct Hin as [->|Hin]; [rewrite dir_eqb_refl in E; discriminate|].
    destruct (IH Hin) as (l' & -> & Hp). exists (y :: l'). split; [reflexivity|].
    eapply perm_trans; [apply perm_skip, Hp|apply perm_swap].
Qed.

Lemma permb_complete a : forall b, Permutation a b -> permb a b = true.
Proof.
  induction a as [|x a IH]; intros b Hp; cbn [permb].
  - apply Permutation_nil in Hp. subst. reflexivity.
  - assert (Hin : In x b) by (eapply Permutation_in; [exact Hp|left; reflexivity]).
    destruct (remove1_in x b Hin) as (b' & -> & Hb).
    apply IH. eapply Permutation_cons_inv. eapply perm_trans; [exact Hp|exact Hb].
Qed.

Lemma desc_sortedb_complete l : DescSorted l -> desc_sortedb l = true.
Proof.
  unfold DescSorted. induction 1 as [|a l Hs IH Hf]; cbn [desc_sortedb]; [reflexivity|].
  rewrite IH, andb_true_r. apply forallb_forall. intros b Hb.
  rewrite Forall_forall in Hf. rewrite (Hf b Hb). reflexivity.
Qed.

Lemma res_match_complete e o : res_ok e o -> res_match e o = true.
Proof.
  destruct e, o; cbn [res_ok res_match]; intros H; try discriminate H;
    try (match type of H with _ /\ _ => destruct H as [Hp Hd];
           rewrite (permb_complete _ _ Hp), (desc_sortedb_complete _ Hd); reflexivity end);
    inversion H; subst;
    first [ reflexivity | apply Z.eqb_refl | apply bytes_eqb_refl | apply cmds_eqb_refl
          | rewrite bytes_eqb_refl, Z.eqb_refl; reflexivity ].
Qed.

Lemma res_match_iff e o : res_match e o = true <-> res_ok e o.
Proof. split; [apply res_match_sound|apply res_match_complete]. Qed.
