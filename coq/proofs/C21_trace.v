(* C21 — trace theorems: invariants of the ghost event log of the reference
   interpreter, by induction over the fuel-indexed evaluation. *)
From verif Require Import lib.Base model.C15_Syntax model.C15_Values model.C15_Interp
  proofs.C21_proofs.
From Coq Require Import Arith Lia.
Open Scope nat_scope.

Definition gl (s : state) := g_log (st_ghost s).
Definition gf (s : state) := g_frame (st_ghost s).
Definition gw (s : state) := g_wid (st_ghost s).
Definition gn (s : state) := g_next (st_ghost s).

Definition tag (e : gev) : nat :=
  match e with
  | GEnter f | GExit f | GReg f _ | GRun f _ | GWAssign f _ | GWRestore f _ => f
  end.

(* registrations of frame f / assignments of `with` w in a log piece, same order *)
Fixpoint regs_of (f : nat) (l : list gev) : list deferred :=
  match l with
  | [] => []
  | GReg f' d :: r => if Nat.eqb f' f then d :: regs_of f r else regs_of f r
  | _ :: r => regs_of f r
  end.

Fixpoint wass_of (w : nat) (l : list gev) : list deferred :=
  match l with
  | [] => []
  | GWAssign w' d :: r => if Nat.eqb w' w then d :: wass_of w r else wass_of w r
  | _ :: r => wass_of w r
  end.

Definition evs_of (f : nat) (l : list gev) : list gev := filter (fun e => Nat.eqb (tag e) f) l.

(* which events a piece of evaluation started in frame fr (with `with` wd being
   set up, fresh ids from lo) may add: registrations of its own frame,
   assignments of its own `with` (only while that `with` is being set up: b),
   and anything carrying an id allocated meanwhile *)
Definition ev_ok (b : bool) (fr wd lo hi : nat) (e : gev) : Prop :=
  match e with
  | GReg f _ => f = fr \/ (lo <= f /\ f < hi)
  | GWAssign w _ => (b = true /\ w = wd) \/ (lo <= w /\ w < hi)
  | _ => lo <= tag e /\ tag e < hi
  end.

Definition Rn (b : bool) (s s' : state) (new : list gev) : Prop :=
  gl s' = new ++ gl s
  /\ Forall (ev_ok b (gf s) (gw s) (gn s) (gn s')) new
  /\ st_defers s' = regs_of (gf s) new ++ st_defers s
  /\ st_wrest s' = wass_of (gw s) new ++ st_wrest s
  /\ gf s' = gf s /\ gw s' = gw s /\ gn s <= gn s'.

Definition WF (s : state) : Prop := gf s < gn s /\ gw s < gn s.

Lemma regs_of_app f a b : regs_of f (a ++ b) = regs_of f a ++ regs_of f b.
Proof.
  induction a as [|e a IH]; simpl; auto. destruct e; auto.
  destruct (Nat.eqb f0 f); simpl; rewrite IH; reflexivity.
Qed.

Lemma wass_of_app w a b : wass_of w (a ++ b) = wass_of w a ++ wass_of w b.
Proof.
  induction a as [|e a IH]; simpl; auto. destruct e; auto.
  destruct (Nat.eqb w0 w); simpl; rewrite IH; reflexivity.
Qed.

Lemma evs_of_app f a b : evs_of f (a ++ b) = evs_of f a ++ evs_of f b.
Proof. apply filter_app. Qed.

Lemma ev_ok_weaken b fr wd lo hi lo' hi' e :
  lo' <= lo -> hi <= hi' -> ev_ok b fr wd lo hi e -> ev_ok b fr wd lo' hi' e.
Proof.
  intros H1 H2. destruct e; simpl; intros H; try lia.
  destruct H as [H|H]; [left; exact H|right; lia].
Qed.

Lemma ev_ok_b fr wd lo hi e b : ev_ok false fr wd lo hi e -> ev_ok b fr wd lo hi e.
Proof. destruct e; simpl; intros H; try exact H. destruct H as [[H _]|H]; [discriminate|right; exact H]. Qed.

Lemma Forall_weaken b fr wd lo hi lo' hi' l :
  lo' <= lo -> hi <= hi' -> Forall (ev_ok b fr wd lo hi) l -> Forall (ev_ok b fr wd lo' hi') l.
Proof. intros H1 H2 H. eapply Forall_impl; [|exact H]. intros e. apply ev_ok_weaken; assumption. Qed.

Lemma Rn_refl b s : Rn b s s [].
Proof. unfold Rn; simpl. repeat split; auto. Qed.

Lemma Rn_trans b s0 s1 s2 n1 n2 :
  Rn b s0 s1 n1 -> Rn b s1 s2 n2 -> Rn b s0 s2 (n2 ++ n1).
Proof.
  intros (L1 & F1 & D1 & W1 & f1 & w1 & N1) (L2 & F2 & D2 & W2 & f2 & w2 & N2).
  unfold Rn. rewrite f1, w1 in *. repeat split; try congruence; try lia.
  - rewrite L2, L1. apply app_assoc.
  - apply Forall_app; split.
    + eapply Forall_weaken; [| |exact F2]; lia.
    + eapply Forall_weaken; [| |exact F1]; lia.
  - rewrite regs_of_app, D2, D1. apply app_assoc.
  - rewrite wass_of_app, W2, W1. apply app_assoc.
Qed.

Lemma Rn_weak b s s' new : Rn false s s' new -> Rn b s s' new.
Proof.
  intros (L & F & R). split; [exact L|]. split; [|exact R].
  eapply Forall_impl; [|exact F]. intros e. apply ev_ok_b.
Qed.

(* states that agree on trace, deferred list and with-list *)
Definition same (s1 s : state) : Prop :=
  st_ghost s1 = st_ghost s /\ st_defers s1 = st_defers s /\ st_wrest s1 = st_wrest s.

Lemma Rn_same b s0 s s1 new : Rn b s0 s new -> same s1 s -> Rn b s0 s1 new.
Proof.
  intros (L & F & D & W & f & w & N) (Eg & Ed & Ew). unfold Rn, gl, gf, gw, gn in *.
  rewrite Eg, Ed, Ew. repeat split; assumption.
Qed.

Lemma Rn_same_l b s0 s0' s new : Rn b s0 s new -> same s0' s0 -> Rn b s0' s new.
Proof.
  intros (L & F & D & W & f & w & N) (Eg & Ed & Ew). unfold Rn, gl, gf, gw, gn in *.
  rewrite Eg, Ed, Ew. repeat split; assumption.
Qed.

Lemma WF_same s1 s : same s1 s -> WF s -> WF s1.
Proof. intros (Eg & _). unfold WF, gf, gw, gn. rewrite Eg. auto. Qed.

Lemma Rn_WF b s0 s new : WF s0 -> Rn b s0 s new -> WF s.
Proof. intros [H1 H2] (_ & _ & _ & _ & f & w & N). unfold WF. lia. Qed.

Lemma same_refl s : same s s.
Proof. repeat split. Qed.

Lemma same_trans a b c : same a b -> same b c -> same a c.
Proof. intros (A1 & A2 & A3) (B1 & B2 & B3). repeat split; congruence. Qed.

Lemma same_alloc_all : forall bs s e, same (fst (alloc_all s bs e)) s.
Proof.
  induction bs as [|[x v] r IH]; intros s e; simpl; [apply same_refl|].
  eapply same_trans; [apply IH|]. repeat split.
Qed.

Lemma same_declare_all : forall xs s vs, same (declare_all s xs vs) s.
Proof.
  induction xs as [|x xs IH]; intros s [|v vs]; simpl; try apply same_refl.
  eapply same_trans; [apply IH|]. repeat split.
Qed.

Lemma same_apply_restores : forall rs s, same (apply_restores s rs) s.
Proof.
  induction rs as [|[a v|f] r IH]; intros s; simpl; try apply same_refl; auto.
  eapply same_trans; [apply IH|]. repeat split.
Qed.

Lemma regs_of_map_reg f rs : regs_of f (map (GReg f) rs) = rs.
Proof. induction rs as [|d r IH]; simpl; auto. rewrite Nat.eqb_refl, IH. reflexivity. Qed.

Lemma wass_of_map_reg w f rs : wass_of w (map (GReg f) rs) = [].
Proof. induction rs; simpl; auto. Qed.

Lemma wass_of_map_wass w rs : wass_of w (map (GWAssign w) rs) = rs.
Proof. induction rs as [|d r IH]; simpl; auto. rewrite Nat.eqb_refl, IH. reflexivity. Qed.

Lemma regs_of_map_wass f w rs : regs_of f (map (GWAssign w) rs) = [].
Proof. induction rs; simpl; auto. Qed.

(* registering in the current frame *)
Lemma Rn_reg b s0 s new rs :
  Rn b s0 s new ->
  Rn b s0 (emit (set_defers s (rs ++ st_defers s)) (map (GReg (gf s)) rs)) (map (GReg (gf s)) rs ++ new).
Proof.
  intros (L & F & D & W & f & w & N). unfold Rn, gl, gf, gw, gn in *; simpl.
  repeat split; auto.
  - rewrite L. apply app_assoc.
  - apply Forall_app; split; [|exact F].
    apply Forall_forall. intros e He. apply in_map_iff in He as (d & <- & _). simpl. left. exact f.
  - rewrite regs_of_app, f, regs_of_map_reg, D. apply app_assoc.
  - rewrite wass_of_app, wass_of_map_reg. exact W.
Qed.

Lemma Rn_wass s0 s new rs :
  Rn true s0 s new ->
  Rn true s0 (emit (set_wrest s (rs ++ st_wrest s)) (map (GWAssign (gw s)) rs))
     (map (GWAssign (gw s)) rs ++ new).
Proof.
  intros (L & F & D & W & f & w & N). unfold Rn, gl, gf, gw, gn in *; simpl.
  repeat split; auto.
  - rewrite L. apply app_assoc.
  - apply Forall_app; split; [|exact F].
    apply Forall_forall. intros e He. apply in_map_iff in He as (d & <- & _). simpl. left. auto.
  - rewrite regs_of_app, regs_of_map_wass. exact D.
  - rewrite wass_of_app, w, wass_of_map_wass, W. apply app_assoc.
Qed.

(* ------------------------------------------------------------------ *)
(* finished results extend the start state's trace in the allowed way *)
Definition G (b : bool) (s0 : state) (r : res) : Prop :=
  finished r = true -> exists new, Rn b s0 (fst r) new.

Lemma G_any b s0 s o new : Rn b s0 s new -> G b s0 (s, o).
Proof. intros H _. exists new. exact H. Qed.

Lemma G_unsup b s0 s : G b s0 (unsup s).
Proof. intros H. discriminate. Qed.

Lemma G_bind b s0 r k :
  G b s0 r -> (forall s' vs new, Rn b s0 s' new -> G b s0 (k s' vs)) -> G b s0 (bind r k).
Proof.
  intros Hr Hk. destruct r as [s [vs|e p| |]]; simpl; try exact Hr.
  destruct (Hr eq_refl) as (new & H). eapply Hk. exact H.
Qed.

Lemma G_settle b s0 r k :
  G b s0 r -> (forall s' o new, Rn b s0 s' new -> G b s0 (k s' o)) -> G b s0 (settle r k).
Proof.
  intros Hr Hk. destruct r as [s [vs|e p| |]]; simpl; try exact Hr;
    destruct (Hr eq_refl) as (new & H); eapply Hk; exact H.
Qed.

Lemma G_lift {A} b s0 s new (p : pres A) k :
  Rn b s0 s new -> (forall a, G b s0 (k a)) -> G b s0 (lift s p k).
Proof.
  intros H Hk. destruct p; simpl; [apply Hk| |apply G_unsup]. eapply G_any. exact H.
Qed.

Ltac same_tac :=
  first [ apply same_refl
        | solve [repeat split; reflexivity]
        | apply same_declare_all
        | apply same_apply_restores ].

Ltac rn :=
  match goal with
  | H : Rn ?b ?s0 ?s _ |- Rn ?b ?s0 ?t _ => eapply Rn_same; [exact H | same_tac]
  end.

Lemma same_assign_all : forall ts s vs acc s' rs st,
  assign_all s ts vs acc = (s', rs, st) -> same s' s.
Proof.
  induction ts as [|t ts IH]; intros s vs acc s' rs st H; simpl in H.
  - inversion H; subst. apply same_refl.
  - destruct vs as [|v vs]; [inversion H; subst; apply same_refl|].
    destruct (assign_target s t v) as [s1| |] eqn:E; try (inversion H; subst; apply same_refl).
    eapply same_trans; [eapply IH; exact H|].
    unfold assign_target in E. destruct (t_ixs t).
    + inversion E; subst. repeat split.
    + destruct (nested_assoc _ _ _); simpl in E; inversion E; subst. repeat split.
Qed.

Section Inv.
Variable run : runner.

(* what the induction carries for the runner: the strict relation, and for a
   call that every new event carries an id allocated by the call *)
Definition Good (t : task) (s : state) (r : res) : Prop :=
  finished r = true ->
  exists new, Rn false s (fst r) new
    /\ match t with
       | TCall _ _ _ _ => Forall (fun e => gn s <= tag e) new
       | _ => True
       end.

Hypothesis Hrun : forall t s, WF s -> Good t s (run t s).

Lemma G_run b s0 s new t : WF s0 -> Rn b s0 s new -> G b s0 (run t s).
Proof.
  intros W R F. destruct (Hrun t s (Rn_WF _ _ _ _ W R) F) as (n2 & R2 & _).
  exists (n2 ++ new). eapply Rn_trans; [exact R|apply Rn_weak, R2].
Qed.

Ltac gbase :=
  first
    [ eapply G_any; rn
    | apply G_unsup
    | eapply G_run; [eassumption | rn]
    | apply G_bind; [ | intros ? ? ? ? ]
    | apply G_settle; [ | intros ? ? ? ? ]
    | eapply G_lift; [ rn | intros ? ]
    | match goal with
      | |- G _ _ (match ?x with _ => _ end) => destruct x
      | |- G _ _ (if ?x then _ else _) => destruct x
      end ].

Lemma eval_list_G b : forall es s0 s new acc,
  WF s0 -> Rn b s0 s new -> G b s0 (eval_list run es s acc).
Proof.
  induction es as [|e r IH]; intros s0 s new acc W R; simpl; repeat gbase.
  eapply IH; eassumption.
Qed.

Lemma eval_groups_G b : forall es s0 s new acc,
  WF s0 -> Rn b s0 s new -> G b s0 (eval_groups run es s acc).
Proof.
  induction es as [|e r IH]; intros s0 s new acc W R; simpl; repeat gbase.
  eapply IH; eassumption.
Qed.

Lemma eval_singles_G b : forall es s0 s new acc k,
  WF s0 -> Rn b s0 s new ->
  (forall s' vs new', Rn b s0 s' new' -> G b s0 (k s' vs)) ->
  G b s0 (eval_singles run es s acc k).
Proof.
  induction es as [|e r IH]; intros s0 s new acc k W R Hk; simpl; [eapply Hk; exact R|].
  repeat gbase. eapply IH; eassumption.
Qed.

Lemma eval_opts_G b : forall os s0 s new acc k,
  WF s0 -> Rn b s0 s new ->
  (forall s' vs new', Rn b s0 s' new' -> G b s0 (k s' vs)) ->
  G b s0 (eval_opts run os s acc k).
Proof.
  induction os as [|[x e] r IH]; intros s0 s new acc k W R Hk; simpl; [eapply Hk; exact R|].
  repeat gbase. eapply IH; eassumption.
Qed.

Lemma eval_lvalues_G b : forall lvs s0 s new acc k,
  WF s0 -> Rn b s0 s new ->
  (forall s' ts new', Rn b s0 s' new' -> G b s0 (k s' ts)) ->
  G b s0 (eval_lvalues run lvs s acc k).
Proof.
  induction lvs as [|[[rst x] ixs] r IH]; intros s0 s new acc k W R Hk; simpl; [eapply Hk; exact R|].
  destruct (lookup (st_env s) x); [|apply G_unsup].
  eapply eval_singles_G; [exact W|exact R|]. intros s' ivs new' R'.
  eapply G_lift; [exact R'|]. intros _. eapply IH; eassumption.
Qed.

Lemma do_assign_G b m lvs rhs s0 s new :
  (m = MWith -> b = true) ->
  WF s0 -> Rn b s0 s new -> G b s0 (do_assign run m lvs rhs s).
Proof.
  intros Hm W R. unfold do_assign.
  eapply eval_lvalues_G; [exact W|exact R|]. intros s1 ts n1 R1.
  apply G_bind; [eapply eval_list_G; eassumption|]. intros s2 vs n2 R2.
  destruct (distribute _ _ vs) as [vs'|]; [|eapply G_any; exact R2].
  destruct (assign_all s2 ts vs' []) as [[s3 rs] st] eqn:E.
  assert (R3 : Rn b s0 s3 n2) by (eapply Rn_same; [exact R2|eapply same_assign_all; exact E]).
  assert (R4 : exists n4, Rn b s0 (register m s3 rs) n4).
  { destruct m; simpl.
    - exists n2; exact R3.
    - eexists. apply Rn_reg. exact R3.
    - rewrite (Hm eq_refl) in *. eexists. apply Rn_wass. exact R3. }
  destruct R4 as (n4 & R4). eapply G_lift; [exact R4|]. intros _. eapply G_any. exact R4.
Qed.

Lemma with_assigns_G : forall assigns s0 s new,
  WF s0 -> Rn true s0 s new -> G true s0 (with_assigns run assigns s).
Proof.
  induction assigns as [|[lvs rhs] r IH]; intros s0 s new W R; simpl; [eapply G_any; exact R|].
  apply G_bind; [eapply do_assign_G; auto; eassumption|]. intros s' vs n' R'. eapply IH; eassumption.
Qed.

Lemma call_block_G b body s0 s new : WF s0 -> Rn b s0 s new -> G b s0 (call_block run body s).
Proof. intros W R. unfold call_block. eapply G_run; eassumption. Qed.

Lemma for_loop_G b a body els : forall items iterated s0 s new,
  WF s0 -> Rn b s0 s new -> G b s0 (for_loop run a items body els iterated s).
Proof.
  induction items as [|v r IH]; intros iterated s0 s new W R; simpl.
  - destruct iterated; [eapply G_any; exact R|].
    destruct els; [eapply call_block_G; eassumption|eapply G_any; exact R].
  - apply G_settle; [eapply call_block_G; [exact W|rn]|]. intros s2 o n2 R2.
    destruct o as [vs|k p| |]; try (eapply G_any; exact R2).
    + eapply IH; eassumption.
    + destruct k; try (eapply G_any; exact R2). eapply IH; eassumption.
Qed.

Lemma each_loop_G b f : forall items s0 s new,
  WF s0 -> Rn b s0 s new -> G b s0 (each_loop run f items s).
Proof.
  induction items as [|v r IH]; intros s0 s new W R; simpl; [eapply G_any; exact R|].
  apply G_settle; [eapply G_run; eassumption|]. intros s2 o n2 R2.
  destruct o as [vs|k p| |]; try (eapply G_any; exact R2).
  - eapply IH; eassumption.
  - destruct k; try (eapply G_any; exact R2). eapply IH; eassumption.
Qed.

Lemma short_circuit_G b stop keep : forall es last s0 s new,
  WF s0 -> Rn b s0 s new -> G b s0 (short_circuit run stop keep es last s).
Proof.
  induction es as [|e r IH]; intros last s0 s new W R; simpl; [eapply G_any; rn|].
  apply G_bind; [eapply G_run; eassumption|]. intros s' vs n' R'.
  destruct (scan_stop stop vs last) as [v stopped]. destruct stopped; [eapply G_any; rn|].
  eapply IH; eassumption.
Qed.

Lemma inputs_of_G b rest inp s0 s new k :
  Rn b s0 s new -> (forall items, G b s0 (k items)) -> G b s0 (inputs_of rest inp s k).
Proof.
  intros R Hk. unfold inputs_of. destruct rest as [|c [|? ?]]; [apply Hk| |eapply G_any; exact R].
  eapply G_lift; [exact R|exact Hk].
Qed.

Lemma apply_builtin_G b bi args opts inp s0 s new :
  WF s0 -> Rn b s0 s new -> G b s0 (apply_builtin run bi args opts inp s).
Proof.
  intros W R. unfold apply_builtin, compare, out1.
  destruct opts; destruct bi;
    try solve [repeat first [ gbase | eapply inputs_of_G; [exact R|intros ?] ]].
  - (* each *)
    destruct args as [|c rest]; [eapply G_any; exact R|].
    destruct rest as [|? [|? ?]]; try (eapply G_any; exact R);
      destruct c; try (eapply G_any; exact R); try apply G_unsup;
      (eapply inputs_of_G; [exact R|intros items; eapply each_loop_G; eassumption]).
  - (* defer *)
    destruct args as [|c [|? ?]]; try (eapply G_any; exact R).
    destruct c; try (eapply G_any; exact R); try apply G_unsup.
    destruct (st_infn s); [|eapply G_any; exact R].
    eapply G_any.
    change (emit (set_defers s (DCall (VClos args rest opts body cenv isfn) :: st_defers s))
                 [GReg (g_frame (st_ghost s)) (DCall (VClos args rest opts body cenv isfn))])
      with (emit (set_defers s ([DCall (VClos args rest opts body cenv isfn)] ++ st_defers s))
                 (map (GReg (gf s)) [DCall (VClos args rest opts body cenv isfn)])).
    apply Rn_reg. exact R.
Qed.

Lemma if_chain_G b els : forall branches s0 s new,
  WF s0 -> Rn b s0 s new -> G b s0 (if_chain run branches els s).
Proof.
  induction branches as [|[c bd] r IH]; intros s0 s new W R; simpl.
  - destruct els; [eapply call_block_G; eassumption|eapply G_any; exact R].
  - apply G_bind; [eapply G_run; eassumption|]. intros s1 vs n1 R1.
    destruct (forallb truthy vs); [eapply call_block_G; eassumption|eapply IH; eassumption].
Qed.

Lemma del_targets_G b : forall ts s0 s new,
  WF s0 -> Rn b s0 s new -> G b s0 (del_targets run ts s).
Proof.
  induction ts as [|[x ixs] r IH]; intros s0 s new W R; simpl; [eapply G_any; exact R|].
  destruct ixs as [|i ixs]; [eapply IH; [exact W|rn]|].
  destruct (lookup (st_env s) x); [|apply G_unsup].
  eapply eval_singles_G; [exact W|exact R|]. intros s' ivs n' R'.
  eapply G_lift; [exact R'|]. intros nv. eapply IH; [exact W|rn].
Qed.

Lemma run_stages_G b : forall stages inp s0 s new excs,
  WF s0 -> Rn b s0 s new -> G b s0 (run_stages run stages inp s excs).
Proof.
  induction stages as [|c r IH]; intros inp s0 s new excs W R; simpl.
  - unfold finish_pipe. repeat gbase.
  - destruct r as [|c2 r'].
    + apply G_settle; [eapply G_run; eassumption|]. intros s1 o n1 R1.
      unfold finish_pipe. repeat gbase.
    + apply G_settle; [eapply G_run; [exact W|rn]|]. intros s1 o n1 R1.
      destruct (Nat.ltb 30 (length (rev (st_out s1)))); [apply G_unsup|].
      eapply IH; [exact W|rn].
Qed.

Lemma run_chunk_G b : forall c s0 s new,
  WF s0 -> Rn b s0 s new -> G b s0 (run_chunk run c s).
Proof.
  induction c as [|p r IH]; intros s0 s new W R; simpl; [eapply G_any; exact R|].
  apply G_bind; [eapply run_stages_G; eassumption|]. intros s' vs n' R'. eapply IH; eassumption.
Qed.

Ltac gauto :=
  cbv beta iota zeta;
  repeat first
    [ eapply G_any; rn
    | apply G_unsup
    | eapply G_run; [eassumption | rn]
    | eapply call_block_G; [eassumption | rn]
    | eapply eval_list_G; [eassumption | rn]
    | eapply eval_groups_G; [eassumption | rn]
    | eapply do_assign_G; [intros ?; discriminate | eassumption | rn]
    | eapply del_targets_G; [eassumption | rn]
    | eapply if_chain_G; [eassumption | rn]
    | eapply for_loop_G; [eassumption | rn]
    | eapply short_circuit_G; [eassumption | rn]
    | eapply apply_builtin_G; [eassumption | rn]
    | eapply run_chunk_G; [eassumption | rn]
    | eapply eval_opts_G; [eassumption | rn | intros ? ? ? ?]
    | eapply eval_singles_G; [eassumption | rn | intros ? ? ? ?]
    | apply G_bind; [ | intros ? ? ? ? ]
    | apply G_settle; [ | intros ? ? ? ? ]
    | eapply G_lift; [ rn | intros ? ]
    | match goal with
      | |- G _ _ (match ?x with _ => _ end) => destruct x
      | |- G _ _ (if ?x then _ else _) => destruct x
      end ].

Lemma step_expr_G b e s0 s new : WF s0 -> Rn b s0 s new -> G b s0 (step_expr run e s).
Proof.
  intros W R. unfold step_expr; destruct e; try solve [gauto].
  (* map literal: the inner loop over the evaluated pairs *)
  apply G_bind; [eapply eval_groups_G; eassumption|]. intros s1 kgs n1 R1.
  apply G_bind; [eapply eval_groups_G; eassumption|]. intros s2 vgs n2 R2.
  generalize (@nil (value * value)). revert vgs.
  induction kgs as [|kg kr IH]; intros vgs m.
  - destruct vgs; gauto.
  - destruct kg; try apply G_unsup. destruct vgs as [|vg vr]; try apply G_unsup.
    destruct vg; try apply G_unsup.
    eapply G_lift; [exact R2|]. intros m'. apply IH.
Qed.

Lemma regs_of_plain f es :
  Forall (fun e => match e with GReg _ _ | GWAssign _ _ => False | _ => True end) es ->
  regs_of f es = [] /\ forall w, wass_of w es = [].
Proof.
  induction es as [|e r IH]; intros H; [split; reflexivity|].
  inversion H as [|? ? He Hr]; subst. destruct (IH Hr) as [I1 I2].
  destruct e; simpl; try contradiction; split; auto.
Qed.

Lemma fresh_ev_ok b fr wd lo hi e : lo <= tag e -> tag e < hi -> ev_ok b fr wd lo hi e.
Proof. destruct e; simpl; intros; try lia; right; lia. Qed.

(* events that are neither registrations nor with-assignments, with fresh ids *)
Lemma Rn_emit_fresh b s0 s n es :
  Rn b s0 s n ->
  Forall (fun e => match e with GReg _ _ | GWAssign _ _ => False | _ => True end) es ->
  Forall (fun e => gn s0 <= tag e /\ tag e < gn s) es ->
  Rn b s0 (emit s es) (es ++ n).
Proof.
  intros (L & F & D & Wr & f & w & N) Hp Hf. destruct (regs_of_plain (gf s0) es Hp) as [E1 E2].
  unfold Rn, gl, gf, gw, gn in *; simpl. repeat split; auto.
  - rewrite L. apply app_assoc.
  - apply Forall_app; split; [|exact F].
    eapply Forall_impl; [|exact Hf]. intros e [H1 H2]. apply fresh_ev_ok; assumption.
  - rewrite regs_of_app. unfold gf in E1. rewrite E1. exact D.
  - rewrite wass_of_app, E2. exact Wr.
Qed.

Lemma wass_of_none w l :
  Forall (fun e => match e with GWAssign w' _ => w' <> w | _ => True end) l -> wass_of w l = [].
Proof.
  induction l as [|e r IH]; intros H; [reflexivity|]. inversion H as [|? ? He Hr]; subst.
  destruct e; simpl; auto. apply Nat.eqb_neq in He. rewrite He. auto.
Qed.

(* leaving the set-up phase of `with` w = gn s: seen from s, its assignments carry a fresh id *)
Lemma with_leave s s1 na :
  WF s ->
  Rn true (enter_with (set_wrest s [])) s1 na ->
  Rn false s (leave_with (set_wrest s1 (st_wrest s)) (gw s)) na.
Proof.
  intros [W1 W2] (L & F & D & Wr & f & w & N).
  unfold Rn, gl, gf, gw, gn in *; simpl in *.
  assert (F' : Forall (ev_ok false (g_frame (st_ghost s)) (g_wid (st_ghost s))
                             (g_next (st_ghost s)) (g_next (st_ghost s1))) na).
  { eapply Forall_impl; [|exact F]. intros e. destruct e; simpl; intros H; lia. }
  assert (E : wass_of (g_wid (st_ghost s)) na = []).
  { apply wass_of_none. eapply Forall_impl; [|exact F]. intros e. destruct e; simpl; auto.
    intros H; lia. }
  repeat split; auto; try lia. rewrite E. reflexivity.
Qed.

Lemma with_cmd_G b assigns body inp s0 s new :
  WF s0 -> Rn b s0 s new -> G b s0 (step_cmd run (CWith assigns body) inp s).
Proof.
  intros W R. unfold G, step_cmd. cbv zeta.
  assert (Ws : WF s) by exact (Rn_WF _ _ _ _ W R).
  set (sa := enter_with (set_wrest s [])).
  assert (Wa : WF sa) by (destruct Ws; unfold WF, sa, gf, gw, gn in *; simpl; lia).
  pose proof (with_assigns_G assigns sa sa [] Wa (Rn_refl true sa)) as GA.
  destruct (with_assigns run assigns sa) as [s1 o] eqn:EA.
  assert (Hpl : forall rs, Forall (fun e => match e with GReg _ _ | GWAssign _ _ => False | _ => True end)
                                  (rev (map (GWRestore (g_next (st_ghost s))) rs))).
  { intros rs. apply Forall_rev. apply Forall_forall. intros e He.
    apply in_map_iff in He as (d & <- & _). exact I. }
  assert (Hfr : forall rs sx, gn s < gn sx ->
            Forall (fun e => gn s0 <= tag e /\ tag e < gn (apply_restores sx rs))
                   (rev (map (GWRestore (g_next (st_ghost s))) rs))).
  { intros rs sx Hlt. apply Forall_rev. apply Forall_forall. intros e He.
    apply in_map_iff in He as (d & <- & _). simpl.
    destruct (same_apply_restores rs sx) as (Eg & _).
    destruct R as (_ & _ & _ & _ & _ & _ & N). unfold gn in *. rewrite Eg. lia. }
  set (s2 := leave_with (set_wrest s1 (st_wrest s)) (g_wid (st_ghost s))).
  destruct o as [vs|k p| |]; cbn [settle]; try (intros F; simpl in F; discriminate).
  - (* assignments done: the body *)
    destruct (GA eq_refl) as (na & Ra). cbn [fst] in Ra.
    pose proof (with_leave s s1 na Ws Ra) as R2. fold s2 in R2.
    assert (R2' : Rn b s0 s2 (na ++ new)) by (eapply Rn_trans; [exact R|apply Rn_weak, R2]).
    assert (W2 : WF s2) by exact (Rn_WF _ _ _ _ Ws R2).
    unfold call_block. fold s2.
    pose proof (Hrun (TCall (block body s2) [] [] []) s2 W2) as GB.
    destruct (run (TCall (block body s2) [] [] []) s2) as [s3 o'] eqn:EB.
    destruct o' as [vs'|k' p'| |]; cbn [settle];
      try (intros F; cbn in F; discriminate F).
    all: intros _;
      destruct (GB eq_refl) as (nb & Rb & _); cbn [fst] in Rb;
      (assert (R3 : Rn b s0 s3 (nb ++ na ++ new)) by (eapply Rn_trans; [exact R2'|apply Rn_weak, Rb]));
      (assert (Hn3 : gn s < gn s3)
        by (destruct Rb as (_ & _ & _ & _ & _ & _ & N3); destruct Ra as (_ & _ & _ & _ & _ & _ & N1);
            unfold s2, sa, gn in *; simpl in *; lia));
      eexists; cbn [fst]; eapply Rn_emit_fresh;
        [eapply Rn_same; [exact R3|apply same_apply_restores]|apply Hpl|apply Hfr; exact Hn3].
  - (* an assignment raised *)
    fold s2. intros _. destruct (GA eq_refl) as (na & Ra). cbn [fst] in Ra.
    pose proof (with_leave s s1 na Ws Ra) as R2. fold s2 in R2.
    assert (R2' : Rn b s0 s2 (na ++ new)) by (eapply Rn_trans; [exact R|apply Rn_weak, R2]).
    assert (Hn2 : gn s < gn s2).
    { destruct Ra as (_ & _ & _ & _ & _ & _ & N). unfold s2, sa, gn in *; simpl in *. lia. }
    eexists; cbn [fst]. eapply Rn_emit_fresh;
      [eapply Rn_same; [exact R2'|apply same_apply_restores]|apply Hpl|apply Hfr; exact Hn2].
Qed.

Lemma step_cmd_G b c inp s0 s new : WF s0 -> Rn b s0 s new -> G b s0 (step_cmd run c inp s).
Proof.
  intros W R. destruct c; try (eapply with_cmd_G; eassumption);
    unfold step_cmd, alloc.
  - gauto.
  - gauto.
  - gauto.
  - gauto.
  - gauto.
  - gauto.
  - gauto.
  - gauto.
  - gauto.
  - (* for *) destruct decl; gauto.
  - (* try *)
    destruct catch as [[[[[] x]|] cb]|]; gauto.
  - gauto.
  - gauto.
  - gauto.
  - gauto.
Qed.

(* ---- the closure call ---- *)
Lemma regs_of_fresh f lo l : Forall (fun e => lo <= tag e) l -> f < lo -> regs_of f l = [].
Proof.
  intros H Hf. induction H as [|e r He Hr IH]; [reflexivity|]. destruct e; simpl in *; auto.
  replace (Nat.eqb f0 f) with false; [exact IH|]. symmetry. apply Nat.eqb_neq. lia.
Qed.

Lemma wass_of_fresh w lo l : Forall (fun e => lo <= tag e) l -> w < lo -> wass_of w l = [].
Proof.
  intros H Hf. induction H as [|e r He Hr IH]; [reflexivity|]. destruct e; simpl in *; auto.
  replace (Nat.eqb w0 w) with false; [exact IH|]. symmetry. apply Nat.eqb_neq. lia.
Qed.

Lemma evs_of_fresh f lo l : Forall (fun e => lo <= tag e) l -> f < lo -> evs_of f l = [].
Proof.
  intros H Hf. induction H as [|e r He Hr IH]; [reflexivity|]. simpl.
  replace (Nat.eqb (tag e) f) with false; [exact IH|]. symmetry. apply Nat.eqb_neq. lia.
Qed.

(* an allowed event with a fresh id lies below the final counter *)
Lemma ev_ok_fresh_lt b fr wd lo hi e :
  ev_ok b fr wd lo hi e -> lo <= tag e -> fr < lo -> wd < lo -> tag e < hi.
Proof. destruct e; simpl; intros H; lia. Qed.

(* the frame's deferred list: each entry announces itself with GRun fid, a
   callback's own events all carry ids allocated by its call *)
Lemma run_defers_trace fid : forall ds sA first r,
  WF sA -> gf sA = fid ->
  run_defers run fid ds sA first = r -> finished r = true ->
  exists newd,
    gl (fst r) = newd ++ gl sA
    /\ Forall (fun e => (exists d, e = GRun fid d) \/ (gn sA <= tag e /\ tag e < gn (fst r))) newd
    /\ evs_of fid newd = rev (map (GRun fid) ds)
    /\ gf (fst r) = fid /\ gw (fst r) = gw sA /\ gn sA <= gn (fst r)
    /\ st_wrest (fst r) = st_wrest sA /\ st_defers (fst r) = st_defers sA.
Proof.
  induction ds as [|d ds IH]; intros sA first r W Hf Hr Hfin.
  - simpl in Hr. subst r. exists []. destruct first as [[k p]|]; simpl; repeat split; auto.
  - destruct d as [a v|f].
    + simpl in Hr.
      set (sB := emit (store_at sA a v) [GRun fid (DRestore a v)]) in *.
      assert (WB : WF sB) by exact W.
      destruct (IH sB first r WB Hf Hr Hfin) as (nd & L & F & E & f1 & w1 & N & Wr & D).
      exists (nd ++ [GRun fid (DRestore a v)]). repeat split; auto.
      * rewrite L. unfold sB, gl; simpl. rewrite <- app_assoc. reflexivity.
      * apply Forall_app; split; [exact F|]. constructor; [|constructor]. left. eexists; reflexivity.
      * rewrite evs_of_app, E. simpl. rewrite Nat.eqb_refl. simpl. reflexivity.
    + simpl in Hr.
      set (sB := emit sA [GRun fid (DCall f)]) in *.
      assert (WB : WF sB) by exact W.
      pose proof (Hrun (TCall f [] [] []) sB WB) as GC.
      destruct (run (TCall f [] [] []) sB) as [s' o] eqn:EC.
      destruct o as [vs|k p| |]; simpl in Hr; try (subst r; simpl in Hfin; discriminate);
        destruct (GC eq_refl) as (nc & Rc & Fc); cbn [fst] in Rc;
        destruct Rc as (Lc & Fk & Dc & Wc & fc & wc & Nc);
        (assert (W' : WF s') by (destruct WB; unfold WF; lia));
        (assert (Hf' : gf s' = fid) by (rewrite fc; exact Hf));
        (match type of Hr with run_defers run fid ds s' ?fst' = r =>
           destruct (IH s' fst' r W' Hf' Hr Hfin) as (nd & L & F & E & f1 & w1 & N & Wr & D) end);
        (assert (Hlt : fid < gn sB) by (destruct WB as [WB1 _]; unfold sB, gf, gn in *; simpl in *; lia));
        exists (nd ++ nc ++ [GRun fid (DCall f)]); repeat split; auto.
      all: try (rewrite L, Lc; unfold sB, gl; simpl; rewrite <- !app_assoc; reflexivity).
      all: try (rewrite !evs_of_app, E, (evs_of_fresh fid (gn sB) nc Fc Hlt); simpl;
                rewrite Nat.eqb_refl; simpl; reflexivity).
      all: try (rewrite w1, wc; reflexivity).
      all: try (unfold sB, gn in *; simpl in *; lia).
      all: try (rewrite Wr, Wc, (wass_of_fresh (gw sB) (gn sB) nc Fc (proj2 WB)); reflexivity).
      all: try (rewrite D, Dc, (regs_of_fresh (gf sB) (gn sB) nc Fc (proj1 WB)); reflexivity).
      all: apply Forall_app; split;
        [eapply Forall_impl; [|exact F]; intros e [He|He]; [left; exact He|right; unfold sB, gn in *; simpl in *; lia]
        |apply Forall_app; split;
          [|constructor; [left; eexists; reflexivity|constructor]]].
      all: rewrite Forall_forall in *; intros e He; right;
        pose proof (Fc e He) as H1; pose proof (Fk e He) as H2;
        pose proof (ev_ok_fresh_lt _ _ _ _ _ _ H2 H1 (proj1 WB) (proj2 WB)) as H3;
        unfold sB, gn in *; simpl in *; lia.
Qed.

(* the events of frame fid among what its body added are its registrations *)
Lemma evs_regs fid wd hi : forall nb,
  Forall (ev_ok false fid wd (S fid) hi) nb ->
  evs_of fid nb = map (GReg fid) (regs_of fid nb).
Proof.
  induction nb as [|e r IH]; intros H; [reflexivity|]. inversion H as [|? ? He Hr]; subst.
  specialize (IH Hr).
  assert (Hne : forall x, S fid <= x -> Nat.eqb x fid = false)
    by (intros x Hx; apply Nat.eqb_neq; lia).
  destruct e as [f|f|f d|f d|w d|w d]; simpl in *.
  - rewrite (Hne f) by lia. exact IH.
  - rewrite (Hne f) by lia. exact IH.
  - destruct (Nat.eqb f fid) eqn:E.
    + apply Nat.eqb_eq in E; subst. simpl. rewrite IH. reflexivity.
    + exact IH.
  - rewrite (Hne f) by lia. exact IH.
  - destruct He as [[Hc _]|Hc]; [discriminate|]. rewrite (Hne w) by lia. exact IH.
  - rewrite (Hne w) by lia. exact IH.
Qed.

Lemma frame_shape fid nd nb D wd hi :
  evs_of fid nd = rev (map (GRun fid) D) ->
  D = regs_of fid nb ->
  Forall (ev_ok false fid wd (S fid) hi) nb ->
  rev (evs_of fid (GExit fid :: nd ++ nb ++ [GEnter fid]))
  = [GEnter fid] ++ map (GReg fid) (rev D) ++ map (GRun fid) (rev (rev D)) ++ [GExit fid].
Proof.
  intros E1 E2 F. unfold evs_of at 1. cbn [filter tag]. rewrite Nat.eqb_refl.
  change (filter (fun e => Nat.eqb (tag e) fid) (nd ++ nb ++ [GEnter fid]))
    with (evs_of fid (nd ++ nb ++ [GEnter fid])).
  rewrite !evs_of_app, E1, (evs_regs fid wd hi nb F), <- E2.
  simpl. rewrite Nat.eqb_refl. simpl.
  rewrite !rev_app_distr, rev_involutive, rev_involutive, map_rev. simpl.
  rewrite <- !app_assoc. reflexivity.
Qed.

Lemma call_closure_Good args rest opts body cenv isfn vals sopts s :
  WF s ->
  finished (call_closure run args rest opts body cenv isfn vals sopts s) = true ->
  exists new, Rn false s (fst (call_closure run args rest opts body cenv isfn vals sopts s)) new
    /\ Forall (fun e => gn s <= tag e) new
    /\ (distribute rest (length args) vals <> None -> bind_opts opts sopts <> None ->
        exists regs, rev (evs_of (gn s) new)
          = [GEnter (gn s)] ++ map (GReg (gn s)) regs ++ map (GRun (gn s)) (rev regs) ++ [GExit (gn s)]).
Proof.
  intros W. unfold call_closure.
  destruct (distribute rest (length args) vals) as [vals'|];
    [|intros _; exists []; split; [apply Rn_refl|split; [constructor|intros H; contradiction]]].
  destruct (bind_opts opts sopts) as [obs|];
    [|intros _; exists []; split; [apply Rn_refl|split; [constructor|intros _ H; contradiction]]].
  pose proof (same_alloc_all (combine args vals' ++ obs) s cenv) as Sa.
  destruct (alloc_all s (combine args vals' ++ obs) cenv) as [s1 e1]. cbn [fst] in Sa.
  cbv zeta.
  set (fid := g_next (st_ghost s1)).
  set (s2 := enter_frame (set_frame s1 e1 [] true)).
  destruct Sa as (Eg & Ed & Ew).
  assert (Efid : fid = gn s) by (unfold fid, gn; rewrite Eg; reflexivity).
  assert (W2 : WF s2).
  { destruct W as [W1 W2']. unfold WF, s2, gf, gw, gn in *; simpl. rewrite Eg. lia. }
  pose proof (Hrun (TChunk body) s2 W2) as GB.
  destruct (run (TChunk body) s2) as [s3 o] eqn:EB.
  destruct o as [vs|k p| |]; cbn [settle]; try (intros F; cbn in F; discriminate F).
  all: destruct (GB eq_refl) as (nb & Rb & _); cbn [fst] in Rb;
    destruct Rb as (Lb & Fb & Db & Wb & fb & wb & Nb);
    set (sA := set_defers s3 []);
    (assert (WA : WF sA) by (destruct W2; unfold WF, sA, gf, gw, gn in *; simpl; lia));
    (assert (HfA : gf sA = fid) by (unfold sA, gf in *; simpl; rewrite fb; reflexivity));
    pose proof (run_defers_trace fid (st_defers s3) sA None _ WA HfA eq_refl) as RD;
    destruct (run_defers run fid (st_defers s3) sA None) as [s4 o'] eqn:ED;
    destruct o' as [vs'|k' p'| |]; cbn [settle]; try (intros F; cbn in F; discriminate F);
    intros _;
    destruct (RD eq_refl) as (nd & Ld & Fd & Ed2 & fd & wd & Nd & Wrd & _); cbn [fst] in *;
    exists (GExit fid :: nd ++ nb ++ [GEnter fid]).
  all: assert (Hgn2 : gn s2 = S fid) by reflexivity.
  all: assert (HgnA : gn sA = gn s3) by reflexivity.
  all: assert (Hall : Forall (fun e => gn s <= tag e /\ tag e < gn s4)
                             (GExit fid :: nd ++ nb ++ [GEnter fid])).
  all: try (constructor; [simpl; lia|];
            apply Forall_app; split;
              [eapply Forall_impl; [|exact Fd]; intros e [[d ->]|He]; simpl; lia
              |apply Forall_app; split; [|constructor; [simpl; lia|constructor]]];
            eapply Forall_impl; [|exact Fb]; intros e He;
            assert (gf s2 = fid) by reflexivity; assert (gw s2 = gw s) by (unfold s2, gw; simpl; rewrite Eg; reflexivity);
            destruct W as [W1 W2']; destruct e; simpl in *; lia).
  all: split; [|split; [eapply Forall_impl; [|exact Hall]; intros e [H _]; exact H|
            intros _ _; exists (rev (regs_of fid nb)); rewrite <- Efid;
            assert (ED3 : st_defers s3 = regs_of fid nb)
              by (rewrite Db; unfold s2; simpl; apply app_nil_r);
            rewrite ED3 in Ed2;
            eapply frame_shape; [exact Ed2|reflexivity|exact Fb]]].
  all: assert (Hfresh : Forall (fun e => gn s <= tag e) (GExit fid :: nd ++ nb ++ [GEnter fid]))
         by (eapply Forall_impl; [|exact Hall]; intros e [H _]; exact H).
  all: unfold Rn.
  all: rewrite (regs_of_fresh _ _ _ Hfresh (proj1 W)), (wass_of_fresh _ _ _ Hfresh (proj2 W)).
  all: unfold gl, gf, gw, gn in *; simpl.
  all: repeat split; auto.
  all: try (eapply Forall_impl; [|exact Hall]; intros e [H1 H2]; apply fresh_ev_ok; assumption).
  all: try lia.
  all: try (f_equal; rewrite Ld; change (g_log (st_ghost sA)) with (g_log (st_ghost s3));
            rewrite Lb; unfold s2, fid; simpl; rewrite Eg, <- !app_assoc; reflexivity).
  all: try (rewrite wd; change (g_wid (st_ghost sA)) with (g_wid (st_ghost s3)); rewrite wb;
            unfold s2; simpl; rewrite Eg; reflexivity).
  all: rewrite Wrd; change (st_wrest sA) with (st_wrest s3); rewrite Wb;
    rewrite (wass_of_none _ nb);
    [unfold s2; simpl; exact Ew
    |eapply Forall_impl; [|exact Fb]; intros e; destruct e; simpl; auto;
     intros [[Hc _]|Hc]; [discriminate|destruct W2 as [_ W2w]; unfold gw, gn, s2 in W2w; simpl in W2w; lia]].
Qed.

Lemma step_Good t s : WF s -> Good t s (step run t s).
Proof.
  intros W. destruct t.
  - intros F. destruct (step_expr_G false e s s [] W (Rn_refl false s) F) as (n & R).
    exists n; split; [exact R|exact I].
  - intros F. destruct (step_cmd_G false c inp s s [] W (Rn_refl false s) F) as (n & R).
    exists n; split; [exact R|exact I].
  - intros F. destruct (run_chunk_G false c s s [] W (Rn_refl false s) F) as (n & R).
    exists n; split; [exact R|exact I].
  - simpl. destruct f; try (intros _; exists []; split; [apply Rn_refl|constructor]).
    intros F. destruct (call_closure_Good _ _ _ _ _ _ _ _ _ W F) as (new & R & X & _).
    exists new; split; assumption.
  - intros F.
    assert (H : G false s (step run (TWhile cond body els iterated) s)).
    { pose proof (Rn_refl false s) as R0. simpl. gauto. }
    destruct (H F) as (n & R). exists n; split; [exact R|exact I].
Qed.
(* ---- the trace of one `with` ---- *)
Lemma evs_wass fr w hi : forall na, fr <> w ->
  Forall (ev_ok true fr w (S w) hi) na -> evs_of w na = map (GWAssign w) (wass_of w na).
Proof.
  induction na as [|e r IH]; intros Hne H; [reflexivity|]. inversion H as [|? ? He Hr]; subst.
  specialize (IH Hne Hr).
  assert (Hx : forall x, S w <= x -> Nat.eqb x w = false) by (intros x Hx; apply Nat.eqb_neq; lia).
  destruct e as [f|f|f d|f d|w' d|w' d]; simpl in *.
  - rewrite (Hx f) by lia. exact IH.
  - rewrite (Hx f) by lia. exact IH.
  - replace (Nat.eqb f w) with false; [exact IH|]. symmetry. apply Nat.eqb_neq. lia.
  - rewrite (Hx f) by lia. exact IH.
  - destruct (Nat.eqb w' w) eqn:E.
    + apply Nat.eqb_eq in E; subst. simpl. rewrite IH. reflexivity.
    + exact IH.
  - rewrite (Hx w') by lia. exact IH.
Qed.

Lemma evs_none fr wd lo hi w : forall nb, fr <> w -> w < lo ->
  Forall (ev_ok false fr wd lo hi) nb -> evs_of w nb = [].
Proof.
  induction nb as [|e r IH]; intros Hne Hlt H; [reflexivity|]. inversion H as [|? ? He Hr]; subst.
  specialize (IH Hne Hlt Hr).
  assert (Hx : forall x, lo <= x -> Nat.eqb x w = false) by (intros x Hx; apply Nat.eqb_neq; lia).
  destruct e as [f|f|f d|f d|w' d|w' d]; simpl in *.
  - rewrite (Hx f) by lia. exact IH.
  - rewrite (Hx f) by lia. exact IH.
  - replace (Nat.eqb f w) with false; [exact IH|]. symmetry. apply Nat.eqb_neq. lia.
  - rewrite (Hx f) by lia. exact IH.
  - destruct He as [[Hc _]|Hc]; [discriminate|]. rewrite (Hx w') by lia. exact IH.
  - rewrite (Hx w') by lia. exact IH.
Qed.

Lemma evs_all w l : Forall (fun e => tag e = w) l -> evs_of w l = l.
Proof.
  intros H. induction H as [|e r He Hr IH]; [reflexivity|]. simpl. rewrite He, Nat.eqb_refl, IH.
  reflexivity.
Qed.

Lemma with_cmd_trace assigns body inp s :
  WF s ->
  finished (step_cmd run (CWith assigns body) inp s) = true ->
  exists new rs,
    gl (fst (step_cmd run (CWith assigns body) inp s)) = new ++ gl s
    /\ rev (evs_of (gn s) new)
       = map (GWAssign (gn s)) (rev rs) ++ map (GWRestore (gn s)) rs.
Proof.
  intros Ws. unfold step_cmd. cbv zeta.
  set (w := g_next (st_ghost s)).
  set (sa := enter_with (set_wrest s [])).
  assert (Wa : WF sa) by (destruct Ws; unfold WF, sa, gf, gw, gn in *; simpl; lia).
  pose proof (with_assigns_G assigns sa sa [] Wa (Rn_refl true sa)) as GA.
  destruct (with_assigns run assigns sa) as [s1 o] eqn:EA.
  set (s2 := leave_with (set_wrest s1 (st_wrest s)) (g_wid (st_ghost s))).
  assert (Hfw : gf s <> w) by (destruct Ws as [H _]; unfold gf, gn, w in *; lia).
  assert (Hall : forall rs, Forall (fun e => tag e = w) (rev (map (GWRestore w) rs))).
  { intros rs. apply Forall_rev. apply Forall_forall. intros e He.
    apply in_map_iff in He as (d & <- & _). reflexivity. }
  assert (Hfin : forall na nb rs,
            evs_of w na = map (GWAssign w) rs -> evs_of w nb = [] ->
            rev (evs_of w (rev (map (GWRestore w) rs) ++ nb ++ na))
            = map (GWAssign w) (rev rs) ++ map (GWRestore w) rs).
  { intros na nb rs E1 E2. rewrite !evs_of_app, E1, E2, (evs_all w _ (Hall rs)). simpl.
    rewrite rev_app_distr, rev_involutive, map_rev. reflexivity. }
  destruct o as [vs|k p| |]; cbn [settle]; try (intros F; cbn in F; discriminate F).
  - destruct (GA eq_refl) as (na & Ra). cbn [fst] in Ra.
    pose proof (with_leave s s1 na Ws Ra) as R2. fold s2 in R2.
    assert (W2 : WF s2) by exact (Rn_WF _ _ _ _ Ws R2).
    destruct Ra as (La & Fa & _ & Wra & _ & _ & Na).
    assert (Ena : evs_of w na = map (GWAssign w) (st_wrest s1)).
    { rewrite Wra. unfold sa at 1 2; simpl. rewrite app_nil_r.
      apply (evs_wass (gf s) w (gn s1)); [exact Hfw|exact Fa]. }
    assert (Hf2 : gf s2 <> w)
      by (destruct R2 as (_ & _ & _ & _ & f2 & _); intros Hc; apply Hfw; rewrite <- f2; exact Hc).
    assert (Hn2 : w < gn s2) by (unfold s2, sa, gn, w in *; simpl in *; lia).
    unfold call_block. fold s2.
    pose proof (Hrun (TCall (block body s2) [] [] []) s2 W2) as GB.
    destruct (run (TCall (block body s2) [] [] []) s2) as [s3 o'] eqn:EB.
    destruct o' as [vs'|k' p'| |]; cbn [settle]; try (intros F; cbn in F; discriminate F).
    all: intros _; destruct (GB eq_refl) as (nb & Rb & _); cbn [fst] in Rb;
      destruct Rb as (Lb & Fb & _);
      exists (rev (map (GWRestore w) (st_wrest s1)) ++ nb ++ na), (st_wrest s1); cbn [fst]; split;
      [destruct (same_apply_restores (st_wrest s1) s3) as (Eg & _); unfold gl in *; simpl;
       rewrite Eg, Lb; unfold s2; simpl; rewrite La; unfold sa; simpl; rewrite <- !app_assoc; reflexivity
      |apply Hfin; [exact Ena|];
       eapply (evs_none (gf s2) (gw s2) (gn s2) (gn s3)); [exact Hf2|exact Hn2|exact Fb]].
  - intros _. destruct (GA eq_refl) as (na & Ra). cbn [fst] in Ra.
    destruct Ra as (La & Fa & _ & Wra & _ & _ & Na).
    assert (Ena : evs_of w na = map (GWAssign w) (st_wrest s1)).
    { rewrite Wra. unfold sa at 1 2; simpl. rewrite app_nil_r.
      apply (evs_wass (gf s) w (gn s1)); [exact Hfw|exact Fa]. }
    exists (rev (map (GWRestore w) (st_wrest s1)) ++ [] ++ na), (st_wrest s1); cbn [fst]; split.
    + destruct (same_apply_restores (st_wrest s1) s2) as (Eg & _). unfold gl in *; simpl.
      fold s2. rewrite Eg. unfold s2; simpl. rewrite La. unfold sa; simpl. rewrite <- !app_assoc. reflexivity.
    + apply Hfin; [exact Ena|reflexivity].
Qed.

End Inv.

(* the invariant holds of the interpreter at every fuel *)
Theorem eval_good : forall n t s, WF s -> Good t s (eval n t s).
Proof.
  induction n as [|n IH]; intros t s W.
  - intros F. discriminate.
  - change (eval (S n) t s) with (step (eval n) t s).
    intros F. destruct (step_Good (eval n) IH t s W F) as (new & R & X). exists new; split; assumption.
Qed.

(* ------------------------------------------------------------------ *)
(* The trace theorems, for the interpreter at every fuel. *)

(* Every closure call that finishes — whatever its body nests (tmp, with, defer,
   loops, try, further calls) and however the body ends (normally, by an
   exception, break, continue or return) — leaves for its frame fid exactly:
   the enter event, its registrations in order, the run events of exactly the
   registered entries, each once, in reverse registration order, and then the
   return event. *)
Theorem defers_once_reverse_trace :
  forall n args rest opts body cenv isfn vals sopts inp s,
  WF s ->
  distribute rest (length args) vals <> None -> bind_opts opts sopts <> None ->
  let r := eval (S n) (TCall (VClos args rest opts body cenv isfn) vals sopts inp) s in
  finished r = true ->
  exists new regs,
    gl (fst r) = new ++ gl s
    /\ rev (evs_of (gn s) new)
       = [GEnter (gn s)] ++ map (GReg (gn s)) regs ++ map (GRun (gn s)) (rev regs) ++ [GExit (gn s)].
Proof.
  intros n args rest opts body cenv isfn vals sopts inp s W H1 H2 r F.
  change r with (call_closure (eval n) args rest opts body cenv isfn vals sopts s) in *.
  destruct (call_closure_Good (eval n) (eval_good n) _ _ _ _ _ _ _ _ _ W F) as (new & R & _ & Sh).
  destruct (Sh H1 H2) as (regs & E). exists new, regs. split; [apply R|exact E].
Qed.

(* While a frame's body is running — at any depth of nested blocks, loops, try
   and calls — nothing is performed or returned on its behalf: a piece of
   evaluation started in frame f adds, under the id f, registrations only.
   So a tmp restore never happens before its frame's exit. *)
Theorem no_run_before_frame_exit : forall n t s,
  WF s -> finished (eval n t s) = true ->
  exists new, gl (fst (eval n t s)) = new ++ gl s
    /\ forall e, In e new -> tag e = gf s -> exists d, e = GReg (gf s) d.
Proof.
  intros n t s W F. destruct (eval_good n t s W F) as (new & R & _).
  destruct R as (L & Fo & _). exists new. split; [exact L|].
  intros e He Ht. rewrite Forall_forall in Fo. specialize (Fo e He).
  destruct W as [W1 W2]. destruct e; simpl in *; subst; try lia.
  eexists; reflexivity.
Qed.

(* tmp: the restore of every tmp registered in frame fid is performed in the
   exit segment of that closure call — after all registrations and body events
   of the frame, before its return event — on every exit path. *)
Theorem tmp_restores_at_fn_exit_trace :
  forall n args rest opts body cenv isfn vals sopts inp s,
  WF s ->
  distribute rest (length args) vals <> None -> bind_opts opts sopts <> None ->
  let r := eval (S n) (TCall (VClos args rest opts body cenv isfn) vals sopts inp) s in
  finished r = true ->
  exists new regs,
    gl (fst r) = new ++ gl s
    /\ rev (evs_of (gn s) new)
       = ([GEnter (gn s)] ++ map (GReg (gn s)) regs) ++ map (GRun (gn s)) (rev regs) ++ [GExit (gn s)]
    /\ forall a v, In (GReg (gn s) (DRestore a v)) new ->
         In (DRestore a v) regs /\ In (GRun (gn s) (DRestore a v)) (map (GRun (gn s)) (rev regs)).
Proof.
  intros n args rest opts body cenv isfn vals sopts inp s W H1 H2 r F.
  destruct (defers_once_reverse_trace n args rest opts body cenv isfn vals sopts inp s W H1 H2 F)
    as (new & regs & L & E).
  exists new, regs. split; [exact L|]. split; [rewrite E, <- app_assoc; reflexivity|].
  intros a v Hin.
  assert (Hin2 : In (GReg (gn s) (DRestore a v)) (rev (evs_of (gn s) new))).
  { apply -> in_rev. apply filter_In. split; [exact Hin|]. simpl. apply Nat.eqb_refl. }
  rewrite E in Hin2. simpl in Hin2. destruct Hin2 as [Hc|Hin2]; [discriminate|].
  apply in_app_or in Hin2. destruct Hin2 as [Hin2|Hin2].
  - apply in_map_iff in Hin2 as (d & Hd & Hd2). inversion Hd; subst.
    split; [exact Hd2|]. apply in_map. apply -> in_rev. exact Hd2.
  - apply in_app_or in Hin2. destruct Hin2 as [Hin2|Hin2].
    + apply in_map_iff in Hin2 as (d & Hd & _). discriminate.
    + destruct Hin2 as [Hc|[]]. discriminate.
Qed.

(* with: the events of one `with` are its assignments, then the restores of
   exactly those assignments in reverse order — when everything succeeds, when a
   later assignment fails (only the assigned prefix is in rs), and however the
   body is left. *)
Theorem with_restores_reverse_trace : forall n assigns body inp s,
  WF s ->
  let r := eval (S n) (TCmd (CWith assigns body) inp) s in
  finished r = true ->
  exists new rs,
    gl (fst r) = new ++ gl s
    /\ rev (evs_of (gn s) new)
       = map (GWAssign (gn s)) (rev rs) ++ map (GWRestore (gn s)) rs.
Proof.
  intros n assigns body inp s W r F.
  exact (with_cmd_trace (eval n) (eval_good n) assigns body inp s W F).
Qed.

(* Exception precedence: the body's exception wins over any deferred one; a
   deferred exception (or a failing restore) surfaces only if the body
   succeeded, where `return` counts as success for a function defined with fn. *)
Theorem exception_precedence :
  forall n args rest opts body cenv isfn vals sopts inp s vals' obs s1 e1,
  distribute rest (length args) vals = Some vals' ->
  bind_opts opts sopts = Some obs ->
  alloc_all s (combine args vals' ++ obs) cenv = (s1, e1) ->
  let rb := eval n (TChunk body) (enter_frame (set_frame s1 e1 [] true)) in
  let r := eval (S n) (TCall (VClos args rest opts body cenv isfn) vals sopts inp) s in
  finished r = true ->
  finished rb = true
  /\ (forall k p, snd rb = Exc k p -> (k = KReturn -> isfn = false) -> snd r = Exc k p)
  /\ (forall k p, snd r = Exc k p ->
        (forall k' p', snd rb = Exc k' p' -> k' = KReturn /\ isfn = true) ->
        snd (run_defers (eval n) (g_next (st_ghost s1)) (st_defers (fst rb))
                        (set_defers (fst rb) []) None) = Exc k p).
Proof.
  intros n args rest opts body cenv isfn vals sopts inp s vals' obs s1 e1 Hd Hb Ha rb r F.
  change r with (call_closure (eval n) args rest opts body cenv isfn vals sopts s) in *.
  assert (Fb : finished rb = true).
  { unfold call_closure in F. rewrite Hd, Hb, Ha in F. cbv zeta in F. fold rb in F.
    destruct rb as [s3 [vs|k p| |]]; simpl in *; auto. }
  split; [exact Fb|].
  destruct rb as [s3 o] eqn:Erb.
  assert (Fo : finished_o o = true) by (destruct o; simpl in *; auto).
  pose proof (closure_runs_defers_once (eval n) args rest opts body cenv isfn vals sopts s
                vals' obs s1 e1 s3 o Hd Hb Ha Erb Fo) as E.
  cbv zeta in E. rewrite E in *. clear E. cbn [fst snd] in *.
  destruct (run_defers (eval n) (g_next (st_ghost s1)) (st_defers s3) (set_defers s3 []) None)
    as [s4 [vs'|k' p'| |]]; simpl in F; try discriminate; simpl; split.
  - intros k p -> Hk. destruct k; try reflexivity. rewrite (Hk eq_refl). reflexivity.
  - intros k p Hr Hbody. destruct o as [vs|k0 p0| |]; simpl in *; try discriminate.
    destruct (Hbody k0 p0 eq_refl) as [-> ->]. simpl in Hr. discriminate.
  - intros k p -> Hk. destruct k; try reflexivity. rewrite (Hk eq_refl). reflexivity.
  - intros k p Hr Hbody. destruct o as [vs|k0 p0| |]; simpl in *; try discriminate.
    + exact Hr.
    + destruct (Hbody k0 p0 eq_refl) as [-> ->]. simpl in Hr. exact Hr.
Qed.
