(* C43 — variable completion: the name inserted after the dollar sign reads
   back as a reference to exactly that variable (C03's quote_var_parses_back). *)
From verif Require Import lib.Base lib.ListX lib.Utf8 lib.Utf8_proofs model.C03 proofs.C03_proofs
  model.C43 proofs.C43_proofs.
From Coq Require Import Permutation Sorted.
Open Scope N_scope.

Section Var.
Variable pr : N -> bool.

(* the buffer is pre ++ dollar ++ mid ++ post: the variable primary starts at
   |pre|, the typed name part mid is replaced (no sigil, no namespace typed:
   the range starts right after the dollar sign) *)
Lemma var_substituted_reads_back ctx (pre mid post n : bytes) :
  is_bytes n -> term_ok pr ctx post ->
  read_compound pr ctx
    (skipn (length pre)
       (subst (pre ++ cDOLLAR :: mid ++ post) (S (length pre)) (S (length pre) + length mid)
              (to_insert (cook pr TBare (RNoQuote (QuoteVariableName pr n))))))
  = COk [(TVar, n)] post.
Proof.
  intros Hb Ht. cbn [cook to_insert]. unfold subst.
  assert (F : firstn (S (length pre)) (pre ++ cDOLLAR :: mid ++ post) = pre ++ [cDOLLAR]).
  { rewrite firstn_app, firstn_all2 by lia.
    replace (S (length pre) - length pre)%nat with 1%nat by lia. reflexivity. }
  assert (K : skipn (S (length pre) + length mid) (pre ++ cDOLLAR :: mid ++ post) = post).
  { rewrite skipn_app, skipn_all2 by lia.
    replace (S (length pre) + length mid - length pre)%nat with (S (length mid)) by lia.
    cbn [app skipn]. apply skipn_len_app. }
  rewrite F, K, <- app_assoc, skipn_len_app. cbn [app].
  apply quote_var_parses_back; assumption.
Qed.

(* what variable completion offers: quoted names in scope that have the typed
   seed as a prefix (of the quoted text), or the two namespace prefixes *)
Lemma var_items_offered sort seed ns names it : sort_contract sort ->
  In it (pipeline pr sort seed TBare (var_items pr ns names)) ->
  has_prefix (to_insert it) seed = true
  /\ ((exists n, In n names /\ to_insert it = QuoteVariableName pr n)
      \/ (ns = [] /\ (to_insert it = [101; 58] \/ to_insert it = [69; 58]))).
Proof.
  intros Hs Hit. pose proof (pipeline_spec pr sort seed TBare (var_items pr ns names) Hs) as P.
  cbv zeta in P. destruct P as (P1 & _). destruct (P1 it Hit) as (r & Hr & Hp & ->).
  unfold var_items in Hr. apply in_app_or in Hr as [Hr|Hr].
  - apply in_map_iff in Hr as (n & <- & Hn). cbn [cook to_insert item_str] in *.
    split; [exact Hp|]. left. exists n. split; [exact Hn|reflexivity].
  - destruct ns; [|destruct Hr]. destruct Hr as [<-|[<-|[]]]; cbn [cook to_insert item_str] in *;
      (split; [exact Hp|]); right; (split; [reflexivity|]); [left|right]; reflexivity.
Qed.

End Var.

(* after an explode sigil the quoted form does not read as the variable: the at
   sign alone becomes the name and the quoted text a separate string *)
From Coq Require Import String.
Lemma var_after_sigil_refuted :
  exists n : bytes,
    read_compound ascii_print CNormal (cDOLLAR :: cAT :: QuoteVariableName ascii_print n)
    <> COk [(TVar, cAT :: n)] [].
Proof. exists (hx "612062"%string). vm_compute. discriminate. Qed.
