(* C06 — soundness of the oracle check_C06 evaluated on the implementation's
   observations, the generated width, and the non-vacuity example. *)
From Coq Require Import Lia ZArith List Bool Arith.
From verif Require Import lib.Base lib.ListX model.C06 proofs.C06_hist.
Open Scope nat_scope.

Lemma cb_ge1 : (1 <= cb)%Z.
Proof. vm_compute. discriminate. Qed.

Definition obs_vec (l : list any) (vo : vobs) : Prop :=
  vo_len vo = zlen l /\
  (forall h, vo_hash vo = Some h -> h = hash_list (map enc l)) /\
  (forall f, vo_full vo = Some f -> f = map enc l).

Definition obs_agrees (x : outcome (list any)) (ob : robs) : Prop :=
  match x, ob with
  | XVec l, RVec vo => obs_vec l vo
  | XRead l, RVec vo => obs_vec l vo
  | XRejected, RNil => True
  | XElem e, RElem e' => option_map enc e = e'
  | _, _ => False
  end.

Definition wf_slot (s : slot (list any)) : Prop :=
  sl_len s = zlen (sl_val s) /\
  sl_elems s tt = Ok (map enc (sl_val s), hash_list (map enc (sl_val s))).

Lemma mk_slot_wf l : wf_slot (mk_slot zlen (fun l => Ok l) l) /\ sl_val (mk_slot zlen (fun l => Ok l) l) = l.
Proof. unfold mk_slot, wf_slot. destruct (zlen l <=? cacheMax)%Z; simpl; auto. Qed.

Lemma zlist_eqb_eq a c : zlist_eqb a c = true -> a = c.
Proof. apply list_eqb_spec. intros; apply Z.eqb_eq. Qed.

Lemma slot_matches_sound s vo : wf_slot s -> slot_matches s vo = true -> obs_vec (sl_val s) vo.
Proof.
  intros [Hl He] H. unfold slot_matches in H. apply andb_true_iff in H. destruct H as [H1 H2].
  apply Z.eqb_eq in H1. unfold obs_vec. split; [congruence|].
  rewrite He in H2.
  destruct (vo_hash vo) as [h|]; destruct (vo_full vo) as [f|];
    try (apply andb_true_iff in H2; destruct H2 as [H2 H4]; apply andb_true_iff in H2; destruct H2 as [H2 H3]).
  - apply Z.eqb_eq in H3. apply zlist_eqb_eq in H4. split; intros ? E; inversion E; subst; auto.
  - apply Z.eqb_eq in H3. split; intros ? E; inversion E; subst; auto.
  - apply zlist_eqb_eq in H4. split; intros ? E; inversion E; subst; auto.
  - split; intros ? E; discriminate.
Qed.

Definition srel1 (a : option (slot (list any))) (s : option (list any)) : Prop :=
  match a, s with
  | Some sl, Some l => wf_slot sl /\ sl_val sl = l
  | None, None => True
  | _, _ => False
  end.

Lemma srel_nth st ss k : Forall2 srel1 st ss ->
  match nth_error st k, nth_error ss k with
  | Some a, Some s => srel1 a s
  | None, None => True
  | _, _ => False
  end.
Proof. intros H. revert k. induction H as [|a s st ss Has H IH]; intros [|k]; simpl; auto. apply IH. Qed.

Lemma s_apply_kind l o :
  match s_apply l o with
  | XVec _ | XRejected => creates o = true
  | XElem _ => creates o = false
  | XRead _ => exists t, o = OIter t
  | _ => False
  end.
Proof.
  destruct o; cbn [s_apply creates]; unfold of_opt;
  repeat match goal with
         | |- context [match ?x with Some _ => _ | None => _ end] => destruct x
         | |- context [if ?c then _ else _] => destruct c
         end; eauto.
Qed.

Definition is_iter (o : op) : bool := match o with OIter _ => true | _ => false end.

Lemma jstep_sound st ss o ob st' : Forall2 srel1 st ss ->
  jstep s_apply zlen (fun l => Ok l) st o ob = (st', true) ->
  Forall2 srel1 st' (fst (step s_apply ss o)) /\ obs_agrees (snd (step s_apply ss o)) ob.
Proof.
  intros Hst. unfold jstep, step. pose proof (srel_nth st ss (op_target o) Hst) as Hn.
  destruct (nth_error st (op_target o)) as [[s|]|]; destruct (nth_error ss (op_target o)) as [[l|]|];
    simpl in Hn; try contradiction; cbn [fst snd].
  2,3: destruct (creates o); intros E; inversion E.
  destruct Hn as [Hwf Hv]. subst l.
  pose proof (s_apply_kind (sl_val s) o) as Hk.
  destruct (is_iter o) eqn:Ei.
  - destruct o; try discriminate. cbn [s_apply creates]. intros E. inversion E; subst. split; [exact Hst|].
    destruct ob; try discriminate. simpl. apply slot_matches_sound; assumption.
  - match goal with |- ?lhs = _ -> _ =>
      assert (EG : lhs =
        match s_apply (sl_val s) o with
        | XVec y =>
          let ns := mk_slot zlen (fun l => Ok l) y in
          (st ++ [Some ns], match ob with RVec vo => slot_matches ns vo | _ => false end)
        | XRejected => (st ++ [None], match ob with RNil => true | _ => false end)
        | XElem e =>
          (st, match ob with RElem e' => option_eqb Z.eqb (option_map enc e) e' | _ => false end)
        | XPanic => (if creates o then st ++ [None] else st, match ob with RPanic => true | _ => false end)
        | _ => (if creates o then st ++ [None] else st, false)
        end) by (destruct o; try reflexivity; discriminate)
    end.
    rewrite EG. clear EG.
    destruct (s_apply (sl_val s) o) as [y| |e|lr| | |] eqn:Ea; try contradiction.
    + rewrite Hk. cbv zeta. intros E. inversion E as [[E1 E2]]. destruct ob; try discriminate. subst st'.
      pose proof (mk_slot_wf y) as [W1 W2]. split.
      * apply Forall2_app; [exact Hst|]. constructor; [|constructor]. simpl. auto.
      * simpl. rewrite <- W2. apply slot_matches_sound; assumption.
    + rewrite Hk. intros E. inversion E as [[E1 E2]]. destruct ob; try discriminate. subst st'. split.
      * apply Forall2_app; [exact Hst|]. constructor; [exact I|constructor].
      * exact I.
    + rewrite Hk. intros E. inversion E as [[E1 E2]]. destruct ob as [| |e'|]; try discriminate. subst st'. split; [exact Hst|].
      simpl. destruct e as [a|]; destruct e' as [z|]; simpl in *; try discriminate; try reflexivity.
      apply Z.eqb_eq in E2. congruence.
    + destruct Hk as [t ->]. discriminate.
Qed.

Lemma jrun_sound steps : forall st ss, Forall2 srel1 st ss ->
  jrun s_apply zlen (fun l => Ok l) st steps = true ->
  Forall2 obs_agrees (run s_apply ss (map fst steps)) (map snd steps).
Proof.
  induction steps as [|[o ob] r IH]; intros st ss Hst H; [constructor|].
  cbn [jrun] in H. destruct (jstep s_apply zlen (fun l => Ok l) st o ob) as [st' ok] eqn:E.
  apply andb_true_iff in H. destruct H as [H1 H2]. subst ok.
  destruct (jstep_sound st ss o ob st' Hst E) as [Hst' Ho].
  cbn [map fst snd]. rewrite run_cons. constructor; [exact Ho|]. eapply IH; eassumption.
Qed.

Theorem check_C06_sound steps : check_C06 steps = true ->
  Forall2 obs_agrees (run s_apply [Some []] (map fst steps)) (map snd steps).
Proof.
  unfold check_C06. apply jrun_sound. constructor; [|constructor]. apply (mk_slot_wf []).
Qed.

Lemma nonvacuous_example :
  nth 6 (run (m_apply cb) [Some (Vec empty)]
    [OConjRange 0 0 1057; OPop 1; OPopN 2 1000; OSub 1 30 70; OSub 4 1 5; OAssoc 5 4 (AVal 9); OIter 6; OIter 1]) XMissing
     = XRead [AVal 31; AVal 32; AVal 33; AVal 34; AVal 9].
Proof. vm_compute. reflexivity. Qed.
