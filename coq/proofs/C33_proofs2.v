(* C33 — proofs, part 2: partition, split, trim, restyle, refutations, oracle. *)
From verif Require Import lib.Base lib.Utf8 model.C34_width model.C33 proofs.C33_proofs.
Open Scope Z_scope.

Lemma content_cons s x r : content ((s, x) :: r) = x ++ content r.
Proof. reflexivity. Qed.

Lemma blen_app x y : blen (x ++ y) = blen x + blen y.
Proof. unfold blen. rewrite app_length. lia. Qed.

Lemma blen_nonneg x : 0 <= blen x.
Proof. unfold blen. lia. Qed.

(* ------------------------------------------------------------------ *)
(* Partition *)

Lemma firstn_nonempty {A} (n : nat) (x : list A) : (0 < n)%nat -> x <> [] -> firstn n x <> [].
Proof. destruct n, x; cbn; intros; try lia; congruence. Qed.

Lemma skipn_nonempty {A} (n : nat) (x : list A) : (n < length x)%nat -> skipn n x <> [].
Proof.
  intros H E. assert (L : length (skipn n x) = 0%nat) by (rewrite E; reflexivity).
  rewrite skipn_length in L. lia.
Qed.

Lemma take_bytes_spec segs : forall k a b,
  take_bytes segs k = (a, b) -> Normal segs ->
  Normal a /\ Normal b /\ content a ++ content b = content segs
  /\ (a = [] \/ hd_style a = hd_style segs).
Proof.
  induction segs as [|[s x] r IH]; intros k a b E Hn; cbn [take_bytes] in E.
  - inversion E; subst. cbn. auto.
  - destruct (k <=? 0) eqn:Ek.
    { inversion E; subst. split; [exact I|]. split; [exact Hn|]. split; [reflexivity | left; reflexivity]. }
    apply Z.leb_gt in Ek.
    pose proof Hn as Hn0. apply Normal_cons in Hn. destruct Hn as (Hx & Hh & Hr).
    destruct (blen x <=? k) eqn:El.
    + destruct (take_bytes r (k - blen x)) as [a' b'] eqn:Er. inversion E; subst.
      destruct (IH _ _ _ Er Hr) as (Ha & Hb & Hc & Hd).
      split.
      { apply Normal_cons. split; [exact Hx|]. split; [|exact Ha].
        destruct Hd as [-> | Hd]; [cbn; congruence | rewrite Hd; exact Hh]. }
      split; [exact Hb|]. split; [|right; reflexivity].
      rewrite !content_cons, <- app_assoc, Hc. reflexivity.
    + apply Z.leb_gt in El. unfold blen in El. inversion E; subst.
      split.
      { apply Normal_single. apply firstn_nonempty; [lia | exact Hx]. }
      split.
      { apply Normal_cons. split; [apply skipn_nonempty; lia|]. split; assumption. }
      split; [|right; reflexivity].
      rewrite !content_cons. cbn [content flat_map]. rewrite app_nil_r, app_assoc, firstn_skipn. reflexivity.
Qed.

Lemma partition_from_spec idxs : forall segs prev,
  Normal segs ->
  Forall Normal (partition_from segs prev idxs)
  /\ flat_map content (partition_from segs prev idxs) = content segs.
Proof.
  induction idxs as [|i r IH]; intros segs prev Hn; cbn [partition_from].
  - split; [constructor; [exact Hn | constructor] | cbn; apply app_nil_r].
  - destruct (take_bytes segs (i - prev)) as [a b] eqn:E.
    destruct (take_bytes_spec _ _ _ _ E Hn) as (Ha & Hb & Hc & _).
    destruct (IH b i Hb) as (Hf & Hcc).
    split; [constructor; assumption|]. cbn [flat_map]. rewrite Hcc. exact Hc.
Qed.

(* each part has the requested number of bytes when the indices are
   non-decreasing and inside the text *)
Lemma take_bytes_len segs : forall k a b,
  take_bytes segs k = (a, b) -> 0 <= k <= blen (content segs) ->
  blen (content a) = k /\ blen (content b) = blen (content segs) - k.
Proof.
  induction segs as [|[s x] r IH]; intros k a b E Hk; cbn [take_bytes] in E.
  - inversion E; subst. cbn in *. lia.
  - rewrite content_cons, blen_app in Hk.
    destruct (k <=? 0) eqn:Ek.
    { apply Z.leb_le in Ek. inversion E; subst. rewrite content_cons, blen_app. cbn. lia. }
    apply Z.leb_gt in Ek.
    destruct (blen x <=? k) eqn:El.
    + apply Z.leb_le in El.
      destruct (take_bytes r (k - blen x)) as [a' b'] eqn:Er. inversion E; subst.
      destruct (IH _ _ _ Er ltac:(lia)) as (H1 & H2).
      rewrite !content_cons, !blen_app. lia.
    + apply Z.leb_gt in El. inversion E; subst.
      rewrite !content_cons, !blen_app. cbn [content flat_map snd]. rewrite ?app_nil_r, ?blen_app.
      unfold blen in *. cbn [length]. rewrite firstn_length, skipn_length. lia.
Qed.

Lemma last_cons_default (i : Z) r d : last (i :: r) d = last r i.
Proof.
  revert i d. induction r as [|j r IH]; intros i d; [reflexivity|].
  change (last (i :: j :: r) d) with (last (j :: r) d). rewrite !IH. reflexivity.
Qed.

Lemma nondecreasing_last lo l : nondecreasing_from lo l = true -> lo <= last l lo.
Proof.
  revert lo. induction l as [|i r IH]; intros lo H; cbn [nondecreasing_from] in H; [cbn; lia|].
  apply andb_true_iff in H. destruct H as [H1 H2]. apply Z.leb_le in H1.
  rewrite last_cons_default. specialize (IH i H2). lia.
Qed.

Lemma partition_lengths idxs : forall segs prev,
  nondecreasing_from prev idxs = true ->
  last idxs prev - prev <= blen (content segs) ->
  part_lengths_ok prev idxs (partition_from segs prev idxs) = true.
Proof.
  induction idxs as [|i r IH]; intros segs prev Hnd Hl; cbn [partition_from part_lengths_ok]; [reflexivity|].
  cbn [nondecreasing_from] in Hnd. apply andb_true_iff in Hnd. destruct Hnd as [H1 H2].
  apply Z.leb_le in H1. rewrite last_cons_default in Hl.
  pose proof (nondecreasing_last i r H2) as H3.
  destruct (take_bytes segs (i - prev)) as [a b] eqn:E.
  destruct (take_bytes_len _ _ _ _ E ltac:(lia)) as (La & Lb).
  cbn [part_lengths_ok]. rewrite La, Z.eqb_refl. cbn [andb].
  apply IH; [exact H2 | lia].
Qed.

(* ------------------------------------------------------------------ *)
(* SplitByRune *)

Lemma is_prefix_skipn p : forall s, is_prefix p s = true -> s = p ++ skipn (length p) s.
Proof.
  induction p as [|a p IH]; intros s H; [reflexivity|].
  destruct s as [|b s]; cbn [is_prefix] in H; [discriminate|].
  apply andb_true_iff in H. destruct H as [H1 H2]. apply N.eqb_eq in H1. subst b.
  cbn [length skipn app]. f_equal. apply IH. exact H2.
Qed.

Definition sepcat (sep : bytes) (l : list bytes) : bytes := flat_map (fun q => sep ++ q) l.

Lemma join_cons sep p r : join_bytes sep (p :: r) = p ++ sepcat sep r.
Proof. reflexivity. Qed.

Lemma sepcat_join sep l : l <> [] -> sepcat sep l = sep ++ join_bytes sep l.
Proof.
  destruct l; [congruence|]. intros _. unfold sepcat, join_bytes. cbn [flat_map].
  rewrite <- app_assoc. reflexivity.
Qed.

Lemma sepcat_app sep a b : sepcat sep (a ++ b) = sepcat sep a ++ sepcat sep b.
Proof. apply flat_map_app. Qed.

Lemma split_go_nonempty sep s : forall k cur, split_go sep s k cur <> [].
Proof.
  induction s as [|c r IH]; intros k cur; cbn [split_go]; [congruence|].
  destruct k; [|apply IH]. destruct (is_prefix sep (c :: r)); [congruence | apply IH].
Qed.

Lemma split_go_join sep s : sep <> [] -> forall k cur,
  join_bytes sep (split_go sep s k cur) = rev cur ++ skipn k s.
Proof.
  intros Hsep. induction s as [|c r IH]; intros k cur; cbn [split_go].
  - rewrite skipn_nil. cbn. reflexivity.
  - destruct k as [|k]; [|rewrite IH; reflexivity].
    destruct (is_prefix sep (c :: r)) eqn:Ep.
    + rewrite join_cons, sepcat_join by apply split_go_nonempty. rewrite IH. cbn [rev app skipn].
      destruct sep as [|a sep']; [congruence|].
      pose proof (is_prefix_skipn _ _ Ep) as H. cbn [length skipn] in H.
      replace (length (a :: sep') - 1)%nat with (length sep') by (cbn [length]; lia).
      rewrite <- H. reflexivity.
    + rewrite IH. cbn [rev skipn]. rewrite <- app_assoc. reflexivity.
Qed.

Lemma split_bytes_join sep x : sep <> [] -> join_bytes sep (split_bytes sep x) = x.
Proof. intros H. unfold split_bytes. rewrite split_go_join by exact H. reflexivity. Qed.

Lemma content_tfs sg : content (text_from_seg sg) = snd sg.
Proof.
  unfold text_from_seg. destruct sg as [s x]; cbn [snd]. destruct x; cbn; [reflexivity|].
  rewrite app_nil_r. reflexivity.
Qed.

Lemma Normal_tfs sg : Normal (text_from_seg sg).
Proof.
  unfold text_from_seg. destruct sg as [s x]; cbn [snd]. destruct x; cbn; [exact I|].
  repeat split; congruence.
Qed.

Lemma split_text_go_nonempty sep t : forall paste, split_text_go sep t paste <> [].
Proof.
  induction t as [|[s x] r IH]; intros paste; cbn [split_text_go]; [congruence|].
  destruct (split_bytes sep x) as [|p0 rest]; [apply IH|].
  destruct rest; [apply IH | congruence].
Qed.

Lemma split_text_go_content sep t : sep <> [] -> forall paste,
  join_bytes sep (map content (split_text_go sep t paste)) = content (b_result paste) ++ content t.
Proof.
  intros Hsep. induction t as [|[s x] r IH]; intros paste; cbn [split_text_go].
  - cbn. rewrite !app_nil_r. reflexivity.
  - pose proof (split_bytes_join sep x Hsep) as Hx.
    destruct (split_bytes sep x) as [|p0 rest] eqn:Es.
    + cbn in Hx. subst x. rewrite IH. reflexivity.
    + destruct rest as [|q rest'] eqn:Er.
      * rewrite IH, content_write_text, content_tfs. cbn [snd].
        rewrite join_cons in Hx. cbn in Hx. rewrite app_nil_r in Hx. subst x.
        rewrite content_cons, app_assoc. reflexivity.
      * rewrite <- Er in *. assert (Hne : rest <> []) by (rewrite Er; congruence).
        cbn [map]. rewrite join_cons, map_app, sepcat_app, map_map.
        assert (Hm : map (fun p : bytes => content (text_from_seg (s, p))) (removelast rest) = removelast rest).
        { clear. induction (removelast rest) as [|p l IHl]; [reflexivity|].
          cbn [map]. rewrite content_tfs, IHl. reflexivity. }
        rewrite Hm. clear Hm.
        set (paste2 := write_text b_empty (text_from_seg (s, last rest []))).
        rewrite (sepcat_join sep (map content (split_text_go sep r paste2)))
          by (intros E; apply map_eq_nil in E; revert E; apply split_text_go_nonempty).
        rewrite IH. subst paste2. rewrite !content_write_text, !content_tfs. cbn [snd].
        change (content (b_result b_empty)) with (@nil N). cbn [app].
        rewrite content_cons. rewrite <- Hx.
        rewrite join_cons.
        assert (Hr : sepcat sep rest = sepcat sep (removelast rest) ++ sep ++ last rest []).
        { transitivity (sepcat sep (removelast rest ++ [last rest []]));
            [f_equal; apply app_removelast_last; exact Hne|].
          rewrite sepcat_app. f_equal. unfold sepcat. cbn [flat_map]. apply app_nil_r. }
        rewrite Hr, <- !app_assoc. reflexivity.
Qed.

Lemma split_text_go_normal sep t : forall paste,
  BInv paste -> Forall Normal (split_text_go sep t paste).
Proof.
  induction t as [|[s x] r IH]; intros paste Hb; cbn [split_text_go].
  - constructor; [apply Hb | constructor].
  - destruct (split_bytes sep x) as [|p0 rest]; [apply IH; exact Hb|].
    assert (Hb1 : BInv (write_text paste (text_from_seg (s, p0)))) by (apply write_text_inv; [exact Hb | apply Normal_tfs]).
    destruct rest as [|q rest']; [apply IH; exact Hb1|].
    constructor; [apply Hb1|].
    apply Forall_app. split.
    + apply Forall_forall. intros y Hy. apply in_map_iff in Hy. destruct Hy as (p & <- & _). apply Normal_tfs.
    + apply IH. apply write_text_inv; [apply BInv_empty | apply Normal_tfs].
Qed.

Lemma split_concat_back sep t : sep <> [] ->
  Forall Normal (split_text sep t)
  /\ join_bytes sep (map content (split_text sep t)) = content t.
Proof.
  intros Hsep. unfold split_text. destruct t as [|sg t']; [split; [constructor | reflexivity]|].
  split; [apply split_text_go_normal, BInv_empty|].
  rewrite split_text_go_content by exact Hsep. reflexivity.
Qed.

(* ------------------------------------------------------------------ *)
(* TrimWcwidth, for any string width / trimming functions with the stated contract *)

Section TrimProofs.
  Variable ofb : bytes -> Z.
  Variable trimb : bytes -> Z -> bytes.
  Hypothesis ofb_nonneg : forall x, 0 <= ofb x.
  Hypothesis trimb_prefix : forall x n, exists rest, x = trimb x n ++ rest.
  Hypothesis trimb_fits : forall x n, 0 <= n -> ofb (trimb x n) <= n.

  Lemma trim_prefix t : forall n, exists rest, content t = content (trim_text_g ofb trimb t n) ++ rest.
  Proof.
    induction t as [|[s x] r IH]; intros n; cbn [trim_text_g]; [exists []; reflexivity|].
    destruct (ofb x >=? n).
    - destruct (trimb_prefix x n) as [rest Hr]. exists (rest ++ content r).
      rewrite content_cons, content_tfs. cbn [snd]. rewrite app_assoc, <- Hr. reflexivity.
    - destruct (IH (n - ofb x)) as [rest Hr]. exists rest.
      rewrite !content_cons, Hr, app_assoc. reflexivity.
  Qed.

  Lemma text_width_tfs s y n : 0 <= n -> ofb y <= n -> text_width_g ofb (text_from_seg (s, y)) <= n.
  Proof.
    intros Hn Hy. unfold text_from_seg. cbn [snd]. destruct y; cbn [is_nil text_width_g]; lia.
  Qed.

  Lemma trim_width t : forall n, 0 <= n -> text_width_g ofb (trim_text_g ofb trimb t n) <= n.
  Proof.
    induction t as [|[s x] r IH]; intros n Hn; cbn [trim_text_g text_width_g]; [lia|].
    destruct (ofb x >=? n) eqn:E.
    - apply text_width_tfs; [exact Hn | apply trimb_fits; exact Hn].
    - rewrite Z.geb_leb in E. apply Z.leb_gt in E. cbn [text_width_g].
      specialize (IH (n - ofb x) ltac:(lia)). lia.
  Qed.

  (* the shape of the result: all of t, or some leading segments of t followed
     by the trimmed next one when it is not empty *)
  Lemma trim_shape t : forall n,
    trim_text_g ofb trimb t n = t
    \/ exists a s x r m, t = a ++ (s, x) :: r
                         /\ trim_text_g ofb trimb t n = a ++ text_from_seg (s, trimb x m).
  Proof.
    induction t as [|[s x] r IH]; intros n; cbn [trim_text_g]; [left; reflexivity|].
    destruct (ofb x >=? n).
    - right. exists [], s, x, r, n. split; reflexivity.
    - destruct (IH (n - ofb x)) as [E | (a & s' & x' & r' & m & E1 & E2)].
      + left. rewrite E. reflexivity.
      + right. exists ((s, x) :: a), s', x', r', m.
        split; [rewrite E1; reflexivity | rewrite E2; reflexivity].
  Qed.

  (* trim_normal: TrimWcwidth keeps the normal form, whatever Trim returns *)
  Lemma trim_normal t n : Normal t -> Normal (trim_text_g ofb trimb t n).
  Proof.
    intros Hn. destruct (trim_shape t n) as [E | (a & s & x & r & m & E1 & E2)]; [rewrite E; exact Hn|].
    rewrite E2. subst t.
    assert (Hpre : Normal (a ++ [(s, x)])).
    { change ((s, x) :: r) with ([(s, x)] ++ r) in Hn. rewrite app_assoc in Hn.
      apply Normal_app in Hn. apply Hn. }
    unfold text_from_seg. cbn [snd]. destruct (trimb x m) eqn:Et; cbn [is_nil].
    - rewrite app_nil_r. apply Normal_app in Hpre. apply Hpre.
    - eapply Normal_snoc_retext; [|exact Hpre]. congruence.
  Qed.
End TrimProofs.
