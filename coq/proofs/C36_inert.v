(* C36: escapeText output is inert, including the context-dependent cases
   (intraword underscore, ampersand that starts no reference). *)
From Coq Require Import Arith.
From verif Require Import lib.Base lib.ListX model.C35_Bal model.C35_Inline model.C36 proofs.C36_proofs.
Open Scope N_scope.

(* bytes that can occur inside a character reference after the ampersand *)
Definition refchar (c : N) : bool := is_alnum c || (c =? 35) || (c =? 59).
Definition stops (u : list N) : Prop := match u with [] => True | x :: _ => refchar x = false end.

Lemma span_app_stop (P : N -> bool) : (forall c, P c = true -> refchar c = true) ->
  forall p u, stops u -> span P (p ++ u) = span P p.
Proof.
  intros HP. induction p as [|x p IH]; intros u Hu; simpl.
  - destruct u as [|y u]; [reflexivity|]. simpl in *. destruct (P y) eqn:E; [|reflexivity].
    apply HP in E. congruence.
  - destruct (P x); [f_equal; apply IH; exact Hu|reflexivity].
Qed.

Lemma span_le P (p : list N) : (span P p <= length p)%nat.
Proof. induction p as [|x p IH]; simpl; [lia|]. destruct (P x); simpl; lia. Qed.

Lemma nth_is_app_stop : forall p k u u', (k <= length p)%nat -> stops u -> stops u' ->
  nth_is k (p ++ u) 59 = nth_is k (p ++ u') 59.
Proof.
  induction p as [|x p IH]; intros k u u' Hk Hu Hu'.
  - simpl in Hk. assert (k = 0%nat) by lia. subst k. unfold nth_is. simpl.
    destruct u as [|y u], u' as [|y' u']; simpl in *; try reflexivity.
    + unfold refchar in Hu'. destruct (y' =? 59) eqn:E; [|reflexivity].
      rewrite orb_true_r in Hu'. discriminate.
    + unfold refchar in Hu. destruct (y =? 59) eqn:E; [|reflexivity].
      rewrite orb_true_r in Hu. discriminate.
    + unfold refchar in *. destruct (y =? 59) eqn:E; [rewrite orb_true_r in Hu; discriminate|].
      destruct (y' =? 59) eqn:E'; [rewrite orb_true_r in Hu'; discriminate|reflexivity].
  - destruct k; [reflexivity|]. unfold nth_is in *. simpl. apply IH; [simpl in Hk; lia|assumption|assumption].
Qed.

Lemma alnum_ref c : is_alnum c = true -> refchar c = true.
Proof. unfold refchar. intros ->. reflexivity. Qed.
Lemma digit_ref c : is_digit c = true -> refchar c = true.
Proof. unfold refchar, is_alnum. intros ->. rewrite orb_true_r. reflexivity. Qed.
Lemma hex_ref c : is_hex c = true -> refchar c = true.
Proof.
  unfold refchar, is_hex, is_alnum, is_letter, is_upper, is_lower, is_digit. intros H.
  repeat (apply orb_true_iff in H; destruct H as [H|H]);
    apply andb_true_iff in H as [H1 H2]; apply N.leb_le in H1; apply N.leb_le in H2;
    repeat match goal with |- context [?a <=? ?b] =>
      (rewrite (proj2 (N.leb_le a b)) by lia) || (rewrite (proj2 (N.leb_gt a b)) by lia) end;
    simpl; try reflexivity; repeat rewrite orb_true_r; reflexivity.
Qed.

(* one branch of leadingCharRef on a stopped prefix *)
Lemma branch_eq (P : N -> bool) lo hi add p u u' :
  (forall c, P c = true -> refchar c = true) -> stops u -> stops u' ->
  (let k := span P (p ++ u) in
   if Nat.leb lo k && Nat.leb k hi && nth_is k (p ++ u) 59 then (k + add)%nat else 0%nat) =
  (let k := span P (p ++ u') in
   if Nat.leb lo k && Nat.leb k hi && nth_is k (p ++ u') 59 then (k + add)%nat else 0%nat).
Proof.
  intros HP Hu Hu'. cbv zeta. rewrite !(span_app_stop P HP) by assumption.
  rewrite (nth_is_app_stop p (span P p) u u' (span_le P p) Hu Hu'). reflexivity.
Qed.

Lemma branch_eq2 (P : N -> bool) lo add p u u' :
  (forall c, P c = true -> refchar c = true) -> stops u -> stops u' ->
  (let k := span P (p ++ u) in
   if Nat.leb lo k && nth_is k (p ++ u) 59 then (k + add)%nat else 0%nat) =
  (let k := span P (p ++ u') in
   if Nat.leb lo k && nth_is k (p ++ u') 59 then (k + add)%nat else 0%nat).
Proof.
  intros HP Hu Hu'. cbv zeta. rewrite !(span_app_stop P HP) by assumption.
  rewrite (nth_is_app_stop p (span P p) u u' (span_le P p) Hu Hu'). reflexivity.
Qed.

Lemma stops_head_zero (P : N -> bool) lo add u :
  (forall c, P c = true -> refchar c = true) -> stops u -> u <> [] -> (1 <= lo)%nat ->
  (let k := span P u in if Nat.leb lo k && nth_is k u 59 then (k + add)%nat else 0%nat) = 0%nat.
Proof.
  intros HP Hu Hne Hlo. cbv zeta. destruct u as [|x u]; [congruence|]. simpl in *.
  destruct (P x) eqn:E; [apply HP in E; congruence|].
  rewrite (proj2 (Nat.leb_gt lo 0)) by lia. reflexivity.
Qed.

Definition crl_body (t : list N) : nat :=
  match t with
  | h :: c :: r3 =>
    if h =? 35 then
      if (c =? 120) || (c =? 88)
      then let k := span is_hex r3 in
           if Nat.leb 1 k && Nat.leb k 6 && nth_is k r3 59 then (k + 4)%nat else 0%nat
      else let k := span is_digit (c :: r3) in
           if Nat.leb 1 k && Nat.leb k 7 && nth_is k (c :: r3) 59 then (k + 3)%nat else 0%nat
    else let k := span is_alnum t in if Nat.leb 1 k && nth_is k t 59 then (k + 2)%nat else 0%nat
  | _ => let k := span is_alnum t in if Nat.leb 1 k && nth_is k t 59 then (k + 2)%nat else 0%nat
  end.

Lemma crl_is_body t : char_ref_len (38 :: t) = crl_body t.
Proof. reflexivity. Qed.

Lemma crl_body_stop t : stops t -> t <> [] -> crl_body t = 0%nat.
Proof.
  intros Ht Hne. unfold crl_body. destruct t as [|h [|c r3]]; [congruence| |].
  - apply (stops_head_zero is_alnum 1 2); auto using alnum_ref; try discriminate.
  - assert (H35 : (h =? 35) = false).
    { simpl in Ht. unfold refchar in Ht. destruct (h =? 35); [|reflexivity].
      rewrite orb_true_r in Ht. discriminate. }
    rewrite H35. apply (stops_head_zero is_alnum 1 2); auto using alnum_ref; try discriminate.
Qed.

(* leadingCharRef sees only the run of reference bytes after the ampersand *)
Lemma crl_prefix p u u' : forallb refchar p = true -> stops u -> stops u' ->
  (u = [] <-> u' = []) ->
  char_ref_len (38 :: p ++ u) = char_ref_len (38 :: p ++ u').
Proof.
  intros Hp Hu Hu' Hnil. rewrite !crl_is_body.
  destruct p as [|h [|c p']].
  - simpl app. destruct u as [|x u].
    + destruct u'; [reflexivity|]. destruct Hnil as [Hn _]. specialize (Hn eq_refl). discriminate.
    + destruct u' as [|x' u']; [destruct Hnil as [_ Hn]; specialize (Hn eq_refl); discriminate|].
      rewrite (crl_body_stop (x :: u)), (crl_body_stop (x' :: u')); auto; discriminate.
  - simpl app. destruct u as [|x u].
    + destruct u'; [reflexivity|]. destruct Hnil as [Hn _]. specialize (Hn eq_refl). discriminate.
    + destruct u' as [|x' u']; [destruct Hnil as [_ Hn]; specialize (Hn eq_refl); discriminate|].
      simpl in Hu, Hu'.
      assert (NX : forall y, refchar y = false -> (y =? 120) || (y =? 88) = false /\ is_digit y = false /\ is_alnum y = false /\ (y =? 59) = false).
      { intros y Hy. unfold refchar in Hy. apply orb_false_iff in Hy as [Hy H59]. apply orb_false_iff in Hy as [Hal _].
        repeat split; auto.
        - destruct (y =? 120) eqn:E; [apply N.eqb_eq in E; subst; discriminate|].
          destruct (y =? 88) eqn:E2; [apply N.eqb_eq in E2; subst; discriminate|reflexivity].
        - unfold is_alnum in Hal. apply orb_false_iff in Hal. tauto. }
      destruct (NX x Hu) as (X1 & X2 & X3 & X4). destruct (NX x' Hu') as (Y1 & Y2 & Y3 & Y4).
      unfold crl_body. destruct (h =? 35).
      * rewrite X1, Y1. cbv zeta. simpl span. rewrite X2, Y2. reflexivity.
      * cbv zeta. simpl span. destruct (is_alnum h); simpl; rewrite ?X3, ?Y3; simpl;
          unfold nth_is; simpl; rewrite ?X4, ?Y4; reflexivity.
  - change ((h :: c :: p') ++ u) with (h :: c :: p' ++ u). change ((h :: c :: p') ++ u') with (h :: c :: p' ++ u').
    unfold crl_body. destruct (h =? 35).
    + destruct ((c =? 120) || (c =? 88)).
      * apply (branch_eq is_hex 1 6 4 p' u u'); auto using hex_ref.
      * apply (branch_eq is_digit 1 7 3 (c :: p') u u'); auto using digit_ref.
    + apply (branch_eq2 is_alnum 1 2 (h :: c :: p') u u'); auto using alnum_ref.
Qed.

(* ---- the output of escapeText, rune by rune ---- *)
Lemma special_of_tests c :
  (c =? 91) || (c =? 93) || (c =? 42) || (c =? 96) || (c =? 92) || (c =? 60) = always_meta c.
Proof. reflexivity. Qed.

Lemma special_not_refchar c : special_rune c = true -> refchar c = false.
Proof.
  unfold special_rune, always_meta, NBSP. intros H.
  repeat (apply orb_true_iff in H; destruct H as [H|H]); apply N.eqb_eq in H; subst; reflexivity.
Qed.

Lemma refchar_not_special c : refchar c = true -> special_rune c = false.
Proof.
  intros H. destruct (special_rune c) eqn:E; [|reflexivity].
  apply special_not_refchar in E. congruence.
Qed.

Lemma esc_plain pw c w r : special_rune c = false ->
  esc_text pw ((c, w) :: r) = c :: esc_text w r /\
  esc_text_w pw ((c, w) :: r) = (c, w) :: esc_text_w w r.
Proof.
  intros H. unfold special_rune, always_meta in H.
  repeat (apply orb_false_iff in H; destruct H as [H ?]).
  cbn [esc_text esc_text_w].
  repeat match goal with E : (c =? _) = false |- _ => rewrite E; clear E end.
  cbn [orb]. split; reflexivity.
Qed.

Lemma esc_head_stop pw c w r : refchar c = false ->
  stops (esc_text pw ((c, w) :: r)) /\ esc_text pw ((c, w) :: r) <> [].
Proof.
  intros H. cbn [esc_text]. rewrite special_of_tests.
  destruct (always_meta c); [split; [reflexivity|discriminate]|].
  destruct (c =? 95); [destruct (pw && _); (split; [simpl; try exact H; reflexivity|discriminate])|].
  destruct (c =? 38) eqn:E38.
  { destruct (Nat.eqb _ 0); (split; [simpl; try exact H; reflexivity|discriminate]). }
  destruct (c =? NBSP); (split; [simpl; try exact H; reflexivity|discriminate]).
Qed.

Lemma esc_decomp : forall r w, exists p u u',
  map fst r = p ++ u /\ esc_text w r = p ++ u' /\ forallb refchar p = true /\
  stops u /\ stops u' /\ (u = [] <-> u' = []).
Proof.
  induction r as [|[c w0] r IH]; intros w.
  - exists [], [], []. repeat split; auto.
  - destruct (refchar c) eqn:R.
    + destruct (IH w0) as (p & u & u' & E1 & E2 & Hp & Hu & Hu' & Hn).
      destruct (esc_plain w c w0 r (refchar_not_special c R)) as [P1 _].
      exists (c :: p), u, u'. rewrite P1. simpl. rewrite E1, E2, R, Hp. repeat split; auto; apply Hn.
    + destruct (esc_head_stop w c w0 r R) as [S1 S2].
      exists [], (c :: map fst r), (esc_text w ((c, w0) :: r)).
      repeat split; auto; intros; try discriminate. contradiction.
Qed.

Lemma map_fst_esc : forall s pw, map fst (esc_text_w pw s) = esc_text pw s.
Proof.
  induction s as [|[c w] r IH]; intros pw; [reflexivity|].
  cbn [esc_text esc_text_w]. rewrite map_app, IH. f_equal.
  destruct (_ || _); [reflexivity|].
  destruct (c =? 95); [destruct (pw && _); reflexivity|].
  destruct (c =? 38); [destruct (Nat.eqb _ 0); reflexivity|].
  destruct (c =? NBSP); reflexivity.
Qed.

(* ---- the scanner ---- *)
Lemma inert_pair pw c w r : is_ascii_punct c = true ->
  inert_ok false pw ((92, false) :: (c, w) :: r) = inert_ok false w r.
Proof. intros H. cbn [inert_ok]. change (92 =? 92) with true. rewrite H. reflexivity. Qed.

Lemma inert_plain pw c w r : always_meta c = false -> (c =? 95) = false -> (c =? 38) = false ->
  inert_ok false pw ((c, w) :: r) = inert_ok false w r.
Proof.
  intros A U M. cbn [inert_ok].
  assert (E : (c =? 92) = false).
  { unfold always_meta in A. repeat (apply orb_false_iff in A; destruct A as [A ?]). assumption. }
  rewrite E, A, U, M. reflexivity.
Qed.

Lemma inert_amp pw w r : has_prefix NBSP_ENT (38 :: map fst r) = true ->
  inert_ok false pw ((38, w) :: r) = inert_ok false w r.
Proof.
  intros H. cbn [inert_ok]. change (38 =? 92) with false. cbn [andb].
  change (always_meta 38) with false. change (38 =? 95) with false. change (38 =? 38) with true.
  cbn [negb orb andb map fst]. rewrite H. rewrite orb_true_r. reflexivity.
Qed.

Lemma always_meta_punct c : always_meta c = true -> is_ascii_punct c = true.
Proof.
  unfold always_meta. intros H.
  repeat (apply orb_true_iff in H; destruct H as [H|H]); apply N.eqb_eq in H; subst; reflexivity.
Qed.

Theorem esc_text_inert : forall s pw, sane s = true -> inert_ok false pw (esc_text_w pw s) = true.
Proof.
  induction s as [|[c w] r IH]; intros pw Hs; [reflexivity|].
  cbn [sane forallb fst snd] in Hs. apply andb_true_iff in Hs as [Hc Hs].
  specialize (IH w Hs).
  cbn [esc_text_w]. rewrite special_of_tests.
  destruct (always_meta c) eqn:A.
  { simpl app. rewrite inert_pair by (apply always_meta_punct; exact A). exact IH. }
  destruct (c =? 95) eqn:U.
  { apply N.eqb_eq in U. subst c.
    destruct (pw && match r with (_, w') :: _ => w' | [] => false end) eqn:B.
    - simpl app. apply andb_true_iff in B as [Bp Bn].
      destruct r as [|[c' w'] r']; [discriminate|]. subst w'.
      cbn [sane forallb fst snd] in Hs. apply andb_true_iff in Hs as [Hc' _]. simpl in Hc'.
      apply negb_true_iff in Hc'.
      destruct (esc_plain w c' true r' Hc') as [_ P2]. rewrite P2 in *.
      cbn [inert_ok]. change (95 =? 92) with false. cbn [andb]. rewrite Bp.
      change (always_meta 95) with false. change (95 =? 95) with true. change (95 =? 38) with false.
      cbn [negb orb andb]. exact IH.
    - simpl app. rewrite inert_pair by reflexivity. exact IH. }
  destruct (c =? 38) eqn:M.
  { apply N.eqb_eq in M. subst c.
    destruct (Nat.eqb (char_ref_len (map fst ((38, w) :: r))) 0) eqn:Z.
    - simpl app. cbn [inert_ok]. change (38 =? 92) with false. cbn [andb].
      change (always_meta 38) with false. change (38 =? 95) with false. change (38 =? 38) with true.
      cbn [negb orb andb].
      assert (Q : Nat.eqb (char_ref_len (map fst ((38, w) :: esc_text_w w r))) 0 = true).
      { cbn [map fst]. rewrite map_fst_esc.
        destruct (esc_decomp r w) as (p & u & u' & E1 & E2 & Hp & Hu & Hu' & Hn).
        rewrite E2. rewrite <- (crl_prefix p u u' Hp Hu Hu' Hn). rewrite <- E1. exact Z. }
      rewrite Q. cbn [orb andb]. exact IH.
    - simpl app. rewrite inert_pair by reflexivity. exact IH. }
  destruct (c =? NBSP) eqn:Nb.
  { simpl app. rewrite inert_amp by reflexivity.
    rewrite !inert_plain by reflexivity. exact IH. }
  simpl app. rewrite inert_plain by assumption. exact IH.
Qed.

(* the full statement: round trip, no always-active metacharacter, and the
   context-dependent cases are inert *)
Theorem escaped_text_is_inert s : sane s = true ->
  esc_text_ok s (esc_text_w false s) = true.
Proof.
  intros Hs. unfold esc_text_ok. rewrite map_fst_esc.
  destruct (esc_text_spec s false) as [H1 H2]. rewrite H1, H2.
  rewrite (proj2 (list_eqb_spec N.eqb N.eqb_eq _ _) eq_refl).
  rewrite esc_text_inert by exact Hs. reflexivity.
Qed.

(* why an underscore between two word runes is inert: the classification of
   C35 gives it neither the right to open nor to close *)
Lemma intraword_underscore_is_plain : C35_Inline.can_open_close true false false false false = (false, false).
Proof. reflexivity. Qed.
