(* C08 — proofs: Equal values hash alike (all well-formed values),
   consequences for a hash map with the Equal/Hash interface, soundness of the
   oracle. *)
From verif Require Import lib.Base model.C08_Value model.C08 proofs.C08_Value_proofs.
From Coq Require Import QArith Permutation Arith.
Close Scope Q_scope.
Open Scope N_scope.

(* ---- unfolding lemmas ---- *)
Definition hstep (h : N) (x : value) : N := djb_combine h (hash x).
Definition tm (e : value * value) : N := djb [hash (fst e); hash (snd e)].

Lemma hash_list s l : hash (VList s l) = fold_left hstep l djb_init.
Proof. reflexivity. Qed.
Lemma hash_map m : hash (VMap m) = fold_left (fun h e => w32 (h + tm e)) m 0.
Proof. reflexivity. Qed.

(* ---- floats: == and same bits ---- *)
Lemma f_decomp x : x < 2 ^ 64 -> x = (if f_sign x then 2 ^ 63 else 0) + f_mag x.
Proof.
  intros H. unfold f_sign, f_mag.
  assert (E : 2 ^ 64 = 2 * 2 ^ 63) by reflexivity. rewrite E in H.
  assert (P : 0 < 2 ^ 63) by reflexivity.
  set (p := 2 ^ 63) in *.
  destruct (N.leb_spec p x) as [L|L].
  - rewrite <- (N.mod_unique x p 1 (x - p)); lia.
  - rewrite N.mod_small; lia.
Qed.

Lemma f_mag_lt x : f_mag x < 2 ^ 63.
Proof. unfold f_mag. apply N.mod_lt. discriminate. Qed.

Lemma wf_float b : wf (VFloat b) -> b < 2 ^ 64.
Proof. unfold wf. intros H. apply N.ltb_lt. exact H. Qed.

(* Equal floats have the same bits or are both zeros *)
Lemma equal_float_bits x y :
  x < 2 ^ 64 -> y < 2 ^ 64 -> VFloat x ~= VFloat y ->
  x = y \/ (f_is_zero x = true /\ f_is_zero y = true).
Proof.
  intros Hx Hy H. cbn [equal] in H. unfold f_eq in H.
  apply andb_true_iff in H as [_ K]. apply Z.eqb_eq in K.
  pose proof (f_decomp x Hx) as Dx. pose proof (f_decomp y Hy) as Dy.
  unfold f_key in K. unfold f_is_zero.
  destruct (f_sign x), (f_sign y).
  - left. lia.
  - right. split; apply N.eqb_eq; lia.
  - right. split; apply N.eqb_eq; lia.
  - left. lia.
Qed.

Lemma f_canon_eq x y :
  x < 2 ^ 64 -> y < 2 ^ 64 -> f_eq x y = true -> f_canon x = f_canon y.
Proof.
  intros Hx Hy H. destruct (equal_float_bits x y Hx Hy H) as [->|[Zx Zy]]; [reflexivity|].
  unfold f_canon. now rewrite Zx, Zy.
Qed.

(* ---- hash of lists and maps ---- *)
Lemma fold_hstep_eql x : forall y h,
  (forall p q, In p x -> In q y -> p ~= q -> hash p = hash q) ->
  eql x y = true -> fold_left hstep x h = fold_left hstep y h.
Proof.
  induction x as [|p x IH]; intros [|q y] h Hh E; cbn in *; try discriminate; auto.
  apply andb_true_iff in E as [E1 E2].
  unfold hstep at 2 4. rewrite (Hh p q); auto.
Qed.

Fixpoint sumN (l : list N) : N := match l with [] => 0 | x :: r => x + sumN r end.

Lemma w32_idem x : w32 (w32 x) = w32 x.
Proof. unfold w32. apply N.mod_mod. discriminate. Qed.

Lemma w32_add_l a b : w32 (w32 a + b) = w32 (a + b).
Proof. unfold w32. apply N.add_mod_idemp_l. discriminate. Qed.

Lemma fold_map_sum (t : value * value -> N) m : forall h,
  w32 (fold_left (fun h e => w32 (h + t e)) m h) = w32 (h + sumN (map t m)).
Proof.
  induction m as [|e m IH]; intros h; cbn.
  - now rewrite N.add_0_r.
  - rewrite IH, w32_add_l. f_equal. lia.
Qed.

Lemma fold_map_w32 (t : value * value -> N) m :
  fold_left (fun h e => w32 (h + t e)) m 0 = w32 (sumN (map t m)).
Proof.
  pose proof (fold_map_sum t m 0) as H0. rewrite N.add_0_l in H0. rewrite <- H0. clear H0.
  destruct m as [|e m]; [reflexivity|]. cbn.
  (* the result of a non-empty fold is already reduced *)
  assert (G : forall l h, fold_left (fun h e => w32 (h + t e)) l (w32 h) =
                          w32 (fold_left (fun h e => w32 (h + t e)) l (w32 h))).
  { induction l as [|e' l IHl]; intros h; cbn; [now rewrite w32_idem|apply IHl]. }
  apply G.
Qed.

Lemma sumN_perm l l' : Permutation l l' -> sumN l = sumN l'.
Proof. induction 1; cbn; lia. Qed.

Lemma Forall2_impl_in {A B} (R S : A -> B -> Prop) l l' :
  (forall a b, In a l -> In b l' -> R a b -> S a b) -> Forall2 R l l' -> Forall2 S l l'.
Proof.
  intros H F. induction F as [|a b l l' Rab F IH]; constructor.
  - apply H; auto; now left.
  - apply IH. intros a' b' Ha Hb. apply H; now right.
Qed.

Lemma Forall2_map_eq {A B} (f : A -> N) (g : B -> N) l l' :
  Forall2 (fun a b => f a = g b) l l' -> map f l = map g l'.
Proof. induction 1; cbn; congruence. Qed.

(* ---- equal ==> same hash, for all well-formed values ---- *)
Lemma equal_hash_n n : forall a b,
  (vsize a < n)%nat -> wf a -> wf b -> a ~= b -> hash a = hash b.
Proof.
  induction n as [|n IH]; intros a b Sz Wa Wb E; [lia|].
  destruct a, b; try (cbn in E; discriminate E).
  - reflexivity.
  - cbn in E. apply Bool.eqb_prop in E. now subst.
  - cbn in E. apply Z.eqb_eq in E. now subst.
  - cbn in E. apply Z.eqb_eq in E. now subst.
  - cbn [equal] in E. apply Qeq_bool_iff in E. cbn [hash]. unfold hash_rat.
    now rewrite (Qred_complete _ _ E).
  - change (f_eq bits bits0 = true) in E.
    change (hash_u64 (f_canon bits) = hash_u64 (f_canon bits0)). f_equal.
    apply f_canon_eq; [apply wf_float|apply wf_float|]; assumption.
  - cbn in E. apply bytes_eqb_spec in E. now subst.
  - rewrite equal_list in E. rewrite !hash_list. apply fold_hstep_eql; auto.
    intros p q Hp Hq Epq. apply IH; auto.
    + pose proof (vsize_list_in sub l p Hp). lia.
    + apply (wf_list_in sub l); auto.
    + apply (wf_list_in sub0 l0); auto.
  - rewrite equal_map in E. apply andb_true_iff in E as [L S]. apply Nat.eqb_eq in L.
    destruct (msub_perm wf (fun x y _ _ => equal_sym x y ltac:(assumption) ltac:(assumption))
                (fun x y z _ _ _ => equal_trans x y z ltac:(assumption) ltac:(assumption) ltac:(assumption))
                m m0 (wfM_of _ Wa) (wfM_of _ Wb) (wf_map_nodup _ Wa) L S) as (y' & P & F).
    rewrite !hash_map, !fold_map_w32. f_equal.
    rewrite (sumN_perm _ _ (Permutation_map tm P)). f_equal.
    apply Forall2_map_eq. eapply Forall2_impl_in; [|exact F].
    intros e e' He He' [A B].
    assert (He'2 : In e' m0) by (eapply Permutation_in; [apply Permutation_sym|]; eauto).
    destruct (wf_map_in _ _ Wa He) as [W1 W2]. destruct (wf_map_in _ _ Wb He'2) as [W3 W4].
    destruct (vsize_map_in _ _ He) as [S1 S2].
    unfold tm. rewrite (IH (fst e) (fst e')), (IH (snd e) (snd e')); auto; lia.
  - cbn in E. apply andb_true_iff in E as [_ E]. apply N.eqb_eq in E. now subst.
Qed.

Theorem equal_hash a b : wf a -> wf b -> a ~= b -> hash a = hash b.
Proof. apply (equal_hash_n (S (vsize a))). lia. Qed.

(* ------------------------------------------------------------------ *)
(* a hash map with the Equal/Hash interface *)
Definition keys_wf (m : amap) : Prop := forall e, In e m -> wf (fst e).
(* a universe of keys on which Equal implies equal hashes *)
Definition hash_ok (U : value -> Prop) : Prop :=
  forall x y, U x -> U y -> x ~= y -> hash x = hash y.

Lemma hm_match_congr a b k :
  wf a -> wf b -> wf k -> a ~= b -> hash a = hash b -> hm_match a k = hm_match b k.
Proof.
  intros Wa Wb Wk E H. unfold hm_match. rewrite H. f_equal.
  destruct (equal a k) eqn:E1; symmetry.
  - apply (equal_trans b a k); auto. now apply equal_sym.
  - destruct (equal b k) eqn:E2; [|reflexivity].
    rewrite (equal_trans a b k) in E1; auto.
Qed.

Lemma hm_match_congr_r a b k :
  wf a -> wf b -> wf k -> a ~= b -> hash a = hash b -> hm_match k a = hm_match k b.
Proof.
  intros Wa Wb Wk E H. unfold hm_match. rewrite H. f_equal.
  destruct (equal k a) eqn:E1; symmetry.
  - apply (equal_trans k a b); auto.
  - destruct (equal k b) eqn:E2; [|reflexivity].
    rewrite (equal_trans k b a) in E1; auto. now apply equal_sym.
Qed.

Section EqKeys.
  Variables a b : value.
  Hypothesis Wa : wf a.
  Hypothesis Wb : wf b.
  Hypothesis Eab : a ~= b.
  Hypothesis Hab : hash a = hash b.

  Lemma hm_find_eq m : keys_wf m -> hm_find a m = hm_find b m.
  Proof.
    unfold hm_find, lookup_by. intros Wm. induction m as [|e m IH]; cbn; [reflexivity|].
    rewrite (hm_match_congr a b (fst e)); auto; [|apply Wm; now left].
    destruct (hm_match b (fst e)); [reflexivity|]. apply IH. intros e' He'. apply Wm. now right.
  Qed.

  Lemma hm_dissoc_eq m : keys_wf m -> hm_dissoc a m = hm_dissoc b m.
  Proof.
    intros Wm. induction m as [|[k v] m IH]; cbn; [reflexivity|].
    rewrite (hm_match_congr a b k); auto; [|apply (Wm (k, v)); now left].
    destruct (hm_match b k); [reflexivity|]. f_equal. apply IH. intros e' He'. apply Wm. now right.
  Qed.

  (* assoc: same shape and values; the stored key is the one given *)
  Lemma hm_assoc_eq m v :
    keys_wf m ->
    map snd (hm_assoc a v m) = map snd (hm_assoc b v m) /\
    length (hm_assoc a v m) = length (hm_assoc b v m) /\
    forall k, wf k -> hm_find k (hm_assoc a v m) = hm_find k (hm_assoc b v m).
  Proof.
    intros Wm. induction m as [|[k0 v0] m IH]; cbn.
    - split; [reflexivity|]. split; [reflexivity|]. intros k Wk. unfold hm_find, lookup_by. cbn.
      rewrite (hm_match_congr_r a b k) by assumption. now destruct (hm_match k b).
    - rewrite (hm_match_congr a b k0); auto; [|apply (Wm (k0, v0)); now left].
      destruct (hm_match b k0).
      + split; [reflexivity|]. split; [reflexivity|]. intros k Wk. unfold hm_find, lookup_by. cbn.
        rewrite (hm_match_congr_r a b k) by assumption. now destruct (hm_match k b).
      + destruct IH as (I1 & I2 & I3); [intros e' He'; apply Wm; now right|].
        cbn. split; [congruence|]. split; [congruence|].
        intros k Wk. unfold hm_find, lookup_by in *. cbn.
        destruct (hm_match k k0); [reflexivity|]. now apply I3.
  Qed.
End EqKeys.

(* no two stored keys are Equal, whatever the history, provided Equal implies
   equal hashes on the keys used *)
Fixpoint no_eq_keys (m : amap) : Prop :=
  match m with
  | [] => True
  | e :: m' => (forall e', In e' m' -> equal (fst e) (fst e') = false) /\ no_eq_keys m'
  end.

Section History.
  Variable U : value -> Prop.
  Hypothesis Uwf : forall x, U x -> wf x.
  Hypothesis Uhash : hash_ok U.

  Definition keys_in (m : amap) : Prop := forall e, In e m -> U (fst e).

  Lemma match_is_equal x y : U x -> U y -> hm_match x y = equal x y.
  Proof.
    intros Ux Uy. unfold hm_match. destruct (equal x y) eqn:E; [|apply andb_false_r].
    rewrite (Uhash x y); auto. now rewrite N.eqb_refl.
  Qed.

  Lemma hm_assoc_in k v m e : In e (hm_assoc k v m) -> e = (k, v) \/ In e m.
  Proof.
    induction m as [|[k0 v0] m IH]; cbn.
    - intros [<-|[]]. now left.
    - destruct (hm_match k k0); cbn.
      + intros [<-|H]; auto.
      + intros [<-|H]; auto. destruct (IH H); auto.
  Qed.

  Lemma hm_dissoc_in k m e : In e (hm_dissoc k m) -> In e m.
  Proof.
    induction m as [|[k0 v0] m IH]; cbn; [auto|].
    destruct (hm_match k k0); cbn; [auto|]. intros [<-|H]; auto.
  Qed.

  Lemma hm_assoc_keeps k v m :
    U k -> keys_in m -> no_eq_keys m -> no_eq_keys (hm_assoc k v m).
  Proof.
    intros Uk. induction m as [|[k0 v0] m IH]; intros Km Nm; cbn.
    - split; [intros e' []|exact I].
    - assert (Uk0 : U k0) by (apply (Km (k0, v0)); now left).
      assert (Km' : keys_in m) by (intros e' He'; apply Km; now right).
      destruct Nm as [N1 N2]. cbn in N1.
      rewrite match_is_equal by assumption.
      destruct (equal k k0) eqn:E; cbn.
      + split; [|exact N2]. intros e' He'.
        destruct (equal k (fst e')) eqn:E'; [|reflexivity].
        assert (Ue' : U (fst e')) by (apply Km'; auto).
        rewrite <- (N1 e' He'). symmetry.
        apply (equal_trans k0 k (fst e')); auto. apply equal_sym; auto.
      + split; [|apply IH; auto].
        intros e' He'. destruct (hm_assoc_in _ _ _ _ He') as [->|He'2]; [|apply N1; auto].
        cbn. rewrite equal_sym_bool; auto.
  Qed.

  Lemma hm_dissoc_keeps k m : no_eq_keys m -> no_eq_keys (hm_dissoc k m).
  Proof.
    induction m as [|[k0 v0] m IH]; intros Nm; cbn; [exact I|].
    destruct Nm as [N1 N2]. destruct (hm_match k k0); [exact N2|].
    split; [|apply IH; auto]. intros e' He'. apply N1. eapply hm_dissoc_in; eauto.
  Qed.

  Definition op_key (o : mop) : value := match o with MAssoc k _ => k | MDissoc k => k end.

  Lemma hm_run_inv ops : forall m,
    (forall o, In o ops -> U (op_key o)) -> keys_in m -> no_eq_keys m ->
    keys_in (fold_left hm_step ops m) /\ no_eq_keys (fold_left hm_step ops m).
  Proof.
    induction ops as [|o ops IH]; intros m Ho Km Nm; cbn; [auto|].
    assert (Uo : U (op_key o)) by (apply Ho; now left).
    apply IH; [intros o' Ho'; apply Ho; now right| |].
    - destruct o as [k v|k]; cbn in *; intros e He.
      + destruct (hm_assoc_in _ _ _ _ He) as [->|He2]; [exact Uo|apply Km; auto].
      + apply Km. eapply hm_dissoc_in; eauto.
    - destruct o as [k v|k]; cbn in *; [apply hm_assoc_keeps; auto|apply hm_dissoc_keeps; auto].
  Qed.

  Theorem no_two_eq_keys ops :
    (forall o, In o ops -> U (op_key o)) -> no_eq_keys (hm_run ops).
  Proof.
    intros Ho. apply (hm_run_inv ops []); auto; [intros e []|exact I].
  Qed.
End History.

(* Equal implies equal hashes on all well-formed values *)
Lemma wf_hash_ok : hash_ok wf.
Proof. intros x y Wx Wy. now apply equal_hash. Qed.

Theorem no_two_eq_keys_wf ops :
  (forall o, In o ops -> wf (op_key o)) -> no_eq_keys (hm_run ops).
Proof. apply (no_two_eq_keys wf); [auto|exact wf_hash_ok]. Qed.

Theorem eq_keys_same_slot a b m v :
  wf a -> wf b -> a ~= b -> keys_wf m ->
  hm_find a m = hm_find b m /\
  hm_dissoc a m = hm_dissoc b m /\
  map snd (hm_assoc a v m) = map snd (hm_assoc b v m) /\
  length (hm_assoc a v m) = length (hm_assoc b v m) /\
  (forall k, wf k -> hm_find k (hm_assoc a v m) = hm_find k (hm_assoc b v m)).
Proof.
  intros Wa Wb E Wm.
  pose proof (equal_hash a b Wa Wb E) as H.
  split; [now apply hm_find_eq|]. split; [now apply hm_dissoc_eq|].
  now apply hm_assoc_eq.
Qed.

(* ------------------------------------------------------------------ *)
(* the oracle states the property on observations *)
Definition Spec_pair (o : pair_obs) : Prop :=
  p_eq_api o = p_eq_bi o /\ (p_eq_api o = true -> p_hash_a o = p_hash_b o).

Lemma check_pair_sound o : check_pair o = true -> Spec_pair o.
Proof.
  unfold check_pair, Spec_pair. intros H. apply andb_true_iff in H as [H1 H2].
  split; [now apply Bool.eqb_prop|]. intros E. rewrite E in H2. now apply N.eqb_eq.
Qed.

Definition Spec_map (v : Z) (o : map_obs) : Prop :=
  (o_neq_a o <= 1 /\ o_neq_b o <= 1) /\
  (o_eq o = true ->
   o_has_a o = o_has_b o /\ o_idx_a o = o_idx_b o /\
   o_len_ma o = o_len_mb o /\ o_eq_mab o = true /\
   o_has_ma_b o = true /\ o_has_mb_a o = true /\
   o_idx_ma_b o = Some v /\ o_idx_mb_a o = Some v /\
   o_len_da o = o_len_db o /\ o_eq_dab o = true /\
   o_has_da_b o = false /\ o_has_db_a o = false).

Lemma oz_eqb_eq x y : oz_eqb x y = true -> x = y.
Proof.
  destruct x, y; cbn; try discriminate; auto. intros H. apply Z.eqb_eq in H. now subst.
Qed.

Lemma check_map_sound v o : check_map v o = true -> Spec_map v o.
Proof.
  unfold check_map, Spec_map. intros H.
  apply andb_true_iff in H as [H H3]. apply andb_true_iff in H as [H1 H2].
  apply N.leb_le in H1, H2. split; [auto|]. intros E. rewrite E in H3.
  repeat match goal with H : _ && _ = true |- _ => apply andb_true_iff in H as [H ?] end.
  repeat split;
    try (now apply Bool.eqb_prop); try (now apply oz_eqb_eq); try (now apply N.eqb_eq);
    try assumption; try (now apply negb_true_iff).
Qed.

(* what the model predicts satisfies the pair property *)
Lemma model_pair_ok a b : wf a -> wf b -> check_pair (model_pair a b) = true.
Proof.
  intros Wa Wb. unfold check_pair, model_pair. cbn.
  rewrite Bool.eqb_reflx. cbn. destruct (equal a b) eqn:E; [|reflexivity].
  apply N.eqb_eq. now apply equal_hash.
Qed.
