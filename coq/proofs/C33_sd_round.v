(* C33 / styledown — Render (Derender t) = t. *)
From verif Require Import lib.Base lib.Utf8 model.C34_width model.C33 model.C33_styledown
  proofs.C33_proofs proofs.C33_proofs2 proofs.C33_sd_flat proofs.C33_sd_table.
Open Scope Z_scope.

Lemma all_same_repeat c k : all_same (repeat c k) = true.
Proof.
  induction k as [|k IH]; [reflexivity|]. destruct k as [|k]; [reflexivity|].
  change (repeat c (S (S k))) with (c :: c :: repeat c k).
  change (all_same (c :: c :: repeat c k)) with (N.eqb c c && all_same (c :: repeat c k)).
  rewrite N.eqb_refl. exact IH.
Qed.

Lemma T_single r ats : T [r] ats = [(style_of ats, [r])].
Proof. reflexivity. Qed.

Lemma fjoin_snoc_nil ps : ps <> [] -> fjoin (ps ++ [[]]) = fjoin ps ++ [nlsep].
Proof.
  destruct ps as [|p r]; [congruence|]. intros _. cbn [app]. rewrite !fjoin_cons.
  fold (fsep (r ++ [[]])). rewrite fsep_app. unfold fsep at 2. cbn [flat_map flat app].
  rewrite app_assoc. reflexivity.
Qed.

Section Round.
  Variable w : N -> Z.
  Variable parse_def : list N -> option (N * list styling).
  Hypothesis w_nonneg : forall r, 0 <= w r.
  Hypothesis w_nl : w NL <> 1.
  Hypothesis w_builtin : forall c ats, lookup c builtin_chars = Some ats -> w c = 1.
  Hypothesis w_no_eol : W w no_eol <> 0.
  Hypothesis pd_width : forall l c ats, parse_def l = Some (c, ats) -> w c = 1 /\ In c l.
  Hypothesis pd_no_eol : parse_def no_eol = None.

  Notation Wd := (W w).

  (* one character of a content line against its k copies of the style character *)
  Lemma render_line_step defs tb r txt c ats sty :
    w r <> 0 -> sheet_lookup defs c = Some ats ->
    render_line w defs tb (r :: txt) (repeat c (Z.to_nat (w r)) ++ sty)
    = render_line w defs (write_text tb (T [r] ats)) txt sty.
  Proof.
    intros Hr Hs. cbn [render_line].
    destruct (w r =? 0) eqn:E0; [apply Z.eqb_eq in E0; contradiction|].
    pose proof (w_nonneg r) as Hn.
    remember (Z.to_nat (w r)) as k eqn:Ek.
    assert (Hk : (1 <= k)%nat) by lia.
    assert (Hlen : length (repeat c k ++ sty) = (k + length sty)%nat) by (rewrite app_length, repeat_length; reflexivity).
    destruct (Nat.ltb (length (repeat c k ++ sty)) k) eqn:El; [apply Nat.ltb_lt in El; lia|].
    assert (Hf : firstn k (repeat c k ++ sty) = repeat c k).
    { rewrite firstn_app, repeat_length, Nat.sub_diag, firstn_O, app_nil_r.
      rewrite <- (repeat_length c k) at 1. apply firstn_all. }
    rewrite Hf, all_same_repeat. cbn [negb].
    assert (Hsk : skipn k (repeat c k ++ sty) = sty).
    { rewrite skipn_app, repeat_length, Nat.sub_diag. cbn [skipn].
      rewrite <- (repeat_length c k) at 1. rewrite skipn_all. reflexivity. }
    rewrite Hsk. destruct k as [|k']; [lia|]. cbn [repeat app]. rewrite Hs. reflexivity.
  Qed.

  Lemma repeat_W (c : N) r x :
    repeat c (Z.to_nat (Wd (r :: x))) = repeat c (Z.to_nat (w r)) ++ repeat c (Z.to_nat (Wd x)).
  Proof.
    unfold W. cbn [width_runes]. fold (Wd x).
    pose proof (w_nonneg r). pose proof (W_nonneg w w_nonneg x).
    rewrite Z2Nat.inj_add by assumption. apply repeat_app.
  Qed.

  Lemma render_seg defs c ats s x :
    sheet_lookup defs c = Some ats -> style_of ats = s -> (forall r, In r x -> w r <> 0) ->
    forall tb cl sl, BInv tb ->
    exists tb', render_line w defs tb (x ++ cl) (repeat c (Z.to_nat (Wd x)) ++ sl)
                = render_line w defs tb' cl sl
                /\ BInv tb' /\ flat (b_result tb') = flat (b_result tb) ++ map (pair s) x.
  Proof.
    intros Hs Hst. induction x as [|r x IH]; intros Hx tb cl sl Hb.
    - exists tb. cbn. rewrite app_nil_r. auto.
    - rewrite repeat_W, <- app_assoc. cbn [app].
      rewrite (render_line_step defs tb r (x ++ cl) c ats) by (auto; apply Hx; left; reflexivity).
      assert (Hb1 : BInv (write_text tb (T [r] ats))).
      { apply write_text_inv; [exact Hb|]. rewrite T_single. cbn. repeat split; congruence. }
      destruct (IH (fun r' H => Hx r' (or_intror H)) _ cl sl Hb1) as (tb' & E & Hb' & Hf).
      exists tb'. split; [exact E|]. split; [exact Hb'|].
      rewrite Hf, flat_write_text, T_single, flat_single, Hst. cbn [map]. rewrite <- app_assoc. reflexivity.
  Qed.

  Section WithTable.
    Variable cfs : list (style * N).
    Variable user : list (N * list N).
    Hypothesis Hcfs : CfsOK parse_def cfs user.

    Lemma char_not_nl s c : cfs_lookup s cfs = Some c -> c <> NL.
    Proof.
      intros H E. pose proof (cfs_char_width w parse_def pd_width w_builtin cfs user s c Hcfs H). subst c. contradiction.
    Qed.

    Lemma derender_line_facts p : forall cl sl used,
      derender_line w cfs p = Ok (cl, sl, used) ->
      cl = content p /\ Wd sl = Wd cl /\ ~ In NL sl.
    Proof.
      induction p as [|[s x] r IH]; intros cl sl used E; cbn [derender_line] in E.
      - inversion E; subst. cbn. auto.
      - destruct (cfs_lookup s cfs) as [c|] eqn:Ec; [|discriminate].
        destruct (derender_line w cfs r) as [[[cl' sl'] used']|] eqn:Er; [|discriminate].
        inversion E; subst. destruct (IH _ _ _ eq_refl) as (H1 & H2 & H3).
        split; [rewrite content_cons, H1; reflexivity|]. split.
        + rewrite !(W_app w), (W_repeat w), H2.
          rewrite (cfs_char_width w parse_def pd_width w_builtin cfs user s c Hcfs Ec).
          pose proof (W_nonneg w w_nonneg x). lia.
        + intros H. apply in_app_or in H. destruct H as [H|H]; [|contradiction].
          apply repeat_spec in H. apply (char_not_nl s c Ec). congruence.
    Qed.

    Lemma derender_line_render defs p : forall cl sl used,
      derender_line w cfs p = Ok (cl, sl, used) ->
      (forall sg r, In sg p -> In r (snd sg) -> w r <> 0) ->
      (forall s c, cfs_lookup s cfs = Some c -> In c used ->
                   exists ats, sheet_lookup defs c = Some ats /\ style_of ats = s) ->
      forall tb, BInv tb ->
      exists tb', render_line w defs tb cl sl = Ok tb' /\ BInv tb'
                  /\ flat (b_result tb') = flat (b_result tb) ++ flat p.
    Proof.
      induction p as [|[s x] r IH]; intros cl sl used E Hw Hsheet tb Hb; cbn [derender_line] in E.
      - inversion E; subst. exists tb. cbn. rewrite app_nil_r. auto.
      - destruct (cfs_lookup s cfs) as [c|] eqn:Ec; [|discriminate].
        destruct (derender_line w cfs r) as [[[cl' sl'] used']|] eqn:Er; [|discriminate].
        inversion E; subst.
        destruct (Hsheet s c Ec (or_introl eq_refl)) as (ats & Hs & Hst).
        destruct (render_seg defs c ats s x Hs Hst
                    (fun r' H => Hw (s, x) r' (or_introl eq_refl) H) tb cl' sl' Hb) as (tb1 & E1 & Hb1 & Hf1).
        destruct (IH cl' sl' used' eq_refl
                     (fun sg r' H H' => Hw sg r' (or_intror H) H')
                     (fun s' c' H H' => Hsheet s' c' H (or_intror H')) tb1 Hb1) as (tb2 & E2 & Hb2 & Hf2).
        exists tb2. rewrite E1. split; [exact E2|]. split; [exact Hb2|].
        rewrite Hf2, Hf1, flat_cons, <- app_assoc. reflexivity.
    Qed.

    (* the lines of the content stanza *)
    Definition line3 := (list N * list N * list N)%type.
    Definition body (ls : list line3) : list N :=
      flat_map (fun l : line3 => fst (fst l) ++ [NL] ++ snd (fst l) ++ [NL]) ls.
    Definition body_lines (ls : list line3) : list (list N) :=
      flat_map (fun l : line3 => [fst (fst l); snd (fst l)]) ls.
    Definition body_pairs (ls : list line3) : list (list N * list N) :=
      map (fun l : line3 => (fst (fst l), snd (fst l))) ls.

    Lemma derender_lines_cons p ps ls :
      derender_lines w cfs (p :: ps) = Ok ls ->
      exists l ls', ls = l :: ls' /\ derender_line w cfs p = Ok l /\ derender_lines w cfs ps = Ok ls'.
    Proof.
      cbn [derender_lines]. destruct (derender_line w cfs p) as [l|]; [|discriminate].
      destruct (derender_lines w cfs ps) as [ls'|]; [|discriminate].
      intros E. inversion E; subst. eauto.
    Qed.

    Lemma split_body ps : forall ls tail,
      derender_lines w cfs ps = Ok ls ->
      Forall (fun p => ~ In NL (content p)) ps ->
      split_lines (body ls ++ tail) = body_lines ls ++ split_lines tail.
    Proof.
      induction ps as [|p ps IH]; intros ls tail E Hnl.
      - cbn in E. inversion E; subst. reflexivity.
      - destruct (derender_lines_cons p ps ls E) as ([[cl sl] used] & ls' & -> & E1 & E2).
        inversion Hnl as [|? ? Hp Hps]; subst.
        destruct (derender_line_facts p cl sl used E1) as (Hc & _ & Hs). subst cl.
        unfold body, body_lines. cbn [flat_map fst snd]. fold (body ls'). fold (body_lines ls').
        rewrite <- !app_assoc. cbn [app].
        rewrite split_lines_line by exact Hp. rewrite split_lines_line by exact Hs.
        rewrite (IH ls' tail E2 Hps). reflexivity.
    Qed.

    Lemma pair_body ps : forall ls rest,
      derender_lines w cfs ps = Ok ls ->
      pair_lines w (body_lines ls ++ rest)
      = (body_pairs ls ++ fst (pair_lines w rest), snd (pair_lines w rest)).
    Proof.
      induction ps as [|p ps IH]; intros ls rest E.
      - cbn in E. inversion E; subst. cbn. destruct (pair_lines w rest); reflexivity.
      - destruct (derender_lines_cons p ps ls E) as ([[cl sl] used] & ls' & -> & E1 & E2).
        destruct (derender_line_facts p cl sl used E1) as (_ & Hw & _).
        unfold body_lines, body_pairs. cbn [flat_map map fst snd app pair_lines].
        fold (body_lines ls'). fold (body_pairs ls').
        rewrite Hw, Z.eqb_refl. rewrite (IH ls' rest E2). reflexivity.
    Qed.

    Lemma render_body defs ps : forall ls first tb,
      derender_lines w cfs ps = Ok ls ->
      (forall p sg r, In p ps -> In sg p -> In r (snd sg) -> w r <> 0) ->
      (forall s c, cfs_lookup s cfs = Some c -> In c (flat_map (fun l : line3 => snd l) ls) ->
                   exists ats, sheet_lookup defs c = Some ats /\ style_of ats = s) ->
      BInv tb ->
      exists tb', render_pairs w defs first tb (body_pairs ls) = Ok tb' /\ BInv tb'
                  /\ flat (b_result tb') = flat (b_result tb) ++ (if first then fjoin ps else fsep ps).
    Proof.
      induction ps as [|p ps IH]; intros ls first tb E Hw Hsheet Hb.
      - cbn in E. inversion E; subst. exists tb. cbn. destruct first; cbn; rewrite app_nil_r; auto.
      - destruct (derender_lines_cons p ps ls E) as ([[cl sl] used] & ls' & -> & E1 & E2).
        unfold body_pairs. cbn [map fst snd render_pairs]. fold (body_pairs ls').
        set (tb1 := if first then tb else write_text tb (T [NL] [])).
        assert (Hb1 : BInv tb1).
        { subst tb1. destruct first; [exact Hb|]. apply write_text_inv; [exact Hb|].
          cbn. repeat split; congruence. }
        assert (Hf1 : flat (b_result tb1) = flat (b_result tb) ++ (if first then [] else [nlsep])).
        { subst tb1. destruct first; [rewrite app_nil_r; reflexivity|].
          rewrite flat_write_text. reflexivity. }
        destruct (derender_line_render defs p cl sl used E1
                    (fun sg r H H' => Hw p sg r (or_introl eq_refl) H H')
                    (fun s c H H' => Hsheet s c H (in_or_app _ _ _ (or_introl H'))) tb1 Hb1)
          as (tb2 & R2 & Hb2 & Hf2).
        rewrite R2.
        destruct (IH ls' false tb2 E2
                     (fun p' sg r H => Hw p' sg r (or_intror H))
                     (fun s c H H' => Hsheet s c H (in_or_app _ _ _ (or_intror H'))) Hb2)
          as (tb3 & R3 & Hb3 & Hf3).
        exists tb3. split; [exact R3|]. split; [exact Hb3|].
        rewrite Hf3, Hf2, Hf1. destruct first.
        + rewrite app_nil_r, fjoin_cons, <- !app_assoc. reflexivity.
        + unfold fsep at 2. cbn [flat_map]. fold (fsep ps). rewrite <- !app_assoc. reflexivity.
    Qed.
  End WithTable.
End Round.
