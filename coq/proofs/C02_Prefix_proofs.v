(* C02 — prefixes of valid programs.  The run of the parser model on a prefix
   q = p[:L] (L a rune boundary of p) agrees with the run on p until it reaches
   the cut, and from then on it only reports errors at the cut:
   - section Pre: next/peek/backup/error/slice on q and p agree before the cut;
   - section U: unary facts for any source: the error list only grows ([Ext],
     [parsers_XC]); at the end of the source every operation keeps the state
     there with all errors at the end ([EF], [parsers_EC]);
   - section R: the leaf scanners (spaces, comments, continuations, barewords,
     variable names, wildcards, single- and double-quoted strings with every
     escape form, variables) on q against p: in sync, or q at its end;
   - section RB: the same for the 18 node parsers ([parsers_RelC]); the one
     place where the run on q goes back before its end -- Form.parse looking
     past an ampersand -- is the third outcome [Amp];
   - theorem [prefix_errors_partial]. *)
From verif Require Import lib.Base lib.Utf8 lib.ListX gen.Consts model.C01_Parse model.C01
  proofs.C01_proofs proofs.C01_Utf8_proofs proofs.C01_Parse_proofs proofs.C01_Total_proofs.
From Coq Require Import Arith Lia ZArith.
Open Scope nat_scope.

(* decoding only looks at the bytes of the rune it returns (any outcome) *)
Lemma decode_app a b : snd (decode_rune (a ++ b)) <= length a -> decode_rune a = decode_rune (a ++ b).
Proof.
  destruct a as [|x0 [|x1 [|x2 [|x3 a']]]]; cbn [app length]; intros H;
  unfold decode_rune in *;
  repeat (match goal with
          | |- context [match ?x with _ => _ end] => destruct x eqn:?
          | H : context [match ?x with _ => _ end] |- _ => destruct x eqn:?
          end; cbn [snd length app] in *; try lia; try reflexivity; try congruence).
Qed.

Lemma boundary_step_le src b c : boundary src b -> boundary src c -> b < c ->
  b + snd (decode_rune (skipn b src)) <= c.
Proof.
  intros Hb Hc. induction Hc as [|c Hc IH Hlt]; intros Lt; [lia|].
  destruct (lt_eq_lt_dec b c) as [[A|A]|A].
  - specialize (IH A). lia.
  - subst. lia.
  - exfalso. destruct (decode_rune (skipn c src)) as [r w] eqn:D. cbn [snd] in *.
    assert (2 <= w) as Hw by lia.
    destruct (boundary_not_inside src c r w D Hw b Hb); lia.
Qed.

Section Pre.
Variable is_print : N -> bool.
Variable p : bytes.
Variable L : nat.
Hypothesis HB : boundary p L.
Hypothesis HL : L <= length p.
Definition cutq : bytes := firstn L p.
Notation q := cutq.

Lemma q_len : length q = L.
Proof. unfold cutq. rewrite firstn_length. lia. Qed.

Lemma skipn_q k : skipn k q = firstn (L - k) (skipn k p).
Proof. unfold cutq. destruct (le_lt_dec k L) as [A|A].
  - rewrite firstn_skipn_comm. do 2 f_equal. lia.
  - replace (L - k) with 0 by lia. cbn. apply skipn_all2. rewrite firstn_length. lia.
Qed.

Lemma firstn_q k : k <= L -> firstn k q = firstn k p.
Proof. intros H. unfold cutq. rewrite firstn_firstn. f_equal. lia. Qed.

Lemma slice_q a b : b <= L -> slice q a b = slice p a b.
Proof.
  intros H. unfold slice. rewrite skipn_q, firstn_firstn. f_equal. lia.
Qed.

Lemma decode_q k : boundary p k -> k < L ->
  decode_rune (skipn k q) = decode_rune (skipn k p).
Proof.
  intros Hk Lt. rewrite skipn_q.
  pose proof (boundary_step_le p k L Hk HB Lt) as W.
  rewrite <- (firstn_skipn (L - k) (skipn k p)) at 2.
  apply decode_app. rewrite firstn_skipn. rewrite firstn_length, skipn_length. lia.
Qed.

Notation Sp := (SI p).
Notation Sq := (SI q).

Lemma SI_bd s ps : SI s ps -> boundary s (pos ps).
Proof. intros H. apply H. Qed.

Lemma peek_agree ps : Sp ps -> pos ps < L -> peek q ps = peek p ps.
Proof.
  intros H Lt. unfold peek, C01_Parse.n. rewrite q_len.
  destruct (Nat.eqb_spec (pos ps) L); [lia|]. destruct (Nat.eqb_spec (pos ps) (length p)); [lia|].
  now rewrite (decode_q _ (SI_bd _ _ H) Lt).
Qed.

Lemma adv_agree ps : Sp ps -> pos ps < L -> adv q ps = adv p ps.
Proof.
  intros H Lt. unfold adv, next, C01_Parse.n. rewrite q_len.
  destruct (Nat.eqb_spec (pos ps) L); [lia|]. destruct (Nat.eqb_spec (pos ps) (length p)); [lia|].
  now rewrite (decode_q _ (SI_bd _ _ H) Lt).
Qed.

Lemma backup_agree ps : pos ps <= L -> backup q ps = backup p ps.
Proof. intros H. unfold backup. now rewrite (firstn_q _ H). Qed.

Lemma error_agree c ps : pos ps < L -> error q c ps = error p c ps.
Proof.
  intros H. unfold error, C01_Parse.n. rewrite q_len.
  destruct (Nat.ltb_spec (pos ps) L); [|lia]. destruct (Nat.ltb_spec (pos ps) (length p)); [|lia]. reflexivity.
Qed.

Lemma hasPrefix2_agree ps a b : pos ps + 2 <= L -> hasPrefix2 q ps a b = hasPrefix2 p ps a b.
Proof.
  intros H. unfold hasPrefix2. rewrite skipn_q.
  pose proof (skipn_length (pos ps) p) as SL.
  destruct (skipn (pos ps) p) as [|x [|y r]] eqn:E; cbn [length] in SL; try lia.
  replace (L - pos ps) with (S (S (L - pos ps - 2))) by lia. reflexivity.
Qed.

Lemma mkSep_agree a b : b <= L -> mkSep q a b = mkSep p a b.
Proof. intros H. unfold mkSep. now rewrite slice_q. Qed.

Lemma addSep_agree b ps : pos ps <= L -> addSep q b ps = addSep p b ps.
Proof. intros H. unfold addSep. destruct (Nat.ltb _ _); auto. now rewrite mkSep_agree. Qed.

Lemma finish_agree k a b ps : pos ps <= L -> finish q k a b ps = finish p k a b ps.
Proof. intros H. unfold finish. now rewrite slice_q. Qed.

End Pre.

(* ------------------------------------------------------------------------ *)
(* unary facts about a run on any source: the error list only grows; at the  *)
(* end of the source every leaf operation has a closed form                   *)
Section U.
Variable is_print : N -> bool.
Variable s : bytes.
Notation n := (length s).
Notation peek := (peek s).
Notation adv := (adv s).
Notation backup := (backup s).
Notation error := (error s).
Notation SI := (SI s).

Definition Ext (a b : pst) : Prop := exists new, errs b = new ++ errs a.

Lemma Ext_refl a : Ext a a.
Proof. now exists []. Qed.
Lemma Ext_trans a b c : Ext a b -> Ext b c -> Ext a c.
Proof. intros [x Hx] [y Hy]. exists (y ++ x). now rewrite Hy, Hx, app_assoc. Qed.
Lemma Ext_nil a b : Ext a b -> errs b = [] -> errs a = [].
Proof. intros [x Hx] H. rewrite H in Hx. symmetry in Hx. now apply app_eq_nil in Hx. Qed.

Lemma errs_adv ps : errs (adv ps) = errs ps.
Proof. unfold C01_Parse.adv, next. destruct (Nat.eqb _ _); [reflexivity|]. now destruct (decode_rune _). Qed.
Lemma errs_backup ps : errs (backup ps) = errs ps.
Proof. unfold C01_Parse.backup. destruct (overEOF ps); [|reflexivity]. now destruct (decode_last_rune _). Qed.

Lemma Ext_adv a y : Ext a y -> Ext a (adv y).
Proof. intros [x Hx]. exists x. now rewrite errs_adv. Qed.
Lemma Ext_backup a y : Ext a y -> Ext a (backup y).
Proof. intros [x Hx]. exists x. now rewrite errs_backup. Qed.
Lemma Ext_error c a y : Ext a y -> Ext a (error c y).
Proof. intros [x Hx]. eexists (_ :: x). cbn. now rewrite Hx. Qed.
Lemma Ext_errorp f t c a y : Ext a y -> Ext a (errorp f t c y).
Proof. intros [x Hx]. eexists (_ :: x). cbn. now rewrite Hx. Qed.

Ltac ext_wrap :=
  repeat first [ apply Ext_refl | assumption | apply Ext_adv | apply Ext_backup
               | apply Ext_error | apply Ext_errorp ].

Lemma commentLoop_ext fu : forall ps ps', commentLoop s fu ps = Some ps' -> Ext ps ps'.
Proof.
  induction fu as [|fu IH]; intros ps ps' E; cbn [commentLoop] in E; [discriminate|].
  destruct (_ || _); [inversion E; apply Ext_refl|].
  eapply Ext_trans; [|eapply IH; eauto]. ext_wrap.
Qed.

Lemma spacesLoop_ext fu nl : forall ps ps', spacesLoop s fu nl ps = Some ps' -> Ext ps ps'.
Proof.
  induction fu as [|fu IH]; intros ps ps' E; cbn [spacesLoop] in E; [discriminate|].
  repeat match type of E with
  | (if ?x then _ else _) = _ => destruct x
  | match ?x with Some _ => _ | None => None end = _ => destruct x eqn:C; [|discriminate]
  end;
  try (inversion E; subst; ext_wrap; fail);
  try (eapply Ext_trans; [|eapply IH; eauto]; ext_wrap; fail).
  eapply Ext_trans; [|eapply IH; eauto]. eapply Ext_trans; [|eapply commentLoop_ext; eauto]. ext_wrap.
Qed.

Lemma parseSpacesInner_ext b ps nl b' ps' : parseSpacesInner s b ps nl = Some (b', ps') -> Ext ps ps'.
Proof.
  unfold parseSpacesInner. destruct (spacesLoop _ _ _ _) eqn:E; [|discriminate].
  intros H; inversion H; subst. eapply spacesLoop_ext; eauto.
Qed.

Lemma parseSep_ext b ps sep ok b' ps' : parseSep s b ps sep = (ok, b', ps') -> Ext ps ps'.
Proof. unfold parseSep. destruct (Z.eqb _ _); intros H; inversion H; subst; ext_wrap. Qed.

Lemma expectSep_ext b ps sep c b' ps' : expectSep s b ps sep c = (b', ps') -> Ext ps ps'.
Proof.
  unfold expectSep. destruct (parseSep s b ps sep) as [[ok b1] ps1] eqn:Q.
  pose proof (parseSep_ext _ _ _ _ _ _ Q). destruct ok; intros H0; inversion H0; subst; ext_wrap.
Qed.

Lemma parseSepsLoop_ext fu : forall b ps any b' ps' any',
  parseSepsLoop s fu b ps any = Some (b', ps', any') -> Ext ps ps'.
Proof.
  induction fu as [|fu IH]; intros b ps any b' ps' any' E; cbn [parseSepsLoop] in E; [discriminate|].
  destruct (isPipelineSep _).
  - destruct (parseSep s b ps (peek ps)) as [[ok b1] ps1] eqn:Q.
    eapply Ext_trans; [eapply parseSep_ext; eauto|eapply IH; eauto].
  - destruct (_ || _).
    + destruct (parseSpaces s b ps) as [[b1 ps1]|] eqn:Q; [|discriminate].
      eapply Ext_trans; [eapply parseSpacesInner_ext; eauto|eapply IH; eauto].
    + inversion E; subst. apply Ext_refl.
Qed.

Lemma simpleLoop_ext (cond : pst -> bool) (loop : nat -> pst -> option pst) :
  (forall fu ps, loop (S fu) ps = if cond ps then loop fu (adv ps) else Some ps) ->
  (forall ps, loop 0 ps = None) ->
  forall fu ps ps', loop fu ps = Some ps' -> Ext ps ps'.
Proof.
  intros HS H0. induction fu as [|fu IH]; intros ps ps' E; [rewrite H0 in E; discriminate|].
  rewrite HS in E. destruct (cond ps).
  - eapply Ext_trans; [|eapply IH; eauto]. ext_wrap.
  - inversion E; apply Ext_refl.
Qed.

Lemma redirSignLoop_ext fu ps ps' : redirSignLoop s fu ps = Some ps' -> Ext ps ps'.
Proof. apply (simpleLoop_ext (fun ps => isRedirSign (peek ps)) (redirSignLoop s)); reflexivity. Qed.
Lemma barewordLoop_ext fu ctx ps ps' : barewordLoop is_print s fu ctx ps = Some ps' -> Ext ps ps'.
Proof. apply (simpleLoop_ext (fun ps => allowedInBareword is_print (peek ps) ctx) (fun fu => barewordLoop is_print s fu ctx)); reflexivity. Qed.
Lemma varNameLoop_ext fu ps ps' : varNameLoop is_print s fu ps = Some ps' -> Ext ps ps'.
Proof. apply (simpleLoop_ext (fun ps => allowedInVariableName is_print (peek ps)) (varNameLoop is_print s)); reflexivity. Qed.
Lemma starLoop_ext fu ps ps' : starLoop s fu ps = Some ps' -> Ext ps ps'.
Proof. apply (simpleLoop_ext (fun ps => Z.eqb (peek ps) 42) (starLoop s)); reflexivity. Qed.

Lemma singleQuotedInner_ext fu : forall ps ps', singleQuotedInner s fu ps = Some ps' -> Ext ps ps'.
Proof.
  induction fu as [|fu IH]; intros ps ps' E; cbn [singleQuotedInner] in E; [discriminate|].
  rewrite (next_adv s) in E.
  repeat match type of E with (if ?x then _ else _) = _ => destruct x end;
  try (inversion E; subst; ext_wrap; fail);
  (eapply Ext_trans; [|eapply IH; eauto]; ext_wrap).
Qed.

Lemma hexLoop_ext k : forall ps, Ext ps (hexLoop s k ps).
Proof.
  induction k as [|k IH]; intros ps; cbn [hexLoop]; [apply Ext_refl|].
  rewrite (next_adv s). destruct (isHexDigit _); [|ext_wrap].
  eapply Ext_trans; [|apply IH]. ext_wrap.
Qed.

Lemma octLoop_ext k : forall rr ps, Ext ps (snd (octLoop s k rr ps)).
Proof.
  induction k as [|k IH]; intros rr ps; cbn [octLoop]; [apply Ext_refl|].
  rewrite (next_adv s). destruct (_ || _); cbn [snd]; [ext_wrap|].
  eapply Ext_trans; [|apply IH]. ext_wrap.
Qed.

Lemma doubleQuotedInner_ext fu : forall ps ps', doubleQuotedInner s fu ps = Some ps' -> Ext ps ps'.
Proof.
  induction fu as [|fu IH]; intros ps ps' E; cbn [doubleQuotedInner] in E; [discriminate|].
  rewrite !(next_adv s) in E.
  repeat match type of E with
  | (let '(_, _) := ?x in _) = _ => let O := fresh "O" in destruct x as [rr ps3] eqn:O
  | context [if ?x then _ else _] => destruct x
  end;
  try match goal with O : octLoop s ?k ?r ?x = _ |- _ =>
        pose proof (octLoop_ext k r x) as X; rewrite O in X; cbn [snd] in X end;
  first
  [ inversion E; subst; ext_wrap; fail
  | eapply Ext_trans; [|eapply IH; eauto]; ext_wrap; fail
  | eapply Ext_trans; [|eapply IH; eauto]; (eapply Ext_trans; [|apply hexLoop_ext]); ext_wrap; fail
  | eapply Ext_trans; [|eapply IH; eauto]; (eapply Ext_trans; [|exact X]); ext_wrap; fail
  | eapply Ext_trans; [|eapply IH; eauto]; apply Ext_errorp; (eapply Ext_trans; [|exact X]); ext_wrap; fail ].
Qed.

Lemma variable_ext ps ps' : variable is_print s ps = Some ps' -> Ext ps ps'.
Proof.
  unfold variable. rewrite (next_adv s). intros E.
  repeat match type of E with context [if ?x then _ else _] => destruct x end;
  first
  [ inversion E; subst; ext_wrap; fail
  | eapply Ext_trans; [|eapply singleQuotedInner_ext; eauto]; ext_wrap; fail
  | eapply Ext_trans; [|eapply doubleQuotedInner_ext; eauto]; ext_wrap; fail
  | eapply Ext_trans; [|eapply varNameLoop_ext; eauto]; ext_wrap; fail ].
Qed.


(* ---- the error list only grows: node parsers ---- *)
Record XC (c : callees) : Prop := mkXC {
  xChunk : forall ps t ps', cChunk c ps = Some (t, ps') -> Ext ps ps';
  xChunkLoop : forall b ps b' ps', cChunkLoop c b ps = Some (b', ps') -> Ext ps ps';
  xPipeline : forall ps t ps', cPipeline c ps = Some (t, ps') -> Ext ps ps';
  xPipelineLoop : forall b ps b' ps' x, cPipelineLoop c b ps = Some (b', ps', x) -> Ext ps ps';
  xForm : forall ps t ps', cForm c ps = Some (t, ps') -> Ext ps ps';
  xFormLoop : forall b ps b' ps', cFormLoop c b ps = Some (b', ps') -> Ext ps ps';
  xRedir : forall l ps t ps', cRedir c l ps = Some (t, ps') -> Ext ps ps';
  xCompound : forall ctx ps t ps', cCompound c ctx ps = Some (t, ps') -> Ext ps ps';
  xCompoundLoop : forall ctx b ps b' ps', cCompoundLoop c ctx b ps = Some (b', ps') -> Ext ps ps';
  xIndexing : forall ctx ps t ps', cIndexing c ctx ps = Some (t, ps') -> Ext ps ps';
  xIndexingLoop : forall b ps b' ps', cIndexingLoop c b ps = Some (b', ps') -> Ext ps ps';
  xArray : forall ps t ps', cArray c ps = Some (t, ps') -> Ext ps ps';
  xArrayLoop : forall b ps b' ps', cArrayLoop c b ps = Some (b', ps') -> Ext ps ps';
  xPrimary : forall ctx ps t ps', cPrimary c ctx ps = Some (t, ps') -> Ext ps ps';
  xLbracketLoop : forall b hp he ps b' ps' x, cLbracketLoop c b hp he ps = Some (b', ps', x) -> Ext ps ps';
  xLambdaLoop : forall b ps b' ps', cLambdaLoop c b ps = Some (b', ps') -> Ext ps ps';
  xBracedLoop : forall b ps b' ps', cBracedLoop c b ps = Some (b', ps') -> Ext ps ps';
  xMapPair : forall ps t ps', cMapPair c ps = Some (t, ps') -> Ext ps ps'
}.

Lemma XC0 : XC callees0.
Proof. constructor; intros; discriminate. Qed.

Section XStep.
Variable c : callees.
Hypothesis X : XC c.

(* [Q : op x = Some (.., y)]: the fact [Ext x y] *)
Ltac ext_fact Q :=
  first
  [ pose proof (parseSpacesInner_ext _ _ _ _ _ Q)
  | pose proof (parseSepsLoop_ext _ _ _ _ _ _ _ Q)
  | pose proof (redirSignLoop_ext _ _ _ Q)
  | pose proof (barewordLoop_ext _ _ _ _ Q)
  | pose proof (starLoop_ext _ _ _ Q)
  | pose proof (singleQuotedInner_ext _ _ _ Q)
  | pose proof (doubleQuotedInner_ext _ _ _ Q)
  | pose proof (variable_ext _ _ Q)
  | pose proof (xChunk c X _ _ _ Q)
  | pose proof (xChunkLoop c X _ _ _ _ Q)
  | pose proof (xPipeline c X _ _ _ Q)
  | pose proof (xPipelineLoop c X _ _ _ _ _ Q)
  | pose proof (xForm c X _ _ _ Q)
  | pose proof (xFormLoop c X _ _ _ _ Q)
  | pose proof (xRedir c X _ _ _ _ Q)
  | pose proof (xCompound c X _ _ _ _ Q)
  | pose proof (xCompoundLoop c X _ _ _ _ _ Q)
  | pose proof (xIndexing c X _ _ _ _ Q)
  | pose proof (xIndexingLoop c X _ _ _ _ Q)
  | pose proof (xArray c X _ _ _ Q)
  | pose proof (xArrayLoop c X _ _ _ _ Q)
  | pose proof (xPrimary c X _ _ _ _ Q)
  | pose proof (xLbracketLoop c X _ _ _ _ _ _ _ Q)
  | pose proof (xLambdaLoop c X _ _ _ _ Q)
  | pose proof (xBracedLoop c X _ _ _ _ Q)
  | pose proof (xMapPair c X _ _ _ Q)
  | pose proof (parseSep_ext _ _ _ _ _ _ Q)
  | pose proof (expectSep_ext _ _ _ _ _ _ Q) ].

(* chains [Ext] facts: [Ext a y] from hypotheses [Ext _ _] and the wrappers *)
Ltac ext_chain :=
  repeat first
  [ apply Ext_refl | assumption | apply Ext_adv | apply Ext_backup | apply Ext_error | apply Ext_errorp
  | match goal with H : Ext ?x ?y |- Ext _ ?y => eapply Ext_trans; [|exact H] end ].

Ltac ext_walk E :=
  repeat match type of E with
  | context [if ?x then _ else _] => destruct x
  | context [match t_ch ?t with _ => _ end] => destruct (t_ch t)
  | match ?x with Some _ => _ | None => None end = Some _ =>
    let Q := fresh "Q" in destruct x eqn:Q; [|discriminate E];
    repeat match goal with v : (_ * _)%type |- _ => destruct v end;
    first [ ext_fact Q
          | ext_walk Q; inversion Q; subst;
            try match goal with H : expectSep _ _ _ _ _ = _ |- _ => ext_fact H end ]
  | (let '(_, _) := ?x in _) = Some _ =>
    let Q := fresh "Q" in destruct x eqn:Q;
    repeat match goal with v : (_ * _)%type |- _ => destruct v end; try ext_fact Q
  end.
Ltac ext_body E :=
  ext_walk E;
  first [ solve [inversion E; subst; ext_chain] | solve [ext_fact E; ext_chain] | idtac ].

Lemma chunk_x ps t ps' : chunk_body s c ps = Some (t, ps') -> Ext ps ps'.
Proof. intros E. unfold chunk_body, parseSeps in E. ext_body E. Qed.
Lemma chunkLoop_x b ps b' ps' : chunkLoop_body is_print s c b ps = Some (b', ps') -> Ext ps ps'.
Proof. intros E. unfold chunkLoop_body, parseSeps in E. ext_body E. Qed.
Lemma pipeline_x ps t ps' : pipeline_body s c ps = Some (t, ps') -> Ext ps ps'.
Proof. intros E. unfold pipeline_body, parseSpaces in E. ext_body E. Qed.

Lemma pipelineLoop_x b ps b' ps' x : pipelineLoop_body is_print s c b ps = Some (b', ps', x) -> Ext ps ps'.
Proof. intros E. unfold pipelineLoop_body, parseSpacesAndNewlines in E. ext_body E. Qed.
Lemma form_x ps t ps' : form_body s c ps = Some (t, ps') -> Ext ps ps'.
Proof. intros E. unfold form_body, parseSpaces in E. ext_body E. Qed.
Lemma formLoop_x b ps b' ps' : formLoop_body is_print s c b ps = Some (b', ps') -> Ext ps ps'.
Proof. intros E. unfold formLoop_body, parseSpaces in E. cbv zeta in E. ext_body E. Qed.
Lemma redir_x l ps t ps' : redir_body s c l ps = Some (t, ps') -> Ext ps ps'.
Proof. intros E. unfold redir_body, parseSpaces in E. cbv zeta in E. ext_body E. Qed.
Lemma compound_x ctx ps t ps' : compound_body s c ctx ps = Some (t, ps') -> Ext ps ps'.
Proof. intros E. unfold compound_body in E. cbv zeta in E. ext_body E. Qed.
Lemma compoundLoop_x ctx b ps b' ps' : compoundLoop_body is_print s c ctx b ps = Some (b', ps') -> Ext ps ps'.
Proof. intros E. unfold compoundLoop_body in E. ext_body E. Qed.
Lemma indexing_x ctx ps t ps' : indexing_body s c ctx ps = Some (t, ps') -> Ext ps ps'.
Proof. intros E. unfold indexing_body in E. ext_body E. Qed.
Lemma indexingLoop_x b ps b' ps' : indexingLoop_body is_print s c b ps = Some (b', ps') -> Ext ps ps'.
Proof. intros E. unfold indexingLoop_body in E. cbv zeta in E. ext_body E. Qed.
Lemma array_x ps t ps' : array_body s c ps = Some (t, ps') -> Ext ps ps'.
Proof. intros E. unfold array_body, parseSpacesAndNewlines in E. ext_body E. Qed.
Lemma arrayLoop_x b ps b' ps' : arrayLoop_body is_print s c b ps = Some (b', ps') -> Ext ps ps'.
Proof. intros E. unfold arrayLoop_body, parseSpacesAndNewlines in E. ext_body E. Qed.
Lemma primary_x ctx ps t ps' : primary_body is_print s c ctx ps = Some (t, ps') -> Ext ps ps'.
Proof. intros E. unfold primary_body, parseSpacesAndNewlines in E. cbv zeta in E. ext_body E. Qed.
Lemma lbracketLoop_x b hp he ps b' ps' x : lbracketLoop_body is_print s c b hp he ps = Some (b', ps', x) -> Ext ps ps'.
Proof. intros E. unfold lbracketLoop_body, parseSpacesAndNewlines in E. cbv zeta in E. ext_body E. Qed.
Lemma lambdaLoop_x b ps b' ps' : lambdaLoop_body is_print s c b ps = Some (b', ps') -> Ext ps ps'.
Proof. intros E. unfold lambdaLoop_body, parseSpacesAndNewlines in E. cbv zeta in E. ext_body E. Qed.
Lemma bracedLoop_x b ps b' ps' : bracedLoop_body s c b ps = Some (b', ps') -> Ext ps ps'.
Proof. intros E. unfold bracedLoop_body, parseSpacesAndNewlines in E. ext_body E. Qed.
Lemma mapPair_x ps t ps' : mapPair_body s c ps = Some (t, ps') -> Ext ps ps'.
Proof. intros E. unfold mapPair_body, parseSpacesAndNewlines in E. cbv zeta in E. ext_body E. Qed.

Lemma step_XC : XC (step is_print s c).
Proof.
  constructor; cbn [step cChunk cChunkLoop cPipeline cPipelineLoop cForm cFormLoop cRedir
    cCompound cCompoundLoop cIndexing cIndexingLoop cArray cArrayLoop cPrimary cLbracketLoop
    cLambdaLoop cBracedLoop cMapPair]; intros.
  - eapply chunk_x; eauto.
  - eapply chunkLoop_x; eauto.
  - eapply pipeline_x; eauto.
  - eapply pipelineLoop_x; eauto.
  - eapply form_x; eauto.
  - eapply formLoop_x; eauto.
  - eapply redir_x; eauto.
  - eapply compound_x; eauto.
  - eapply compoundLoop_x; eauto.
  - eapply indexing_x; eauto.
  - eapply indexingLoop_x; eauto.
  - eapply array_x; eauto.
  - eapply arrayLoop_x; eauto.
  - eapply primary_x; eauto.
  - eapply lbracketLoop_x; eauto.
  - eapply lambdaLoop_x; eauto.
  - eapply bracedLoop_x; eauto.
  - eapply mapPair_x; eauto.
Qed.

End XStep.

Lemma parsers_XC fuel : XC (parsers is_print s fuel).
Proof. induction fuel as [|f IH]; [apply XC0|]. cbn [parsers]. now apply step_XC. Qed.


(* ---- at the end of the source ---- *)
Definition atEnd (e : nat * nat * N) : Prop := fst (fst e) = n.
Definition EF (ps : pst) : Prop := SI ps /\ pos ps = n /\ Forall atEnd (errs ps).

Lemma EF_peek ps : EF ps -> peek ps = EOF.
Proof. intros [_ [H _]]. now apply peek_eof. Qed.

Lemma EF_adv ps : EF ps -> EF (adv ps).
Proof.
  intros [H [Hp He]]. destruct (adv_spec is_print s ps H) as [A _].
  split; [exact A|]. unfold C01_Parse.adv, next, C01_Parse.n in *. rewrite Hp, Nat.eqb_refl. cbn. split; auto.
Qed.

Lemma EF_error c ps : EF ps -> EF (error c ps).
Proof.
  intros [H [Hp He]]. split; [now apply (error_SI is_print)|]. split; [exact Hp|].
  cbn. constructor; auto.
Qed.

Lemma EF_backup_adv ps : EF ps -> backup (adv ps) = ps.
Proof. intros [H _]. now apply (backup_adv is_print). Qed.

Lemma eof_eqb k : (0 <= k)%Z -> Z.eqb EOF k = false.
Proof. intros H. apply Z.eqb_neq. unfold EOF, pkg_parse.eof. lia. Qed.

Lemma eof_startsPrimary ctx : startsPrimary is_print EOF ctx = false.
Proof. unfold startsPrimary. rewrite (neg_not_bareword is_print _ _ EOF_neg). reflexivity. Qed.
Lemma eof_bareword ctx : allowedInBareword is_print EOF ctx = false.
Proof. apply neg_not_bareword, EOF_neg. Qed.
Lemma eof_varname : allowedInVariableName is_print EOF = false.
Proof. apply neg_not_allowed, EOF_neg. Qed.
Lemma eof_startsForm : startsForm is_print EOF = false.
Proof. unfold startsForm, startsCompound, startsIndexing. now rewrite eof_startsPrimary. Qed.
Lemma eof_startsArray : startsArray is_print EOF = false.
Proof. unfold startsArray, startsIndexing. now rewrite eof_startsPrimary. Qed.

Lemma E_spacesLoop nl ps : EF ps -> spacesLoop s (lfuel s) nl ps = Some ps.
Proof.
  intros H. unfold lfuel. cbn [spacesLoop]. rewrite (EF_peek _ H). cbn. now rewrite andb_false_r.
Qed.
Lemma E_spaces b ps nl : EF ps -> parseSpacesInner s b ps nl = Some (addSep s b ps, ps).
Proof. intros H. unfold parseSpacesInner. now rewrite (E_spacesLoop _ _ H). Qed.
Lemma E_parseSep b ps sep : EF ps -> (0 <= sep)%Z -> parseSep s b ps sep = (false, b, ps).
Proof. intros H Hs. unfold parseSep. now rewrite (EF_peek _ H), (eof_eqb _ Hs). Qed.
Lemma E_expectSep b ps sep c : EF ps -> (0 <= sep)%Z -> expectSep s b ps sep c = (b, error c ps).
Proof. intros H Hs. unfold expectSep. now rewrite (E_parseSep _ _ _ H Hs). Qed.
Lemma E_parseSeps b ps any : EF ps -> parseSepsLoop s (lfuel s) b ps any = Some (b, ps, any).
Proof. intros H. unfold lfuel. cbn [parseSepsLoop]. now rewrite (EF_peek _ H). Qed.
Lemma E_redirSign ps : EF ps -> redirSignLoop s (lfuel s) ps = Some ps.
Proof. intros H. unfold lfuel. cbn [redirSignLoop]. now rewrite (EF_peek _ H). Qed.
Lemma E_bareword ctx ps : EF ps -> barewordLoop is_print s (lfuel s) ctx ps = Some ps.
Proof. intros H. unfold lfuel. cbn [barewordLoop]. now rewrite (EF_peek _ H), eof_bareword. Qed.
Lemma E_star ps : EF ps -> starLoop s (lfuel s) ps = Some ps.
Proof. intros H. unfold lfuel. cbn [starLoop]. now rewrite (EF_peek _ H). Qed.
Lemma E_single ps : EF ps -> singleQuotedInner s (lfuel s) ps = Some (error errStringUnterminated (adv ps)).
Proof. intros H. unfold lfuel. cbn [singleQuotedInner]. now rewrite (next_adv s), (EF_peek _ H). Qed.
Lemma E_double ps : EF ps -> doubleQuotedInner s (lfuel s) ps = Some (error errStringUnterminated (adv ps)).
Proof. intros H. unfold lfuel. cbn [doubleQuotedInner]. now rewrite (next_adv s), (EF_peek _ H). Qed.
Lemma E_hasPrefix2 ps a b : EF ps -> hasPrefix2 s ps a b = false.
Proof. intros [_ [H _]]. unfold hasPrefix2. rewrite H, skipn_all. reflexivity. Qed.

Record EC (c : callees) : Prop := mkEC {
  eChunk : forall ps t ps', EF ps -> cChunk c ps = Some (t, ps') -> EF ps';
  eChunkLoop : forall b ps b' ps', EF ps -> cChunkLoop c b ps = Some (b', ps') -> EF ps';
  ePipeline : forall ps t ps', EF ps -> cPipeline c ps = Some (t, ps') -> EF ps';
  ePipelineLoop : forall b ps b' ps' x, EF ps -> cPipelineLoop c b ps = Some (b', ps', x) -> EF ps';
  eForm : forall ps t ps', EF ps -> cForm c ps = Some (t, ps') -> EF ps';
  eFormLoop : forall b ps b' ps', EF ps -> cFormLoop c b ps = Some (b', ps') -> EF ps';
  eRedir : forall l ps t ps', EF ps -> cRedir c l ps = Some (t, ps') -> EF ps';
  eCompound : forall ctx ps t ps', EF ps -> cCompound c ctx ps = Some (t, ps') -> EF ps';
  eCompoundLoop : forall ctx b ps b' ps', EF ps -> cCompoundLoop c ctx b ps = Some (b', ps') -> EF ps';
  eIndexing : forall ctx ps t ps', EF ps -> cIndexing c ctx ps = Some (t, ps') -> EF ps';
  eIndexingLoop : forall b ps b' ps', EF ps -> cIndexingLoop c b ps = Some (b', ps') -> EF ps';
  eArray : forall ps t ps', EF ps -> cArray c ps = Some (t, ps') -> EF ps';
  eArrayLoop : forall b ps b' ps', EF ps -> cArrayLoop c b ps = Some (b', ps') -> EF ps';
  ePrimary : forall ctx ps t ps', EF ps -> cPrimary c ctx ps = Some (t, ps') -> EF ps';
  eLbracketLoop : forall b hp he ps b' ps' x, EF ps -> cLbracketLoop c b hp he ps = Some (b', ps', x) -> EF ps';
  eLambdaLoop : forall b ps b' ps', EF ps -> cLambdaLoop c b ps = Some (b', ps') -> EF ps';
  eBracedLoop : forall b ps b' ps', EF ps -> cBracedLoop c b ps = Some (b', ps') -> EF ps';
  eMapPair : forall ps t ps', EF ps -> cMapPair c ps = Some (t, ps') -> EF ps'
}.

Lemma EC0 : EC callees0.
Proof. constructor; intros; discriminate. Qed.

Section EStep.
Variable c : callees.
Hypothesis EH : EC c.

(* the fact [EF x] for a state term [x] *)
Ltac ef x :=
  lazymatch x with
  | C01_Parse.adv s ?y => let H := ef y in constr:(EF_adv y H)
  | C01_Parse.error s ?cd ?y => let H := ef y in constr:(EF_error cd y H)
  | _ => lazymatch goal with H : EF x |- _ => constr:(H) end
  end.

(* [Q : callee x = Some (.., y)] with [EF x]: the fact [EF y] *)
Ltac e_fact x Q :=
  let H := ef x in
  first
  [ pose proof (eChunk c EH _ _ _ H Q) | pose proof (eChunkLoop c EH _ _ _ _ H Q)
  | pose proof (ePipeline c EH _ _ _ H Q) | pose proof (ePipelineLoop c EH _ _ _ _ _ H Q)
  | pose proof (eForm c EH _ _ _ H Q) | pose proof (eFormLoop c EH _ _ _ _ H Q)
  | pose proof (eRedir c EH _ _ _ _ H Q) | pose proof (eCompound c EH _ _ _ _ H Q)
  | pose proof (eCompoundLoop c EH _ _ _ _ _ H Q) | pose proof (eIndexing c EH _ _ _ _ H Q)
  | pose proof (eIndexingLoop c EH _ _ _ _ H Q) | pose proof (eArray c EH _ _ _ H Q)
  | pose proof (eArrayLoop c EH _ _ _ _ H Q) | pose proof (ePrimary c EH _ _ _ _ H Q)
  | pose proof (eLbracketLoop c EH _ _ _ _ _ _ _ H Q) | pose proof (eLambdaLoop c EH _ _ _ _ H Q)
  | pose proof (eBracedLoop c EH _ _ _ _ H Q) | pose proof (eMapPair c EH _ _ _ H Q) ].

Ltac last_arg t := lazymatch t with ?f ?x => x end.

Ltac e_walk E :=
  repeat first
  [ progress (cbv beta iota in E)
  | match type of E with
    | context [C01_Parse.backup s (C01_Parse.adv s ?y)] =>
        let H := ef y in rewrite (EF_backup_adv y H) in E
    | context [C01_Parse.peek s ?x] => let H := ef x in rewrite (EF_peek x H) in E
    | context [parseSpacesInner s ?b ?x ?nl] => let H := ef x in rewrite (E_spaces b x nl H) in E
    | context [parseSep s ?b ?x ?sep] => let H := ef x in rewrite (E_parseSep b x sep H ltac:(lia)) in E
    | context [expectSep s ?b ?x ?sep ?cd] => let H := ef x in rewrite (E_expectSep b x sep cd H ltac:(lia)) in E
    | context [parseSepsLoop s (lfuel s) ?b ?x ?a] => let H := ef x in rewrite (E_parseSeps b x a H) in E
    | context [redirSignLoop s (lfuel s) ?x] => let H := ef x in rewrite (E_redirSign x H) in E
    | context [barewordLoop is_print s (lfuel s) ?ctx ?x] => let H := ef x in rewrite (E_bareword ctx x H) in E
    | context [starLoop s (lfuel s) ?x] => let H := ef x in rewrite (E_star x H) in E
    | context [singleQuotedInner s (lfuel s) ?x] => let H := ef x in rewrite (E_single x H) in E
    | context [doubleQuotedInner s (lfuel s) ?x] => let H := ef x in rewrite (E_double x H) in E
    | context [hasPrefix2 s ?x ?a ?b] => let H := ef x in rewrite (E_hasPrefix2 x a b H) in E
    | context [Z.eqb EOF ?k] => rewrite (eof_eqb k ltac:(lia)) in E
    | context [startsPrimary is_print EOF ?ctx] => rewrite (eof_startsPrimary ctx) in E
    | context [allowedInBareword is_print EOF ?ctx] => rewrite (eof_bareword ctx) in E
    | context [startsForm is_print EOF] => rewrite eof_startsForm in E
    | context [startsArray is_print EOF] => rewrite eof_startsArray in E
    | context [isRedirSign EOF] => change (isRedirSign EOF) with false in E
    | context [isBracedSep EOF] => change (isBracedSep EOF) with false in E
    | context [isPipelineSep EOF] => change (isPipelineSep EOF) with false in E
    | context [isInlineWhitespace EOF] => change (isInlineWhitespace EOF) with false in E
    | context [negb false] => change (negb false) with true in E
    | context [negb true] => change (negb true) with false in E
    | match ?f with Some _ => _ | None => None end = Some _ =>
        let x := last_arg f in
        let Q := fresh "Q" in destruct f eqn:Q; [|discriminate E];
        repeat match goal with v : (_ * _)%type |- _ => destruct v end; e_fact x Q
    | context [if ?b then _ else _] => destruct b
    | context [match t_ch ?t with _ => _ end] => destruct (t_ch t)
    end ].

Ltac e_body E :=
  e_walk E;
  first [ solve [ inversion E; subst;
                  match goal with |- EF ?x => let H := ef x in exact H end ]
        | solve [ match type of E with ?f = Some _ => let x := last_arg f in e_fact x E end; assumption ]
        | idtac ].

Lemma chunk_e ps t ps' : EF ps -> chunk_body s c ps = Some (t, ps') -> EF ps'.
Proof. intros H E. unfold chunk_body, parseSeps in E. cbv zeta in E. e_body E. Qed.
Lemma chunkLoop_e b ps b' ps' : EF ps -> chunkLoop_body is_print s c b ps = Some (b', ps') -> EF ps'.
Proof. intros H E. unfold chunkLoop_body, parseSeps, startsPipeline in E. cbv zeta in E. e_body E. Qed.
Lemma pipeline_e ps t ps' : EF ps -> pipeline_body s c ps = Some (t, ps') -> EF ps'.
Proof. intros H E. unfold pipeline_body, parseSpaces in E. cbv zeta in E. e_body E. Qed.
Lemma primary_e ctx ps t ps' : EF ps -> primary_body is_print s c ctx ps = Some (t, ps') -> EF ps'.
Proof. intros H E. unfold primary_body, parseSpacesAndNewlines in E. cbv zeta in E. e_body E. Qed.

Lemma pipelineLoop_e b ps b' ps' x : EF ps -> pipelineLoop_body is_print s c b ps = Some (b', ps', x) -> EF ps'.
Proof. intros H E. unfold pipelineLoop_body, parseSpacesAndNewlines in E. cbv zeta in E. e_body E. Qed.
Lemma form_e ps t ps' : EF ps -> form_body s c ps = Some (t, ps') -> EF ps'.
Proof. intros H E. unfold form_body, parseSpaces in E. cbv zeta in E. e_body E. Qed.
Lemma formLoop_e b ps b' ps' : EF ps -> formLoop_body is_print s c b ps = Some (b', ps') -> EF ps'.
Proof. intros H E. unfold formLoop_body, parseSpaces, startsCompound, startsIndexing in E. cbv zeta in E. e_body E. Qed.
Lemma redir_e l ps t ps' : EF ps -> redir_body s c l ps = Some (t, ps') -> EF ps'.
Proof. intros H E. unfold redir_body, parseSpaces in E. cbv zeta in E. e_body E. Qed.
Lemma compound_e ctx ps t ps' : EF ps -> compound_body s c ctx ps = Some (t, ps') -> EF ps'.
Proof. intros H E. unfold compound_body in E. cbv zeta in E. e_body E. Qed.
Lemma compoundLoop_e ctx b ps b' ps' : EF ps -> compoundLoop_body is_print s c ctx b ps = Some (b', ps') -> EF ps'.
Proof. intros H E. unfold compoundLoop_body, startsIndexing in E. cbv zeta in E. e_body E. Qed.
Lemma indexing_e ctx ps t ps' : EF ps -> indexing_body s c ctx ps = Some (t, ps') -> EF ps'.
Proof. intros H E. unfold indexing_body in E. cbv zeta in E. e_body E. Qed.
Lemma indexingLoop_e b ps b' ps' : EF ps -> indexingLoop_body is_print s c b ps = Some (b', ps') -> EF ps'.
Proof. intros H E. unfold indexingLoop_body in E. cbv zeta in E. e_body E. Qed.
Lemma array_e ps t ps' : EF ps -> array_body s c ps = Some (t, ps') -> EF ps'.
Proof. intros H E. unfold array_body, parseSpacesAndNewlines in E. cbv zeta in E. e_body E. Qed.
Lemma arrayLoop_e b ps b' ps' : EF ps -> arrayLoop_body is_print s c b ps = Some (b', ps') -> EF ps'.
Proof. intros H E. unfold arrayLoop_body, parseSpacesAndNewlines, startsCompound, startsIndexing in E. cbv zeta in E. e_body E. Qed.
Lemma lbracketLoop_e b hp he ps b' ps' x : EF ps -> lbracketLoop_body is_print s c b hp he ps = Some (b', ps', x) -> EF ps'.
Proof. intros H E. unfold lbracketLoop_body, parseSpacesAndNewlines, startsCompound, startsIndexing in E. cbv zeta in E. e_body E. Qed.
Lemma lambdaLoop_e b ps b' ps' : EF ps -> lambdaLoop_body is_print s c b ps = Some (b', ps') -> EF ps'.
Proof. intros H E. unfold lambdaLoop_body, parseSpacesAndNewlines, startsCompound, startsIndexing in E. cbv zeta in E. e_body E. Qed.
Lemma bracedLoop_e b ps b' ps' : EF ps -> bracedLoop_body s c b ps = Some (b', ps') -> EF ps'.
Proof. intros H E. unfold bracedLoop_body, parseSpacesAndNewlines in E. cbv zeta in E. e_body E. Qed.
Lemma mapPair_e ps t ps' : EF ps -> mapPair_body s c ps = Some (t, ps') -> EF ps'.
Proof. intros H E. unfold mapPair_body, parseSpacesAndNewlines in E. cbv zeta in E. e_body E. Qed.

Lemma step_EC : EC (step is_print s c).
Proof.
  constructor; cbn [step cChunk cChunkLoop cPipeline cPipelineLoop cForm cFormLoop cRedir
    cCompound cCompoundLoop cIndexing cIndexingLoop cArray cArrayLoop cPrimary cLbracketLoop
    cLambdaLoop cBracedLoop cMapPair]; intros.
  - eapply chunk_e; eauto.
  - eapply chunkLoop_e; eauto.
  - eapply pipeline_e; eauto.
  - eapply pipelineLoop_e; eauto.
  - eapply form_e; eauto.
  - eapply formLoop_e; eauto.
  - eapply redir_e; eauto.
  - eapply compound_e; eauto.
  - eapply compoundLoop_e; eauto.
  - eapply indexing_e; eauto.
  - eapply indexingLoop_e; eauto.
  - eapply array_e; eauto.
  - eapply arrayLoop_e; eauto.
  - eapply primary_e; eauto.
  - eapply lbracketLoop_e; eauto.
  - eapply lambdaLoop_e; eauto.
  - eapply bracedLoop_e; eauto.
  - eapply mapPair_e; eauto.
Qed.

End EStep.

Lemma parsers_EC fuel : EC (parsers is_print s fuel).
Proof. induction fuel as [|f IH]; [apply EC0|]. cbn [parsers]. now apply step_EC. Qed.

End U.

(* ------------------------------------------------------------------------ *)
(* more facts at the end of the source, for any fuel                          *)
Section U2.
Variable is_print : N -> bool.
Variable s : bytes.
Notation EF := (EF s).

Lemma EF_hex k : forall x, EF x -> EF (hexLoop s k x).
Proof.
  destruct k as [|k]; intros x H; cbn [hexLoop]; [exact H|].
  rewrite (next_adv s), (EF_peek s _ H). cbn.
  rewrite (EF_backup_adv is_print s _ H). now apply (EF_error is_print).
Qed.

Lemma E_oct k rr x : EF x -> EF (snd (octLoop s k rr x)) /\ fst (octLoop s k rr x) = rr.
Proof.
  intros H. destruct k as [|k]; cbn [octLoop]; [auto|].
  rewrite (next_adv s), (EF_peek s _ H). cbn.
  rewrite (EF_backup_adv is_print s _ H). split; [now apply (EF_error is_print)|reflexivity].
Qed.

Lemma E_dq_any fu x y : EF x -> doubleQuotedInner s fu x = Some y -> EF y.
Proof.
  intros H E. destruct fu as [|fu]; [discriminate|]. cbn [doubleQuotedInner] in E.
  rewrite (next_adv s), (EF_peek s _ H) in E. cbn in E. inversion E.
  apply (EF_error is_print), (EF_adv is_print), H.
Qed.
Lemma E_sq_any fu x y : EF x -> singleQuotedInner s fu x = Some y -> EF y.
Proof.
  intros H E. destruct fu as [|fu]; [discriminate|]. cbn [singleQuotedInner] in E.
  rewrite (next_adv s), (EF_peek s _ H) in E. cbn in E. inversion E.
  apply (EF_error is_print), (EF_adv is_print), H.
Qed.
Lemma E_comment_any fu x y : EF x -> commentLoop s fu x = Some y -> y = x.
Proof.
  intros H E. destruct fu as [|fu]; [discriminate|]. cbn [commentLoop] in E.
  rewrite (EF_peek s _ H) in E. cbn in E. now inversion E.
Qed.
Lemma E_spaces_any fu nl x y : EF x -> spacesLoop s fu nl x = Some y -> y = x.
Proof.
  intros H E. destruct fu as [|fu]; [discriminate|]. cbn [spacesLoop] in E.
  rewrite (EF_peek s _ H) in E. cbn in E. rewrite andb_false_r in E. now inversion E.
Qed.
Lemma E_varname_any fu x y : EF x -> varNameLoop is_print s fu x = Some y -> y = x.
Proof.
  intros H E. destruct fu as [|fu]; [discriminate|]. cbn [varNameLoop] in E.
  rewrite (EF_peek s _ H), (eof_varname is_print) in E. now inversion E.
Qed.

End U2.

(* ---- tactics for the run on q once it is at its end ---- *)
Lemma eof_hex : isHexDigit EOF = false. Proof. reflexivity. Qed.
Lemma eof_escape : isDoubleEscape EOF = false. Proof. reflexivity. Qed.

Ltac ef_of isp s x :=
  match goal with
  | H : EF s x |- _ => constr:(H)
  | _ =>
    lazymatch x with
    | C01_Parse.adv s ?y => let H := ef_of isp s y in constr:(EF_adv isp s y H)
    | C01_Parse.error s ?cd ?y => let H := ef_of isp s y in constr:(EF_error isp s cd y H)
    | hexLoop s ?k ?y => let H := ef_of isp s y in constr:(EF_hex isp s k y H)
    end
  end.

(* closes [EF s y] from [E : <rest of a string scanner's round> = Some y] *)
Ltac eleaf isp s E :=
  repeat first
  [ progress (cbv beta iota in E)
  | progress (cbn [orb andb negb] in E)
  | match type of E with
    | context [next s ?y] => rewrite (next_adv s y) in E
    | context [C01_Parse.backup s (C01_Parse.adv s ?y)] =>
        let H := ef_of isp s y in rewrite (EF_backup_adv isp s y H) in E
    | context [C01_Parse.peek s ?y] => let H := ef_of isp s y in rewrite (EF_peek s y H) in E
    | context [Z.eqb EOF ?k] => rewrite (eof_eqb k ltac:(lia)) in E
    | context [Z.ltb EOF ?k] => let v := eval vm_compute in (Z.ltb EOF k) in change (Z.ltb EOF k) with v in E
    | context [Z.ltb ?k EOF] => let v := eval vm_compute in (Z.ltb k EOF) in change (Z.ltb k EOF) with v in E
    | context [Z.leb EOF ?k] => let v := eval vm_compute in (Z.leb EOF k) in change (Z.leb EOF k) with v in E
    | context [Z.leb ?k EOF] => let v := eval vm_compute in (Z.leb k EOF) in change (Z.leb k EOF) with v in E
    | context [isHexDigit EOF] => rewrite eof_hex in E
    | context [isDoubleEscape EOF] => rewrite eof_escape in E
    | context [if ?b then _ else _] => destruct b
    end ];
  lazymatch type of E with
  | doubleQuotedInner s ?fu ?x = Some ?y => let H := ef_of isp s x in exact (E_dq_any isp s fu x y H E)
  | singleQuotedInner s ?fu ?x = Some ?y => let H := ef_of isp s x in exact (E_sq_any isp s fu x y H E)
  | varNameLoop isp s ?fu ?x = Some ?y =>
      let H := ef_of isp s x in rewrite (E_varname_any isp s fu x y H E); exact H
  | Some ?x = Some ?y => inversion E; subst; let H := ef_of isp s x in exact H
  end.

(* ---- the walk tactics of sections U, restated with explicit parameters ---- *)
Ltac gext_fact c X Q :=
  first
  [ (let H := fresh "X" in pose proof Q as H; apply parseSpacesInner_ext in H)
  | (let H := fresh "X" in pose proof Q as H; apply parseSepsLoop_ext in H)
  | (let H := fresh "X" in pose proof Q as H; apply redirSignLoop_ext in H)
  | (let H := fresh "X" in pose proof Q as H; apply barewordLoop_ext in H)
  | (let H := fresh "X" in pose proof Q as H; apply starLoop_ext in H)
  | (let H := fresh "X" in pose proof Q as H; apply singleQuotedInner_ext in H)
  | (let H := fresh "X" in pose proof Q as H; apply doubleQuotedInner_ext in H)
  | (let H := fresh "X" in pose proof Q as H; apply variable_ext in H)
  | (let H := fresh "X" in pose proof Q as H; apply parseSep_ext in H)
  | (let H := fresh "X" in pose proof Q as H; apply expectSep_ext in H)
  | (let H := fresh "X" in pose proof Q as H; apply (xChunk c X) in H)
  | (let H := fresh "X" in pose proof Q as H; apply (xChunkLoop c X) in H)
  | (let H := fresh "X" in pose proof Q as H; apply (xPipeline c X) in H)
  | (let H := fresh "X" in pose proof Q as H; apply (xPipelineLoop c X) in H)
  | (let H := fresh "X" in pose proof Q as H; apply (xForm c X) in H)
  | (let H := fresh "X" in pose proof Q as H; apply (xFormLoop c X) in H)
  | (let H := fresh "X" in pose proof Q as H; apply (xRedir c X) in H)
  | (let H := fresh "X" in pose proof Q as H; apply (xCompound c X) in H)
  | (let H := fresh "X" in pose proof Q as H; apply (xCompoundLoop c X) in H)
  | (let H := fresh "X" in pose proof Q as H; apply (xIndexing c X) in H)
  | (let H := fresh "X" in pose proof Q as H; apply (xIndexingLoop c X) in H)
  | (let H := fresh "X" in pose proof Q as H; apply (xArray c X) in H)
  | (let H := fresh "X" in pose proof Q as H; apply (xArrayLoop c X) in H)
  | (let H := fresh "X" in pose proof Q as H; apply (xPrimary c X) in H)
  | (let H := fresh "X" in pose proof Q as H; apply (xLbracketLoop c X) in H)
  | (let H := fresh "X" in pose proof Q as H; apply (xLambdaLoop c X) in H)
  | (let H := fresh "X" in pose proof Q as H; apply (xBracedLoop c X) in H)
  | (let H := fresh "X" in pose proof Q as H; apply (xMapPair c X) in H) ].

Ltac gext_chain :=
  repeat first
  [ apply Ext_refl | assumption | apply Ext_adv | apply Ext_backup | apply Ext_error | apply Ext_errorp
  | match goal with H : Ext ?x ?y |- Ext _ ?y => eapply Ext_trans; [|exact H] end ].

Ltac gext_walk c X E :=
  repeat match type of E with
  | context [if ?x then _ else _] => destruct x
  | context [match t_ch ?t with _ => _ end] => destruct (t_ch t)
  | match ?x with Some _ => _ | None => None end = Some _ =>
    let Q := fresh "Q" in destruct x eqn:Q; [|discriminate E];
    repeat match goal with v : (_ * _)%type |- _ => destruct v end;
    first [ gext_fact c X Q
          | gext_walk c X Q; inversion Q; subst;
            try match goal with H : expectSep _ _ _ _ _ = _ |- _ => gext_fact c X H end ]
  | (let '(_, _) := ?x in _) = Some _ =>
    let Q := fresh "Q" in destruct x eqn:Q;
    repeat match goal with v : (_ * _)%type |- _ => destruct v end; try gext_fact c X Q
  end.
Ltac gext_body c X E :=
  gext_walk c X E;
  first [ solve [inversion E; subst; gext_chain] | solve [gext_fact c X E; gext_chain] | idtac ].


Ltac ge_fact isp s c EH x Q :=
  let H := ef_of isp s x in
  first
  [ pose proof (eChunk s c EH _ _ _ H Q) | pose proof (eChunkLoop s c EH _ _ _ _ H Q)
  | pose proof (ePipeline s c EH _ _ _ H Q) | pose proof (ePipelineLoop s c EH _ _ _ _ _ H Q)
  | pose proof (eForm s c EH _ _ _ H Q) | pose proof (eFormLoop s c EH _ _ _ _ H Q)
  | pose proof (eRedir s c EH _ _ _ _ H Q) | pose proof (eCompound s c EH _ _ _ _ H Q)
  | pose proof (eCompoundLoop s c EH _ _ _ _ _ H Q) | pose proof (eIndexing s c EH _ _ _ _ H Q)
  | pose proof (eIndexingLoop s c EH _ _ _ _ H Q) | pose proof (eArray s c EH _ _ _ H Q)
  | pose proof (eArrayLoop s c EH _ _ _ _ H Q) | pose proof (ePrimary s c EH _ _ _ _ H Q)
  | pose proof (eLbracketLoop s c EH _ _ _ _ _ _ _ H Q) | pose proof (eLambdaLoop s c EH _ _ _ _ H Q)
  | pose proof (eBracedLoop s c EH _ _ _ _ H Q) | pose proof (eMapPair s c EH _ _ _ H Q) ].

Ltac last_arg t := lazymatch t with ?f ?x => x end.

Ltac ge_walk isp s c EH E :=
  repeat first
  [ progress (cbv beta iota in E)
  | progress (cbn [andb orb negb] in E)
  | match type of E with
    | context [C01_Parse.backup s (C01_Parse.adv s ?y)] =>
        let H := ef_of isp s y in rewrite (EF_backup_adv isp s y H) in E
    | context [C01_Parse.peek s ?x] => let H := ef_of isp s x in rewrite (EF_peek s x H) in E
    | context [parseSpacesInner s ?b ?x ?nl] => let H := ef_of isp s x in rewrite (E_spaces s b x nl H) in E
    | context [parseSep s ?b ?x ?sep] => let H := ef_of isp s x in rewrite (E_parseSep s b x sep H ltac:(lia)) in E
    | context [expectSep s ?b ?x ?sep ?cd] => let H := ef_of isp s x in rewrite (E_expectSep s b x sep cd H ltac:(lia)) in E
    | context [parseSepsLoop s (lfuel s) ?b ?x ?a] => let H := ef_of isp s x in rewrite (E_parseSeps s b x a H) in E
    | context [redirSignLoop s (lfuel s) ?x] => let H := ef_of isp s x in rewrite (E_redirSign s x H) in E
    | context [barewordLoop isp s (lfuel s) ?ctx ?x] => let H := ef_of isp s x in rewrite (E_bareword isp s ctx x H) in E
    | context [starLoop s (lfuel s) ?x] => let H := ef_of isp s x in rewrite (E_star s x H) in E
    | context [singleQuotedInner s (lfuel s) ?x] => let H := ef_of isp s x in rewrite (E_single s x H) in E
    | context [doubleQuotedInner s (lfuel s) ?x] => let H := ef_of isp s x in rewrite (E_double s x H) in E
    | context [hasPrefix2 s ?x ?a ?b] => let H := ef_of isp s x in rewrite (E_hasPrefix2 s x a b H) in E
    | context [Z.eqb EOF ?k] => rewrite (eof_eqb k ltac:(lia)) in E
    | context [startsPrimary isp EOF ?ctx] => rewrite (eof_startsPrimary isp ctx) in E
    | context [allowedInBareword isp EOF ?ctx] => rewrite (eof_bareword isp ctx) in E
    | context [startsForm isp EOF] => rewrite (eof_startsForm isp) in E
    | context [startsArray isp EOF] => rewrite (eof_startsArray isp) in E
    | context [isRedirSign EOF] => change (isRedirSign EOF) with false in E
    | context [isBracedSep EOF] => change (isBracedSep EOF) with false in E
    | context [isPipelineSep EOF] => change (isPipelineSep EOF) with false in E
    | context [isInlineWhitespace EOF] => change (isInlineWhitespace EOF) with false in E
    | context [negb false] => change (negb false) with true in E
    | context [negb true] => change (negb true) with false in E
    | context [match ?f with Some _ => _ | None => _ end] =>
        let x := last_arg f in
        let Q := fresh "Q" in destruct f eqn:Q; [|cbv beta iota in E; discriminate E];
        repeat match goal with v : (_ * _)%type |- _ => destruct v end; ge_fact isp s c EH x Q
    | context [if ?b then _ else _] => destruct b
    | context [match t_ch ?t with _ => _ end] => destruct (t_ch t)
    | context [match ?v with (_, _) => _ end] => is_var v; destruct v
    end ].

Ltac ge_body isp s c EH E :=
  ge_walk isp s c EH E;
  first [ solve [ inversion E; subst;
                  match goal with |- EF _ ?x => let H := ef_of isp s x in exact H end ]
        | solve [ match type of E with ?f = Some _ => let x := last_arg f in ge_fact isp s c EH x E end; assumption ]
        | idtac ].


(* ------------------------------------------------------------------------ *)
(* the run on a prefix q = p[:L] against the run on p                         *)
Section R.
Variable is_print : N -> bool.
Variable p : bytes.
Variable L : nat.
Hypothesis HB : boundary p L.
Hypothesis HL : L <= length p.
Notation q := (cutq p L).
Notation Sp := (SI p).
Notation Sq := (SI q).
Notation EFq := (EF q).

(* a state in which both runs are, strictly before the cut, no error so far *)
Definition Sync (x : pst) : Prop := Sp x /\ Sq x /\ pos x < L /\ errs x = [].
(* after a step: still in sync, or the run on q has reached its end *)
Definition Out (yp yq : pst) : Prop := (yq = yp /\ Sync yp) \/ EFq yq.

Lemma qlen : length q = L.
Proof. apply q_len; auto. Qed.

Lemma sync_or_eof x : Sp x -> Sq x -> pos x <= L -> errs x = [] -> Sync x \/ EFq x.
Proof.
  intros A B C D. destruct (Nat.eq_dec (pos x) L) as [E|E].
  - right. split; [exact B|]. split; [now rewrite qlen|]. rewrite D. constructor.
  - left. split; [exact A|]. split; [exact B|]. split; [lia|exact D].
Qed.

Lemma peek_sync x : Sync x -> peek q x = peek p x.
Proof. intros [A [B [C D]]]. apply peek_agree; auto. Qed.

Lemma adv_sync x : Sync x -> adv q x = adv p x /\ (Sync (adv p x) \/ EFq (adv p x)).
Proof.
  intros [A [B [C D]]]. pose proof (adv_agree p L HB HL x A C) as E. split; [exact E|].
  destruct (adv_spec is_print p x A) as [A1 [_ [_ A4]]].
  destruct (adv_spec is_print q x B) as [B1 _]. rewrite E in B1.
  apply sync_or_eof; auto.
  - pose proof (boundary_step_le p (pos x) L (SI_bd _ _ A) HB C) as W.
    unfold C01_Parse.adv, next, C01_Parse.n. destruct (Nat.eqb_spec (pos x) (length p)); [lia|].
    destruct (decode_rune (skipn (pos x) p)); cbn in *. lia.
  - now rewrite A4.
Qed.

Lemma Out_sync y : Sync y -> Out y y.
Proof. left. auto. Qed.

(* the loops of the form [if cond then loop (adv ps) else Some ps] *)
Lemma simple_rel (cp cq : pst -> bool) (lp lq : nat -> pst -> option pst) :
  (forall fu x, lp (S fu) x = if cp x then lp fu (adv p x) else Some x) -> (forall x, lp 0 x = None) ->
  (forall fu x, lq (S fu) x = if cq x then lq fu (adv q x) else Some x) -> (forall x, lq 0 x = None) ->
  (forall x, Sync x -> cq x = cp x) -> (forall x, EFq x -> cq x = false) ->
  forall fup fuq x yp yq, Sync x -> lp fup x = Some yp -> lq fuq x = Some yq -> Out yp yq.
Proof.
  intros HP HP0 HQ HQ0 HC HE. induction fup as [|fup IH]; intros fuq x yp yq S Ep Eq; [rewrite HP0 in Ep; discriminate|].
  destruct fuq as [|fuq]; [rewrite HQ0 in Eq; discriminate|].
  rewrite HP in Ep. rewrite HQ, (HC _ S) in Eq. destruct (cp x).
  - destruct (adv_sync _ S) as [A [S'|E']]; rewrite A in Eq.
    + eapply IH; eauto.
    + right. destruct fuq as [|fuq]; [rewrite HQ0 in Eq; discriminate|].
      rewrite HQ, (HE _ E') in Eq. now inversion Eq.
  - inversion Ep; inversion Eq; subst. now apply Out_sync.
Qed.

Lemma bareword_rel fup fuq ctx x yp yq : Sync x ->
  barewordLoop is_print p fup ctx x = Some yp -> barewordLoop is_print q fuq ctx x = Some yq -> Out yp yq.
Proof.
  apply (simple_rel (fun x => allowedInBareword is_print (peek p x) ctx) (fun x => allowedInBareword is_print (peek q x) ctx)
                    (fun fu => barewordLoop is_print p fu ctx) (fun fu => barewordLoop is_print q fu ctx)); try reflexivity.
  - intros y S. now rewrite (peek_sync _ S).
  - intros y E. now rewrite (EF_peek q _ E), (eof_bareword is_print).
Qed.

Lemma varname_rel fup fuq x yp yq : Sync x ->
  varNameLoop is_print p fup x = Some yp -> varNameLoop is_print q fuq x = Some yq -> Out yp yq.
Proof.
  apply (simple_rel (fun x => allowedInVariableName is_print (peek p x)) (fun x => allowedInVariableName is_print (peek q x))
                    (varNameLoop is_print p) (varNameLoop is_print q)); try reflexivity.
  - intros y S. now rewrite (peek_sync _ S).
  - intros y E. now rewrite (EF_peek q _ E), (eof_varname is_print).
Qed.

Lemma star_rel fup fuq x yp yq : Sync x ->
  starLoop p fup x = Some yp -> starLoop q fuq x = Some yq -> Out yp yq.
Proof.
  apply (simple_rel (fun x => Z.eqb (peek p x) 42) (fun x => Z.eqb (peek q x) 42) (starLoop p) (starLoop q)); try reflexivity.
  - intros y S. now rewrite (peek_sync _ S).
  - intros y E. now rewrite (EF_peek q _ E).
Qed.

Lemma redirSign_rel fup fuq x yp yq : Sync x ->
  redirSignLoop p fup x = Some yp -> redirSignLoop q fuq x = Some yq -> Out yp yq.
Proof.
  apply (simple_rel (fun x => isRedirSign (peek p x)) (fun x => isRedirSign (peek q x)) (redirSignLoop p) (redirSignLoop q)); try reflexivity.
  - intros y S. now rewrite (peek_sync _ S).
  - intros y E. now rewrite (EF_peek q _ E).
Qed.


Lemma peek_sync_nonneg x : Sync x -> (0 <= peek p x)%Z.
Proof.
  intros [A [B [C D]]]. unfold peek, C01_Parse.n. destruct (Nat.eqb_spec (pos x) (length p)); [lia|]. lia.
Qed.

Lemma peek_sync_not_eof x : Sync x -> Z.eqb (peek p x) EOF = false.
Proof. intros S. pose proof (peek_sync_nonneg _ S). apply Z.eqb_neq. unfold EOF, pkg_parse.eof. lia. Qed.

Lemma backup_adv_sync x : Sync x -> backup q (adv q x) = x /\ backup p (adv p x) = x.
Proof. intros [A [B _]]. split; now apply (backup_adv is_print). Qed.

Lemma comment_rel fup : forall fuq x yp yq, Sync x ->
  commentLoop p fup x = Some yp -> commentLoop q fuq x = Some yq -> Out yp yq.
Proof.
  induction fup as [|fup IH]; intros fuq x yp yq S Ep Eq; [discriminate|].
  destruct fuq as [|fuq]; [discriminate|]. cbn [commentLoop] in *.
  rewrite (peek_sync _ S) in Eq. destruct (_ || _).
  - inversion Ep; inversion Eq; subst. now apply Out_sync.
  - destruct (adv_sync _ S) as [A [S'|E']]; rewrite A in Eq.
    + eapply IH; eauto.
    + right. now rewrite (E_comment_any q _ _ _ E' Eq).
Qed.

Lemma spaces_rel fup nl : forall fuq x yp yq, Sync x ->
  spacesLoop p fup nl x = Some yp -> spacesLoop q fuq nl x = Some yq -> Out yp yq.
Proof.
  induction fup as [|fup IH]; intros fuq x yp yq S Ep Eq; [discriminate|].
  destruct fuq as [|fuq]; [discriminate|]. cbn [spacesLoop] in *.
  rewrite (peek_sync _ S) in Eq.
  (* one rune consumed, then the loop continues *)
  assert (forall zp zq, spacesLoop p fup nl (adv p x) = Some zp -> spacesLoop q fuq nl (adv q x) = Some zq -> Out zp zq) as Step.
  { intros zp zq Fp Fq. destruct (adv_sync _ S) as [A [S'|E']]; rewrite A in Fq.
    - eapply IH; eauto.
    - right. now rewrite (E_spaces_any q _ _ _ _ E' Fq). }
  destruct (isInlineWhitespace (peek p x)); [now apply Step|].
  destruct (nl && isWhitespace (peek p x)); [now apply Step|].
  destruct (Z.eqb (peek p x) 35).
  { destruct (commentLoop p (lfuel p) (adv p x)) as [cp|] eqn:Cp; [|discriminate].
    destruct (commentLoop q (lfuel q) (adv q x)) as [cq|] eqn:Cq; [|discriminate].
    destruct (adv_sync _ S) as [A [S'|E']]; rewrite A in Cq.
    - destruct (comment_rel _ _ _ _ _ S' Cp Cq) as [[-> S2]|E2].
      + eapply IH; eauto.
      + right. now rewrite (E_spaces_any q _ _ _ _ E2 Eq).
    - rewrite (E_comment_any q _ _ _ E' Cq) in Eq. right. now rewrite (E_spaces_any q _ _ _ _ E' Eq). }
  destruct (Z.eqb (peek p x) 94); [|inversion Ep; inversion Eq; subst; now apply Out_sync].
  destruct (adv_sync _ S) as [A [S1|E1]]; rewrite A in Eq.
  2:{ (* the caret is the last byte of q *)
      right. rewrite (EF_peek q _ E1) in Eq. cbn in Eq.
      rewrite (E_spaces_any q _ _ _ _ (EF_error is_print q _ _ E1) Eq). now apply (EF_error is_print). }
  rewrite (peek_sync _ S1) in Eq.
  assert (forall z, Sync z -> forall zp zq, spacesLoop p fup nl (adv p z) = Some zp ->
            spacesLoop q fuq nl (adv q z) = Some zq -> Out zp zq) as Step2.
  { intros z Sz zp zq Fp Fq. destruct (adv_sync _ Sz) as [Az [S'|E']]; rewrite Az in Fq.
    - eapply IH; eauto.
    - right. now rewrite (E_spaces_any q _ _ _ _ E' Fq). }
  destruct (Z.eqb (peek p (adv p x)) 13).
  { destruct (adv_sync _ S1) as [A2 [S2|E2]]; rewrite A2 in Eq.
    - rewrite (peek_sync _ S2) in Eq. destruct (Z.eqb (peek p (adv p (adv p x))) 10).
      + rewrite <- A2 in Eq. rewrite A2 in Eq. now apply (Step2 _ S2).
      + eapply IH; eauto.
    - right. rewrite (EF_peek q _ E2) in Eq. cbn in Eq. now rewrite (E_spaces_any q _ _ _ _ E2 Eq). }
  destruct (Z.eqb (peek p (adv p x)) 10); [now apply (Step2 _ S1)|].
  rewrite (peek_sync_not_eof _ S1) in *.
  destruct (backup_adv_sync _ S) as [B1 B2]. rewrite A in B1.
  inversion Ep; inversion Eq; subst. rewrite B1, B2. now apply Out_sync.
Qed.


Lemma Out_same y : Sp y -> Sq y -> pos y <= L -> errs y = [] -> Out y y.
Proof. intros A B C D. destruct (sync_or_eof y A B C D); [now left|now right]. Qed.

Lemma single_rel fup : forall fuq x yp yq, Sync x ->
  singleQuotedInner p fup x = Some yp -> errs yp = [] -> singleQuotedInner q fuq x = Some yq -> Out yp yq.
Proof.
  induction fup as [|fup IH]; intros fuq x yp yq S Ep Z Eq; [discriminate|].
  destruct fuq as [|fuq]; [discriminate|]. cbn [singleQuotedInner] in *.
  rewrite (next_adv p) in Ep. rewrite (next_adv q), (peek_sync _ S) in Eq.
  rewrite (peek_sync_not_eof _ S) in *.
  destruct (adv_sync _ S) as [A [S1|E1]]; rewrite A in Eq.
  2:{ right. destruct (Z.eqb (peek p x) 39).
      - rewrite (EF_peek q _ E1) in Eq. cbn in Eq. now inversion Eq.
      - eapply E_sq_any; eauto. }
  destruct (Z.eqb (peek p x) 39); [|eapply IH; eauto].
  rewrite (peek_sync _ S1) in Eq. destruct (Z.eqb (peek p (adv p x)) 39).
  - destruct (adv_sync _ S1) as [A2 [S2|E2]]; rewrite A2 in Eq.
    + eapply IH; eauto.
    + right. eapply E_sq_any; eauto.
  - inversion Ep; inversion Eq; subst. now apply Out_sync.
Qed.

(* hex digits: equal results, unless the run on p reports an error or the run on q reaches its end *)
Lemma hex_rel k : forall x, Sync x ->
  errs (hexLoop p k x) <> [] \/ Out (hexLoop p k x) (hexLoop q k x).
Proof.
  induction k as [|k IH]; intros x S; cbn [hexLoop]; [right; now apply Out_sync|].
  rewrite (next_adv p), (next_adv q), (peek_sync _ S).
  destruct (adv_sync _ S) as [A [S1|E1]]; rewrite A.
  - destruct (isHexDigit (peek p x)); [now apply IH|].
    left. cbn. discriminate.
  - destruct (isHexDigit (peek p x)).
    + right. right. now apply EF_hex.
    + left. cbn. discriminate.
Qed.

Ltac noerr Ep Z :=
  exfalso; let N := fresh "N" in
  pose proof (Ext_nil _ _ (doubleQuotedInner_ext _ _ _ _ Ep) Z) as N;
  rewrite ?errs_adv, ?errs_backup in N; cbn in N; discriminate N.

Lemma double_rel fup : forall fuq x yp yq, Sync x ->
  doubleQuotedInner p fup x = Some yp -> errs yp = [] -> doubleQuotedInner q fuq x = Some yq -> Out yp yq.
Proof.
  induction fup as [|fup IH]; intros fuq x yp yq S Ep Z Eq; [discriminate|].
  destruct fuq as [|fuq]; [discriminate|]. cbn [doubleQuotedInner] in *.
  rewrite (next_adv p) in Ep. rewrite (next_adv q), (peek_sync _ S) in Eq.
  rewrite (peek_sync_not_eof _ S) in *.
  assert (forall z, Sync z \/ EFq z -> doubleQuotedInner p fup z = Some yp ->
            doubleQuotedInner q fuq z = Some yq -> Out yp yq) as Cont.
  { intros z [Sz|Ez] Fp Fq; [eapply IH; eauto|right; eapply E_dq_any; eauto]. }
  destruct (adv_sync _ S) as [A [S1|E1]]; rewrite A in Eq; [|right; eleaf is_print (cutq p L) Eq].
  destruct (Z.eqb (peek p x) 34).
  { inversion Ep; inversion Eq; subst. now apply Out_sync. }
  destruct (Z.eqb (peek p x) 92); [|eapply IH; eauto].
  rewrite (next_adv p) in Ep. rewrite (next_adv q), (peek_sync _ S1) in Eq.
  destruct (backup_adv_sync _ S1) as [B1q B1p].
  destruct (adv_sync _ S1) as [A2 S2]; rewrite A2 in *.
  destruct ((peek p (adv p x) =? 99)%Z || (peek p (adv p x) =? 94)%Z).
  { destruct S2 as [S2|E2]; [|right; eleaf is_print (cutq p L) Eq].
    rewrite (next_adv p) in Ep. rewrite (next_adv q), (peek_sync _ S2) in Eq.
    destruct (backup_adv_sync _ S2) as [B2q B2p].
    destruct (adv_sync _ S2) as [A3 S3]; rewrite A3 in *. rewrite B2q in Eq. rewrite B2p in Ep.
    destruct (_ || _); [noerr Ep Z|]. now apply (Cont _ S3). }
  destruct ((peek p (adv p x) =? 120)%Z || (peek p (adv p x) =? 117)%Z || (peek p (adv p x) =? 85)%Z).
  { destruct S2 as [S2|E2]; [|right; eleaf is_print (cutq p L) Eq].
    match type of Ep with doubleQuotedInner p fup (hexLoop p ?k ?z) = _ => destruct (hex_rel k z S2) as [Bad|[[Hq Sh]|Eh]] end.
    - exfalso. apply Bad. exact (Ext_nil _ _ (doubleQuotedInner_ext _ _ _ _ Ep) Z).
    - rewrite Hq in Eq. eapply IH; eauto.
    - right. eapply E_dq_any; eauto. }
  destruct ((48 <=? peek p (adv p x))%Z && (peek p (adv p x) <=? 55)%Z) eqn:Oc.
  2:{ destruct (isDoubleEscape (peek p (adv p x))); [now apply (Cont _ S2)|].
      rewrite B1q in Eq. rewrite B1p in Ep. noerr Ep Z. }
  (* octal: up to two more digits *)
  cbn [octLoop] in Ep, Eq. rewrite !(next_adv p) in Ep. rewrite !(next_adv q) in Eq.
  destruct S2 as [S2|E2].
  2:{ right. rewrite (EF_peek q _ E2) in Eq. cbn in Eq. rewrite (EF_backup_adv is_print q _ E2) in Eq.
      destruct (Z.leb_spec (peek p (adv p x) - 48) 255); [|lia].
      refine (E_dq_any is_print (cutq p L) _ _ _ _ Eq). now apply (EF_error is_print). }
  rewrite (peek_sync _ S2) in Eq.
  destruct (backup_adv_sync _ S2) as [B2q B2p].
  destruct (adv_sync _ S2) as [A3 S3]; rewrite A3 in *.
  destruct ((peek p (adv p (adv p x)) <? 48)%Z || (55 <? peek p (adv p (adv p x)))%Z) eqn:D1.
  { rewrite B2q in Eq. rewrite B2p in Ep. destruct (Z.leb _ 255); noerr Ep Z. }
  destruct S3 as [S3|E3].
  2:{ right. rewrite (EF_peek q _ E3) in Eq. cbn in Eq. rewrite (EF_backup_adv is_print q _ E3) in Eq.
      match type of Eq with context [Z.leb ?v 255] => destruct (Z.leb_spec v 255); [|lia] end.
      refine (E_dq_any is_print (cutq p L) _ _ _ _ Eq). now apply (EF_error is_print). }
  rewrite (peek_sync _ S3) in Eq.
  destruct (backup_adv_sync _ S3) as [B3q B3p].
  destruct (adv_sync _ S3) as [A4 S4]; rewrite A4 in *.
  destruct ((peek p (adv p (adv p (adv p x))) <? 48)%Z || (55 <? peek p (adv p (adv p (adv p x))))%Z) eqn:D2.
  { rewrite B3q in Eq. rewrite B3p in Ep. destruct (Z.leb _ 255); noerr Ep Z. }
  destruct (Z.leb _ 255); [now apply (Cont _ S4)|noerr Ep Z].
Qed.


Lemma variable_rel x yp yq : Sync x ->
  variable is_print p x = Some yp -> errs yp = [] -> variable is_print q x = Some yq -> Out yp yq.
Proof.
  intros S Ep Z Eq. unfold variable in *.
  rewrite (next_adv p) in Ep. rewrite (next_adv q) in Eq.
  destruct (adv_sync _ S) as [A [S1|E1]]; rewrite A in Eq; [|right; eleaf is_print (cutq p L) Eq].
  rewrite (peek_sync _ S1) in Eq. rewrite (peek_sync_not_eof _ S1) in *.
  destruct (backup_adv_sync _ S1) as [B1q B1p].
  destruct (adv_sync _ S1) as [A2 S2]; rewrite A2 in *.
  destruct (Z.eqb (peek p (adv p x)) 39).
  { destruct S2 as [S2|E2]; [eapply single_rel; eauto|right; eleaf is_print (cutq p L) Eq]. }
  destruct (Z.eqb (peek p (adv p x)) 34).
  { destruct S2 as [S2|E2]; [eapply double_rel; eauto|right; eleaf is_print (cutq p L) Eq]. }
  destruct (_ && _).
  - (* not a variable name: both runs report it *)
    exfalso. rewrite B1p in Ep.
    pose proof (Ext_nil _ _ (varNameLoop_ext _ _ _ _ _ Ep) Z) as N. cbn in N. discriminate N.
  - destruct S2 as [S2|E2]; [eapply varname_rel; eauto|right; eleaf is_print (cutq p L) Eq].
Qed.

(* ---- separators and spaces (with the builder) ---- *)
Lemma parseSep_rel b x sep okp bp yp okq bq yq : Sync x ->
  parseSep p b x sep = (okp, bp, yp) -> parseSep q b x sep = (okq, bq, yq) ->
  (okq = okp /\ bq = bp /\ yq = yp /\ Sync yp) \/ (EFq yq).
Proof.
  intros S Ep Eq. unfold parseSep in *. rewrite (peek_sync _ S) in Eq.
  destruct (Z.eqb (peek p x) sep).
  - destruct (adv_sync _ S) as [A [S1|E1]]; rewrite A in Eq; inversion Ep; inversion Eq; subst.
    + left. repeat split; try apply S1. apply addSep_agree; auto. destruct S1 as [_ [_ [C _]]]. lia.
    + now right.
  - inversion Ep; inversion Eq; subst. left. repeat split; apply S.
Qed.

Lemma parseSpaces_rel b x nl bp yp bq yq : Sync x ->
  parseSpacesInner p b x nl = Some (bp, yp) -> parseSpacesInner q b x nl = Some (bq, yq) ->
  (bq = bp /\ yq = yp /\ Sync yp) \/ EFq yq.
Proof.
  intros S Ep Eq. unfold parseSpacesInner in *.
  destruct (spacesLoop p (lfuel p) nl x) as [zp|] eqn:Fp; [|discriminate].
  destruct (spacesLoop q (lfuel q) nl x) as [zq|] eqn:Fq; [|discriminate].
  inversion Ep; inversion Eq; subst.
  destruct (spaces_rel _ _ _ _ _ _ S Fp Fq) as [[-> S1]|E1]; [left|now right].
  split; [|split; auto]. apply addSep_agree; auto. destruct S1 as [_ [_ [C _]]]. lia.
Qed.


Lemma parseSeps_rel fup : forall fuq b x anyp bp yp ap bq yq aq, Sync x ->
  parseSepsLoop p fup b x anyp = Some (bp, yp, ap) -> parseSepsLoop q fuq b x anyp = Some (bq, yq, aq) ->
  (bq = bp /\ yq = yp /\ aq = ap /\ Sync yp) \/ EFq yq.
Proof.
  induction fup as [|fup IH]; intros fuq b x anyp bp yp ap bq yq aq S Ep Eq; [discriminate|].
  destruct fuq as [|fuq]; [discriminate|]. cbn [parseSepsLoop] in *.
  rewrite (peek_sync _ S) in Eq.
  assert (forall b' z, EFq z -> forall a, parseSepsLoop q fuq b' z a = Some (bq, yq, aq) -> EFq yq) as Fin.
  { intros b' z Ez a F. destruct fuq as [|fuq']; [discriminate|]. cbn [parseSepsLoop] in F.
    rewrite (EF_peek q _ Ez) in F. cbn in F. now inversion F; subst. }
  destruct (isPipelineSep (peek p x)).
  - destruct (parseSep p b x (peek p x)) as [[okp b1] y1] eqn:Qp.
    destruct (parseSep q b x (peek p x)) as [[okq b1'] y1'] eqn:Qq.
    destruct (parseSep_rel _ _ _ _ _ _ _ _ _ S Qp Qq) as [[-> [-> [-> S1]]]|E1].
    + eapply IH; eauto.
    + right. eapply Fin; eauto.
  - destruct (_ || _).
    + unfold parseSpaces in *.
      destruct (parseSpacesInner p b x false) as [[b1 y1]|] eqn:Qp; [|discriminate].
      destruct (parseSpacesInner q b x false) as [[b1' y1']|] eqn:Qq; [|discriminate].
      destruct (parseSpaces_rel _ _ _ _ _ _ _ S Qp Qq) as [[-> [-> S1]]|E1].
      * eapply IH; eauto.
      * right. eapply Fin; eauto.
    + inversion Ep; inversion Eq; subst. left. repeat split; apply S.
Qed.

End R.

(* ------------------------------------------------------------------------ *)
(* the node parsers: run on the prefix against run on the whole text          *)
Tactic Notation "dopt" hyp(E) "as" simple_intropattern(pt) ident(Q) :=
  match type of E with
  | match ?x with Some _ => _ | None => None end = Some _ =>
    destruct x as [pt|] eqn:Q; [|discriminate E]
  end.
Tactic Notation "dlet" hyp(E) "as" simple_intropattern(pt) ident(Q) :=
  match type of E with
  | (let '(_, _) := ?x in _) = Some _ => destruct x as pt eqn:Q
  end.

Section RB.
Variable is_print : N -> bool.
Variable p : bytes.
Variable L : nat.
Hypothesis HB : boundary p L.
Hypothesis HL : L <= length p.
Notation q := (cutq p L).
Notation Sync := (Sync p L).
Notation EFq := (EF q).
(* the ampersand is the last rune of q, and the run on q is just before it
   (Form.parse looked past it, saw the end, and backed up) *)
Definition Amp (y : pst) : Prop :=
  SI q y /\ pos y < L /\ errs y = [] /\ peek q y = 38%Z /\ EFq (adv q y).

Definition NodeRel (fp fq : pst -> option (tree * pst)) : Prop :=
  forall x tp yp tq yq, Sync x -> fp x = Some (tp, yp) -> errs yp = [] -> fq x = Some (tq, yq) ->
  (tq = tp /\ yq = yp /\ Sync yp) \/ EFq yq.
Definition LoopRel (fp fq : nb -> pst -> option (nb * pst)) : Prop :=
  forall b x bp yp bq yq, Sync x -> fp b x = Some (bp, yp) -> errs yp = [] -> fq b x = Some (bq, yq) ->
  (bq = bp /\ yq = yp /\ Sync yp) \/ EFq yq.
Definition LoopRelX {A} (fp fq : nb -> pst -> option (nb * pst * A)) : Prop :=
  forall b x bp yp ap bq yq aq, Sync x -> fp b x = Some (bp, yp, ap) -> errs yp = [] -> fq b x = Some (bq, yq, aq) ->
  (bq = bp /\ yq = yp /\ aq = ap /\ Sync yp) \/ EFq yq.

Definition NodeRel3 (fp fq : pst -> option (tree * pst)) : Prop :=
  forall x tp yp tq yq, Sync x -> fp x = Some (tp, yp) -> errs yp = [] -> fq x = Some (tq, yq) ->
  (tq = tp /\ yq = yp /\ Sync yp) \/ EFq yq \/ Amp yq.
Definition LoopRel3 (fp fq : nb -> pst -> option (nb * pst)) : Prop :=
  forall b x bp yp bq yq, Sync x -> fp b x = Some (bp, yp) -> errs yp = [] -> fq b x = Some (bq, yq) ->
  (bq = bp /\ yq = yp /\ Sync yp) \/ EFq yq \/ Amp yq.
Definition LoopRelX3 (fp fq : nb -> pst -> option (nb * pst * bool)) : Prop :=
  forall b x bp yp ap bq yq aq, Sync x -> fp b x = Some (bp, yp, ap) -> errs yp = [] -> fq b x = Some (bq, yq, aq) ->
  (bq = bp /\ yq = yp /\ aq = ap /\ Sync yp) \/ EFq yq \/ (Amp yq /\ aq = true).

Record RelC (cp cq : callees) : Prop := mkRelC {
  rChunk : NodeRel (cChunk cp) (cChunk cq);
  rChunkLoop : LoopRel (cChunkLoop cp) (cChunkLoop cq);
  rPipeline : NodeRel (cPipeline cp) (cPipeline cq);
  rPipelineLoop : LoopRelX3 (cPipelineLoop cp) (cPipelineLoop cq);
  rForm : NodeRel3 (cForm cp) (cForm cq);
  rFormLoop : LoopRel3 (cFormLoop cp) (cFormLoop cq);
  rRedir : forall l, NodeRel (cRedir cp l) (cRedir cq l);
  rCompound : forall ctx, NodeRel (cCompound cp ctx) (cCompound cq ctx);
  rCompoundLoop : forall ctx, LoopRel (cCompoundLoop cp ctx) (cCompoundLoop cq ctx);
  rIndexing : forall ctx, NodeRel (cIndexing cp ctx) (cIndexing cq ctx);
  rIndexingLoop : LoopRel (cIndexingLoop cp) (cIndexingLoop cq);
  rArray : NodeRel (cArray cp) (cArray cq);
  rArrayLoop : LoopRel (cArrayLoop cp) (cArrayLoop cq);
  rPrimary : forall ctx, NodeRel (cPrimary cp ctx) (cPrimary cq ctx);
  rLbracketLoop : forall hp he, LoopRelX (fun b x => cLbracketLoop cp b hp he x) (fun b x => cLbracketLoop cq b hp he x);
  rLambdaLoop : LoopRel (cLambdaLoop cp) (cLambdaLoop cq);
  rBracedLoop : LoopRel (cBracedLoop cp) (cBracedLoop cq);
  rMapPair : NodeRel (cMapPair cp) (cMapPair cq)
}.

Lemma RelC0 cq : RelC callees0 cq.
Proof. constructor; repeat intro; discriminate. Qed.

Section RStep.
Variable cp cq : callees.
Hypothesis Xp : XC cp.
Hypothesis EHq : EC q cq.
Hypothesis RC : RelC cp cq.
(* at an Amp state the pipeline loop of the run on q returns at once *)
Hypothesis AH : forall b y r, Amp y -> cPipelineLoop cq b y = Some r -> r = (b, y, true).

Lemma Amp_spaces b y nl : Amp y -> parseSpacesInner q b y nl = Some (addSep q b y, y).
Proof.
  intros [A [B [C [D E]]]]. unfold parseSpacesInner, lfuel. cbn [spacesLoop]. rewrite D. cbn.
  now rewrite andb_false_r.
Qed.

(* [errs y = []] for an intermediate state of the run on p: the rest of the run adds to it *)
Ltac nil_from Ep Z := eapply Ext_nil; [|exact Z]; gext_body cp Xp Ep.
(* the run on q is at its end: the rest of the body keeps it there *)
Ltac efin Eq := right; ge_body is_print (cutq p L) cq EHq Eq.
Ltac sync_pos S := destruct S as [_ [_ [? _]]]; lia.

Lemma chunk_rel : NodeRel (chunk_body p cp) (chunk_body q cq).
Proof.
  intros x tp yp tq yq S Ep Z Eq. unfold chunk_body, parseSeps in *.
  dopt Ep as [[b1 y1] a1] Qp1. dopt Eq as [[b1' y1'] a1'] Qq1.
  destruct (parseSeps_rel is_print p L HB HL _ _ _ _ _ _ _ _ _ _ _ S Qp1 Qq1) as [[-> [-> [-> S1]]]|E1]; [|efin Eq].
  dopt Ep as [b2 y2] Qp2. dopt Eq as [b2' y2'] Qq2.
  assert (errs y2 = []) as N2 by (nil_from Ep Z).
  destruct (rChunkLoop _ _ RC _ _ _ _ _ _ S1 Qp2 N2 Qq2) as [[-> [-> S2]]|E2]; [|efin Eq].
  inversion Ep; inversion Eq; subst. left. split; [|split; auto].
  apply finish_agree; auto. sync_pos S2.
Qed.


Notation psp := (parseSpaces_rel is_print p L HB HL).
Notation psep := (parseSep_rel is_print p L HB HL).
Notation psy := (peek_sync p L HB HL).

Lemma chunkLoop_rel : LoopRel (chunkLoop_body is_print p cp) (chunkLoop_body is_print q cq).
Proof.
  intros b x bp yp bq yq S Ep Z Eq. unfold chunkLoop_body, parseSeps in *.
  rewrite (psy _ S) in Eq. destruct (startsPipeline _ _).
  2:{ inversion Ep; inversion Eq; subst. left. repeat split; apply S. }
  dopt Ep as [t1 y1] Qp1. dopt Eq as [t1' y1'] Qq1.
  assert (errs y1 = []) as N1 by (nil_from Ep Z).
  destruct (rPipeline _ _ RC _ _ _ _ _ S Qp1 N1 Qq1) as [[-> [-> S1]]|E1]; [|efin Eq].
  dopt Ep as [[b2 y2] a2] Qp2. dopt Eq as [[b2' y2'] a2'] Qq2.
  destruct (parseSeps_rel is_print p L HB HL _ _ _ _ _ _ _ _ _ _ _ S1 Qp2 Qq2) as [[-> [-> [-> S2]]]|E2]; [|efin Eq].
  destruct a2.
  - eapply (rChunkLoop _ _ RC); eauto.
  - inversion Ep; inversion Eq; subst. left. repeat split; apply S2.
Qed.

Lemma pipeline_tail_amp b y tq yq : Amp y ->
  match parseSpacesInner q b y false with
  | Some (b3, ps3) =>
    if Z.eqb (peek q ps3) 38 then
      match parseSpacesInner q (addSep q b3 (adv q ps3)) (adv q ps3) false with
      | Some (b5, ps5) => Some (finish q KPipeline 1 b5 ps5, ps5)
      | None => None
      end
    else Some (finish q KPipeline 0 b3 ps3, ps3)
  | None => None
  end = Some (tq, yq) -> EFq yq.
Proof.
  intros A E. rewrite (Amp_spaces _ _ _ A) in E.
  destruct A as [A [B [C [D EA]]]]. rewrite D in E. cbn in E.
  rewrite (E_spaces q _ _ _ EA) in E. inversion E; subst. exact EA.
Qed.

Lemma pipeline_rel : NodeRel (pipeline_body p cp) (pipeline_body q cq).
Proof.
  intros x tp yp tq yq S Ep Z Eq. unfold pipeline_body, parseSpaces in *. cbv zeta in *.
  dopt Ep as [t1 y1] Qp1. dopt Eq as [t1' y1'] Qq1.
  assert (errs y1 = []) as N1 by (nil_from Ep Z).
  destruct (rForm _ _ RC _ _ _ _ _ S Qp1 N1 Qq1) as [[-> [-> S1]]|[E1|A1]]; [|efin Eq|].
  2:{ right. dopt Eq as [[b2' y2'] ok2'] Qq2. pose proof (AH _ _ _ A1 Qq2) as R. inversion R; subst.
      cbn [negb] in Eq. eapply pipeline_tail_amp; eauto. }
  dopt Ep as [[b2 y2] ok2] Qp2. dopt Eq as [[b2' y2'] ok2'] Qq2.
  assert (errs y2 = []) as N2 by (nil_from Ep Z).
  destruct (rPipelineLoop _ _ RC _ _ _ _ _ _ _ _ S1 Qp2 N2 Qq2) as [[-> [-> [-> S2]]]|[E2|[A2 ->]]]; [|efin Eq|].
  2:{ right. cbn [negb] in Eq. eapply pipeline_tail_amp; eauto. }
  destruct (negb ok2).
  { inversion Ep; inversion Eq; subst. left. split; [|split; auto]. apply finish_agree; auto. sync_pos S2. }
  dopt Ep as [b3 y3] Qp3. dopt Eq as [b3' y3'] Qq3.
  destruct (psp _ _ _ _ _ _ _ S2 Qp3 Qq3) as [[-> [-> S3]]|E3]; [|efin Eq].
  rewrite (psy _ S3) in Eq. destruct (Z.eqb (peek p y3) 38).
  - destruct (adv_sync is_print p L HB HL _ S3) as [A [S4|E4]]; rewrite A in Eq; [|efin Eq].
    rewrite (addSep_agree p L HL) in Eq by (sync_pos S4).
    dopt Ep as [b5 y5] Qp5. dopt Eq as [b5' y5'] Qq5.
    destruct (psp _ _ _ _ _ _ _ S4 Qp5 Qq5) as [[-> [-> S5]]|E5]; [|efin Eq].
    inversion Ep; inversion Eq; subst. left. split; [|split; auto]. apply finish_agree; auto. sync_pos S5.
  - inversion Ep; inversion Eq; subst. left. split; [|split; auto]. apply finish_agree; auto. sync_pos S3.
Qed.

Lemma pipelineLoop_rel : LoopRelX3 (pipelineLoop_body is_print p cp) (pipelineLoop_body is_print q cq).
Proof.
  intros b x bp yp ap bq yq aq S Ep Z Eq. unfold pipelineLoop_body, parseSpacesAndNewlines in *.
  dlet Ep as [[ok1 b1] y1] Qp1. dlet Eq as [[ok1' b1'] y1'] Qq1.
  destruct (psep _ _ _ _ _ _ _ _ _ S Qp1 Qq1) as [[-> [-> [-> S1]]]|E1].
  2:{ right. left. unfold parseSep in Qq1. destruct (Z.eqb (peek q x) 124); inversion Qq1; subst.
      - cbn [negb] in Eq. ge_body is_print (cutq p L) cq EHq Eq.
      - destruct S as [_ [B [C _]]]. destruct E1 as [_ [E1 _]]. rewrite (q_len p L HL) in E1. lia. }
  destruct (negb ok1).
  { inversion Ep; inversion Eq; subst. left. split; [reflexivity|]. split; [reflexivity|]. split; [reflexivity|exact S]. }
  dopt Ep as [b2 y2] Qp2. dopt Eq as [b2' y2'] Qq2.
  destruct (psp _ _ _ _ _ _ _ S1 Qp2 Qq2) as [[-> [-> S2]]|E2]; [|right; left; ge_body is_print (cutq p L) cq EHq Eq].
  rewrite (psy _ S2) in Eq. destruct (negb _).
  { exfalso. inversion Ep; subst. cbn in Z. discriminate. }
  dopt Ep as [t3 y3] Qp3. dopt Eq as [t3' y3'] Qq3.
  assert (errs y3 = []) as N3 by (nil_from Ep Z).
  destruct (rForm _ _ RC _ _ _ _ _ S2 Qp3 N3 Qq3) as [[-> [-> S3]]|[E3|A3]]; [|right; left; ge_body is_print (cutq p L) cq EHq Eq|].
  - eapply (rPipelineLoop _ _ RC); eauto.
  - right. right. pose proof (AH _ _ _ A3 Eq) as R. inversion R; subst. auto.
Qed.

Lemma form_rel : NodeRel3 (form_body p cp) (form_body q cq).
Proof.
  intros x tp yp tq yq S Ep Z Eq. unfold form_body, parseSpaces in *.
  dopt Ep as [t1 y1] Qp1. dopt Eq as [t1' y1'] Qq1.
  assert (errs y1 = []) as N1 by (nil_from Ep Z).
  destruct (rCompound _ _ RC _ _ _ _ _ _ S Qp1 N1 Qq1) as [[-> [-> S1]]|E1]; [|right; left; ge_body is_print (cutq p L) cq EHq Eq].
  dopt Ep as [b2 y2] Qp2. dopt Eq as [b2' y2'] Qq2.
  destruct (psp _ _ _ _ _ _ _ S1 Qp2 Qq2) as [[-> [-> S2]]|E2]; [|right; left; ge_body is_print (cutq p L) cq EHq Eq].
  dopt Ep as [b3 y3] Qp3. dopt Eq as [b3' y3'] Qq3.
  assert (errs y3 = []) as N3 by (nil_from Ep Z).
  destruct (rFormLoop _ _ RC _ _ _ _ _ _ S2 Qp3 N3 Qq3) as [[-> [-> S3]]|[E3|A3]]; [|right; left; ge_body is_print (cutq p L) cq EHq Eq|].
  - inversion Ep; inversion Eq; subst. left. split; [|split; auto]. apply finish_agree; auto. sync_pos S3.
  - right. right. inversion Eq; subst. exact A3.
Qed.

Ltac keep S := left; split; [reflexivity|]; split; [reflexivity|exact S].

Lemma formLoop_rel : LoopRel3 (formLoop_body is_print p cp) (formLoop_body is_print q cq).
Proof.
  intros b x bp yp bq yq S Ep Z Eq. unfold formLoop_body, parseSpaces in *. cbv zeta in *.
  rewrite (psy _ S) in Eq.
  destruct (Z.eqb (peek p x) 38) eqn:P38.
  { destruct (backup_adv_sync is_print p L _ S) as [Bq Bp].
    destruct (adv_sync is_print p L HB HL _ S) as [A [S1|E1]].
    - rewrite A in Eq. rewrite A in Bq. rewrite (psy _ S1), Bq in Eq. rewrite Bp in Ep.
      destruct (negb _); [inversion Ep; inversion Eq; subst; keep S|].
      dopt Ep as [t1 y1] Qp1. dopt Eq as [t1' y1'] Qq1.
      assert (errs y1 = []) as N1 by (nil_from Ep Z).
      destruct (rMapPair _ _ RC _ _ _ _ _ S Qp1 N1 Qq1) as [[-> [-> S2]]|E2]; [|right; left; ge_body is_print (cutq p L) cq EHq Eq].
      dopt Ep as [b3 y3] Qp3. dopt Eq as [b3' y3'] Qq3.
      destruct (psp _ _ _ _ _ _ _ S2 Qp3 Qq3) as [[-> [-> S3]]|E3]; [|right; left; ge_body is_print (cutq p L) cq EHq Eq].
      eapply (rFormLoop _ _ RC); eauto.
    - (* the ampersand is the last rune of q: the run on q takes it for a background sign *)
      right. right. rewrite <- A in E1. rewrite (EF_peek q _ E1) in Eq.
      unfold startsCompound, startsIndexing in Eq. rewrite (eof_startsPrimary is_print) in Eq. cbn [negb] in Eq.
      rewrite Bq in Eq. inversion Eq; subst.
      split; [apply S|]. split; [sync_pos S|]. split; [apply S|]. split; [|exact E1].
      rewrite (psy _ S). now apply Z.eqb_eq. }
  destruct (startsCompound is_print (peek p x) NormalExpr).
  { dopt Ep as [cn y1] Qp1. dopt Eq as [cn' y1'] Qq1.
    assert (errs y1 = []) as N1 by (nil_from Ep Z).
    destruct (rCompound _ _ RC _ _ _ _ _ _ S Qp1 N1 Qq1) as [[-> [-> S1]]|E1]; [|right; left; ge_body is_print (cutq p L) cq EHq Eq].
    rewrite (psy _ S1) in Eq. destruct (isRedirSign (peek p y1)).
    - dopt Ep as [t2 y2] Qp2. dopt Eq as [t2' y2'] Qq2.
      assert (errs y2 = []) as N2 by (nil_from Ep Z).
      destruct (rRedir _ _ RC _ _ _ _ _ _ S1 Qp2 N2 Qq2) as [[-> [-> S2]]|E2]; [|right; left; ge_body is_print (cutq p L) cq EHq Eq].
      dopt Ep as [b3 y3] Qp3. dopt Eq as [b3' y3'] Qq3.
      destruct (psp _ _ _ _ _ _ _ S2 Qp3 Qq3) as [[-> [-> S3]]|E3]; [|right; left; ge_body is_print (cutq p L) cq EHq Eq].
      eapply (rFormLoop _ _ RC); eauto.
    - dopt Ep as [b3 y3] Qp3. dopt Eq as [b3' y3'] Qq3.
      destruct (psp _ _ _ _ _ _ _ S1 Qp3 Qq3) as [[-> [-> S3]]|E3]; [|right; left; ge_body is_print (cutq p L) cq EHq Eq].
      eapply (rFormLoop _ _ RC); eauto. }
  destruct (isRedirSign (peek p x)); [|inversion Ep; inversion Eq; subst; keep S].
  dopt Ep as [t2 y2] Qp2. dopt Eq as [t2' y2'] Qq2.
  assert (errs y2 = []) as N2 by (nil_from Ep Z).
  destruct (rRedir _ _ RC _ _ _ _ _ _ S Qp2 N2 Qq2) as [[-> [-> S2]]|E2]; [|right; left; ge_body is_print (cutq p L) cq EHq Eq].
  dopt Ep as [b3 y3] Qp3. dopt Eq as [b3' y3'] Qq3.
  destruct (psp _ _ _ _ _ _ _ S2 Qp3 Qq3) as [[-> [-> S3]]|E3]; [|right; left; ge_body is_print (cutq p L) cq EHq Eq].
  eapply (rFormLoop _ _ RC); eauto.
Qed.

Lemma compoundLoop_rel ctx : LoopRel (compoundLoop_body is_print p cp ctx) (compoundLoop_body is_print q cq ctx).
Proof.
  intros b x bp yp bq yq S Ep Z Eq. unfold compoundLoop_body in *.
  rewrite (psy _ S) in Eq. destruct (startsIndexing _ _ _); [|inversion Ep; inversion Eq; subst; keep S].
  dopt Ep as [t1 y1] Qp1. dopt Eq as [t1' y1'] Qq1.
  assert (errs y1 = []) as N1 by (nil_from Ep Z).
  destruct (rIndexing _ _ RC _ _ _ _ _ _ S Qp1 N1 Qq1) as [[-> [-> S1]]|E1]; [|efin Eq].
  eapply (rCompoundLoop _ _ RC); eauto.
Qed.

Lemma indexing_rel ctx : NodeRel (indexing_body p cp ctx) (indexing_body q cq ctx).
Proof.
  intros x tp yp tq yq S Ep Z Eq. unfold indexing_body in *.
  dopt Ep as [t1 y1] Qp1. dopt Eq as [t1' y1'] Qq1.
  assert (errs y1 = []) as N1 by (nil_from Ep Z).
  destruct (rPrimary _ _ RC _ _ _ _ _ _ S Qp1 N1 Qq1) as [[-> [-> S1]]|E1]; [|efin Eq].
  dopt Ep as [b2 y2] Qp2. dopt Eq as [b2' y2'] Qq2.
  assert (errs y2 = []) as N2 by (nil_from Ep Z).
  destruct (rIndexingLoop _ _ RC _ _ _ _ _ _ S1 Qp2 N2 Qq2) as [[-> [-> S2]]|E2]; [|efin Eq].
  inversion Ep; inversion Eq; subst. left. split; [|split; auto]. apply finish_agree; auto. sync_pos S2.
Qed.

Lemma array_rel : NodeRel (array_body p cp) (array_body q cq).
Proof.
  intros x tp yp tq yq S Ep Z Eq. unfold array_body, parseSpacesAndNewlines in *.
  dopt Ep as [b1 y1] Qp1. dopt Eq as [b1' y1'] Qq1.
  destruct (psp _ _ _ _ _ _ _ S Qp1 Qq1) as [[-> [-> S1]]|E1]; [|efin Eq].
  dopt Ep as [b2 y2] Qp2. dopt Eq as [b2' y2'] Qq2.
  assert (errs y2 = []) as N2 by (nil_from Ep Z).
  destruct (rArrayLoop _ _ RC _ _ _ _ _ _ S1 Qp2 N2 Qq2) as [[-> [-> S2]]|E2]; [|efin Eq].
  inversion Ep; inversion Eq; subst. left. split; [|split; auto]. apply finish_agree; auto. sync_pos S2.
Qed.

Lemma arrayLoop_rel : LoopRel (arrayLoop_body is_print p cp) (arrayLoop_body is_print q cq).
Proof.
  intros b x bp yp bq yq S Ep Z Eq. unfold arrayLoop_body, parseSpacesAndNewlines in *.
  rewrite (psy _ S) in Eq. destruct (startsCompound _ _ _); [|inversion Ep; inversion Eq; subst; keep S].
  dopt Ep as [t1 y1] Qp1. dopt Eq as [t1' y1'] Qq1.
  assert (errs y1 = []) as N1 by (nil_from Ep Z).
  destruct (rCompound _ _ RC _ _ _ _ _ _ S Qp1 N1 Qq1) as [[-> [-> S1]]|E1]; [|efin Eq].
  dopt Ep as [b2 y2] Qp2. dopt Eq as [b2' y2'] Qq2.
  destruct (psp _ _ _ _ _ _ _ S1 Qp2 Qq2) as [[-> [-> S2]]|E2]; [|efin Eq].
  eapply (rArrayLoop _ _ RC); eauto.
Qed.

Lemma lambdaLoop_rel : LoopRel (lambdaLoop_body is_print p cp) (lambdaLoop_body is_print q cq).
Proof.
  intros b x bp yp bq yq S Ep Z Eq. unfold lambdaLoop_body, parseSpacesAndNewlines in *. cbv zeta in *.
  rewrite (psy _ S) in Eq.
  destruct (Z.eqb (peek p x) 38).
  { dopt Ep as [t1 y1] Qp1. dopt Eq as [t1' y1'] Qq1.
    assert (errs y1 = []) as N1 by (nil_from Ep Z).
    destruct (rMapPair _ _ RC _ _ _ _ _ S Qp1 N1 Qq1) as [[-> [-> S1]]|E1]; [|efin Eq].
    dopt Ep as [b2 y2] Qp2. dopt Eq as [b2' y2'] Qq2.
    destruct (psp _ _ _ _ _ _ _ S1 Qp2 Qq2) as [[-> [-> S2]]|E2]; [|efin Eq].
    eapply (rLambdaLoop _ _ RC); eauto. }
  destruct (startsCompound _ _ _); [|inversion Ep; inversion Eq; subst; keep S].
  dopt Ep as [t1 y1] Qp1. dopt Eq as [t1' y1'] Qq1.
  assert (errs y1 = []) as N1 by (nil_from Ep Z).
  destruct (rCompound _ _ RC _ _ _ _ _ _ S Qp1 N1 Qq1) as [[-> [-> S1]]|E1]; [|efin Eq].
  dopt Ep as [b2 y2] Qp2. dopt Eq as [b2' y2'] Qq2.
  destruct (psp _ _ _ _ _ _ _ S1 Qp2 Qq2) as [[-> [-> S2]]|E2]; [|efin Eq].
  eapply (rLambdaLoop _ _ RC); eauto.
Qed.

Lemma lbracketLoop_rel hp he : LoopRelX (fun b x => lbracketLoop_body is_print p cp b hp he x) (fun b x => lbracketLoop_body is_print q cq b hp he x).
Proof.
  intros b x bp yp ap bq yq aq S Ep Z Eq. unfold lbracketLoop_body, parseSpacesAndNewlines, startsCompound, startsIndexing in *. cbv zeta in *.
  rewrite (psy _ S) in Eq.
  destruct (Z.eqb (peek p x) 38).
  { destruct (backup_adv_sync is_print p L _ S) as [Bq Bp].
    destruct (adv_sync is_print p L HB HL _ S) as [A [S1|E1]]; rewrite A in *; [|efin Eq].
    rewrite (psy _ S1) in Eq. destruct (negb _).
    - rewrite (addSep_agree p L HL) in Eq by (sync_pos S1).
      dopt Ep as [b2 y2] Qp2. dopt Eq as [b2' y2'] Qq2.
      destruct (psp _ _ _ _ _ _ _ S1 Qp2 Qq2) as [[-> [-> S2]]|E2]; [|efin Eq].
      inversion Ep; inversion Eq; subst. left. split; [reflexivity|]. split; [reflexivity|]. split; [reflexivity|exact S2].
    - rewrite Bq in Eq. rewrite Bp in Ep.
      dopt Ep as [t3 y3] Qp3. dopt Eq as [t3' y3'] Qq3.
      assert (errs y3 = []) as N3 by (nil_from Ep Z).
      destruct (rMapPair _ _ RC _ _ _ _ _ S Qp3 N3 Qq3) as [[-> [-> S3]]|E3]; [|efin Eq].
      dopt Ep as [b4 y4] Qp4. dopt Eq as [b4' y4'] Qq4.
      destruct (psp _ _ _ _ _ _ _ S3 Qp4 Qq4) as [[-> [-> S4]]|E4]; [|efin Eq].
      eapply (rLbracketLoop _ _ RC); eauto. }
  destruct (startsPrimary is_print (peek p x) NormalExpr).
  2:{ inversion Ep; inversion Eq; subst. left. split; [reflexivity|]. split; [reflexivity|]. split; [reflexivity|exact S]. }
  dopt Ep as [t1 y1] Qp1. dopt Eq as [t1' y1'] Qq1.
  assert (errs y1 = []) as N1 by (nil_from Ep Z).
  destruct (rCompound _ _ RC _ _ _ _ _ _ S Qp1 N1 Qq1) as [[-> [-> S1]]|E1]; [|efin Eq].
  dopt Ep as [b2 y2] Qp2. dopt Eq as [b2' y2'] Qq2.
  destruct (psp _ _ _ _ _ _ _ S1 Qp2 Qq2) as [[-> [-> S2]]|E2]; [|efin Eq].
  eapply (rLbracketLoop _ _ RC); eauto.
Qed.

Notation asy := (adv_sync is_print p L HB HL).
Notation qlen' := (q_len p L HL).

Lemma error_sync_agree c x : Sync x -> error q c x = error p c x.
Proof. intros S. apply error_agree; auto. destruct S as [_ [_ [C _]]]. exact C. Qed.

Lemma indexingLoop_rel : LoopRel (indexingLoop_body is_print p cp) (indexingLoop_body is_print q cq).
Proof.
  intros b x bp yp bq yq S Ep Z Eq. unfold indexingLoop_body in *. cbv zeta in *.
  dlet Ep as [[ok1 b1] y1] Qp1. dlet Eq as [[ok1' b1'] y1'] Qq1.
  destruct (psep _ _ _ _ _ _ _ _ _ S Qp1 Qq1) as [[-> [-> [-> S1]]]|E1].
  2:{ right. unfold parseSep in Qq1. destruct (Z.eqb (peek q x) 91); inversion Qq1; subst.
      - cbn [negb] in Eq. ge_body is_print (cutq p L) cq EHq Eq.
      - destruct S as [_ [B [C _]]]. destruct E1 as [_ [E1 _]]. rewrite qlen' in E1. lia. }
  destruct (negb ok1); [inversion Ep; inversion Eq; subst; keep S|].
  rewrite (psy _ S1) in Eq.
  destruct (negb (startsArray is_print (peek p y1)) && negb (peek p y1 =? 93)%Z).
  { exfalso. dopt Ep as [t3 y3] Qp3.
    assert (errs (error p errShouldBeArray y1) = []) as N.
    { eapply Ext_nil; [eapply (xArray _ Xp); exact Qp3|]. nil_from Ep Z. }
    cbn in N. discriminate. }
  dopt Ep as [t3 y3] Qp3. dopt Eq as [t3' y3'] Qq3.
  assert (errs y3 = []) as N3 by (nil_from Ep Z).
  destruct (rArray _ _ RC _ _ _ _ _ S1 Qp3 N3 Qq3) as [[-> [-> S3]]|E3]; [|efin Eq].
  dlet Ep as [[ok4 b4] y4] Qp4. dlet Eq as [[ok4' b4'] y4'] Qq4.
  destruct (psep _ _ _ _ _ _ _ _ _ S3 Qp4 Qq4) as [[-> [-> [-> S4]]]|E4].
  2:{ right. unfold parseSep in Qq4. destruct (Z.eqb (peek q y3) 93); inversion Qq4; subst.
      - cbn [negb] in Eq. ge_body is_print (cutq p L) cq EHq Eq.
      - destruct S3 as [_ [B [C _]]]. destruct E4 as [_ [E4 _]]. rewrite qlen' in E4. lia. }
  destruct (negb ok4).
  { exfalso. inversion Ep; subst. cbn in Z. discriminate. }
  eapply (rIndexingLoop _ _ RC); eauto.
Qed.

Lemma compound_rel ctx : NodeRel (compound_body p cp ctx) (compound_body q cq ctx).
Proof.
  intros x tp yp tq yq S Ep Z Eq. unfold compound_body in *. cbv zeta in *.
  rewrite (psy _ S) in Eq. destruct (Z.eqb (peek p x) 126).
  - destruct (asy _ S) as [A [S1|E1]]; rewrite A in Eq; [|efin Eq].
    dopt Ep as [b2 y2] Qp2. dopt Eq as [b2' y2'] Qq2.
    assert (errs y2 = []) as N2 by (nil_from Ep Z).
    destruct (rCompoundLoop _ _ RC _ _ _ _ _ _ _ S1 Qp2 N2 Qq2) as [[-> [-> S2]]|E2]; [|efin Eq].
    inversion Ep; inversion Eq; subst. left. split; [|split; auto]. apply finish_agree; auto. sync_pos S2.
  - dopt Ep as [b2 y2] Qp2. dopt Eq as [b2' y2'] Qq2.
    assert (errs y2 = []) as N2 by (nil_from Ep Z).
    destruct (rCompoundLoop _ _ RC _ _ _ _ _ _ _ S Qp2 N2 Qq2) as [[-> [-> S2]]|E2]; [|efin Eq].
    inversion Ep; inversion Eq; subst. left. split; [|split; auto]. apply finish_agree; auto. sync_pos S2.
Qed.

Lemma mapPair_rel : NodeRel (mapPair_body p cp) (mapPair_body q cq).
Proof.
  intros x tp yp tq yq S Ep Z Eq. unfold mapPair_body, parseSpacesAndNewlines in *. cbv zeta in *.
  dlet Ep as [[ok1 b1] y1] Qp1. dlet Eq as [[ok1' b1'] y1'] Qq1.
  destruct (psep _ _ _ _ _ _ _ _ _ S Qp1 Qq1) as [[-> [-> [-> S1]]]|E1]; [|efin Eq].
  dopt Ep as [k2 y2] Qp2. dopt Eq as [k2' y2'] Qq2.
  assert (errs y2 = []) as N2.
  { destruct (t_ch k2) eqn:Tk in Ep.
    - exfalso. dlet Ep as [[e4 b4] y4] Qp4.
      assert (errs (error p errShouldBeCompound y2) = []) as N.
      { eapply Ext_nil; [eapply parseSep_ext; eauto|]. destruct e4; [|inversion Ep; subst; exact Z].
        dopt Ep as [b5 y5] Qp5. dopt Ep as [v6 y6] Qp6. inversion Ep; subst.
        eapply Ext_nil; [eapply parseSpacesInner_ext; eauto|]. eapply Ext_nil; [eapply (xCompound _ Xp); eauto|]. exact Z. }
      cbn in N. discriminate.
    - nil_from Ep Z. }
  destruct (rCompound _ _ RC _ _ _ _ _ _ S1 Qp2 N2 Qq2) as [[-> [-> S2]]|E2]; [|efin Eq].
  destruct (t_ch k2).
  { exfalso. dlet Ep as [[e4 b4] y4] Qp4.
    assert (errs (error p errShouldBeCompound y2) = []) as N.
    { eapply Ext_nil; [eapply parseSep_ext; eauto|]. destruct e4; [|inversion Ep; subst; exact Z].
      dopt Ep as [b5 y5] Qp5. dopt Ep as [v6 y6] Qp6. inversion Ep; subst.
      eapply Ext_nil; [eapply parseSpacesInner_ext; eauto|]. eapply Ext_nil; [eapply (xCompound _ Xp); eauto|]. exact Z. }
    cbn in N. discriminate. }
  dlet Ep as [[e4 b4] y4] Qp4. dlet Eq as [[e4' b4'] y4'] Qq4.
  destruct (psep _ _ _ _ _ _ _ _ _ S2 Qp4 Qq4) as [[-> [-> [-> S4]]]|E4]; [|efin Eq].
  destruct e4.
  - dopt Ep as [b5 y5] Qp5. dopt Eq as [b5' y5'] Qq5.
    destruct (psp _ _ _ _ _ _ _ S4 Qp5 Qq5) as [[-> [-> S5]]|E5]; [|efin Eq].
    dopt Ep as [v6 y6] Qp6. dopt Eq as [v6' y6'] Qq6.
    assert (errs y6 = []) as N6 by (nil_from Ep Z).
    destruct (rCompound _ _ RC _ _ _ _ _ _ S5 Qp6 N6 Qq6) as [[-> [-> S6]]|E6]; [|efin Eq].
    inversion Ep; inversion Eq; subst. left. split; [|split; auto]. apply finish_agree; auto. sync_pos S6.
  - inversion Ep; inversion Eq; subst. left. split; [|split; auto]. apply finish_agree; auto. sync_pos S4.
Qed.

Lemma bracedLoop_rel : LoopRel (bracedLoop_body p cp) (bracedLoop_body q cq).
Proof.
  intros b x bp yp bq yq S Ep Z Eq. unfold bracedLoop_body, parseSpacesAndNewlines in *.
  rewrite (psy _ S) in Eq. destruct (isBracedSep _); [|inversion Ep; inversion Eq; subst; keep S].
  dopt Ep as [b1 y1] Qp1. dopt Eq as [b1' y1'] Qq1.
  destruct (psp _ _ _ _ _ _ _ S Qp1 Qq1) as [[-> [-> S1]]|E1]; [|efin Eq].
  dlet Ep as [[ok2 b2] y2] Qp2. dlet Eq as [[ok2' b2'] y2'] Qq2.
  destruct (psep _ _ _ _ _ _ _ _ _ S1 Qp2 Qq2) as [[-> [-> [-> S2]]]|E2]; [|efin Eq].
  dopt Ep as [b3 y3] Qp3. dopt Eq as [b3' y3'] Qq3.
  destruct (psp _ _ _ _ _ _ _ S2 Qp3 Qq3) as [[-> [-> S3]]|E3]; [|efin Eq].
  dopt Ep as [t4 y4] Qp4. dopt Eq as [t4' y4'] Qq4.
  assert (errs y4 = []) as N4 by (nil_from Ep Z).
  destruct (rCompound _ _ RC _ _ _ _ _ _ S3 Qp4 N4 Qq4) as [[-> [-> S4]]|E4]; [|efin Eq].
  eapply (rBracedLoop _ _ RC); eauto.
Qed.

Lemma redir_rel l : NodeRel (redir_body p cp l) (redir_body q cq l).
Proof.
  intros x tp yp tq yq S Ep Z Eq. unfold redir_body, parseSpaces in *. cbv zeta in *.
  dopt Ep as y1 Qp1. dopt Eq as y1' Qq1.
  destruct (redirSign_rel is_print p L HB HL _ _ _ _ _ S Qp1 Qq1) as [[-> S1]|E1].
  2:{ right.
      match type of Eq with (let '(_, _) := ?e in _) = _ => destruct e as [mode y2'] eqn:Q2 end.
      assert (EFq y2') as E2.
      { repeat match type of Q2 with (if ?c then _ else _) = _ => destruct c end;
          inversion Q2; subst; auto. now apply (EF_error is_print). }
      ge_body is_print (cutq p L) cq EHq Eq. }
  rewrite (slice_q p L HL) in Eq by (sync_pos S1).
  rewrite (error_sync_agree _ _ S1) in Eq.
  match type of Ep with (let '(_, _) := ?e in _) = _ => destruct e as [mode y2] eqn:Q2 end.
  assert (y2 = y1) as ->.
  { repeat match type of Q2 with (if ?c then _ else _) = _ => destruct c end; inversion Q2; subst; auto.
    exfalso. dopt Ep as [b3 y3] Qp3.
    assert (errs (error p errBadRedirSign y1) = []) as N.
    { eapply Ext_nil; [eapply parseSpacesInner_ext; exact Qp3|]. nil_from Ep Z. }
    cbn in N. discriminate. }
  rewrite (addSep_agree p L HL) in Eq by (sync_pos S1).
  dopt Ep as [b3 y3] Qp3. dopt Eq as [b3' y3'] Qq3.
  destruct (psp _ _ _ _ _ _ _ S1 Qp3 Qq3) as [[-> [-> S3]]|E3]; [|efin Eq].
  dlet Ep as [[fd4 b4] y4] Qp4. dlet Eq as [[fd4' b4'] y4'] Qq4.
  destruct (psep _ _ _ _ _ _ _ _ _ S3 Qp4 Qq4) as [[-> [-> [-> S4]]]|E4]; [|efin Eq].
  dopt Ep as [t5 y5] Qp5. dopt Eq as [t5' y5'] Qq5.
  assert (errs y5 = []) as N5.
  { inversion Ep; subst. destruct (t_ch t5); [cbn in Z; discriminate|exact Z]. }
  destruct (rCompound _ _ RC _ _ _ _ _ _ S4 Qp5 N5 Qq5) as [[-> [-> S5]]|E5]; [|efin Eq].
  inversion Ep; inversion Eq; subst. destruct (t_ch t5); [cbn in Z; discriminate|].
  left. split; [|split; auto]. apply finish_agree; auto. sync_pos S5.
Qed.

Lemma expectSep_rel b x sep c bp yp bq yq : Sync x ->
  expectSep p b x sep c = (bp, yp) -> errs yp = [] -> expectSep q b x sep c = (bq, yq) ->
  (bq = bp /\ yq = yp /\ Sync yp) \/ EFq yq.
Proof.
  intros S Ep Z Eq. unfold expectSep in *.
  destruct (parseSep p b x sep) as [[okp b1] y1] eqn:Qp.
  destruct (parseSep q b x sep) as [[okq b1'] y1'] eqn:Qq.
  destruct (psep _ _ _ _ _ _ _ _ _ S Qp Qq) as [[-> [-> [-> S1]]]|E1].
  - destruct okp; inversion Ep; inversion Eq; subst; [left; auto|]. cbn in Z. discriminate.
  - right. destruct okq; inversion Eq; subst; auto. now apply (EF_error is_print).
Qed.

Lemma hasPrefix2_short x a b : pos x < L -> L < pos x + 2 -> hasPrefix2 q x a b = false.
Proof.
  intros A B. unfold hasPrefix2. rewrite skipn_q by auto.
  replace (L - pos x) with 1 by lia. destruct (skipn (pos x) p) as [|u [|v r]]; reflexivity.
Qed.

Ltac leaf_done S1 := left; split; [|split; [reflexivity|exact S1]]; apply finish_agree; auto; sync_pos S1.

Lemma primary_rel ctx : NodeRel (primary_body is_print p cp ctx) (primary_body is_print q cq ctx).
Proof.
  intros x tp yp tq yq S Ep Z Eq. unfold primary_body, parseSpacesAndNewlines in *. cbv zeta in *.
  rewrite (psy _ S) in Eq.
  destruct (negb (startsPrimary is_print (peek p x) ctx)).
  { exfalso. inversion Ep; subst. cbn in Z. discriminate. }
  destruct (allowedInBareword is_print (peek p x) ctx).
  { dopt Ep as y1 Qp1. dopt Eq as y1' Qq1. inversion Ep; inversion Eq; subst.
    destruct (bareword_rel is_print p L HB HL _ _ _ _ _ _ S Qp1 Qq1) as [[-> S1]|E1]; [leaf_done S1|now right]. }
  destruct (Z.eqb (peek p x) 39).
  { dopt Ep as y1 Qp1. dopt Eq as y1' Qq1. inversion Ep; inversion Eq; subst.
    destruct (asy _ S) as [A [Sa|Ea]]; rewrite A in Qq1.
    - destruct (single_rel is_print p L HB HL _ _ _ _ _ Sa Qp1 Z Qq1) as [[-> S1]|E1]; [leaf_done S1|now right].
    - right. eapply E_sq_any; eauto. }
  destruct (Z.eqb (peek p x) 34).
  { dopt Ep as y1 Qp1. dopt Eq as y1' Qq1. inversion Ep; inversion Eq; subst.
    destruct (asy _ S) as [A [Sa|Ea]]; rewrite A in Qq1.
    - destruct (double_rel is_print p L HB HL _ _ _ _ _ Sa Qp1 Z Qq1) as [[-> S1]|E1]; [leaf_done S1|now right].
    - right. eapply E_dq_any; eauto. }
  destruct (Z.eqb (peek p x) 36).
  { dopt Ep as y1 Qp1. dopt Eq as y1' Qq1. inversion Ep; inversion Eq; subst.
    destruct (variable_rel is_print p L HB HL _ _ _ S Qp1 Z Qq1) as [[-> S1]|E1]; [leaf_done S1|now right]. }
  destruct (Z.eqb (peek p x) 42).
  { dopt Ep as y1 Qp1. dopt Eq as y1' Qq1. inversion Ep; inversion Eq; subst.
    destruct (star_rel is_print p L HB HL _ _ _ _ _ S Qp1 Qq1) as [[-> S1]|E1]; [leaf_done S1|now right]. }
  destruct (Z.eqb (peek p x) 63) eqn:P63.
  { destruct (le_lt_dec (pos x + 2) L) as [Le|Gt].
    2:{ (* the question mark is the last byte of q *)
        rewrite (hasPrefix2_short x _ _ ltac:(sync_pos S) Gt) in Eq.
        destruct (asy _ S) as [A [Sa|Ea]]; rewrite A in Eq.
        - exfalso. apply Z.eqb_eq in P63.
          assert (peek p x <> EOF) as NE by (rewrite P63; unfold EOF, pkg_parse.eof; lia).
          pose proof (adv_strict is_print p x (proj1 S) NE) as Lt.
          destruct Sa as [_ [_ [C _]]]. lia.
        - right. inversion Eq; subst. exact Ea. }
    rewrite (hasPrefix2_agree is_print p L HL) in Eq by exact Le.
    destruct (hasPrefix2 p x 63 40).
    - destruct (asy _ S) as [A [Sa|Ea]]; rewrite A in Eq; [|efin Eq].
      destruct (asy _ Sa) as [A2 [Sb|Eb]]; rewrite A2 in Eq; [|efin Eq].
      rewrite (addSep_agree p L HL) in Eq by (sync_pos Sb).
      dopt Ep as [t2 y2] Qp2. dopt Eq as [t2' y2'] Qq2.
      assert (errs y2 = []) as N2 by (nil_from Ep Z).
      destruct (rChunk _ _ RC _ _ _ _ _ Sb Qp2 N2 Qq2) as [[-> [-> S2]]|E2]; [|efin Eq].
      dlet Ep as [b3 y3] Qp3. dlet Eq as [b3' y3'] Qq3.
      assert (errs y3 = []) as N3 by (inversion Ep; subst; exact Z).
      destruct (expectSep_rel _ _ _ _ _ _ _ _ S2 Qp3 N3 Qq3) as [[-> [-> S3]]|E3]; [|efin Eq].
      inversion Ep; inversion Eq; subst. leaf_done S3.
    - destruct (asy _ S) as [A [Sa|Ea]]; rewrite A in Eq; inversion Ep; inversion Eq; subst; [leaf_done Sa|now right]. }
  destruct (Z.eqb (peek p x) 40).
  { dlet Ep as [[ok1 b1] y1] Qp1. dlet Eq as [[ok1' b1'] y1'] Qq1.
    destruct (psep _ _ _ _ _ _ _ _ _ S Qp1 Qq1) as [[-> [-> [-> S1]]]|E1]; [|efin Eq].
    dopt Ep as [t2 y2] Qp2. dopt Eq as [t2' y2'] Qq2.
    assert (errs y2 = []) as N2 by (nil_from Ep Z).
    destruct (rChunk _ _ RC _ _ _ _ _ S1 Qp2 N2 Qq2) as [[-> [-> S2]]|E2]; [|efin Eq].
    dlet Ep as [b3 y3] Qp3. dlet Eq as [b3' y3'] Qq3.
    assert (errs y3 = []) as N3 by (inversion Ep; subst; exact Z).
    destruct (expectSep_rel _ _ _ _ _ _ _ _ S2 Qp3 N3 Qq3) as [[-> [-> S3]]|E3]; [|efin Eq].
    inversion Ep; inversion Eq; subst. leaf_done S3. }
  destruct (Z.eqb (peek p x) 91).
  { dlet Ep as [[ok1 b1] y1] Qp1. dlet Eq as [[ok1' b1'] y1'] Qq1.
    destruct (psep _ _ _ _ _ _ _ _ _ S Qp1 Qq1) as [[-> [-> [-> S1]]]|E1]; [|efin Eq].
    dopt Ep as [b2 y2] Qp2. dopt Eq as [b2' y2'] Qq2.
    destruct (psp _ _ _ _ _ _ _ S1 Qp2 Qq2) as [[-> [-> S2]]|E2]; [|efin Eq].
    dopt Ep as [[b3 y3] fl] Qp3. dopt Eq as [[b3' y3'] fl'] Qq3.
    assert (errs y3 = []) as N3 by (nil_from Ep Z).
    destruct (rLbracketLoop _ _ RC _ _ _ _ _ _ _ _ _ _ S2 Qp3 N3 Qq3) as [[-> [-> [-> S3]]]|E3]; [|efin Eq].
    destruct fl as [[lone hasP] hasE].
    dlet Ep as [b4 y4] Qp4. dlet Eq as [b4' y4'] Qq4.
    assert (errs y4 = []) as N4.
    { destruct (lone || hasP); inversion Ep; subst; [destruct hasE; [cbn in Z; discriminate|exact Z]|exact Z]. }
    destruct (expectSep_rel _ _ _ _ _ _ _ _ S3 Qp4 N4 Qq4) as [[-> [-> S4]]|E4]; [|efin Eq].
    destruct (lone || hasP).
    - destruct hasE; [exfalso; inversion Ep; subst; cbn in Z; discriminate|].
      inversion Ep; inversion Eq; subst. leaf_done S4.
    - inversion Ep; inversion Eq; subst. leaf_done S4. }
  destruct (Z.eqb (peek p x) 123); [|inversion Ep; inversion Eq; subst; leaf_done S].
  dlet Ep as [[ok1 b1] y1] Qp1. dlet Eq as [[ok1' b1'] y1'] Qq1.
  destruct (psep _ _ _ _ _ _ _ _ _ S Qp1 Qq1) as [[-> [-> [-> S1]]]|E1]; [|efin Eq].
  rewrite (psy _ S1) in Eq.
  match type of Ep with (if ?c then _ else _) = _ => destruct c end.
  - (* lambda *)
    dopt Ep as [b2 y2] Qp2. dopt Eq as [b2' y2'] Qq2.
    destruct (psp _ _ _ _ _ _ _ S1 Qp2 Qq2) as [[-> [-> S2]]|E2]; [|efin Eq].
    dlet Ep as [[bar b3] y3] Qp3. dlet Eq as [[bar' b3'] y3'] Qq3.
    destruct (psep _ _ _ _ _ _ _ _ _ S2 Qp3 Qq3) as [[-> [-> [-> S3]]]|E3]; [|efin Eq].
    dopt Ep as [b6 y6] Qp6. dopt Eq as [b6' y6'] Qq6.
    assert (errs y6 = []) as N6 by (nil_from Ep Z).
    assert ((b6' = b6 /\ y6' = y6 /\ Sync y6) \/ EFq y6') as [[-> [-> S6]]|E6]; [| |efin Eq].
    { destruct bar; [|inversion Qp6; inversion Qq6; subst; left; auto].
      dopt Qp6 as [b4 y4] Qp4. dopt Qq6 as [b4' y4'] Qq4.
      destruct (psp _ _ _ _ _ _ _ S3 Qp4 Qq4) as [[-> [-> S4]]|E4]; [|right; ge_body is_print (cutq p L) cq EHq Qq6].
      dopt Qp6 as [b5 y5] Qp5. dopt Qq6 as [b5' y5'] Qq5.
      assert (errs y5 = []) as N5.
      { eapply Ext_nil; [|exact N6]. inversion Qp6 as [Q7]. eapply expectSep_ext; eauto. }
      destruct (rLambdaLoop _ _ RC _ _ _ _ _ _ S4 Qp5 N5 Qq5) as [[-> [-> S5]]|E5]; [|right; ge_body is_print (cutq p L) cq EHq Qq6].
      inversion Qp6 as [Q7p]. inversion Qq6 as [Q7q].
      exact (expectSep_rel _ _ _ _ _ _ _ _ S5 Q7p N6 Q7q). }
    dopt Ep as [t7 y7] Qp7. dopt Eq as [t7' y7'] Qq7.
    assert (errs y7 = []) as N7 by (nil_from Ep Z).
    destruct (rChunk _ _ RC _ _ _ _ _ S6 Qp7 N7 Qq7) as [[-> [-> S7]]|E7]; [|efin Eq].
    dlet Ep as [b8 y8] Qp8. dlet Eq as [b8' y8'] Qq8.
    assert (errs y8 = []) as N8 by (inversion Ep; subst; exact Z).
    destruct (expectSep_rel _ _ _ _ _ _ _ _ S7 Qp8 N8 Qq8) as [[-> [-> S8]]|E8]; [|efin Eq].
    inversion Ep; inversion Eq; subst. leaf_done S8.
  - (* braced *)
    dopt Ep as [t2 y2] Qp2. dopt Eq as [t2' y2'] Qq2.
    assert (errs y2 = []) as N2 by (nil_from Ep Z).
    destruct (rCompound _ _ RC _ _ _ _ _ _ S1 Qp2 N2 Qq2) as [[-> [-> S2]]|E2]; [|efin Eq].
    dopt Ep as [b3 y3] Qp3. dopt Eq as [b3' y3'] Qq3.
    assert (errs y3 = []) as N3 by (nil_from Ep Z).
    destruct (rBracedLoop _ _ RC _ _ _ _ _ _ S2 Qp3 N3 Qq3) as [[-> [-> S3]]|E3]; [|efin Eq].
    dlet Ep as [b4 y4] Qp4. dlet Eq as [b4' y4'] Qq4.
    assert (errs y4 = []) as N4 by (inversion Ep; subst; exact Z).
    destruct (expectSep_rel _ _ _ _ _ _ _ _ S3 Qp4 N4 Qq4) as [[-> [-> S4]]|E4]; [|efin Eq].
    inversion Ep; inversion Eq; subst. leaf_done S4.
Qed.

Lemma step_RelC : RelC (step is_print p cp) (step is_print q cq).
Proof.
  constructor; cbn [step cChunk cChunkLoop cPipeline cPipelineLoop cForm cFormLoop cRedir
    cCompound cCompoundLoop cIndexing cIndexingLoop cArray cArrayLoop cPrimary cLbracketLoop
    cLambdaLoop cBracedLoop cMapPair]; intros.
  - apply chunk_rel.
  - apply chunkLoop_rel.
  - apply pipeline_rel.
  - apply pipelineLoop_rel.
  - apply form_rel.
  - apply formLoop_rel.
  - apply redir_rel.
  - apply compound_rel.
  - apply compoundLoop_rel.
  - apply indexing_rel.
  - apply indexingLoop_rel.
  - apply array_rel.
  - apply arrayLoop_rel.
  - apply primary_rel.
  - apply lbracketLoop_rel.
  - apply lambdaLoop_rel.
  - apply bracedLoop_rel.
  - apply mapPair_rel.
Qed.

End RStep.
Lemma RelC_q0 cp : RelC cp callees0.
Proof. constructor; repeat intro; discriminate. Qed.

Lemma amp_pipelineLoop fq b y r : Amp y ->
  cPipelineLoop (parsers is_print q fq) b y = Some r -> r = (b, y, true).
Proof.
  intros [A [B [C [D E]]]] H. destruct fq as [|fq]; [discriminate|].
  cbn [parsers step cPipelineLoop] in H. unfold pipelineLoop_body, parseSep in H.
  rewrite D in H. cbn in H. now inversion H.
Qed.

Lemma parsers_RelC fp : forall fq, RelC (parsers is_print p fp) (parsers is_print q fq).
Proof.
  induction fp as [|fp IH]; intros fq; [apply RelC0|].
  destruct fq as [|fq]; [apply RelC_q0|]. cbn [parsers].
  apply step_RelC; [apply parsers_XC|apply parsers_EC|apply IH|].
  intros b y r A H. eapply amp_pipelineLoop; eauto.
Qed.

End RB.


(* ------------------------------------------------------------------------ *)
(* the theorem                                                                *)
Theorem prefix_errors_partial is_print p t :
  parse_model is_print p = Some (t, []) ->
  forall L, boundary p L -> L <= length p ->
  forall t' es, parse_model is_print (firstn L p) = Some (t', es) ->
  forall e, In e es -> e_from e = L /\ e_partial e = true.
Proof.
  intros Pp L HB HL t' es Pq e He.
  change (firstn L p) with (cutq p L) in *.
  pose proof (q_len p L HL) as QL.
  unfold parse_model, parse_fuel in *.
  destruct (cChunk (parsers is_print p _) ps0) as [[tp yp]|] eqn:Cp; [|discriminate].
  destruct (cChunk (parsers is_print (cutq p L) _) ps0) as [[tq yq]|] eqn:Cq; [|discriminate].
  inversion Pp as [[Tp Rp]]. inversion Pq as [[Tq Rq]]. clear Pp Pq.
  (* the run on p reports nothing *)
  assert (errs (done p yp) = []) as Nd.
  { unfold report in Rp. destruct (rev (errs (done p yp))) eqn:R; [|discriminate].
    rewrite <- (rev_involutive (errs (done p yp))), R. reflexivity. }
  assert (errs yp = [] /\ pos yp = length p) as [Ny Py].
  { unfold done, C01_Parse.n in Nd. destruct (Nat.eqb_spec (pos yp) (length p)); [auto|cbn in Nd; discriminate]. }
  (* the run on q ends at its end, all errors there *)
  assert (EF (cutq p L) yq) as Ey.
  { destruct (Nat.eq_dec L 0) as [L0|L0].
    - eapply (eChunk _ _ (parsers_EC is_print (cutq p L) _)); [|exact Cq].
      split; [apply SI_ps0|]. split; [cbn; lia|constructor].
    - assert (Sync p L ps0) as S0.
      { split; [apply SI_ps0|]. split; [apply SI_ps0|]. split; [cbn; lia|reflexivity]. }
      destruct (rChunk _ _ _ _ (parsers_RelC is_print p L HB HL _ _)
                       _ _ _ _ _ S0 Cp Ny Cq) as [[_ [_ Sy]]|E]; [|exact E].
      exfalso. destruct Sy as [_ [_ [C _]]]. lia. }
  destruct Ey as [Sy [Py' Ay]].
  assert (done (cutq p L) yq = yq) as Dq.
  { unfold done, C01_Parse.n. rewrite Py', Nat.eqb_refl. reflexivity. }
  rewrite Dq in Rq. subst es. unfold report in He.
  apply in_map_iff in He as [[[f t0] cd] [<- Hin]]. apply in_rev in Hin.
  rewrite Forall_forall in Ay. specialize (Ay _ Hin). unfold atEnd in Ay. cbn in Ay.
  cbn. unfold C01_Parse.n. rewrite Ay, QL. split; [reflexivity|apply Nat.eqb_refl].
Qed.


(* with totality: the prefix does parse, all its errors are partial, and Enter
   inserts a newline when there is one *)
Corollary prefix_errors_partial_full is_print p t :
  parse_model is_print p = Some (t, []) ->
  forall L, boundary p L -> L <= length p ->
  exists t' es, parse_model is_print (firstn L p) = Some (t', es)
    /\ (forall e, In e es -> e_from e = L /\ e_partial e = true)
    /\ (es <> [] -> isSyntaxComplete (firstn L p) es = false).
Proof.
  intros Pp L HB HL.
  destruct (parse_total is_print (firstn L p)) as [t' [es E]]. exists t', es. split; [exact E|].
  pose proof (prefix_errors_partial is_print p t Pp L HB HL t' es E) as P. split; [exact P|].
  intros Hne. destruct es as [|e r]; [congruence|].
  destruct (P e (or_introl eq_refl)) as [F _].
  unfold isSyntaxComplete. cbn [forallb]. rewrite F, firstn_length.
  replace (Nat.min L (length p)) with L by lia. now rewrite Nat.eqb_refl.
Qed.

(* the grammar of the theorem: all programs the model parses without errors *)
Definition C02_G (is_print : N -> bool) (p : bytes) : Prop :=
  exists t, parse_model is_print p = Some (t, []).
Lemma prefix_errors_partial_on_G is_print p : C02_G is_print p ->
  forall L, boundary p L -> L <= length p ->
  forall t' es, parse_model is_print (firstn L p) = Some (t', es) ->
  forall e, In e es -> e_from e = L /\ e_partial e = true.
Proof. intros [t H]. exact (prefix_errors_partial is_print p t H). Qed.
