(* Proofs for C16: the phase structure of Evaler.Eval / Check. *)
From verif Require Import lib.Base model.C16.

(* ================================================================== *)
(* Facts about traces and the mutex acceptor, for any effect type *)
Section Traces.
  Variable eff : Type.
  Notation event := (event eff).

  Lemma effects_of_app (a b : list event) : effects_of (a ++ b) = effects_of a ++ effects_of b.
  Proof. induction a as [|e a IH]; [reflexivity|]. destruct e; cbn; rewrite ?IH; reflexivity. Qed.

  Lemma effects_of_map (l : list eff) : effects_of (map (@EvEff eff) l) = l.
  Proof. induction l as [|x l IH]; cbn; [reflexivity|]. rewrite IH; reflexivity. Qed.

  Lemma set_globals_of_app (a b : list event) :
    set_globals_of (a ++ b) = set_globals_of a ++ set_globals_of b.
  Proof. induction a as [|e a IH]; [reflexivity|]. destruct e; cbn; rewrite ?IH; reflexivity. Qed.

  Lemma set_globals_of_map (l : list eff) : set_globals_of (map (@EvEff eff) l) = [].
  Proof. induction l as [|x l IH]; cbn; [reflexivity|exact IH]. Qed.

  Lemma count_ev_app p (a b : list event) : count_ev p (a ++ b) = (count_ev p a + count_ev p b)%nat.
  Proof. induction a as [|e a IH]; cbn; [reflexivity|]. rewrite IH. lia. Qed.

  Lemma count_lock_map (l : list eff) : count_ev is_lock (map (@EvEff eff) l) = 0%nat.
  Proof. induction l as [|x l IH]; cbn; [reflexivity|exact IH]. Qed.

  Lemma count_unlock_map (l : list eff) : count_ev is_unlock (map (@EvEff eff) l) = 0%nat.
  Proof. induction l as [|x l IH]; cbn; [reflexivity|exact IH]. Qed.

  Lemma lock_run_app s (a b : list event) :
    lock_run s (a ++ b) = match lock_run s a with Some s' => lock_run s' b | None => None end.
  Proof.
    revert s; induction a as [|e a IH]; intros s; [reflexivity|].
    cbn [app lock_run]. destruct (lock_step s e) as [s'|]; [apply IH|reflexivity].
  Qed.

  Lemma lock_run_effs (l : list eff) : lock_run LFree (map (@EvEff eff) l) = Some LFree.
  Proof. induction l as [|x l IH]; cbn; [reflexivity|exact IH]. Qed.
End Traces.

(* ================================================================== *)
Section Phases.
  Variables source tree sns op modname perr cerr eff : Type.
  Variable parse : source -> tree * option perr.
  Variable compile : sns -> sns -> list modname -> tree -> (op * sns) * option cerr.
  Variable exec : op -> N -> list eff * bool.

  Notation evaler := (evaler sns modname).
  Notation EvalM := (Eval source tree sns op modname perr cerr eff parse compile exec).
  Notation CheckM := (Check source tree sns op modname perr cerr eff parse compile).
  Notation CheckTreeM := (CheckTree tree sns op modname cerr eff compile).
  Notation run_seqM := (run_seq source tree sns op modname perr cerr eff parse compile exec).
  Notation coexitM := (compileonly_exit source tree sns op modname perr cerr eff parse compile).

  (* the static view of the global namespace that Eval compiles against *)
  Definition cfg_static (ev : evaler) (cfg : option (N * sns)) : sns :=
    match cfg with None => ev_gstatic ev | Some (_, gs) => gs end.

  (* ---------- what Eval returns, phase by phase ---------- *)
  Lemma eval_parse_error ev src cfg e :
    snd (parse src) = Some e -> EvalM ev src cfg = mkOut _ _ _ _ _ (RParseErr e) [] ev.
  Proof. unfold Eval. destruct (parse src) as [t pe]; cbn. intros ->. reflexivity. Qed.

  Lemma eval_result_static_cases ev src cfg :
    is_static (eo_result (EvalM ev src cfg)) = true <->
    (exists e, snd (parse src) = Some e) \/
    (snd (parse src) = None /\
     exists e, snd (compile (ev_builtin ev) (cfg_static ev cfg) [] (fst (parse src))) = Some e).
  Proof.
    unfold Eval, cfg_static. destruct (parse src) as [t pe]; cbn [fst snd].
    destruct pe as [e|].
    - cbn. split; [intros _; left; eauto|reflexivity].
    - assert (G : match cfg with None => ev_gstatic ev | Some (_, gs) => gs end =
                  match cfg with None => ev_gstatic ev | Some p => let (_, gs) := p in gs end).
      { destruct cfg as [[? ?]|]; reflexivity. }
      destruct (compile (ev_builtin ev) (match cfg with None => ev_gstatic ev | Some (_, gs) => gs end) [] t)
        as [[o tmpl] ce] eqn:EC.
      destruct ce as [e|].
      + cbn. split; [intros _; right; split; [reflexivity|eauto]|reflexivity].
      + destruct (exec o (ev_next ev)) as [effs exc]. cbn.
        split; [discriminate|]. intros [[e E]|[_ [e E]]]; discriminate.
  Qed.

  (* ---------- static_error_no_effects ---------- *)
  Theorem static_error_no_effects ev src cfg :
    is_static (eo_result (EvalM ev src cfg)) = true ->
    effects_of (eo_trace (EvalM ev src cfg)) = []
    /\ set_globals_of (eo_trace (EvalM ev src cfg)) = []
    /\ eo_ev (EvalM ev src cfg) = ev.
  Proof.
    unfold Eval. destruct (parse src) as [t pe]. destruct pe as [e|]; [cbn; auto|].
    destruct (compile (ev_builtin ev) _ [] t) as [[o tmpl] ce].
    destruct ce as [e|].
    - intros _. destruct cfg as [[? ?]|]; cbn; auto.
    - destruct (exec o (ev_next ev)) as [effs exc]. cbn. discriminate.
  Qed.

  (* the global namespace object and its static view are untouched *)
  Corollary static_error_same_global ev src cfg :
    is_static (eo_result (EvalM ev src cfg)) = true ->
    ev_global (eo_ev (EvalM ev src cfg)) = ev_global ev
    /\ ev_gstatic (eo_ev (EvalM ev src cfg)) = ev_gstatic ev.
  Proof. intros H. destruct (static_error_no_effects ev src cfg H) as (_ & _ & ->). auto. Qed.

  (* the converse direction: code without a static error runs, once, after the
     compile, and all effects in the trace are those of that one execution *)
  Theorem no_static_error_runs_once ev src cfg :
    is_static (eo_result (EvalM ev src cfg)) = false ->
    exists o tmpl,
      compile (ev_builtin ev) (cfg_static ev cfg) [] (fst (parse src)) = ((o, tmpl), None)
      /\ effects_of (eo_trace (EvalM ev src cfg)) = fst (exec o (ev_next ev))
      /\ eo_result (EvalM ev src cfg) = RRan (snd (exec o (ev_next ev))).
  Proof.
    unfold Eval, cfg_static. destruct (parse src) as [t pe]. destruct pe as [e|]; [cbn; discriminate|].
    cbn [fst].
    destruct (compile (ev_builtin ev) _ [] t) as [[o tmpl] ce] eqn:EC.
    destruct ce as [e|]; [destruct cfg as [[? ?]|]; cbn; discriminate|].
    destruct (exec o (ev_next ev)) as [effs exc] eqn:EX. intros _.
    exists o, tmpl. rewrite EX. split.
    - destruct cfg as [[? ?]|]; first [exact EC|reflexivity].
    - cbn [eo_trace eo_result fst snd]. split; [|reflexivity].
      rewrite !effects_of_app, effects_of_map. destruct cfg as [[? ?]|]; reflexivity.
  Qed.

  (* ---------- mutex_balanced ---------- *)
  Theorem mutex_balanced ev src cfg :
    let tr := eo_trace (EvalM ev src cfg) in
    lock_run LFree tr = Some LFree
    /\ count_ev is_lock tr = count_ev is_unlock tr
    /\ (count_ev is_lock tr <= 1)%nat
    /\ (count_ev is_lock tr = 1%nat <-> snd (parse src) = None).
  Proof.
    unfold Eval. destruct (parse src) as [t pe]. destruct pe as [e|].
    - cbn. repeat split; try lia; discriminate.
    - destruct (compile (ev_builtin ev) _ [] t) as [[o tmpl] ce].
      destruct ce as [e|].
      + destruct cfg as [[? ?]|]; cbn; repeat split; lia.
      + destruct (exec o (ev_next ev)) as [effs exc]. cbn [eo_trace snd].
        destruct cfg as [[? ?]|]; cbn [app].
        * cbn [lock_run lock_step count_ev is_lock is_unlock].
          rewrite lock_run_effs, count_lock_map, count_unlock_map. repeat split; lia.
        * cbn [lock_run lock_step count_ev is_lock is_unlock].
          rewrite lock_run_effs, count_lock_map, count_unlock_map. repeat split; lia.
  Qed.

  (* ev.global is assigned at most once, and only by a run that had no static error *)
  Theorem global_assigned_only_after_compile ev src cfg :
    match set_globals_of (eo_trace (EvalM ev src cfg)) with
    | [] => True
    | [i] => cfg = None /\ is_static (eo_result (EvalM ev src cfg)) = false /\ i = ev_next ev
    | _ => False
    end.
  Proof.
    unfold Eval. destruct (parse src) as [t pe]. destruct pe as [e|]; [exact I|].
    destruct (compile (ev_builtin ev) _ [] t) as [[o tmpl] ce].
    destruct ce as [e|].
    - destruct cfg as [[? ?]|]; exact I.
    - destruct (exec o (ev_next ev)) as [effs exc]. cbn [eo_trace eo_result].
      rewrite !set_globals_of_app, set_globals_of_map.
      destruct cfg as [[? ?]|]; cbn; auto.
  Qed.

  Theorem check_lock_balanced ev src :
    lock_run LFree (snd (CheckM ev src)) = Some LFree
    /\ effects_of (snd (CheckM ev src)) = [] /\ set_globals_of (snd (CheckM ev src)) = [].
  Proof. unfold Check, CheckTree. destruct (parse src) as [t pe]. cbn. auto. Qed.

  (* ---------- identity of the global namespace ---------- *)
  Definition wf (ev : evaler) : Prop := (ev_global ev < ev_next ev)%N.

  Theorem global_same_iff_static ev src :
    wf ev ->
    (ev_global (eo_ev (EvalM ev src None)) = ev_global ev
     <-> is_static (eo_result (EvalM ev src None)) = true).
  Proof.
    unfold wf, Eval. intros W. destruct (parse src) as [t pe]. destruct pe as [e|]; [cbn; tauto|].
    destruct (compile (ev_builtin ev) _ [] t) as [[o tmpl] ce].
    destruct ce as [e|]; [cbn; tauto|].
    destruct (exec o (ev_next ev)) as [effs exc]. cbn. split; [lia|discriminate].
  Qed.

  Theorem wf_preserved ev src cfg : wf ev -> wf (eo_ev (EvalM ev src cfg)).
  Proof.
    unfold wf, Eval. intros W. destruct (parse src) as [t pe]. destruct pe as [e|]; [exact W|].
    destruct (compile (ev_builtin ev) _ [] t) as [[o tmpl] ce].
    destruct ce as [e|]; [exact W|].
    destruct (exec o (ev_next ev)) as [effs exc]. destruct cfg as [[? ?]|]; cbn; lia.
  Qed.

  Theorem custom_global_keeps_evaler_global ev src g :
    ev_global (eo_ev (EvalM ev src (Some g))) = ev_global ev
    /\ ev_gstatic (eo_ev (EvalM ev src (Some g))) = ev_gstatic ev
    /\ set_globals_of (eo_trace (EvalM ev src (Some g))) = [].
  Proof.
    unfold Eval. destruct (parse src) as [t pe]. destruct pe as [e|]; [cbn; auto|].
    destruct g as [gi gs].
    destruct (compile (ev_builtin ev) gs [] t) as [[o tmpl] ce].
    destruct ce as [e|]; [cbn; auto|].
    destruct (exec o (ev_next ev)) as [effs exc]. cbn [eo_ev eo_trace ev_global ev_gstatic].
    rewrite !set_globals_of_app, set_globals_of_map. auto.
  Qed.

  (* builtin namespace and module table are never changed by Eval *)
  Theorem eval_keeps_builtin_and_modules ev src cfg :
    ev_builtin (eo_ev (EvalM ev src cfg)) = ev_builtin ev
    /\ ev_modules (eo_ev (EvalM ev src cfg)) = ev_modules ev.
  Proof.
    unfold Eval. destruct (parse src) as [t pe]. destruct pe as [e|]; [cbn; auto|].
    destruct (compile (ev_builtin ev) _ [] t) as [[o tmpl] ce].
    destruct ce as [e|]; [cbn; auto|].
    destruct (exec o (ev_next ev)) as [effs exc]. destruct cfg as [[? ?]|]; cbn; auto.
  Qed.

  (* ---------- Check agrees with Eval ---------- *)
  Section Agreement.
    (* the stated hypothesis: the module names only feed the autofix suggestions *)
    Hypothesis compile_error_indep_of_modules :
      forall b g m1 m2 t, snd (compile b g m1 t) = snd (compile b g m2 t).

    Lemma check_components ev src :
      CheckM ev src =
      (snd (parse src),
       snd (compile (ev_builtin ev) (ev_gstatic ev) (ev_modules ev) (fst (parse src))),
       [EvRLock; EvRUnlock]).
    Proof. unfold Check, CheckTree. destruct (parse src) as [t pe]. reflexivity. Qed.

    (* Eval is called in the same context: default global, or a cfg.Global with the
       same static view as ev.global *)
    Definition same_context (ev : evaler) (cfg : option (N * sns)) : Prop :=
      cfg_static ev cfg = ev_gstatic ev.

    Theorem check_iff_eval_static_error ev src cfg :
      same_context ev cfg ->
      (check_reports_error (CheckM ev src) = true
       <-> is_static (eo_result (EvalM ev src cfg)) = true).
    Proof.
      intros SC. rewrite eval_result_static_cases, check_components. unfold same_context in SC.
      rewrite SC. cbn [check_reports_error].
      rewrite (compile_error_indep_of_modules _ _ (ev_modules ev) []).
      destruct (snd (parse src)) as [e|];
        destruct (snd (compile (ev_builtin ev) (ev_gstatic ev) [] (fst (parse src)))) as [e'|]; cbn.
      - split; [intros _; left; eauto|reflexivity].
      - split; [intros _; left; eauto|reflexivity].
      - split; [intros _; right; split; [reflexivity|eauto]|reflexivity].
      - split; [discriminate|]. intros [[e E]|[_ [e E]]]; discriminate.
    Qed.

    (* ... and it is the same error *)
    Theorem check_same_error ev src cfg :
      same_context ev cfg ->
      (forall e, eo_result (EvalM ev src cfg) = RParseErr e <-> fst (fst (CheckM ev src)) = Some e)
      /\ (forall e, eo_result (EvalM ev src cfg) = RCompileErr e <->
                    fst (fst (CheckM ev src)) = None /\ snd (fst (CheckM ev src)) = Some e).
    Proof.
      intros SC. rewrite check_components. cbn [fst snd]. unfold same_context, cfg_static in SC.
      rewrite (compile_error_indep_of_modules _ _ (ev_modules ev) []).
      unfold Eval. destruct (parse src) as [t pe]. cbn [fst snd].
      destruct pe as [e0|].
      - cbn. split; intros e; split.
        + intros E; inversion E; reflexivity.
        + intros E; inversion E; reflexivity.
        + discriminate.
        + intros [E _]; discriminate.
      - assert (G : match cfg with None => ev_gstatic ev | Some (_, gs) => gs end = ev_gstatic ev).
        { destruct cfg as [[? ?]|]; exact SC. }
        rewrite G.
        destruct (compile (ev_builtin ev) (ev_gstatic ev) [] t) as [[o tmpl] ce].
        destruct ce as [e0|].
        + cbn. split; intros e; split.
          * discriminate.
          * discriminate.
          * intros E; inversion E; auto.
          * intros [_ E]; inversion E; reflexivity.
        + destruct (exec o (ev_next ev)) as [effs exc]. cbn. split; intros e; split.
          * discriminate.
          * discriminate.
          * discriminate.
          * intros [_ E]; discriminate.
    Qed.

    (* elvish -compileonly exits with 2 exactly when evaluation reports a static error *)
    Theorem compileonly_exit_iff_static ev src cfg :
      same_context ev cfg ->
      (coexitM ev src = 2%Z <-> is_static (eo_result (EvalM ev src cfg)) = true).
    Proof.
      intros SC. rewrite <- (check_iff_eval_static_error ev src cfg SC).
      unfold compileonly_exit. destruct (check_reports_error (CheckM ev src)); split; auto; discriminate.
    Qed.
  End Agreement.

  (* ---------- a read-eval loop ---------- *)
  (* drop the sources that have a static error at the point where they are evaluated *)
  Fixpoint valid_only (ev : evaler) (srcs : list source) : list source :=
    match srcs with
    | [] => []
    | s :: r =>
      let o := EvalM ev s None in
      if is_static (eo_result o) then valid_only ev r else s :: valid_only (eo_ev o) r
    end.

  Definition seq_trace (x : list (result perr cerr) * list (event eff) * evaler) := snd (fst x).
  Definition seq_results (x : list (result perr cerr) * list (event eff) * evaler) := fst (fst x).

  Lemma run_seq_cons ev s r :
    run_seqM ev (s :: r) =
    (eo_result (EvalM ev s None) :: seq_results (run_seqM (eo_ev (EvalM ev s None)) r),
     eo_trace (EvalM ev s None) ++ seq_trace (run_seqM (eo_ev (EvalM ev s None)) r),
     snd (run_seqM (eo_ev (EvalM ev s None)) r)).
  Proof.
    cbn [run_seq]. destruct (run_seqM (eo_ev (EvalM ev s None)) r) as [[rs tr] ev']. reflexivity.
  Qed.

  (* sources with static errors are as if they had never been submitted: same
     final evaler, same effects *)
  Theorem repl_static_errors_skipped ev srcs :
    snd (run_seqM ev srcs) = snd (run_seqM ev (valid_only ev srcs))
    /\ effects_of (seq_trace (run_seqM ev srcs)) = effects_of (seq_trace (run_seqM ev (valid_only ev srcs)))
    /\ set_globals_of (seq_trace (run_seqM ev srcs)) = set_globals_of (seq_trace (run_seqM ev (valid_only ev srcs)))
    /\ Forall (fun r => is_static r = false) (seq_results (run_seqM ev (valid_only ev srcs))).
  Proof.
    revert ev. induction srcs as [|s r IH]; intros ev.
    - cbn. auto.
    - cbn [valid_only]. destruct (is_static (eo_result (EvalM ev s None))) eqn:ST.
      + rewrite run_seq_cons. cbn [snd fst seq_trace seq_results].
        destruct (static_error_no_effects ev s None ST) as (E1 & E2 & E3).
        rewrite E3, effects_of_app, set_globals_of_app, E1, E2. cbn [app].
        fold (seq_trace (run_seqM ev r)). apply IH.
      + rewrite !run_seq_cons. cbn [snd fst seq_trace seq_results].
        rewrite !effects_of_app, !set_globals_of_app.
        destruct (IH (eo_ev (EvalM ev s None))) as (I1 & I2 & I3 & I4).
        unfold seq_trace, seq_results in *.
        repeat split; [exact I1|f_equal; exact I2|f_equal; exact I3|constructor; [exact ST|exact I4]].
  Qed.

  Theorem repl_lock_balanced ev srcs :
    lock_run LFree (seq_trace (run_seqM ev srcs)) = Some LFree.
  Proof.
    revert ev. induction srcs as [|s r IH]; intros ev; [reflexivity|].
    rewrite run_seq_cons. cbn [seq_trace fst snd]. rewrite lock_run_app.
    destruct (mutex_balanced ev s None) as (L & _). cbn zeta in L. rewrite L. apply IH.
  Qed.

  Theorem repl_wf ev srcs : wf ev -> wf (snd (run_seqM ev srcs)).
  Proof.
    revert ev. induction srcs as [|s r IH]; intros ev W; [exact W|].
    rewrite run_seq_cons. cbn [snd]. apply IH, wf_preserved, W.
  Qed.

  (* a static error is reported again, unchanged, if the same source is evaluated
     a second time *)
  Theorem static_error_idempotent ev src cfg :
    is_static (eo_result (EvalM ev src cfg)) = true ->
    EvalM (eo_ev (EvalM ev src cfg)) src cfg = EvalM ev src cfg.
  Proof. intros H. destruct (static_error_no_effects ev src cfg H) as (_ & _ & ->). reflexivity. Qed.
End Phases.

(* ================================================================== *)
(* Without the hypothesis the agreement is false: a compiler whose error depends
   on the module names makes Check and Eval disagree. *)
Definition bad_compile (_ _ : unit) (mods : list unit) (_ : unit) : (unit * unit) * option unit :=
  ((tt, tt), match mods with [] => None | _ => Some tt end).

Theorem check_iff_eval_needs_module_hypothesis :
  exists (parse : unit -> unit * option unit) (exec : unit -> N -> list unit * bool) (ev : evaler unit unit),
    check_reports_error (Check unit unit unit unit unit unit unit unit parse bad_compile ev tt) = true
    /\ is_static (eo_result (Eval unit unit unit unit unit unit unit unit parse bad_compile exec ev tt None)) = false.
Proof.
  exists (fun _ => (tt, None)), (fun _ _ => ([], false)), (mkEv 0 tt tt [tt] 1).
  vm_compute. split; reflexivity.
Qed.

(* ================================================================== *)
(* The oracle *)
Lemma range_eqb_spec a b : range_eqb a b = true <-> a = b.
Proof.
  destruct a as [a1 a2], b as [b1 b2]. unfold range_eqb. cbn [fst snd].
  rewrite andb_true_iff, !N.eqb_eq. split; [intros [-> ->]; reflexivity|intros E; inversion E; auto].
Qed.

Lemma range_eqb_refl a : range_eqb a a = true.
Proof. apply range_eqb_spec; reflexivity. Qed.

Lemma ranges_eqb_spec a b : ranges_eqb a b = true <-> a = b.
Proof. apply list_eqb_spec, range_eqb_spec. Qed.

Lemma ranges_eqb_refl a : ranges_eqb a a = true.
Proof. apply ranges_eqb_spec; reflexivity. Qed.

Lemma nonempty_spec {A} (l : list A) : nonempty l = true <-> l <> [].
Proof. destruct l; cbn; split; congruence. Qed.

Lemma nonempty_false {A} (l : list A) : nonempty l = false <-> l = [].
Proof. destruct l; cbn; split; congruence. Qed.

Definition Spec_C16 (o : obs) : Prop :=
  (* code with a static error did not run *)
  (kind_static (o_kind o) = true -> o_effects o = [] /\ o_global_same o = true)
  (* the static check reports an error exactly when evaluation reports a static one *)
  /\ ((o_check_parse o <> [] \/ o_check_compile o <> []) <-> kind_static (o_kind o) = true)
  (* and it reports the same one *)
  /\ (o_kind o = KParse -> o_check_parse o = o_ranges o)
  /\ (o_kind o = KCompile -> o_check_parse o = [] /\ o_check_compile o = o_ranges o)
  /\ (kind_static (o_kind o) = true -> o_ranges o <> [])
  (* elvish -compileonly *)
  /\ (forall ex rs, o_compileonly o = Some (ex, rs) ->
        (ex = 2%Z <-> kind_static (o_kind o) = true)
        /\ (rs <> [] <-> kind_static (o_kind o) = true)
        /\ (ex = 2%Z \/ ex = 0%Z)).

Lemma eqb_true_iff_bools a b : Bool.eqb a b = true -> (a = true <-> b = true).
Proof. destruct a, b; cbn; intros; split; congruence. Qed.

Theorem check_C16_sound o : check_C16 o = true -> Spec_C16 o.
Proof.
  unfold check_C16, Spec_C16. intros H.
  repeat match goal with
  | H : _ && _ = true |- _ => apply andb_true_iff in H; destruct H
  end.
  match goal with H1 : (if kind_static _ then _ && _ else true) = true |- _ => rename H1 into HE end.
  match goal with H1 : Bool.eqb (_ || _) _ = true |- _ => rename H1 into HC end.
  match goal with H1 : (if kind_static _ then nonempty _ else true) = true |- _ => rename H1 into HR end.
  match goal with H1 : match o_compileonly o with _ => _ end = true |- _ => rename H1 into HO end.
  match goal with H1 : match o_kind o with _ => _ end = true |- _ => rename H1 into HK end.
  split; [|split; [|split; [|split; [|split]]]].
  - intros S. rewrite S in HE. apply andb_true_iff in HE as [E1 E2].
    split; [destruct (o_effects o); [reflexivity|discriminate]|exact E2].
  - apply eqb_true_iff_bools in HC. rewrite <- HC, orb_true_iff, !nonempty_spec. tauto.
  - intros K. rewrite K in HK. apply ranges_eqb_spec in HK. exact HK.
  - intros K. rewrite K in HK. apply andb_true_iff in HK as [K1 K2].
    apply negb_true_iff, nonempty_false in K1. apply ranges_eqb_spec in K2. auto.
  - intros S. rewrite S in HR. apply nonempty_spec. exact HR.
  - intros ex rs E. rewrite E in HO.
    apply andb_true_iff in HO as [HO H3]. apply andb_true_iff in HO as [H1 H2].
    apply eqb_true_iff_bools in H1. apply eqb_true_iff_bools in H2.
    rewrite Z.eqb_eq in H1. rewrite nonempty_spec in H2.
    apply orb_true_iff in H3. rewrite !Z.eqb_eq in H3. auto.
Qed.

(* The model's own observation passes the oracle, for every reference input:
   any parse result, any compile result, any effects of the code, both ways of
   passing the global namespace, with and without -compileonly. *)
Theorem model_meets_oracle c : check_C16 (predict c) = true.
Proof.
  destruct c as [mode rp rc re rx wc ob].
  unfold predict, check_C16, Eval, Check, CheckTree, compileonly_exit, m_parse, m_compile, m_exec, ev0.
  cbn [c_mode c_ref_parse c_ref_compile c_ref_effects c_ref_exc c_with_co].
  destruct rp as [|p rp'], rc as [|q rc'], (N.eqb mode 0), rx, wc; cbn;
    rewrite ?effects_of_app, ?effects_of_map, ?ranges_eqb_refl, ?app_nil_r; cbn;
    rewrite ?range_eqb_refl; reflexivity.
Qed.

(* a case that the judge accepts satisfies the specification *)
Theorem judge_accepts_sound c : judge1 c = 0%N -> Spec_C16 (c_obs c).
Proof.
  unfold judge1, code. intros H. apply check_C16_sound.
  destruct (check_C16 (c_obs c)); [reflexivity|cbn in H; discriminate].
Qed.

(* ================================================================== *)
(* Non-vacuity: concrete runs of the model *)
Example ex_static_error_after_effects :
  let c := mkCase 0 [] [(30, 42)] [mkEff 0 [] None (Some [104;105])] false true
                  (mkObs KCompile [(30, 42)] [] true [] [(30, 42)] [] (Some (2%Z, [(30, 42)]))) in
  judge1 c = 0 /\ o_effects (predict c) = [] /\ o_kind (predict c) = KCompile.
Proof. vm_compute. auto. Qed.

Example ex_valid_code_runs :
  let c := mkCase 0 [] [] [mkEff 0 [] None (Some [104;105])] false false
                  (mkObs KOk [] [mkEff 0 [] None (Some [104;105])] false [] [] [] None) in
  judge1 c = 0 /\ o_global_same (predict c) = false.
Proof. vm_compute. auto. Qed.

(* the oracle rejects output before a compilation error, a replaced global
   namespace, and a static check that is silent *)
Example ex_oracle_rejects :
  check_C16 (mkObs KCompile [(1, 2)] [mkEff 0 [] None (Some [104])] true [] [(1, 2)] [] None) = false
  /\ check_C16 (mkObs KCompile [(1, 2)] [] false [] [(1, 2)] [] None) = false
  /\ check_C16 (mkObs KCompile [(1, 2)] [] true [] [] [] None) = false
  /\ check_C16 (mkObs KOk [] [] false [] [(1, 2)] [] None) = false
  /\ check_C16 (mkObs KParse [(1, 2)] [] true [(1, 2)] [] [] (Some (0%Z, []))) = false.
Proof. vm_compute. auto. Qed.
