(* Proofs for the supporting model C16_static: the clone protects every array
   that existed before the compilation. *)
From verif Require Import lib.Base model.C16_static.
Local Open Scope nat_scope.

Lemma length_upd {A} (l : list A) i x : length (upd l i x) = length l.
Proof. revert i; induction l as [|y l IH]; intros [|i]; cbn; auto. Qed.

Lemma nth_upd_other {A} (l : list A) i j x d : i <> j -> nth j (upd l i x) d = nth j l d.
Proof.
  revert i j; induction l as [|y l IH]; intros [|i] [|j] H; cbn; try reflexivity; try congruence.
  apply IH. congruence.
Qed.

Lemma arr_upd_other h b v a : a <> b -> arr (upd h b v) a = arr h a.
Proof. intros H. unfold arr. apply nth_upd_other. congruence. Qed.

Lemma arr_app_lt h l a : a < length h -> arr (h ++ l) a = arr h a.
Proof. intros H. unfold arr. apply app_nth1, H. Qed.

Lemma del_length h s k : length (del h s k) = length h.
Proof. unfold del. destruct (lookup h s k); [apply length_upd|reflexivity]. Qed.

Lemma del_other h s k a : a <> s_arr s -> arr (del h s k) a = arr h a.
Proof. intros H. unfold del. destruct (lookup h s k); [apply arr_upd_other, H|reflexivity]. Qed.

Lemma append_spec slack h s x n0 :
  n0 <= s_arr s -> n0 <= length h ->
  let '(h1, s1) := append slack h s x in
  n0 <= s_arr s1 /\ n0 <= length h1 /\ forall a, a < n0 -> arr h1 a = arr h a.
Proof.
  intros Hs Hh. unfold append. destruct (Nat.ltb (s_len s) (length (arr h (s_arr s)))).
  - cbn [s_arr]. rewrite length_upd. repeat split; try assumption.
    intros a Ha. apply arr_upd_other. lia.
  - cbn [s_arr]. rewrite app_length. cbn [length]. repeat split; try lia.
    intros a Ha. apply arr_app_lt. lia.
Qed.

Lemma add_spec slack h s k n0 :
  n0 <= s_arr s -> n0 <= length h ->
  let '(h1, s1) := add slack h s k in
  n0 <= s_arr s1 /\ n0 <= length h1 /\ forall a, a < n0 -> arr h1 a = arr h a.
Proof.
  intros Hs Hh. unfold add.
  pose proof (append_spec slack (del h s k) s (mkInfo k false false) n0 Hs) as A.
  rewrite del_length in A. specialize (A Hh).
  destruct (append slack (del h s k) s (mkInfo k false false)) as [h1 s1].
  destruct A as (A1 & A2 & A3). repeat split; try assumption.
  intros a Ha. rewrite A3 by assumption. apply del_other. lia.
Qed.

(* the invariant: the compiler's working slice lives in an array allocated after
   the mark n0, so no array below the mark is ever written *)
Lemma run_ops_preserves n0 ops : forall slacks h s,
  n0 <= s_arr s -> n0 <= length h ->
  forall a, a < n0 -> arr (fst (run_ops slacks h s ops)) a = arr h a.
Proof.
  induction ops as [|o ops IH]; intros slacks h s Hs Hh a Ha; [reflexivity|].
  destruct o as [k|k]; cbn [run_ops].
  - pose proof (add_spec (hd 0 slacks) h s k n0 Hs Hh) as A.
    destruct (add (hd 0 slacks) h s k) as [h1 s1]. destruct A as (A1 & A2 & A3).
    rewrite IH by assumption. apply A3, Ha.
  - rewrite IH; [|assumption|rewrite del_length; assumption|assumption].
    apply del_other. lia.
Qed.

(* With the clone, whatever the compiler adds and deletes, and whatever spare
   capacity each allocation picks, every array that existed before compile —
   in particular the one behind ev.global.infos and the builtin's — is unchanged. *)
Theorem clone_protects_caller slacks h g ops a :
  a < length h -> arr (fst (compile_ns true slacks h g ops)) a = arr h a.
Proof.
  intros Ha. unfold compile_ns, clone.
  rewrite (run_ops_preserves (length h)); cbn [s_arr]; try lia.
  - apply arr_app_lt, Ha.
  - rewrite app_length. cbn. lia.
Qed.

Corollary clone_protects_global_view slacks h g ops :
  s_arr g < length h -> view (fst (compile_ns true slacks h g ops)) g = view h g.
Proof. intros H. unfold view. rewrite clone_protects_caller by exact H. reflexivity. Qed.

(* Without the clone a single [var a] (add of an existing name) already marks the
   caller's variable as deleted. *)
Theorem without_clone_global_is_mutated :
  exists slacks h g ops, s_arr g < length h /\ view (fst (compile_ns false slacks h g ops)) g <> view h g.
Proof.
  exists [], [[mkInfo [97%N] false false]], (mkSlice 0 1), [OAdd [97%N]].
  split; [cbn; lia|]. vm_compute. discriminate.
Qed.
