(* C06 — the tree part of the persistent vector: shape invariant (left-packed
   tree of full leaves), and what descend / doAssoc / pushTail / newPath /
   popTail do to it, stated through the positional read [tget]. *)
From Coq Require Import Lia ZArith List Bool Arith.
From verif Require Import lib.Base lib.ListX model.C06 proofs.C06_defs.
Open Scope nat_scope.

(* ---- generic list facts ---- *)
Lemma upd_length {T} k (x : T) l : length (upd k x l) = length l.
Proof. revert k; induction l as [|y l IH]; intros [|k]; simpl; auto. Qed.

Lemma nth_upd_same {T} k (x d : T) l : k < length l -> nth k (upd k x l) d = x.
Proof. revert k; induction l as [|y l IH]; intros [|k] H; simpl in *; try lia; auto. apply IH; lia. Qed.

Lemma nth_upd_other {T} k j (x d : T) l : j <> k -> nth j (upd k x l) d = nth j l d.
Proof. revert k j; induction l as [|y l IH]; intros [|k] [|j] H; simpl in *; try lia; auto. Qed.

Lemma nth_error_nth_len {T} (l : list T) k d : k < length l -> nth_error l k = Some (nth k l d).
Proof. intros H. apply nth_error_nth'. exact H. Qed.

Lemma nth_error_upd_same {T} k (x : T) l : k < length l -> nth_error (upd k x l) k = Some x.
Proof. revert k; induction l as [|y l IH]; intros [|k] H; simpl in *; try lia; auto. apply IH; lia. Qed.

Lemma nth_error_upd_other {T} k j (x : T) l : j <> k -> nth_error (upd k x l) j = nth_error l j.
Proof. revert k j; induction l as [|y l IH]; intros [|k] [|j] H; simpl in *; try lia; auto. Qed.

Lemma nth_repeat_nil k m : nth k (repeat ANil m) ANil = ANil.
Proof. revert k; induction m; intros [|k]; simpl; auto. Qed.

Section Tree.
Variable b : Z.
Hypothesis Hb : (1 <= b)%Z.
Notation Bn := (B b).
Notation pw := (pw b).
Notation dig := (dig b).

Fixpoint shape (h : nat) (n : any) (L : nat) : Prop :=
  match h with
  | O => (L = 0 /\ n = ANil) \/ (L = 1 /\ exists cs, n = ANode cs /\ length cs = Bn)
  | S h' => (L = 0 /\ n = ANil) \/
      (0 < L <= pw (S h') /\ exists cs, n = ANode cs /\ length cs = Bn /\
         forall k, k < Bn -> shape h' (nth k cs ANil) (Nat.min (pw h') (L - k * pw h')))
  end.

Definition tget (h : nat) (n : any) (i : nat) : option any :=
  match descend b h n (Z.of_nat i) with Some cs => nth_error cs (i mod Bn) | None => None end.

Lemma shape_nil h L : shape h ANil L -> L = 0.
Proof.
  destruct h; simpl.
  - intros [[H _]|[_ [cs [H _]]]]; auto; discriminate.
  - intros [[H _]|[_ [cs [H _]]]]; auto; discriminate.
Qed.

Lemma shape_zero h n : shape h n 0 -> n = ANil.
Proof. destruct h; simpl; intros [[_ H]|[H _]]; auto; lia. Qed.

Lemma shape_nil_0 h : shape h ANil 0.
Proof. destruct h; simpl; left; auto. Qed.

Lemma shape_node h n L : shape h n L -> 0 < L -> exists cs, n = ANode cs /\ length cs = Bn.
Proof.
  destruct h; simpl.
  - intros [[H _]|[_ [cs [H1 H2]]]] HL; [lia|eauto].
  - intros [[H _]|[_ [cs [H1 [H2 _]]]]] HL; [lia|eauto].
Qed.

Lemma shape_S_inv h cs L : shape (S h) (ANode cs) L ->
  0 < L <= pw (S h) /\ length cs = Bn /\
  forall k, k < Bn -> shape h (nth k cs ANil) (Nat.min (pw h) (L - k * pw h)).
Proof.
  simpl. intros [[_ H]|[HL [cs' [H1 [H2 H3]]]]]; [discriminate|]. inversion H1; subst. auto.
Qed.

Lemma shape_le h n L : shape h n L -> L <= pw h.
Proof.
  destruct h; simpl.
  - intros [[H _]|[H _]]; subst; unfold C06_defs.pw; simpl; lia.
  - intros [[H _]|[H _]]; [subst; pose proof (pw_pos b Hb (S h)); lia|lia].
Qed.

(* ---- unfolding descend / tget one level ---- *)
Lemma tget_0 cs i : tget 0 (ANode cs) i = nth_error cs (i mod Bn).
Proof. reflexivity. Qed.

Lemma descend_S h cs i :
  descend b (S h) (ANode cs) (Z.of_nat i) =
  match nth_error cs (dig i (S h)) with Some c => descend b h c (Z.of_nat i) | None => None end.
Proof. cbn [descend]. rewrite (chunk_nat b Hb). reflexivity. Qed.

Lemma tget_S h cs i : length cs = Bn ->
  tget (S h) (ANode cs) i = tget h (nth (dig i (S h)) cs ANil) i.
Proof.
  intros Hl. unfold tget. rewrite descend_S.
  rewrite (nth_error_nth_len cs _ ANil) by (rewrite Hl; apply dig_lt; exact Hb). reflexivity.
Qed.

(* i mod B^(h+2) = i mod B^(h+1) + B^(h+1) * digit_{h+1}(i) *)
Lemma idx_split h i : i mod pw (S (S h)) = i mod pw (S h) + pw (S h) * dig i (S h).
Proof.
  pose proof (pw_pos b Hb (S h)) as P. pose proof (B_ge2 b Hb) as HB.
  rewrite (pw_S b (S h)), Nat.mul_comm. unfold C06_defs.dig.
  apply Nat.mod_mul_r; lia.
Qed.

Lemma mod_pw_lt h i : i mod pw h < pw h.
Proof. apply Nat.mod_upper_bound. pose proof (pw_pos b Hb h); lia. Qed.

(* the child that index i goes through has room for it *)
Lemma child_room h L i :
  i mod pw (S (S h)) < L * Bn ->
  i mod pw (S h) < Nat.min (pw h) (L - dig i (S h) * pw h) * Bn.
Proof.
  intros H. rewrite idx_split in H. pose proof (mod_pw_lt (S h) i) as R.
  rewrite (pw_S b h) in *. set (r := i mod (Bn * pw h)) in *. set (k := dig i (S h)) in *.
  set (P := pw h) in *. destruct (Nat.min_spec P (L - k * P)) as [[_ E]|[_ E]]; rewrite E; nia.
Qed.

Lemma get_ok h : forall n L i, shape h n L -> i mod pw (S h) < L * Bn ->
  exists x, tget h n i = Some x.
Proof.
  induction h as [|h IH]; intros n L i Hs Hi.
  - simpl in Hs. destruct Hs as [[H _]|[H [cs [H1 H2]]]]; [subst; lia|]. subst.
    rewrite tget_0. destruct (nth_error cs (i mod Bn)) eqn:E; [eauto|].
    apply nth_error_None in E. pose proof (Nat.mod_upper_bound i Bn). pose proof (B_ge2 b Hb). lia.
  - destruct L as [|L']; [lia|].
    destruct (shape_node _ _ _ Hs ltac:(lia)) as [cs [-> Hl]].
    apply shape_S_inv in Hs. destruct Hs as [HL [_ Hk]].
    rewrite tget_S by exact Hl. eapply IH; [apply Hk; apply dig_lt; exact Hb|].
    apply child_room. exact Hi.
Qed.

Lemma pw1 : pw 1 = Bn.
Proof. unfold C06_defs.pw. apply Nat.pow_1_r. Qed.

Lemma mod_eq_split h i j :
  (j mod pw (S (S h)) =? i mod pw (S (S h))) =
  (dig j (S h) =? dig i (S h)) && (j mod pw (S h) =? i mod pw (S h)).
Proof.
  rewrite !idx_split. pose proof (mod_pw_lt (S h) i). pose proof (mod_pw_lt (S h) j).
  pose proof (pw_pos b Hb (S h)) as P.
  destruct (Nat.eqb_spec (dig j (S h)) (dig i (S h))) as [E|E];
  destruct (Nat.eqb_spec (j mod pw (S h)) (i mod pw (S h))) as [E'|E']; simpl;
  [apply Nat.eqb_eq; congruence| | |]; apply Nat.eqb_neq; nia.
Qed.

(* ---- doAssoc ---- *)
Lemma doAssoc_ok h : forall n L i x, shape h n L -> i mod pw (S h) < L * Bn ->
  exists n', doAssoc b h n (Z.of_nat i) x = Some n' /\ shape h n' L /\
    forall j, tget h n' j = if (j mod pw (S h) =? i mod pw (S h)) then Some x else tget h n j.
Proof.
  pose proof (B_ge2 b Hb) as HB.
  induction h as [|h IH]; intros n L i x Hs Hi.
  - simpl in Hs. destruct Hs as [[H _]|[H [cs [H1 H2]]]]; [subst; lia|]. subst.
    cbn [doAssoc]. rewrite (chunk_nat b Hb), (dig0 b). eexists; split; [reflexivity|]. split.
    + simpl. right. split; [reflexivity|]. eexists; split; [reflexivity|]. rewrite upd_length; exact H2.
    + intros j. rewrite !tget_0, pw1.
      assert (U : i mod Bn < length cs) by (rewrite H2; apply Nat.mod_upper_bound; lia).
      destruct (Nat.eqb_spec (j mod Bn) (i mod Bn)) as [E|E].
      * rewrite E. apply nth_error_upd_same; exact U.
      * apply nth_error_upd_other; exact E.
  - destruct L as [|L']; [lia|].
    destruct (shape_node _ _ _ Hs ltac:(lia)) as [cs [-> Hl]].
    apply shape_S_inv in Hs. destruct Hs as [HL [_ Hk]].
    cbn [doAssoc]. rewrite (chunk_nat b Hb).
    assert (Hd : dig i (S h) < Bn) by (apply dig_lt; exact Hb).
    rewrite (nth_error_nth_len cs _ ANil) by lia.
    destruct (IH _ _ i x (Hk _ Hd) (child_room _ _ _ Hi)) as [c' [E [Hs' Hg]]].
    rewrite E. eexists; split; [reflexivity|]. split.
    + simpl. right. split; [exact HL|]. eexists; split; [reflexivity|]. rewrite upd_length. split; [exact Hl|].
      intros k Hk'. destruct (Nat.eq_dec k (dig i (S h))) as [->|Ne].
      * rewrite nth_upd_same by lia. exact Hs'.
      * rewrite nth_upd_other by exact Ne. apply Hk; exact Hk'.
    + intros j. rewrite !tget_S by (rewrite ?upd_length; exact Hl). rewrite mod_eq_split.
      destruct (Nat.eqb_spec (dig j (S h)) (dig i (S h))) as [E'|E']; simpl.
      * rewrite E'. rewrite nth_upd_same by lia. apply Hg.
      * rewrite nth_upd_other by exact E'. reflexivity.
Qed.

(* leaf number of index i inside a subtree *)
Lemma leaf_split h i :
  (i mod pw (S (S h))) / Bn = (i mod pw (S h)) / Bn + pw h * dig i (S h) /\
  (i mod pw (S h)) / Bn < pw h.
Proof.
  pose proof (B_ge2 b Hb) as HB. split.
  - rewrite idx_split. rewrite (pw_S b h).
    replace (Bn * pw h * dig i (S h)) with (pw h * dig i (S h) * Bn) by lia.
    apply Nat.div_add. lia.
  - apply Nat.div_lt_upper_bound; [lia|]. rewrite <- (pw_S b h). apply mod_pw_lt.
Qed.

Lemma shape_not_val h a L : ~ shape h (AVal a) L.
Proof. destruct h; simpl; intros [[_ H]|[_ [cs [H _]]]]; discriminate. Qed.

Lemma newNode_length : length (newNode b) = Bn.
Proof. unfold newNode. apply repeat_length. Qed.

Lemma shape_leaf leaf : length leaf = Bn -> shape 0 (ANode leaf) 1.
Proof. intros H. cbn [shape]. right. split; [reflexivity|]. exists leaf. split; [reflexivity|exact H]. Qed.

(* ---- newPath ---- *)
Lemma newPath_ok h : forall leaf, length leaf = Bn ->
  shape h (newPath b h (ANode leaf)) 1 /\
  forall j, j mod pw (S h) < Bn -> tget h (newPath b h (ANode leaf)) j = nth_error leaf (j mod Bn).
Proof.
  pose proof (B_ge2 b Hb) as HB.
  induction h as [|h IH]; intros leaf Hl.
  - split; [apply shape_leaf; exact Hl|]. intros j _. apply tget_0.
  - destruct (IH leaf Hl) as [Hs Hg]. pose proof (pw_pos b Hb h) as P. pose proof (pw_pos b Hb (S h)) as P'.
    cbn [newPath]. split.
    + cbn [shape]. right. split; [fold (pw (S h)); lia|]. eexists; split; [reflexivity|].
      rewrite upd_length, newNode_length. split; [reflexivity|]. intros k Hk.
      destruct k as [|k].
      * rewrite nth_upd_same by (rewrite newNode_length; lia).
        replace (Nat.min (pw h) (1 - 0 * pw h)) with 1 by lia. exact Hs.
      * rewrite nth_upd_other by lia. unfold newNode. rewrite nth_repeat_nil.
        replace (Nat.min (pw h) (1 - S k * pw h)) with 0 by nia. apply shape_nil_0.
    + intros j Hj. rewrite tget_S by (rewrite upd_length; apply newNode_length).
      rewrite idx_split in Hj. pose proof (mod_pw_lt (S h) j) as R.
      assert (M : Bn <= pw (S h)) by (rewrite (pw_S b h); nia).
      assert (D : dig j (S h) = 0) by nia. rewrite D.
      rewrite nth_upd_same by (rewrite newNode_length; lia). apply Hg. lia.
Qed.

(* ---- pushTail ---- *)
Lemma pushTail_ok h : forall n L p leaf, length leaf = Bn ->
  (h = 0 \/ (0 < L /\ shape h n L)) -> L < pw h -> (p mod pw (S h)) / Bn = L ->
  exists n', pushTail b (Z.of_nat p + 1) h n (ANode leaf) = Some n' /\ shape h n' (L + 1) /\
   (forall j, j mod pw (S h) < L * Bn -> tget h n' j = tget h n j) /\
   (forall j, (j mod pw (S h)) / Bn = L -> tget h n' j = nth_error leaf (j mod Bn)).
Proof.
  pose proof (B_ge2 b Hb) as HB.
  induction h as [|h IH]; intros n L p leaf Hl Hpre HL Hp.
  - unfold C06_defs.pw in HL. simpl in HL.
    cbn [pushTail]. eexists; split; [reflexivity|].
    split; [replace (L + 1) with 1 by lia; apply shape_leaf; exact Hl|]. split.
    + intros j Hj. nia.
    + intros j _. apply tget_0.
  - destruct Hpre as [Hpre|[HL0 Hs]]; [discriminate|].
    destruct (shape_node _ _ _ Hs HL0) as [cs [-> Hcs]].
    apply shape_S_inv in Hs. destruct Hs as [HLb [_ Hk]].
    destruct (leaf_split h p) as [Hsp Hlt]. rewrite Hp in Hsp.
    set (k := dig p (S h)) in *. set (Lc := (p mod pw (S h)) / Bn) in *.
    assert (Hkb : k < Bn) by (apply dig_lt; exact Hb).
    pose proof (pw_pos b Hb h) as P.
    assert (Hmin : Nat.min (pw h) (L - k * pw h) = Lc) by nia.
    pose proof (Hk k Hkb) as Hc. rewrite Hmin in Hc.
    assert (Hchild : exists c', pushTail b (Z.of_nat p + 1) (S h) (ANode cs) (ANode leaf)
                                = Some (ANode (upd k c' cs)) /\ shape h c' (Lc + 1) /\
       (forall j, j mod pw (S h) < Lc * Bn -> tget h c' j = tget h (nth k cs ANil) j) /\
       (forall j, (j mod pw (S h)) / Bn = Lc -> tget h c' j = nth_error leaf (j mod Bn))).
    { cbn [pushTail]. replace (Z.of_nat p + 1 - 1)%Z with (Z.of_nat p) by lia.
      rewrite (chunk_nat b Hb). fold k. rewrite (nth_error_nth_len cs k ANil) by lia.
      destruct (nth k cs ANil) as [|a|ccs] eqn:Ec.
      - apply shape_nil in Hc. destruct (newPath_ok h leaf Hl) as [Hs' Hg'].
        eexists; split; [reflexivity|]. rewrite Hc. split; [exact Hs'|]. split.
        + intros j Hj. lia.
        + intros j Hj. apply Hg'. apply Nat.div_small_iff; [lia|exact Hj].
      - exfalso. eapply shape_not_val; exact Hc.
      - assert (0 < Lc).
        { destruct Lc; [|lia]. apply shape_zero in Hc. discriminate. }
        destruct (IH (ANode ccs) Lc p leaf Hl ltac:(right; split; assumption) Hlt eq_refl) as [c' [E [Hs' [G1 G2]]]].
        rewrite E. eexists; split; [reflexivity|]. split; [exact Hs'|]. split; assumption. }
    destruct Hchild as [c' [E [Hs' [G1 G2]]]]. rewrite E. eexists; split; [reflexivity|].
    split; [|split].
    + cbn [shape]. right. split; [fold (pw (S h)); lia|]. eexists; split; [reflexivity|].
      rewrite upd_length. split; [exact Hcs|]. intros k' Hk'.
      destruct (Nat.eq_dec k' k) as [->|Ne].
      * rewrite nth_upd_same by lia. replace (Nat.min (pw h) (L + 1 - k * pw h)) with (Lc + 1) by nia. exact Hs'.
      * rewrite nth_upd_other by exact Ne.
        replace (Nat.min (pw h) (L + 1 - k' * pw h)) with (Nat.min (pw h) (L - k' * pw h)) by nia.
        apply Hk; exact Hk'.
    + intros j Hj. rewrite !tget_S by (rewrite ?upd_length; exact Hcs).
      rewrite idx_split in Hj. pose proof (mod_pw_lt (S h) j) as R. rewrite (pw_S b h) in Hj, R.
      destruct (Nat.eq_dec (dig j (S h)) k) as [Ej|Ne].
      * rewrite Ej in *. rewrite nth_upd_same by lia. apply G1. rewrite (pw_S b h).
        set (r := j mod (Bn * pw h)) in *. clearbody r k Lc. rewrite Hsp in Hj.
        clear - Hj R Hlt P HB. nia.
      * rewrite nth_upd_other by exact Ne. reflexivity.
    + intros j Hj. rewrite !tget_S by (rewrite ?upd_length; exact Hcs).
      destruct (leaf_split h j) as [Hsj Hltj]. rewrite Hj in Hsj.
      assert (dig j (S h) = k) by nia.
      rewrite H. rewrite nth_upd_same by lia. apply G2. nia.
Qed.

Lemma pw0 : pw 0 = 1.
Proof. reflexivity. Qed.

(* ---- popTail (levels >= 1) ---- *)
Lemma popTail_SS cnt l cs :
  popTail b cnt (S (S l)) (ANode cs) =
  match nth_error cs (chunk b (cnt - 2) (S (S l))) with
  | Some (ANode ccs) =>
    match popTail b cnt (S l) (ANode ccs) with
    | Some newChild =>
      if isNil newChild && (chunk b (cnt - 2) (S (S l)) =? 0) then Some ANil
      else Some (ANode (upd (chunk b (cnt - 2) (S (S l))) newChild cs))
    | None => None
    end
  | _ => None
  end.
Proof. cbn [popTail]. destruct (nth_error cs (chunk b (cnt - 2) (S (S l)))) as [[| |ccs]|]; reflexivity. Qed.

Lemma popTail_ok h : forall n L p, shape (S h) n L -> 0 < L ->
  (p mod pw (S (S h))) / Bn = L - 1 ->
  exists n', popTail b (Z.of_nat p + 2) (S h) n = Some n' /\ shape (S h) n' (L - 1) /\
   forall j, j mod pw (S (S h)) < (L - 1) * Bn -> tget (S h) n' j = tget (S h) n j.
Proof.
  pose proof (B_ge2 b Hb) as HB.
  induction h as [|h IH]; intros n L p Hs HL0 Hp.
  - destruct (shape_node _ _ _ Hs HL0) as [cs [-> Hcs]].
    apply shape_S_inv in Hs. destruct Hs as [HLb [_ Hk]].
    destruct (leaf_split 0 p) as [Hsp Hlt]. rewrite Hp, pw0 in Hsp. rewrite pw0 in Hlt.
    set (k := dig p 1) in *. assert (Hkb : k < Bn) by (apply dig_lt; exact Hb).
    cbn [popTail]. replace (Z.of_nat p + 2 - 2)%Z with (Z.of_nat p) by lia.
    rewrite (chunk_nat b Hb). fold k.
    destruct (Nat.eqb_spec k 0) as [E0|E0].
    + eexists; split; [reflexivity|]. replace (L - 1) with 0 by lia. split; [apply shape_nil_0|].
      intros j Hj. lia.
    + eexists; split; [reflexivity|]. split.
      * cbn [shape]. right. split; [fold (pw 1); lia|]. eexists; split; [reflexivity|].
        rewrite upd_length. split; [exact Hcs|]. intros k' Hk'. rewrite pw0.
        destruct (Nat.eq_dec k' k) as [Ek|Ne].
        -- rewrite Ek, nth_upd_same by lia. replace (Nat.min 1 (L - 1 - k * 1)) with 0 by lia. apply (shape_nil_0 0).
        -- rewrite nth_upd_other by exact Ne.
           replace (Nat.min 1 (L - 1 - k' * 1)) with (Nat.min 1 (L - k' * 1)) by lia.
           specialize (Hk k' Hk'). rewrite pw0 in Hk. exact Hk.
      * intros j Hj. rewrite !tget_S by (rewrite ?upd_length; exact Hcs).
        rewrite idx_split, pw1 in Hj. rewrite nth_upd_other; [reflexivity|]. fold k in Hsp. nia.
  - destruct (shape_node _ _ _ Hs HL0) as [cs [-> Hcs]].
    apply shape_S_inv in Hs. destruct Hs as [HLb [_ Hk]].
    destruct (leaf_split (S h) p) as [Hsp Hlt]. rewrite Hp in Hsp.
    set (k := dig p (S (S h))) in *. set (Lr := (p mod pw (S (S h))) / Bn) in *.
    assert (Hkb : k < Bn) by (apply dig_lt; exact Hb).
    pose proof (pw_pos b Hb (S h)) as P.
    pose proof (Hk k Hkb) as Hc.
    replace (Nat.min (pw (S h)) (L - k * pw (S h))) with (Lr + 1) in Hc by nia.
    destruct (shape_node _ _ _ Hc ltac:(lia)) as [ccs [Ec Hccs]].
    destruct (IH _ _ p Hc ltac:(lia) ltac:(fold Lr; lia)) as [nc [E [Hs' G]]].
    replace (Lr + 1 - 1) with Lr in * by lia.
    rewrite popTail_SS. replace (Z.of_nat p + 2 - 2)%Z with (Z.of_nat p) by lia.
    rewrite (chunk_nat b Hb). fold k. rewrite (nth_error_nth_len cs k ANil) by lia.
    rewrite Ec. rewrite Ec in E. rewrite E.
    destruct (isNil nc && (k =? 0)) eqn:Eb.
    + apply andb_true_iff in Eb. destruct Eb as [En Ek]. apply Nat.eqb_eq in Ek.
      destruct nc; try discriminate. apply shape_nil in Hs'.
      eexists; split; [reflexivity|]. replace (L - 1) with 0 by nia. split; [apply shape_nil_0|].
      intros j Hj. lia.
    + assert (HL1 : 0 < L - 1).
      { apply andb_false_iff in Eb. destruct Eb as [En|Ek].
        - destruct Lr; [apply shape_zero in Hs'; subst nc; discriminate|lia].
        - apply Nat.eqb_neq in Ek. nia. }
      eexists; split; [reflexivity|]. split.
      * cbn [shape]. right. split; [fold (pw (S (S h))); lia|]. eexists; split; [reflexivity|].
        rewrite upd_length. split; [exact Hcs|]. intros k' Hk'.
        destruct (Nat.eq_dec k' k) as [Ek|Ne].
        -- rewrite Ek, nth_upd_same by lia.
           replace (Nat.min (pw (S h)) (L - 1 - k * pw (S h))) with Lr by nia. exact Hs'.
        -- rewrite nth_upd_other by exact Ne.
           replace (Nat.min (pw (S h)) (L - 1 - k' * pw (S h))) with (Nat.min (pw (S h)) (L - k' * pw (S h))) by nia.
           apply Hk; exact Hk'.
      * intros j Hj. rewrite !tget_S by (rewrite ?upd_length; exact Hcs).
        rewrite idx_split in Hj. pose proof (mod_pw_lt (S (S h)) j) as R.
        destruct (Nat.eq_dec (dig j (S (S h))) k) as [Ej|Ne].
        -- rewrite Ej in *. rewrite nth_upd_same by lia. apply G.
           rewrite (pw_S b (S h)) in Hj, R |- *.
           set (r := j mod (Bn * pw (S h))) in *. clearbody r k Lr.
           assert (L - 1 = Lr + pw (S h) * k) by lia.
           clear - Hj R Hlt P HB H. nia.
        -- rewrite nth_upd_other by exact Ne. reflexivity.
Qed.

(* descend depends only on the leaf number of the index *)
Lemma descend_leaf h : forall n i j, i / Bn = j / Bn ->
  descend b h n (Z.of_nat i) = descend b h n (Z.of_nat j).
Proof.
  pose proof (B_ge2 b Hb) as HB.
  induction h as [|h IH]; intros n i j E; [reflexivity|].
  destruct n as [| |cs]; try reflexivity. rewrite !descend_S.
  assert (D : dig i (S h) = dig j (S h)).
  { unfold C06_defs.dig. rewrite (pw_S b h). rewrite <- !Nat.div_div by (pose proof (pw_pos b Hb h); lia).
    rewrite E. reflexivity. }
  rewrite D. destruct (nth_error cs (dig j (S h))); [apply IH; exact E|reflexivity].
Qed.

End Tree.
