(* C11 — range: full correctness of the command on exact arguments of every
   representation, both directions, default and explicit step. *)
From Coq Require Import QArith Qabs Qround Qcanon Lia Lqa.
From verif Require Import lib.Base model.C11_Num model.C11 proofs.C11_proofs.
Open Scope Z_scope.

Definition nq (k : nat) : Q := Z.of_nat k # 1.

(* direction: up = true ascending (step > 0), false descending (step < 0) *)
Definition before (up : bool) (x e : Q) : Prop := if up then (x < e)%Q else (e < x)%Q.
Definition reach (up : bool) (x e : Q) : Prop := if up then (e <= x)%Q else (x <= e)%Q.
Definition sgn_ok (up : bool) (st : Q) : Prop := if up then (0 < st)%Q else (st < 0)%Q.

(* what a correct run of range emits: start + k*step for every k with that value
   before the end, each canonical; the first value not emitted has reached the end *)
Definition range_ok (up : bool) (s e st : Q) (vs : list num) : Prop :=
  (forall k, (k < length vs)%nat ->
     good (nth k vs (NInt 0)) (s + nq k * st) /\ before up (s + nq k * st)%Q e)
  /\ reach up (s + nq (length vs) * st)%Q e.

Lemma q_ltb_iff a b : q_ltb a b = true <-> (a < b)%Q.
Proof. unfold q_ltb. rewrite Qlt_alt. destruct (a ?= b)%Q; split; intros; try reflexivity; discriminate. Qed.

Lemma q_ltb_false a b : q_ltb a b = false <-> (b <= a)%Q.
Proof. split; intros H.
  - apply Qnot_lt_le. intros L. apply q_ltb_iff in L. congruence.
  - destruct (q_ltb a b) eqn:E; [|reflexivity]. apply q_ltb_iff in E. exfalso. apply (Qlt_not_le _ _ E H). Qed.

(* ------------------------------------------------------------------ *)
(* the big-int / rational loop, on Q *)
Fixpoint rq (up : bool) (fuel : nat) (cur e st : Q) : option (list Q) :=
  match fuel with
  | O => None
  | S fuel' =>
    if (if up then q_ltb cur e else q_ltb e cur) then
      match rq up fuel' (radd cur st) e st with Some r => Some (cur :: r) | None => None end
    else Some []
  end.

Lemma range_q_up_rq (mk : Q -> num) e st : forall fuel c,
  range_q_up fuel mk c e st = option_map (map mk) (rq true fuel c e st).
Proof. induction fuel as [|f IH]; intros c; [reflexivity|]. cbn [range_q_up rq].
  destruct (q_ltb c e); [|reflexivity]. rewrite IH. destruct (rq true f (radd c st) e st); reflexivity. Qed.

Lemma range_q_down_rq (mk : Q -> num) e st : forall fuel c,
  range_q_down fuel mk c e st = option_map (map mk) (rq false fuel c e st).
Proof. induction fuel as [|f IH]; intros c; [reflexivity|]. cbn [range_q_down rq].
  destruct (q_ltb e c); [|reflexivity]. rewrite IH. destruct (rq false f (radd c st) e st); reflexivity. Qed.

Lemma cont_iff (up : bool) c e : (if up then q_ltb c e else q_ltb e c) = true <-> before up c e.
Proof. destruct up; apply q_ltb_iff. Qed.

Lemma cont_false (up : bool) c e : (if up then q_ltb c e else q_ltb e c) = false <-> reach up c e.
Proof. destruct up; apply q_ltb_false. Qed.

Lemma nq_S k : (nq (S k) == nq k + 1)%Q.
Proof. unfold nq. rewrite Nat2Z.inj_succ. unfold Qeq, Qplus. cbn [Qnum Qden]. lia. Qed.

Lemma rq_spec (up : bool) e st (I : Q -> Prop) :
  sgn_ok up st -> (forall c, I c -> I (radd c st)) ->
  forall fuel n c, I c -> reach up (c + nq n * st)%Q e -> (n < fuel)%nat ->
  exists cs, rq up fuel c e st = Some cs
    /\ Forall I cs
    /\ (forall k, (k < length cs)%nat ->
          (nth k cs 0 == c + nq k * st)%Q /\ before up (c + nq k * st)%Q e)
    /\ reach up (c + nq (length cs) * st)%Q e.
Proof. intros Hs HI. induction fuel as [|f IH]; intros n c Ic Hr Hn; [lia|].
  cbn [rq]. destruct (if up then q_ltb c e else q_ltb e c) eqn:C.
  - apply cont_iff in C.
    assert (N0 : (nq 0 * st == 0)%Q) by (unfold nq; cbn; ring).
    destruct n as [|n'].
    { exfalso. destruct up; cbn in *; lra. }
    assert (E : (radd c st == c + st)%Q) by (unfold radd; apply Qred_correct).
    assert (M : (nq (S n') * st == nq n' * st + st)%Q) by (rewrite nq_S; ring).
    destruct (IH n' (radd c st) (HI c Ic)) as (cs & R & F & P & L); [|lia|].
    { destruct up; cbn in *; lra. }
    rewrite R. exists (c :: cs). split; [reflexivity|]. split; [constructor; assumption|].
    assert (ML : (nq (S (length cs)) * st == nq (length cs) * st + st)%Q) by (rewrite nq_S; ring).
    split.
    + intros k Hk. destruct k as [|k].
      * cbn [nth]. split; [lra|]. destruct up; cbn in *; lra.
      * cbn [nth length] in *. destruct (P k ltac:(lia)) as [P1 P2].
        assert (MK : (nq (S k) * st == nq k * st + st)%Q) by (rewrite nq_S; ring).
        split; [lra|]. destruct up; cbn in *; lra.
    + cbn [length]. destruct up; cbn in *; lra.
  - apply cont_false in C. exists []. split; [reflexivity|]. split; [constructor|]. split.
    + intros k Hk. cbn in Hk. lia.
    + cbn [length]. assert (N0 : (nq 0 * st == 0)%Q) by (unfold nq; cbn; ring).
      destruct up; cbn in *; lra.
Qed.

(* the fuel of the model is enough *)
Lemma fuel_reaches (up : bool) s e st : sgn_ok up st -> (if up then s <= e else e < s)%Q ->
  exists n, (n < range_fuel s e st)%nat /\ reach up (s + nq n * st)%Q e.
Proof. intros Hs Hd. set (x := ((e - s) / st)%Q).
  assert (Hst : ~ (st == 0)%Q) by (destruct up; cbn in Hs; lra).
  assert (Hx : (x * st == e - s)%Q) by (unfold x; field; exact Hst).
  assert (Ex : (Qabs (e - s) / Qabs st == x)%Q).
  { unfold x. destruct up; cbn in Hs.
    - rewrite (Qabs_pos (e - s)), (Qabs_pos st) by lra. reflexivity.
    - rewrite (Qabs_neg (e - s)), (Qabs_neg st) by lra. field. exact Hst. }
  exists (Z.to_nat (Qceiling x)). split.
  - unfold range_fuel. unfold Qminus in Ex. rewrite Ex. lia.
  - pose proof (Qle_ceiling x) as C.
    assert (N : (Qceiling x # 1 <= nq (Z.to_nat (Qceiling x)))%Q).
    { unfold nq, Qle. cbn [Qnum Qden]. lia. }
    assert (X : (x <= nq (Z.to_nat (Qceiling x)))%Q) by (eapply Qle_trans; [exact C|exact N]).
    set (m := nq (Z.to_nat (Qceiling x))) in *.
    destruct up; cbn in *.
    + assert ((x * st <= m * st)%Q) by (apply Qmult_le_compat_r; lra). lra.
    + assert ((m * (- st) >= x * (- st))%Q) by (apply Qmult_le_compat_r; lra). lra.
Qed.

(* the loop with an output constructor mk whose outputs are good *)
Lemma range_q_ok (up : bool) (mk : Q -> num) (I : Q -> Prop) s e st :
  sgn_ok up st -> (if up then s <= e else e < s)%Q ->
  I s -> (forall c, I c -> I (radd c st)) -> (forall c, I c -> good (from_go (mk c)) c) ->
  exists vs,
    of_fuel ((if up then range_q_up else range_q_down) (range_fuel s e st) mk s e st) = RVals vs
    /\ range_ok up s e st vs.
Proof. intros Hs Hd Is HI Hg.
  destruct (fuel_reaches up s e st Hs Hd) as (n & Hn & Hr).
  destruct (rq_spec up e st I Hs HI (range_fuel s e st) n s Is Hr Hn) as (cs & R & F & P & L).
  exists (map from_go (map mk cs)). split.
  - destruct up; [rewrite range_q_up_rq|rewrite range_q_down_rq]; rewrite R; reflexivity.
  - unfold range_ok. rewrite !map_length. split; [|exact L].
    intros k Hk. destruct (P k Hk) as [P1 P2]. split; [|exact P2].
    rewrite map_map. rewrite (nth_indep _ (NInt 0) (from_go (mk 0%Q))) by (rewrite map_length; exact Hk).
    rewrite (map_nth (fun c => from_go (mk c)) cs 0%Q k).
    eapply good_ext; [exact P1|]. apply Hg. rewrite Forall_forall in F. apply F, nth_In, Hk.
Qed.

(* ------------------------------------------------------------------ *)
(* the machine-int loop, descending *)
Lemma wrap_under z : min_int - two64 <= z < min_int -> wrap z = z + two64.
Proof. intros H. unfold wrap, min_int, max_int, two64 in *.
  rewrite <- (Z.mod_add _ 1) by lia. rewrite Z.mod_small; lia. Qed.

Lemma wrap_down cur st : in_int cur = true -> in_int st = true -> st < 0 ->
  (min_int <= cur + st /\ wrap (cur + st) = cur + st)
  \/ (cur + st < min_int /\ cur <= wrap (cur + st)).
Proof. intros Hc Hs N. apply in_int_iff in Hc. apply in_int_iff in Hs.
  destruct (Z_le_gt_dec min_int (cur + st)) as [G|G].
  - left. split; [exact G|]. apply wrap_id, in_int_iff. unfold min_int, max_int in *. lia.
  - right. split; [lia|]. rewrite wrap_under by (unfold min_int, max_int, two64 in *; lia).
    unfold min_int, max_int, two64 in *. lia. Qed.

Lemma range_int_down_ok e st : in_int e = true -> in_int st = true -> st < 0 ->
  forall fuel cur vs, in_int cur = true ->
  range_int_down fuel cur e st = Some vs ->
  vs = map (fun k => NInt (cur + Z.of_nat k * st)) (seq 0 (length vs))
  /\ (forall k, (k < length vs)%nat -> e < cur + Z.of_nat k * st)
  /\ cur + Z.of_nat (length vs) * st <= e.
Proof. intros He Hst Hneg. pose proof He as He'. apply in_int_iff in He'.
  induction fuel as [|fuel IH]; intros cur vs Hc H; [discriminate|].
  pose proof Hc as Hc'. apply in_int_iff in Hc'. cbn [range_int_down] in H.
  destruct (e <? cur) eqn:L.
  - apply Z.ltb_lt in L. pose proof (wrap_down cur st Hc Hst Hneg) as W.
    destruct (cur <=? wrap (cur + st)) eqn:B.
    + apply Z.leb_le in B. inversion H; subst vs. cbn [length seq map].
      rewrite Z.mul_0_l, Z.add_0_r. split; [reflexivity|]. split.
      * intros k Hk. assert (k = O) by lia. subst k. cbn. lia.
      * destruct W as [[G E]|[G E]]; [rewrite E in B; lia|]. unfold min_int in *. lia.
    + apply Z.leb_gt in B. destruct W as [[G E]|[G E]]; [|lia]. rewrite E in H.
      destruct (range_int_down fuel (cur + st) e st) as [r|] eqn:R; [|discriminate].
      inversion H; subst vs.
      assert (Hn : in_int (cur + st) = true) by (apply in_int_iff; unfold min_int, max_int in *; lia).
      destruct (IH _ _ Hn R) as (I1 & I2 & I3). cbn [length]. rewrite seq_map_S.
      split; [|split].
      * rewrite Z.mul_0_l, Z.add_0_r. f_equal. rewrite I1 at 1. apply map_ext. intros k. f_equal. lia.
      * intros k Hk. destruct k as [|k]; [cbn; lia|]. specialize (I2 k ltac:(lia)). lia.
      * lia.
  - apply Z.ltb_ge in L. inversion H; subst vs. cbn [length seq map].
    split; [reflexivity|]. split; [intros k Hk; lia|lia].
Qed.

Lemma range_int_down_term e st : in_int st = true -> st < 0 ->
  forall fuel n cur, in_int cur = true -> cur + Z.of_nat n * st <= e -> (n < fuel)%nat ->
  range_int_down fuel cur e st <> None.
Proof. intros Hst Hneg. induction fuel as [|fuel IH]; intros n cur Hc Hr Hn; [lia|].
  cbn [range_int_down]. destruct (e <? cur) eqn:L; [|discriminate]. apply Z.ltb_lt in L.
  destruct (cur <=? wrap (cur + st)) eqn:B; [discriminate|]. apply Z.leb_gt in B.
  destruct (wrap_down cur st Hc Hst Hneg) as [[G E]|[G E]]; [|lia]. rewrite E.
  destruct n as [|n']; [lia|].
  assert (Hn' : in_int (cur + st) = true).
  { apply in_int_iff in Hc. apply in_int_iff. unfold min_int, max_int in *. lia. }
  specialize (IH n' (cur + st) Hn' ltac:(lia) ltac:(lia)).
  destruct (range_int_down fuel (cur + st) e st); [discriminate|congruence].
Qed.

Lemma reach_Z (up : bool) s e st n :
  reach up ((s # 1) + nq n * (st # 1))%Q (e # 1) ->
  if up then e <= s + Z.of_nat n * st else s + Z.of_nat n * st <= e.
Proof. unfold reach, nq, Qle, Qplus, Qmult. destruct up; cbn [Qnum Qden]; lia. Qed.

Lemma nth_map_seq {A} (f : nat -> A) n k d : (k < n)%nat -> nth k (map f (seq 0 n)) d = f k.
Proof. intros H. rewrite (nth_indep _ d (f O)) by (rewrite map_length, seq_length; exact H).
  rewrite map_nth, seq_nth by exact H. reflexivity. Qed.

(* machine ints, either direction *)
Lemma range_int_ok (up : bool) s e st :
  in_int s = true -> in_int e = true -> in_int st = true ->
  (if up then s <= e /\ 0 < st else e < s /\ st < 0) ->
  exists vs,
    of_fuel ((if up then range_int_up else range_int_down) (range_fuel (s # 1) (e # 1) (st # 1)) s e st) = RVals vs
    /\ range_ok up (s # 1) (e # 1) (st # 1) vs.
Proof. intros Hs He Hst Hd.
  pose proof Hs as Hs'. pose proof He as He'. apply in_int_iff in Hs'. apply in_int_iff in He'.
  assert (T : exists l, (if up then range_int_up else range_int_down) (range_fuel (s # 1) (e # 1) (st # 1)) s e st = Some l
     /\ l = map (fun k => NInt (s + Z.of_nat k * st)) (seq 0 (length l))
     /\ (forall k, (k < length l)%nat -> if up then s + Z.of_nat k * st < e else e < s + Z.of_nat k * st)
     /\ (if up then e <= s + Z.of_nat (length l) * st else s + Z.of_nat (length l) * st <= e)).
  { destruct up; destruct Hd as [D1 D2].
    - rewrite range_fuel_int by assumption.
      pose proof (range_int_up_terminates e st Hst D2 (Z.to_nat (zceil (e - s) st) + 1) s Hs ltac:(lia)) as N.
      destruct (range_int_up _ s e st) as [l|] eqn:R; [|congruence]. exists l. split; [reflexivity|].
      exact (range_int_up_ok e st He Hst D2 _ _ _ Hs R).
    - destruct (fuel_reaches false (s # 1) (e # 1) (st # 1)) as (n & Hn & Hr).
      { unfold sgn_ok, Qlt. cbn. lia. } { unfold Qlt. cbn. lia. }
      apply reach_Z in Hr.
      pose proof (range_int_down_term e st Hst D2 _ n s Hs Hr Hn) as N.
      destruct (range_int_down _ s e st) as [l|] eqn:R; [|congruence]. exists l. split; [reflexivity|].
      exact (range_int_down_ok e st He Hst D2 _ _ _ Hs R). }
  destruct T as (l & R & L1 & L2 & L3). exists (map from_go l). split.
  - destruct up; rewrite R; reflexivity.
  - unfold range_ok. rewrite map_length. split.
    + intros k Hk. specialize (L2 k Hk).
      assert (Nk : nth k (map from_go l) (NInt 0) = NInt (s + Z.of_nat k * st)).
      { change (NInt 0) with (from_go (NInt 0)). rewrite map_nth. rewrite L1.
        rewrite nth_map_seq by exact Hk. reflexivity. }
      rewrite Nk. split.
      * repeat split; try reflexivity.
        -- cbn [canonical]. apply in_int_iff.
           assert (0 <= Z.of_nat k * st \/ Z.of_nat k * st <= 0) by lia.
           destruct up; destruct Hd as [D1 D2]; unfold min_int, max_int in *; nia.
        -- unfold nq, Qeq, Qplus, Qmult. cbn [qv Qnum Qden]. lia.
      * unfold before, nq, Qlt, Qplus, Qmult. destruct up; cbn [Qnum Qden]; lia.
    + unfold reach, nq, Qle, Qplus, Qmult. destruct up; cbn [Qnum Qden]; lia.
Qed.

(* ------------------------------------------------------------------ *)
(* range_nums per unified representation *)
Definition zdef (up : bool) : Z := if up then 1 else -1.

Lemma range_nums_SInt l zs ze ol :
  unify l TInt = SInt (zs :: ze :: ol) ->
  in_int zs = true -> in_int ze = true ->
  let up := zs <=? ze in
  let st := match ol with z :: _ => z | [] => zdef up end in
  in_int st = true -> (if up then 0 < st else st < 0) ->
  exists vs, range_nums l = RVals vs /\ range_ok up (zs # 1) (ze # 1) (st # 1) vs.
Proof. intros U Hs He up st Hst Hd. unfold range_nums. rewrite U. fold up.
  destruct up eqn:D; subst up.
  - replace (match ol with s :: _ => s | [] => 1 end) with st by (unfold st, zdef; destruct ol; reflexivity).
    assert (T : (st <=? 0) = false) by (apply Z.leb_gt; exact Hd). rewrite T.
    apply Z.leb_le in D. apply (range_int_ok true zs ze st Hs He Hst). split; assumption.
  - replace (match ol with s :: _ => s | [] => -1 end) with st by (unfold st, zdef; destruct ol; reflexivity).
    assert (T : (0 <=? st) = false) by (apply Z.leb_gt; exact Hd). rewrite T.
    apply Z.leb_gt in D. apply (range_int_ok false zs ze st Hs He Hst). split; [lia|assumption].
Qed.

Lemma Qred_z z : Qred (z # 1) = z # 1.
Proof. apply Qred_iff. cbn. apply Z.gcd_1_r. Qed.

Lemma den1_radd c z : Qden c = 1%positive -> Qden (radd c (z # 1)) = 1%positive.
Proof. destruct c as [a d]. cbn [Qden]. intros ->. unfold radd, Qplus. cbn [Qnum Qden].
  change (1 * 1)%positive with 1%positive. rewrite Qred_z. reflexivity. Qed.

Lemma good_big c : Qden c = 1%positive -> good (from_go (NBig (Qnum c))) c.
Proof. intros H. cbn [from_go]. eapply good_ext; [apply den1_value; exact H|apply normalize_big_good]. Qed.

Lemma range_nums_SBig l zs ze ol :
  unify l TInt = SBig (zs :: ze :: ol) ->
  let up := zs <=? ze in
  let st := match ol with z :: _ => z | [] => zdef up end in
  (if up then 0 < st else st < 0) ->
  exists vs, range_nums l = RVals vs /\ range_ok up (zs # 1) (ze # 1) (st # 1) vs.
Proof. intros U up st Hd. unfold range_nums. rewrite U. cbv zeta. fold up.
  destruct up eqn:D; subst up.
  - replace (match ol with s :: _ => s | [] => 1 end) with st by (unfold st, zdef; destruct ol; reflexivity).
    assert (T : (st <=? 0) = false) by (apply Z.leb_gt; exact Hd). rewrite T.
    apply Z.leb_le in D.
    apply (range_q_ok true (fun q => NBig (Qnum q)) (fun c => Qden c = 1%positive)).
    + unfold sgn_ok, Qlt. cbn. lia.
    + unfold Qle. cbn. lia.
    + reflexivity.
    + intros c. apply den1_radd.
    + intros c. apply good_big.
  - replace (match ol with s :: _ => s | [] => -1 end) with st by (unfold st, zdef; destruct ol; reflexivity).
    assert (T : (0 <=? st) = false) by (apply Z.leb_gt; exact Hd). rewrite T.
    apply Z.leb_gt in D.
    apply (range_q_ok false (fun q => NBig (Qnum q)) (fun c => Qden c = 1%positive)).
    + unfold sgn_ok, Qlt. cbn. lia.
    + unfold Qlt. cbn. lia.
    + reflexivity.
    + intros c. apply den1_radd.
    + intros c. apply good_big.
Qed.

Definition qdef (up : bool) : Q := if up then 1#1 else (-1)#1.

Lemma range_nums_SRat l qs qe ol :
  unify l TInt = SRat (qs :: qe :: ol) ->
  let up := Qle_bool qs qe in
  let st := match ol with q :: _ => q | [] => qdef up end in
  sgn_ok up st ->
  exists vs, range_nums l = RVals vs /\ range_ok up qs qe st vs.
Proof. intros U up st Hd. unfold range_nums. rewrite U.
  assert (Dir : negb (q_ltb qe qs) = up).
  { unfold up. destruct (Qle_bool qs qe) eqn:D.
    - apply Qle_bool_iff in D. apply negb_true_iff, q_ltb_false. exact D.
    - apply negb_false_iff, q_ltb_iff. apply Qnot_le_lt. intros L. apply Qle_bool_iff in L. congruence. }
  rewrite Dir. destruct up eqn:D; subst up.
  - replace (match ol with s :: _ => s | [] => q1 end) with st by (unfold st, qdef; destruct ol; reflexivity).
    assert (T : negb (q_ltb q0 st) = false) by (apply negb_false_iff, q_ltb_iff; exact Hd). rewrite T.
    apply (range_q_ok true NRat (fun _ => True)); auto.
    + apply Qle_bool_iff. exact D.
    + intros c _. apply normalize_rat_good.
  - replace (match ol with s :: _ => s | [] => -1 # 1 end) with st by (unfold st, qdef; destruct ol; reflexivity).
    assert (T : negb (q_ltb st q0) = false) by (apply negb_false_iff, q_ltb_iff; exact Hd). rewrite T.
    apply (range_q_ok false NRat (fun _ => True)); auto.
    + apply Qnot_le_lt. intros L. apply Qle_bool_iff in L. congruence.
    + intros c _. apply normalize_rat_good.
Qed.

(* ------------------------------------------------------------------ *)
(* the command *)
Definition opt_list (o : option num) : list num := match o with Some s => [s] | None => [] end.

Lemma range_ok_fixed up s e st vs : range_ok up s e st vs -> map from_go vs = vs.
Proof. intros [H _]. apply nth_ext with (d := from_go (NInt 0)) (d' := NInt 0); [apply map_length|].
  intros k Hk. rewrite map_length in Hk. rewrite map_nth.
  destruct (H k Hk) as [G _]. apply (good_from_go _ _ G). Qed.

Lemma Qle_bool_Z a b : Qle_bool (a # 1) (b # 1) = (a <=? b).
Proof. unfold Qle_bool. cbn [Qnum Qden]. rewrite !Z.mul_1_r. reflexivity. Qed.

Lemma sgn_ok_Z (up : bool) z : sgn_ok up (z # 1) -> if up then 0 < z else z < 0.
Proof. unfold sgn_ok, Qlt. destruct up; cbn [Qnum Qden]; lia. Qed.

Lemma qdef_zdef up : qdef up = (zdef up # 1).
Proof. destruct up; reflexivity. Qed.

Theorem range_exact ns ne ostep :
  exactc ns -> exactc ne -> (forall n, ostep = Some n -> exactc n) ->
  let s := qv ns in let e := qv ne in
  let up := Qle_bool s e in
  let st := match ostep with Some n => qv n | None => qdef up end in
  sgn_ok up st ->
  exists vs, call CRange [ns; ne] ostep = RVals vs /\ range_ok up s e st vs.
Proof. intros Hns Hne Hst s e up st Hsg.
  assert (Es : s = qv ns) by reflexivity. assert (Ee : e = qv ne) by reflexivity.
  assert (Eu : up = Qle_bool s e) by reflexivity.
  assert (Et : st = match ostep with Some n => qv n | None => qdef up end) by reflexivity.
  clearbody st. clearbody up. clearbody s e.
  set (l := ns :: ne :: opt_list ostep).
  assert (C : call CRange [ns; ne] ostep = map_result from_go (range_nums l))
    by (unfold call, call_raw, range, l; destruct ostep; reflexivity).
  assert (Hl : Forall exact l).
  { unfold l. constructor; [apply Hns|]. constructor; [apply Hne|].
    destruct ostep as [n|]; cbn; [constructor; [apply (Hst n eq_refl)|constructor]|constructor]. }
  assert (Fin : forall vs, range_nums l = RVals vs /\ range_ok up s e st vs ->
     exists vs, call CRange [ns; ne] ostep = RVals vs /\ range_ok up s e st vs).
  { intros vs [R K]. exists vs. split; [|exact K]. rewrite C, R. cbn [map_result].
    rewrite (range_ok_fixed _ _ _ _ _ K). reflexivity. }
  pose proof (unify_exact l TInt Hl ltac:(simpl; lia)) as U.
  inversion U as [H E|H E|E]; symmetry in E.
  - (* all machine ints *)
    assert (Hc : forall n, In n l -> exists z, n = NInt z /\ in_int z = true).
    { intros n Hn. rewrite Forall_forall in H. specialize (H n Hn).
      assert (Cn : canonical n = true).
      { unfold l in Hn. destruct Hn as [<-|[<-|Hn]]; [apply Hns|apply Hne|].
        destruct ostep as [m|]; cbn in Hn; [destruct Hn as [<-|[]]; apply (Hst m eq_refl)|contradiction]. }
      destruct n as [z| | |]; try discriminate. exists z. split; [reflexivity|exact Cn]. }
    destruct (Hc ns ltac:(unfold l; cbn; auto)) as (zs & -> & Is).
    destruct (Hc ne ltac:(unfold l; cbn; auto)) as (ze & -> & Ie).
    cbn [qv] in *. subst s e. rewrite Qle_bool_Z in Eu.
    destruct ostep as [n|].
    + destruct (Hc n ltac:(unfold l; cbn; auto)) as (zt & -> & It). cbn [qv] in *. subst st up.
      destruct (range_nums_SInt l zs ze [zt] E Is Ie It (sgn_ok_Z _ _ Hsg)) as (vs & R). apply (Fin vs R).
    + rewrite qdef_zdef in Et. subst st up.
      assert (It : in_int (zdef (zs <=? ze)) = true) by (destruct (zs <=? ze); reflexivity).
      destruct (range_nums_SInt l zs ze [] E Is Ie It (sgn_ok_Z _ _ Hsg)) as (vs & R). apply (Fin vs R).
  - (* integers, some of them big *)
    rewrite Forall_forall in H.
    pose proof (H ns ltac:(unfold l; cbn; auto)) as Hi1.
    pose proof (H ne ltac:(unfold l; cbn; auto)) as Hi2.
    rewrite <- (to_big_qv ns Hi1) in Es. rewrite <- (to_big_qv ne Hi2) in Ee. subst s e.
    rewrite Qle_bool_Z in Eu. unfold l in E. cbn [map] in E.
    destruct ostep as [n|]; cbn [opt_list map] in *.
    + pose proof (H n ltac:(unfold l; cbn; auto)) as Hi3.
      rewrite <- (to_big_qv n Hi3) in Et. subst st up.
      destruct (range_nums_SBig l (to_big ns) (to_big ne) [to_big n] E (sgn_ok_Z _ _ Hsg)) as (vs & R).
      apply (Fin vs R).
    + rewrite qdef_zdef in Et. subst st up.
      destruct (range_nums_SBig l (to_big ns) (to_big ne) [] E (sgn_ok_Z _ _ Hsg)) as (vs & R).
      apply (Fin vs R).
  - (* rationals *)
    rewrite Forall_forall in Hl.
    pose proof (Hl ns ltac:(unfold l; cbn; auto)) as He1.
    pose proof (Hl ne ltac:(unfold l; cbn; auto)) as He2.
    unfold l in E. cbn [map] in E. rewrite (to_rat_qv ns He1), (to_rat_qv ne He2) in E.
    subst s e.
    destruct ostep as [n|]; cbn [opt_list map] in *.
    + pose proof (Hl n ltac:(unfold l; cbn; auto)) as He3. rewrite (to_rat_qv n He3) in E.
      subst st up. destruct (range_nums_SRat _ _ _ _ E Hsg) as (vs & R). apply (Fin vs R).
    + subst st up. destruct (range_nums_SRat _ _ _ _ E Hsg) as (vs & R). apply (Fin vs R).
Qed.

(* one argument: the start is 0 *)
Theorem range_one_arg ne ostep : call CRange [ne] ostep = call CRange [NInt 0; ne] ostep.
Proof. reflexivity. Qed.

