(* C18 — proofs about the stage DSL of model/C18.v (instance of the generic
   LTS).  The schedule-quantified facts come from proofs/C18_lts_proofs.v. *)
From verif Require Import lib.Base lib.C18_Lts model.C18 proofs.C18_lts_proofs gen.Consts.
From Coq Require Import Arith PeanoNat.
Open Scope nat_scope.

Lemma capV_pos : 1 <= capV.
Proof. apply Nat.ltb_lt. vm_compute. reflexivity. Qed.

Lemma caps_pos capB : 1 <= capB -> forall b, 1 <= caps capB b.
Proof. intros H [|]; simpl; [apply capV_pos|exact H]. Qed.

(* ---- the remaining code of a stage is a suffix of its program ---- *)
Definition code_of (l : lstate) : list instr :=
  match l with
  | LRun c => c
  | LDrain f t _ _ rest => IDrain f t :: rest
  | LOnly b _ rest => IOnly b :: rest
  | LExit _ => []
  end.

Definition is_suffix (c prog : list instr) : Prop := exists pre, prog = pre ++ c.

Lemma suffix_tail i c prog : is_suffix (i :: c) prog -> is_suffix c prog.
Proof. intros [pre ->]. exists (pre ++ [i]). rewrite <- app_assoc. reflexivity. Qed.

Lemma suffix_nil prog : is_suffix [] prog.
Proof. exists prog. rewrite app_nil_r. reflexivity. Qed.

Lemma drain_cont_suffix f t br rest r prog :
  is_suffix (IDrain f t :: rest) prog -> is_suffix (code_of (drain_cont f t br rest r)) prog.
Proof.
  intros H. unfold drain_cont.
  destruct r as [| |b x|]; simpl; auto.
  - destruct br; simpl; auto. destruct (hits t x); simpl; auto. destruct (keep f x); simpl; auto.
  - destruct br; simpl; [apply suffix_nil|]. eapply suffix_tail; eauto.
Qed.

Lemma only_cont_suffix b rest r prog :
  is_suffix (IOnly b :: rest) prog -> is_suffix (code_of (only_cont b rest r)) prog.
Proof.
  intros H. unfold only_cont. destruct r as [| |c x|]; simpl; auto.
  - destruct (band_eqb c b); simpl; auto.
  - eapply suffix_tail; eauto.
Qed.

Lemma cont_suffix prog l r : is_suffix (code_of l) prog -> is_suffix (code_of (cont l r)) prog.
Proof.
  intros H. destruct l as [[|i rest]|f t pend br rest|b pend rest|e]; simpl in *; auto.
  - destruct i; simpl; auto.
    + destruct r; simpl; try (solve [eapply suffix_tail; eauto]). apply suffix_nil.
    + eapply suffix_tail; eauto.
    + apply drain_cont_suffix; exact H.
    + apply only_cont_suffix; exact H.
  - destruct pend as [[b x]|].
    + destruct r; simpl; auto.
    + apply drain_cont_suffix; exact H.
  - destruct pend as [x|].
    + destruct r; simpl; auto. apply suffix_nil.
    + apply only_cont_suffix; exact H.
Qed.

Lemma existsb_suffix (f : instr -> bool) c prog :
  is_suffix c prog -> existsb f c = true -> existsb f prog = true.
Proof. intros [pre ->] H. rewrite existsb_app, H. apply orb_true_r. Qed.

Lemma want_send_in l b x : want l = WSend b x -> existsb (sends_on b) (code_of l) = true.
Proof.
  destruct l as [[|i rest]|f t pend br rest|c pend rest|e]; simpl; try discriminate.
  - destruct i; try discriminate. intros H; inversion H; subst. simpl.
    rewrite band_eqb_refl. reflexivity.
  - intros _. reflexivity.
  - destruct pend; try discriminate. intros H; inversion H; subst.
    rewrite band_eqb_refl. reflexivity.
Qed.

Lemma want_recv1_in l b : want l = WRecv (Only b) -> existsb (recv1_on b) (code_of l) = true.
Proof.
  destruct l as [[|i rest]|f t pend br rest|c pend rest|e]; simpl; try discriminate.
  - destruct i; try discriminate. intros H; inversion H; subst. simpl.
    rewrite band_eqb_refl. reflexivity.
  - destruct pend as [[? ?]|]; discriminate.
  - destruct pend; discriminate.
Qed.

Lemma reachable_suffix p capB s : preachable p capB s ->
  forall k, is_suffix (code_of (loc (stg s k))) (nth k p []).
Proof.
  intros R. apply (local_invariant lstate want cont (length p) (caps capB) (init p)
                     (fun k l => is_suffix (code_of l) (nth k p []))); auto.
  - intros k. exists []. reflexivity.
  - intros k l r. apply cont_suffix.
Qed.

(* ---- no deadlock for pipelines without a cross-band pair ---- *)
Theorem dsl_progress p capB s :
  no_cross_band p = true -> 1 <= capB -> preachable p capB s -> ~ pdone p s ->
  can_move lstate want cont (length p) (caps capB) s.
Proof.
  intros Hs Hc R Hnd.
  destruct (progress_or_cross_band lstate want cont (length p) (caps capB) (init p)
              (caps_pos capB Hc) s R Hnd) as [H|[j [b [x [Hj [_ [_ [Wr [_ [Ww _]]]]]]]]]]; auto.
  exfalso.
  pose proof (reachable_suffix p capB s R) as Suf.
  apply want_recv1_in in Wr. apply want_send_in in Ww.
  apply (existsb_suffix _ _ _ (Suf (S j))) in Wr.
  apply (existsb_suffix _ _ _ (Suf j)) in Ww.
  unfold no_cross_band in Hs. rewrite forallb_forall in Hs.
  assert (In j (seq 0 (pred (length p)))) as Hin by (apply in_seq; lia).
  specialize (Hs j Hin). unfold safe_pair in Hs. rewrite forallb_forall in Hs.
  assert (In b [V; B]) as Hb by (destruct b; simpl; auto).
  specialize (Hs b Hb). rewrite Wr, Ww in Hs. discriminate.
Qed.

(* ---- the full progress statement is false: a reader waiting for a line while
   its writer is blocked on the full value channel (`range 100 | read-line`) ---- *)
Definition p_dead : pipeline := [repeat (ISend V 0%N) (S capV); [IRecv1 B]].

Lemma dead_run :
  match prun p_dead 1 (repeat (0, true) capV) with
  | Some s => stuckb lstate want cont (length p_dead) (caps 1) s
              && negb (all_doneb lstate (length p_dead) s)
  | None => false
  end = true.
Proof. vm_compute. reflexivity. Qed.

Lemma stuck_run_witness p capB sch :
  match prun p capB sch with
  | Some s => stuckb lstate want cont (length p) (caps capB) s
              && negb (all_doneb lstate (length p) s)
  | None => false
  end = true ->
  exists s, preachable p capB s /\ ~ pdone p s /\
            ~ can_move lstate want cont (length p) (caps capB) s.
Proof.
  intros H. destruct (prun p capB sch) as [s|] eqn:E; [|discriminate].
  apply andb_true_iff in H as [H1 H2].
  exists s. split.
  - unfold prun in E. eapply run_sched_reachable; [|exact E]. apply reach_init.
  - split.
    + intros Hd. apply all_doneb_iff in Hd. rewrite Hd in H2. discriminate.
    + apply stuckb_sound. exact H1.
Qed.

Theorem cross_band_wait_can_block :
  exists p capB s, 1 <= capB /\ preachable p capB s /\ ~ pdone p s /\
                   ~ can_move lstate want cont (length p) (caps capB) s.
Proof.
  exists p_dead, 1.
  destruct (stuck_run_witness p_dead 1 (repeat (0, true) capV) dead_run) as [s H].
  exists s. split; [apply le_n|exact H].
Qed.

(* ---- instances of the generic theorems ---- *)
Theorem dsl_allowed_complete p capB s :
  1 <= capB -> preachable p capB s -> pdone p s -> allowed p (pobs p s) = true.
Proof.
  intros Hc R Hd. unfold allowed, pobs.
  apply (allowed_outcome_complete lstate want cont (length p) (caps capB) (init p)); auto.
Qed.

Lemma prun_reachable p capB sch s : prun p capB sch = Some s -> preachable p capB s.
Proof. intros E. unfold prun in E. eapply run_sched_reachable; [|exact E]. apply reach_init. Qed.

(* ---- no single-band reads: no stage ever stops a pipeline from moving ---- *)
Lemma no_recv1_on b l : forallb no_recv1_instr l = true -> existsb (recv1_on b) l = false.
Proof.
  induction l as [|i l IH]; simpl; auto. intros H. apply andb_true_iff in H as [H1 H2].
  rewrite (IH H2), orb_false_r. destruct i; simpl in *; auto; discriminate.
Qed.

Lemma no_recv1_no_cross_band p : no_recv1 p = true -> no_cross_band p = true.
Proof.
  intros H. unfold no_recv1 in H. rewrite forallb_forall in H.
  unfold no_cross_band. apply forallb_forall. intros k Hk. apply in_seq in Hk.
  unfold safe_pair. apply forallb_forall. intros b _.
  assert (forallb no_recv1_instr (nth (S k) p []) = true) as Hp.
  { apply H. apply nth_In. lia. }
  rewrite (no_recv1_on b _ Hp). reflexivity.
Qed.

(* producers, filters (each), band filters (only-values / only-bytes), throwers,
   stages that leave at once: whatever exits early, nobody hangs *)
Theorem early_exit_never_hangs p capB s :
  no_recv1 p = true -> 1 <= capB -> preachable p capB s -> ~ pdone p s ->
  can_move lstate want cont (length p) (caps capB) s.
Proof. intros H. apply dsl_progress. apply no_recv1_no_cross_band; exact H. Qed.

(* the pipeline that hung before /repo f37fd5c (`range 1000 | only-values | nop`)
   now runs to completion under the schedule that used to block it and under the
   automatic ones *)
Definition p_filter : pipeline := [repeat (ISend V 0%N) (S (S capV)); [IOnly V]; []].
