(* C22 -- a module whose body ran to its end is never evaluated again: it
   stays cached for the life of the evaler. *)
From verif Require Import lib.Base model.C22 proofs.C22_proofs proofs.C22_inv.
Open Scope N_scope.

Definition is_end_of (m : N) (e : event) : bool :=
  match e with EEnd m' _ => m =? m' | _ => false end.

(* when a body starts, no evaluation of that module has ended before *)
Fixpoint ended_ok (r : list event) : bool :=
  match r with
  | [] => true
  | EStart m _ :: r' => negb (existsb (is_end_of m) r') && ended_ok r'
  | _ :: r' => ended_ok r'
  end.

Lemma is_end_of_In m r : existsb (is_end_of m) r = true <-> exists n, In (EEnd m n) r.
Proof.
  rewrite existsb_exists. split.
  - intros [e [He Hs]]. destruct e; simpl in Hs; try discriminate.
    apply N.eqb_eq in Hs. subst. eexists. exact He.
  - intros [n H]. exists (EEnd m n). split; [exact H|]. simpl. apply N.eqb_refl.
Qed.

(* ------------------------------------------------------------------ *)
(* growth: EEnd events added by an import carry ids allocated by it *)
Definition grow (s s' : st) : Prop :=
  next s <= next s'
  /\ forall m n, In (EEnd m n) (rtrace s') -> In (EEnd m n) (rtrace s) \/ next s <= n.

Lemma grow_refl s : grow s s.
Proof. split; [lia|auto]. Qed.

Lemma grow_trans a b c : grow a b -> grow b c -> grow a c.
Proof.
  intros [H1 H2] [H3 H4]. split; [lia|]. intros m n Hin.
  destruct (H4 _ _ Hin) as [Hb|Hb]; [|right; lia].
  destruct (H2 _ _ Hb) as [Ha|Ha]; [left; exact Ha|right; exact Ha].
Qed.

Definition not_end (e : event) : Prop := match e with EEnd _ _ => False | _ => True end.

Lemma grow_emit e s : not_end e -> grow s (emit e s).
Proof.
  intros Hne. split; [simpl; lia|]. intros m n [Heq|Hin]; [|left; exact Hin].
  subst e. simpl in Hne. contradiction.
Qed.

Section GrowStep.
  Context (E : env) (cx : ctx).
  Context (u : option bytes -> bytes -> st -> st * res (N * N)).
  Context (Hu : forall org spec s, grow s (fst (u org spec s))).

  Lemma exec_grow l : forall m n org s, grow s (fst (exec_stmts cx u m n org l s)).
  Proof.
    induction l as [|[spec|spec|k] l IH]; intros m n org s; simpl.
    - apply grow_refl.
    - specialize (Hu org spec s). destruct (u org spec s) as [s1 [[tm tn]|kd|]]; simpl in *;
        try exact Hu.
      eapply grow_trans; [exact Hu|]. eapply grow_trans; [|apply IH]. apply grow_emit; exact I.
    - specialize (Hu org spec s). destruct (u org spec s) as [s1 [[tm tn]|kd|]]; simpl in *;
        try exact Hu.
      + eapply grow_trans; [exact Hu|]. eapply grow_trans; [|apply IH]. apply grow_emit; exact I.
      + eapply grow_trans; [exact Hu|]. eapply grow_trans; [|apply IH]. apply grow_emit; exact I.
    - destruct (memN k (cx_flags cx)); simpl; [apply grow_refl|apply IH].
  Qed.

  Lemma eval_grow key org b s : grow s (fst (eval_module cx u key org b s)).
  Proof.
    unfold eval_module. set (s0 := mkSt _ _ _).
    assert (G0 : grow s s0).
    { split; [simpl; lia|]. intros m n [Heq|Hin]; [discriminate|left; exact Hin]. }
    pose proof (exec_grow (b_stmts b) (b_id b) (next s) org s0) as G1.
    destruct (exec_stmts cx u (b_id b) (next s) org (b_stmts b) s0) as [s1 [x|kd|]]; simpl in *.
    - pose proof (grow_trans _ _ _ G0 G1) as [Ga Gb]. split; [simpl; exact Ga|].
      intros m n [Heq|Hin]; [inversion Heq; subst; right; lia|apply Gb; exact Hin].
    - pose proof (grow_trans _ _ _ G0 G1) as [Ga Gb]. split; [simpl; exact Ga|].
      intros m n [Heq|Hin]; [discriminate|apply Gb; exact Hin].
    - eapply grow_trans; eassumption.
  Qed.

  Lemma use_file_grow path s s' r : use_file E cx u path s = Some (s', r) -> grow s s'.
  Proof.
    unfold use_file. destruct (lookup path (cache s)).
    - intros H; inversion H; subst. apply grow_refl.
    - destruct (lookup path (fs E)) as [b|]; [|discriminate].
      intros H; inversion H as [H1].
      pose proof (eval_grow path (Some (dir_of path)) b s) as G. rewrite H1 in G. exact G.
  Qed.

  Lemma use_libs_grow spec dirs s : grow s (fst (use_libs E cx u spec dirs s)).
  Proof.
    induction dirs as [|d r IH]; simpl; [apply grow_refl|].
    destruct (use_file E cx u (join_path d spec) s) as [[s' x]|] eqn:Hf; [|exact IH].
    simpl. eapply use_file_grow; exact Hf.
  Qed.

  Lemma use_step_grow org spec s : grow s (fst (use_step E cx u org spec s)).
  Proof.
    unfold use_step. destruct (is_rel spec).
    - destruct (use_file E cx u (rel_path cx org spec) s) as [[s' x]|] eqn:Hf; simpl.
      + eapply use_file_grow; exact Hf.
      + apply grow_refl.
    - destruct (lookup spec (cache s)); simpl; [apply grow_refl|].
      destruct (lookup spec (bundled E)) as [b|]; [apply eval_grow|apply use_libs_grow].
  Qed.
End GrowStep.

Lemma use_grow E cx fuel : forall org spec s, grow s (fst (use E cx fuel org spec s)).
Proof.
  induction fuel as [|f IH]; intros org spec s; simpl; [apply grow_refl|].
  apply use_step_grow. exact IH.
Qed.

(* ------------------------------------------------------------------ *)
Record Inv2 (E : env) (s : st) : Prop := mkInv2 {
  e_src : forall k m n, lookup k (cache s) = Some (m, n) -> src_ok E k m;
  e_ended : forall m n, In (EEnd m n) (rtrace s) -> exists k, lookup k (cache s) = Some (m, n);
  e_fresh : forall m n, In (EEnd m n) (rtrace s) -> n < next s;
  e_ok : ended_ok (rtrace s) = true }.

Lemma Inv2_st0 E : Inv2 E st0.
Proof. constructor; simpl; try reflexivity; try tauto; intros; discriminate. Qed.

Definition other (e : event) : Prop :=
  match e with EEnd _ _ | EStart _ _ => False | _ => True end.

Lemma Inv2_emit_other E e s : other e -> Inv2 E s -> Inv2 E (emit e s).
Proof.
  intros Ho [H1 H2 H3 H4].
  destruct e; simpl in Ho; try contradiction;
    (constructor; simpl; try assumption; intros ? ? [Heq|Hin]; try discriminate; eauto).
Qed.

Lemma Inv2_emit_end E m n k s :
  Inv2 E s -> lookup k (cache s) = Some (m, n) -> n < next s -> Inv2 E (emit (EEnd m n) s).
Proof.
  intros [H1 H2 H3 H4] Hk Hn. constructor; simpl; try assumption.
  - intros m' n' [Heq|Hin]; [inversion Heq; subst; eauto|eauto].
  - intros m' n' [Heq|Hin]; [inversion Heq; subst; exact Hn|eauto].
Qed.

Lemma Inv2_install E key m s :
  wf_env E -> Inv2 E s -> lookup key (cache s) = None -> src_ok E key m ->
  Inv2 E (mkSt ((key, (m, next s)) :: cache s) (next s + 1) (EStart m (next s) :: rtrace s)).
Proof.
  intros Hwf [H1 H2 H3 H4] Hnone Hsrc.
  constructor; cbn [cache next rtrace ended_ok].
  - intros k' m' n'. destruct (bytes_eq_dec k' key) as [->|Hne].
    + rewrite lookup_cons_eq. intros Heq; inversion Heq; subst. exact Hsrc.
    + rewrite lookup_cons_ne by exact Hne. apply H1.
  - intros m' n' [Heq|Hin]; [discriminate|].
    destruct (H2 _ _ Hin) as [k' Hk']. exists k'.
    rewrite lookup_cons_ne; [exact Hk'|]. intros ->. congruence.
  - intros m' n' [Heq|Hin]; [discriminate|]. specialize (H3 _ _ Hin). lia.
  - apply andb_true_iff; split; [|exact H4].
    destruct (existsb (is_end_of m) (rtrace s)) eqn:Hex; [|reflexivity].
    exfalso. apply is_end_of_In in Hex as [n' Hin].
    destruct (H2 _ _ Hin) as [k' Hk'].
    pose proof (src_ok_inj E k' key m Hwf (H1 _ _ _ Hk') Hsrc) as ->. congruence.
Qed.

Lemma Inv2_fail E key m n s :
  Inv2 E s -> lookup key (cache s) = Some (m, n) -> ~ In (EEnd m n) (rtrace s) ->
  Inv2 E (mkSt (delete key (cache s)) (next s) (EFailed m n :: rtrace s)).
Proof.
  intros [H1 H2 H3 H4] Hkey Hnot.
  constructor; cbn [cache next rtrace ended_ok]; try assumption.
  - intros k' m' n' Hk. apply lookup_delete_some in Hk as [_ Hk]. eauto.
  - intros m' n' [Heq|Hin]; [discriminate|].
    destruct (H2 _ _ Hin) as [k' Hk']. exists k'.
    rewrite lookup_delete_other; [exact Hk'|]. intros ->.
    rewrite Hkey in Hk'. inversion Hk'; subst. contradiction.
  - intros m' n' [Heq|Hin]; [discriminate|eauto].
Qed.

Section Inv2Step.
  Context (E : env) (cx : ctx) (Hwf : wf_env E).
  Context (u : option bytes -> bytes -> st -> st * res (N * N)).
  Context (Hfr : forall org spec s, frame s (fst (u org spec s))).
  Context (Hgr : forall org spec s, grow s (fst (u org spec s))).
  Context (Hu : forall org spec s, Inv2 E s -> Inv2 E (fst (u org spec s))).

  Lemma exec_inv2 l : forall m n org s,
    Inv2 E s -> Inv2 E (fst (exec_stmts cx u m n org l s)).
  Proof.
    induction l as [|[spec|spec|k] l IH]; intros m n org s HI; simpl.
    - exact HI.
    - specialize (Hu org spec s HI). destruct (u org spec s) as [s1 [[tm tn]|kd|]]; simpl in *;
        try exact Hu.
      apply IH. apply Inv2_emit_other; [exact I|exact Hu].
    - specialize (Hu org spec s HI). destruct (u org spec s) as [s1 [[tm tn]|kd|]]; simpl in *;
        try exact Hu.
      + apply IH. apply Inv2_emit_other; [exact I|exact Hu].
      + apply IH. apply Inv2_emit_other; [exact I|exact Hu].
    - destruct (memN k (cx_flags cx)); simpl; [exact HI|apply IH; exact HI].
  Qed.

  Lemma eval_inv2 key org b s :
    lookup key (cache s) = None -> src_ok E key (b_id b) -> Inv2 E s ->
    Inv2 E (fst (eval_module cx u key org b s)).
  Proof.
    intros Hnone Hsrc HI. unfold eval_module.
    pose proof (Inv2_install E key (b_id b) s Hwf HI Hnone Hsrc) as HI0.
    set (s0 := mkSt _ _ _) in *.
    pose proof (exec_frame cx u Hfr (b_stmts b) (b_id b) (next s) org s0) as F.
    pose proof (exec_grow cx u Hgr (b_stmts b) (b_id b) (next s) org s0) as G.
    pose proof (exec_inv2 (b_stmts b) (b_id b) (next s) org s0 HI0) as HI1.
    assert (Hk0 : lookup key (cache s0) = Some (b_id b, next s))
      by (unfold s0; cbn [cache]; apply lookup_cons_eq).
    destruct (exec_stmts cx u (b_id b) (next s) org (b_stmts b) s0) as [s1 [x|kd|]]; simpl in *.
    - eapply Inv2_emit_end; [exact HI1|apply (proj1 F); exact Hk0|].
      destruct F as [_ F]. unfold s0 in F; simpl in F. lia.
    - apply Inv2_fail; [exact HI1|apply (proj1 F); exact Hk0|].
      intros Hin. destruct (proj2 G _ _ Hin) as [[Heq|Hin0]|Hge].
      + discriminate.
      + pose proof (e_fresh _ _ HI _ _ Hin0). lia.
      + unfold s0 in Hge; simpl in Hge. lia.
    - exact HI1.
  Qed.

  Lemma use_file_inv2 path s s' r :
    use_file E cx u path s = Some (s', r) -> rooted path = true -> Inv2 E s -> Inv2 E s'.
  Proof.
    unfold use_file. intros Huf Hroot HI. destruct (lookup path (cache s)) as [v|] eqn:Hc.
    - inversion Huf; subst. exact HI.
    - destruct (lookup path (fs E)) as [b|] eqn:Hfs; [|discriminate].
      inversion Huf as [Hev].
      assert (Hs : src_ok E path (b_id b)).
      { left. split; [exact Hroot|]. exists b. split; [exact Hfs|reflexivity]. }
      pose proof (eval_inv2 path (Some (dir_of path)) b s Hc Hs HI) as H. rewrite Hev in H. exact H.
  Qed.

  Lemma use_libs_inv2 spec dirs : forall s,
    Inv2 E s -> Inv2 E (fst (use_libs E cx u spec dirs s)).
  Proof.
    induction dirs as [|d ds IH]; intros s HI; simpl; [exact HI|].
    destruct (use_file E cx u (join_path d spec) s) as [[s2 r2]|] eqn:Hf; [|apply IH; exact HI].
    simpl. eapply use_file_inv2; [exact Hf|apply rooted_join|exact HI].
  Qed.

  Lemma use_step_inv2 org spec s :
    Inv2 E s -> Inv2 E (fst (use_step E cx u org spec s)).
  Proof.
    intros HI. unfold use_step. destruct (is_rel spec).
    - destruct (use_file E cx u (rel_path cx org spec) s) as [[s2 r2]|] eqn:Hf; simpl; [|exact HI].
      eapply use_file_inv2; [exact Hf|apply rooted_clean|exact HI].
    - destruct (lookup spec (cache s)) as [v|] eqn:Hc; simpl; [exact HI|].
      destruct (lookup spec (bundled E)) as [b|] eqn:Hb.
      + apply eval_inv2; [exact Hc| |exact HI].
        right. split; [eapply wf_bundled_unrooted; [exact Hwf|apply lookup_in; exact Hb]|].
        exists b. split; [exact Hb|reflexivity].
      + apply use_libs_inv2. exact HI.
  Qed.
End Inv2Step.

Lemma use_inv2 E cx (Hwf : wf_env E) fuel : forall org spec s,
  Inv2 E s -> Inv2 E (fst (use E cx fuel org spec s)).
Proof.
  induction fuel as [|f IH]; intros org spec s HI; simpl; [exact HI|].
  apply use_step_inv2; [exact Hwf|apply use_frame|apply use_grow|exact IH|exact HI].
Qed.

Lemma run_act_inv2 E fuel a act s fl :
  wf_env E -> Inv2 E s -> Inv2 E (fst (run_act E fuel a act (s, fl))).
Proof.
  intros Hwf HI. destruct act as [cwd org spec|k b]; simpl; [|exact HI].
  pose proof (use_inv2 E (mkCtx a cwd fl) Hwf fuel (org_dir org) spec s HI) as H.
  destruct (use E (mkCtx a cwd fl) fuel (org_dir org) spec s) as [s1 [[m n]|kd|]]; simpl in *.
  - apply Inv2_emit_other; [exact I|]. apply Inv2_emit_other; [exact I|exact H].
  - apply Inv2_emit_other; [exact I|exact H].
  - apply Inv2_emit_other; [exact I|exact H].
Qed.

Lemma run_from_inv2 E fuel : wf_env E ->
  forall acts a sf, Inv2 E (fst sf) -> Inv2 E (fst (run_from E fuel a acts sf)).
Proof.
  intros Hwf. induction acts as [|act rest IH]; intros a [s fl] HI; simpl; [exact HI|].
  apply IH. apply run_act_inv2; assumption.
Qed.

Theorem run_inv2 E acts : wf_env E -> Inv2 E (run E acts).
Proof. intros Hwf. unfold run. apply run_from_inv2; [exact Hwf|apply Inv2_st0]. Qed.

(* ------------------------------------------------------------------ *)
(* trace level *)
Definition CompletedOnce (tr : list event) : Prop :=
  forall pre m n post, tr = pre ++ EEnd m n :: post -> forall n', ~ In (EStart m n') post.

Lemma ended_ok_at r1 : forall r2 m n,
  ended_ok (r1 ++ EStart m n :: r2) = true -> existsb (is_end_of m) r2 = false.
Proof.
  induction r1 as [|e r1 IH]; intros r2 m n H; simpl in H.
  - apply andb_true_iff in H as [H _]. destruct (existsb _ _); [discriminate|reflexivity].
  - destruct e; try (apply (IH _ _ _ H)).
    apply andb_true_iff in H as [_ H]. apply (IH _ _ _ H).
Qed.

Lemma ended_sound tr : ended_ok (rev tr) = true -> CompletedOnce tr.
Proof.
  intros H pre m n post Htr n' Hin.
  apply in_split in Hin as [p1 [p2 Hp]].
  assert (Hr : rev tr = rev p2 ++ EStart m n' :: (rev p1 ++ EEnd m n :: rev pre)).
  { subst tr post. rewrite rev_app_distr. simpl. rewrite rev_app_distr. simpl.
    rewrite <- !app_assoc. simpl. reflexivity. }
  rewrite Hr in H. apply ended_ok_at in H.
  assert (Ht : existsb (is_end_of m) (rev p1 ++ EEnd m n :: rev pre) = true).
  { apply is_end_of_In. exists n. apply in_or_app. right. left. reflexivity. }
  congruence.
Qed.

Theorem completed_never_reevaluated E acts :
  wf_env E -> CompletedOnce (trace_of E acts).
Proof.
  intros Hwf. apply ended_sound. unfold trace_of. rewrite rev_involutive.
  apply (e_ok _ _ (run_inv2 E acts Hwf)).
Qed.
