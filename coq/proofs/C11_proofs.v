(* C11 proofs (under construction) *)
From Coq Require Import QArith Qabs Qround.
From verif Require Import lib.Base model.C11_Num model.C11.
Open Scope Z_scope.

Lemma pow_zero_neg_panics : call CPow [NInt 0; NInt (-1)] None = RPanic.
Proof. reflexivity. Qed.
