(* C11 — proofs about the exact branches of model/C11_Num.v. *)
From Coq Require Import QArith Qabs Qround Qpower Qcanon Lia.
From verif Require Import lib.Base model.C11_Num model.C11.
Open Scope Z_scope.

(* ------------------------------------------------------------------ *)
(* Prop-level vocabulary *)
Definition exact (n : num) : Prop := is_exact n = true.
(* an exact number as Elvish holds it *)
Definition exactc (n : num) : Prop := is_exact n = true /\ canonical n = true.
(* v is exact, in canonical form, and its value is q *)
Definition good (v : num) (q : Q) : Prop := is_exact v = true /\ canonical v = true /\ (qv v == q)%Q.

Lemma in_int_iff z : in_int z = true <-> min_int <= z <= max_int.
Proof. unfold in_int. rewrite andb_true_iff, !Z.leb_le. tauto. Qed.

Lemma Qred_idem q : Qred (Qred q) = Qred q.
Proof. apply Qred_complete, Qred_correct. Qed.

Lemma q_eqb_refl a : q_eqb a a = true.
Proof. unfold q_eqb. rewrite Z.eqb_refl, Pos.eqb_refl. reflexivity. Qed.

Lemma q_eqb_eq a b : q_eqb a b = true -> a = b.
Proof. destruct a as [n d], b as [n' d']. unfold q_eqb. simpl. intros H.
  apply andb_true_iff in H as [H1 H2]. apply Z.eqb_eq in H1. apply Pos.eqb_eq in H2. congruence. Qed.

Lemma good_ext v q q' : (q == q')%Q -> good v q -> good v q'.
Proof. intros E (a & b & c). repeat split; auto. rewrite c. exact E. Qed.

Lemma normalize_big_good z : good (normalize_big z) (z # 1).
Proof. unfold normalize_big, good. destruct (in_int z) eqn:E; simpl; rewrite ?E; repeat split; reflexivity. Qed.

Lemma den1_value q : Qden q = 1%positive -> (Qnum q # 1 == q)%Q.
Proof. destruct q as [n d]. simpl. intros ->. reflexivity. Qed.

Lemma normalize_rat_good q : good (normalize_rat q) q.
Proof. unfold normalize_rat. destruct (Pos.eqb (Qden (Qred q)) 1) eqn:E.
  - apply Pos.eqb_eq in E. eapply good_ext; [|apply normalize_big_good].
    rewrite (den1_value _ E). apply Qred_correct.
  - unfold good. cbn [is_exact canonical qv]. rewrite Qred_idem, q_eqb_refl, E.
    repeat split; try reflexivity. apply Qred_correct.
Qed.

(* the raw Go values a builtin may return *)
Definition rawok (n : num) : Prop :=
  match n with NInt z => in_int z = true | NFloat _ => False | _ => True end.

Lemma from_go_good n : rawok n -> good (from_go n) (qv n).
Proof. destruct n as [z|z|q|f]; simpl; intros H.
  - repeat split; simpl; auto; try reflexivity.
  - apply normalize_big_good.
  - apply normalize_rat_good.
  - contradiction.
Qed.

Lemma good_from_go v q : good v q -> from_go v = v.
Proof. intros (a & b & c). destruct v as [z|z|r|f]; cbn [from_go canonical is_exact] in *; auto; try discriminate.
  - unfold normalize_big. apply negb_true_iff in b. rewrite b. reflexivity.
  - apply andb_true_iff in b as [b1 b2]. apply q_eqb_eq in b1.
    unfold normalize_rat. rewrite b1. apply negb_true_iff in b2. rewrite b2. reflexivity.
Qed.

(* ------------------------------------------------------------------ *)
(* unification *)
Lemma tmax_rank a b : rank (tmax a b) = Z.max (rank a) (rank b).
Proof. unfold tmax. destruct (rank a <? rank b) eqn:E; [apply Z.ltb_lt in E|apply Z.ltb_ge in E]; lia. Qed.

Lemma unify_type_rank l : forall t,
  rank t <= rank (unify_type l t) /\
  Forall (fun n => rank (num_type n) <= rank (unify_type l t)) l.
Proof. induction l as [|n l IH]; intros t; unfold unify_type; simpl.
  - split; [lia|constructor].
  - destruct (IH (tmax t (num_type n))) as [H1 H2]. unfold unify_type in *.
    rewrite tmax_rank in H1. split; [lia|]. constructor; [lia|exact H2]. Qed.

Lemma unify_type_in l : forall t,
  unify_type l t = t \/ exists n, In n l /\ unify_type l t = num_type n.
Proof. induction l as [|n l IH]; intros t; unfold unify_type; simpl; [left; reflexivity|].
  destruct (IH (tmax t (num_type n))) as [H|(m & Hm & H)]; unfold unify_type in *.
  - rewrite H. unfold tmax. destruct (rank t <? rank (num_type n)); [right; exists n; auto|left; reflexivity].
  - right. exists m. auto. Qed.

Lemma rank_inj a b : rank a = rank b -> a = b.
Proof. destruct a, b; simpl; intros; try reflexivity; discriminate. Qed.

Lemma exact_rank n : exact n <-> rank (num_type n) <= 2.
Proof. unfold exact. destruct n; simpl; split; intros; try reflexivity; try lia; discriminate. Qed.

Lemma exact_int_rank n : is_exact_int n = true <-> rank (num_type n) <= 1.
Proof. destruct n; simpl; split; intros; try reflexivity; try lia; discriminate. Qed.

Lemma unify_type_exact l t : Forall exact l -> rank t <= 2 -> rank (unify_type l t) <= 2.
Proof. intros Hl Ht. destruct (unify_type_in l t) as [->|(n & Hn & ->)]; [exact Ht|].
  rewrite Forall_forall in Hl. apply exact_rank, Hl, Hn. Qed.

Lemma to_rat_qv n : exact n -> to_rat n = qv n.
Proof. destruct n; simpl; intros H; try reflexivity; discriminate. Qed.

Lemma to_big_qv n : is_exact_int n = true -> to_big n # 1 = qv n.
Proof. destruct n; simpl; intros H; try reflexivity; discriminate. Qed.

Lemma map_to_rat l : Forall exact l -> map to_rat l = map qv l.
Proof. induction 1 as [|n l H _ IH]; simpl; [reflexivity|]. rewrite IH, to_rat_qv by exact H. reflexivity. Qed.

Lemma map_to_big l : Forall (fun n => is_exact_int n = true) l ->
  map inject_Z (map to_big l) = map qv l.
Proof. induction 1 as [|n l H _ IH]; simpl; [reflexivity|]. rewrite IH. unfold inject_Z at 1.
  rewrite to_big_qv by exact H. reflexivity. Qed.

Lemma map_to_int l : Forall (fun n => num_type n = TInt) l ->
  map inject_Z (map to_int l) = map qv l /\ Forall (fun z => in_int z = true -> True) (map to_int l).
Proof. induction 1 as [|n l H _ [IH1 IH2]]; simpl; [split; [reflexivity|constructor]|].
  split; [|constructor; auto]. rewrite IH1. destruct n; try discriminate. reflexivity. Qed.

(* the three shapes an all-exact argument list can unify to *)
Inductive unified (l : list num) : numslice -> Prop :=
| UInt : Forall (fun n => num_type n = TInt) l -> unified l (SInt (map to_int l))
| UBig : Forall (fun n => is_exact_int n = true) l -> unified l (SBig (map to_big l))
| URat : unified l (SRat (map to_rat l)).

Lemma unify_exact l t : Forall exact l -> rank t <= 2 -> unified l (unify l t).
Proof. intros Hl Ht. pose proof (unify_type_exact l t Hl Ht) as Hr.
  destruct (unify_type_rank l t) as [H1 H2]. unfold unify.
  destruct (unify_type l t) eqn:E; simpl in *.
  - apply UInt. eapply Forall_impl; [|exact H2]. intros n Hn. apply rank_inj. simpl.
    cbv beta in Hn. destruct (num_type n); simpl in *; lia.
  - apply UBig. eapply Forall_impl; [|exact H2]. intros n Hn. apply exact_int_rank. exact Hn.
  - apply URat.
  - lia.
Qed.

Lemma unify_min_big l : unify l TBig <> SInt (map to_int l) \/ l = [].
Proof. left. unfold unify. destruct (unify_type_rank l TBig) as [H _].
  destruct (unify_type l TBig); simpl in H; try lia; discriminate. Qed.

Lemma unify_big_not_int l zs : unify l TBig = SInt zs -> False.
Proof. unfold unify. destruct (unify_type_rank l TBig) as [H _].
  destruct (unify_type l TBig); simpl in H; try lia; discriminate. Qed.

Lemma unify_rat_exact l : Forall exact l -> unify l TRat = SRat (map to_rat l).
Proof. intros Hl. pose proof (unify_type_exact l TRat Hl ltac:(simpl; lia)) as Hr.
  destruct (unify_type_rank l TRat) as [H1 _]. unfold unify.
  destruct (unify_type l TRat); simpl in *; try lia. reflexivity. Qed.

(* ------------------------------------------------------------------ *)
(* folds against Q *)
Lemma fold_add_Z zs : forall a,
  (inject_Z (fold_left Z.add zs a) == inject_Z a + qsum (map inject_Z zs))%Q.
Proof. induction zs as [|z zs IH]; intros a; simpl.
  - ring.
  - rewrite IH, inject_Z_plus. ring. Qed.

Lemma fold_radd qs : forall a, (fold_left radd qs a == a + qsum qs)%Q.
Proof. induction qs as [|q qs IH]; intros a; simpl.
  - ring.
  - rewrite IH. unfold radd. rewrite Qred_correct. ring. Qed.

Lemma fold_sub_Z zs : forall a,
  (inject_Z (fold_left Z.sub zs a) == inject_Z a - qsum (map inject_Z zs))%Q.
Proof. induction zs as [|z zs IH]; intros a; simpl.
  - ring.
  - rewrite IH. unfold Z.sub. rewrite inject_Z_plus, inject_Z_opp. ring. Qed.

Lemma fold_rsub qs : forall a, (fold_left rsub qs a == a - qsum qs)%Q.
Proof. induction qs as [|q qs IH]; intros a; simpl.
  - ring.
  - rewrite IH. unfold rsub. rewrite Qred_correct. ring. Qed.

Lemma fold_mul_Z zs : forall a,
  (inject_Z (fold_left Z.mul zs a) == inject_Z a * qprod (map inject_Z zs))%Q.
Proof. induction zs as [|z zs IH]; intros a; simpl.
  - ring.
  - rewrite IH, inject_Z_mult. ring. Qed.

Lemma fold_rmul qs : forall a, (fold_left rmul qs a == a * qprod qs)%Q.
Proof. induction qs as [|q qs IH]; intros a; simpl.
  - ring.
  - rewrite IH. unfold rmul. rewrite Qred_correct. ring. Qed.

Lemma fold_rquo qs : forall a, (fold_left rquo qs a == a / qprod qs)%Q.
Proof. induction qs as [|q qs IH]; intros a; simpl.
  - unfold Qdiv. change (/ (1 # 1))%Q with (1#1)%Q. ring.
  - rewrite IH. unfold rquo. rewrite Qred_correct. unfold Qdiv. rewrite Qinv_mult_distr. ring. Qed.

(* ------------------------------------------------------------------ *)
(* + *)
Theorem add_exact l : Forall exact l ->
  exists v, call CAdd l None = RVals [v] /\ good v (qsum (map qv l)).
Proof. intros Hl. unfold call, call_raw, add.
  pose proof (unify_exact l TBig Hl ltac:(simpl; lia)) as U.
  inversion U as [H E|H E|E].
  - exfalso. eapply unify_big_not_int. symmetry. exact E.
  - simpl. eexists. split; [reflexivity|].
    rewrite (good_from_go _ _ (normalize_big_good _)).
    eapply good_ext; [|apply normalize_big_good].
    change (?z # 1)%Q with (inject_Z z). rewrite fold_add_Z, map_to_big by exact H.
    unfold inject_Z. ring.
  - simpl. eexists. split; [reflexivity|].
    rewrite (good_from_go _ _ (normalize_rat_good _)).
    eapply good_ext; [|apply normalize_rat_good].
    rewrite fold_radd, map_to_rat by exact Hl. unfold q0. ring.
Qed.

(* ------------------------------------------------------------------ *)
(* - *)
Theorem sub_exact a r : Forall exact (a :: r) ->
  exists v, call CSub (a :: r) None = RVals [v] /\
    good v (match r with [] => - qv a | _ => qv a - qsum (map qv r) end)%Q.
Proof. intros Hl. unfold call, call_raw, sub.
  pose proof (unify_exact (a :: r) TBig Hl ltac:(simpl; lia)) as U.
  inversion U as [H E|H E|E].
  - exfalso. eapply unify_big_not_int. symmetry. exact E.
  - inversion H as [|? ? Ha Hr]; subst. destruct r as [|b r']; cbn [map map_result from_go].
    + eexists. split; [reflexivity|]. eapply good_ext; [|apply normalize_big_good].
      rewrite <- (to_big_qv a Ha). unfold Qopp. simpl. reflexivity.
    + eexists. split; [reflexivity|]. eapply good_ext; [|apply normalize_big_good].
      change (?z # 1)%Q with (inject_Z z). change (to_big b :: map to_big r') with (map to_big (b :: r')).
      rewrite fold_sub_Z, map_to_big by exact Hr. rewrite <- (to_big_qv a Ha). reflexivity.
  - inversion Hl as [|? ? Ha Hr]; subst. destruct r as [|b r']; cbn [map map_result from_go].
    + eexists. split; [reflexivity|]. eapply good_ext; [|apply normalize_rat_good].
      rewrite (to_rat_qv a Ha). reflexivity.
    + eexists. split; [reflexivity|]. eapply good_ext; [|apply normalize_rat_good].
      change (to_rat b :: map to_rat r') with (map to_rat (b :: r')).
      rewrite fold_rsub, map_to_rat by exact Hr. rewrite (to_rat_qv a Ha). reflexivity.
Qed.

(* ------------------------------------------------------------------ *)
(* * *)
Lemma exact_not_inf n : exact n -> is_inf n = false.
Proof. destruct n; simpl; intros H; try reflexivity; discriminate. Qed.

Lemma mul_scan_exact l : forall h, Forall exact l ->
  mul_scan l h = (h || existsb is_int0 l, false).
Proof. induction l as [|n l IH]; intros h Hl; simpl.
  - rewrite orb_false_r. reflexivity.
  - inversion Hl; subst. rewrite exact_not_inf by assumption. rewrite IH by assumption.
    rewrite orb_assoc. reflexivity. Qed.

Lemma is_int0_eq n : is_int0 n = true -> n = NInt 0.
Proof. destruct n as [z| | |]; simpl; try discriminate. destruct z; try discriminate. reflexivity. Qed.

Lemma qprod_zero l : existsb is_int0 l = true -> (qprod (map qv l) == 0)%Q.
Proof. induction l as [|n l IH]; simpl; [discriminate|]. intros H. apply orb_true_iff in H as [H|H].
  - apply is_int0_eq in H. subst. simpl. ring.
  - rewrite IH by exact H. ring. Qed.

Theorem mul_exact l : Forall exact l ->
  exists v, call CMul l None = RVals [v] /\ good v (qprod (map qv l)).
Proof. intros Hl. unfold call, call_raw, mul. rewrite mul_scan_exact by exact Hl. simpl orb. simpl negb.
  rewrite andb_true_r. destruct (existsb is_int0 l) eqn:Z0.
  - simpl. eexists. split; [reflexivity|]. repeat split; try reflexivity.
    simpl. rewrite qprod_zero by exact Z0. reflexivity.
  - pose proof (unify_exact l TBig Hl ltac:(simpl; lia)) as U.
    inversion U as [H E|H E|E].
    + exfalso. eapply unify_big_not_int. symmetry. exact E.
    + simpl. eexists. split; [reflexivity|].
      rewrite (good_from_go _ _ (normalize_big_good _)).
      eapply good_ext; [|apply normalize_big_good].
      change (?z # 1)%Q with (inject_Z z). rewrite fold_mul_Z, map_to_big by exact H.
      unfold inject_Z. ring.
    + simpl. eexists. split; [reflexivity|].
      rewrite (good_from_go _ _ (normalize_rat_good _)).
      eapply good_ext; [|apply normalize_rat_good].
      rewrite fold_rmul, map_to_rat by exact Hl. unfold q1. ring.
Qed.

(* ------------------------------------------------------------------ *)
(* canonical zero is the machine int 0 *)
Lemma exactc_exact n : exactc n -> exact n.
Proof. intros [H _]. exact H. Qed.

Lemma Forall_exactc_exact l : Forall exactc l -> Forall exact l.
Proof. intros H. eapply Forall_impl; [|exact H]. apply exactc_exact. Qed.

Lemma Qeq0_num q : (q == 0)%Q <-> Qnum q = 0.
Proof. unfold Qeq. simpl. rewrite Z.mul_1_r. tauto. Qed.

Lemma canonical_zero n : exactc n -> ((qv n == 0)%Q <-> is_int0 n = true).
Proof. intros [He Hc]. destruct n as [z|z|q|f]; simpl in *; try discriminate.
  - rewrite Qeq0_num. simpl. destruct z; split; intros; try reflexivity; try discriminate.
  - rewrite Qeq0_num. simpl. split; [|discriminate]. intros ->. discriminate.
  - split; [|discriminate]. intros H. apply Qeq0_num in H.
    apply andb_true_iff in Hc as [H1 H2]. apply q_eqb_eq in H1.
    destruct q as [n d]. simpl in H. subst n. rewrite <- H1 in H2. discriminate.
Qed.

Lemma q_is0_qv n : exactc n -> q_is0 (to_rat n) = is_int0 n.
Proof. intros H. pose proof (canonical_zero n H) as C. rewrite <- to_rat_qv in C by apply H.
  rewrite Qeq0_num in C. unfold q_is0. destruct (is_int0 n).
  - apply Z.eqb_eq, C. reflexivity.
  - apply Z.eqb_neq. intros E. apply C in E. discriminate. Qed.

Lemma existsb_q_is0 l : Forall exactc l ->
  existsb q_is0 (map to_rat l) = existsb is_int0 l.
Proof. induction 1 as [|n l H _ IH]; simpl; [reflexivity|]. rewrite IH, q_is0_qv by exact H. reflexivity. Qed.

(* ------------------------------------------------------------------ *)
(* / *)
Theorem div_by_exact_zero_raises a r :
  existsb is_int0 r = true -> call CDiv (a :: r) None = RErr EDivZero.
Proof. intros H. unfold call, call_raw, div. rewrite H. reflexivity. Qed.

Theorem div_exact a r : Forall exactc (a :: r) ->
  existsb is_int0 r = false ->
  ~ (is_int0 a = true /\ r = []) ->
  exists v, call CDiv (a :: r) None = RVals [v] /\
    good v (match r with [] => / qv a | _ => qv a / qprod (map qv r) end)%Q.
Proof. intros Hc Hz Hd. pose proof (Forall_exactc_exact _ Hc) as Hl.
  inversion Hc as [|? ? Hca Hcr]; subst. inversion Hl as [|? ? Ha Hr]; subst.
  unfold call, call_raw, div. rewrite Hz. destruct (is_int0 a) eqn:A0.
  - destruct r as [|b r']; [exfalso; apply Hd; auto|].
    simpl. eexists. split; [reflexivity|]. repeat split; try reflexivity.
    apply is_int0_eq in A0. subst a. simpl. unfold Qdiv. ring.
  - rewrite unify_rat_exact by exact Hl. cbn [map]. destruct r as [|b r'].
    + rewrite q_is0_qv, A0 by exact Hca. cbn [map_result map from_go].
      eexists. split; [reflexivity|]. eapply good_ext; [|apply normalize_rat_good].
      unfold rinv. rewrite Qred_correct, (to_rat_qv a Ha). reflexivity.
    + change (to_rat b :: map to_rat r') with (map to_rat (b :: r')).
      rewrite existsb_q_is0, Hz by exact Hcr. cbn [map_result map from_go].
      eexists. split; [reflexivity|]. eapply good_ext; [|apply normalize_rat_good].
      change (to_rat b :: map to_rat r') with (map to_rat (b :: r')).
      rewrite fold_rquo, map_to_rat, (to_rat_qv a Ha) by exact Hr. reflexivity.
Qed.

(* "/ 0" falls under the exact-zero rule (see div_exact_zero_rule) *)
Lemma div_zero_alone : call CDiv [NInt 0] None = RVals [NInt 0].
Proof. reflexivity. Qed.

(* ------------------------------------------------------------------ *)
(* % *)
Theorem rem_nonint_raises a b :
  is_exact_int a = false \/ is_exact_int b = false ->
  call CRem [a; b] None = RErr ENotExactInt.
Proof. intros [H|H]; unfold call, call_raw, rem; rewrite H; simpl; [reflexivity|].
  destruct (is_exact_int a); reflexivity. Qed.

Lemma exactc_int_zero n : exactc n -> is_exact_int n = true -> (to_big n = 0 <-> is_int0 n = true).
Proof. intros Hc Hi. rewrite <- (canonical_zero n Hc), <- (to_big_qv n Hi), Qeq0_num. simpl. tauto. Qed.

Lemma rem_in_int x y : in_int y = true -> y <> 0 -> in_int (Z.rem x y) = true.
Proof. intros Hy Hn. apply in_int_iff in Hy. apply in_int_iff.
  pose proof (Z.rem_bound_abs x y Hn). unfold min_int, max_int in *. lia. Qed.

Theorem rem_exact a b : exactc a -> exactc b ->
  is_exact_int a = true -> is_exact_int b = true ->
  (if is_int0 b then call CRem [a; b] None = RErr EDivZero
   else exists v, call CRem [a; b] None = RVals [v] /\ good v (Z.rem (to_big a) (to_big b) # 1)).
Proof. intros Ha Hb Ia Ib. unfold call, call_raw, rem. rewrite Ia, Ib. simpl negb. cbv iota.
  destruct (is_int0 b) eqn:B0; [reflexivity|].
  assert (Hb0 : to_big b <> 0).
  { intros E. apply (exactc_int_zero b Hb Ib) in E. congruence. }
  destruct a as [x|x| |]; try discriminate; destruct b as [y|y| |]; try discriminate;
    cbn [to_big] in *; try (apply Z.eqb_neq in Hb0 as Hb0'; rewrite Hb0');
    cbn [map_result map from_go]; eexists; (split; [reflexivity|]);
    try apply normalize_big_good.
  repeat split; try reflexivity. simpl. apply rem_in_int; [apply Hb|exact Hb0].
Qed.

(* ------------------------------------------------------------------ *)
(* exact-zero rules, also with inexact arguments *)
Lemma mul_scan_noinf l : forall h, existsb is_inf l = false ->
  mul_scan l h = (h || existsb is_int0 l, false).
Proof. induction l as [|n l IH]; intros h Hl; simpl in *.
  - rewrite orb_false_r. reflexivity.
  - apply orb_false_iff in Hl as [H1 H2]. rewrite H1, IH by exact H2.
    rewrite orb_assoc. reflexivity. Qed.

Theorem mul_exact_zero_rule l :
  existsb is_int0 l = true -> existsb is_inf l = false -> call CMul l None = RVals [NInt 0].
Proof. intros H0 Hi. unfold call, call_raw, mul. rewrite mul_scan_noinf by exact Hi.
  rewrite H0. reflexivity. Qed.

Theorem div_exact_zero_rule a r :
  is_int0 a = true -> existsb is_int0 r = false -> call CDiv (a :: r) None = RVals [NInt 0].
Proof. intros Ha Hr. unfold call, call_raw, div. rewrite Hr, Ha. reflexivity. Qed.

(* ------------------------------------------------------------------ *)
(* math:abs *)
Lemma wrap_id z : in_int z = true -> wrap z = z.
Proof. intros H. apply in_int_iff in H. unfold wrap, min_int, max_int, two64 in *.
  rewrite Z.mod_small; lia. Qed.

Lemma good_self n : exactc n -> good n (qv n).
Proof. intros [a b]. repeat split; auto; reflexivity. Qed.

Theorem abs_exact n : exactc n ->
  exists v, call CAbs [n] None = RVals [v] /\ good v (Qabs (qv n)).
Proof. intros Hn. pose proof Hn as [He Hc]. unfold call, call_raw, unary. cbn [map_result map].
  eexists. split; [reflexivity|].
  destruct n as [z|z|q|f]; try discriminate; cbn [abs].
  - cbn [canonical] in Hc. destruct (z <? 0) eqn:N.
    + apply Z.ltb_lt in N. destruct (z =? min_int) eqn:M.
      * apply Z.eqb_eq in M. subst. cbn [from_go]. eapply good_ext; [|apply normalize_big_good]. reflexivity.
      * apply Z.eqb_neq in M. cbn [from_go]. pose proof Hc as Hc'. apply in_int_iff in Hc'.
        assert (I : in_int (- z) = true) by (apply in_int_iff; unfold min_int, max_int in *; lia).
        rewrite wrap_id by exact I. repeat split; auto. cbn [qv Qabs]. rewrite Z.abs_neq by lia. reflexivity.
    + apply Z.ltb_ge in N. cbn [from_go]. repeat split; auto. cbn [qv Qabs]. rewrite Z.abs_eq by lia. reflexivity.
  - destruct (z <? 0) eqn:N; cbn [from_go].
    + eapply good_ext; [|apply normalize_big_good]. reflexivity.
    + apply Z.ltb_ge in N. change (normalize_big z) with (from_go (NBig z)).
      rewrite (good_from_go _ _ (good_self _ Hn)). eapply good_ext; [|apply good_self; exact Hn].
      cbn [qv Qabs]. rewrite Z.abs_eq by lia. reflexivity.
  - destruct (Qnum q <? 0) eqn:N; cbn [from_go].
    + eapply good_ext; [|apply normalize_rat_good]. reflexivity.
    + apply Z.ltb_ge in N. change (normalize_rat q) with (from_go (NRat q)).
      rewrite (good_from_go _ _ (good_self _ Hn)). eapply good_ext; [|apply good_self; exact Hn].
      cbn [qv]. destruct q as [a d]. cbn [Qabs Qnum] in *. rewrite Z.abs_eq by lia. reflexivity.
Qed.

(* ------------------------------------------------------------------ *)
(* math:min / math:max *)
Definition qpick (lt : bool) : Q -> Q -> Q := if lt then q_min else q_max.

Lemma q_lt_Z y n : q_lt (inject_Z y) (inject_Z n) = (y <? n).
Proof. unfold q_lt, Qle_bool, inject_Z. simpl. rewrite !Z.mul_1_r. symmetry. apply Z.ltb_antisym. Qed.

Lemma q_ltb_lt a b : q_ltb a b = q_lt a b.
Proof. unfold q_ltb, q_lt, Qle_bool, Qcompare.
  destruct (Z.compare_spec (Qnum a * QDen b) (Qnum b * QDen a)) as [E|E|E].
  - symmetry. apply negb_false_iff, Z.leb_le. lia.
  - symmetry. apply negb_true_iff, Z.leb_gt. lia.
  - symmetry. apply negb_false_iff, Z.leb_le. lia. Qed.

Lemma pick_z_spec (lt : bool) zs : forall x,
  inject_Z (fold_left (fun n y : Z => if (if lt then y <? n else n <? y) then y else n) zs x)
  = fold_left (qpick lt) (map inject_Z zs) (inject_Z x).
Proof. induction zs as [|z zs IH]; intros x; simpl; [reflexivity|]. rewrite IH. f_equal.
  destruct lt; unfold qpick, q_min, q_max; rewrite q_lt_Z; destruct (_ <? _); reflexivity. Qed.

Lemma pick_q_spec (lt : bool) qs : forall x,
  fold_left (fun n y : Q => if (if lt then q_ltb y n else q_ltb n y) then y else n) qs x
  = fold_left (qpick lt) qs x.
Proof. induction qs as [|q qs IH]; intros x; simpl; [reflexivity|]. rewrite IH. f_equal.
  destruct lt; unfold qpick, q_min, q_max; rewrite q_ltb_lt; reflexivity. Qed.

Lemma fold_pick_in {A} (f : A -> A -> A) (Hf : forall n y, f n y = n \/ f n y = y) r :
  forall x, In (fold_left f r x) (x :: r).
Proof. induction r as [|y r IH]; intros x; [left; reflexivity|].
  cbn [fold_left]. destruct (IH (f x y)) as [H|H].
  - destruct (Hf x y) as [E|E]; [left|right; left]; rewrite <- E at 1; exact H.
  - right; right; exact H. Qed.

Theorem minmax_exact (lt : bool) a r : Forall exactc (a :: r) ->
  exists v, call (if lt then CMin else CMax) (a :: r) None = RVals [v] /\
    good v (fold_left (qpick lt) (map qv r) (qv a)).
Proof. intros Hc. pose proof (Forall_exactc_exact _ Hc) as Hl.
  assert (E : call (if lt then CMin else CMax) (a :: r) None = map_result from_go (minmax lt (a :: r)))
    by (destruct lt; reflexivity).
  rewrite E. unfold minmax.
  pose proof (unify_exact (a :: r) TInt Hl ltac:(simpl; lia)) as U.
  inversion U as [H E'|H E'|E']; cbn [map_result map from_go pick_z pick_q].
  - (* all machine ints: the result is one of the arguments *)
    eexists. split; [reflexivity|].
    set (f := fun n y : Z => if (if lt then y <? n else n <? y) then y else n).
    assert (Hin : In (fold_left f (map to_int r) (to_int a)) (map to_int (a :: r))).
    { apply (fold_pick_in f). intros n y. unfold f. destruct (if lt then y <? n else n <? y); auto. }
    apply in_map_iff in Hin as (m & Em & Hm).
    rewrite Forall_forall in Hc, H. pose proof (Hc m Hm) as [_ Cm]. pose proof (H m Hm) as Tm.
    destruct m as [z| | |]; try discriminate. cbn [to_int] in Em. cbn [canonical] in Cm.
    repeat split; try reflexivity.
    + cbn [canonical]. rewrite <- Em. exact Cm.
    + cbn [qv]. change (?z # 1)%Q with (inject_Z z). unfold f. rewrite pick_z_spec.
      inversion Hl as [|? ? Ha Hr]; subst.
      assert (H' : Forall (fun n => num_type n = TInt) (a :: r)) by (apply Forall_forall; exact H).
      inversion H' as [|? ? Ta Tr]; subst.
      destruct (map_to_int r Tr) as [-> _]. destruct a; try discriminate. reflexivity.
  - eexists. split; [reflexivity|]. eapply good_ext; [|apply normalize_big_good].
    change (?z # 1)%Q with (inject_Z z). rewrite pick_z_spec.
    inversion H as [|? ? Ia Ir]; subst. rewrite map_to_big by exact Ir.
    unfold inject_Z. rewrite to_big_qv by exact Ia. reflexivity.
  - eexists. split; [reflexivity|]. eapply good_ext; [|apply normalize_rat_good].
    rewrite pick_q_spec. inversion Hl as [|? ? Ha Hr]; subst.
    rewrite map_to_rat, to_rat_qv by assumption. reflexivity.
Qed.

(* ------------------------------------------------------------------ *)
(* math:pow *)
Lemma pow_pos_bin_spec z p : pow_pos_bin z p = z ^ Zpos p.
Proof. induction p as [p IH|p IH|]; cbn [pow_pos_bin].
  - rewrite IH, Pos2Z.inj_xI, Z.pow_add_r, Z.pow_twice_r, Z.pow_1_r by lia. ring.
  - rewrite IH, Pos2Z.inj_xO, Z.pow_twice_r. reflexivity.
  - rewrite Z.pow_1_r. reflexivity. Qed.

Lemma zpow_spec z e : 0 <= e -> zpow z e = z ^ e.
Proof. destruct e as [|p|p]; intros H; cbn [zpow]; [reflexivity|apply pow_pos_bin_spec|lia]. Qed.

(* the branch of pow taken for exponents other than the machine ints 0, 1, -1 *)
Definition pow_general (b : num) (ez : Z) : result :=
  if is_exact_int b && (0 <? ez) then RVals [NBig (zpow (to_big b) ez)]
  else
    let r := to_rat b in
    if ez <? 0 then
      if q_is0 r then RPanic
      else
        let r' := rinv r in
        let ez' := - ez in
        RVals [NRat (setfrac (zpow (Qnum r') ez') (zpow (Zpos (Qden r')) ez'))]
    else RVals [NRat (setfrac (zpow (Qnum r) ez) (zpow (Zpos (Qden r)) ez))].

Lemma setfrac_pow q p :
  (setfrac (zpow (Qnum q) (Zpos p)) (zpow (Zpos (Qden q)) (Zpos p)) == Qpower q (Zpos p))%Q.
Proof. destruct q as [n d]. unfold setfrac. rewrite Qred_correct. cbn [Qnum Qden zpow].
  rewrite !pow_pos_bin_spec, <- Pos2Z.inj_pow. cbn [Z.to_pos Qpower].
  rewrite Qpower_decomp_positive. reflexivity. Qed.

Lemma pow_general_good b ez : exactc b ->
  ~ (is_int0 b = true /\ ez < 0) ->
  exists v, map_result from_go (pow_general b ez) = RVals [v] /\ good v (Qpower (qv b) ez).
Proof. intros Hb Hd. pose proof Hb as [He Hc]. unfold pow_general.
  destruct (is_exact_int b && (0 <? ez)) eqn:C.
  - apply andb_true_iff in C as [Ib Pz]. apply Z.ltb_lt in Pz.
    cbn [map_result map from_go]. eexists. split; [reflexivity|].
    eapply good_ext; [|apply normalize_big_good].
    rewrite zpow_spec by lia. change (?z # 1)%Q with (inject_Z z).
    rewrite Zpower_Qpower by lia. unfold inject_Z. rewrite to_big_qv by exact Ib. reflexivity.
  - cbv zeta. destruct (ez <? 0) eqn:N.
    + apply Z.ltb_lt in N. rewrite q_is0_qv by exact Hb. destruct (is_int0 b) eqn:B0.
      * exfalso. apply Hd. split; [reflexivity|exact N].
      * destruct ez as [|p|p]; try lia. cbn [Z.opp map_result map from_go].
        eexists. split; [reflexivity|]. eapply good_ext; [|apply normalize_rat_good].
        rewrite setfrac_pow. unfold rinv. rewrite Qred_correct, Qinv_power.
        rewrite to_rat_qv by exact He. reflexivity.
    + apply Z.ltb_ge in N. cbn [map_result map from_go].
      eexists. split; [reflexivity|]. eapply good_ext; [|apply normalize_rat_good].
      destruct ez as [|p|p]; try lia.
      * cbn [zpow]. unfold setfrac. rewrite Qred_correct. reflexivity.
      * rewrite setfrac_pow, to_rat_qv by exact He. reflexivity.
Qed.

Theorem pow_exact b e : exactc b -> exactc e -> is_exact_int e = true ->
  ~ (is_int0 b = true /\ to_big e < 0) ->
  exists v, call CPow [b; e] None = RVals [v] /\ good v (Qpower (qv b) (to_big e)).
Proof. intros Hb He Ie Hd. pose proof Hb as [Eb Cb].
  unfold call, call_raw, pow. rewrite Eb, Ie. cbn [andb].
  destruct (is_int0 b && (to_big e <? 0)) eqn:ZN.
  { exfalso. apply andb_true_iff in ZN as [Z1 Z2]. apply Z.ltb_lt in Z2. apply Hd. split; assumption. }
  assert (G : forall ez, ez = to_big e ->
     exists v, map_result from_go (pow_general b ez) = RVals [v] /\ good v (Qpower (qv b) (to_big e))).
  { intros ez ->. apply pow_general_good; assumption. }
  destruct e as [z|z| |]; try discriminate; cbn [to_big] in *.
  - destruct z as [|p|p].
    + cbn [map_result map from_go]. eexists. split; [reflexivity|]. repeat split; reflexivity.
    + destruct p; try (apply (G _ eq_refl)).
      cbn [map_result map]. eexists. split; [reflexivity|].
      rewrite (good_from_go _ _ (good_self _ Hb)). eapply good_ext; [|apply good_self; exact Hb]. reflexivity.
    + destruct p; try (apply (G _ eq_refl)).
      rewrite q_is0_qv by exact Hb. destruct (is_int0 b) eqn:B0.
      * exfalso. apply Hd. split; [reflexivity|lia].
      * cbn [map_result map from_go]. eexists. split; [reflexivity|].
        eapply good_ext; [|apply normalize_rat_good].
        unfold rinv. rewrite Qred_correct, to_rat_qv by exact Eb. reflexivity.
  - apply (G _ eq_refl).
Qed.

(* 0 to a negative exact integer power raises the divide-by-zero exception *)
Theorem pow_zero_neg_raises e : is_exact_int e = true -> to_big e < 0 ->
  call CPow [NInt 0; e] None = RErr EDivZero.
Proof. intros Ie N. unfold call, call_raw, pow. rewrite Ie. cbn [is_exact is_int0 andb].
  apply Z.ltb_lt in N. rewrite N. reflexivity. Qed.

(* ------------------------------------------------------------------ *)
(* range on machine ints: the wrap at the top of the int range *)
Lemma wrap_over z : max_int < z <= max_int + two64 -> wrap z = z - two64.
Proof. intros H. unfold wrap, min_int, max_int, two64 in *.
  rewrite <- (Z.mod_add _ (-1)) by lia. rewrite Z.mod_small; lia. Qed.

Lemma seq_map_S {A} (f : nat -> A) n :
  map f (seq 0 (S n)) = f O :: map (fun k => f (S k)) (seq 0 n).
Proof. cbn [seq map]. rewrite <- seq_shift, map_map. reflexivity. Qed.

(* what the ascending loop emits, whenever it finishes within its fuel *)
Lemma range_int_up_ok e st : in_int e = true -> in_int st = true -> 0 < st ->
  forall fuel cur vs, in_int cur = true ->
  range_int_up fuel cur e st = Some vs ->
  vs = map (fun k => NInt (cur + Z.of_nat k * st)) (seq 0 (length vs))
  /\ (forall k, (k < length vs)%nat -> cur + Z.of_nat k * st < e)
  /\ e <= cur + Z.of_nat (length vs) * st.
Proof. intros He Hst Hpos. pose proof He as He'. pose proof Hst as Hst'.
  apply in_int_iff in He'. apply in_int_iff in Hst'.
  induction fuel as [|fuel IH]; intros cur vs Hc H; [discriminate|].
  pose proof Hc as Hc'. apply in_int_iff in Hc'. cbn [range_int_up] in H.
  destruct (cur <? e) eqn:L.
  - apply Z.ltb_lt in L.
    assert (W : (cur + st <= max_int /\ wrap (cur + st) = cur + st)
                \/ (max_int < cur + st /\ wrap (cur + st) = cur + st - two64)).
    { destruct (Z_le_gt_dec (cur + st) max_int) as [G|G].
      - left. split; [exact G|]. apply wrap_id, in_int_iff. unfold min_int, max_int in *. lia.
      - right. split; [lia|]. apply wrap_over. unfold min_int, max_int, two64 in *. lia. }
    destruct (wrap (cur + st) <=? cur) eqn:B.
    + apply Z.leb_le in B. inversion H; subst vs. cbn [length seq map].
      rewrite Z.mul_0_l, Z.add_0_r. split; [reflexivity|]. split.
      * intros k Hk. assert (k = O) by lia. subst k. cbn. lia.
      * destruct W as [[G E]|[G E]]; rewrite E in B; unfold min_int, max_int, two64 in *; lia.
    + apply Z.leb_gt in B. destruct W as [[G E]|[G E]]; rewrite E in B, H;
        [|unfold min_int, max_int, two64 in *; lia].
      destruct (range_int_up fuel (cur + st) e st) as [r|] eqn:R; [|discriminate].
      inversion H; subst vs.
      assert (Hn : in_int (cur + st) = true) by (apply in_int_iff; unfold min_int, max_int in *; lia).
      destruct (IH _ _ Hn R) as (I1 & I2 & I3). cbn [length]. rewrite seq_map_S.
      split; [|split].
      * rewrite Z.mul_0_l, Z.add_0_r. f_equal. rewrite I1 at 1. apply map_ext. intros k.
        f_equal. lia.
      * intros k Hk. destruct k as [|k]; [cbn; lia|]. specialize (I2 k ltac:(lia)). lia.
      * lia.
  - apply Z.ltb_ge in L. inversion H; subst vs. cbn [length seq map].
    split; [reflexivity|]. split; [intros k Hk; lia|lia].
Qed.

(* range on machine ints with a positive step, through the whole command:
   every value is start + k*step, all are before the end, and the next one would
   not be — also when start + k*step passes 2^63 - 1 (the loop leaves instead of
   wrapping).  Partial: stated for runs on which the model's loop does not run out
   of its fuel (no such run is known; the correspondence check reports one as a
   mismatch). *)
Theorem range_exact_partial s e st vs :
  in_int s = true -> in_int e = true -> in_int st = true -> s <= e -> 0 < st ->
  call CRange [NInt s; NInt e] (Some (NInt st)) = RVals vs ->
  vs = map (fun k => NInt (s + Z.of_nat k * st)) (seq 0 (length vs))
  /\ (forall k, (k < length vs)%nat -> s + Z.of_nat k * st < e)
  /\ e <= s + Z.of_nat (length vs) * st.
Proof. intros Hs He Hst Hle Hpos H.
  unfold call, call_raw, range, range_nums in H. cbn [unify unify_type fold_left tmax num_type rank map to_int Z.ltb Z.compare] in H.
  apply Z.leb_le in Hle. rewrite Hle in H.
  assert (N : (st <=? 0) = false) by (apply Z.leb_gt; exact Hpos). rewrite N in H.
  destruct (range_int_up _ s e st) as [l|] eqn:R; cbn [of_fuel map_result] in H; [|discriminate].
  destruct (range_int_up_ok e st He Hst Hpos _ _ _ Hs R) as (I1 & I2 & I3).
  assert (Hid : map from_go (map from_go l) = l).
  { rewrite I1, !map_map. apply map_ext. intros k. reflexivity. }
  inversion H as [Hv]. rewrite Hid in *. auto.
Qed.

(* ------------------------------------------------------------------ *)
(* math: ceil floor trunc round round-to-even *)
Definition rspec (md : rmode) (q : Q) : Z :=
  match md with
  | RFloor => Qfloor q | RCeil => Qceiling q | RTrunc => q_trunc q
  | RRound => q_round q | RRoundEven => q_round_even q
  end.
Definition rcmd (md : rmode) : cmd :=
  match md with
  | RFloor => CFloor | RCeil => CCeil | RTrunc => CTrunc
  | RRound => CRound | RRoundEven => CRoundEven
  end.

Lemma call_rcmd md n : call (rcmd md) [n] None = RVals [from_go (integerize md n)].
Proof. destruct md; reflexivity. Qed.

Lemma rspec_int md z : rspec md (z # 1) = z.
Proof. destruct md; unfold rspec, q_trunc, q_round, q_round_even, q_lt, Qceiling, Qfloor, Qle_bool, Qminus, Qplus, Qopp;
  cbn [Qnum Qden]; rewrite ?Z.div_1_r; try lia.
  - destruct (_ <=? _); rewrite ?Z.div_1_r; lia.
  - destruct (_ <=? _).
    + symmetry. apply Z.div_unique with (r := 1); lia.
    + match goal with |- - (?X / ?Y) = _ =>
        assert (E : X / Y = - z) by (symmetry; apply Z.div_unique with (r := 1); [change (Z.pos (1 * 2)) with 2; lia|change (Z.pos (1 * 2)) with 2; lia]);
        rewrite E; lia end.
  - replace (z * 1 + - z * 1) with 0 by lia. reflexivity.
Qed.

Lemma rat_nonint n d : canonical (NRat (n # d)) = true -> n mod Zpos d <> 0.
Proof. cbn [canonical]. intros H. apply andb_true_iff in H as [H1 H2]. apply q_eqb_eq in H1.
  apply Qred_iff in H1. cbn [Qnum Qden] in *. intros M.
  apply Z.mod_divide in M; [|lia]. apply Z.divide_gcd_iff in M; [|lia].
  rewrite Z.gcd_comm in M. rewrite M in H1. apply negb_true_iff, Pos.eqb_neq in H2. congruence. Qed.

Lemma rat_round_floor q : rat_round RFloor q = Qfloor q.
Proof. destruct q; reflexivity. Qed.

Lemma rat_round_ceil n d : n mod Zpos d <> 0 -> rat_round RCeil (n # d) = Qceiling (n # d).
Proof. intros M. unfold rat_round, Qceiling, Qfloor, Qopp. cbn [Qnum Qden].
  rewrite Z.div_opp_l_nz by (try lia; exact M). lia. Qed.

Lemma rat_round_trunc n d : n mod Zpos d <> 0 -> rat_round RTrunc (n # d) = q_trunc (n # d).
Proof. intros M. unfold rat_round, q_trunc, Qle_bool. cbn [Qnum Qden]. rewrite Z.mul_1_r, Z.mul_0_l.
  destruct (0 <=? n) eqn:S.
  - apply Z.leb_le in S. unfold Qfloor. apply Z.quot_div_nonneg; lia.
  - apply Z.leb_gt in S. rewrite <- rat_round_ceil by exact M. unfold rat_round. cbn [Qnum Qden].
    assert (Q1 : Z.quot n (Z.pos d) = - ((- n) / Z.pos d)).
    { replace n with (- (- n)) at 1 by lia. rewrite Z.quot_opp_l by lia.
      rewrite Z.quot_div_nonneg by lia. reflexivity. }
    rewrite Q1, Z.div_opp_l_nz by (try lia; exact M). lia. Qed.

(* floor((a/d) + 1/2) in terms of a/d and a mod d *)
Lemma half_up_div a d : 0 < d ->
  (a * 2 + d) / (d * 2) = if 2 * (a mod d) <? d then a / d else a / d + 1.
Proof. intros Hd. pose proof (Z.div_mod a d ltac:(lia)) as E. pose proof (Z.mod_pos_bound a d Hd) as B.
  destruct (2 * (a mod d) <? d) eqn:C; [apply Z.ltb_lt in C|apply Z.ltb_ge in C]; symmetry.
  - apply Z.div_unique with (r := 2 * (a mod d) + d); lia.
  - apply Z.div_unique with (r := 2 * (a mod d) - d); lia. Qed.

(* truncated division of a negative numerator through the positive one *)
Lemma quot_rem_neg n d : n < 0 -> 0 < d ->
  Z.quot n d = - ((- n) / d) /\ Z.rem n d = - ((- n) mod d).
Proof. intros Hn Hd. replace n with (- (- n)) at 1 3 by lia.
  rewrite Z.quot_opp_l, Z.rem_opp_l by lia.
  rewrite Z.quot_div_nonneg, Z.rem_mod_nonneg by lia. split; reflexivity. Qed.

Lemma rat_round_round n d : rat_round RRound (n # d) = q_round (n # d).
Proof. unfold rat_round, q_round, Qle_bool, Qceiling, Qfloor, Qminus, Qplus, Qopp. cbn [Qnum Qden].
  rewrite Z.mul_1_r, Z.mul_0_l. rewrite Pos2Z.inj_mul. change (Z.pos 2) with 2.
  destruct (0 <=? n) eqn:S.
  - apply Z.leb_le in S. assert (N : (n <? 0) = false) by (apply Z.ltb_ge; lia). rewrite N.
    rewrite Z.quot_div_nonneg, Z.rem_mod_nonneg by lia.
    rewrite Z.mul_1_l, half_up_div by lia.
    pose proof (Z.mod_pos_bound n (Z.pos d) ltac:(lia)). rewrite Z.abs_eq by lia. reflexivity.
  - apply Z.leb_gt in S. assert (N : (n <? 0) = true) by (apply Z.ltb_lt; lia). rewrite N.
    destruct (quot_rem_neg n (Z.pos d) S ltac:(lia)) as [-> ->].
    match goal with |- context [ ?X / (Z.pos d * 2) ] => replace X with ((- n) * 2 + Z.pos d) by lia end.
    rewrite half_up_div by lia.
    pose proof (Z.mod_pos_bound (- n) (Z.pos d) ltac:(lia)).
    replace (Z.abs (2 * - (- n mod Z.pos d))) with (2 * (- n mod Z.pos d)) by lia.
    destruct (2 * (- n mod Z.pos d) <? Z.pos d); lia. Qed.

Definition even_floor_form (n dd : Z) : Z :=
  if 2 * (n mod dd) <? dd then n / dd
  else if dd <? 2 * (n mod dd) then n / dd + 1
  else if Z.even (n / dd) then n / dd else n / dd + 1.

Lemma q_round_even_floor n d : q_round_even (n # d) = even_floor_form n (Z.pos d).
Proof. unfold q_round_even, even_floor_form, q_lt, Qle_bool, Qfloor, Qminus, Qplus, Qopp. cbn [Qnum Qden].
  rewrite Pos2Z.inj_mul. change (Z.pos 1) with 1.
  assert (E : n * 1 + - (n / Z.pos d) * Z.pos d = n mod Z.pos d) by (rewrite Z.mod_eq by lia; lia).
  rewrite E. pose proof (Z.mod_pos_bound n (Z.pos d) ltac:(lia)) as B.
  destruct (Z.leb_spec (1 * (Z.pos d * 1)) (n mod Z.pos d * 2));
  destruct (Z.ltb_spec (2 * (n mod Z.pos d)) (Z.pos d)); try lia; cbn [negb]; try reflexivity.
  destruct (Z.leb_spec (n mod Z.pos d * 2) (1 * (Z.pos d * 1)));
  destruct (Z.ltb_spec (Z.pos d) (2 * (n mod Z.pos d))); try lia; cbn [negb]; reflexivity. Qed.

Lemma rat_round_even n d : rat_round RRoundEven (n # d) = q_round_even (n # d).
Proof. rewrite q_round_even_floor. unfold rat_round, even_floor_form. cbn [Qnum Qden].
  set (dd := Z.pos d). assert (Hd : 0 < dd) by (unfold dd; lia).
  destruct (n <? 0) eqn:S.
  - apply Z.ltb_lt in S. destruct (quot_rem_neg n dd S Hd) as [-> ->].
    pose proof (Z.mod_pos_bound (- n) dd Hd) as B.
    replace (Z.abs (2 * - (- n mod dd))) with (2 * (- n mod dd)) by lia.
    rewrite Z.even_opp.
    destruct (Z.eq_dec (- n mod dd) 0) as [Z0|NZ].
    + assert (E1 : n / dd = - (- n / dd)).
      { replace n with (- (- n)) at 1 by lia. apply Z.div_opp_l_z; [lia|exact Z0]. }
      assert (E2 : n mod dd = 0).
      { replace n with (- (- n)) at 1 by lia. apply Z.mod_opp_l_z; [lia|exact Z0]. }
      rewrite E1, E2, Z0. cbn [Z.mul].
      assert (L : (0 <? dd) = true) by (apply Z.ltb_lt; lia). rewrite L. reflexivity.
    + assert (E1 : n / dd = - (- n / dd) - 1).
      { replace n with (- (- n)) at 1 by lia. apply Z.div_opp_l_nz; [lia|exact NZ]. }
      assert (E2 : n mod dd = dd - (- n mod dd)).
      { replace n with (- (- n)) at 1 by lia. apply Z.mod_opp_l_nz; [lia|exact NZ]. }
      rewrite E1, E2.
      assert (P : Z.even (- (- n / dd) - 1) = negb (Z.even (- n / dd))).
      { rewrite Z.even_sub, Z.even_opp. destruct (Z.even (- n / dd)); reflexivity. }
      rewrite P.
      destruct (Z.ltb_spec (2 * (- n mod dd)) dd); destruct (Z.eqb_spec (2 * (- n mod dd)) dd);
      destruct (Z.ltb_spec (2 * (dd - - n mod dd)) dd); destruct (Z.ltb_spec dd (2 * (dd - - n mod dd)));
      try lia; cbn [orb andb]; try lia; destruct (Z.even (- n / dd)); cbn [negb]; lia.
  - apply Z.ltb_ge in S. rewrite Z.quot_div_nonneg, Z.rem_mod_nonneg by lia.
    pose proof (Z.mod_pos_bound n dd Hd) as B. rewrite Z.abs_eq by lia.
    destruct (Z.ltb_spec (2 * (n mod dd)) dd); destruct (Z.eqb_spec (2 * (n mod dd)) dd);
    destruct (Z.ltb_spec dd (2 * (n mod dd))); try lia; cbn [orb andb]; try reflexivity;
    destruct (Z.even (n / dd)); reflexivity. Qed.

Lemma rat_round_spec md n d : canonical (NRat (n # d)) = true -> rat_round md (n # d) = rspec md (n # d).
Proof. intros Hc. pose proof (rat_nonint n d Hc) as M. destruct md; cbn [rspec].
  - apply rat_round_floor.
  - apply rat_round_ceil, M.
  - apply rat_round_trunc, M.
  - apply rat_round_round.
  - apply rat_round_even. Qed.

Theorem rounding_exact md n : exactc n ->
  exists v, call (rcmd md) [n] None = RVals [v] /\ good v (rspec md (qv n) # 1).
Proof. intros Hn. pose proof Hn as [He Hc]. rewrite call_rcmd. eexists. split; [reflexivity|].
  destruct n as [z|z|q|f]; try discriminate; cbn [integerize].
  - rewrite (good_from_go _ _ (good_self _ Hn)). eapply good_ext; [|apply good_self; exact Hn].
    cbn [qv]. rewrite rspec_int. reflexivity.
  - rewrite (good_from_go _ _ (good_self _ Hn)). eapply good_ext; [|apply good_self; exact Hn].
    cbn [qv]. rewrite rspec_int. reflexivity.
  - destruct q as [a d]. pose proof Hc as Hc'. cbn [canonical] in Hc'.
    apply andb_true_iff in Hc' as [_ H2]. cbn [Qden] in *. apply negb_true_iff in H2. rewrite H2.
    cbn [from_go]. eapply good_ext; [|apply normalize_big_good].
    cbn [qv]. rewrite rat_round_spec by exact Hc. reflexivity.
Qed.

(* ------------------------------------------------------------------ *)
(* the oracle is sound for the Prop-level reading of the property *)
Definition val_good (v : num) (q : Q) : Prop :=
  is_exact v = true /\ canon_ok v = true /\ (qv v == q)%Q.

Definition Spec_C11 (c : cmd) (args : list num) (step : option num) (obs : result) : Prop :=
  match expect_C11 c args step with
  | XVals qs => exists vs, obs = RVals vs /\ Forall2 val_good vs qs
  | XRaise => exists e, obs = RErr e
  | XAny => True
  end.

Lemma vals_ok_sound vs : forall qs, vals_ok vs qs = true -> Forall2 val_good vs qs.
Proof. induction vs as [|v vs IH]; intros [|q qs] H; simpl in H; try discriminate; constructor.
  - apply andb_true_iff in H as [H _]. unfold val_ok in H. apply andb_true_iff in H as [H1 H2].
    repeat split; [|exact H1|apply Qeq_bool_iff; exact H2].
    destruct v; simpl in *; try reflexivity; discriminate.
  - apply andb_true_iff in H as [_ H]. apply IH, H. Qed.

Theorem check_C11_sound c args step obs : check_C11 c args step obs = true -> Spec_C11 c args step obs.
Proof. unfold check_C11, Spec_C11. destruct (expect_C11 c args step) as [qs| |]; intros H.
  - destruct obs as [vs| | | | |]; try discriminate. exists vs. split; [reflexivity|apply vals_ok_sound, H].
  - destruct obs as [|e| | | |]; try discriminate. exists e. reflexivity.
  - exact I. Qed.

(* a canonical value passes the oracle's value-based canonicity test *)
Lemma canonical_canon_ok v : is_exact v = true -> canonical v = true -> canon_ok v = true.
Proof. destruct v as [z|z|q|f]; simpl; intros He Hc; try exact Hc; try discriminate.
  apply andb_true_iff in Hc as [H1 H2]. apply q_eqb_eq in H1. unfold q_isint. rewrite H1. exact H2. Qed.

Lemma good_val_good v q : good v q -> val_good v q.
Proof. intros (a & b & c). repeat split; auto. apply canonical_canon_ok; assumption. Qed.

(* result_canonical: whatever an exact command outputs is canonical *)
Theorem result_canonical v q : good v q ->
  match v with
  | NInt z => min_int <= z <= max_int
  | NBig z => ~ (min_int <= z <= max_int)
  | NRat r => Qred r = r /\ Qden r <> 1%positive
  | NFloat _ => False
  end.
Proof. intros (a & b & c). destruct v as [z|z|r|f]; cbn [canonical is_exact] in *; try discriminate.
  - apply in_int_iff, b.
  - intros H. apply in_int_iff in H. rewrite H in b. discriminate.
  - apply andb_true_iff in b as [b1 b2]. split; [apply q_eqb_eq, b1|].
    apply negb_true_iff, Pos.eqb_neq in b2. exact b2. Qed.

(* ------------------------------------------------------------------ *)
(* termination of the ascending int loop within the model's fuel *)
Definition zceil (a b : Z) : Z := - ((- a) / b).

Lemma zceil_step a b : 0 < b -> zceil (a - b) b = zceil a b - 1.
Proof. intros Hb. unfold zceil. replace (- (a - b)) with (- a + 1 * b) by lia.
  rewrite Z.div_add by lia. lia. Qed.

Lemma zceil_pos a b : 0 < b -> 0 < a -> 0 < zceil a b.
Proof. intros Hb Ha. unfold zceil.
  assert ((- a) / b < 0) by (apply Z.div_lt_upper_bound; lia). lia. Qed.

Lemma range_int_up_terminates e st : in_int st = true -> 0 < st ->
  forall fuel cur, in_int cur = true -> (Z.to_nat (zceil (e - cur) st) < fuel)%nat ->
  range_int_up fuel cur e st <> None.
Proof. intros Ist Hst. pose proof Ist as Ist'. apply in_int_iff in Ist'.
  induction fuel as [|fuel IH]; intros cur Ic Hf; [lia|].
  pose proof Ic as Ic'. apply in_int_iff in Ic'.
  cbn [range_int_up]. destruct (cur <? e) eqn:L; [|discriminate].
  apply Z.ltb_lt in L. destruct (wrap (cur + st) <=? cur) eqn:B; [discriminate|].
  apply Z.leb_gt in B.
  assert (W : cur + st <= max_int /\ wrap (cur + st) = cur + st).
  { destruct (Z_le_gt_dec (cur + st) max_int) as [G|G].
    - split; [exact G|]. apply wrap_id, in_int_iff. unfold min_int, max_int in *. lia.
    - exfalso. rewrite wrap_over in B by (unfold min_int, max_int, two64 in *; lia).
      unfold min_int, max_int, two64 in *. lia. }
  destruct W as [G W]. rewrite W.
  assert (In' : in_int (cur + st) = true) by (apply in_int_iff; unfold min_int, max_int in *; lia).
  specialize (IH (cur + st) In').
  destruct (range_int_up fuel (cur + st) e st) eqn:R; [discriminate|].
  exfalso. apply IH; [|reflexivity].
  replace (e - (cur + st)) with (e - cur - st) by lia. rewrite zceil_step by lia.
  pose proof (zceil_pos (e - cur) st Hst ltac:(lia)). lia.
Qed.

Lemma range_fuel_int s e st : s <= e -> 0 < st ->
  range_fuel (s # 1) (e # 1) (st # 1) = (Z.to_nat (zceil (e - s) st) + 1)%nat.
Proof. intros Hle Hst. unfold range_fuel, zceil. f_equal. f_equal.
  destruct st as [|p|p]; try lia.
  unfold Qceiling, Qfloor, Qdiv, Qmult, Qinv, Qabs, Qminus, Qplus, Qopp. cbn [Qnum Qden Z.abs].
  rewrite Z.abs_eq by lia. change (1 * 1 * p)%positive with p.
  replace (- ((e * 1 + - s * 1) * 1)) with (- (e - s)) by lia. reflexivity. Qed.

(* total correctness of range on machine ints, ascending, explicit step *)
Theorem range_int_up_total s e st :
  in_int s = true -> in_int e = true -> in_int st = true -> s <= e -> 0 < st ->
  exists vs, call CRange [NInt s; NInt e] (Some (NInt st)) = RVals vs
  /\ vs = map (fun k => NInt (s + Z.of_nat k * st)) (seq 0 (length vs))
  /\ (forall k, (k < length vs)%nat -> s + Z.of_nat k * st < e)
  /\ e <= s + Z.of_nat (length vs) * st.
Proof. intros Hs He Hst Hle Hpos.
  assert (T : exists l, range_int_up (range_fuel (s # 1) (e # 1) (st # 1)) s e st = Some l).
  { rewrite range_fuel_int by assumption.
    pose proof (range_int_up_terminates e st Hst Hpos (Z.to_nat (zceil (e - s) st) + 1) s Hs ltac:(lia)) as N.
    destruct (range_int_up _ s e st) as [l|]; [exists l; reflexivity|congruence]. }
  destruct T as [l R].
  assert (C : call CRange [NInt s; NInt e] (Some (NInt st)) = RVals (map from_go (map from_go l))).
  { unfold call, call_raw, range, range_nums.
    cbn [unify unify_type fold_left tmax num_type rank map to_int Z.ltb Z.compare].
    apply Z.leb_le in Hle. rewrite Hle.
    assert (N : (st <=? 0) = false) by (apply Z.leb_gt; exact Hpos). rewrite N, R. reflexivity. }
  exists (map from_go (map from_go l)). split; [exact C|].
  apply (range_exact_partial s e st _ Hs He Hst Hle Hpos C).
Qed.
