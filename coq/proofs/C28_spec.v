(* C28 — proofs, part 7: the model's builtins satisfy the very proposition
   that the oracle checks on the implementation ([step_spec]), for all buffers
   of valid runes, dots in range, Unicode tables and width functions. *)
From Coq Require Import Permutation.
From verif Require Import lib.Base lib.ListX lib.Utf8 model.C28
  proofs.C28_proofs proofs.C28_words proofs.C28_area proofs.C28_oracle proofs.C28_utf8 proofs.C28_main.
Open Scope nat_scope.

Lemma Forall_firstn {A} (P : A -> Prop) n l : Forall P l -> Forall P (firstn n l).
Proof.
  revert l; induction n as [|n IH]; intros l H; [constructor|].
  destruct l as [|x l]; [constructor|]. inversion H; subst. simpl. constructor; auto.
Qed.

Lemma Forall_skipn {A} (P : A -> Prop) n l : Forall P l -> Forall P (skipn n l).
Proof.
  revert l; induction n as [|n IH]; intros l H; [exact H|].
  destruct l as [|x l]; [constructor|]. inversion H; subst. simpl. auto.
Qed.

(* the byte offset at which the move twin of a kill lands (what the harness observes) *)
Definition aux_of (U : uni) (c : cmd) (b : buffer) : nat :=
  match mover_of U c with
  | Some m => byte_off (content b) (m (content b) (dot b))
  | None => 0
  end.

Lemma apply_cmd_valid U c b : all_valid (content b) -> dot b <= length (content b) ->
  all_valid (content (apply_cmd U c b)).
Proof.
  intros Hv Hr.
  destruct (is_transpose c) eqn:Et.
  { pose proof (transpose_builtin_permutation U c b Et Hr) as [Hp _].
    unfold all_valid. eapply Permutation_Forall; [exact Hp|exact Hv]. }
  destruct (is_kill c) eqn:Ek.
  { destruct (mover_of U c) as [m|] eqn:Em; [|destruct c; simpl in *; discriminate].
    rewrite (kill_builtin_deletes_between U c m b Ek Em). simpl.
    apply Forall_app. split; [apply Forall_firstn|apply Forall_skipn]; exact Hv. }
  destruct b as [rs d]. destruct c; simpl in *; try discriminate; exact Hv.
Qed.

Lemma model_step_spec U c b :
  all_valid (content b) -> dot b <= length (content b) ->
  let b' := apply_cmd U c b in
  step_spec U (ECmd c)
    (encode_all (content b)) (byte_off (content b) (dot b))
    (encode_all (content b')) (byte_off (content b') (dot b'))
    (aux_of U c b).
Proof.
  intros Hv Hr b'.
  assert (Hr' : dot b' <= length (content b')) by (apply dot_in_range_builtin; exact Hr).
  assert (Hv' : all_valid (content b')) by (apply apply_cmd_valid; assumption).
  destruct (byte_off_is_char_boundary _ _ Hv Hr) as [Hi0 _].
  destruct (byte_off_is_char_boundary _ _ Hv' Hr') as [Hi1 _].
  unfold step_spec. split; [exists (dot b'); apply rune_index_sound; exact Hi1|].
  split; [intros _; apply valid_encode_all; exact Hv'|].
  exists (dot b), (dot b').
  split; [apply rune_index_sound; exact Hi0|]. split; [apply rune_index_sound; exact Hi1|].
  split; [exact Hi0|]. split; [exact Hi1|].
  cbv zeta. rewrite !decode_all_encode_all by assumption.
  split; [|split; [|split]].
  - intros Ek.
    destruct (mover_of U c) as [m|] eqn:Em; [|destruct c; simpl in *; discriminate].
    exists (m (content b) (dot b)).
    assert (Hm : m (content b) (dot b) <= length (content b)) by (eapply mover_range; eauto).
    unfold aux_of. rewrite Em.
    split; [apply byte_off_is_char_boundary; assumption|].
    unfold b'. rewrite (kill_builtin_deletes_between U c m b Ek Em). simpl. auto.
  - intros Et. apply (transpose_builtin_permutation U c b Et Hr).
  - intros f Ec. subst c. unfold b'. destruct b as [rs d]. simpl.
    apply move_left_gw_lands. exact Hr.
  - intros f Ec. subst c. unfold b'. destruct b as [rs d]. simpl.
    apply move_right_gw_lands. exact Hr.
Qed.

(* ... and therefore pass the executable oracle. *)
Lemma runes_eqb_refl l : runes_eqb l l = true.
Proof. apply (proj2 (list_eqb_spec N.eqb N.eqb_eq l l)). reflexivity. Qed.

Lemma perm_check_complete a b : Permutation a b -> perm_check a b = true.
Proof.
  intros Hp. unfold perm_check. apply forallb_forall. intros x _. apply Nat.eqb_eq.
  rewrite !count_rune_occ. apply (Permutation_count_occ N.eq_dec). exact Hp.
Qed.

Lemma model_passes_oracle U c b :
  all_valid (content b) -> dot b <= length (content b) ->
  let b' := apply_cmd U c b in
  check_step U (ECmd c)
    (encode_all (content b)) (byte_off (content b) (dot b))
    (encode_all (content b')) (byte_off (content b') (dot b'))
    (aux_of U c b) = true.
Proof.
  intros Hv Hr b'.
  assert (Hr' : dot b' <= length (content b')) by (apply dot_in_range_builtin; exact Hr).
  assert (Hv' : all_valid (content b')) by (apply apply_cmd_valid; assumption).
  destruct (byte_off_is_char_boundary _ _ Hv Hr) as [Hi0 _].
  destruct (byte_off_is_char_boundary _ _ Hv' Hr') as [Hi1 Hb1].
  unfold check_step. rewrite Hb1, Hi0, Hi1, (valid_encode_all _ Hv'), Bool.orb_true_r. cbn [andb].
  rewrite !decode_all_encode_all by assumption.
  apply andb_true_iff. split; [apply andb_true_iff; split|].
  - destruct (is_kill c) eqn:Ek; [|reflexivity].
    destruct (mover_of U c) as [m|] eqn:Em; [|destruct c; simpl in *; discriminate].
    assert (Hm : m (content b) (dot b) <= length (content b)) by (eapply mover_range; eauto).
    unfold aux_of. rewrite Em.
    destruct (byte_off_is_char_boundary _ _ Hv Hm) as [Him _]. rewrite Him.
    unfold kill_check, b'. rewrite (kill_builtin_deletes_between U c m b Ek Em). simpl.
    rewrite runes_eqb_refl, Nat.eqb_refl. reflexivity.
  - destruct (is_transpose c) eqn:Et; [|reflexivity].
    apply perm_check_complete. apply (transpose_builtin_permutation U c b Et Hr).
  - destruct c; simpl; try reflexivity; destruct b as [rs d]; simpl in *; apply Nat.eqb_eq.
    + apply move_left_gw_nearest. exact Hr.
    + apply move_right_gw_nearest. exact Hr.
Qed.
