(* C28 — proofs, part 3: every builtin and every event of the code area keeps
   the dot inside the buffer (invariant over histories); abbreviation
   expansion; the byte view. *)
From Coq Require Import Permutation.
From verif Require Import lib.Base lib.ListX lib.Utf8 model.C28 proofs.C28_proofs proofs.C28_words.
Open Scope nat_scope.

Definition in_range (b : buffer) : Prop := dot b <= length (content b).

(* ------------------------------------------------------------------ *)
(* builtins *)

Lemma mover_range U c m : mover_of U c = Some m ->
  forall rs d, d <= length rs -> m rs d <= length rs.
Proof.
  intros Hm rs d H.
  destruct c; simpl in Hm; inversion Hm; subst; clear Hm;
    auto using move_left_range, move_right_range, move_sol_range, move_eol_range,
               move_up_range, move_down_range, move_left_gw_range, move_right_gw_range.
Qed.

Lemma apply_cmd_range U c b : in_range b -> in_range (apply_cmd U c b).
Proof.
  unfold in_range. intros H. destruct b as [rs d]. simpl in H.
  assert (Hk : forall m, in_range (let '(rs', d') := make_kill m rs d in mkBuf rs' d')).
  { intros m. pose proof (kill_range m rs d H) as Hr. destruct (make_kill m rs d). exact Hr. }
  assert (Htr : in_range (let '(rs', d') := transpose_runes rs d in mkBuf rs' d')).
  { pose proof (transpose_runes_perm rs d H) as [_ Hr]. destruct (transpose_runes rs d). exact Hr. }
  assert (Htw : forall f, in_range (let '(rs', d') := transpose_gw (cat_of U f) rs d in mkBuf rs' d')).
  { intros f. pose proof (transpose_gw_perm (cat_of U f) rs d H) as [_ Hr].
    destruct (transpose_gw (cat_of U f) rs d). exact Hr. }
  unfold in_range in *.
  destruct c; simpl; try apply Hk; try apply Htr; try apply Htw;
    auto using move_left_range, move_right_range, move_sol_range, move_eol_range,
               move_up_range, move_down_range, move_left_gw_range, move_right_gw_range.
Qed.

(* ------------------------------------------------------------------ *)
(* suffixes *)

Definition suffix_of {A} (s l : list A) : Prop := exists pre, l = pre ++ s.

Lemma runes_eqb_eq a b : runes_eqb a b = true -> a = b.
Proof. apply list_eqb_spec. intros; apply N.eqb_eq. Qed.

Lemma has_suffix_spec l a : has_suffix l a = true -> suffix_of a l /\ length a <= length l.
Proof.
  unfold has_suffix. intros H. apply andb_true_iff in H as [H1 H2].
  apply Nat.leb_le in H1. apply runes_eqb_eq in H2. split; [|exact H1].
  exists (firstn (length l - length a) l).
  transitivity (firstn (length l - length a) l ++ skipn (length l - length a) l);
    [symmetry; apply firstn_skipn|f_equal; exact H2].
Qed.

Lemma suffix_trans {A} (a b c : list A) : suffix_of a b -> suffix_of b c -> suffix_of a c.
Proof. intros [p Hp] [q Hq]. exists (q ++ p). subst. rewrite app_assoc. reflexivity. Qed.

Lemma buffer_eqb_eq a b : buffer_eqb a b = true -> a = b.
Proof.
  unfold buffer_eqb. intros H. apply andb_true_iff in H as [H1 H2].
  apply runes_eqb_eq in H1. apply Nat.eqb_eq in H2. destruct a, b; simpl in *; congruence.
Qed.

(* firstn (dot - |a|) of a text whose first dot runes end with a *)
Lemma firstn_before_suffix (c pre a : list N) d : d <= length c -> firstn d c = pre ++ a ->
  firstn (d - length a) c = pre /\ d = length pre + length a.
Proof.
  intros Hd H.
  assert (Hl : d = length pre + length a).
  { apply (f_equal (@length N)) in H. rewrite firstn_length, app_length in H. lia. }
  split; [|exact Hl].
  replace (d - length a) with (length pre) by lia.
  assert (E : firstn (length pre) c = firstn (length pre) (firstn d c)).
  { rewrite firstn_firstn. f_equal. lia. }
  rewrite E, H. rewrite firstn_app, firstn_all, Nat.sub_diag. simpl. apply app_nil_r.
Qed.

(* ------------------------------------------------------------------ *)
(* the history invariant *)

Definition inv (st : cstate) : Prop :=
  in_range (st_buf st) /\
  suffix_of (st_inserts st) (firstn (dot (st_last st)) (content (st_last st))).

Definition ev_ok (e : event) : Prop :=
  match e with ESet rs d => d <= length rs | _ => True end.

Lemma inv_init b : in_range b -> inv (init_state b).
Proof. intros H. split; [exact H|]. exists []. reflexivity. Qed.

Lemma inv_reset st : inv st -> inv (reset_inserts st).
Proof. intros [H _]. split; [exact H|]. exists []. reflexivity. Qed.

Lemma inv_set_buf st b : inv st -> in_range b -> inv (set_buf st b).
Proof. intros [_ H] Hb. split; [exact Hb|exact H]. Qed.

Lemma inv_reset_set st b : in_range b -> inv (reset_inserts (set_buf st b)).
Proof. intros Hb. split; [exact Hb|]. exists []. reflexivity. Qed.

Lemma insert_at_dot_range b t : in_range b -> in_range (insert_at_dot b t).
Proof.
  unfold in_range, insert_at_dot. simpl. intros H.
  rewrite !app_length, firstn_length, skipn_length. lia.
Qed.

Lemma insert_at_dot_prefix b t : in_range b ->
  firstn (dot (insert_at_dot b t)) (content (insert_at_dot b t)) = firstn (dot b) (content b) ++ t.
Proof.
  unfold in_range, insert_at_dot. simpl. intros H.
  rewrite app_assoc.
  replace (dot b + length t) with (length (firstn (dot b) (content b) ++ t) + 0)
    by (rewrite app_length, firstn_length; lia).
  rewrite firstn_app_2. simpl. apply app_nil_r.
Qed.

Section Area.
  Variable U : uni.
  Variable cfg : config.

  (* ---- command abbreviations ---- *)
  Lemma expand_command_cases st :
    expand_command_abbr U cfg st = st \/
    exists newc, expand_command_abbr U cfg st = reset_inserts (set_buf st (mkBuf newc (length newc))).
  Proof.
    unfold expand_command_abbr.
    destruct (dot (st_buf st) <? length (content (st_buf st))); [left; reflexivity|].
    destruct (command_match U (content (st_buf st))) as [[command ws]|]; [|left; reflexivity].
    destruct (fold_left _ (cmd_abbrs cfg) []) as [|x l]; [left; reflexivity|].
    right. eexists. reflexivity.
  Qed.

  (* ---- simple abbreviations ---- *)
  Lemma find_simple_inv ins l acc :
    (forall p, In p l -> In p (simple_abbrs cfg)) ->
    (fst acc = [] \/ (has_suffix ins (fst acc) = true /\ In acc (simple_abbrs cfg))) ->
    let r := fold_left (fun (acc : list N * list N) (p : list N * list N) =>
                 if has_suffix ins (fst p) && (blen (fst acc) <? blen (fst p)) then p else acc) l acc in
    fst r = [] \/ (has_suffix ins (fst r) = true /\ In r (simple_abbrs cfg)).
  Proof.
    revert acc; induction l as [|p l IH]; intros acc Hl Hacc; simpl; [exact Hacc|].
    apply IH; [intros q Hq; apply Hl; right; exact Hq|].
    destruct (has_suffix ins (fst p)) eqn:Hs; simpl; [|exact Hacc].
    destruct (blen (fst acc) <? blen (fst p)); [|exact Hacc].
    right. split; [exact Hs|apply Hl; left; reflexivity].
  Qed.

  Lemma find_simple_spec ins :
    fst (find_simple cfg ins) = [] \/
    (has_suffix ins (fst (find_simple cfg ins)) = true /\ In (find_simple cfg ins) (simple_abbrs cfg)).
  Proof. unfold find_simple. apply find_simple_inv; [auto|left; reflexivity]. Qed.

  Lemma expand_simple_cases st :
    expand_simple_abbr cfg st = st \/
    exists abbr full, In (abbr, full) (simple_abbrs cfg) /\ abbr <> [] /\
      has_suffix (st_inserts st) abbr = true /\
      expand_simple_abbr cfg st =
      reset_inserts (set_buf st
        (mkBuf (firstn (dot (st_buf st) - length abbr) (content (st_buf st)) ++ full
                ++ skipn (dot (st_buf st)) (content (st_buf st)))
               (dot (st_buf st) - length abbr + length full))).
  Proof.
    unfold expand_simple_abbr.
    pose proof (find_simple_spec (st_inserts st)) as Hf.
    destruct (find_simple cfg (st_inserts st)) as [abbr full]. simpl in Hf.
    destruct abbr as [|a0 abbr]; [left; reflexivity|].
    destruct Hf as [Hf|[Hs Hin]]; [discriminate|].
    right. exists (a0 :: abbr), full. repeat split; auto. discriminate.
  Qed.

  Lemma expand_simple_range st : in_range (st_buf st) -> in_range (st_buf (expand_simple_abbr cfg st)).
  Proof.
    intros H. destruct (expand_simple_cases st) as [E|[abbr [full [_ [_ [_ E]]]]]]; rewrite E; [exact H|].
    unfold in_range in *. simpl. rewrite !app_length, firstn_length, skipn_length. lia.
  Qed.

  (* the expansion replaces exactly the abbreviation in front of the dot and
     leaves the dot right behind the expansion *)
  Lemma simple_abbr_dot_at_end st :
    in_range (st_buf st) ->
    suffix_of (st_inserts st) (firstn (dot (st_buf st)) (content (st_buf st))) ->
    let st' := expand_simple_abbr cfg st in
    st' = st \/
    exists pre abbr full, In (abbr, full) (simple_abbrs cfg) /\ abbr <> [] /\
      content (st_buf st) = pre ++ abbr ++ skipn (dot (st_buf st)) (content (st_buf st)) /\
      dot (st_buf st) = length (pre ++ abbr) /\
      content (st_buf st') = pre ++ full ++ skipn (dot (st_buf st)) (content (st_buf st)) /\
      dot (st_buf st') = length (pre ++ full) /\
      st_inserts st' = [].
  Proof.
    intros Hr Hsuf st'. unfold st'.
    destruct (expand_simple_cases st) as [E|[abbr [full [Hin [Hne [Hs E]]]]]]; [left; exact E|right].
    apply has_suffix_spec in Hs as [Hs _].
    destruct (suffix_trans _ _ _ Hs Hsuf) as [pre Hpre].
    destruct (firstn_before_suffix _ _ _ _ Hr Hpre) as [Hf Hd].
    exists pre, abbr, full. rewrite E. simpl. rewrite Hf.
    repeat split; auto.
    - rewrite <- (firstn_skipn (dot (st_buf st)) (content (st_buf st))) at 1.
      rewrite Hpre, <- app_assoc. reflexivity.
    - rewrite app_length. exact Hd.
    - rewrite app_length. lia.
  Qed.

  (* ---- small-word abbreviations ---- *)
  Lemma find_small_word_inv trigger ins' cont l acc :
    (fst acc = [] \/ has_suffix ins' (fst acc) = true) ->
    let cat := cat_of U FSmall in
    let r := fold_left (fun (acc : list N * list N) (p : list N * list N) =>
                 let a := fst p in
                 if blen a <=? blen (fst acc) then acc
                 else if negb (has_suffix ins' a) then acc
                 else if Z.eqb (cat trigger) (cat (last a 0%N)) then acc
                 else if (blen a + rune_len trigger <? blen cont)
                         && Z.eqb (cat (nth (length cont - length a - 1 - 1) cont 0%N)) (cat (hd 0%N a))
                 then acc
                 else p) l acc in
    fst r = [] \/ has_suffix ins' (fst r) = true.
  Proof.
    intros Hacc cat. revert acc Hacc; induction l as [|p l IH]; intros acc Hacc; simpl; [exact Hacc|].
    apply IH.
    destruct (blen (fst p) <=? blen (fst acc)); [exact Hacc|].
    destruct (has_suffix ins' (fst p)) eqn:Hs; simpl; [|exact Hacc].
    destruct (Z.eqb (cat trigger) (cat (last (fst p) 0%N))); [exact Hacc|].
    destruct ((blen (fst p) + rune_len trigger <? blen cont)
              && Z.eqb (cat (nth (length cont - length (fst p) - 1 - 1) cont 0%N)) (cat (hd 0%N (fst p))));
      [exact Hacc|right; exact Hs].
  Qed.

  Lemma expand_small_word_cases trigger st :
    expand_small_word_abbr U cfg trigger st = st \/
    exists abbr full, abbr <> [] /\
      has_suffix (removelast (st_inserts st)) abbr = true /\ st_inserts st <> [] /\
      ~ dot (st_buf st) < length (content (st_buf st)) /\
      expand_small_word_abbr U cfg trigger st =
      reset_inserts (set_buf st
        (mkBuf (firstn (dot (st_buf st) - length abbr - 1) (content (st_buf st)) ++ full ++ [trigger])
               (dot (st_buf st) - length abbr + length full))).
  Proof.
    unfold expand_small_word_abbr.
    destruct (dot (st_buf st) <? length (content (st_buf st))) eqn:Ed; [left; reflexivity|].
    apply Nat.ltb_ge in Ed.
    destruct (blen (st_inserts st) <=? rune_len trigger) eqn:Eb; [left; reflexivity|].
    apply Nat.leb_gt in Eb.
    pose proof (find_small_word_inv trigger (removelast (st_inserts st)) (content (st_buf st))
                  (sw_abbrs cfg) ([], []) (or_introl eq_refl)) as Hf. cbv zeta in Hf.
    unfold find_small_word.
    destruct (fold_left _ (sw_abbrs cfg) ([], [])) as [abbr full]. simpl in Hf.
    destruct abbr as [|a0 abbr]; [left; reflexivity|].
    destruct Hf as [Hf|Hs]; [discriminate|].
    right. exists (a0 :: abbr), full. repeat split; auto; try discriminate; try lia.
    intros E. rewrite E in Eb. unfold blen in Eb. simpl in Eb. lia.
  Qed.

  Lemma expand_small_word_range trigger st :
    in_range (st_buf st) -> in_range (st_buf (expand_small_word_abbr U cfg trigger st)).
  Proof.
    intros H. destruct (expand_small_word_cases trigger st) as [E|[abbr [full [_ [_ [_ [_ E]]]]]]];
      rewrite E; [exact H|].
    unfold in_range in *. simpl. rewrite !app_length, firstn_length. simpl. lia.
  Qed.

  Lemma removelast_length {A} (l : list A) : length (removelast l) = length l - 1.
  Proof.
    induction l as [|x l IH]; [reflexivity|]. destruct l as [|y l]; [reflexivity|].
    change (removelast (x :: y :: l)) with (x :: removelast (y :: l)). simpl length in *. lia.
  Qed.

  (* after a small-word expansion the dot is at the end of the buffer, behind
     the trigger, and no index went below zero *)
  Lemma small_word_abbr_dot_at_end trigger st :
    in_range (st_buf st) ->
    suffix_of (st_inserts st) (firstn (dot (st_buf st)) (content (st_buf st))) ->
    let st' := expand_small_word_abbr U cfg trigger st in
    st' = st \/
    exists (abbr full : list N), abbr <> [] /\
      length abbr + 1 <= dot (st_buf st) /\
      content (st_buf st') =
        firstn (dot (st_buf st) - length abbr - 1) (content (st_buf st)) ++ full ++ [trigger] /\
      dot (st_buf st') = length (content (st_buf st')) /\
      st_inserts st' = [].
  Proof.
    intros Hr [pre Hpre] st'. unfold st'.
    destruct (expand_small_word_cases trigger st) as [E|[abbr [full [Hne [Hs [Hins [Hend E]]]]]]];
      [left; exact E|right].
    apply has_suffix_spec in Hs as [_ Hl]. rewrite removelast_length in Hl.
    assert (Hi : 1 <= length (st_inserts st)) by (destruct (st_inserts st); [congruence|simpl; lia]).
    assert (Hd : length (st_inserts st) <= dot (st_buf st)).
    { apply (f_equal (@length N)) in Hpre. rewrite firstn_length, app_length in Hpre. lia. }
    exists abbr, full. rewrite E. simpl. unfold in_range in Hr.
    repeat split; auto; try lia.
    rewrite !app_length, firstn_length. simpl. lia.
  Qed.

  (* ---- one event ---- *)
  Lemma backspace_range b : in_range b -> in_range (backspace b).
  Proof. unfold in_range, backspace. simpl. intros H. rewrite app_length, firstn_length, skipn_length. lia. Qed.

  Lemma inv_expand_command st : inv st -> inv (expand_command_abbr U cfg st).
  Proof.
    intros H. destruct (expand_command_cases st) as [E|[newc E]]; rewrite E; [exact H|].
    apply inv_reset_set. unfold in_range. simpl. lia.
  Qed.

  Lemma inv_expand_simple st : inv st -> inv (expand_simple_abbr cfg st).
  Proof.
    intros H. pose proof (expand_simple_range st (proj1 H)) as Hr.
    destruct (expand_simple_cases st) as [E|[abbr [full [_ [_ [_ E]]]]]]; rewrite E in *; [exact H|].
    apply inv_reset_set. exact Hr.
  Qed.

  Lemma inv_expand_small_word trigger st : inv st -> inv (expand_small_word_abbr U cfg trigger st).
  Proof.
    intros H. pose proof (expand_small_word_range trigger st (proj1 H)) as Hr.
    destruct (expand_small_word_cases trigger st) as [E|[abbr [full [_ [_ [_ [_ E]]]]]]]; rewrite E in *; [exact H|].
    apply inv_reset_set. exact Hr.
  Qed.

  (* the state right after the rune has been inserted (before any expansion) *)
  Definition after_insert (st : cstate) (rn : N) : cstate :=
    let st1 := if buffer_eqb (st_last st) (st_buf st) then st else reset_inserts st in
    let b := insert_at_dot (st_buf st1) [rn] in
    mkSt b (st_inserts st1 ++ [rn]) b (st_pasting st1) (st_paste st1).

  (* there the inserted text is in front of the dot, and lastCodeBuffer is the buffer *)
  Lemma after_insert_inv st rn : inv st ->
    inv (after_insert st rn) /\ st_last (after_insert st rn) = st_buf (after_insert st rn) /\
    suffix_of (st_inserts (after_insert st rn))
              (firstn (dot (st_buf (after_insert st rn))) (content (st_buf (after_insert st rn)))).
  Proof.
    intros [Hr Hs]. unfold after_insert.
    destruct (buffer_eqb (st_last st) (st_buf st)) eqn:E.
    - apply buffer_eqb_eq in E. rewrite E in Hs.
      assert (Hsuf : suffix_of (st_inserts st ++ [rn])
                (firstn (dot (insert_at_dot (st_buf st) [rn])) (content (insert_at_dot (st_buf st) [rn])))).
      { rewrite insert_at_dot_prefix by exact Hr. destruct Hs as [pre Hp]. exists pre.
        rewrite Hp, app_assoc. reflexivity. }
      split; [split; [apply insert_at_dot_range; exact Hr|exact Hsuf]|]. split; [reflexivity|exact Hsuf].
    - assert (Hsuf : suffix_of ([] ++ [rn])
                (firstn (dot (insert_at_dot (st_buf st) [rn])) (content (insert_at_dot (st_buf st) [rn])))).
      { rewrite insert_at_dot_prefix by exact Hr. exists (firstn (dot (st_buf st)) (content (st_buf st))). reflexivity. }
      simpl st_buf; simpl st_inserts.
      split; [split; [apply insert_at_dot_range; exact Hr|exact Hsuf]|]. split; [reflexivity|exact Hsuf].
  Qed.

  Lemma step_inv st e : inv st -> ev_ok e -> inv (step U cfg st e).
  Proof.
    intros H Hok. destruct e as [r md|start|c|rs d]; simpl.
    - (* key *)
      unfold handle_key.
      destruct (st_pasting st).
      { destruct (negb (Z.eqb md 0) || (r <? 0)%Z); [exact H|]. destruct H as [H1 H2]. split; assumption. }
      match goal with |- context [if ?c then _ else _] => destruct c end; [apply inv_reset; exact H|].
      match goal with |- context [if ?c then _ else _] => destruct c end.
      { apply inv_set_buf; [apply inv_reset; exact H|]. apply backspace_range. exact (proj1 H). }
      match goal with |- context [if ?c then _ else _] => destruct c end; [apply inv_reset; exact H|].
      apply inv_expand_small_word, inv_expand_simple.
      pose proof (after_insert_inv st (Z.to_N r) H) as [Hi _]. unfold after_insert in Hi.
      destruct (is_whitespace (Z.to_N r)); [apply inv_expand_command|]; exact Hi.
    - (* paste bracket *)
      unfold handle_paste. destruct start.
      + apply inv_reset in H. destruct H as [H1 H2]. split; assumption.
      + apply inv_reset in H. destruct H as [H1 H2]. split; [|exact H2].
        simpl. apply insert_at_dot_range. exact H1.
    - apply inv_set_buf; [exact H|]. apply apply_cmd_range. exact (proj1 H).
    - apply inv_set_buf; [exact H|]. exact Hok.
  Qed.

  Lemma run_inv evs : forall st, inv st -> Forall ev_ok evs -> inv (run U cfg st evs).
  Proof.
    induction evs as [|e evs IH]; intros st H Hok; [exact H|].
    inversion Hok; subst. simpl. apply IH; [apply step_inv; assumption|assumption].
  Qed.

  (* dot in range after every prefix of every history *)
  Lemma history_dot_in_range b evs : in_range b -> Forall ev_ok evs ->
    forall k, in_range (st_buf (run U cfg (init_state b) (firstn k evs))).
  Proof.
    intros Hb Hok k. apply run_inv; [apply inv_init; exact Hb|].
    apply Forall_forall. intros e He. rewrite Forall_forall in Hok. apply Hok.
    rewrite <- (firstn_skipn k evs). apply in_or_app. left. exact He.
  Qed.
End Area.

(* ------------------------------------------------------------------ *)
(* the byte view: the byte offset of a rune index cuts the encoded text
   exactly between two encoded runes *)

Lemma encode_all_app a b : encode_all (a ++ b) = encode_all a ++ encode_all b.
Proof. unfold encode_all. apply flat_map_app. Qed.

Lemma byte_off_boundary rs d :
  firstn (byte_off rs d) (encode_all rs) = encode_all (firstn d rs) /\
  skipn (byte_off rs d) (encode_all rs) = encode_all (skipn d rs) /\
  byte_off rs d <= length (encode_all rs).
Proof.
  assert (E : encode_all rs = encode_all (firstn d rs) ++ encode_all (skipn d rs))
    by (rewrite <- encode_all_app, firstn_skipn; reflexivity).
  unfold byte_off, blen. rewrite E.
  split; [|split].
  - rewrite firstn_app, Nat.sub_diag, firstn_all. simpl. apply app_nil_r.
  - rewrite skipn_app, Nat.sub_diag, skipn_all. reflexivity.
  - rewrite app_length. lia.
Qed.

Lemma byte_off_mono rs d1 d2 : d1 <= d2 -> byte_off rs d1 <= byte_off rs d2.
Proof.
  intros H. unfold byte_off, blen.
  replace (firstn d1 rs) with (firstn d1 (firstn d2 rs)) by (rewrite firstn_firstn; f_equal; lia).
  rewrite <- (firstn_skipn d1 (firstn d2 rs)) at 2. rewrite encode_all_app, app_length. lia.
Qed.
