(* C13 — proofs, part 3a: facts about the UTF-8 encoding of every valid code
   point, established by exhaustive evaluation inside Coq (vm_compute over all
   2^21 candidates; this file takes about a minute to compile and is separate so
   that it is compiled once). *)
From verif Require Import lib.Base lib.Utf8.
Open Scope N_scope.

(* ---------- a checked fact about every code point, by exhaustive evaluation ---------- *)
Fixpoint all_pow2 (k : nat) (base : N) (f : N -> bool) : bool :=
  match k with
  | O => f base
  | S k' => all_pow2 k' base f && all_pow2 k' (base + 2 ^ N.of_nat k')%N f
  end.

Lemma all_pow2_spec k : forall base f, all_pow2 k base f = true ->
  forall r, (base <= r < base + 2 ^ N.of_nat k)%N -> f r = true.
Proof.
  induction k as [|k IH]; intros base f H r Hr.
  - cbn [all_pow2] in H. change (2 ^ N.of_nat 0)%N with 1%N in Hr.
    assert (r = base) by lia. subst. assumption.
  - cbn [all_pow2] in H. apply andb_true_iff in H as [H1 H2].
    rewrite Nat2N.inj_succ, N.pow_succ_r' in Hr.
    destruct (N.lt_ge_cases r (base + 2 ^ N.of_nat k)%N) as [Lt|Ge].
    + apply (IH base f H1). lia.
    + apply (IH _ f H2). lia.
Qed.

Definition pair_eqb (a b : N * nat) : bool := (fst a =? fst b)%N && Nat.eqb (snd a) (snd b).

(* what is checked for each valid code point r, e = its encoding:
   - decoding e gives back r and consumes all of e;
   - e is one rune-start byte followed by at most three continuation bytes; the first
     byte is below 0x80 exactly when there is no continuation byte;
   - every proper non-empty prefix of e decodes to (RuneError, 1). *)
Definition rune_ok (r : N) : bool :=
  let e := encode_rune r in
  pair_eqb (decode_rune e) (r, length e)
  && match e with
     | b0 :: cs =>
       rune_start b0 && forallb is_cont cs && Nat.leb (length cs) 3
       && Bool.eqb (b0 <? 128)%N (match cs with [] => true | _ => false end)
     | [] => false
     end
  && forallb (fun j => Nat.leb (length e) j || pair_eqb (decode_rune (firstn j e)) (RuneError, 1%nat))
             [1%nat; 2%nat; 3%nat].

Lemma all_runes_ok : all_pow2 21 0%N (fun r => negb (valid_rune r) || rune_ok r) = true.
Proof. vm_compute. reflexivity. Qed.

Lemma pair_eqb_eq a b : pair_eqb a b = true -> a = b.
Proof.
  destruct a as [a1 a2], b as [b1 b2]. unfold pair_eqb. cbn [fst snd].
  rewrite andb_true_iff, N.eqb_eq, Nat.eqb_eq. intros [-> ->]. reflexivity.
Qed.

Lemma valid_rune_le r : valid_rune r = true -> r < 2 ^ N.of_nat 21.
Proof.
  unfold valid_rune, MaxRune. rewrite andb_true_iff, N.leb_le. intros [H _].
  change (2 ^ N.of_nat 21) with 2097152. lia.
Qed.

Theorem rune_ok_all r : valid_rune r = true -> rune_ok r = true.
Proof.
  intros V. pose proof (all_pow2_spec 21 0 _ all_runes_ok r) as H.
  cbv beta in H. rewrite V in H. cbn [negb orb] in H. apply H.
  pose proof (valid_rune_le r V). lia.
Qed.
