(* C40 -- ledger_balanced: induction on evaluation, one lemma per construct. *)
From verif Require Import lib.Base model.C42_Ports model.C40 proofs.C42_proofs proofs.C40_ledger
  proofs.C40_form.
From Coq Require Import ZifyBool ZifyNat.
Open Scope nat_scope.

(* ---------------------------------------------------------------- small facts *)
Lemma open_spawn k s h : handle_open (spawn k s) h = handle_open s h.
Proof. destruct h; reflexivity. Qed.
Lemma open_join k s h : handle_open (join k s) h = handle_open s h.
Proof. destruct h; reflexivity. Qed.
Lemma gor_spawn k s : live_gor (spawn k s) = (live_gor s + Z.of_nat k)%Z.
Proof. unfold live_gor, spawn. simpl. lia. Qed.
Lemma gor_join k s : live_gor (join k s) = (live_gor s - Z.of_nat k)%Z.
Proof. unfold live_gor, join. simpl. lia. Qed.

Lemma open_set_cancel s b h : handle_open (set_cancel s b) h = handle_open s h.
Proof. destruct h; reflexivity. Qed.

Lemma new_pipe_effect s :
  let j := fst (new_pipe s) in
  let s1 := snd (new_pipe s) in
  j = length (s_pipes s)
  /\ (forall h, handle_open s1 h =
                if handle_eqb (HPipeR j) h || handle_eqb (HPipeW j) h then true else handle_open s h)
  /\ live_gor s1 = live_gor s
  /\ handle_open s (HPipeR j) = false /\ handle_open s (HPipeW j) = false.
Proof.
  unfold new_pipe. simpl. split; [reflexivity|]. split; [|split; [reflexivity|]].
  - intros h. rewrite !handle_open_stat. simpl.
    destruct h as [i|k| |j|j]; simpl; auto.
    + unfold stat_r. destruct (Nat.eqb_spec (length (s_pipes s)) j) as [<-|N]; simpl.
      * rewrite nth_error_app2, Nat.sub_diag by lia. reflexivity.
      * destruct (Nat.lt_ge_cases j (length (s_pipes s))) as [L|L].
        -- rewrite nth_error_app1; auto.
        -- rewrite (proj2 (nth_error_None (s_pipes s) j)) by lia.
           rewrite (proj2 (nth_error_None (s_pipes s ++ [mkPipe [] true true]) j)); auto.
           rewrite app_length. simpl. lia.
    + unfold stat_w. destruct (Nat.eqb_spec (length (s_pipes s)) j) as [<-|N]; simpl.
      * rewrite nth_error_app2, Nat.sub_diag by lia. reflexivity.
      * destruct (Nat.lt_ge_cases j (length (s_pipes s))) as [L|L].
        -- rewrite nth_error_app1; auto.
        -- rewrite (proj2 (nth_error_None (s_pipes s) j)) by lia.
           rewrite (proj2 (nth_error_None (s_pipes s ++ [mkPipe [] true true]) j)); auto.
           rewrite app_length. simpl. lia.
  - split; simpl; rewrite (proj2 (nth_error_None (s_pipes s) (length (s_pipes s)))); auto.
Qed.

Lemma heldb_nil T h : heldb T [] h = false.
Proof. destruct T; reflexivity. Qed.

Lemma closes_ext c s s' : (forall h, c h = false) -> closes c s s' -> ext s s'.
Proof. intros Hc [H G]. split; auto. intros h. rewrite H, Hc. reflexivity. Qed.

Lemma exec_redirs_len rs : forall x x',
  exec_redirs Impl [] x rs = ROk x' -> length (fs_T x) <= length (fs_T x').
Proof.
  induction rs as [|r rs IH]; intros x x' H; simpl in H.
  - inversion H; auto.
  - destruct (exec_redir Impl [] x r) as [x1|k x1|] eqn:E; try discriminate.
    destruct (exec_redir_table _ _ _ _ _ E) as (d & _ & HL & _).
    specialize (IH _ _ H). lia.
Qed.

(* ---------------------------------------------------------------- one lemma per construct *)
Section Constructs.
Variable runf : table -> stmt -> st -> res st.
Hypothesis HP : forall T c s, 2 <= length T -> okx (ext s) (runf T c s).

Lemma chunk_ext : forall cs T s, 2 <= length T -> okx (ext s) (chunk_of runf T cs s).
Proof.
  induction cs as [|c cs IH]; intros T s HT; simpl.
  - destruct (s_cancel s); simpl; apply ext_refl.
  - apply okx_bind; [apply HP; auto|]. intros s1 _. apply IH; auto.
Qed.

(* a form with any redirection list and any pre-owned ports: on every exit path
   exactly the pre-owned handles are closed in addition; every file opened by
   the redirections is closed again *)
Lemma form_closes T F0 pin rs body s :
  2 <= length T ->
  (forall h, heldP T F0 h -> closable h = true) ->
  (forall d, fo_file (nth d F0 fop0) = true -> exists p, tget T d = Some p) ->
  okx (closes (heldb T F0) s) (form_of runf T F0 pin rs body s).
Proof.
  intros HT Hc Hw. unfold form_of.
  pose proof (exec_redirs_inv s (heldb T F0) rs _ (inv_init T F0 s Hc Hw)) as HI.
  destruct (exec_redirs Impl [] (mkFs T F0 s []) rs) as [x|k x|] eqn:E; simpl; auto.
  - assert (HL : 2 <= length (fs_T x)).
    { apply exec_redirs_len in E. simpl in E. lia. }
    pose proof (chunk_ext body (fs_T x) (fs_st x) HL) as HB.
    unfold finish40.
    destruct (chunk_of runf (fs_T x) body (fs_st x)) as [s2|k s2| |]; cbn [okx] in *; auto;
      match goal with |- okx _ (if ?b then _ else _) => destruct b end; simpl; auto;
      apply form_end_closes; auto.
  - unfold finish40.
    match goal with |- okx _ (if ?b then _ else _) => destruct b end; simpl; auto.
    apply form_end_closes; auto. apply ext_refl.
Qed.

Lemma form_ext T rs body s :
  2 <= length T -> okx (ext s) (form_of runf T [] None rs body s).
Proof.
  intros HT.
  assert (H : okx (closes (heldb T []) s) (form_of runf T [] None rs body s)).
  { apply form_closes; auto.
    - intros h (d & p & H & _). destruct d; discriminate.
    - intros d H. destruct d; discriminate. }
  destruct (form_of runf T [] None rs body s); cbn [okx] in *; auto;
    eapply closes_ext; eauto; intros h; destruct T; reflexivity.
Qed.

Definition cin (inp : option nat) (h : handle) : bool :=
  match inp with Some j => handle_eqb (HPipeR j) h | None => false end.

(* a pipeline: every pipe end it created is closed when it returns, on every
   combination of failing stages *)
Lemma stages_closes T : 2 <= length T ->
  forall sts inp acc s,
    (sts <> [] \/ inp = None) ->
    okx (closes (cin inp) s) (stages_of runf T sts inp acc s).
Proof.
  intros HT. destruct T as [|a [|b T']]; simpl in HT; try lia.
  induction sts as [|[rs body] rest IH]; intros inp acc s Hne.
  - destruct Hne as [Hne| ->]; [congruence|]. simpl.
    destruct acc; simpl; apply closes_same; auto.
  - simpl stages_of.
    set (Tin := match inp with
                | Some j => list_upd (a :: b :: T') 0 (Some (mkPort (Some (HPipeR j)) (ChPipe j)))
                | None => a :: b :: T' end).
    destruct rest as [|st2 rest'].
    + (* the last stage *)
      match goal with |- context [form_of runf ?A ?B ?C ?D ?E ?F] =>
        set (r := form_of runf A B C D E F) end.
      assert (HF : okx (closes (cin inp) s) r).
      { unfold r. destruct inp as [j|]; unfold Tin; simpl list_upd.
        - assert (Hh : forall h, heldb (Some (mkPort (Some (HPipeR j)) (ChPipe j)) :: b :: T')
                                       [mkFop true false] h = cin (Some j) h).
          { intros h. simpl. rewrite orb_false_r. reflexivity. }
          assert (H : okx (closes (heldb (Some (mkPort (Some (HPipeR j)) (ChPipe j)) :: b :: T')
                                         [mkFop true false]) s)
                          (form_of runf (Some (mkPort (Some (HPipeR j)) (ChPipe j)) :: b :: T')
                                   [mkFop true false] (Some j) rs body s)).
          { apply form_closes; simpl; try lia.
            - intros h (d & p & H1 & H2 & H3). destruct d as [|[|d]]; try discriminate.
              unfold tget in H2. simpl in H2. inversion H2; subst p. simpl in H3.
              inversion H3; reflexivity.
            - intros d H. destruct d as [|[|d]]; try discriminate. eexists; reflexivity. }
          destruct (form_of runf _ _ (Some j) rs body s); cbn [okx] in *; auto;
            destruct H as [H G]; split; auto; intros h; rewrite H, Hh; reflexivity.
        - assert (H := form_ext (a :: b :: T') rs body s ltac:(simpl; lia)).
          destruct (form_of runf (a :: b :: T') [] None rs body s); cbn [okx] in *; auto;
            apply closes_none; auto. }
      clearbody r. destruct r as [s2|k s2| |]; cbn [okx] in *; auto; destruct acc; simpl; auto.
    + (* a stage with an output pipe *)
      destruct (new_pipe_effect s) as (Ej & HO1 & HG1 & HR & HW).
      set (j := fst (new_pipe s)) in *. set (s1' := snd (new_pipe s)) in *.
      set (s1 := spawn 1 s1').
      set (Tst := list_upd Tin 1 (Some (mkPort (Some (HPipeW j)) (ChPipe j)))).
      set (Fst := match inp with
                  | Some _ => [mkFop true false; mkFop true true]
                  | None => [fop0; mkFop true true] end).
      assert (Hh : forall h, heldb Tst Fst h = cin inp h || handle_eqb (HPipeW j) h).
      { intros h. unfold Tst, Fst, Tin.
        destruct inp as [ji|]; cbn [heldb cin list_upd fo_file fop0 p_file andb orb];
          rewrite ?heldb_nil; destruct (handle_eqb (HPipeW j) h);
          rewrite ?orb_false_r, ?orb_true_r; reflexivity. }
      match goal with |- context [form_of runf ?A ?B ?C ?D ?E ?F] =>
        set (r := form_of runf A B C D E F) end.
      assert (HF : okx (closes (heldb Tst Fst) s1) r).
      { unfold r. apply form_closes.
        - unfold Tst, Tin. destruct inp; simpl; lia.
        - intros h Hh'. apply held_iff in Hh'. rewrite Hh in Hh'.
          apply orb_true_iff in Hh' as [Hh'|Hh'].
          + destruct inp as [ji|]; [|discriminate]. unfold cin in Hh'. apply handle_eqb_eq in Hh'; subst h; reflexivity.
          + apply handle_eqb_eq in Hh'; subst h; reflexivity.
        - intros d H. unfold Tst, Fst, Tin in *.
          destruct inp; destruct d as [|[|[|d]]]; simpl in H; try discriminate; eexists; reflexivity. }
      assert (Step : forall acc' s2, closes (heldb Tst Fst) s1 s2 ->
                 okx (closes (cin inp) s) (stages_of runf (a :: b :: T') (st2 :: rest') (Some j) acc' (join 1 s2))).
      { intros acc' s2 [H2 G2].
        assert (Hne2 : st2 :: rest' <> [] \/ Some j = None) by (left; discriminate).
        assert (HI := IH (Some j) acc' (join 1 s2) Hne2).
        remember (stages_of runf (a :: b :: T') (st2 :: rest') (Some j) acc' (join 1 s2)) as r3 eqn:Er3.
        clear Er3 IH HF.
        assert (Fin : forall s3, closes (cin (Some j)) (join 1 s2) s3 -> closes (cin inp) s s3).
        { intros s3 [H3 G3]. split.
          - intros h. rewrite H3, open_join, H2, Hh. unfold s1. rewrite open_spawn, HO1.
            unfold cin at 1.
            destruct (handle_eqb (HPipeR j) h) eqn:ER.
            + apply handle_eqb_eq in ER; subst h. rewrite HR. destruct (cin inp (HPipeR j)); reflexivity.
            + destruct (handle_eqb (HPipeW j) h) eqn:EW.
              * apply handle_eqb_eq in EW; subst h. rewrite HW, orb_true_r.
                destruct (cin inp (HPipeW j)); reflexivity.
              * rewrite orb_false_r. reflexivity.
          - rewrite G3, gor_join, G2. unfold s1. rewrite gor_spawn, HG1. lia. }
        destruct r3 as [s3|k s3| |]; cbn [okx] in *; auto. }
      clearbody r. clear IH.
      destruct r as [s2|k s2| |]; cbn [bind after_branch fst snd okx] in HF |- *;
        try exact Logic.I; apply Step; exact HF.
Qed.

Lemma capture_ext T body s : 2 <= length T -> okx (ext s) (capture_of runf T body s).
Proof.
  intros HT. unfold capture_of.
  destruct (new_pipe_effect s) as (Ej & HO1 & HG1 & HR & HW).
  set (j := fst (new_pipe s)) in *. set (s1' := snd (new_pipe s)) in *.
  set (T' := list_upd T 1 (Some (mkPort (Some (HPipeW j)) (ChPipe j)))).
  assert (HB := chunk_ext body T' (spawn 2 s1') ltac:(unfold T'; rewrite length_list_upd; auto)).
  assert (Fin : forall s2, ext (spawn 2 s1') s2 ->
            ext s (join 2 (close_handle (close_handle s2 (HPipeW j)) (HPipeR j)))).
  { intros s2 [H2 G2].
    destruct (close_handle_closes s2 (HPipeW j) eq_refl) as [HC1 GC1].
    destruct (close_handle_closes (close_handle s2 (HPipeW j)) (HPipeR j) eq_refl) as [HC2 GC2].
    split.
    - intros h. rewrite open_join, HC2, HC1, H2, open_spawn, HO1.
      destruct (handle_eqb (HPipeR j) h) eqn:ER; destruct (handle_eqb (HPipeW j) h) eqn:EW;
        cbn [orb]; try reflexivity.
      + apply handle_eqb_eq in ER; subst h. symmetry; exact HR.
      + apply handle_eqb_eq in ER; subst h. symmetry; exact HR.
      + apply handle_eqb_eq in EW; subst h. symmetry; exact HW.
    - rewrite gor_join, GC2, GC1, G2, gor_spawn, HG1. lia. }
  destruct (chunk_of runf T' body (spawn 2 s1')) as [s2|k s2| |]; cbn [okx] in *; auto.
Qed.

Lemma each_iter_ext T body : 2 <= length T -> forall n s0 s,
  (forall h, handle_open s h = handle_open s0 h) -> live_gor s = (live_gor s0 + 3)%Z ->
  okx (ext s0) (each_iter runf T body n s).
Proof.
  intros HT. induction n as [|n IH]; intros s0 s HO HG; simpl.
  - split; [intros h; rewrite open_join; auto|rewrite gor_join, HG; lia].
  - pose proof (chunk_ext body T s HT) as HB.
    destruct (chunk_of runf T body s) as [s2|k s2| |]; cbn [okx] in *; auto.
    + destruct HB as [H2 G2]. apply IH; [intros h; rewrite H2; auto|lia].
    + destruct HB as [H2 G2].
      split; [intros h; rewrite open_join, H2; auto|rewrite gor_join, G2, HG; lia].
Qed.

Lemma each_ext T body s : 2 <= length T -> okx (ext s) (each_of runf T body s).
Proof.
  intros HT. unfold each_of. destruct (tget T 0) as [pi|]; [|exact Logic.I].
  pose proof (read_all_ext (spawn 3 s) (p_file pi)) as HR.
  destruct (read_all (spawn 3 s) (p_file pi)) as [[b s2]|k s2| |];
    [ | |exact Logic.I|exact Logic.I];
    destruct HR as [H2 G2];
    (apply each_iter_ext;
     [auto|intros h; rewrite H2, open_spawn; reflexivity|rewrite G2, gor_spawn; lia]).
Qed.

Lemma peach_ext T body : 2 <= length T -> forall n acc s,
  okx (ext s) (peach_iter runf T body n acc s).
Proof.
  intros HT. induction n as [|n IH]; intros acc s; simpl.
  - destruct acc; simpl; apply ext_refl.
  - pose proof (chunk_ext body T (spawn 1 s) HT) as HB.
    assert (Step : forall acc' s2, ext (spawn 1 s) s2 ->
              okx (ext s) (peach_iter runf T body n acc' (join 1 s2))).
    { intros acc' s2 [H2 G2]. specialize (IH acc' (join 1 s2)).
      destruct (peach_iter runf T body n acc' (join 1 s2)); cbn [okx] in *; auto;
        destruct IH as [H3 G3];
        (split; [intros h; rewrite H3, open_join, H2, open_spawn; reflexivity
                |rewrite G3, gor_join, G2, gor_spawn; lia]). }
    destruct (chunk_of runf T body (spawn 1 s)) as [s2|k s2| |];
      cbn [bind after_branch fst snd okx] in HB |- *; try exact Logic.I; apply Step; exact HB.
Qed.

Lemma par_ext T : 2 <= length T -> forall fs acc s, okx (ext s) (par_of runf T fs acc s).
Proof.
  intros HT. induction fs as [|body fs IH]; intros acc s; simpl.
  - destruct acc; simpl; apply ext_refl.
  - pose proof (chunk_ext body T (spawn 1 s) HT) as HB.
    assert (Step : forall acc' s2, ext (spawn 1 s) s2 ->
              okx (ext s) (par_of runf T fs acc' (join 1 s2))).
    { intros acc' s2 [H2 G2]. specialize (IH acc' (join 1 s2)).
      destruct (par_of runf T fs acc' (join 1 s2)); cbn [okx] in *; auto;
        destruct IH as [H3 G3];
        (split; [intros h; rewrite H3, open_join, H2, open_spawn; reflexivity
                |rewrite G3, gor_join, G2, gor_spawn; lia]). }
    destruct (chunk_of runf T body (spawn 1 s)) as [s2|k s2| |];
      cbn [bind after_branch fst snd okx] in HB |- *; try exact Logic.I; apply Step; exact HB.
Qed.

Lemma try_ext T body s : 2 <= length T -> okx (ext s) (try_of runf T body s).
Proof.
  intros HT. unfold try_of. pose proof (chunk_ext body T s HT) as HB.
  destruct (chunk_of runf T body s) as [s2|k s2| |]; cbn [okx] in *; auto.
  destruct (s_cancel s2); simpl; auto.
Qed.

Lemma step_ext T c s : 2 <= length T -> okx (ext s) (step runf T c s).
Proof.
  intros HT. unfold step. destruct (s_cancel s); [simpl; apply ext_refl|].
  destruct c as [| | |b|n|rs body|stages|body|body|n body|fs|body].
  - simpl; apply ext_refl.
  - simpl; apply ext_refl.
  - simpl. split; [intros h; apply open_set_cancel|reflexivity].
  - destruct (tget T 1) as [p|]; simpl; auto.
    apply okx_bind; [apply write_bytes_ext|]. intros s1 _. apply write_bytes_ext.
  - destruct (tget T 1) as [p|]; simpl; auto. apply put_values_ext.
  - apply form_ext; auto.
  - pose proof (stages_closes T HT stages None None s (or_intror eq_refl)) as H.
    destruct (stages_of runf T stages None None s); cbn [okx] in *; auto; apply closes_none; auto.
  - apply capture_ext; auto.
  - apply each_ext; auto.
  - apply peach_ext. rewrite length_list_upd; auto.
  - apply par_ext; auto.
  - apply try_ext; auto.
Qed.
End Constructs.

(* ---------------------------------------------------------------- the theorem *)
Lemma run_ext : forall fuel T c s, 2 <= length T -> okx (ext s) (run fuel T c s).
Proof.
  induction fuel as [|fuel IH]; intros T c s HT; simpl; auto.
  apply step_ext; auto.
Qed.

Lemma run_prog_ext fuel T body s : 2 <= length T -> okx (ext s) (run_prog fuel T body s).
Proof. intros HT. unfold run_prog. apply chunk_ext; auto. intros; apply run_ext; auto. Qed.

(* ledger at return = ledger at entry, for every program of the modelled
   constructs, every initial table with at least stdin and stdout, every state,
   on the normal and on the exceptional (exception, interruption) exit *)
Lemma ledger_balanced : forall fuel T body s s',
  2 <= length T ->
  (run_prog fuel T body s = Ok s' \/ exists k, run_prog fuel T body s = Exc k s') ->
  live_fds s' = live_fds s /\ live_gor s' = live_gor s
  /\ forall h, handle_open s' h = handle_open s h.
Proof.
  intros fuel T body s s' HT H.
  pose proof (run_prog_ext fuel T body s HT) as HE.
  assert (E : ext s s').
  { destruct H as [H|[k H]]; rewrite H in HE; exact HE. }
  destruct (ext_live _ _ E) as [H1 H2]. destruct E as [H3 _]. auto.
Qed.

(* C42: files opened by a redirection are closed when the form finishes -- for
   every redirection list, every body, every exit path of redirections and body *)
Lemma opened_files_closed_at_form_end : forall fuel T rs body s s',
  2 <= length T ->
  (form_of (run fuel) T [] None rs body s = Ok s'
   \/ exists k, form_of (run fuel) T [] None rs body s = Exc k s') ->
  (forall i, length (s_ofds s) <= i -> handle_open s' (HOfd i) = false)
  /\ (forall h, handle_open s' h = handle_open s h)
  /\ live_fds s' = live_fds s.
Proof.
  intros fuel T rs body s s' HT H.
  pose proof (form_ext (run fuel) (fun T c s H => run_ext fuel T c s H) T rs body s HT) as HE.
  assert (E : ext s s').
  { destruct H as [H|[k H]]; rewrite H in HE; exact HE. }
  split; [|split].
  - intros i Hi. destruct E as [E _]. rewrite E. simpl.
    rewrite (proj2 (nth_error_None (s_ofds s) i)); auto.
  - destruct E; auto.
  - apply ext_live; auto.
Qed.
