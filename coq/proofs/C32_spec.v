(* C32 -- the property restated at Prop level on observable traces (no monitor
   state: only positions in the trace), soundness of the decidable oracle for
   it, and the resulting theorems about every trace of the model. *)
From verif Require Import lib.Base gen.Consts model.C32 proofs.C32_proofs.
Open Scope nat_scope.

(* ---------- vocabulary on observable traces ---------- *)
Fixpoint inputs (os : list obs) : list N :=
  match os with [] => [] | EInput e :: r => e :: inputs r | _ :: r => inputs r end.
Fixpoint handled (os : list obs) : list N :=
  match os with [] => [] | CHandleStart e :: r => e :: handled r | _ :: r => handled r end.

Definition is_start (o : obs) : bool :=
  match o with CRedrawStart _ | CHandleStart _ | CFinalStart _ => true | _ => false end.
Definition is_end (o : obs) : bool :=
  match o with CRedrawEnd | CHandleEnd | CFinalEnd => true | _ => false end.
Definition is_redraw_start (o : obs) : bool :=
  match o with CRedrawStart _ => true | _ => false end.
Definition is_full_start (o : obs) : bool :=
  match o with CRedrawStart true => true | _ => false end.
Definition is_final_start (o : obs) : bool :=
  match o with CFinalStart _ => true | _ => false end.
Definition is_return (o : obs) : bool :=
  match o with EReturn _ => true | _ => false end.

(* o is a Redraw(f) request: the whole call, or its invocation *)
Definition Req (f : bool) (o : obs) : Prop := o = ERedraw f \/ o = ERedrawCall f.

(* a redraw (a full one if the request was full) starts somewhere in b *)
Definition Served (f : bool) (b : list obs) : Prop :=
  exists b1 g b2, b = b1 ++ CRedrawStart g :: b2 /\ (f = true -> g = true).

Record Spec_C32 (os : list obs) : Prop := mkSpec {
  (* events are handled in arrival order: at every moment the handled events
     are a prefix of the enqueued ones *)
  sp_order : forall p rest, os = p ++ rest -> exists pend, inputs p = handled p ++ pend;
  (* one at a time: between two callback entries there is a callback exit *)
  sp_serial : forall a o1 b o2 c, os = a ++ o1 :: b ++ o2 :: c ->
      is_start o1 = true -> is_start o2 = true -> exists o, In o b /\ is_end o = true;
  (* whenever the loop blocks, every enqueued event has been handled *)
  sp_all_handled : forall a c, os = a ++ OQuiesce :: c -> inputs a = handled a;
  (* whenever the loop blocks (so it has not returned), every earlier redraw
     request was followed by a redraw that started after it, a full request by
     a full redraw *)
  sp_redraw : forall a o f b c, os = a ++ o :: b ++ OQuiesce :: c -> Req f o -> Served f b;
  (* the loop never blocks while a Return is pending *)
  sp_return_honoured : forall a c, os = a ++ OQuiesce :: c -> forall o, In o a -> is_return o = false;
  (* Run returns the value of the first Return, after exactly one final redraw,
     which is the last callback *)
  sp_return : forall a r c, os = a ++ CReturned r :: c ->
      (exists a1 a2, a = a1 ++ EReturn r :: a2 /\ forall o, In o a1 -> is_return o = false) /\
      (exists a1 f a2, a = a1 ++ CFinalStart f :: a2 /\
         (forall o, In o a1 -> is_final_start o = false) /\
         (forall o, In o (a2 ++ CReturned r :: c) -> is_start o = false))
}.

(* ---------- the monitor: basic facts ---------- *)
Lemma ok_mstep : forall m o, m_ok (mstep m o) = true -> m_ok m = true.
Proof.
  intros [ok acc cb uns unsf fst fn dn] o H; destruct o; simpl in *;
    repeat (apply andb_true_iff in H; destruct H as [H ?]); assumption.
Qed.

Lemma ok_mrun : forall os m, m_ok (mrun m os) = true -> m_ok m = true.
Proof.
  induction os as [|o os IH]; intros m H; simpl in *; [assumption|].
  apply IH in H. eapply ok_mstep; eauto.
Qed.

Lemma ok_prefix : forall p rest m, m_ok (mrun m (p ++ rest)) = true -> m_ok (mrun m p) = true.
Proof. intros p rest m H; rewrite mrun_app in H; eapply ok_mrun; eauto. Qed.

Lemma mrun_cons : forall m o os, mrun m (o :: os) = mrun (mstep m o) os.
Proof. reflexivity. Qed.

(* ---------- order ---------- *)
Lemma acc_track : forall os m, m_ok (mrun m os) = true ->
  m_acc m ++ inputs os = handled os ++ m_acc (mrun m os).
Proof.
  induction os as [|o os IH]; intros m H.
  - simpl; rewrite app_nil_r; reflexivity.
  - rewrite mrun_cons in *. pose proof (ok_mrun _ _ H) as Hok. specialize (IH _ H).
    destruct m as [ok acc cb uns unsf fst fn dn]; destruct o; simpl in *;
      try exact IH.
    + rewrite <- app_assoc in IH; exact IH.
    + destruct acc as [|e' acc]; simpl in *.
      * rewrite !andb_false_r in Hok; discriminate.
      * apply andb_true_iff in Hok as [_ He]. apply N.eqb_eq in He; subst e'.
        f_equal; exact IH.
Qed.

(* ---------- serial ---------- *)
Lemma serial_from : forall b m o2, m_cb m <> KNone ->
  m_ok (mrun m (b ++ [o2])) = true -> is_start o2 = true ->
  exists o, In o b /\ is_end o = true.
Proof.
  induction b as [|o b IH]; intros m o2 Hcb H Hs.
  - simpl in H. destruct m as [ok acc cb uns unsf fst fn dn]; simpl in *.
    destruct o2; try discriminate Hs; simpl in H;
      destruct cb; try congruence; simpl in H; rewrite ?andb_false_r in H; discriminate.
  - destruct (is_end o) eqn:He; [exists o; split; [left; reflexivity|assumption]|].
    simpl app in H. rewrite mrun_cons in H.
    pose proof (ok_mrun _ _ H) as Hok.
    assert (Hcb' : m_cb (mstep m o) <> KNone).
    { destruct m as [ok acc cb uns unsf fst fn dn]; destruct o; simpl in *;
        try assumption; try discriminate. }
    destruct (IH _ _ Hcb' H Hs) as (x & Hin & Hx). exists x; split; [right|]; assumption.
Qed.

Lemma start_sets_cb : forall m o, is_start o = true -> m_cb (mstep m o) <> KNone.
Proof.
  intros [ok acc cb uns unsf fst fn dn] o H; destruct o; try discriminate H; simpl; discriminate.
Qed.

(* ---------- redraw ---------- *)
Lemma uns_served : forall b m, m_uns m = true ->
  m_ok (mrun m (b ++ [OQuiesce])) = true ->
  exists b1 g b2, b = b1 ++ CRedrawStart g :: b2.
Proof.
  induction b as [|o b IH]; intros m Hu H.
  - simpl in H. destruct m as [ok acc cb uns unsf fst fn dn]; simpl in *; subst uns.
    rewrite ?andb_false_r in H; simpl in H; rewrite ?andb_false_r in H; discriminate.
  - destruct (is_redraw_start o) eqn:Hr.
    + destruct o; try discriminate Hr. exists [], f, b; reflexivity.
    + simpl app in H; rewrite mrun_cons in H.
      assert (Hu' : m_uns (mstep m o) = true).
      { destruct m as [ok acc cb uns unsf fst fn dn]; destruct o; simpl in *;
          try assumption; try reflexivity; discriminate. }
      destruct (IH _ Hu' H) as (b1 & g & b2 & ->). exists (o :: b1), g, b2; reflexivity.
Qed.

Lemma unsf_served : forall b m, m_unsf m = true ->
  m_ok (mrun m (b ++ [OQuiesce])) = true ->
  exists b1 b2, b = b1 ++ CRedrawStart true :: b2.
Proof.
  induction b as [|o b IH]; intros m Hu H.
  - simpl in H. destruct m as [ok acc cb uns unsf fst fn dn]; simpl in *; subst unsf.
    rewrite ?andb_false_r in H; simpl in H; rewrite ?andb_false_r in H; discriminate.
  - destruct (is_full_start o) eqn:Hr.
    + destruct o as [| | |[|]| | | | | | | |]; try discriminate Hr. exists [], b; reflexivity.
    + simpl app in H; rewrite mrun_cons in H.
      assert (Hu' : m_unsf (mstep m o) = true).
      { destruct m as [ok acc cb uns unsf fst fn dn]; destruct o as [| | |[|]| | | | | | | |];
          simpl in *; subst; try reflexivity; discriminate. }
      destruct (IH _ Hu' H) as (b1 & b2 & ->). exists (o :: b1), b2; reflexivity.
Qed.

(* the converse direction, used for the state invariants: a request with no
   redraw start after it leaves the monitor flag set *)
Lemma uns_keep : forall b m, m_uns m = true ->
  (forall o, In o b -> is_redraw_start o = false) -> m_uns (mrun m b) = true.
Proof.
  induction b as [|o b IH]; intros m Hu Hb; [assumption|].
  rewrite mrun_cons; apply IH; [|intros x Hx; apply Hb; right; assumption].
  pose proof (Hb o (or_introl eq_refl)) as Ho.
  destruct m as [ok acc cb uns unsf fst fn dn]; destruct o; simpl in *;
    try assumption; try reflexivity; discriminate.
Qed.

Lemma unsf_keep : forall b m, m_unsf m = true ->
  (forall o, In o b -> is_full_start o = false) -> m_unsf (mrun m b) = true.
Proof.
  induction b as [|o b IH]; intros m Hu Hb; [assumption|].
  rewrite mrun_cons; apply IH; [|intros x Hx; apply Hb; right; assumption].
  pose proof (Hb o (or_introl eq_refl)) as Ho.
  destruct m as [ok acc cb uns unsf fst fn dn]; destruct o as [| | |[|]| | | | | | | |];
    simpl in *; subst; try reflexivity; discriminate.
Qed.

Lemma after_request : forall m f o, Req f o ->
  m_uns (mstep m o) = true /\ (f = true -> m_unsf (mstep m o) = true).
Proof.
  intros [ok acc cb uns unsf fst fn dn] f o [->| ->]; simpl; (split; [reflexivity|]);
    intros ->; apply orb_true_r.
Qed.

(* ---------- return ---------- *)
Fixpoint first_ret (os : list obs) : option N :=
  match os with [] => None | EReturn r :: _ => Some r | _ :: r => first_ret r end.

Lemma first_track : forall os m,
  m_first (mrun m os) = match m_first m with Some x => Some x | None => first_ret os end.
Proof.
  induction os as [|o os IH]; intros m.
  - simpl; destruct (m_first m); reflexivity.
  - rewrite mrun_cons, IH.
    destruct m as [ok acc cb uns unsf fst fn dn]; destruct o; simpl; try reflexivity.
    destruct fst; reflexivity.
Qed.

Lemma first_ret_split : forall os r, first_ret os = Some r ->
  exists a1 a2, os = a1 ++ EReturn r :: a2 /\ forall o, In o a1 -> is_return o = false.
Proof.
  induction os as [|o os IH]; intros r H; simpl in H; [discriminate|].
  destruct (is_return o) eqn:Hr.
  - destruct o; try discriminate Hr. inversion H; subst.
    exists [], os; split; [reflexivity|intros ? []].
  - assert (H' : first_ret os = Some r) by (destruct o; try exact H; discriminate Hr).
    destruct (IH _ H') as (a1 & a2 & -> & Hn).
    exists (o :: a1), a2; split; [reflexivity|].
    intros x [<-|Hx]; [assumption|apply Hn; assumption].
Qed.

Lemma first_ret_none : forall os, first_ret os = None -> forall o, In o os -> is_return o = false.
Proof.
  induction os as [|x os IH]; intros H o Hin; [destruct Hin|].
  destruct x; simpl in H; try discriminate H;
    (destruct Hin as [<-|Hin]; [reflexivity|apply IH; assumption]).
Qed.

Fixpoint count_final (os : list obs) : nat :=
  match os with [] => 0 | CFinalStart _ :: r => S (count_final r) | _ :: r => count_final r end.

Lemma finals_track : forall os m, m_finals (mrun m os) = m_finals m + count_final os.
Proof.
  induction os as [|o os IH]; intros m; [simpl; lia|].
  rewrite mrun_cons, IH.
  destruct m as [ok acc cb uns unsf fst fn dn]; destruct o; simpl; lia.
Qed.

Lemma first_final_split : forall os, count_final os >= 1 ->
  exists a1 f a2, os = a1 ++ CFinalStart f :: a2 /\ forall o, In o a1 -> is_final_start o = false.
Proof.
  induction os as [|o os IH]; intros H; simpl in H; [lia|].
  destruct (is_final_start o) eqn:Hf.
  - destruct o; try discriminate Hf. exists [], f, os; split; [reflexivity|intros ? []].
  - assert (H' : count_final os >= 1) by (destruct o; try exact H; discriminate Hf).
    destruct (IH H') as (a1 & f & a2 & -> & Hn).
    exists (o :: a1), f, a2; split; [reflexivity|].
    intros x [<-|Hx]; [assumption|apply Hn; assumption].
Qed.

Lemma no_start_after_final : forall os m, m_finals m >= 1 ->
  m_ok (mrun m os) = true -> forall o, In o os -> is_start o = false.
Proof.
  induction os as [|x os IH]; intros m Hf H o Hin; [destruct Hin|].
  rewrite mrun_cons in H. pose proof (ok_mrun _ _ H) as Hok.
  assert (Hf' : m_finals (mstep m x) >= 1).
  { destruct m as [ok acc cb uns unsf fst fn dn]; destruct x; simpl in *; lia. }
  destruct Hin as [<-|Hin]; [|eapply IH; eauto].
  destruct m as [ok acc cb uns unsf fst fn dn]; destruct x; simpl in *; try reflexivity;
    destruct fn; try lia; simpl in Hok; rewrite ?andb_false_r in Hok; simpl in Hok;
    rewrite ?andb_false_r in Hok; discriminate.
Qed.

(* ---------- oracle soundness ---------- *)
Lemma quiesce_facts : forall a c, check_C32 (a ++ OQuiesce :: c) = true ->
  m_acc (mrun mon0 a) = [] /\ m_first (mrun mon0 a) = None.
Proof.
  intros a c H; unfold check_C32 in H.
  replace (a ++ OQuiesce :: c) with ((a ++ [OQuiesce]) ++ c) in H by (rewrite <- app_assoc; reflexivity).
  apply ok_prefix in H. rewrite mrun_app in H.
  destruct (mrun mon0 a) as [ok acc cb uns unsf fst fn dn]; simpl in *.
  repeat (apply andb_true_iff in H; destruct H as [H ?]).
  destruct acc; [|discriminate]. destruct fst; [discriminate|]. split; reflexivity.
Qed.

Lemma check_C32_sound : forall os, check_C32 os = true -> Spec_C32 os.
Proof.
  intros os H; constructor.
  - (* order *)
    intros p rest ->. unfold check_C32 in H. apply ok_prefix in H.
    pose proof (acc_track _ _ H) as E; simpl in E. eauto.
  - (* serial *)
    intros a o1 b o2 c -> H1 H2. unfold check_C32 in H.
    replace (a ++ o1 :: b ++ o2 :: c) with ((a ++ [o1]) ++ (b ++ [o2]) ++ c) in H
      by (rewrite <- !app_assoc; reflexivity).
    rewrite mrun_app in H. apply ok_prefix in H.
    eapply serial_from; eauto. rewrite mrun_app; apply start_sets_cb; assumption.
  - (* all handled *)
    intros a c ->. destruct (quiesce_facts _ _ H) as [Hacc _].
    unfold check_C32 in H. apply ok_prefix in H.
    pose proof (acc_track _ _ H) as E; simpl in E. rewrite Hacc, app_nil_r in E; exact E.
  - (* redraw *)
    intros a o f b c -> Hreq. unfold check_C32 in H.
    replace (a ++ o :: b ++ OQuiesce :: c)
      with ((a ++ [o]) ++ (b ++ [OQuiesce]) ++ c) in H
      by (rewrite <- !app_assoc; reflexivity).
    rewrite mrun_app in H. apply ok_prefix in H.
    rewrite (mrun_app a mon0 [o]) in H.
    change (mrun (mrun mon0 a) [o]) with (mstep (mrun mon0 a) o) in H.
    destruct (after_request (mrun mon0 a) f o Hreq) as [Hu Hf].
    destruct f.
    + destruct (unsf_served _ _ (Hf eq_refl) H) as (b1 & b2 & ->).
      exists b1, true, b2; split; reflexivity.
    + destruct (uns_served _ _ Hu H) as (b1 & g & b2 & ->).
      exists b1, g, b2; split; [reflexivity|discriminate].
  - (* return honoured *)
    intros a c ->. destruct (quiesce_facts _ _ H) as [_ Hfst].
    rewrite first_track in Hfst; simpl in Hfst. apply first_ret_none; assumption.
  - (* return *)
    intros a r c ->. unfold check_C32 in H.
    pose proof H as Hall.
    replace (a ++ CReturned r :: c) with ((a ++ [CReturned r]) ++ c) in H
      by (rewrite <- app_assoc; reflexivity).
    apply ok_prefix in H. rewrite mrun_app in H.
    pose proof (first_track a mon0) as Hfst. pose proof (finals_track a mon0) as Hfin.
    destruct (mrun mon0 a) as [ok acc cb uns unsf fst fn dn] eqn:Em; simpl in *.
    repeat (apply andb_true_iff in H; destruct H as [H ?]).
    match goal with E : Nat.eqb fn 1 = true |- _ => apply Nat.eqb_eq in E; subst fn end.
    match goal with E : opt_eqb fst (Some r) = true |- _ =>
      destruct fst as [x|]; simpl in E; [apply N.eqb_eq in E; subst x|discriminate] end.
    split.
    + apply first_ret_split; symmetry; assumption.
    + assert (Hc : count_final a >= 1) by lia.
      destruct (first_final_split _ Hc) as (a1 & f & a2 & -> & Hn).
      exists a1, f, a2; split; [reflexivity|]; split; [assumption|].
      replace ((a1 ++ CFinalStart f :: a2) ++ CReturned r :: c)
        with ((a1 ++ [CFinalStart f]) ++ (a2 ++ CReturned r :: c)) in Hall
        by (rewrite <- !app_assoc; reflexivity).
      rewrite mrun_app in Hall.
      eapply no_start_after_final; [|exact Hall].
      rewrite mrun_app, finals_track; simpl; lia.
Qed.

(* ---------- the property for every trace of the model ---------- *)
Lemma model_satisfies_spec : forall ts s, run init ts = Some s -> Spec_C32 (proj ts).
Proof. intros ts s Hr; apply check_C32_sound; eapply model_traces_pass_oracle; eauto. Qed.

Lemma accepted_satisfy_spec : forall os, accepts os = true -> Spec_C32 os.
Proof. intros os Ha; apply check_C32_sound, accepted_pass_oracle; assumption. Qed.

Lemma existsb_false_all : forall (f : obs -> bool) l,
  existsb f l = false -> forall o, In o l -> f o = false.
Proof.
  induction l as [|x l IH]; intros H o Hin; [destruct Hin|]. simpl in H.
  apply orb_false_iff in H as [Hx Hl]. destruct Hin as [<-|Hin]; [assumption|apply IH; assumption].
Qed.

(* events: at every reachable state the enqueued events are exactly the handled
   ones followed by the content of the input buffer, which never exceeds its
   capacity *)
Lemma events_serial_in_order : forall ts s, run init ts = Some s ->
  inputs (proj ts) = handled (proj ts) ++ inq s /\ length (inq s) <= cap.
Proof.
  intros ts s Hr. pose proof (inv_reach _ _ Hr) as (Hok & Hacc & _ & _ & _ & _ & _ & _ & Hlen).
  split; [|assumption]. pose proof (acc_track _ _ Hok) as E; simpl in E. rewrite <- Hacc; exact E.
Qed.

(* redraw_not_lost, as a statement about every reachable state: a request with
   no redraw start after it means the loop has committed to return, or the token
   is still in the channel, or the loop is on its way to a redraw that needs no
   further request *)
Lemma redraw_not_lost : forall ts s a o f b,
  run init ts = Some s -> proj ts = a ++ o :: b -> Req f o ->
  (exists o, In o b /\ is_redraw_start o = true) \/
  returning (pcs s) <> None \/ tok s = true \/ before_redraw (pcs s) = true \/ in_flight s.
Proof.
  intros ts s a o f b Hr Hp Hreq.
  destruct (existsb is_redraw_start b) eqn:Ex.
  - left. apply existsb_exists in Ex. exact Ex.
  - right. pose proof (inv_reach _ _ Hr) as (_ & _ & _ & Hu & _).
    apply Hu. rewrite Hp.
    replace (a ++ o :: b) with ((a ++ [o]) ++ b) by (rewrite <- app_assoc; reflexivity).
    rewrite mrun_app. apply uns_keep; [|apply existsb_false_all; assumption].
    rewrite mrun_app; apply (after_request _ f); assumption.
Qed.

(* full_not_downgraded: a full request with no full redraw start after it means
   the loop has committed to return, or it holds the extracted full flag just
   before drawing, or the flag is still set and will be extracted *)
Lemma full_not_downgraded : forall ts s a o b,
  run init ts = Some s -> proj ts = a ++ o :: b -> Req true o ->
  (exists o, In o b /\ is_full_start o = true) \/
  returning (pcs s) <> None \/ pcs s = PExtracted true \/
  (full s = true /\ (tok s = true \/ before_extract (pcs s) = true \/ mid s <> None)) \/
  pendf s <> 0.
Proof.
  intros ts s a o b Hr Hp Hreq.
  destruct (existsb is_full_start b) eqn:Ex.
  - left. apply existsb_exists in Ex. exact Ex.
  - right. pose proof (inv_reach _ _ Hr) as (_ & _ & _ & _ & Hf & _).
    apply Hf. rewrite Hp.
    replace (a ++ o :: b) with ((a ++ [o]) ++ b) by (rewrite <- app_assoc; reflexivity).
    rewrite mrun_app. apply unsf_keep; [|apply existsb_false_all; assumption].
    rewrite mrun_app; apply (after_request _ true); [assumption|reflexivity].
Qed.

(* first_return_wins: once the loop has committed to return r (and ever after),
   r is the value of the first Return call of the trace *)
Lemma first_return_wins : forall ts s r,
  run init ts = Some s -> returning (pcs s) = Some r ->
  exists a1 a2, proj ts = a1 ++ EReturn r :: a2 /\ forall o, In o a1 -> is_return o = false.
Proof.
  intros ts s r Hr Hret. pose proof (inv_reach _ _ Hr) as (_ & _ & _ & _ & _ & H1 & _).
  rewrite Hret, first_track in H1; simpl in H1. apply first_ret_split; assumption.
Qed.

(* exactly_one_final_redraw: in a state where Run has returned, exactly one
   final redraw was started, no callback was entered after it, and before the
   loop commits to return no final redraw is ever started *)
Lemma exactly_one_final_redraw : forall ts s,
  run init ts = Some s ->
  count_final (proj ts) = (match pcs s with PFinalRedrawing _ | PFinalDone _ | PReturned _ => 1 | _ => 0 end).
Proof.
  intros ts s Hr. pose proof (inv_reach _ _ Hr) as (_ & _ & _ & _ & _ & _ & Hfin & _).
  rewrite finals_track in Hfin; simpl in Hfin. exact Hfin.
Qed.

Lemma callbacks_never_overlap : forall ts s a o1 b o2 c,
  run init ts = Some s -> proj ts = a ++ o1 :: b ++ o2 :: c ->
  is_start o1 = true -> is_start o2 = true -> exists o, In o b /\ is_end o = true.
Proof. intros ts s a o1 b o2 c Hr Hp. eapply sp_serial; [eapply model_satisfies_spec|]; eauto. Qed.

Lemma redraw_served_when_blocked : forall ts s a o f b c,
  run init ts = Some s -> proj ts = a ++ o :: b ++ OQuiesce :: c -> Req f o -> Served f b.
Proof. intros ts s a o f b c Hr Hp Hq. eapply sp_redraw; [eapply model_satisfies_spec| |]; eauto. Qed.

(* state-level corollary: in a blocked loop nothing is left unserved *)
Lemma blocked_all_served : forall ts s a o f b,
  run init ts = Some s -> quiescent s = true -> proj ts = a ++ o :: b -> Req f o ->
  exists o, In o b /\ (if f then is_full_start o else is_redraw_start o) = true.
Proof.
  intros ts s a o f b Hr Hq Hp Hreq.
  assert (Hpc : pcs s = PSelect /\ tok s = false /\ pendf s = 0 /\ pendn s = 0 /\ mid s = None).
  { unfold quiescent, loop_idle in Hq.
    repeat (apply andb_true_iff in Hq; destruct Hq as [Hq ?]).
    destruct (pcs s); try discriminate Hq.
    repeat (apply andb_true_iff in Hq; destruct Hq as [Hq ?]).
    split; [reflexivity|]. split; [destruct (tok s); [discriminate|reflexivity]|].
    split; [apply Nat.eqb_eq; assumption|]. split; [apply Nat.eqb_eq; assumption|].
    destruct (mid s); [discriminate|reflexivity]. }
  destruct Hpc as (Hpc & Ht & Hpf & Hpn & Hmd).
  destruct f.
  - destruct (full_not_downgraded _ _ _ _ _ Hr Hp Hreq) as [H|[H|[H|[[_ [H|[H|H]]]|H]]]]; auto;
      rewrite ?Hpc, ?Ht, ?Hmd, ?Hpf in H; simpl in H; try discriminate; congruence.
  - destruct (redraw_not_lost _ _ _ _ _ _ Hr Hp Hreq) as [H|[H|[H|[H|[H|[H|H]]]]]]; auto;
      rewrite ?Hpc, ?Ht, ?Hmd, ?Hpf, ?Hpn in H; simpl in H; try discriminate; congruence.
Qed.
