(* C34 — the generic theorems instantiated with the table-driven wcwidth.OfRune. *)
From verif Require Import lib.Base lib.Utf8 gen.Tables model.C34_width model.C34
  proofs.C34_proofs proofs.C34_builder proofs.C34_search proofs.C34_utf8 proofs.C34_utf8b.
Open Scope Z_scope.

Lemma of_rune_range r : 0 <= of_rune r <= 2.
Proof.
  unfold of_rune, of_rune_z.
  destruct ((Z.of_N r =? 0) || (Z.of_N r <? 32) || ((127 <=? Z.of_N r) && (Z.of_N r <? 160))
            || in_range (Z.of_N r) wcwidth_combiningRanges); [lia|].
  destruct (is_wide (Z.of_N r)); lia.
Qed.

Lemma of_rune_nonneg r : 0 <= of_rune r.
Proof. pose proof (of_rune_range r). lia. Qed.
Lemma of_rune_le2 r : of_rune r <= 2.
Proof. pose proof (of_rune_range r). lia. Qed.
Lemma of_rune_space : of_rune 32%N = 1.
Proof. vm_compute. reflexivity. Qed.

Definition control_runes : list N := 127%N :: map N.of_nat (seq 0 32).

Lemma ctl_cells_checked :
  forallb (fun r => of_rune 94%N + of_rune (N.lxor r 64%N) <=? 2) control_runes = true.
Proof. vm_compute. reflexivity. Qed.

Lemma of_rune_ctl r : is_control r = true -> of_rune 94%N + of_rune (N.lxor r 64%N) <= 2.
Proof.
  intros H. pose proof ctl_cells_checked as C. rewrite forallb_forall in C.
  apply Z.leb_le. apply C. unfold control_runes, is_control in *.
  apply orb_true_iff in H. destruct H as [H | H].
  - right. apply N.ltb_lt in H. apply in_map_iff. exists (N.to_nat r).
    split; [apply N2Nat.id | apply in_seq; lia].
  - left. apply N.eqb_eq in H. congruence.
Qed.

(* every code-area view rendered with the real width table, at any width >= 2
   and height >= 0: all lines fit, at most height lines *)
Lemma lines_fit_width_wcwidth v width height :
  2 <= width -> 0 <= height ->
  lines_fit of_rune (fLines (render_codearea of_rune v width height)) width = true
  /\ height_ok (fLines (render_codearea of_rune v width height)) height = true.
Proof.
  apply lines_fit_width; [exact of_rune_nonneg | exact of_rune_le2 | exact of_rune_space | exact of_rune_ctl].
Qed.

Lemma trim_longest_prefix_wcwidth s n : 0 <= n ->
  exists k, (k <= length (chunks s))%nat
    /\ trim_bytes s n = bytes_of (firstn k (chunks s))
    /\ width_chunks of_rune (firstn k (chunks s)) <= n
    /\ forall j, (k < j <= length (chunks s))%nat -> width_chunks of_rune (firstn j (chunks s)) > n.
Proof.
  intros Hn. destruct (trim_longest_prefix of_rune of_rune_nonneg (chunks s) n Hn) as (k & Hk & Ht & Hfit & Hlong).
  exists k. unfold trim_bytes, trim_bytes_w. rewrite Ht in *. repeat split; assumption.
Qed.

Lemma force_exact_width_wcwidth s n : 0 <= n ->
  width_chunks of_rune (force_chunks of_rune (chunks s) n) = n
  /\ force_bytes s n = bytes_of (force_chunks of_rune (chunks s) n).
Proof.
  intros Hn. split; [|reflexivity].
  apply force_exact_width; [exact of_rune_nonneg | exact of_rune_space | exact Hn].
Qed.

(* the binary search of wcwidth.inRange over the generated table is plain
   membership in one of the ranges, for every rune *)
Lemma table_search r :
  in_range r wcwidth_combiningRanges = in_range_lin r wcwidth_combiningRanges.
Proof. apply in_range_correct. exact table_monotone. Qed.

(* at the level of the returned Go strings (re-decoded by wcwidth.Of) *)
Lemma trim_fits_wcwidth s n : 0 <= n -> of_bytes (trim_bytes s n) <= n.
Proof. apply trim_bytes_fits. exact of_rune_nonneg. Qed.

Lemma force_exact_wcwidth s n : 0 <= n -> of_bytes (force_bytes s n) = n.
Proof. apply force_bytes_exact; [exact of_rune_nonneg | exact of_rune_space]. Qed.

(* the oracle for observed widget lines *)
Lemma lines_fit_sound ls W :
  lines_fit of_rune ls W = true <-> Forall (fun l => line_width of_rune l <= W) ls.
Proof. apply lines_fit_spec. Qed.
