(* C32 -- proofs about the event-loop model: the invariant tying the monitor
   (oracle) state to the model state along EVERY trace (induction over the step
   relation; no bound on trace length, number of goroutines or schedule), and
   soundness of the acceptor. *)
From verif Require Import lib.Base gen.Consts model.C32.
Open Scope nat_scope.

(* ---------- traces ---------- *)
Lemma run_app : forall a s b,
  run s (a ++ b) = match run s a with Some s' => run s' b | None => None end.
Proof.
  induction a as [|l a IH]; intros s b; simpl; [reflexivity|].
  destruct (step s l); [apply IH|reflexivity].
Qed.

Lemma proj_app : forall a b, proj (a ++ b) = proj a ++ proj b.
Proof.
  induction a as [|l a IH]; intros b; simpl; [reflexivity|].
  destruct l; simpl; rewrite IH; reflexivity.
Qed.

Lemma mrun_app : forall a m b, mrun m (a ++ b) = mrun (mrun m a) b.
Proof. intros; unfold mrun; apply fold_left_app. Qed.

(* ---------- the invariant ---------- *)
Definition returning (p : pc) : option N :=
  match p with
  | PFinal r | PFinalRedrawing r | PFinalDone r | PReturned r => Some r
  | _ => None
  end.

(* a redraw callback will be entered without any further request *)
Definition before_redraw (p : pc) : bool :=
  match p with PTop | PExtracted _ | PHandling | PAfterHandle | PDrain => true | _ => false end.

(* the flag will be extracted without any further request *)
Definition before_extract (p : pc) : bool :=
  match p with PTop | PHandling | PAfterHandle | PDrain => true | _ => false end.

Definition cb_of (p : pc) : cbk :=
  match p with
  | PRedrawing => KRedraw | PHandling => KHandle | PFinalRedrawing _ => KFinal | _ => KNone
  end.

Definition finals_of (p : pc) : nat :=
  match p with PFinalRedrawing _ | PFinalDone _ | PReturned _ => 1 | _ => 0 end.

Definition is_returned (p : pc) : bool := match p with PReturned _ => true | _ => false end.

Definition Inv (m : mon) (s : st) : Prop :=
  m_ok m = true /\
  m_acc m = inq s /\
  m_cb m = cb_of (pcs s) /\
  (m_uns m = true ->
     returning (pcs s) <> None \/ tok s = true \/ before_redraw (pcs s) = true) /\
  (m_unsf m = true ->
     returning (pcs s) <> None \/ pcs s = PExtracted true \/
     (full s = true /\ (tok s = true \/ before_extract (pcs s) = true))) /\
  m_first m = match returning (pcs s) with Some r => Some r | None => ret s end /\
  m_finals m = finals_of (pcs s) /\
  m_done m = is_returned (pcs s) /\
  length (inq s) <= cap.

Definition mnext (m : mon) (l : label) : mon :=
  match l with Obs o => mstep m o | Tau _ => m end.

Lemma inv_init : Inv mon0 init.
Proof.
  unfold Inv, mon0, init; simpl. repeat split; try discriminate. apply Nat.le_0_l.
Qed.

Local Ltac break_ifs H :=
  repeat match type of H with
         | context [if ?c then _ else _] => destruct c eqn:?
         | context [match ?c with _ => _ end] => destruct c eqn:?
         end.

Local Ltac fin :=
  repeat match goal with
         | H : _ /\ _ |- _ => destruct H
         | H : (_ =? _)%N = true |- _ => apply N.eqb_eq in H; subst
         | H : Bool.eqb _ _ = true |- _ => apply Bool.eqb_prop in H; subst
         | H : (_ <? _) = true |- _ => apply Nat.ltb_lt in H
         end.

Lemma inv_step : forall m s l s', Inv m s -> step s l = Some s' -> Inv (mnext m l) s'.
Proof.
  intros m s l s' (Hok & Hacc & Hcb & Hu & Hf & H1 & Hfin & Hdn & Hlen) Hs.
  destruct s as [q t f r p]; destruct m as [ok acc cb uns unsf fst fn dn].
  simpl in Hok, Hacc, Hcb, Hu, Hf, H1, Hfin, Hdn, Hlen. subst ok acc cb fn dn.
  destruct l as [o|tt]; [destruct o|destruct tt]; destruct p; simpl in Hs;
    try discriminate Hs;
    break_ifs Hs; try discriminate Hs; inversion Hs; subst; clear Hs; fin;
    unfold Inv; simpl in *;
    (repeat split; simpl;
     try reflexivity; try assumption;
     try (rewrite ?N.eqb_refl; reflexivity);
     try (rewrite app_length; simpl; rewrite Nat.add_1_r; assumption);
     try (intros HH; first [ discriminate HH | idtac ])).
  all: try (simpl in *; lia).
  all: try solve [ subst; simpl in *; auto ].
  all: try solve [ simpl in *; intuition (try discriminate; try congruence; auto) ].
  all: try solve [ destruct uns; destruct unsf; simpl in *; intuition (try discriminate; try congruence; auto) ].
  all: try solve [ repeat match goal with b : bool |- _ => destruct b end;
                   repeat match goal with
                          | q : list N |- _ => destruct q
                          | r : option N |- _ => destruct r
                          end;
                   simpl in *; intuition (try discriminate; try congruence) ].
Qed.
