(* C32 -- proofs about the event-loop model: the invariant tying the monitor
   (oracle) state to the model state along EVERY trace (induction over the step
   relation; no bound on trace length, number of goroutines or schedule), and
   soundness of the acceptor. *)
From verif Require Import lib.Base gen.Consts model.C32.
Open Scope nat_scope.

(* ---------- traces ---------- *)
Lemma run_app : forall a s b,
  run s (a ++ b) = match run s a with Some s' => run s' b | None => None end.
Proof.
  induction a as [|l a IH]; intros s b; simpl; [reflexivity|].
  destruct (step s l); [apply IH|reflexivity].
Qed.

Lemma proj_app : forall a b, proj (a ++ b) = proj a ++ proj b.
Proof.
  induction a as [|l a IH]; intros b; simpl; [reflexivity|].
  destruct l; simpl; rewrite IH; reflexivity.
Qed.

Lemma mrun_app : forall a m b, mrun m (a ++ b) = mrun (mrun m a) b.
Proof. intros; unfold mrun; apply fold_left_app. Qed.

(* ---------- the invariant ---------- *)
Definition returning (p : pc) : option N :=
  match p with
  | PFinal r | PFinalRedrawing r | PFinalDone r | PReturned r => Some r
  | _ => None
  end.

(* a redraw callback will be entered without any further request *)
Definition before_redraw (p : pc) : bool :=
  match p with PTop | PExtracted _ | PHandling | PAfterHandle | PDrain => true | _ => false end.

(* the flag will be extracted without any further request *)
Definition before_extract (p : pc) : bool :=
  match p with PTop | PHandling | PAfterHandle | PDrain => true | _ => false end.

Definition cb_of (p : pc) : cbk :=
  match p with
  | PRedrawing => KRedraw | PHandling => KHandle | PFinalRedrawing _ => KFinal | _ => KNone
  end.

Definition finals_of (p : pc) : nat :=
  match p with PFinalRedrawing _ | PFinalDone _ | PReturned _ => 1 | _ => 0 end.

Definition is_returned (p : pc) : bool := match p with PReturned _ => true | _ => false end.

(* a Redraw call has been invoked and has not yet sent its token *)
Definition in_flight (s : st) : Prop := pendf s <> 0 \/ pendn s <> 0 \/ mid s <> None.

Definition Inv (m : mon) (s : st) : Prop :=
  m_ok m = true /\
  m_acc m = inq s /\
  m_cb m = cb_of (pcs s) /\
  (m_uns m = true ->
     returning (pcs s) <> None \/ tok s = true \/ before_redraw (pcs s) = true \/
     in_flight s) /\
  (m_unsf m = true ->
     returning (pcs s) <> None \/ pcs s = PExtracted true \/
     (full s = true /\ (tok s = true \/ before_extract (pcs s) = true \/ mid s <> None)) \/
     pendf s <> 0) /\
  m_first m = match returning (pcs s) with Some r => Some r | None => ret s end /\
  m_finals m = finals_of (pcs s) /\
  m_done m = is_returned (pcs s) /\
  length (inq s) <= cap.

Definition mnext (m : mon) (l : label) : mon :=
  match l with Obs o => mstep m o | Tau _ => m end.

Lemma inv_init : Inv mon0 init.
Proof.
  unfold Inv, mon0, init; simpl. repeat split; try discriminate. apply Nat.le_0_l.
Qed.

Local Ltac break_ifs H :=
  repeat match type of H with
         | context [if ?c then _ else _] => destruct c eqn:?
         | context [match ?c with _ => _ end] => destruct c eqn:?
         end.

Local Ltac fin :=
  repeat match goal with
         | H : _ /\ _ |- _ => destruct H
         | H : (_ =? _)%N = true |- _ => apply N.eqb_eq in H; subst
         | H : Bool.eqb _ _ = true |- _ => apply Bool.eqb_prop in H; subst
         | H : (_ <? _) = true |- _ => apply Nat.ltb_lt in H
         end.

Lemma inv_step : forall m s l s', Inv m s -> step s l = Some s' -> Inv (mnext m l) s'.
Proof.
  intros m s l s' (Hok & Hacc & Hcb & Hu & Hf & H1 & Hfin & Hdn & Hlen) Hs.
  destruct s as [q t f r p pf pn md]; destruct m as [ok acc cb uns unsf fst fn dn].
  unfold in_flight in *.
  simpl in Hok, Hacc, Hcb, Hu, Hf, H1, Hfin, Hdn, Hlen. subst ok acc cb fn dn.
  unfold step, step_ord in Hs.
  destruct l as [o|tt]; [destruct o|destruct tt]; destruct p; simpl in Hs;
    try discriminate Hs;
    break_ifs Hs; try discriminate Hs; inversion Hs; subst; clear Hs; fin;
    unfold Inv, in_flight; simpl in *;
    (repeat split; simpl;
     try reflexivity; try assumption;
     try (rewrite ?N.eqb_refl; reflexivity);
     try (rewrite app_length; simpl; rewrite Nat.add_1_r; assumption);
     try (intros HH; first [ discriminate HH | idtac ])).
  all: try (simpl in *; lia).
  all: try solve [ subst; simpl in *; auto ].
  all: try solve [ simpl in *; intuition (try discriminate; try congruence; auto) ].
  all: try solve [ destruct uns; destruct unsf; simpl in *; intuition (try discriminate; try congruence; auto) ].
  all: try solve [ simpl in *; intuition (try discriminate; try congruence; try lia) ].
  all: try solve [ destruct uns; destruct unsf; simpl in *;
                   intuition (try discriminate; try congruence; try lia) ].
  all: try solve [ destruct uns; destruct unsf; simpl in *;
                   try match goal with b : bool |- _ => destruct b end; simpl in *;
                   intuition (try discriminate; try congruence; try lia) ].
  all: try solve [ destruct unsf; destruct f; simpl in *;
                   try match goal with b : bool |- _ => destruct b end; simpl in *;
                   tauto ].
  all: try solve [ repeat match goal with b : bool |- _ => destruct b end;
                   try match goal with q : list N |- _ => destruct q end;
                   try match goal with r : option N |- _ => destruct r end;
                   try match goal with r : option bool |- _ => destruct r end;
                   simpl in *; intuition (try discriminate; try congruence; try lia) ].
  all: try solve [
    match goal with H : quiescent _ = true |- _ => unfold quiescent, loop_idle in H; simpl in H end;
    destruct q; destruct t; destruct r; destruct pf; destruct pn; destruct md; simpl in *;
    try discriminate; destruct uns; destruct unsf; simpl; try reflexivity; exfalso;
    intuition (try discriminate; try congruence) ].
Qed.

(* the invariant holds along every trace of the model *)
Lemma inv_run_from : forall ts m s s',
  Inv m s -> run s ts = Some s' -> Inv (mrun m (proj ts)) s'.
Proof.
  induction ts as [|l ts IH]; intros m s s' HI Hr; simpl in *.
  - inversion Hr; subst; exact HI.
  - destruct (step s l) as [s1|] eqn:Hs; [|discriminate].
    pose proof (inv_step _ _ _ _ HI Hs) as HI1.
    destruct l as [o|t]; simpl in *; eapply IH; eauto.
Qed.

Lemma inv_reach : forall ts s, run init ts = Some s -> Inv (mrun mon0 (proj ts)) s.
Proof. intros ts s; apply inv_run_from, inv_init. Qed.

(* every behaviour of the model passes the oracle *)
Lemma model_traces_pass_oracle : forall ts s,
  run init ts = Some s -> check_C32 (proj ts) = true.
Proof. intros ts s Hr; unfold check_C32; apply (inv_reach ts s Hr). Qed.

(* ---------- acceptor soundness ---------- *)
Lemma in_tau_succ : forall s s', In s' (tau_succ s) -> exists t, step s (Tau t) = Some s'.
Proof.
  intros s s' Hin; unfold tau_succ in Hin. apply in_flat_map in Hin as (t & _ & Hin).
  destruct (step s (Tau t)) as [x|] eqn:E; simpl in Hin; [|contradiction].
  destruct Hin as [->|[]]; eauto.
Qed.

Lemma closure_sound : forall n s s',
  In s' (closure n s) -> exists ts, run s ts = Some s' /\ proj ts = [].
Proof.
  induction n as [|n IH]; intros s s' Hin; simpl in Hin.
  - destruct Hin as [->|[]]; exists []; auto.
  - destruct Hin as [->|Hin]; [exists []; auto|].
    apply in_flat_map in Hin as (s1 & H1 & H2).
    apply in_tau_succ in H1 as (t & Ht).
    apply IH in H2 as (ts & Hr & Hp).
    exists (Tau t :: ts); simpl; rewrite Ht; auto.
Qed.

Lemma in_dedup : forall l x, In x (dedup l) -> In x l.
Proof.
  induction l as [|y l IH]; intros x Hin; simpl in *; [auto|].
  destruct (existsb (st_eqb y) l); [right; auto|].
  destruct Hin as [->|Hin]; [left; auto|right; auto].
Qed.

Lemma after_obs_sound : forall cfgs o s2,
  In s2 (after_obs cfgs o) ->
  exists s ts, In s cfgs /\ run s ts = Some s2 /\ proj ts = [o].
Proof.
  intros cfgs o s2 Hin; unfold after_obs in Hin. apply in_dedup in Hin.
  apply in_flat_map in Hin as (s & Hs & Hin).
  apply in_flat_map in Hin as (s1 & H1 & Hin).
  destruct (step s1 (Obs o)) as [x|] eqn:E; simpl in Hin; [|contradiction].
  destruct Hin as [->|[]].
  apply closure_sound in H1 as (ts & Hr & Hp).
  exists s, (ts ++ [Obs o]); split; [assumption|]; split.
  - rewrite run_app, Hr; simpl; rewrite E; reflexivity.
  - rewrite proj_app, Hp; reflexivity.
Qed.

Lemma accept_from_sound : forall os cfgs,
  accept_from cfgs os = true ->
  exists s ts s', In s cfgs /\ run s ts = Some s' /\ proj ts = os.
Proof.
  induction os as [|o os IH]; intros cfgs Ha; simpl in Ha.
  - destruct cfgs as [|s r]; [discriminate|]. exists s, [], s; simpl; auto.
  - apply IH in Ha as (s2 & ts2 & s' & Hin & Hr & Hp).
    apply after_obs_sound in Hin as (s & ts1 & Hin & Hr1 & Hp1).
    exists s, (ts1 ++ ts2), s'; split; [assumption|]; split.
    + rewrite run_app, Hr1; assumption.
    + rewrite proj_app, Hp1, Hp; reflexivity.
Qed.

(* an accepted observation sequence is the observable projection of a run of the model *)
Lemma accepts_sound : forall os,
  accepts os = true -> exists ts s, run init ts = Some s /\ proj ts = os.
Proof.
  intros os Ha; apply accept_from_sound in Ha as (s & ts & s' & Hin & Hr & Hp).
  destruct Hin as [<-|[]]; eauto.
Qed.

(* the acceptor admits only traces that satisfy the oracle *)
Lemma accepted_pass_oracle : forall os, accepts os = true -> check_C32 os = true.
Proof.
  intros os Ha; apply accepts_sound in Ha as (ts & s & Hr & <-).
  eapply model_traces_pass_oracle; eauto.
Qed.

(* ---------- progress: a loop that has not returned is blocked only when it is
   at its select with nothing pending, or (at extractRedrawFull) while a Redraw
   call holds the mutex between its two halves -- and that call can always
   finish ---------- *)
Lemma redraw_call_progress : forall s f, mid s = Some f ->
  exists s', step s (Tau TRSecond) = Some s' /\ mid s' = None.
Proof.
  intros [q t fl r p pf pn md] f H; simpl in H; subst md. eexists; split; reflexivity.
Qed.

Definition loop_label (l : label) : bool :=
  match l with
  | Obs (EInput _) | Obs (ERedraw _) | Obs (ERedrawCall _) | Obs (EReturn _) | Obs OQuiesce
  | Tau (TRFirst _) | Tau TRSecond => false
  | _ => true
  end.

Lemma loop_progress : forall s,
  is_returned (pcs s) = false -> loop_idle s = false -> mid s = None ->
  exists l s', loop_label l = true /\ step s l = Some s'.
Proof.
  intros [q t f r p pf pn md] Hnr Hnq Hmd; simpl in Hmd; subst md;
    destruct p; unfold loop_idle in Hnq; simpl in *; try discriminate.
  - exists (Tau TExtract); eexists; split; reflexivity.
  - exists (Obs (CRedrawStart f0)); eexists; split; [reflexivity|]; simpl.
    rewrite Bool.eqb_reflx; reflexivity.
  - exists (Obs CRedrawEnd); eexists; split; reflexivity.
  - destruct q as [|e q].
    + destruct t.
      * exists (Tau TSelToken); eexists; split; reflexivity.
      * destruct r as [x|]; [|discriminate].
        exists (Tau TSelReturn); eexists; split; reflexivity.
    + exists (Obs (CHandleStart e)); eexists; split; [reflexivity|]; simpl.
      rewrite N.eqb_refl; reflexivity.
  - exists (Obs CHandleEnd); eexists; split; reflexivity.
  - exists (Tau TChkRet); destruct r; eexists; split; reflexivity.
  - destruct q as [|e q].
    + exists (Tau TDrainNo); eexists; split; reflexivity.
    + exists (Obs (CHandleStart e)); eexists; split; [reflexivity|]; simpl.
      rewrite N.eqb_refl; reflexivity.
  - exists (Obs (CFinalStart false)); eexists; split; reflexivity.
  - exists (Obs CFinalEnd); eexists; split; reflexivity.
  - exists (Obs (CReturned r0)); eexists; split; [reflexivity|]; simpl.
    rewrite N.eqb_refl; reflexivity.
Qed.
