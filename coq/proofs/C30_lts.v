(* C30 -- the Highlighter transition system: invariants over all schedules of
   Get calls, late callbacks, sends, receives and invalidations; soundness of
   the trace acceptor; every trace of the transition system is accepted. *)
From verif Require Import lib.Base lib.ListX model.C30 proofs.C30_proofs.
From Coq Require Import Permutation Arith Lia.
Open Scope nat_scope.
Arguments lates_cap : simpl never.

Lemma seg_eqb_eq a b : seg_eqb a b = true <-> a = b.
Proof.
  unfold seg_eqb. rewrite andb_true_iff, !bytes_eqb_spec.
  destruct a, b; cbn. split; [intros [-> ->]; reflexivity|intros H; inversion H; auto].
Qed.

Lemma text_eqb_eq a b : text_eqb a b = true <-> a = b.
Proof. apply list_eqb_spec. intros x y. apply seg_eqb_eq. Qed.

Lemma text_eqb_refl a : text_eqb a a = true.
Proof. apply text_eqb_eq. reflexivity. Qed.

Lemma remove_nth_Forall {A} (P : A -> Prop) (l : list A) : forall i,
  Forall P l -> Forall P (remove_nth i l).
Proof.
  induction l as [|x l IH]; intros i H; destruct i; cbn [remove_nth]; try exact H.
  - apply Forall_inv_tail in H. exact H.
  - apply Forall_cons_iff in H as [Hx Hl]. constructor; [exact Hx|apply IH, Hl].
Qed.

Lemma remove_nth_perm {A} (l : list A) : forall i x,
  nth_error l i = Some x -> Permutation l (x :: remove_nth i l).
Proof.
  induction l as [|y l IH]; intros i x H; destruct i; cbn in H; try discriminate.
  - injection H as ->. reflexivity.
  - cbn [remove_nth]. rewrite (IH i x H) at 1. apply perm_swap.
Qed.

Lemma remove_nth_length {A} (l : list A) : forall i x,
  nth_error l i = Some x -> length l = S (length (remove_nth i l)).
Proof.
  intros i x H. rewrite (Permutation_length (remove_nth_perm l i x H)). reflexivity.
Qed.

Section Lts.
  Variable now_of late_of : bytes -> text.
  Variable has_late : bytes -> bool.
  (* what highlight produces spells the code: discharged by assemble_content *)
  Hypothesis now_spells : forall c, spell (now_of c) = c.
  Hypothesis late_spells : forall c, spell (late_of c) = c.

  Notation step := (step now_of late_of has_late).
  Notation run := (run now_of late_of has_late).

  (* the states reachable by any interleaving *)
  Inductive reachable : hstate -> Prop :=
  | reach_init : reachable h_init
  | reach_step s a s' o : reachable s -> step s a = Some (s', o) -> reachable s'.

  (* a text that may be shown for code c *)
  Definition own_text (c : bytes) (t : text) : Prop :=
    t = now_of c \/ t = late_of c \/ (c = [] /\ t = []).

  Lemma own_text_spells c t : own_text c t -> spell t = c.
  Proof.
    intros [->|[->|[-> ->]]]; [apply now_spells|apply late_spells|reflexivity].
  Qed.

  Definition inv (s : hstate) : Prop :=
    own_text (h_code s) (h_styled s)
    /\ Forall (fun p => snd p = late_of (fst p)) (h_pend s)
    /\ h_lates s <= lates_cap.

  Lemma inv_init : inv h_init.
  Proof.
    split; [right; right; split; reflexivity|split; [constructor|]].
    cbn. unfold lates_cap. lia.
  Qed.

  Lemma inv_step s a s' o : inv s -> step s a = Some (s', o) -> inv s'.
  Proof.
    intros [Ho [Hp Hl]] H. destruct a as [c fast|i| | |]; cbn [C30.step] in H.
    - destruct (bytes_eqb c (h_code s)); [injection H as <- _; repeat split; assumption|].
      destruct (has_late c); [destruct fast|]; injection H as <- _; cbn;
        (split; [|split; [|exact Hl]]); try exact Hp.
      + right; left; reflexivity.
      + left; reflexivity.
      + apply Forall_app; split; [exact Hp|constructor; [reflexivity|constructor]].
      + left; reflexivity.
    - destruct (nth_error (h_pend s) i) as [[c t]|] eqn:E; [|discriminate].
      assert (Ht : t = late_of c).
      { rewrite Forall_forall in Hp. apply (Hp (c, t)). eapply nth_error_In, E. }
      destruct (bytes_eqb (h_code s) c) eqn:Ec; injection H as <- _; cbn;
        (split; [|split; [apply remove_nth_Forall, Hp|exact Hl]]).
      + apply bytes_eqb_spec in Ec. rewrite Ec, Ht. right; left; reflexivity.
      + exact Ho.
    - destruct (h_sending s) as [|k]; [discriminate|].
      destruct (Nat.ltb_spec (h_lates s) lates_cap) as [Hlt|Hge]; [|discriminate].
      injection H as <- _; repeat split; cbn; try assumption; try lia.
    - destruct (h_lates s) as [|k] eqn:E; [discriminate|].
      injection H as <- _; repeat split; cbn; try assumption; try lia.
    - injection H as <- _; cbn. split; [right; right; split; reflexivity|split; assumption].
  Qed.

  Lemma reachable_inv s : reachable s -> inv s.
  Proof.
    induction 1 as [|s a s' o Hr IH Hs]; [apply inv_init|eapply inv_step; eassumption].
  Qed.

  (* cache.styledCode spells cache.code, in every reachable state *)
  Lemma cache_text_matches_code s : reachable s -> spell (h_styled s) = h_code s.
  Proof. intros Hr. apply own_text_spells, (proj1 (reachable_inv s Hr)). Qed.

  (* every Get, in every reachable state, returns a text of the requested code *)
  Lemma get_returns_own_code s c fast s' o :
    reachable s -> step s (AGet c fast) = Some (s', o) ->
    exists t, o = [OGet c t] /\ own_text c t /\ spell t = c.
  Proof.
    intros Hr H. destruct (reachable_inv s Hr) as [Ho _]. cbn [C30.step] in H.
    destruct (bytes_eqb c (h_code s)) eqn:Ec.
    - apply bytes_eqb_spec in Ec. subst c. injection H as _ <-.
      exists (h_styled s). split; [reflexivity|split; [exact Ho|apply own_text_spells, Ho]].
    - destruct (has_late c); [destruct fast|]; injection H as _ <-;
        eexists; (split; [reflexivity|split; [|first [apply now_spells|apply late_spells]]]).
      + right; left; reflexivity.
      + left; reflexivity.
      + left; reflexivity.
  Qed.

  (* a late callback installs its result only when the cached code equals the
     code its Get was called with; otherwise the cache is left as it is *)
  Lemma late_only_for_own_code s i s' o c t :
    reachable s -> nth_error (h_pend s) i = Some (c, t) ->
    step s (ALate i) = Some (s', o) ->
    t = late_of c /\ o = [] /\ h_code s' = h_code s /\
    ((h_code s = c /\ h_styled s' = t) \/ (h_code s <> c /\ h_styled s' = h_styled s)).
  Proof.
    intros Hr E H. destruct (reachable_inv s Hr) as [_ [Hp _]].
    assert (Ht : t = late_of c).
    { rewrite Forall_forall in Hp. apply (Hp (c, t)). eapply nth_error_In, E. }
    cbn [C30.step] in H. rewrite E in H.
    destruct (bytes_eqb (h_code s) c) eqn:Ec; injection H as <- <-; cbn.
    - apply bytes_eqb_spec in Ec. repeat split; auto.
    - repeat split; auto. right. split; [|reflexivity].
      intros Heq. rewrite Heq, bytes_eqb_refl in Ec. discriminate.
  Qed.

  (* ---- runs ---- *)
  Lemma run_reachable acts : forall s s' tr,
    reachable s -> run s acts = Some (s', tr) -> reachable s'.
  Proof.
    induction acts as [|a acts IH]; intros s s' tr Hr H; cbn [C30.run] in H.
    - injection H as <- _. exact Hr.
    - destruct (step s a) as [[s1 o1]|] eqn:E1; [|discriminate].
      destruct (run s1 acts) as [[s2 o2]|] eqn:E2; [|discriminate].
      injection H as <- _. eapply IH; [|exact E2]. eapply reach_step; eassumption.
  Qed.

  Definition obs_own (e : obs) : Prop :=
    match e with OGet c t => own_text c t | _ => True end.

  Lemma step_obs_own s a s' o : reachable s -> step s a = Some (s', o) -> Forall obs_own o.
  Proof.
    intros Hr H. destruct a as [c fast|i| | |].
    - destruct (get_returns_own_code s c fast s' o Hr H) as [t [-> [Ho _]]].
      constructor; [exact Ho|constructor].
    - cbn [C30.step] in H. destruct (nth_error (h_pend s) i) as [[c t]|]; [|discriminate].
      destruct (bytes_eqb (h_code s) c); injection H as _ <-; constructor.
    - cbn [C30.step] in H. destruct (h_sending s); [discriminate|].
      destruct (h_lates s <? lates_cap); [|discriminate]. injection H as _ <-; constructor.
    - cbn [C30.step] in H. destruct (h_lates s); [discriminate|].
      injection H as _ <-. constructor; [exact I|constructor].
    - cbn [C30.step] in H. injection H as _ <-. constructor; [exact I|constructor].
  Qed.

  Lemma run_obs_own acts : forall s s' tr,
    reachable s -> run s acts = Some (s', tr) -> Forall obs_own tr.
  Proof.
    induction acts as [|a acts IH]; intros s s' tr Hr H; cbn [C30.run] in H.
    - injection H as _ <-. constructor.
    - destruct (step s a) as [[s1 o1]|] eqn:E1; [|discriminate].
      destruct (run s1 acts) as [[s2 o2]|] eqn:E2; [|discriminate].
      injection H as _ <-. apply Forall_app. split.
      + eapply step_obs_own; eassumption.
      + eapply IH; [|exact E2]. eapply reach_step; eassumption.
  Qed.

  Lemma obs_own_ok e : obs_own e -> obs_ok e = true.
  Proof.
    destruct e as [c t| |]; cbn; auto. intros Ho. apply bytes_eqb_spec, own_text_spells, Ho.
  Qed.

  (* every trace of every schedule satisfies the property oracle *)
  Lemma all_schedules_ok acts s tr :
    run h_init acts = Some (s, tr) ->
    check_C30_trace tr = true
    /\ (forall c t, In (OGet c t) tr -> spell t = c /\ own_text c t)
    /\ spell (h_styled s) = h_code s.
  Proof.
    intros H. pose proof (run_obs_own acts h_init s tr reach_init H) as Ho.
    split; [|split].
    - unfold check_C30_trace. apply forallb_forall. intros e He.
      rewrite Forall_forall in Ho. apply obs_own_ok, Ho, He.
    - intros c t Hin. rewrite Forall_forall in Ho. specialize (Ho _ Hin). cbn in Ho.
      split; [apply own_text_spells, Ho|exact Ho].
    - apply cache_text_matches_code. eapply run_reachable; [apply reach_init|exact H].
  Qed.

  (* ---- notifications: each one received was sent after an installation,
     each installation consumed a late callback left behind by a distinct Get ---- *)
  Definition count_get (tr : list obs) : nat :=
    length (filter (fun e => match e with OGet _ _ => true | _ => false end) tr).
  Definition count_notify (tr : list obs) : nat :=
    length (filter (fun e => match e with ONotify => true | _ => false end) tr).

  Lemma count_get_app a b : count_get (a ++ b) = count_get a + count_get b.
  Proof. unfold count_get. rewrite filter_app, app_length. reflexivity. Qed.
  Lemma count_notify_app a b : count_notify (a ++ b) = count_notify a + count_notify b.
  Proof. unfold count_notify. rewrite filter_app, app_length. reflexivity. Qed.

  Definition load (s : hstate) : nat := length (h_pend s) + h_sending s + h_lates s.

  Lemma step_load s a s' o :
    step s a = Some (s', o) ->
    count_notify o + load s' <= load s + count_get o.
  Proof.
    intros H. unfold load. destruct a as [c fast|i| | |]; cbn [C30.step] in H.
    - destruct (bytes_eqb c (h_code s)); [injection H as <- <-; cbn; lia|].
      destruct (has_late c); [destruct fast|]; injection H as <- <-; cbn;
        rewrite ?app_length; cbn; lia.
    - destruct (nth_error (h_pend s) i) as [[c t]|] eqn:E; [|discriminate].
      pose proof (remove_nth_length _ _ _ E) as Hlen.
      destruct (bytes_eqb (h_code s) c); injection H as <- <-; cbn; lia.
    - destruct (h_sending s) as [|k]; [discriminate|].
      destruct (h_lates s <? lates_cap); [|discriminate]. injection H as <- <-; cbn; lia.
    - destruct (h_lates s) as [|k]; [discriminate|]. injection H as <- <-; cbn; lia.
    - injection H as <- <-; cbn; lia.
  Qed.

  Lemma run_load acts : forall s s' tr,
    run s acts = Some (s', tr) -> count_notify tr + load s' <= load s + count_get tr.
  Proof.
    induction acts as [|a acts IH]; intros s s' tr H; cbn [C30.run] in H.
    - injection H as <- <-. cbn. lia.
    - destruct (step s a) as [[s1 o1]|] eqn:E1; [|discriminate].
      destruct (run s1 acts) as [[s2 o2]|] eqn:E2; [|discriminate].
      injection H as <- <-. rewrite count_get_app, count_notify_app.
      pose proof (step_load _ _ _ _ E1). pose proof (IH _ _ _ E2). lia.
  Qed.

  Lemma notifications_bounded acts s tr :
    run h_init acts = Some (s, tr) ->
    count_notify tr <= count_get tr /\ h_lates s <= lates_cap.
  Proof.
    intros H. split.
    - pose proof (run_load acts _ _ _ H) as Hl. unfold load at 2 in Hl. cbn in Hl. lia.
    - apply (reachable_inv s). eapply run_reachable; [apply reach_init|exact H].
  Qed.

  (* ------------------------------------------------------------------ *)
  (* soundness of the acceptor *)
  Notation acc_step := (acc_step now_of late_of has_late).
  Notation accepts_from := (accepts_from now_of late_of has_late).
  Notation accepts := (accepts now_of late_of has_late).

  Definition ainv (a : astate) : Prop := own_text (a_code a) (a_styled a).

  Lemma acc_step_sound a e a' :
    ainv a -> acc_step a e = Some a' -> ainv a' /\ obs_own e.
  Proof.
    unfold ainv. intros Ha H. destruct e as [c t| |]; cbn [C30.acc_step] in H.
    - destruct (bytes_eqb c (a_code a)) eqn:Ec.
      + apply bytes_eqb_spec in Ec. subst c.
        destruct (text_eqb t (a_styled a)) eqn:Et.
        * apply text_eqb_eq in Et. subst t. injection H as <-. split; exact Ha.
        * destruct (text_eqb t (late_of (a_code a)) && mem (a_code a) (a_pend a)) eqn:El;
            [|discriminate].
          apply andb_true_iff in El as [El _]. apply text_eqb_eq in El.
          injection H as <-. cbn. split; right; left; exact El.
      + destruct (has_late c).
        * destruct (text_eqb t (now_of c)) eqn:En.
          { apply text_eqb_eq in En. injection H as <-. cbn. split; left; exact En. }
          destruct (text_eqb t (late_of c)) eqn:El; [|discriminate].
          apply text_eqb_eq in El. injection H as <-. cbn. split; right; left; exact El.
        * destruct (text_eqb t (now_of c)) eqn:En; [|discriminate].
          apply text_eqb_eq in En. injection H as <-. cbn. split; left; exact En.
    - destruct (a_notes a <? a_slow a); [|discriminate]. injection H as <-. cbn.
      split; [exact Ha|exact I].
    - injection H as <-. cbn. split; [right; right; split; reflexivity|exact I].
  Qed.

  Lemma accepts_from_sound tr : forall a,
    ainv a -> accepts_from a tr = true -> Forall obs_own tr.
  Proof.
    induction tr as [|e tr IH]; intros a Ha H; [constructor|].
    cbn [C30.accepts_from] in H. destruct (acc_step a e) as [a'|] eqn:E; [|discriminate].
    destruct (acc_step_sound a e a' Ha E) as [Ha' He].
    constructor; [exact He|eapply IH; eassumption].
  Qed.

  (* an accepted trace shows, for every Get, a text of the requested code *)
  Lemma acceptor_sound tr :
    accepts tr = true ->
    check_C30_trace tr = true
    /\ forall c t, In (OGet c t) tr -> spell t = c /\ own_text c t.
  Proof.
    intros H.
    assert (Ho : Forall obs_own tr).
    { apply (accepts_from_sound tr (a_init)); [|exact H].
      right; right; split; reflexivity. }
    split.
    - unfold check_C30_trace. apply forallb_forall. intros e He.
      rewrite Forall_forall in Ho. apply obs_own_ok, Ho, He.
    - intros c t Hin. rewrite Forall_forall in Ho. specialize (Ho _ Hin). cbn in Ho.
      split; [apply own_text_spells, Ho|exact Ho].
  Qed.

  (* ------------------------------------------------------------------ *)
  (* every trace of the transition system is accepted (the acceptor raises no
     false alarm on the model): simulation between the two state spaces *)
  Definition codes (s : hstate) : list bytes := map fst (h_pend s).

  Definition sim (s : hstate) (a : astate) : Prop :=
    a_code a = h_code s
    /\ a_notes a + load s <= a_slow a
    /\ exists extra,
       (a_styled a = h_styled s /\ Permutation (a_pend a) (codes s ++ extra))
       \/ (h_styled s = late_of (h_code s)
           /\ Permutation (a_pend a) (h_code s :: codes s ++ extra)).

  Lemma mem_in c l : mem c l = true <-> In c l.
  Proof.
    induction l as [|x l IH]; cbn [mem]; [split; [discriminate|intros []]|].
    rewrite orb_true_iff, IH, bytes_eqb_spec.
    split; (intros [H|H]; [left; congruence|right; exact H]).
  Qed.

  Lemma drop_one_perm c l : In c l -> Permutation l (c :: drop_one c l).
  Proof.
    induction l as [|x l IH]; intros H; [destruct H|]. cbn [drop_one].
    destruct (bytes_eqb c x) eqn:E.
    - apply bytes_eqb_spec in E. subst. reflexivity.
    - destruct H as [H|H]; [subst; rewrite bytes_eqb_refl in E; discriminate|].
      rewrite (IH H) at 1. apply perm_swap.
  Qed.

  (* fold any recorded silent installation into the slack *)
  Lemma sim_weaken s a :
    sim s a -> exists extra, Permutation (a_pend a) (codes s ++ extra).
  Proof.
    intros [_ [_ [extra [[_ Hp]|[_ Hp]]]]].
    - exists extra. exact Hp.
    - exists (h_code s :: extra). rewrite Hp. apply Permutation_middle.
  Qed.

  Lemma sim_step s a act s' o :
    inv s -> sim s a -> step s act = Some (s', o) ->
    exists a', accepts_from a o = accepts_from a' [] /\
               (forall tr, accepts_from a (o ++ tr) = accepts_from a' tr) /\ sim s' a'.
  Proof.
    intros Hinv Hsim H.
    destruct Hinv as [Hown [Hpend _]].
    destruct (sim_weaken s a Hsim) as [extraW HpW].
    destruct Hsim as [Hcode [Hcnt [extra Hcase]]].
    destruct act as [c fast|i| | |]; cbn [C30.step] in H.
    - (* Get *)
      destruct (bytes_eqb c (h_code s)) eqn:Ec.
      + (* hit *)
        injection H as <- <-. apply bytes_eqb_spec in Ec. subst c.
        destruct Hcase as [[Hst Hp]|[Hst Hp]].
        * exists a. split; [|split].
          -- cbn [C30.accepts_from C30.acc_step]. rewrite Hcode, bytes_eqb_refl, Hst, text_eqb_refl. reflexivity.
          -- intros tr. cbn [app C30.accepts_from C30.acc_step].
             rewrite Hcode, bytes_eqb_refl, Hst, text_eqb_refl. reflexivity.
          -- split; [exact Hcode|split; [exact Hcnt|exists extra; left; split; assumption]].
        * destruct (text_eqb (h_styled s) (a_styled a)) eqn:Et.
          -- apply text_eqb_eq in Et. exists a. split; [|split].
             ++ cbn [C30.accepts_from C30.acc_step]. rewrite Hcode, bytes_eqb_refl, Et, text_eqb_refl. reflexivity.
             ++ intros tr. cbn [app C30.accepts_from C30.acc_step].
                rewrite Hcode, bytes_eqb_refl, Et, text_eqb_refl. reflexivity.
             ++ split; [exact Hcode|split; [exact Hcnt|]]. exists (h_code s :: extra). left.
                split; [symmetry; exact Et|]. rewrite Hp. apply Permutation_middle.
          -- assert (Hin : In (h_code s) (a_pend a)).
             { eapply Permutation_in; [symmetry; exact Hp|left; reflexivity]. }
             exists (mkA (h_code s) (h_styled s) (drop_one (h_code s) (a_pend a)) (a_slow a) (a_notes a)).
             assert (Hacc : acc_step a (OGet (h_code s) (h_styled s)) =
                     Some (mkA (h_code s) (h_styled s) (drop_one (h_code s) (a_pend a)) (a_slow a) (a_notes a))).
             { cbn [C30.acc_step]. rewrite Hcode, bytes_eqb_refl, Et.
               rewrite Hst at 1. rewrite text_eqb_refl. cbn [andb].
               apply mem_in in Hin. rewrite Hin. reflexivity. }
             split; [|split].
             ++ cbn [C30.accepts_from]. rewrite Hacc. reflexivity.
             ++ intros tr. cbn [app C30.accepts_from]. rewrite Hacc. reflexivity.
             ++ split; [reflexivity|split; [exact Hcnt|]]. exists extra. left.
                split; [reflexivity|]. cbn [a_pend].
                apply (Permutation_cons_inv (a := h_code s)).
                rewrite <- (drop_one_perm _ _ Hin). exact Hp.
      + (* miss *)
        assert (Hne : bytes_eqb c (a_code a) = false) by (rewrite Hcode; exact Ec).
        destruct (has_late c) eqn:Hl; [destruct fast|]; injection H as <- <-.
        * (* fast: the late text is returned *)
          destruct (text_eqb (late_of c) (now_of c)) eqn:En.
          -- exists (mkA c (late_of c) (c :: a_pend a) (S (a_slow a)) (a_notes a)).
             assert (Hacc : acc_step a (OGet c (late_of c)) =
                     Some (mkA c (late_of c) (c :: a_pend a) (S (a_slow a)) (a_notes a))).
             { cbn [C30.acc_step]. rewrite Hne, Hl, En. reflexivity. }
             split; [|split].
             ++ cbn [C30.accepts_from]. rewrite Hacc. reflexivity.
             ++ intros tr. cbn [app C30.accepts_from]. rewrite Hacc. reflexivity.
             ++ split; [reflexivity|split; [unfold load in *; cbn in *; lia|]].
                exists (c :: extraW). left. split; [reflexivity|].
                cbn [a_pend codes h_pend]. rewrite HpW. apply Permutation_middle.
          -- exists (mkA c (late_of c) (a_pend a) (a_slow a) (a_notes a)).
             assert (Hacc : acc_step a (OGet c (late_of c)) =
                     Some (mkA c (late_of c) (a_pend a) (a_slow a) (a_notes a))).
             { cbn [C30.acc_step]. rewrite Hne, Hl, En, text_eqb_refl. reflexivity. }
             split; [|split].
             ++ cbn [C30.accepts_from]. rewrite Hacc. reflexivity.
             ++ intros tr. cbn [app C30.accepts_from]. rewrite Hacc. reflexivity.
             ++ split; [reflexivity|split; [unfold load in *; cbn in *; lia|]].
                exists extraW. left. split; [reflexivity|exact HpW].
        * (* slow: a callback is left behind *)
          exists (mkA c (now_of c) (c :: a_pend a) (S (a_slow a)) (a_notes a)).
          assert (Hacc : acc_step a (OGet c (now_of c)) =
                  Some (mkA c (now_of c) (c :: a_pend a) (S (a_slow a)) (a_notes a))).
          { cbn [C30.acc_step]. rewrite Hne, Hl, text_eqb_refl. reflexivity. }
          split; [|split].
          -- cbn [C30.accepts_from]. rewrite Hacc. reflexivity.
          -- intros tr. cbn [app C30.accepts_from]. rewrite Hacc. reflexivity.
          -- split; [reflexivity|split].
             ++ unfold load in *; cbn in *. rewrite app_length. cbn. lia.
             ++ exists extraW. left. split; [reflexivity|].
                cbn [a_pend]. unfold codes. cbn [h_pend]. rewrite map_app. cbn [map fst].
                rewrite HpW. unfold codes. rewrite <- app_assoc. cbn [app].
                apply Permutation_middle.
        * (* no command regions *)
          exists (mkA c (now_of c) (a_pend a) (a_slow a) (a_notes a)).
          assert (Hacc : acc_step a (OGet c (now_of c)) =
                  Some (mkA c (now_of c) (a_pend a) (a_slow a) (a_notes a))).
          { cbn [C30.acc_step]. rewrite Hne, Hl, text_eqb_refl. reflexivity. }
          split; [|split].
          -- cbn [C30.accepts_from]. rewrite Hacc. reflexivity.
          -- intros tr. cbn [app C30.accepts_from]. rewrite Hacc. reflexivity.
          -- split; [reflexivity|split; [unfold load in *; cbn in *; lia|]].
             exists extraW. left. split; [reflexivity|exact HpW].
    - (* late callback: not observable *)
      destruct (nth_error (h_pend s) i) as [[c t]|] eqn:E; [|discriminate].
      assert (Ht : t = late_of c).
      { rewrite Forall_forall in Hpend. apply (Hpend (c, t)). eapply nth_error_In, E. }
      assert (Hcodes : Permutation (codes s) (c :: map fst (remove_nth i (h_pend s)))).
      { unfold codes. rewrite (remove_nth_perm _ _ _ E) at 1. reflexivity. }
      pose proof (remove_nth_length _ _ _ E) as Hlen.
      exists a. split; [|split].
      + destruct (bytes_eqb (h_code s) c); injection H as _ <-; reflexivity.
      + intros tr. destruct (bytes_eqb (h_code s) c); injection H as _ <-; reflexivity.
      + destruct (bytes_eqb (h_code s) c) eqn:Ec; injection H as <- _.
        * apply bytes_eqb_spec in Ec. subst c.
          split; [exact Hcode|split; [unfold load in *; cbn in *; lia|]].
          destruct Hcase as [[Hst Hp]|[Hst Hp]].
          -- exists extra. right. cbn [h_code h_styled codes h_pend].
             split; [exact Ht|]. rewrite Hp, Hcodes. reflexivity.
          -- exists (h_code s :: extra). right. cbn [h_code h_styled codes h_pend].
             split; [exact Ht|]. rewrite Hp, Hcodes. cbn [app].
             constructor. rewrite Permutation_middle. reflexivity.
        * split; [exact Hcode|split; [unfold load in *; cbn in *; lia|]].
          destruct Hcase as [[Hst Hp]|[Hst Hp]].
          -- exists (c :: extra). left. cbn [h_code h_styled codes h_pend].
             split; [exact Hst|]. rewrite Hp, Hcodes. cbn [app].
             rewrite Permutation_middle. reflexivity.
          -- exists (c :: extra). right. cbn [h_code h_styled codes h_pend].
             split; [exact Hst|]. rewrite Hp, Hcodes. cbn [app].
             constructor. rewrite Permutation_middle. reflexivity.
    - (* send *)
      destruct (h_sending s) as [|k] eqn:Es; [discriminate|].
      destruct (h_lates s <? lates_cap); [|discriminate]. injection H as <- <-.
      exists a. split; [reflexivity|split; [reflexivity|]].
      split; [exact Hcode|split; [unfold load in *; cbn in *; rewrite Es in Hcnt; lia|]].
      exists extra. exact Hcase.
    - (* receive *)
      destruct (h_lates s) as [|k] eqn:El; [discriminate|]. injection H as <- <-.
      assert (Hlt : a_notes a <? a_slow a = true).
      { apply Nat.ltb_lt. unfold load in Hcnt. rewrite El in Hcnt. lia. }
      exists (mkA (a_code a) (a_styled a) (a_pend a) (a_slow a) (S (a_notes a))).
      split; [|split].
      + cbn [C30.accepts_from C30.acc_step]. rewrite Hlt. reflexivity.
      + intros tr. cbn [app C30.accepts_from C30.acc_step]. rewrite Hlt. reflexivity.
      + split; [exact Hcode|split; [unfold load in *; cbn in *; rewrite El in Hcnt; lia|]].
        exists extra. exact Hcase.
    - (* invalidate *)
      injection H as <- <-.
      exists (mkA [] [] (a_pend a) (a_slow a) (a_notes a)).
      split; [reflexivity|split; [reflexivity|]].
      split; [reflexivity|split; [exact Hcnt|]].
      exists extraW. left. split; [reflexivity|exact HpW].
  Qed.

  Lemma sim_run acts : forall s a s' tr,
    reachable s -> sim s a -> run s acts = Some (s', tr) -> accepts_from a tr = true.
  Proof.
    induction acts as [|act acts IH]; intros s a s' tr Hr Hsim H; cbn [C30.run] in H.
    - injection H as _ <-. reflexivity.
    - destruct (step s act) as [[s1 o1]|] eqn:E1; [|discriminate].
      destruct (run s1 acts) as [[s2 o2]|] eqn:E2; [|discriminate].
      injection H as _ <-.
      destruct (sim_step s a act s1 o1 (reachable_inv s Hr) Hsim E1) as [a' [_ [Happ Hsim']]].
      rewrite Happ. eapply IH; [|exact Hsim'|exact E2]. eapply reach_step; eassumption.
  Qed.

  Lemma lts_traces_accepted acts s tr :
    run h_init acts = Some (s, tr) -> accepts tr = true.
  Proof.
    intros H. unfold C30.accepts. eapply sim_run; [apply reach_init| |exact H].
    split; [reflexivity|split; [cbn; lia|]]. exists []. left. split; reflexivity.
  Qed.
End Lts.

(* ------------------------------------------------------------------ *)
(* composition: the Highlighter over the model of highlight, for any sort
   meeting the contract, any theme, any command lookup and any region
   extraction that stays inside the code *)
Lemma highlighter_never_stale sort th f (regions_of : bytes -> list region) has_late :
  sort_ok sort -> (forall c, Forall (wf_region (length c)) (regions_of c)) ->
  let now_of := fun c => highlight_with sort th Pending c (regions_of c) in
  let late_of := fun c => highlight_with sort th (Looked f) c (regions_of c) in
  forall acts s tr, run now_of late_of has_late h_init acts = Some (s, tr) ->
    check_C30_trace tr = true
    /\ (forall c t, In (OGet c t) tr -> spell t = c /\ own_text now_of late_of c t)
    /\ spell (h_styled s) = h_code s.
Proof.
  intros Hs Hw now_of late_of. apply all_schedules_ok; intros c; apply assemble_content; auto.
Qed.

(* the re-check in the late callback is needed: a callback that installed its
   result unconditionally would break the cache invariant *)
Definition late_norecheck (s : hstate) (i : nat) : option hstate :=
  match nth_error (h_pend s) i with
  | Some (c, t) => Some (mkH (h_code s) t (remove_nth i (h_pend s)) (S (h_sending s)) (h_lates s))
  | None => None
  end.

Definition plain (c : bytes) : text := [mkSeg c []].

Lemma recheck_needed :
  exists s s', reachable plain plain (fun _ => true) s
    /\ late_norecheck s 0 = Some s' /\ spell (h_styled s') <> h_code s'.
Proof.
  destruct (run plain plain (fun _ => true) h_init [AGet [97%N] false; AGet [98%N] true])
    as [[s tr]|] eqn:E; [|vm_compute in E; discriminate].
  exists s. eexists. split; [eapply run_reachable; [apply reach_init|exact E]|].
  vm_compute in E. injection E as <- _. split; [vm_compute; reflexivity|].
  vm_compute. discriminate.
Qed.
