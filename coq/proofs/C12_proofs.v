(* C12 — proofs about the float branches of model/C11_Num.v. *)
From Coq Require Import QArith Qabs Qround Qcanon Lia Floats.SpecFloat.
From verif Require Import lib.Base model.C11_Num model.C12 proofs.C11_proofs proofs.C12_dyadic.
Open Scope Z_scope.

(* ------------------------------------------------------------------ *)
(* unification to float64 *)
Definition has_inexact (l : list num) : Prop := exists n, In n l /\ is_exact n = false.

Lemma has_float_inexact l : has_float l = true <-> has_inexact l.
Proof. unfold has_float, has_inexact. rewrite existsb_exists. split; intros (n & H1 & H2); exists n; split; auto.
  - apply negb_true_iff, H2.
  - apply negb_true_iff, H2. Qed.

Lemma unify_float l t : has_inexact l -> unify l t = SFloat (map to_f64 l).
Proof. intros (n & Hn & Hf). destruct (unify_type_rank l t) as [_ H]. rewrite Forall_forall in H.
  specialize (H n Hn). destruct n; try discriminate. simpl in H. unfold unify.
  destruct (unify_type l t); simpl in H; try lia. reflexivity. Qed.

(* ------------------------------------------------------------------ *)
(* fold shapes: conversion of every argument, then a left fold from the stated start *)
Theorem add_float_fold l : has_inexact l ->
  call CAdd l None = RVals [NFloat (fold_left fadd (map to_f64 l) fzero)].
Proof. intros H. unfold call, call_raw, add. rewrite unify_float by exact H. reflexivity. Qed.

Lemma mul_scan_cond l : forall h,
  (let '(a, b) := mul_scan l h in a && negb b) = (h || existsb is_int0 l) && negb (existsb is_inf l).
Proof. induction l as [|n l IH]; intros h; simpl.
  - rewrite orb_false_r, andb_true_r. reflexivity.
  - destruct (is_inf n); simpl.
    + rewrite !andb_false_r. reflexivity.
    + rewrite IH, orb_assoc. reflexivity. Qed.

Theorem mul_float_fold l : has_inexact l ->
  existsb is_int0 l && negb (existsb is_inf l) = false ->
  call CMul l None = RVals [NFloat (fold_left fmul (map to_f64 l) fone)].
Proof. intros H Hz. unfold call, call_raw, mul. pose proof (mul_scan_cond l false) as C.
  destruct (mul_scan l false) as [a b]. simpl orb in C. rewrite C, Hz.
  rewrite unify_float by exact H. reflexivity. Qed.

Theorem sub_float_fold a r : has_inexact (a :: r) ->
  call CSub (a :: r) None =
  RVals [NFloat (match r with [] => fopp (to_f64 a) | _ => fold_left fsub (map to_f64 r) (to_f64 a) end)].
Proof. intros H. unfold call, call_raw, sub. rewrite unify_float by exact H.
  destruct r; reflexivity. Qed.

Theorem div_float_fold a r : has_inexact (a :: r) ->
  existsb is_int0 (a :: r) = false ->
  call CDiv (a :: r) None =
  RVals [NFloat (match r with [] => fdiv fone (to_f64 a) | _ => fold_left fdiv (map to_f64 r) (to_f64 a) end)].
Proof. intros H Hz. simpl in Hz. apply orb_false_iff in Hz as [Ha Hr].
  unfold call, call_raw, div. rewrite Hr, Ha. rewrite unify_float by exact H.
  destruct r; reflexivity. Qed.

(* the rounding functions and abs on a float are the float operation *)
Theorem round_float md f : call (rcmd md) [NFloat f] None = RVals [NFloat (f_round md f)].
Proof. destruct md; reflexivity. Qed.

Theorem abs_float f : call CAbs [NFloat f] None = RVals [NFloat (fabs f)].
Proof. reflexivity. Qed.

Theorem inexact_num_conv n : call CInexactNum [n] None = RVals [NFloat (to_f64 n)].
Proof. reflexivity. Qed.

(* ------------------------------------------------------------------ *)
(* the documented conversion rule *)
Theorem to_f64_big_is_inf z : in_int z = false -> to_f64 (NBig z) = S754_infinity (z <? 0).
Proof. intros H. simpl. rewrite H. reflexivity. Qed.

(* ------------------------------------------------------------------ *)
(* integers up to 2^53 convert exactly *)
Definition signed (s : bool) (q : Z) : Z := if s then - q else q.

Lemma f_of_small_value s q : 0 <= q <= 9007199254740992 ->
  (f_to_Q (f_of_small s q) == signed s q # 1)%Q.
Proof. intros Hq. destruct q as [|p|p]; try lia.
  - destruct s; reflexivity.
  - unfold f_of_small. pose proof (digits2_bounds p) as B. cbn [Zdigits2].
    set (dg := Z.pos (digits2_pos p)) in *.
    destruct (53 - dg <? 0) eqn:D.
    + apply Z.ltb_lt in D. assert (dg = 54).
      { assert (dg <= 54); [|lia]. destruct (Z_le_gt_dec dg 54); [assumption|].
        assert (2 ^ 54 <= 2 ^ (dg - 1)) by (apply Z.pow_le_mono_r; lia).
        change (2 ^ 54) with 18014398509481984 in *. lia. }
      subst dg. rewrite H in B. change (2 ^ (54 - 1)) with 9007199254740992 in B.
      assert (Z.pos p = 9007199254740992) by lia. rewrite H0. destruct s; reflexivity.
    + apply Z.ltb_ge in D. rewrite Z.shiftl_mul_pow2 by lia.
      assert (P : 0 < 2 ^ (53 - dg)) by (apply Z.pow_pos_nonneg; lia).
      destruct (Z.pos p * 2 ^ (53 - dg)) as [|m|m] eqn:M; try lia.
      cbn [f_to_Q]. destruct (0 <=? - (53 - dg)) eqn:E.
      * apply Z.leb_le in E. assert (53 - dg = 0) by lia. rewrite H in *. cbn in M.
        unfold Qeq. cbn [Qnum Qden]. change (2 ^ - 0) with 1. destruct s; cbn [signed]; lia.
      * rewrite Qred_correct. rewrite Z.opp_involutive. unfold Qeq. cbn [Qnum Qden].
        rewrite Z2Pos.id by lia. destruct s; cbn [signed]; lia.
Qed.

(* an integer 0 < p <= 2^53 has a canonical mantissa/exponent pair, which is what
   f_of_small builds *)
Lemma f_of_small_canonical s p : Z.pos p <= 9007199254740992 ->
  exists m e, f_of_small s (Z.pos p) = S754_finite s m e
    /\ bounded prec emax m e = true /\ dy_eq p 0 m e.
Proof. intros Hp. unfold f_of_small. cbn [Zdigits2]. pose proof (digits2_bounds p) as B.
  set (dg := Z.pos (digits2_pos p)) in *.
  destruct (53 - dg <? 0) eqn:D.
  - apply Z.ltb_lt in D. assert (dg = 54).
    { assert (dg <= 54); [|lia]. destruct (Z_le_gt_dec dg 54); [assumption|].
      assert (2 ^ 54 <= 2 ^ (dg - 1)) by (apply Z.pow_le_mono_r; lia).
      change (2 ^ 54) with 18014398509481984 in *. lia. }
    rewrite H in B. change (2 ^ (54 - 1)) with 9007199254740992 in B.
    assert (E : Z.pos p = 9007199254740992) by lia.
    exists 4503599627370496%positive, 1. split; [reflexivity|]. split; [reflexivity|].
    exists 0. split; [lia|]. split; [lia|]. rewrite E. reflexivity.
  - apply Z.ltb_ge in D. rewrite Z.shiftl_mul_pow2 by lia.
    assert (P : 0 < 2 ^ (53 - dg)) by (apply Z.pow_pos_nonneg; lia).
    destruct (Z.pos p * 2 ^ (53 - dg)) as [|m|m] eqn:M; try lia.
    exists m, (- (53 - dg)). split; [reflexivity|].
    assert (Dm : Z.pos (digits2_pos m) = 53).
    { rewrite (digits2_mul_pow2 p m (53 - dg)) by (lia || (symmetry; exact M)). fold dg. lia. }
    assert (dg >= 1) by (unfold dg; lia).
    split.
    + unfold bounded, canonical_mantissa, fexp, emin, prec, emax. rewrite Dm.
      apply andb_true_iff. split; [apply Zeq_is_eq_bool|apply Z.leb_le]; lia.
    + exists (- (53 - dg)). split; [lia|]. split; [lia|].
      rewrite Z.sub_diag, Z.mul_1_r. replace (0 - - (53 - dg)) with (53 - dg) by lia. exact M.
Qed.

Lemma of_Z_small z : z <> 0 -> Z.abs z <= 9007199254740992 ->
  of_Z z = f_of_small (z <? 0) (Z.abs z).
Proof. intros Nz H. destruct z as [|p|p]; [congruence| |]; cbn [of_Z Z.abs Z.ltb Z.compare] in *.
  - destruct (f_of_small_canonical false p H) as (m & e & E & Bd & Dy). rewrite E.
    apply f_of_dyadic_exact; assumption.
  - destruct (f_of_small_canonical true p H) as (m & e & E & Bd & Dy). rewrite E.
    apply f_of_dyadic_exact; assumption.
Qed.

Theorem to_f64_int_exact_below_2p53 z : Z.abs z <= 9007199254740992 ->
  (f_to_Q (to_f64 (NInt z)) == z # 1)%Q.
Proof. intros H. cbn [to_f64]. destruct (Z.eq_dec z 0) as [->|Nz]; [reflexivity|].
  rewrite of_Z_small by assumption.
  rewrite f_of_small_value by lia. unfold signed.
  destruct (z <? 0) eqn:S; [apply Z.ltb_lt in S|apply Z.ltb_ge in S].
  - rewrite Z.abs_neq by lia. rewrite Z.opp_involutive. reflexivity.
  - rewrite Z.abs_eq by lia. reflexivity. Qed.

(* ------------------------------------------------------------------ *)
(* exact-num of a finite float: an exact canonical number of the float's value *)
Theorem exact_num_value f : f_is_finite f = true ->
  exists v, call CExactNum [NFloat f] None = RVals [v] /\ good v (f_to_Q f).
Proof. intros H. unfold call, call_raw, exact_num. rewrite H. cbn [map_result map from_go].
  eexists. split; [reflexivity|]. apply normalize_rat_good. Qed.

Theorem exact_num_nonfinite f : f_is_finite f = false ->
  call CExactNum [NFloat f] None = RErr ENotFinite.
Proof. intros H. unfold call, call_raw, exact_num. rewrite H. reflexivity. Qed.

(* ------------------------------------------------------------------ *)
(* floor ceil trunc round round-to-even of a finite double are integers *)
Lemma valid_mantissa s m e : fvalid (S754_finite s m e) = true -> Z.pos m < 9007199254740992.
Proof. unfold fvalid, valid_binary, bounded, canonical_mantissa, fexp. intros H.
  apply andb_true_iff in H as [H _]. apply Zeq_bool_eq in H.
  pose proof (digits2_bounds m) as B. unfold prec, emax in H.
  assert (D : Z.pos (digits2_pos m) <= 53) by lia.
  assert (2 ^ Z.pos (digits2_pos m) <= 2 ^ 53) by (apply Z.pow_le_mono_r; lia).
  change (2 ^ 53) with 9007199254740992 in *. lia. Qed.

Theorem rounding_fn_integral md f : fvalid f = true -> f_is_finite f = true ->
  exists z, (f_to_Q (f_round md f) == z # 1)%Q.
Proof. intros Hv Hf. destruct f as [s|s| |s m e]; try discriminate.
  - exists 0. reflexivity.
  - cbn [f_round]. destruct (0 <=? e) eqn:E.
    + cbn [f_to_Q]. rewrite E. eexists. reflexivity.
    + apply Z.leb_gt in E. pose proof (valid_mantissa s m e Hv) as M.
      set (q := Z.shiftr (Z.pos m) (- e)).
      assert (Q : 0 <= q <= Z.pos m).
      { unfold q. rewrite Z.shiftr_div_pow2 by lia.
        assert (P : 0 < 2 ^ (- e)) by (apply Z.pow_pos_nonneg; lia). split.
        - apply Z.div_pos; lia.
        - apply Z.div_le_upper_bound; [lia|]. nia. }
      match goal with |- context [f_of_small s ?x] => set (q' := x) end.
      assert (Q' : 0 <= q' <= 9007199254740992) by (unfold q'; destruct (match md with RFloor => _ | _ => _ end); lia).
      exists (signed s q'). apply f_of_small_value. exact Q'.
Qed.

(* ------------------------------------------------------------------ *)
(* oracle soundness, and the model against the oracle on all-float calls *)
Definition Spec_C12 (c : cmd) (args : list num) (obs : result) : Prop :=
  match expect_C12 c args with
  | YFloat f => exists g, obs = RVals [NFloat g] /\ f_eqb g f = true
                /\ Forall (fun a => conv_ok a = true) args
  | YRound md f => exists g, obs = RVals [NFloat g] /\ round_ok md f g = true
  | YExact q => exists v, obs = RVals [v] /\ canon_ok v = true /\ (qv v == q)%Q
  | YAny => True
  end.

Theorem check_C12_sound c args obs : check_C12 c args obs = true -> Spec_C12 c args obs.
Proof. unfold check_C12, Spec_C12. destruct (expect_C12 c args) as [f|md f|q|]; intros H.
  - apply andb_true_iff in H as [H1 H2].
    destruct obs as [[|[| | |g] [|]]| | | | |]; try discriminate.
    exists g. repeat split; auto. rewrite forallb_forall in H1. apply Forall_forall. exact H1.
  - destruct obs as [[|[| | |g] [|]]| | | | |]; try discriminate. exists g. auto.
  - destruct obs as [[|v [|]]| | | | |]; try discriminate. apply andb_true_iff in H as [H1 H2].
    exists v. repeat split; auto. apply Qeq_bool_iff, H2.
  - exact I. Qed.

Lemma f_eqb_refl f : f_eqb f f = true.
Proof. destruct f as [s|s| |s m e]; simpl; rewrite ?eqb_reflx, ?Pos.eqb_refl, ?Z.eqb_refl; reflexivity. Qed.

Definition all_float (l : list num) : Prop := Forall (fun n => is_exact n = false) l.

Lemma all_float_conv l : all_float l ->
  map conv l = map to_f64 l /\ forallb conv_ok l = true
  /\ existsb is_int0 l = false.
Proof. induction 1 as [|n l H _ (I1 & I2 & I3)]; [repeat split|].
  destruct n; try discriminate. simpl. rewrite I1, I2, I3. repeat split. Qed.

Lemma all_float_has l : all_float l -> l <> [] -> has_float l = true /\ has_inexact l.
Proof. intros H N. destruct l as [|n l]; [congruence|]. inversion H; subst.
  split; [simpl; rewrite H2; reflexivity|]. exists n. split; [left; reflexivity|assumption]. Qed.

(* for argument lists of floats the model's result passes the oracle: the
   evaluation order of the code is the one the property states *)
Theorem float_arith_meets_oracle c l : In c [CAdd; CSub; CMul; CDiv] ->
  all_float l -> l <> [] ->
  check_C12 c l (call c l None) = true.
Proof. intros Hc Hl Hn. destruct (all_float_conv l Hl) as (C1 & C2 & C3).
  destruct (all_float_has l Hl Hn) as [F1 F2].
  unfold check_C12, expect_C12. rewrite F1. cbn [negb].
  destruct Hc as [<-|[<-|[<-|[<-|[]]]]].
  - rewrite C2, add_float_fold, C1 by exact F2. cbn. apply f_eqb_refl.
  - destruct l as [|a r]; [congruence|]. rewrite sub_float_fold by exact F2.
    inversion Hl; subst. destruct (all_float_conv r H2) as (R1 & _ & _).
    destruct a; try discriminate. destruct r.
    + rewrite C2. cbn. apply f_eqb_refl.
    + rewrite C2, R1. cbn [andb conv to_f64]. apply f_eqb_refl.
  - rewrite C3. cbn [andb]. rewrite C2, mul_float_fold, C1; [cbn; apply f_eqb_refl|exact F2|rewrite C3; reflexivity].
  - destruct l as [|a r]; [congruence|]. rewrite div_float_fold by (exact F2 || exact C3).
    inversion Hl; subst. destruct (all_float_conv r H2) as (R1 & _ & R3).
    simpl in C3. apply orb_false_iff in C3 as [A0 _]. rewrite R3, A0. cbn [orb].
    destruct a; try discriminate. destruct r.
    + rewrite C2. cbn. apply f_eqb_refl.
    + rewrite C2, R1. cbn [andb conv to_f64]. apply f_eqb_refl.
Qed.

(* ------------------------------------------------------------------ *)
(* math:min / math:max with a float among the arguments: conversion, then a left
   fold of Go's math.Min / math.Max from the first argument *)
Theorem minmax_float_fold (lt : bool) a r : has_inexact (a :: r) ->
  call (if lt then CMin else CMax) (a :: r) None =
  RVals [NFloat (fold_left (if lt then f_min else f_max) (map to_f64 r) (to_f64 a))].
Proof. intros H.
  assert (E : call (if lt then CMin else CMax) (a :: r) None = map_result from_go (minmax lt (a :: r)))
    by (destruct lt; reflexivity).
  rewrite E. unfold minmax. rewrite unify_float by exact H. reflexivity. Qed.
