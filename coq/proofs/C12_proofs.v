(* C12 proofs (under construction) *)
From Coq Require Import QArith Floats.SpecFloat.
From verif Require Import lib.Base model.C11_Num model.C12.
Open Scope Z_scope.

Lemma to_f64_big_is_inf z : in_int z = false -> to_f64 (NBig z) = S754_infinity (z <? 0).
Proof. intros H. simpl. rewrite H. reflexivity. Qed.
