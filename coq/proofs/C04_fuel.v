(* C04 — the fuel read_expr gives itself (twice the length of the text plus two)
   is enough for everything repr prints, so the round trip holds for the
   top-level function the judge runs. *)
From verif Require Import lib.Base lib.ListX lib.Utf8 model.C03 proofs.C03_proofs model.C08_Value
  proofs.C08_Value_proofs model.C04 proofs.C04_text proofs.C04_roundtrip proofs.C04_sem.
From verif Require model.C05 proofs.C05_float_proofs.
From Coq Require Import Permutation ZifyBool ZifyNat ZifyN.
Open Scope N_scope.

Lemma list_sum_perm l l' : Permutation l l' -> list_sum l = list_sum l'.
Proof. induction 1; simpl; lia. Qed.

Lemma items_text_len (sn : bytes) (xs : list bytes) : forall s1,
  (list_sum (map (@length N) xs) <= length (items_text s1 sn xs))%nat.
Proof.
  induction xs as [|x xs IH]; intros s1; [simpl; lia|].
  cbn [map items_text]. change (list_sum (length x :: map (@length N) xs))
    with (length x + list_sum (map (@length N) xs))%nat.
  rewrite !app_length. specialize (IH sn). unfold bytes in *. lia.
Qed.

(* width + deepest item against twice the summed lengths *)
Lemma depth_sum {A} (d L : A -> nat) (l : list A) :
  (forall a, In a l -> (d a <= 2 * L a)%nat /\ (1 <= L a)%nat) ->
  (length l + list_max (map d l) <= 1 + 2 * list_sum (map L l))%nat
  /\ (length l <= list_sum (map L l))%nat.
Proof.
  induction l as [|a l IH]; intros H; [simpl; lia|].
  destruct (H a (or_introl eq_refl)) as [H1 H2].
  destruct IH as [I1 I2]; [intros b Hb; apply H; right; exact Hb|].
  cbn [length map].
  change (list_max (d a :: map d l)) with (Nat.max (d a) (list_max (map d l))).
  change (list_sum (L a :: map L l)) with (L a + list_sum (map L l))%nat. lia.
Qed.

Section Fuel.
Variable is_print : N -> bool.
Variable fmtF fmtE : N -> bytes.
Variable rk : N -> Z.
Notation repr := (C04.repr is_print fmtF fmtE rk).

Lemma rdepth_le : forall v, okv v = true -> forall ind, (rdepth v <= 2 * length (repr v ind))%nat.
Proof.
  apply (value_size_ind (fun v => okv v = true -> forall ind, (rdepth v <= 2 * length (repr v ind))%nat)).
  intros v IH Hok ind.
  assert (NE : (1 <= length (repr v ind))%nat).
  { pose proof (repr_ne is_print fmtF fmtE rk v ind Hok). destruct (repr v ind); [congruence|cbn [length]; lia]. }
  destruct v as [|b|z|z|q|b|s|sub l|m|ty id]; try (cbn [rdepth]; lia).
  - (* list *)
    cbn [rdepth C04.repr].
    rewrite (fold_left_map (fun b y => lb_write ind b y) (fun e => repr e (ind + 1))).
    destruct l as [|e1 l']; [cbn; lia|].
    cbn [map]. rewrite lb_string_items
      by (apply repr_ne; cbn [okv forallb] in Hok; apply andb_true_iff in Hok; tauto).
    change (repr e1 (ind + 1) :: map (fun e => repr e (ind + 1)) l')
      with (map (fun e => repr e (ind + 1)) (e1 :: l')).
    cbn [length]. rewrite !app_length.
    pose proof (items_text_len (sep_next ind)
                  (map (fun e => repr e (ind + 1)) (e1 :: l')) (sep_first ind)) as LL.
    rewrite map_map in LL.
    destruct (depth_sum rdepth (fun e => length (repr e (ind + 1))) (e1 :: l')) as [D1 _].
    { intros a Ha. cbn [okv] in Hok. rewrite forallb_forall in Hok. specialize (Hok a Ha). split.
      - apply IH; [apply (vsize_list_in sub _ a Ha)|exact Hok].
      - pose proof (repr_ne is_print fmtF fmtE rk a (ind + 1)%Z Hok). destruct (repr a (ind + 1)); [congruence|cbn [length]; lia]. }
    unfold bytes in *. cbn [length map] in *. lia.
  - (* map *)
    cbn [rdepth C04.repr].
    pose proof (isort_dec rk (fun k : value => repr k (ind + 1))
                  (fun e : value * value => repr (snd e) (ind + 2)) m) as E1.
    cbn beta in E1. rewrite E1. clear E1.
    set (sm := sorted_entries rk (fun k : value => repr k (ind + 1)) m).
    rewrite (fold_left_map (fun b y => lb_write ind b y)
               (fun e : value * (bytes * bytes) => mb_pair (fst (snd e)) (ind + 2) (snd (snd e)))).
    rewrite map_map. cbn [fst snd].
    change (map (fun x : value * value => mb_pair (repr (fst x) (ind + 1)) (ind + 2) (repr (snd x) (ind + 2))) sm)
      with (map (pair_text is_print fmtF fmtE rk ind) sm).
    assert (Pm : Permutation m sm) by apply sorted_entries_perm.
    set (L := fun e : value * value => length (pair_text is_print fmtF fmtE rk ind e)).
    destruct (depth_sum (fun e => Nat.max (rdepth (fst e)) (rdepth (snd e))) L m) as [D1 _].
    { intros a Ha. cbn [okv] in Hok. rewrite forallb_forall in Hok. specialize (Hok a Ha).
      apply andb_true_iff in Hok as [O1 O2]. destruct (vsize_map_in m a Ha) as [S1 S2].
      pose proof (IH _ S1 O1 (ind + 1)%Z) as I1. pose proof (IH _ S2 O2 (ind + 2)%Z) as I2.
      unfold L, pair_text, mb_pair. cbn [length]. rewrite !app_length. cbn [length]. rewrite app_length.
      unfold bytes in *. lia. }
    assert (SumEq : list_sum (map L m) = list_sum (map L sm)) by (apply list_sum_perm, Permutation_map, Pm).
    destruct sm as [|a sm'] eqn:Esm.
    + assert (m = []) by (destruct m; [reflexivity|apply Permutation_sym, Permutation_nil in Pm; discriminate]).
      subst m. cbn. lia.
    + cbn [map]. unfold mb_string. cbv zeta.
      rewrite lb_string_items by discriminate.
      change (pair_text is_print fmtF fmtE rk ind a :: map (pair_text is_print fmtF fmtE rk ind) sm')
        with (map (pair_text is_print fmtF fmtE rk ind) (a :: sm')).
      pose proof (items_text_len (sep_next ind)
                    (map (pair_text is_print fmtF fmtE rk ind) (a :: sm')) (sep_first ind)) as LL.
      rewrite map_map in LL. fold L in LL.
      assert (Lm : length m = length (a :: sm')) by (apply Permutation_length, Pm).
      match goal with |- context [if ?c then _ else _] => destruct c eqn:B end.
      * exfalso. apply bytes_eqb_spec in B. unfold sEmptyList in B.
        apply (f_equal (@length N)) in B. cbn [length] in B. rewrite !app_length in B. cbn [length] in B.
        cbn [map] in LL.
        change (list_sum (L a :: map L sm')) with (L a + list_sum (map L sm'))%nat in LL.
        assert (1 <= L a)%nat by (unfold L, pair_text, mb_pair; cbn [length]; lia).
        unfold bytes in *. cbn [map] in *. lia.
      * cbn [length]. rewrite !app_length. unfold bytes in *. cbn [length map] in *. lia.
Qed.
End Fuel.

Section Top.
Variable is_print : N -> bool.
Variable pf : bytes -> option N.
Variable fmtF fmtE : N -> bytes.
Variable rk : N -> Z.
Hypothesis HS : C05_float_proofs.contract_S pf fmtF fmtE.

(* the whole argument of put: one value, nothing left, for read_expr's own fuel *)
Theorem read_expr_repr v ind : okv v = true ->
  read_expr is_print pf (repr is_print fmtF fmtE rk v ind) = EVal (norm is_print pf fmtF fmtE rk v ind).
Proof.
  intros Hok. unfold read_expr.
  pose proof (repr_reads_back is_print pf fmtF fmtE rk HS v Hok ind CNormal []
                (2 * length (repr is_print fmtF fmtE rk v ind) + 2)) as R.
  rewrite app_nil_r in R. rewrite R; [reflexivity| |exact I].
  pose proof (rdepth_le is_print fmtF fmtE rk v Hok ind). lia.
Qed.
End Top.
