(* C40/C42 -- the form lemma: after a form with any redirection list, on every
   exit path, exactly the handles the form owned at entry are closed in addition,
   every file the redirections opened is closed again, nothing else changes. *)
From verif Require Import lib.Base model.C42_Ports model.C40 proofs.C42_proofs proofs.C40_ledger.
From Coq Require Import ZifyBool ZifyNat.
Open Scope nat_scope.

(* position d of the ownership table holds handle h *)
Definition heldP (T : table) (F : list fop) (h : handle) : Prop :=
  exists d p, fo_file (nth d F fop0) = true /\ tget T d = Some p /\ p_file p = Some h.

Lemma held_iff : forall F T h, heldb T F h = true <-> heldP T F h.
Proof.
  induction F as [|f F IH]; intros T h.
  - split; [destruct T; discriminate|]. intros (d & p & H & _). destruct d; discriminate.
  - destruct T as [|q T].
    + split; [discriminate|]. intros (d & p & _ & H & _). destruct d; discriminate.
    + simpl heldb. rewrite orb_true_iff, IH. split.
      * intros [H|(d & p & H1 & H2 & H3)].
        -- apply andb_true_iff in H as [Hf Hq]. destruct q as [q|]; [|discriminate].
           destruct (p_file q) as [h'|] eqn:Eq; [|discriminate].
           apply handle_eqb_eq in Hq; subst h'. exists 0, q. auto.
        -- exists (S d), p. auto.
      * intros (d & p & H1 & H2 & H3). destruct d as [|d].
        -- left. simpl in H1. unfold tget in H2. simpl in H2. subst q.
           rewrite H1, H3, handle_eqb_refl. reflexivity.
        -- right. exists d, p. auto.
Qed.

Lemma nth_grow_fop F d k : nth k (grow fop0 F d) fop0 = nth k F fop0.
Proof.
  unfold grow. destruct (Nat.ltb d (length F)); auto.
  destruct (Nat.lt_ge_cases k (length F)) as [L|L].
  - rewrite app_nth1; auto.
  - rewrite app_nth2; auto. rewrite (nth_overflow F); auto.
    destruct (Nat.lt_ge_cases (k - length F) (S d - length F)) as [L2|L2].
    + apply nth_repeat.
    + apply nth_overflow. rewrite repeat_length. lia.
Qed.

Lemma nth_upd_same {A} (l : list A) d v (dflt : A) : d < length l -> nth d (list_upd l d v) dflt = v.
Proof.
  intros H. apply nth_error_nth. apply nth_error_upd_same; auto.
Qed.

Lemma nth_upd_other {A} (l : list A) d k v (dflt : A) : d <> k -> nth k (list_upd l d v) dflt = nth k l dflt.
Proof.
  intros H. destruct (nth_error l k) as [x|] eqn:E.
  - rewrite (nth_error_nth l k dflt E). apply nth_error_nth. rewrite nth_error_upd_other; auto.
  - apply nth_error_None in E. rewrite !nth_overflow; auto. rewrite length_list_upd; auto.
Qed.

Lemma heldP_grow T F d h : heldP (grow None T d) (grow fop0 F d) h <-> heldP T F h.
Proof.
  unfold heldP. split; intros (k & p & H1 & H2 & H3); exists k, p;
    rewrite nth_grow_fop, tget_grow in *; auto.
Qed.

(* ---------------------------------------------------------------- effect of the primitive steps *)
Lemma open_file_effect s pth fl i s2 :
  open_file s pth fl = Some (i, s2) ->
  i = length (s_ofds s)
  /\ length (s_ofds s2) = S (length (s_ofds s))
  /\ (forall h, handle_open s2 h = if handle_eqb (HOfd i) h then true else handle_open s h)
  /\ live_gor s2 = live_gor s.
Proof.
  unfold open_file. intros H.
  assert (E : i = length (s_ofds s) /\ exists c o,
             s2 = set_led (set_ofds (set_fs s c) (s_ofds s ++ [o]))
                          (led_fopen (s_led (set_ofds (set_fs s c) (s_ofds s ++ [o]))))
             /\ o_open o = true).
  { destruct (fs_get (s_fs s) pth); [|destruct (f_creat fl); [|discriminate]];
      inversion H; subst; (split; [reflexivity|]); eexists; eexists; split; reflexivity. }
  destruct E as [-> (c & o & -> & Ho)]. split; [reflexivity|]. split; [|split].
  - simpl. rewrite app_length. simpl. lia.
  - intros h. rewrite !handle_open_stat. simpl. destruct h as [k| | | |]; simpl; auto.
    unfold stat_o. destruct (Nat.eqb_spec (length (s_ofds s)) k) as [<-|N].
    + rewrite nth_error_app2, Nat.sub_diag by lia. simpl. exact Ho.
    + destruct (Nat.lt_ge_cases k (length (s_ofds s))) as [L|L].
      * rewrite nth_error_app1; auto.
      * rewrite (proj2 (nth_error_None (s_ofds s) k)) by lia.
        rewrite (proj2 (nth_error_None (s_ofds s ++ [o]) k)); auto.
        rewrite app_length. simpl. lia.
  - reflexivity.
Qed.

Lemma eval_src_effect T1 s1 r p own s2 :
  eval_src Impl [] T1 s1 r = SPort p own s2 ->
  (own = false /\ s2 = s1)
  \/ (own = true /\ exists pth i, open_file s1 pth (makeFlag (r_mode r)) = Some (i, s2)
                                  /\ p_file p = Some (HOfd i)).
Proof.
  unfold eval_src. intros H. destruct (r_src r) as [pth|f| |k|].
  - destruct (open_file s1 pth (makeFlag (r_mode r))) as [[i s']|] eqn:E; [|discriminate].
    inversion H; subst. right. split; auto. exists pth, i. split; auto.
    destruct (r_mode r); reflexivity.
  - left. destruct f as [z|n|]; try discriminate.
    + destruct (z <? 0)%Z.
      * destruct (z =? -1)%Z; inversion H; auto.
      * destruct (tget T1 (Z.to_nat z)); inversion H; auto.
    + destruct (Z.of_nat n <? 0)%Z.
      * destruct (Z.of_nat n =? -1)%Z; inversion H; auto.
      * destruct (tget T1 (Z.to_nat (Z.of_nat n))); inversion H; auto.
  - left. inversion H; auto.
  - destruct k; discriminate.
  - discriminate.
Qed.

(* ---------------------------------------------------------------- the invariant of a redirection list *)
Record Inv (s0 : st) (own0 : handle -> bool) (x : fstate) : Prop := {
  I_held : forall h, heldP (fs_T x) (fs_fops x) h ->
                     closable h = true /\ (own0 h = true \/ handle_open s0 h = false);
  I_free : forall h, ~ heldP (fs_T x) (fs_fops x) h ->
                     handle_open (fs_st x) h = if own0 h then false else handle_open s0 h;
  I_len : length (s_ofds s0) <= length (s_ofds (fs_st x));
  I_gor : live_gor (fs_st x) = live_gor s0;
  I_wf : forall d, fo_file (nth d (fs_fops x) fop0) = true -> exists p, tget (fs_T x) d = Some p;
  I_defer : fs_defer x = [] }.

Lemma heldP_dec T F h : heldP T F h \/ ~ heldP T F h.
Proof.
  destruct (heldb T F h) eqn:E.
  - left. apply held_iff; auto.
  - right. intros H. apply held_iff in H. congruence.
Qed.

(* release at d *)
Lemma release_inv s0 own0 x d s1 F2 df :
  Inv s0 own0 x -> release Impl x d = (s1, F2, df) ->
  Inv s0 own0 (mkFs (grow None (fs_T x) d) F2 s1 df)
  /\ fo_file (nth d F2 fop0) = false
  /\ d < length F2.
Proof.
  intros I H. unfold release in H.
  set (T1 := grow None (fs_T x) d) in *. set (F1 := grow fop0 (fs_fops x) d) in *.
  assert (HG : forall h, heldP T1 F1 h <-> heldP (fs_T x) (fs_fops x) h) by (intros; apply heldP_grow).
  assert (L1 : d < length F1) by apply length_grow.
  destruct (tget T1 d) as [p0|] eqn:Ep.
  - inversion H; subst s1 F2 df; clear H.
    set (f0 := nth d F1 fop0).
    assert (Hclos : fo_file f0 = true -> forall h', p_file p0 = Some h' -> closable h' = true).
    { intros Ef h' Eh. apply (I_held _ _ _ I h'). apply HG. exists d, p0. auto. }
    destruct (close_fop_closes (fs_st x) f0 p0 Hclos) as [HC GC].
    assert (Hsub : forall h, heldP T1 (list_upd F1 d fop0) h -> heldP T1 F1 h).
    { intros h (k & p & H1 & H2 & H3). destruct (Nat.eq_dec d k) as [->|N].
      - rewrite nth_upd_same in H1; auto. discriminate.
      - rewrite nth_upd_other in H1; auto. exists k, p. auto. }
    split; [|split].
    + constructor; simpl.
      * intros h Hh. apply (I_held _ _ _ I). apply HG, Hsub; auto.
      * intros h Hn. rewrite HC.
        destruct (heldP_dec T1 F1 h) as [Hh|Hh].
        -- (* held before, only at d: it is the handle just closed *)
           destruct Hh as (k & p & H1 & H2 & H3).
           destruct (Nat.eq_dec d k) as [<-|N].
           ++ fold f0 in H1. rewrite Ep in H2. inversion H2; subst p0.
              rewrite H1, H3, handle_eqb_refl. simpl.
              destruct (I_held _ _ _ I h) as [_ [Ho|Ho]].
              { apply HG. exists d, p. auto. }
              { rewrite Ho; reflexivity. }
              { rewrite Ho. destruct (own0 h); reflexivity. }
           ++ exfalso. apply Hn. exists k, p. rewrite nth_upd_other; auto.
        -- assert (E : fo_file f0 && match p_file p0 with Some h' => handle_eqb h' h | None => false end = false).
           { destruct (fo_file f0) eqn:Ef; auto. simpl.
             destruct (p_file p0) as [h'|] eqn:Eh; auto.
             destruct (handle_eqb h' h) eqn:E; auto. apply handle_eqb_eq in E; subst h'.
             exfalso. apply Hh. exists d, p0. auto. }
           rewrite E. apply (I_free _ _ _ I). intros Hx. apply Hh, HG; auto.
      * rewrite close_fop_len. apply (I_len _ _ _ I).
      * rewrite GC. apply (I_gor _ _ _ I).
      * intros k Hk. destruct (Nat.eq_dec d k) as [<-|N].
        -- rewrite nth_upd_same in Hk; auto. discriminate.
        -- rewrite nth_upd_other in Hk; auto. unfold F1 in Hk. rewrite nth_grow_fop in Hk.
           destruct (I_wf _ _ _ I k Hk) as [p Hp]. exists p. unfold T1. rewrite tget_grow. auto.
      * apply (I_defer _ _ _ I).
    + rewrite nth_upd_same; auto.
    + rewrite length_list_upd; auto.
  - inversion H; subst s1 F2 df; clear H.
    assert (Hf : fo_file (nth d F1 fop0) = false).
    { destruct (fo_file (nth d F1 fop0)) eqn:E; auto. unfold F1 in E. rewrite nth_grow_fop in E.
      destruct (I_wf _ _ _ I d E) as [p Hp]. unfold T1 in Ep. rewrite tget_grow in Ep. congruence. }
    split; [|split; auto].
    constructor; simpl.
    + intros h Hh. apply (I_held _ _ _ I), HG; auto.
    + intros h Hn. apply (I_free _ _ _ I). intros Hx. apply Hn, HG; auto.
    + apply (I_len _ _ _ I).
    + apply (I_gor _ _ _ I).
    + intros k Hk. unfold F1 in Hk. rewrite nth_grow_fop in Hk.
      destruct (I_wf _ _ _ I k Hk) as [p Hp]. exists p. unfold T1. rewrite tget_grow. auto.
    + apply (I_defer _ _ _ I).
Qed.

(* one redirection keeps the invariant, on the normal and on the exception path *)
Lemma exec_redir_inv s0 own0 x r :
  Inv s0 own0 x ->
  match exec_redir Impl [] x r with
  | ROk x' | RExc _ x' => Inv s0 own0 x'
  | RCrash => True
  end.
Proof.
  intros I. unfold exec_redir.
  destruct (eval_dst r) as [dz|]; [|exact I].
  destruct (dz <? 0)%Z; [exact I|].
  set (d := Z.to_nat dz).
  destruct (release Impl x d) as [[s1 F2] df] eqn:ER.
  destruct (release_inv _ _ _ _ _ _ _ I ER) as (I1 & Hf & HL).
  set (T1 := grow None (fs_T x) d) in *.
  assert (LT : d < length T1) by apply length_grow.
  destruct (eval_src Impl [] T1 s1 r) as [p own s2| |] eqn:ES; [|exact I1|exact Logic.I].
  destruct (eval_src_effect _ _ _ _ _ _ ES) as [[-> ->]|[-> (pth & i & EO & EP)]]; unfold install.
  - (* a port that the form does not own *)
    assert (HH : forall h, heldP (list_upd T1 d (Some p)) F2 h <-> heldP T1 F2 h).
    { intros h. split; intros (k & q & H1 & H2 & H3); exists k;
        (destruct (Nat.eq_dec d k) as [<-|N]; [congruence|]);
        rewrite tget_upd_other in *; auto; exists q; auto. }
    constructor; simpl.
    + intros h Hh. apply (I_held _ _ _ I1), HH; auto.
    + intros h Hn. apply (I_free _ _ _ I1). intros Hx. apply Hn, HH; auto.
    + apply (I_len _ _ _ I1).
    + apply (I_gor _ _ _ I1).
    + intros k Hk. destruct (Nat.eq_dec d k) as [<-|N].
      * exists p. apply tget_upd_same; auto.
      * rewrite tget_upd_other; auto. apply (I_wf _ _ _ I1 k Hk).
    + apply (I_defer _ _ _ I1).
  - (* a file opened by this redirection *)
    destruct (open_file_effect _ _ _ _ _ EO) as (Ei & EL & EH & EG).
    set (F3 := list_upd F2 d (mkFop true (fo_chan (nth d F2 fop0)))).
    assert (HH : forall h, heldP (list_upd T1 d (Some p)) F3 h <-> (heldP T1 F2 h \/ h = HOfd i)).
    { intros h. split.
      - intros (k & q & H1 & H2 & H3). destruct (Nat.eq_dec d k) as [<-|N].
        + right. rewrite tget_upd_same in H2; auto. inversion H2; subst q. congruence.
        + left. unfold F3 in H1. rewrite nth_upd_other in H1; auto.
          rewrite tget_upd_other in H2; auto. exists k, q. auto.
      - intros [(k & q & H1 & H2 & H3)| ->].
        + destruct (Nat.eq_dec d k) as [<-|N]; [congruence|].
          exists k, q. unfold F3. rewrite nth_upd_other, tget_upd_other; auto.
        + exists d, p. unfold F3. rewrite nth_upd_same, tget_upd_same; auto. }
    constructor; simpl.
    + intros h Hh. apply HH in Hh as [Hh| ->]; [apply (I_held _ _ _ I1); auto|].
      split; [reflexivity|]. right. simpl.
      assert (L0 := I_len _ _ _ I1). simpl in L0.
      rewrite (proj2 (nth_error_None (s_ofds s0) i)); auto. lia.
    + intros h Hn. rewrite EH.
      destruct (handle_eqb (HOfd i) h) eqn:E.
      * apply handle_eqb_eq in E; subst h. exfalso. apply Hn, HH. auto.
      * apply (I_free _ _ _ I1). intros Hx. apply Hn, HH. auto.
    + assert (L0 := I_len _ _ _ I1). simpl in L0. lia.
    + rewrite EG. apply (I_gor _ _ _ I1).
    + intros k Hk. destruct (Nat.eq_dec d k) as [<-|N].
      * exists p. apply tget_upd_same; auto.
      * unfold F3 in Hk. rewrite nth_upd_other in Hk; auto.
        rewrite tget_upd_other; auto. apply (I_wf _ _ _ I1 k Hk).
    + apply (I_defer _ _ _ I1).
Qed.

Lemma exec_redirs_inv s0 own0 rs : forall x,
  Inv s0 own0 x ->
  match exec_redirs Impl [] x rs with
  | ROk x' | RExc _ x' => Inv s0 own0 x'
  | RCrash => True
  end.
Proof.
  induction rs as [|r rs IH]; intros x I; simpl; auto.
  pose proof (exec_redir_inv s0 own0 x r I) as H.
  destruct (exec_redir Impl [] x r) as [x'|k x'|]; [apply IH; exact H|exact H|exact Logic.I].
Qed.

(* the invariant at form entry *)
Lemma inv_init T F0 s :
  (forall h, heldP T F0 h -> closable h = true) ->
  (forall d, fo_file (nth d F0 fop0) = true -> exists p, tget T d = Some p) ->
  Inv s (heldb T F0) (mkFs T F0 s []).
Proof.
  intros Hc Hw. constructor; simpl; auto.
  - intros h Hh. split; auto. left. apply held_iff; auto.
  - intros h Hn. destruct (heldb T F0 h) eqn:E; auto. exfalso. apply Hn, held_iff; auto.
Qed.

(* form end: everything the form holds is closed; the result relative to the
   state s0 at form entry *)
Lemma form_end_closes s0 own0 x s2 :
  Inv s0 own0 x -> ext (fs_st x) s2 -> closes own0 s0 (form_end x s2).
Proof.
  intros I [HE GE]. unfold form_end. rewrite (I_defer _ _ _ I). simpl.
  assert (Hc : forall h, heldb (fs_T x) (fs_fops x) h = true -> closable h = true).
  { intros h Hh. apply (I_held _ _ _ I), held_iff; auto. }
  destruct (close_fops_closes (fs_fops x) (fs_T x) s2 Hc) as [HC GC].
  split.
  - intros h. rewrite HC. destruct (heldb (fs_T x) (fs_fops x) h) eqn:E.
    + apply held_iff in E. destruct (I_held _ _ _ I h E) as [_ [Ho|Ho]]; rewrite Ho; auto.
      destruct (own0 h); reflexivity.
    + rewrite HE. apply (I_free _ _ _ I). intros Hx. apply held_iff in Hx. congruence.
  - rewrite GC, GE. apply (I_gor _ _ _ I).
Qed.
