(* C20 -- proofs about the peach / each / run-parallel transition systems of
   model/C20_Peach.v.  All theorems are invariants proved by induction over the
   step relation: they hold for every input count, bound, callback behaviour
   and EVERY schedule (no exploration, no bound on the run length). *)
From verif Require Import lib.Base model.C20_Peach.
From Coq Require Import Permutation Arith.
Open Scope nat_scope.

(* ------------------------------------------------------------------ *)
(* generic facts: pointwise update, counting, contributions *)

Lemma upd_same {A} (f : nat -> A) i v : upd f i v i = v.
Proof. unfold upd. now rewrite Nat.eqb_refl. Qed.

Lemma upd_other {A} (f : nat -> A) i j v : j <> i -> upd f i v j = f j.
Proof. intros Hn. unfold upd. destruct (Nat.eqb_spec j i); congruence. Qed.

Definition b2n (b : bool) : nat := if b then 1 else 0.

Lemma countf_upd_ge {A} (p : A -> bool) f i v n :
  n <= i -> countf p (upd f i v) n = countf p f n.
Proof.
  induction n as [|m IH]; intros Hle; cbn [countf]; [reflexivity|].
  rewrite IH by lia. rewrite upd_other by lia. reflexivity.
Qed.

Lemma countf_upd {A} (p : A -> bool) f i v n :
  i < n -> countf p (upd f i v) n + b2n (p (f i)) = countf p f n + b2n (p v).
Proof.
  induction n as [|m IH]; intros Hlt; [lia|]. cbn [countf].
  destruct (Nat.eq_dec i m) as [->|Hne].
  - rewrite countf_upd_ge by lia. rewrite upd_same. unfold b2n.
    destruct (p (f m)), (p v); lia.
  - rewrite upd_other by lia. specialize (IH ltac:(lia)). lia.
Qed.

Lemma countf_zero {A} (p : A -> bool) f n :
  countf p f n = 0 -> forall i, i < n -> p (f i) = false.
Proof.
  induction n as [|m IH]; intros Hz i Hi; [lia|]. cbn [countf] in Hz.
  destruct (Nat.eq_dec i m) as [->|Hne].
  - destruct (p (f m)); [lia|reflexivity].
  - apply IH; lia.
Qed.

Lemma countf_pos {A} (p : A -> bool) f n i :
  i < n -> p (f i) = true -> 1 <= countf p f n.
Proof.
  intros Hi Hp. destruct (countf p f n) eqn:E; [|lia].
  rewrite (countf_zero p f n E i Hi) in Hp. discriminate.
Qed.

Lemma countf_mono {A} (p q : A -> bool) f n :
  (forall w, p w = true -> q w = true) -> countf p f n <= countf q f n.
Proof.
  intros Hpq. induction n as [|m IH]; cbn [countf]; [lia|].
  destruct (p (f m)) eqn:E; [rewrite (Hpq _ E)|destruct (q (f m))]; lia.
Qed.

(* sum over the inputs of what each contributed, as a function of its status *)
Definition contrib {S} (g : S -> nat -> list N) (f : nat -> S) (l : list nat) : list N :=
  flat_map (fun j => g (f j) j) l.

Lemma contrib_upd_notin {S} (g : S -> nat -> list N) f i v l :
  ~ In i l -> contrib g (upd f i v) l = contrib g f l.
Proof.
  unfold contrib. induction l as [|a l IH]; intros Hn; cbn [flat_map]; [reflexivity|].
  rewrite upd_other by (intros ->; apply Hn; now left).
  rewrite IH by (intros Hi; apply Hn; now right). reflexivity.
Qed.

Lemma contrib_upd_same {S} (g : S -> nat -> list N) f i v l :
  g v i = g (f i) i -> contrib g (upd f i v) l = contrib g f l.
Proof.
  intros Hg. unfold contrib. apply flat_map_ext. intros j.
  destruct (Nat.eq_dec j i) as [->|Hne]; [now rewrite upd_same|now rewrite upd_other].
Qed.

Lemma contrib_upd_app {S} (g : S -> nat -> list N) f i v xs l :
  NoDup l -> In i l -> g v i = g (f i) i ++ xs ->
  Permutation (contrib g (upd f i v) l) (contrib g f l ++ xs).
Proof.
  intros Hnd Hin Hg. induction l as [|a l IH]; [destruct Hin|].
  inversion Hnd as [|a' l' Hna Hnd']; subst.
  change (contrib g (upd f i v) (a :: l)) with (g (upd f i v a) a ++ contrib g (upd f i v) l).
  change (contrib g f (a :: l)) with (g (f a) a ++ contrib g f l).
  destruct (Nat.eq_dec a i) as [->|Hne].
  - rewrite upd_same, Hg, contrib_upd_notin by assumption.
    rewrite <- !app_assoc. apply Permutation_app_head. apply Permutation_app_comm.
  - rewrite upd_other by assumption. rewrite <- app_assoc. apply Permutation_app_head.
    apply IH; [assumption|]. destruct Hin as [->|Hin]; [congruence|assumption].
Qed.

Lemma flat_map_ext_in' {A B} (f g : A -> list B) l :
  (forall a, In a l -> f a = g a) -> flat_map f l = flat_map g l.
Proof.
  induction l as [|a l IH]; intros H; cbn [flat_map]; [reflexivity|].
  rewrite H by (now left). rewrite IH; [reflexivity|]. intros; apply H; now right.
Qed.

Lemma firstn_succ_nth {A} (l : list A) k v :
  nth_error l k = Some v -> firstn (S k) l = firstn k l ++ [v].
Proof.
  revert k. induction l as [|a l IH]; intros [|k] H; cbn in *; try discriminate.
  - now inversion H.
  - now rewrite (IH _ H).
Qed.

Lemma firstn_none_all {A} (l : list A) k : nth_error l k = None -> firstn k l = l.
Proof. intros H. apply firstn_all2. now apply nth_error_None. Qed.

Ltac bool_hyps :=
  repeat match goal with
  | H : (_ <? _) = true |- _ => apply Nat.ltb_lt in H
  | H : (_ <? _) = false |- _ => apply Nat.ltb_ge in H
  | H : (_ <=? _) = true |- _ => apply Nat.leb_le in H
  | H : (_ <=? _) = false |- _ => apply Nat.leb_gt in H
  | H : (_ =? _) = true |- _ => apply Nat.eqb_eq in H
  | H : (_ =? _) = false |- _ => apply Nat.eqb_neq in H
  end.

(* case analysis of one step *)
Ltac step_inv H :=
  unfold step, step_disp, step_work in H;
  repeat match type of H with
  | context [match ?x with _ => _ end] => destruct x eqn:?
  end; try discriminate; inversion H; subst; clear H; bool_hyps.

Ltac case_upd :=
  match goal with |- context [?a =? ?b] => destruct (Nat.eqb_spec a b) end.

(* pose the counting equation for every updated count in the goal *)
Ltac cnt :=
  repeat match goal with
  | |- context [countf ?p (upd ?f ?i ?v) ?n] =>
      lazymatch goal with
      | _ : countf p (upd f i v) n + _ = _ |- _ => fail
      | _ => pose proof (countf_upd p f i v n ltac:(lia))
      end
  end.

(* ------------------------------------------------------------------ *)
Section Peach.
Context (c : config) (cb : callback) (n : nat).

Inductive reach : state -> Prop :=
| reach_init : reach init
| reach_step s l s' : reach s -> step c cb n s l = Some s' -> reach s'.

Definition idx (p : dpc) : nat :=
  match p with DCheck i | DAcq i | DRecheck i | DSpawn i => i | DWait | DDone => n end.
Definition pc_ok (p : dpc) : Prop :=
  match p with DCheck i => i <= n | DAcq i | DRecheck i | DSpawn i => i < n | _ => True end.
Definition tok (p : dpc) : nat :=
  match p with DRecheck _ | DSpawn _ => 1 | _ => 0 end.

(* I1: inputs from the dispatcher's position on are untouched, those before are not *)
Definition inv_shape (s : state) : Prop :=
  pc_ok (pc s)
  /\ (forall k, idx (pc s) <= k -> st s k = Pending)
  /\ (forall k, k < idx (pc s) -> st s k <> Pending).

Lemma shape_lt s i : inv_shape s -> st s i <> Pending -> i < idx (pc s).
Proof.
  intros (_ & Hp & _) Hne. destruct (Nat.lt_ge_cases i (idx (pc s))) as [|Hge]; [assumption|].
  exfalso. apply Hne. now apply Hp.
Qed.

Lemma shape_step s l s' : inv_shape s -> step c cb n s l = Some s' -> inv_shape s'.
Proof.
  intros Hsh H. pose proof (shape_lt s) as Hlt. destruct Hsh as (Hpc & Hp & Hnp).
  step_inv H; cbn in *;
  try match goal with E : st s ?i = _ |- _ =>
        assert (i < idx (pc s)) by (apply Hlt; [repeat split; assumption|congruence])
      end;
  repeat match goal with E : pc s = _ |- _ => rewrite E in * end; cbn in *;
  (refine (conj _ (conj _ _));
   [ cbn; try assumption; try lia; try exact I
   | intros kk Hk; cbn in Hk |- *; unfold upd;
     try (case_upd; [subst; try lia; try reflexivity|]); try (apply Hp; lia)
   | intros kk Hk; cbn in Hk |- *; unfold upd;
     try (case_upd; [subst; try lia; try discriminate|]); try (apply Hnp; lia) ]).
Qed.

(* I2: the callback was entered once for started inputs, never for the others *)
Definition inv_calls (s : state) : Prop :=
  forall k, calls s k = if started (st s k) then 1 else 0.

Lemma calls_step s l s' :
  inv_shape s -> inv_calls s -> step c cb n s l = Some s' -> inv_calls s'.
Proof.
  intros (Hpc & Hp & Hnp) Hc H.
  step_inv H;
  repeat match goal with E : pc s = _ |- _ => rewrite E in * end; cbn in Hpc, Hp, Hnp;
  intros kk; cbn; unfold upd; try case_upd; subst; try apply Hc;
  rewrite Hc;
  (first [ match goal with E : st s _ = _ |- _ => rewrite E end | rewrite Hp by lia ]); reflexivity.
Qed.

(* I3: the WaitGroup counter counts the workers that have not called Done *)
Definition inv_wg (s : state) : Prop :=
  wg s = countf pre_done (st s) n /\ (pc s = DDone -> wg s = 0).

Ltac fix_st Hp :=
  repeat match goal with
  | E : st ?s ?i = _, Hc : context [st ?s ?i] |- _ => rewrite E in Hc
  | Hc : context [st ?s ?i] |- _ => rewrite (Hp i) in Hc by lia
  end.

Lemma wg_step s l s' :
  inv_shape s -> inv_wg s -> step c cb n s l = Some s' -> inv_wg s'.
Proof.
  intros (Hpc & Hp & Hnp) (Hw & Hd) H.
  step_inv H;
  repeat match goal with E : pc s = _ |- _ => rewrite E in * end; cbn in Hpc, Hp, Hnp;
  (split; cbn;
   [ cnt; fix_st Hp; cbn in *; try lia
   | intros Hd'; try discriminate; try lia; try (specialize (Hd Hd'); lia) ]).
Qed.

(* I4: the semaphore counts the workers that have not called Release, plus the
   token the dispatcher holds between Acquire and go; needs the Acquire error
   to be honoured or no cancellation *)
Definition sema_ok (s : state) : Prop := fix_acqerr c = true \/ cancelled s = false.

Definition inv_held (s : state) : Prop :=
  sema_ok s ->
  panicked s = false
  /\ forall b, bound c = Some b ->
       held s = countf holder (st s) n + tok (pc s) /\ held s <= b.

Lemma held_step s l s' :
  inv_shape s -> inv_wg s -> inv_held s -> step c cb n s l = Some s' -> inv_held s'.
Proof.
  intros (Hpc & Hp & Hnp) (Hw & _) Hh H Hok'.
  assert (Hok : sema_ok s).
  { unfold sema_ok in *. unfold step in H. destruct (panicked s); [discriminate|].
    destruct l; [| |destruct (cancelled s) eqn:Ec; [discriminate|now right]];
    (destruct Hok' as [Hf|Hc']; [now left|right]);
    [unfold step_disp in H|unfold step_work in H];
    repeat match type of H with
    | context [match ?x with _ => _ end] => destruct x eqn:?
    end; try discriminate; inversion H; subst; cbn in *; try assumption; try congruence. }
  destruct (Hh Hok) as (Hnpan & Hb). clear Hh.
  step_inv H;
  repeat match goal with E : pc s = _ |- _ => rewrite E in * end; cbn in Hpc, Hp, Hnp;
  (* an ignored Acquire error is excluded by sema_ok *)
  try (exfalso; destruct Hok' as [Hf|Hc']; cbn in *; congruence);
  (* the panic cases: the counters cannot be zero *)
  try (match goal with E : st s ?i = Posted, Z : wg s = 0 |- _ =>
         exfalso; pose proof (countf_pos pre_done (st s) n i ltac:(lia) ltac:(now rewrite E)); lia end);
  try (match goal with E : st s ?i = DoneWG, Z : held s = 0, B : bound c = Some ?b |- _ =>
         exfalso; pose proof (countf_pos holder (st s) n i ltac:(lia) ltac:(now rewrite E));
         destruct (Hb _ eq_refl); cbn in *; lia end);
  (split; [cbn; try first [assumption|reflexivity]|]);
  try (intros b' Hb'; try discriminate;
  destruct (Hb b' Hb') as (He & Hle); cbn in He |- *;
  try (inversion Hb'; subst);
  cnt; fix_st Hp; cbn in *; lia).
Qed.

(* I5 / I6: the shared output and the error list are the contributions of the inputs *)
Definition inv_out (s : state) : Prop :=
  Permutation (out s) (contrib (emitted cb) (st s) (seq 0 n)).
Definition inv_errs (s : state) : Prop :=
  Permutation (errs s) (contrib (reported cb) (st s) (seq 0 n)).

Lemma in_seq0 i : i < n -> In i (seq 0 n).
Proof. intros. apply in_seq. lia. Qed.

Ltac unset :=
  cbn [out errs st set_pc set_st set_held set_wg set_broken set_errs set_out set_calls
       set_cancelled set_panicked].

Lemma out_step s l s' :
  inv_shape s -> inv_out s -> step c cb n s l = Some s' -> inv_out s'.
Proof.
  intros (Hpc & Hp & Hnp) Ho H. unfold inv_out in *.
  step_inv H;
  repeat match goal with E : pc s = _ |- _ => rewrite E in * end; cbn in Hpc, Hp, Hnp;
  unset; try assumption;
  first
  [ (* the status changed, the contribution did not *)
    rewrite contrib_upd_same; [assumption|];
    first [ match goal with E : st s _ = _ |- _ => rewrite E end | rewrite Hp by lia ];
    cbn [emitted]; first [reflexivity | symmetry; apply firstn_none_all; assumption]
  | (* one more output *)
    match goal with E : st s ?i = Running ?k, Hn : nth_error _ ?k = Some ?v |- _ =>
      symmetry; eapply perm_trans;
      [ apply (contrib_upd_app (emitted cb) (st s) i (Running (S k)) [v] (seq 0 n));
        [ apply seq_NoDup | apply in_seq0; lia
        | rewrite E; cbn [emitted]; apply firstn_succ_nth; assumption ]
      | apply Permutation_app_tail; symmetry; exact Ho ]
    end ].
Qed.

Lemma errs_step s l s' :
  inv_shape s -> inv_errs s -> step c cb n s l = Some s' -> inv_errs s'.
Proof.
  intros (Hpc & Hp & Hnp) Ho H. unfold inv_errs in *.
  step_inv H;
  repeat match goal with E : pc s = _ |- _ => rewrite E in * end; cbn in Hpc, Hp, Hnp;
  unset; try assumption;
  first
  [ rewrite contrib_upd_same; [assumption|];
    first [ match goal with E : st s _ = _ |- _ => rewrite E end | rewrite Hp by lia ];
    reflexivity
  | (* the callback returned *)
    match goal with E : st s ?i = Running ?k |- _ =>
      symmetry; eapply perm_trans;
      [ apply (contrib_upd_app (reported cb) (st s) i Posted (fail_of (cb_kind (cb i))) (seq 0 n));
        [ apply seq_NoDup | apply in_seq0; lia | rewrite E; reflexivity ]
      | apply Permutation_app_tail; symmetry; exact Ho ]
    end ].
Qed.

(* I7: broken is set only by a callback that breaks or fails (or, in the
   repaired dispatcher, by a cancelled Acquire); inputs are skipped only then *)
Definition inv_broken (s : state) : Prop :=
  (forall k, st s k = Skipped -> broken s = true)
  /\ (broken s = true ->
      (exists j, j < n /\ is_breaker (cb_kind (cb j)) = true) \/ cancelled s = true).

Lemma broken_step s l s' :
  inv_broken s -> step c cb n s l = Some s' -> inv_broken s'.
Proof.
  intros (Hs & Hb) H.
  step_inv H;
  (split;
   [ intros kk; cbn; unfold upd; try case_upd; intros Hk; try discriminate; try reflexivity;
     try assumption; try (rewrite (Hs kk Hk); reflexivity); try (apply Hs; assumption); try (specialize (Hs _ Hk); congruence)
   | cbn; intros Hbr; try congruence;
     try first [ exact (Hb Hbr) | destruct (Hb Hbr) as [Hx|Hx]; [left; exact Hx | discriminate] | apply Hb; first [assumption|reflexivity] | right; reflexivity | right; assumption
           | apply orb_true_iff in Hbr as [Hbr|Hbr];
             [ exact (Hb Hbr) | left; eexists; split; [|eassumption]; lia ] ] ]).
Qed.

(* ---- all invariants together ---- *)
Definition inv (s : state) : Prop :=
  inv_shape s /\ inv_calls s /\ inv_wg s /\ inv_held s /\ inv_out s /\ inv_errs s /\ inv_broken s.

Lemma countf_const {A} (p : A -> bool) v m : p v = false -> countf p (fun _ => v) m = 0.
Proof. intros Hv. induction m as [|m IH]; cbn [countf]; [reflexivity|]. rewrite IH, Hv. reflexivity. Qed.

Lemma contrib_const_nil {S} (g : S -> nat -> list N) v l :
  (forall j, g v j = []) -> contrib g (fun _ => v) l = [].
Proof.
  intros Hg. unfold contrib. induction l as [|a l IH]; cbn [flat_map]; [reflexivity|].
  now rewrite Hg, IH.
Qed.

Lemma inv_init : inv init.
Proof.
  unfold inv. repeat apply conj.
  - cbn. lia.
  - reflexivity.
  - cbn. intros k Hk. lia.
  - intros k. reflexivity.
  - cbn. now rewrite countf_const.
  - discriminate.
  - intros _. split; [reflexivity|]. intros b _. cbn. rewrite countf_const by reflexivity. lia.
  - unfold inv_out. cbn. rewrite contrib_const_nil by reflexivity. constructor.
  - unfold inv_errs. cbn. rewrite contrib_const_nil by reflexivity. constructor.
  - discriminate.
  - discriminate.
Qed.

Lemma inv_reach s : reach s -> inv s.
Proof.
  induction 1 as [|s l s' _ IH H]; [apply inv_init|].
  destruct IH as (H1 & H2 & H3 & H4 & H5 & H6 & H7).
  refine (conj _ (conj _ (conj _ (conj _ (conj _ (conj _ _)))))).
  - eapply shape_step; eassumption.
  - eapply calls_step; eassumption.
  - eapply wg_step; eassumption.
  - eapply held_step; eassumption.
  - eapply out_step; eassumption.
  - eapply errs_step; eassumption.
  - eapply broken_step; eassumption.
Qed.

(* ---- what holds when peach has returned ---- *)
Lemma done_finished s : inv s -> pc s = DDone -> forall i, i < n -> finished (st s i) = true.
Proof.
  intros ((_ & _ & Hnp) & _ & (Hw & Hd) & _) Hpc i Hi.
  rewrite Hpc in Hnp. cbn in Hnp. specialize (Hnp i Hi).
  rewrite (Hd Hpc) in Hw. symmetry in Hw.
  pose proof (countf_zero _ _ _ Hw i Hi) as Hz.
  destruct (st s i); cbn in *; congruence.
Qed.

(* ---- the theorems ---- *)
Theorem at_most_once_per_input s : reach s -> forall i, calls s i <= 1.
Proof.
  intros Hr i. destruct (inv_reach s Hr) as (_ & Hc & _). rewrite Hc.
  destruct (started (st s i)); lia.
Qed.

Theorem returns_after_all_done s :
  reach s -> pc s = DDone -> forall i, i < n -> finished (st s i) = true.
Proof. intros Hr. apply done_finished. now apply inv_reach. Qed.

Theorem returns_after_all_done_running s :
  reach s -> pc s = DDone -> running n s = 0.
Proof.
  intros Hr Hpc. pose proof (returns_after_all_done s Hr Hpc) as Hf.
  unfold running. clear Hr Hpc. induction n as [|m IH]; cbn [countf]; [reflexivity|].
  rewrite IH by (intros; apply Hf; lia).
  specialize (Hf m ltac:(lia)). destruct (st s m); cbn in *; congruence.
Qed.

Theorem exactly_once_if_no_break_fail s :
  reach s -> cancelled s = false -> pc s = DDone ->
  (forall i, i < n -> is_breaker (cb_kind (cb i)) = false) ->
  forall i, i < n -> calls s i = 1.
Proof.
  intros Hr Hnc Hpc Hnb i Hi. pose proof (inv_reach s Hr) as Hinv.
  pose proof (done_finished s Hinv Hpc i Hi) as Hf.
  destruct Hinv as (_ & Hc & _ & _ & _ & _ & (Hsk & Hbr)).
  rewrite Hc. destruct (st s i) eqn:E; cbn in *; try discriminate; try reflexivity.
  destruct (Hbr (Hsk i E)) as [(j & Hj & Hjb)|Hcan]; [|congruence].
  rewrite Hnb in Hjb by assumption. discriminate.
Qed.

Theorem bound_respected s b :
  reach s -> sema_ok s -> bound c = Some b -> running n s <= b.
Proof.
  intros Hr Hok Hb. destruct (inv_reach s Hr) as (_ & _ & _ & Hh & _).
  destruct (Hh Hok) as (_ & Hh'). destruct (Hh' b Hb) as (He & Hle).
  unfold running. pose proof (countf_mono is_running holder (st s) n) as Hm.
  assert (countf is_running (st s) n <= countf holder (st s) n).
  { apply Hm. intros w. destruct w; cbn; congruence. }
  lia.
Qed.

Theorem no_panic s : reach s -> sema_ok s -> panicked s = false.
Proof.
  intros Hr Hok. destruct (inv_reach s Hr) as (_ & _ & _ & Hh & _). now destruct (Hh Hok).
Qed.

Definition outs_if_called (s : state) (i : nat) : list N :=
  if calls s i =? 0 then [] else cb_outs (cb i).
Definition fails_if_called (s : state) (i : nat) : list N :=
  if calls s i =? 0 then [] else fail_of (cb_kind (cb i)).

Theorem outputs_are_union s :
  reach s -> pc s = DDone -> Permutation (out s) (flat_map (outs_if_called s) (seq 0 n)).
Proof.
  intros Hr Hpc. pose proof (inv_reach s Hr) as Hinv.
  pose proof (done_finished s Hinv Hpc) as Hf.
  destruct Hinv as (_ & Hc & _ & _ & Ho & _). unfold inv_out, contrib in Ho.
  rewrite Ho. erewrite flat_map_ext_in'; [reflexivity|].
  intros i Hi. apply in_seq in Hi. specialize (Hf i ltac:(lia)).
  unfold outs_if_called. rewrite Hc. destruct (st s i); cbn in *; congruence.
Qed.

Theorem all_errors_reported s :
  reach s -> pc s = DDone -> Permutation (errs s) (flat_map (fails_if_called s) (seq 0 n)).
Proof.
  intros Hr Hpc. pose proof (inv_reach s Hr) as Hinv.
  pose proof (done_finished s Hinv Hpc) as Hf.
  destruct Hinv as (_ & Hc & _ & _ & _ & He & _). unfold inv_errs, contrib in He.
  rewrite He. erewrite flat_map_ext_in'; [reflexivity|].
  intros i Hi. apply in_seq in Hi. specialize (Hf i ltac:(lia)).
  unfold fails_if_called, reported. rewrite Hc. destruct (st s i); cbn in *; congruence.
Qed.

(* the started inputs are a prefix: a skipped input is never followed by a started one *)
End Peach.

(* ------------------------------------------------------------------ *)
(* schedules as witnesses *)
Lemma exec_reach c cb n ls : forall s s', reach c cb n s -> exec c cb n s ls = Some s' -> reach c cb n s'.
Proof.
  induction ls as [|l ls IH]; intros s s' Hr He; cbn in He.
  - now inversion He; subst.
  - destruct (step c cb n s l) as [s1|] eqn:E; [|discriminate].
    eapply IH; [|eassumption]. eapply reach_step; eassumption.
Qed.

(* "peach with one worker behaves exactly like each": the statement, for a
   dispatcher configuration *)
Definition peach1_equiv_each_stmt (c : config) : Prop :=
  forall cb n s, reach c cb n s -> pc s = DDone -> cancelled s = false ->
    (forall i, calls s i = each_calls cb n i)
    /\ out s = e_out (each_pre cb n) /\ errs s = e_errs (each_pre cb n).

(* cancellation: the Acquire error is honoured, so the bound and the semaphore
   invariant hold under cancellation too, for every schedule *)
Theorem peach_bound_under_cancel b cb n s k :
  reach (faithful b) cb n s -> b = Some k -> running n s <= k.
Proof. intros Hr ->. eapply bound_respected; [exact Hr|now left|reflexivity]. Qed.

Theorem sema_never_negative b cb n s :
  reach (faithful b) cb n s -> panicked s = false.
Proof. intros Hr. eapply no_panic; [exact Hr|now left]. Qed.
