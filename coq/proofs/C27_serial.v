(* C27 -- proofs, part 2: serialized schedules (a shell starts Activate, or closes
   its client, only from a quiescent state), no outdated daemon.  An inductive
   invariant over the guarded step relation; no bound on the number of shells,
   daemons or steps. *)
From verif Require Import lib.Base model.C27 proofs.C27_proofs.
From Coq Require Import Arith.
Open Scope nat_scope.

Definition nokill (p : spc) : bool := match p with SKill _ | SKillWait => false | _ => true end.

(* what must hold around daemon d, by program counter *)
Definition dinv (st : state) (d : nat) (x : daemon) : Prop :=
  match d_pc x with
  | DStart => d_db x = false
  | DOpenDB => d_db x = false /\ sock st = SkOwned d
  | DServe => d_db x = true /\ sock st = SkOwned d /\ lock st = Some d
  | DExit1 => d_db x = true /\ sock st = SkOwned d /\ lock st = Some d /\ forallb shell_idle (ss st) = true
  | DExit2 => d_db x = true /\ sock st = SkNone /\ lock st = Some d /\ forallb shell_idle (ss st) = true
  | DExit3 => d_db x = false /\ sock st = SkNone /\ forallb shell_idle (ss st) = true
  | DDead => d_db x = false
  end.

Record INV (st : state) : Prop := mkINV {
  i_old : forall d x, nth_error (ds st) d = Some x -> d_old x = false;
  i_conn : forall s d, nth_error (ss st) s = Some (SConn d) ->
           exists x, nth_error (ds st) d = Some x /\ d_pc x = DServe;
  i_nokill : forall s p, nth_error (ss st) s = Some p -> nokill p = true;
  i_act : forall s1 s2 p1 p2, nth_error (ss st) s1 = Some p1 -> nth_error (ss st) s2 = Some p2 ->
          shell_idle p1 = false -> shell_idle p2 = false -> s1 = s2;
  i_uniq : forall d1 d2 x1 x2, nth_error (ds st) d1 = Some x1 -> nth_error (ds st) d2 = Some x2 ->
           d_pc x1 <> DDead -> d_pc x2 <> DDead -> d1 = d2;
  i_pre : forall s p, nth_error (ss st) s = Some p -> (p = SLstat \/ p = SDial) ->
          forall d x, nth_error (ds st) d = Some x -> daemon_quiet x = true;
  i_rs : forall s p, nth_error (ss st) s = Some p -> (p = SRemove \/ p = SSpawn) ->
         forall d x, nth_error (ds st) d = Some x -> d_pc x = DDead;
  i_d : forall d x, nth_error (ds st) d = Some x -> dinv st d x;
  i_lock : forall d, lock st = Some d -> exists x, nth_error (ds st) d = Some x /\ d_db x = true;
  i_sock : forall d, sock st = SkOwned d ->
           exists x, nth_error (ds st) d = Some x /\ (d_pc x = DOpenDB \/ d_pc x = DServe \/ d_pc x = DExit1) }.

(* ---- consequences used over and over ---- *)

Lemma db_active st d x : dinv st d x -> d_db x = true -> d_pc x <> DDead.
Proof. unfold dinv. destruct (d_pc x); intros H E; try discriminate; try congruence; destruct H; congruence. Qed.

Lemma others_dead st d x : INV st -> nth_error (ds st) d = Some x -> d_pc x <> DDead ->
  forall e y, nth_error (ds st) e = Some y -> e <> d -> d_pc y = DDead.
Proof.
  intros H N A e y Ne NE. destruct (d_pc y) eqn:P; try reflexivity; exfalso; apply NE;
    eapply (i_uniq st H e d y x); try eassumption; congruence.
Qed.

Lemma dead_dinv st st' d y : dinv st d y -> d_pc y = DDead -> dinv st' d y.
Proof. unfold dinv. intros H P. rewrite P in *. assumption. Qed.

Lemma lock_is st d x e : INV st -> nth_error (ds st) d = Some x -> d_pc x <> DDead ->
  lock st = Some e -> e = d /\ d_db x = true.
Proof.
  intros H N A L. destruct (i_lock st H e L) as (y & Ne & B).
  pose proof (db_active st e y (i_d st H e y Ne) B) as Ay.
  assert (E : e = d) by (eapply (i_uniq st H e d y x); eassumption).
  subst e. split; [reflexivity|congruence].
Qed.

Lemma sock_is st d x e : INV st -> nth_error (ds st) d = Some x -> d_pc x <> DDead ->
  sock st = SkOwned e -> e = d /\ (d_pc x = DOpenDB \/ d_pc x = DServe \/ d_pc x = DExit1).
Proof.
  intros H N A S. destruct (i_sock st H e S) as (y & Ne & B).
  assert (Ay : d_pc y <> DDead) by (destruct B as [B|[B|B]]; congruence).
  assert (E : e = d) by (eapply (i_uniq st H e d y x); eassumption).
  subst e. split; [reflexivity|congruence].
Qed.

Lemma no_rs st d x : INV st -> nth_error (ds st) d = Some x -> d_pc x <> DDead ->
  forall s p, nth_error (ss st) s = Some p -> p <> SRemove /\ p <> SSpawn.
Proof.
  intros H N A s p Np. split; intros ->; apply A; eapply (i_rs st H s); eauto.
Qed.

Lemma no_pre st d x : INV st -> nth_error (ds st) d = Some x -> daemon_quiet x = false ->
  forall s p, nth_error (ss st) s = Some p -> p <> SLstat /\ p <> SDial.
Proof.
  intros H N A s p Np.
  split; intros ->; [pose proof (i_pre st H s SLstat Np (or_introl eq_refl) d x N)
                    |pose proof (i_pre st H s SDial Np (or_intror eq_refl) d x N)]; congruence.
Qed.

Lemma idle_no_pre l : forallb shell_idle l = true ->
  forall s p, nth_error l s = Some p -> p <> SLstat /\ p <> SDial.
Proof. intros F s p N. pose proof (forallb_nth _ _ _ _ F N) as I. split; intros ->; discriminate. Qed.

(* ---- generic preservation lemmas ---- *)

(* only daemon d (alive before) changes, together with sock and lock *)
Lemma inv_dstep st d x x' k l :
  INV st -> nth_error (ds st) d = Some x -> d_pc x <> DDead ->
  d_old x' = false ->
  dinv (mkSt k l (upd d x' (ds st)) (ss st)) d x' ->
  (d_pc x' = DServe \/ forall s, nth_error (ss st) s <> Some (SConn d)) ->
  (daemon_quiet x' = true \/ forall s p, nth_error (ss st) s = Some p -> p <> SLstat /\ p <> SDial) ->
  (forall e, l = Some e -> e = d /\ d_db x' = true) ->
  (forall e, k = SkOwned e -> e = d /\ (d_pc x' = DOpenDB \/ d_pc x' = DServe \/ d_pc x' = DExit1)) ->
  INV (mkSt k l (upd d x' (ds st)) (ss st)).
Proof.
  intros H N A O D C Q L K. constructor; cbn [ds ss sock lock].
  - intros e y Ne. apply nth_upd_inv in Ne as [(_ & -> & _)|(_ & Ne)]; [assumption|eapply i_old; eassumption].
  - intros s e Cn. destruct (i_conn st H s e Cn) as (y & Ne & P).
    destruct (Nat.eq_dec d e) as [->|NE].
    + destruct C as [C|C]; [|exfalso; exact (C s Cn)].
      exists x'. split; [eapply nth_upd_same; eassumption|assumption].
    + exists y. split; [|assumption]. rewrite nth_upd. destruct (Nat.eqb_spec d e); [contradiction|assumption].
  - exact (i_nokill st H).
  - exact (i_act st H).
  - intros d1 d2 x1 x2 N1 N2 A1 A2.
    apply nth_upd_inv in N1 as [(E1 & -> & _)|(E1 & N1)]; apply nth_upd_inv in N2 as [(E2 & -> & _)|(E2 & N2)].
    + congruence.
    + exfalso. apply A2. exact (others_dead st d x H N A d2 x2 N2 (fun E => E2 (eq_sym E))).
    + exfalso. apply A1. exact (others_dead st d x H N A d1 x1 N1 (fun E => E1 (eq_sym E))).
    + eapply (i_uniq st H); eassumption.
  - intros s p Np Hp e y Ne. apply nth_upd_inv in Ne as [(_ & -> & _)|(_ & Ne)].
    + destruct Q as [Q|Q]; [assumption|]. destruct (Q s p Np) as [Q1 Q2]. destruct Hp; contradiction.
    + eapply (i_pre st H); eassumption.
  - intros s p Np Hp. exfalso. destruct (no_rs st d x H N A s p Np) as [R1 R2]. destruct Hp; contradiction.
  - intros e y Ne. apply nth_upd_inv in Ne as [(<- & -> & _)|(NE & Ne)]; [assumption|].
    eapply dead_dinv; [eapply (i_d st H); eassumption|].
    exact (others_dead st d x H N A e y Ne (fun E => NE (eq_sym E))).
  - intros e E. destruct (L e E) as [-> B]. exists x'. split; [eapply nth_upd_same; eassumption|assumption].
  - intros e E. destruct (K e E) as [-> B]. exists x'. split; [eapply nth_upd_same; eassumption|assumption].
Qed.

(* only shell s changes *)
Lemma inv_sets st s p p' :
  INV st -> nth_error (ss st) s = Some p ->
  nokill p' = true ->
  (shell_idle p = false \/ shell_idle p' = true \/ quiescent st = true) ->
  (forall d, p' = SConn d -> exists x, nth_error (ds st) d = Some x /\ d_pc x = DServe) ->
  ((p' = SLstat \/ p' = SDial) -> forall d x, nth_error (ds st) d = Some x -> daemon_quiet x = true) ->
  ((p' = SRemove \/ p' = SSpawn) -> forall d x, nth_error (ds st) d = Some x -> d_pc x = DDead) ->
  INV (sets st s p').
Proof.
  intros H N K A C P R. constructor; cbn [sets ds ss sock lock].
  - exact (i_old st H).
  - intros s0 e Cn. apply nth_upd_inv in Cn as [(_ & E & _)|(_ & Cn)]; [apply C; congruence|eapply i_conn; eassumption].
  - intros s0 p0 N0. apply nth_upd_inv in N0 as [(_ & -> & _)|(_ & N0)]; [assumption|eapply i_nokill; eassumption].
  - intros s1 s2 p1 p2 N1 N2 A1 A2.
    assert (X : forall s0 p0, s <> s0 -> nth_error (ss st) s0 = Some p0 -> shell_idle p0 = false ->
                shell_idle p' = false -> False).
    { intros s0 p0 NE N0 A0 A'. destruct A as [A|[A|A]]; [|congruence|].
      - apply NE. eapply (i_act st H s s0); eassumption.
      - unfold quiescent in A. apply andb_true_iff in A as [A _].
        pose proof (forallb_nth _ _ _ _ A N0). congruence. }
    apply nth_upd_inv in N1 as [(E1 & -> & _)|(E1 & N1)]; apply nth_upd_inv in N2 as [(E2 & -> & _)|(E2 & N2)].
    + congruence.
    + exfalso; eapply X; eassumption.
    + exfalso; eapply X; eassumption.
    + eapply (i_act st H); eassumption.
  - exact (i_uniq st H).
  - intros s0 p0 N0 Hp. apply nth_upd_inv in N0 as [(_ & -> & _)|(_ & N0)]; [exact (P Hp)|exact (i_pre st H s0 p0 N0 Hp)].
  - intros s0 p0 N0 Hp. apply nth_upd_inv in N0 as [(_ & -> & _)|(_ & N0)]; [exact (R Hp)|exact (i_rs st H s0 p0 N0 Hp)].
  - intros d x Nd. pose proof (i_d st H d x Nd) as D. unfold dinv in *. cbn [sock lock ss].
    assert (F : forallb shell_idle (ss st) = true -> daemon_quiet x = false ->
                forallb shell_idle (upd s p' (ss st)) = true).
    { intros F Qx. destruct A as [A|[A|A]].
      - pose proof (forallb_nth _ _ _ _ F N). congruence.
      - apply forallb_upd; assumption.
      - unfold quiescent in A. apply andb_true_iff in A as [_ A].
        pose proof (forallb_nth _ _ _ _ A Nd). congruence. }
    unfold daemon_quiet in F.
    destruct (d_pc x); try assumption.
    + destruct D as (D1 & D2 & D3 & D4). repeat split; auto.
    + destruct D as (D1 & D2 & D3 & D4). repeat split; auto.
    + destruct D as (D1 & D2 & D3). repeat split; auto.
  - exact (i_lock st H).
  - exact (i_sock st H).
Qed.

Lemma drop1_idle d p : nokill p = true -> shell_idle (drop1 d p) = shell_idle p.
Proof. destruct p; cbn; try reflexivity; try discriminate. destruct (Nat.eqb d d0); reflexivity. Qed.

Lemma drop1_same d p q : drop1 d p = q -> (q = SLstat \/ q = SDial \/ q = SRemove \/ q = SSpawn) -> p = q.
Proof.
  intros E Hq. destruct p; cbn in E; try exact E;
    destruct (Nat.eqb d d0); subst q; destruct Hq as [Hq|[Hq|[Hq|Hq]]]; discriminate.
Qed.

(* the connections of daemon d are dropped *)
Lemma inv_drop st d : INV st -> INV (mkSt (sock st) (lock st) (ds st) (drop d (ss st))).
Proof.
  intros H. constructor; cbn [ds ss sock lock]; unfold drop.
  - exact (i_old st H).
  - intros s e C. apply nth_map_inv in C as (y & N & E). symmetry in E. apply drop1_conn in E as [-> _].
    eapply i_conn; eassumption.
  - intros s p N. apply nth_map_inv in N as (y & N & ->). pose proof (i_nokill st H s y N).
    destruct y; cbn in *; try reflexivity; try discriminate. destruct (Nat.eqb d d0); reflexivity.
  - intros s1 s2 p1 p2 N1 N2 A1 A2.
    apply nth_map_inv in N1 as (y1 & N1 & ->). apply nth_map_inv in N2 as (y2 & N2 & ->).
    rewrite drop1_idle in A1 by (eapply i_nokill; eassumption).
    rewrite drop1_idle in A2 by (eapply i_nokill; eassumption).
    eapply (i_act st H); eassumption.
  - exact (i_uniq st H).
  - intros s p N Hp. apply nth_map_inv in N as (y & N & E). symmetry in E.
    apply drop1_same in E; [|tauto]. subst y. eapply i_pre; eassumption.
  - intros s p N Hp. apply nth_map_inv in N as (y & N & E). symmetry in E.
    apply drop1_same in E; [|tauto]. subst y. eapply i_rs; eassumption.
  - intros e x N. pose proof (i_d st H e x N) as D. unfold dinv in *. cbn [sock lock ss].
    assert (F : forallb shell_idle (ss st) = true -> forallb shell_idle (map (drop1 d) (ss st)) = true).
    { intros F. apply nth_forallb. intros i z Nz. apply nth_map_inv in Nz as (y & Ny & ->).
      rewrite drop1_idle by (eapply i_nokill; eassumption). eapply forallb_nth; eassumption. }
    destruct (d_pc x); try assumption.
    + destruct D as (D1 & D2 & D3 & D4). repeat split; auto.
    + destruct D as (D1 & D2 & D3 & D4). repeat split; auto.
    + destruct D as (D1 & D2 & D3). repeat split; auto.
  - exact (i_lock st H).
  - exact (i_sock st H).
Qed.

(* the path is removed while no daemon is alive *)
Lemma inv_unlink_dead st :
  INV st -> (forall d x, nth_error (ds st) d = Some x -> d_pc x = DDead) ->
  INV (mkSt SkNone (lock st) (ds st) (ss st)).
Proof.
  intros H Dd. constructor; cbn [ds ss sock lock].
  - exact (i_old st H).
  - exact (i_conn st H).
  - exact (i_nokill st H).
  - exact (i_act st H).
  - exact (i_uniq st H).
  - exact (i_pre st H).
  - exact (i_rs st H).
  - intros d x N. eapply dead_dinv; [eapply (i_d st H); eassumption|eauto].
  - exact (i_lock st H).
  - discriminate.
Qed.

(* a new daemon process appears while no daemon is alive and no shell is before its spawn *)
Lemma inv_app st :
  INV st -> (forall d x, nth_error (ds st) d = Some x -> d_pc x = DDead) ->
  (forall s p, nth_error (ss st) s = Some p ->
     p <> SLstat /\ p <> SDial /\ p <> SRemove /\ p <> SSpawn) ->
  INV (mkSt (sock st) (lock st) (ds st ++ [mkD DStart false false]) (ss st)).
Proof.
  intros H Dd Np. constructor; cbn [ds ss sock lock].
  - intros d x N. apply nth_app_one in N as [N|[_ ->]]; [eapply i_old; eassumption|reflexivity].
  - intros s e C. destruct (i_conn st H s e C) as (y & N & P). exists y. split; [apply nth_app_old|]; assumption.
  - exact (i_nokill st H).
  - exact (i_act st H).
  - intros d1 d2 x1 x2 N1 N2 A1 A2.
    apply nth_app_one in N1 as [N1|[E1 _]]; [exfalso; apply A1; eauto|].
    apply nth_app_one in N2 as [N2|[E2 _]]; [exfalso; apply A2; eauto|]. congruence.
  - intros s p N Hp. exfalso. destruct (Np s p N) as (P1 & P2 & _). destruct Hp; contradiction.
  - intros s p N Hp. exfalso. destruct (Np s p N) as (_ & _ & P3 & P4). destruct Hp; contradiction.
  - intros d x N. apply nth_app_one in N as [N|[_ ->]].
    + eapply dead_dinv; [eapply (i_d st H); eassumption|eauto].
    + reflexivity.
  - intros d L. destruct (i_lock st H d L) as (y & N & B). exists y. split; [apply nth_app_old|]; assumption.
  - intros d S. destruct (i_sock st H d S) as (y & N & B). exists y. split; [apply nth_app_old|]; assumption.
Qed.

(* ---- one guarded step ---- *)

Lemma dial_refused_dead st : INV st -> dial st = DRRefused ->
  (exists s p, nth_error (ss st) s = Some p /\ (p = SLstat \/ p = SDial)) ->
  forall d x, nth_error (ds st) d = Some x -> d_pc x = DDead.
Proof.
  intros H D (s & p & Np & Hp) d x N.
  pose proof (i_pre st H s p Np Hp d x N) as Q. unfold daemon_quiet in Q.
  destruct (d_pc x) eqn:P; try discriminate; [|reflexivity].
  exfalso. pose proof (i_d st H d x N) as Dv. unfold dinv in Dv. rewrite P in Dv.
  destruct Dv as (_ & S & _). unfold dial in D. rewrite S, N, P in D. discriminate.
Qed.

Lemma inv_step st l st' : INV st -> guard st l = true -> step st l = Some st' -> INV st'.
Proof.
  intros H G S. destruct l; cbn [step] in S; cbn [guard] in G.
  - (* LBegin *) destruct (nth_error (ss st) s) as [[]|] eqn:N; inversion S; subst.
    eapply inv_sets; eauto; try discriminate.
    + intros _ d x Nd. unfold quiescent in G. apply andb_true_iff in G as [_ G]. eapply forallb_nth; eassumption.
    + intros [E|E]; discriminate.
  - (* LLstat *) destruct (nth_error (ss st) s) as [[]|] eqn:N; inversion S; subst.
    assert (Q : forall d x, nth_error (ds st) d = Some x -> daemon_quiet x = true)
      by (eapply (i_pre st H s SLstat); eauto).
    destruct (sock st) eqn:K.
    + eapply inv_sets; eauto; try discriminate; try (intros [E|E]; discriminate).
      intros _ d x Nd. pose proof (Q d x Nd) as Qx. unfold daemon_quiet in Qx.
      destruct (d_pc x) eqn:P; try discriminate; [|reflexivity].
      exfalso. pose proof (i_d st H d x Nd) as Dv. unfold dinv in Dv. rewrite P in Dv.
      destruct Dv as (_ & S' & _). congruence.
    + eapply inv_sets; eauto; try discriminate; try (intros [E|E]; discriminate).
    + eapply inv_sets; eauto; try discriminate; try (intros [E|E]; discriminate).
  - (* LDial *) destruct (nth_error (ss st) s) as [[]|] eqn:N; try discriminate.
    destruct (dial st) eqn:D; inversion S; subst.
    + eapply inv_sets; eauto; try discriminate; try (intros [E|E]; discriminate).
    + eapply inv_sets; eauto; try discriminate; try (intros [E|E]; discriminate).
      intros _. eapply dial_refused_dead; eauto.
    + apply dial_ok in D as (x & Nd & P & O).
      rewrite (i_old st H d x Nd) in O. subst old.
      eapply inv_sets; eauto; try discriminate; try (intros [E|E]; discriminate).
      intros e E. inversion E; subst. eauto.
    + eapply inv_sets; eauto; try discriminate; try (intros [E|E]; discriminate).
  - (* LRemove *) destruct (nth_error (ss st) s) as [[]|] eqn:N; try discriminate.
    assert (Dd : forall d x, nth_error (ds st) d = Some x -> d_pc x = DDead)
      by (eapply (i_rs st H s SRemove); eauto).
    destruct (sock st) eqn:K; inversion S; subst.
    + eapply inv_sets; eauto; try discriminate; try (intros [E|E]; discriminate).
    + apply (inv_sets (mkSt SkNone (lock st) (ds st) (ss st)) s SRemove SSpawn); cbn [ss ds]; auto;
        try discriminate; try (intros [E|E]; discriminate). apply inv_unlink_dead; assumption.
    + apply (inv_sets (mkSt SkNone (lock st) (ds st) (ss st)) s SRemove SSpawn); cbn [ss ds]; auto;
        try discriminate; try (intros [E|E]; discriminate). apply inv_unlink_dead; assumption.
  - (* LKillSig *) destruct (nth_error (ss st) s) as [[]|] eqn:N; try discriminate.
    pose proof (i_nokill st H s _ N). discriminate.
  - (* LKillWait *) destruct (nth_error (ss st) s) as [[]|] eqn:N; try discriminate.
    pose proof (i_nokill st H s _ N). discriminate.
  - (* LKillTimeout *) destruct (nth_error (ss st) s) as [[]|] eqn:N; try discriminate.
    pose proof (i_nokill st H s _ N). discriminate.
  - (* LSpawn *) destruct (nth_error (ss st) s) as [[]|] eqn:N; inversion S; subst.
    assert (Dd : forall d x, nth_error (ds st) d = Some x -> d_pc x = DDead)
      by (eapply (i_rs st H s SSpawn); eauto).
    assert (H1 : INV (sets st s SPollLstat)).
    { eapply inv_sets; eauto; try discriminate; try (intros [E|E]; discriminate). }
    apply (inv_app (sets st s SPollLstat) H1); cbn [sets ds ss]; [assumption|].
    intros s0 p0 N0. apply nth_upd_inv in N0 as [(_ & -> & _)|(NE & N0)].
    + repeat split; discriminate.
    + assert (I : shell_idle p0 = true).
      { destruct (shell_idle p0) eqn:I; [reflexivity|]. exfalso. apply NE.
        eapply (i_act st H s s0); eauto. }
      repeat split; intros ->; discriminate.
  - (* LSpawnFail *) destruct (nth_error (ss st) s) as [[]|] eqn:N; inversion S; subst.
    eapply inv_sets; eauto; try discriminate; try (intros [E|E]; discriminate).
  - (* LPollLstat *) destruct (nth_error (ss st) s) as [[]|] eqn:N; try discriminate.
    destruct (sock st); inversion S; subst;
      eapply inv_sets; eauto; try discriminate; try (intros [E|E]; discriminate).
  - (* LPollDial *) destruct (nth_error (ss st) s) as [[]|] eqn:N; try discriminate.
    destruct (dial st) eqn:D; inversion S; subst;
      try (eapply inv_sets; eauto; try discriminate; try (intros [E|E]; discriminate); fail).
    apply dial_ok in D as (x & Nd & P & O).
    rewrite (i_old st H d x Nd) in O. subst old.
    eapply inv_sets; eauto; try discriminate; try (intros [E|E]; discriminate).
    intros e E. inversion E; subst. eauto.
  - (* LPollTimeout *) destruct (nth_error (ss st) s) as [[]|] eqn:N; inversion S; subst.
    eapply inv_sets; eauto; try discriminate; try (intros [E|E]; discriminate).
  - (* LLeave *) destruct (nth_error (ss st) s) as [[]|] eqn:N; try discriminate.
    assert (H1 : INV (sets st s SGone)).
    { eapply inv_sets; eauto; try discriminate; try (intros [E|E]; discriminate). }
    destruct (nth_error (ds st) d) as [x|] eqn:Nd; [|inversion S; subst; exact H1].
    destruct (d_pc x) eqn:P; inversion S; subst; try exact H1.
    destruct (Nat.eqb_spec (nclients d (upd s SGone (ss st))) 0) as [Z|Z]; inversion S; subst; [|exact H1].
    assert (F : forallb shell_idle (upd s SGone (ss st)) = true).
    { unfold quiescent in G. apply andb_true_iff in G as [G _]. apply forallb_upd; [assumption|reflexivity]. }
    pose proof (i_d st H d x Nd) as Dv. unfold dinv in Dv. rewrite P in Dv. destruct Dv as (B & K & L).
    apply (inv_dstep (sets st s SGone) d x (set_pc x DExit1) (sock st) (lock st) H1); cbn [sets ds ss sock lock]; auto.
    + congruence.
    + cbn. eapply i_old; eassumption.
    + unfold dinv. cbn. auto.
    + right. intros s0 C. exact (nclients_zero _ _ _ _ Z C eq_refl).
    + right. apply idle_no_pre. assumption.
    + intros e E. rewrite L in E. inversion E; subst. auto.
    + intros e E. rewrite K in E. inversion E; subst. cbn. auto.
  - (* LListen *) destruct (nth_error (ds st) d) as [x|] eqn:Nd; try discriminate.
    destruct (d_pc x) eqn:P; try discriminate.
    assert (A : d_pc x <> DDead) by congruence.
    pose proof (i_d st H d x Nd) as Dv. unfold dinv in Dv. rewrite P in Dv.
    assert (NC : forall s, nth_error (ss st) s <> Some (SConn d)).
    { intros s C. destruct (i_conn st H s d C) as (y & Ny & Py). congruence. }
    assert (NL : forall e, lock st = Some e -> False).
    { intros e E. destruct (lock_is st d x e H Nd A E) as [_ B]. congruence. }
    assert (NP : forall s p, nth_error (ss st) s = Some p -> p <> SLstat /\ p <> SDial).
    { eapply no_pre; eauto. unfold daemon_quiet. rewrite P. reflexivity. }
    destruct (sock st) eqn:K; inversion S; subst.
    + apply (inv_dstep st d x (set_pc x DOpenDB) (SkOwned d) (lock st) H Nd A); auto.
      * cbn. eapply i_old; eassumption.
      * unfold dinv. cbn. auto.
      * intros e E. exfalso. eauto.
      * intros e E. inversion E; subst. cbn. auto.
    + unfold setd. rewrite K.
      apply (inv_dstep st d x (set_pc x DDead) SkStale (lock st) H Nd A); auto.
      * cbn. eapply i_old; eassumption.
      * intros e E. exfalso. eauto.
      * discriminate.
    + unfold setd. rewrite K.
      apply (inv_dstep st d x (set_pc x DDead) (SkOwned d0) (lock st) H Nd A); auto.
      * cbn. eapply i_old; eassumption.
      * intros e E. exfalso. eauto.
      * intros e E. inversion E; subst. exfalso.
        destruct (sock_is st d x e H Nd A K) as [_ [B|[B|B]]]; congruence.
  - (* LOpenDB *) destruct (nth_error (ds st) d) as [x|] eqn:Nd; try discriminate.
    destruct (d_pc x) eqn:P; try discriminate. destruct (lock st) eqn:L; inversion S; subst.
    assert (A : d_pc x <> DDead) by congruence.
    pose proof (i_d st H d x Nd) as Dv. unfold dinv in Dv. rewrite P in Dv. destruct Dv as [B K].
    apply (inv_dstep st d x (mkD DServe true (d_old x)) (sock st) (Some d) H Nd A); auto.
    + cbn. eapply i_old; eassumption.
    + unfold dinv. cbn. auto.
    + intros e E. inversion E; subst. auto.
    + intros e E. rewrite K in E. inversion E; subst. cbn. auto.
  - (* LDBTimeout *) destruct (nth_error (ds st) d) as [x|] eqn:Nd; try discriminate.
    destruct (d_pc x) eqn:P; try discriminate. destruct (lock st) eqn:L; inversion S; subst.
    exfalso. assert (A : d_pc x <> DDead) by congruence.
    pose proof (i_d st H d x Nd) as Dv. unfold dinv in Dv. rewrite P in Dv. destruct Dv as [B K].
    destruct (lock_is st d x n H Nd A L) as [_ B']. congruence.
  - (* LExit1 *) destruct (nth_error (ds st) d) as [x|] eqn:Nd; try discriminate.
    destruct (d_pc x) eqn:P; inversion S; subst.
    assert (A : d_pc x <> DDead) by congruence.
    pose proof (i_d st H d x Nd) as Dv. unfold dinv in Dv. rewrite P in Dv. destruct Dv as (B & K & L & F).
    apply (inv_dstep st d x (set_pc x DExit2) SkNone (lock st) H Nd A); auto.
    + cbn. eapply i_old; eassumption.
    + unfold dinv. cbn. auto.
    + right. intros s C. destruct (i_conn st H s d C) as (y & Ny & Py). congruence.
    + right. apply idle_no_pre. assumption.
    + intros e E. rewrite L in E. inversion E; subst. auto.
    + discriminate.
  - (* LExit2 *) destruct (nth_error (ds st) d) as [x|] eqn:Nd; try discriminate.
    destruct (d_pc x) eqn:P; inversion S; subst.
    assert (A : d_pc x <> DDead) by congruence.
    pose proof (i_d st H d x Nd) as Dv. unfold dinv in Dv. rewrite P in Dv. destruct Dv as (B & K & L & F).
    rewrite B.
    apply (inv_dstep st d x (mkD DExit3 false (d_old x)) (sock st) None H Nd A); auto.
    + cbn. eapply i_old; eassumption.
    + unfold dinv. cbn. auto.
    + right. intros s C. destruct (i_conn st H s d C) as (y & Ny & Py). congruence.
    + right. apply idle_no_pre. assumption.
    + discriminate.
    + intros e E. congruence.
  - (* LExit3 *) destruct (nth_error (ds st) d) as [x|] eqn:Nd; try discriminate.
    destruct (d_pc x) eqn:P; inversion S; subst.
    assert (A : d_pc x <> DDead) by congruence.
    pose proof (i_d st H d x Nd) as Dv. unfold dinv in Dv. rewrite P in Dv. destruct Dv as (B & K & F).
    apply (inv_dstep st d x (set_pc x DDead) SkNone (lock st) H Nd A); auto.
    + cbn. eapply i_old; eassumption.
    + right. intros s C. destruct (i_conn st H s d C) as (y & Ny & Py). congruence.
    + intros e E. destruct (lock_is st d x e H Nd A E) as [_ B']. congruence.
    + discriminate.
  - (* LCrash *) destruct (nth_error (ds st) d) as [x|] eqn:Nd; try discriminate.
    assert (A : d_pc x <> DDead) by (intros E; rewrite E in S; discriminate).
    assert (S' : st' = mkSt (if sock_eqb (sock st) (SkOwned d) then SkStale else sock st)
                            (if olock_eqb (lock st) (Some d) then None else lock st)
                            (upd d (mkD DDead false (d_old x)) (ds st)) (drop d (ss st))).
    { destruct (d_pc x); inversion S; subst; try reflexivity; try congruence. }
    subst st'. clear S.
    pose proof (inv_drop st d H) as H1.
    apply (inv_dstep (mkSt (sock st) (lock st) (ds st) (drop d (ss st))) d x (mkD DDead false (d_old x)) _ _ H1);
      cbn [ds ss sock lock].
    + exact Nd.
    + exact A.
    + cbn. eapply i_old; eassumption.
    + reflexivity.
    + right. intros s C. unfold drop in C. apply nth_map_inv in C as (y & Ny & E). symmetry in E.
      apply drop1_conn in E as [_ NE]. congruence.
    + left. reflexivity.
    + intros e E. exfalso. destruct (lock st) as [e'|] eqn:L; cbn in E.
      * destruct (lock_is st d x e' H Nd A L) as [-> _]. rewrite Nat.eqb_refl in E. discriminate.
      * discriminate.
    + intros e E. exfalso. destruct (sock st) as [| |e'] eqn:K; cbn in E; try discriminate.
      destruct (sock_is st d x e' H Nd A K) as [-> _]. rewrite Nat.eqb_refl in E. discriminate.
Qed.

Lemma inv_srun ls : forall st st', INV st -> srun st ls = Some st' -> INV st'.
Proof.
  induction ls as [|l ls IH]; intros st st' H R; cbn in R.
  - inversion R; subst; assumption.
  - destruct (guard st l) eqn:G; [|discriminate].
    destruct (step st l) eqn:S; [|discriminate]. eapply IH; [|eassumption]. eapply inv_step; eassumption.
Qed.

Lemma inv_init n stale : INV (init n stale).
Proof.
  constructor; cbn [init ds ss sock lock].
  - intros d x N. destruct d; discriminate.
  - intros s d C. apply nth_repeat in C. discriminate.
  - intros s p N. apply nth_repeat in N. subst. reflexivity.
  - intros s1 s2 p1 p2 N1 N2 A1. apply nth_repeat in N1. subst. discriminate.
  - intros d1 d2 x1 x2 N1. destruct d1; discriminate.
  - intros s p N [E|E]; apply nth_repeat in N; congruence.
  - intros s p N [E|E]; apply nth_repeat in N; congruence.
  - intros d x N. destruct d; discriminate.
  - discriminate.
  - destruct stale; discriminate.
Qed.

(* ---- the property statements, for serialized schedules ---- *)

Lemma pc_of_inv st d pc : pc_of st d = pc -> pc <> DDead -> exists x, nth_error (ds st) d = Some x /\ d_pc x = pc.
Proof. unfold pc_of. destruct (nth_error (ds st) d); intros E A; [eauto|congruence]. Qed.

Lemma one_daemon_per_socket n stale ls st :
  srun (init n stale) ls = Some st ->
  (forall d1 d2, pc_of st d1 = DServe -> pc_of st d2 = DServe -> d1 = d2) /\
  (forall d, pc_of st d = DServe -> sock st = SkOwned d /\ lock st = Some d /\ db_of st d = true).
Proof.
  intros R. pose proof (inv_srun ls _ _ (inv_init n stale) R) as H. split.
  - intros d1 d2 P1 P2.
    apply pc_of_inv in P1 as (x1 & N1 & Q1); [|discriminate].
    apply pc_of_inv in P2 as (x2 & N2 & Q2); [|discriminate].
    eapply (i_uniq st H); eauto; congruence.
  - intros d P. apply pc_of_inv in P as (x & N & Q); [|discriminate].
    pose proof (i_d st H d x N) as D. unfold dinv in D. rewrite Q in D. destruct D as (B & K & L).
    unfold db_of. rewrite N. auto.
Qed.

Lemma connected_daemon_owns_db n stale ls st s d :
  srun (init n stale) ls = Some st -> nth_error (ss st) s = Some (SConn d) ->
  pc_of st d = DServe /\ lock st = Some d /\ db_of st d = true /\ sock st = SkOwned d.
Proof.
  intros R C. pose proof (inv_srun ls _ _ (inv_init n stale) R) as H.
  destruct (i_conn st H s d C) as (x & N & P).
  pose proof (i_d st H d x N) as D. unfold dinv in D. rewrite P in D. destruct D as (B & K & L).
  unfold pc_of, db_of. rewrite N. auto.
Qed.

(* when a daemon is about to unlink the path (os.Remove at DExit1, listener.Close at
   DExit3), the path is its own socket or already gone *)
Lemma exit_removes_only_own_socket n stale ls st d :
  srun (init n stale) ls = Some st -> (pc_of st d = DExit1 \/ pc_of st d = DExit3) ->
  sock st = SkOwned d \/ sock st = SkNone.
Proof.
  intros R P. pose proof (inv_srun ls _ _ (inv_init n stale) R) as H.
  destruct P as [P|P]; apply pc_of_inv in P as (x & N & Q); try discriminate;
    pose proof (i_d st H d x N) as D; unfold dinv in D; rewrite Q in D.
  - left. tauto.
  - right. tauto.
Qed.

(* a shell removes the path only when no daemon is alive (the stale-socket branch is safe) *)
Lemma shell_removes_only_stale n stale ls st s d :
  srun (init n stale) ls = Some st -> nth_error (ss st) s = Some SRemove -> pc_of st d = DDead.
Proof.
  intros R C. pose proof (inv_srun ls _ _ (inv_init n stale) R) as H.
  unfold pc_of. destruct (nth_error (ds st) d) eqn:N; [|reflexivity].
  eapply (i_rs st H s SRemove); eauto.
Qed.

(* serialized schedules are schedules *)
Lemma srun_run ls : forall st st', srun st ls = Some st' -> run st ls = Some st'.
Proof.
  induction ls as [|l ls IH]; intros st st' R; cbn in *; [assumption|].
  destruct (guard st l); [|discriminate]. destruct (step st l); [|discriminate]. apply IH. assumption.
Qed.
