(* C23 — a larger class on which the greedy matcher is complete (hence agrees
   with the reference matcher): every star that is followed by another star in
   the same element either is followed by an unrestricted star (exchange
   argument), or is followed by a literal whose first rune its own class rejects
   (then the position where its chunk ends is forced, and greedy = backtracking).

   Note: "a restricted star followed by a literal outside its class" alone is
   NOT sufficient: in *b*[set:c]d the restricted star is followed by such a
   literal and the match of bxbcd is still missed; what matters is that the
   star BEFORE a restricted star is pinned. *)
From verif Require Import lib.Base lib.Utf8 model.C23
  proofs.C23_proofs proofs.C23_glob_proofs proofs.C23_top_proofs proofs.C23_more_proofs.
Open Scope nat_scope.

Section Blocked.
Variable decode : bytes -> N * nat.
Hypothesis decode_progress : forall s, s <> [] -> 1 <= snd (decode s) <= length s.

(* the fixed part starts with a literal whose first rune the star rejects *)
Definition blocks (w : wild) (fx : list seg) : Prop :=
  exists d tl, fx = Lit d :: tl /\ d <> [] /\ forall x, wmatch w (fst (decode (d ++ x))) = false.

Definition pair_ok (c1 c2 : option wild * list seg) : Prop :=
  match fst c1, fst c2 with
  | Some w1, Some w2 =>
    (w_ms w2 = [] /\ Forall (complete_seg decode) (snd c1)) \/ blocks w1 (snd c1)
  | _, _ => True
  end.

Fixpoint chain_ok (cs : list (option wild * list seg)) : Prop :=
  match cs with
  | [] => True
  | c1 :: tl => match tl with [] => True | c2 :: _ => pair_ok c1 c2 end /\ chain_ok tl
  end.

Lemma greedy_complete_sr w fx last s1 rest1 :
  accept last (matchFixed decode fx s1) = Some rest1 ->
  forall name, SR decode w name s1 -> forall fuel, length name <= fuel ->
  exists s0 rest0, greedy decode fuel w fx last name = Some rest0 /\
                   accept last (matchFixed decode fx s0) = Some rest0 /\ SR decode w s0 s1.
Proof.
  intros Hacc name Hs. induction Hs; intros fuel Hl.
  - exists s, rest1. unfold greedy. rewrite Hacc.
    split; [reflexivity|split; [first [reflexivity|assumption]|constructor]].
  - unfold greedy. destruct (accept last (matchFixed decode fx s)) as [r0|] eqn:Ea.
    + exists s, r0. split; [reflexivity|split; [first [reflexivity|assumption]|]].
      eapply SR_step; eauto.
    + pose proof (step_shorter decode decode_progress _ _ _ H H0) as Hsh.
      destruct fuel as [|f]; [destruct s; [congruence|simpl in Hl; lia]|].
      destruct (IHHs Hacc f ltac:(lia)) as (s0 & rest0 & Hg & Ha0 & Hr).
      exists s0, rest0. split; [|split; assumption].
      simpl. destruct s as [|c nm]; [congruence|]. rewrite H0, H1. exact Hg.
Qed.

Lemma blocked_forced w fx s0 s1 rest0 : blocks w fx ->
  SR decode w s0 s1 -> matchFixed decode fx s0 = Some rest0 -> s0 = s1.
Proof.
  intros (d & tl & -> & Hd & Hb) Hs Hm. inversion Hs; subst; [reflexivity|]. exfalso.
  simpl in Hm. destruct s0 as [|c nm]; [congruence|].
  destruct (strip_prefix d (c :: nm)) as [r'|] eqn:E; [|discriminate].
  apply strip_prefix_spec in E. specialize (Hb r'). rewrite <- E, H0 in Hb. simpl in Hb. congruence.
Qed.

Lemma match_chunks_complete2 cs : Forall chunk_ok cs -> chain_ok cs ->
  match cs with [] => True | _ :: tl => Forall has_star tl end ->
  forall name, Matches decode false (unchunk cs) name -> match_chunks decode cs name = true.
Proof.
  induction cs as [|[st fx] tl IH]; intros Hc Hq Ht name Hm.
  - simpl in Hm. inversion Hm. reflexivity.
  - inversion Hc as [|? ? [Hf Hst] Hc']; subst. simpl in Hf, Hst.
    unfold unchunk in Hm. simpl in Hm. fold (unchunk tl) in Hm. rewrite <- app_assoc in Hm.
    simpl in Hq. destruct Hq as [Hpair Hq'].
    assert (Httl : match tl with [] => True | _ :: tl' => Forall has_star tl' end).
    { destruct tl; [exact I|]. inversion Ht; assumption. }
    specialize (IH Hc' Hq' Httl).
    assert (Hlast : forall rest, Matches decode false (unchunk tl) rest -> is_nil tl = true -> rest = []).
    { intros rest Hr Hn. apply is_nil_true in Hn; subst tl. simpl in Hr. inversion Hr; reflexivity. }
    simpl match_chunks.
    destruct st as [w|]; simpl in Hm.
    + destruct (star_split decode _ _ _ Hst Hm) as (s1 & Hsr & Hm1).
      destruct (fixed_split decode _ Hf _ _ Hm1) as (rest1 & E1 & Hr1).
      assert (Hacc : accept (is_nil tl) (matchFixed decode fx s1) = Some rest1).
      { rewrite E1. apply accept_intro. intros Hn. eapply Hlast; eauto. }
      destruct (greedy_complete_sr w fx _ _ _ Hacc _ Hsr (length name) (le_n _))
        as (s0 & rest0 & Hg & Ha0 & Hr0).
      assert (Hcont : match_chunks decode tl rest0 = true).
      { apply accept_some in Ha0 as [E0 Hl0].
        destruct tl as [|[st' fx'] tl'].
        - rewrite (Hl0 eq_refl). reflexivity.
        - apply IH. inversion Ht as [|? ? [w' Hw'] _]; subst. simpl in Hw'. subst st'.
          unfold pair_ok in Hpair. simpl in Hpair. destruct Hpair as [[Hu Hal]|Hbl].
          + unfold unchunk in Hr1 |- *. simpl in Hr1 |- *.
            inversion Hc' as [|? ? [_ Hst'] _]; subst. simpl in Hst'.
            eapply (absorb decode); [exact Hst'|exact Hu| |exact Hr1].
            exact (fixed_aligned decode decode_progress fx Hal _ _ _ _ (SR_RS decode _ _ _ Hr0) E0 E1).
          + pose proof (blocked_forced _ _ _ _ _ Hbl Hr0 E0) as Es. subst s1.
            rewrite E0 in E1. inversion E1; subst. exact Hr1. }
      unfold greedy in Hg.
      destruct (accept (is_nil tl) (matchFixed decode fx name)) as [r|] eqn:Ea.
      * inversion Hg; subst. exact Hcont.
      * rewrite Hg. exact Hcont.
    + destruct (fixed_split decode _ Hf _ _ Hm) as (rest & E & Hr).
      rewrite E. rewrite accept_intro by (intros Hn; eapply Hlast; eauto).
      apply IH, Hr.
Qed.

Lemma match_element_complete_blocked_gen segs name : chain_ok (chunks segs) ->
  ElemMatches decode segs name -> matchElement decode segs name = true.
Proof.
  intros Hq [Hb Hm]. unfold matchElement. destruct segs as [|s tl].
  - inversion Hm. reflexivity.
  - apply hidden_block_false in Hb. rewrite Hb.
    destruct (chunks_spec (s :: tl)) as (E & Hc & Ht).
    apply match_chunks_complete2; [exact Hc|exact Hq| |rewrite E; eapply Matches_weaken; exact Hm].
    destruct (chunks (s :: tl)) as [|[st fx] tl'] eqn:Ec; [exact I|]. eapply Ht; reflexivity.
Qed.

End Blocked.

(* ---- with the concrete decoder ---- *)

Lemma match_element_complete_blocked segs name : chain_ok dec (chunks segs) ->
  ElemSpec segs name -> matchElement dec segs name = true.
Proof. apply match_element_complete_blocked_gen. exact decode_rune_progress. Qed.

(* on that class (and with uniform hidden flags, no empty literal) the greedy
   matcher and the reference matcher compute the same function *)
Lemma greedy_agrees_with_reference segs name :
  chain_ok dec (chunks segs) -> no_empty_lit segs ->
  Forall wild_hidden segs \/ Forall no_hidden_star segs ->
  matchElement dec segs name = ref_elem dec segs name.
Proof.
  intros Hc Hn Hu. destruct (matchElement dec segs name) eqn:Em.
  - symmetry. apply ref_elem_iff. eapply match_element_sound_partial; eauto.
  - destruct (ref_elem dec segs name) eqn:Er; [|reflexivity].
    apply ref_elem_iff in Er. rewrite (match_element_complete_blocked _ _ Hc Er) in Em. discriminate.
Qed.

(* non-vacuity: *[set:c]d*[set:e]f is in the class (the first star is pinned by
   the literal d), although its second star is restricted *)
Definition wSet (c : N) := mkWild Star false [MSet [c]].
Example blocked_example :
  chain_ok dec (chunks [Wild (wSet 99); Lit [100%N]; Wild (wSet 101); Lit [102%N]]).
Proof.
  simpl. split; [|split; exact I]. unfold pair_ok. simpl. right.
  exists [100%N], []. split; [reflexivity|]. split; [discriminate|]. intros x. reflexivity.
Qed.
